import Fcgi.Proofs.IgnoreCross
import Fcgi.Props.C05Chain4
/-!
# C05 at the sync level, part 5 — loop-append, and the skip that crosses from Stdin into Data

* `parse_append_ign` (`Str.loop_append`): a state-level decomposition of ONE `parse` call in ignore
  mode over `a ++ b`: if the call over `a` alone consumes all of `a` and ends at a record boundary,
  the call over `a ++ b` leaves the parser (output buffer included) that the call over `b` from that
  state leaves, with the same kind of result.  Micro-steps: `parseHead_feed`, `parsePayload_feed`,
  `iter_feed_cont`, `iter_feed_stop_clean`; the `Status` a call starts from does not influence the
  parser it leaves (`loop_res`); in ignore mode `Ok` at a record boundary means every complete record
  was consumed (`loop_ign_short`).
* `skip_crossing_ledger`: the skip of a Filter turn that starts INSIDE / IN FRONT OF the Stdin
  records and runs on into the Data records — the crossing call is split by `parse_append_ign` into
  the call that ends behind the Stdin terminator (view `⟨id,3,8⟩`, `E2E.parse_r2`) and the call over
  the Data bytes (view `⟨id,1,5⟩`, `E2E.parse_r2f`, started by `r2f_clean`).
* `filter_unswitched_replies`: a Filter that never switches to `Data` and drops the stream from stream
  `Stdin` (any reads of `Stdin`, stop anywhere): replies = owed for all Stdin records and the Data
  records consumed; hand-over = the record suffix.
-/
namespace Fcgi.C05C
open Fcgi Fcgi.Req Fcgi.Str Fcgi.Spec

/-- **Loop-append, at the level of one call.** -/
theorem parse_append_ignore {p : Str.Parser} {a b : Bytes} {q : Str.Parser} {st : Status} (hinv : SInv p)
    (hig : Str.Ign p) (hfree : (a ++ b).length ≤ p.free) (ha : p.parse a none = (q, .ok st)) (hc : Str.Clean q) :
    (p.parse (a ++ b) none).1 = (q.parse b none).1 ∧
      Str.okRes (p.parse (a ++ b) none).2 = Str.okRes (q.parse b none).2 :=
  Str.parse_append_ign hinv hig hfree ha hc

/-- **The skip that crosses from the Stdin records into the Data records** (see
`Proofs/IgnoreCross.lean`, `skip_cross_ledger`). -/
theorem skip_crossing_ledger {id mc cap : Nat} {R5 Rd : List Rec} (h5 : ∀ r ∈ R5, E2E.StdinRec id r)
    (hfit5 : NoiseFits cap R5) (hrd : ∀ r ∈ Rd, E2E.DataRec id r) (hfitd : NoiseFits cap Rd) (hid : id < 65536)
    (h8 : 8 ≤ cap) {s : Str.Parser} {G f5 n2 fut dO : Bytes} {N1 N2 : List Op} {dest : Option Nat}
    (h2 : E2E.R2 id mc cap R5 s G (fedBytes N1 ++ f5) dO) (hinv : SInv s) (hig : Str.Ign s)
    (hl : LegalAll s (N1 ++ Op.parse (f5 ++ n2) dest :: N2))
    (hwd : n2 ++ (fedBytes N2 ++ fut) = serAll Rd)
    (hb : (applyOps s (N1 ++ Op.parse (f5 ++ n2) dest :: N2)).isRecordBoundary = true) :
    ∃ d rs, Rd = d ++ rs ∧
      dO ++ C03S.grownAll s (N1 ++ Op.parse (f5 ++ n2) dest :: N2) = E2E.owedI id mc R5 ++ E2E.owedI id mc d ∧
      (applyOps s (N1 ++ Op.parse (f5 ++ n2) dest :: N2)).raw ++ fut = serAll rs :=
  skip_cross_ledger ⟨h5, hid, hfit5, h8⟩ ⟨hrd, hid, hfitd, h8⟩ h2 hinv hig hl hwd hb

/-- **A Filter that never switches to `Data`.** -/
theorem filter_unswitched_replies {id mc cap : Nat} {R5 Rd : List Rec} (h5 : ∀ r ∈ R5, E2E.StdinRec id r)
    (hfit5 : NoiseFits cap R5) (hrd : ∀ r ∈ Rd, E2E.DataRec id r) (hfitd : NoiseFits cap Rd) (hid : id < 65536)
    (h8 : 8 ≤ cap) {p0 : Str.Parser} (h0 : C03SI.Start ⟨id, 3, 5, mc⟩ p0) (hcap : p0.cap = cap)
    {H N1 N2 : List Op} {f5 n2 fut : Bytes} {dest : Option Nat}
    (hl : LegalAll p0 (H ++ Op.setStream none :: (N1 ++ Op.parse (f5 ++ n2) dest :: N2)))
    (hns : Str.NoSwitch ⟨id, 3, 5, mc⟩ H)
    (hw5 : p0.raw ++ fedBytes H ++ (fedBytes N1 ++ f5) = serAll R5)
    (hwd : n2 ++ (fedBytes N2 ++ fut) = serAll Rd)
    (hb : (applyOps p0 (H ++ Op.setStream none :: (N1 ++ Op.parse (f5 ++ n2) dest :: N2))).isRecordBoundary = true) :
    ∃ d rs, Rd = d ++ rs ∧
      C03S.grownAll p0 (H ++ Op.setStream none :: (N1 ++ Op.parse (f5 ++ n2) dest :: N2)) =
        E2E.owedI id mc R5 ++ E2E.owedI id mc d ∧
      (applyOps p0 (H ++ Op.setStream none :: (N1 ++ Op.parse (f5 ++ n2) dest :: N2))).raw ++ fut = serAll rs :=
  filter_unswitched_ledger ⟨h5, hid, hfit5, h8⟩ ⟨hrd, hid, hfitd, h8⟩ h0 hcap hl hns hw5 hwd hb

namespace Example5
open Fcgi.C05.Examples Fcgi.C05C.Example Fcgi.C05C.Example3

/-- the Filter's parser holds the first Stdin record only; the caller reads ONE byte of it, drops the
stream; the skip's single call brings the end of Stdin AND the Data records: it crosses -/
def pU : Str.Parser := Str.Parser.fromParser 256 reqF exStdin.ser 3
def opsU : List Op :=
  [.parse [] (some 1)] ++ Op.setStream none :: ([] ++ Op.parse (exStdinEnd.ser ++ serAll rdF) (some 3) :: [.consumeOutput 64])

theorem exU : ∃ d rs, rdF = d ++ rs ∧
    C03S.grownAll pU opsU = E2E.owedI 1 3 [exStdin, exStdinEnd] ++ E2E.owedI 1 3 d ∧
    (applyOps pU opsU).raw ++ [] = serAll rs :=
  filter_unswitched_replies (id := 1) (mc := 3) (cap := 256) (R5 := [exStdin, exStdinEnd]) (Rd := rdF)
    (fun r hr => by
      simp only [List.mem_cons, List.not_mem_nil, or_false] at hr
      rcases hr with rfl | rfl <;> exact ⟨⟨by decide, by decide, by decide⟩, Or.inr ⟨rfl, rfl⟩⟩)
    (noiseFits_of_content (fun r hr _ _ => by
      simp only [List.mem_cons, List.not_mem_nil, or_false] at hr
      rcases hr with rfl | rfl <;> decide +kernel))
    (fun r hr => by
      simp only [rdF, List.mem_cons, List.not_mem_nil, or_false] at hr
      rcases hr with rfl | rfl | rfl
      · exact ⟨⟨by decide, by decide, by decide⟩, Or.inr ⟨rfl, rfl⟩⟩
      · exact ⟨gv_wf, Or.inl ⟨gv_wf, by decide⟩⟩
      · exact ⟨⟨by decide, by decide, by decide⟩, Or.inr ⟨rfl, rfl⟩⟩)
    (noiseFits_of_content (fun r hr _ _ => by
      simp only [rdF, List.mem_cons, List.not_mem_nil, or_false] at hr
      rcases hr with rfl | rfl | rfl <;> decide +kernel))
    (by decide) (by decide)
    (C03SI.start_fresh 256 reqF exStdin.ser 3 (by decide +kernel) (by decide) (Or.inr rfl)) rfl
    (H := [.parse [] (some 1)]) (N1 := []) (N2 := [.consumeOutput 64]) (f5 := exStdinEnd.ser) (n2 := serAll rdF)
    (fut := []) (dest := some 3)
    (by decide +kernel) (fun st h => by simp at h) (by decide +kernel) (by decide +kernel) (by decide +kernel)

/-- one byte delivered, the skip delivers nothing; the one reply is the `GetValuesResult` -/
example : deliveredOps pU opsU = [104] ∧ C03S.grownAll pU opsU = Vars.responseRecord 1 3 ∧
    (applyOps pU opsU).raw = [] := by decide +kernel

end Example5

end Fcgi.C05C
