import Fcgi.Proofs.E2EGate
import Fcgi.Props.C07Echo
/-!
# C09 — the output gate of a Filter, end to end up to the moment it opens

C09's clause "a request reports itself writeable, and hands out output-stream writers, only after every input stream
before its last has ended or been skipped past" was proved at the poll level.  Here: a whole connection with a
FILTER request whose handler does NOT read Stdin but awaits `writeable()` and then does anything (`rest`: typically
`open Stdout; write_all(data); …`) — handler script `.writeable :: rest` with ARBITRARY `rest`.

`filter_gate_e2e`: over any benign transport (any chunking, `Pending` anywhere), any preamble / Stdin / Data
segmentation and noise (within the C06 buffer bound), there is a number `k ≤ |rd| + |wr|` of polls such that

* every poll before the `(k+1)`-th ends `Pending` BEFORE the gate (`E2E.SGate`): the task is in the request's
  `parse_request`, or the handler is suspended in `writeable()` — no writer exists (`writers = []`), the request is
  not writeable, and the write log is `L₁ ++` owed replies only (`E2E.WH`); formally: for every `j ≤ k` the run with
  `j` polls ends `"FUEL"` in such a state;
* the `(k+1)`-th poll is the gate poll (`E2E.GatePoll`): (after the phase transitions that finish `parse_request`
  and start the handler, if this is the handler's first poll) the handler passes `.writeable` and continues with
  `rest` from a state `E2E.GateAt`:
  - the request is writeable (`open` will succeed);
  - `taken`: the bytes taken from the transport so far, `G`, start with the COMPLETE Stdin stream including its
    terminating empty record (`serAll g.R <+: G`, `g.R = body ++ [terminator]`; the preamble was consumed before),
    what is still in the transport lies inside the Data records (`inp`);
  - `log`: the write log is `L₁ ++` a prefix of the replies owed for the Stdin noise and the Data noise — no byte of
    the handler precedes this point, whatever `rest` goes on to write.

So no Stdout byte of the handler can precede the delivery of the Stdin terminator, on any run.

NOT covered: the run after the gate (the log then interleaves handler records and parser replies, for which
`Proofs/E2EStr` has no ledger — see `Props/C07Echo`); the replays show the complete runs on model and crate.
-/
namespace Fcgi.C09G
open Fcgi Fcgi.Req Fcgi.Str Fcgi.Async Fcgi.Run Fcgi.Spec Fcgi.E2E Fcgi.C07E Fcgi.C07U

/-- the configuration of a Filter request whose handler is `.writeable :: rest` -/
def cfgG (p : Preamble) (recs : List Rec) (content : Bytes) (body : List Rec) (pad : Bytes) (res : UInt8)
    (content2 : Bytes) (body2 : List Rec) (pad2 : Bytes) (res2 : UInt8)
    (b mc : Nat) (rest : List HOp) (L0 : Bytes) (h : Nat) (more : List (List HOp × Bool)) : E2E.Cfg :=
  { cfgFG p recs content body pad res content2 body2 pad2 res2 b mc (.complete 0) L0 h more with
    hscript := .writeable :: rest }

/-- **C09 end to end: the output gate of a Filter that skips Stdin.** -/
theorem filter_gate_e2e {p : Preamble} {recs : List Rec} {content : Bytes} {srecs : List Rec}
    {content2 : Bytes} {drecs : List Rec}
    {b mc : Nat} {rest : List HOp} {more : List (List HOp × Bool)} {t : Transport}
    (hwf : WellFormedPreamble p recs) (hrole : p.role = 3)
    (hpairs : ∀ q ∈ p.pairs, (NV.enc q).length ≤ alignedBufsize b)
    (hnoise : NoiseFits (alignedBufsize b) recs)
    (hs : StreamRecs p.id 5 content srecs) (hsn : NoiseFits (alignedBufsize b) srecs)
    (hd : StreamRecs p.id 8 content2 drecs) (hdn : NoiseFits (alignedBufsize b) drecs)
    (hin : t.input = serAll recs ++ (serAll srecs ++ serAll drecs)) (hben : Ben t) (hev : hsCount t.events = 0) :
    ∃ (g : E2E.Cfg) (k : Nat), g.p = p ∧ g.R = srecs ∧ g.R2 = drecs ∧ g.L0 = t.wlog ∧ k ≤ t.rd.length + t.wr.length ∧
      (∀ j, j ≤ k → ∃ cj, runTask j (connS b mc t ((.writeable :: rest, true) :: more)) 0 none = (cj, "FUEL") ∧
        SGate g rest cj) ∧
      ∃ ck, runTask k (connS b mc t ((.writeable :: rest, true) :: more)) 0 none = (ck, "FUEL") ∧
        GatePoll g rest (prePoll ck k none) := by
  obtain ⟨body, pad, res, hpad, hbody, hsrecs⟩ := StreamRecs.split hs
  obtain ⟨body2, pad2, res2, hpad2, hbody2, hdrecs⟩ := StreamRecs.split hd
  subst hsrecs hdrecs
  have fg := fgok_of (mc := mc) (st := .complete 0) t.wlog 0 more hwf hrole hpairs hnoise hs hsn hpad2 hbody2 hd hdn
  have ok : GOK (cfgG p recs content body pad res content2 body2 pad2 res2 b mc rest t.wlog 0 more) rest :=
    ⟨hwf, hrole, hpairs, hnoise, fg.str, fg.hf, fg.hb2, fg.str2, fg.hf2, fg.hp2, rfl, rfl, rfl⟩
  have hst : FStage (cfgG p recs content body pad res content2 body2 pad2 res2 b mc rest t.wlog 0 more)
      (connS b mc t ((.writeable :: rest, true) :: more)) :=
    .start (raw := []) rfl (by
      show [] ++ t.input = _
      rw [hin, C02.serAll_append, C02.serAll_single, C02.serAll_append, C02.serAll_single, List.append_assoc (serAll body)]
      rfl) (Nat.zero_le _) rfl hben rfl rfl rfl hev
  obtain ⟨k, hk, hall, ck, hrun, hgp⟩ := run_to_gate ok (ans t) (connS b mc t ((.writeable :: rest, true) :: more)) 0
    (Or.inl hst) rfl (Nat.le_refl _)
  refine ⟨_, k, rfl, rfl, rfl, rfl, hk, fun j hj => ?_, ck, hrun, by rw [Nat.zero_add] at hgp; exact hgp⟩
  obtain ⟨cj, h1, h2, _⟩ := hall j hj
  exact ⟨cj, h1, h2⟩

/-- what `GateAt` says, spelled out -/
theorem gateAt_facts {g : E2E.Cfg} {r : AReq} {m : MutexSt} {t : Transport} (h : GateAt g r m t) :
    r.writeable = true ∧ (∃ G, G ++ t.input = g.X ∧ serAll g.R <+: G) ∧
    t.input.length ≤ (serAll g.R2).length ∧ ∃ O₁, t.wlog = g.L1 ++ O₁ ∧ O₁ <+: g.K8u.O :=
  ⟨h.wr, h.taken, h.inp, h.log⟩

/-- before the gate, in the handler: no writer, not writeable -/
theorem wh_facts {g : E2E.Cfg} {rest : List HOp} {c : Conn} (h : WH g rest c) :
    ∃ r hs, c.phase = .handler r hs ∧ hs.writers = [] ∧ r.writeable = false ∧
      ∃ O₁, c.env.tr.wlog = g.L1 ++ O₁ := by
  obtain ⟨r, dO, hph, hs, hwr, _⟩ := h
  obtain ⟨O1, hl, _⟩ := hs.log
  exact ⟨r, _, hph, rfl, hwr, O1, hl⟩

/-! ## Non-vacuity -/
namespace Example
open Fcgi.C01.Example Fcgi.C07E.Example

/-- the Filter request of `Props/C07Writers3` (Stdin `nS` with noise owing replies, Data `fD` with a management
`GetValues` record), handler `writeable(); open Stdout; write_all "hi"; drop; return`, short transport reads -/
def gT : Transport :=
  { input := serAll recsF ++ (serAll nS ++ serAll fD), endMode := .pend,
    rd := [.n 20, .pending, .n 30, .n 1, .pending, .all], wr := [.n 5, .pending, .all, .n 1], fl := [] }

example : ∃ (g : E2E.Cfg) (k : Nat), g.R = nS ∧ k ≤ 10 ∧
    ∃ ck, runTask k (connS 64 10 gT (([.writeable, .open_ 6, .writeAll 0 [104, 105], .dropW 0, .ret (.complete 0)], true) :: [])) 0 none
        = (ck, "FUEL") ∧
      GatePoll g [.open_ 6, .writeAll 0 [104, 105], .dropW 0, .ret (.complete 0)] (prePoll ck k none) := by
  obtain ⟨g, k, _, hR, _, _, hk, _, ck, hrun, hg⟩ := filter_gate_e2e (p := preF) (recs := recsF) (content := [65, 66, 67])
    (srecs := nS) (content2 := [120, 121, 122]) (drecs := fD) (b := 64) (mc := 10)
    (rest := [.open_ 6, .writeAll 0 [104, 105], .dropW 0, .ret (.complete 0)]) (more := []) (t := gT)
    recsF_wf rfl (fun q hq => by cases hq) (recsF_fits _) nS_ok nS_fits fD_ok fD_fits rfl
    ⟨by decide, by decide, rfl, by decide⟩ rfl
  exact ⟨g, k, hR, hk, ck, hrun, hg⟩
end Example

end Fcgi.C09G
