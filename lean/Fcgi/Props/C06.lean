import Fcgi.Model.ReqParser
import Fcgi.Gen.Tables
import Fcgi.Proofs.ReqBasics
/-!
# C06 — Input buffer sizing: `Config::aligned_bufsize` and the "stuck on input" report

* the constants of `aligned_bufsize` in the model are the ones in `lib.rs` now (`Gen/Tables.lean`);
* `aligned_bufsize` is a multiple of 8, at least 24, at least the configured size and less than
  8 above it, for every configured size that does not overflow `usize` (in particular 0..1 MiB);
* a parser that has not finished always offers a non-empty input buffer, and a parser whose buffer
  is completely filled by an unfinished parsing unit reports `StuckOnInput` in that same call.

All statements quantify over every parser satisfying the bookkeeping invariant `Req.PInv`
(established by `Parser.new` / `Parser.fromParser`, preserved by every `parse`: `C03.parse_total`)
and every input that fits the offered buffer; no bound on sizes.
-/
namespace Fcgi.C06
open Fcgi Fcgi.Req

/-! ## 1. Constants -/

/-- Tie to the source: `MIN_BUF_SIZE`, `DEFAULT_BUF_SIZE`, the `+ 7` and the `& !7`. -/
theorem tables_agree :
    Gen.minBufSize = 24 ∧ Gen.defaultBufSize = 8192 ∧ Gen.alignMask = 7 ∧ Gen.alignAdd = 7 := by
  decide

/-- The model's `alignedBufsize` written with the generated constants (`r & !7 = r / 8 * 8`). -/
theorem aligned_tables (b : Nat) :
    alignedBufsize b =
      if b ≤ Gen.minBufSize then Gen.minBufSize
      else if b + Gen.alignAdd < 2 ^ 64 then (b + Gen.alignAdd) / (Gen.alignMask + 1) * (Gen.alignMask + 1)
      else 2 ^ 64 - 1 := rfl

/-- The minimum covers a record header plus a `BeginRequest` body … -/
theorem min_covers_begin : Gen.recordHeaderLen + Gen.beginRequestLen = 16 ∧ 16 ≤ Gen.minBufSize := by
  decide

/-- … and the longest `GetValues` pair the server knows, `FCGI_MPXS_CONNS` with an empty value
(2 length bytes + 15 name bytes = 17). -/
theorem min_covers_vars :
    (NV.enc (Vars.nameMpxsConns, [])).length = 17 ∧ 17 ≤ Gen.minBufSize ∧
      ∀ e ∈ Gen.protocolVarsTable, (NV.enc (e.1, [])).length ≤ 17 := by
  decide +kernel

/-- The names in the model's table are the generated ones. -/
theorem vars_table_agree : Vars.table = Gen.protocolVarsTable := by decide +kernel

/-! ## 2. `aligned_bufsize` -/

/-- For every configured size whose `+ 7` does not overflow `usize`: a multiple of 8, at least the
minimum, at least the configured size, and the least such (less than 8 above it) unless it is the
minimum. -/
theorem aligned_spec (b : Nat) (h : b + 7 < 2 ^ 64) :
    alignedBufsize b % 8 = 0 ∧ 24 ≤ alignedBufsize b ∧ b ≤ alignedBufsize b ∧
      (alignedBufsize b < b + 8 ∨ alignedBufsize b = 24) := by
  unfold alignedBufsize
  split
  · omega
  · first | omega | (split <;> omega)

/-- The overflow arm (`checked_add` fails) yields `usize::MAX`, which is *not* a multiple of 8.
It needs a configured size within 7 of `usize::MAX`, far outside the property's 0..1 MiB. -/
theorem aligned_overflow (b : Nat) (h : 2 ^ 64 ≤ b + 7) : alignedBufsize b = 2 ^ 64 - 1 := by
  unfold alignedBufsize
  rw [if_neg (by omega), if_neg (by omega)]

theorem aligned_overflow_not_multiple (b : Nat) (h : 2 ^ 64 ≤ b + 7) : alignedBufsize b % 8 = 7 := by
  rw [aligned_overflow b h]

/-- The default buffer size is already aligned. -/
theorem aligned_default : alignedBufsize Gen.defaultBufSize = Gen.defaultBufSize := by decide

/-- On the range the property quantifies over (0..1 MiB) the result is a multiple of 8 that is at
least 24 and at least the configured size. -/
theorem aligned_range (b : Nat) (h : b ≤ 1048576) :
    alignedBufsize b % 8 = 0 ∧ 24 ≤ alignedBufsize b ∧ b ≤ alignedBufsize b := by
  obtain ⟨a, b', c, _⟩ := aligned_spec b (by omega)
  exact ⟨a, b', c⟩

/-- A new parser's buffer has exactly the aligned size, all of it free. -/
theorem new_free (b mc : Nat) : (Parser.new b mc).free = alignedBufsize b := rfl

/-! ## 3. The input buffer of an unfinished parser is never full -/

/-- A parser that has not finished always offers a non-empty input buffer. -/
theorem not_done_has_space {p p' : Parser} {new : Bytes} {y : Yield} (hp : PInv p)
    (hn : new.length ≤ p.free) (h : p.parse new = (p', some y)) (hd : y.done = false) :
    0 < p'.free := by
  obtain ⟨_, _, hsuf⟩ := run_ok (p.input ++ new) p.maxConns hp.2.1
  have hle := hsuf.length_le
  have hcap : (p.input ++ new).length ≤ p.cap := by
    unfold Parser.free at hn; have := hp.1; simp only [List.length_append]; omega
  rw [parse_eq hp hn] at h
  split at h
  · cases h; cases hd
  · rename_i hc
    cases h
    simp only at hd
    simp only [hd, Bool.not_false, Bool.true_and, beq_iff_eq] at hc
    simp only [Parser.free]
    omega

/-- If a call leaves the input buffer completely full, that same call reports completion
(`done = true`) … -/
theorem stuck_reported_at_once {p p' : Parser} {new : Bytes} {y : Yield} (hp : PInv p)
    (hn : new.length ≤ p.free) (h : p.parse new = (p', some y)) (hfree : p'.free = 0) :
    y.done = true := by
  cases hd : y.done with
  | true => rfl
  | false => have := not_done_has_space hp hn h hd; omega

/-- … and unless the loop itself ended in a final state, the state left behind is
`Fatal(StuckOnInput)`. -/
theorem stuck_state {p p' : Parser} {new : Bytes} {y : Yield} (hp : PInv p)
    (hn : new.length ≤ p.free) (h : p.parse new = (p', some y)) (hfree : p'.free = 0)
    (hnf : (run p.state (p.input ++ new) p.maxConns).st.isFinal = false) :
    p'.state = .fatal .stuckOnInput ∧ p'.intoRequest = .error .stuckOnInput := by
  obtain ⟨_, _, hsuf⟩ := run_ok (p.input ++ new) p.maxConns hp.2.1
  have hle := hsuf.length_le
  have hcap : (p.input ++ new).length ≤ p.cap := by
    unfold Parser.free at hn; have := hp.1; simp only [List.length_append]; omega
  rw [parse_eq hp hn] at h
  split at h
  · cases h; exact ⟨rfl, rfl⟩
  · rename_i hc
    cases h
    simp only [hnf, Bool.not_false, Bool.true_and, beq_iff_eq] at hc
    simp only [Parser.free] at hfree
    omega

/-- Conversely: `StuckOnInput` is only ever produced with a completely full buffer, i.e. a single
unfinished parsing unit at least as large as the whole buffer. -/
theorem stuck_only_when_full {p p' : Parser} {new : Bytes} {y : Yield} (hp : PInv p)
    (hn : new.length ≤ p.free) (h : p.parse new = (p', some y))
    (hs : p'.state = .fatal .stuckOnInput)
    (hne : (run p.state (p.input ++ new) p.maxConns).st ≠ .fatal .stuckOnInput) :
    p'.free = 0 := by
  rw [parse_eq hp hn] at h
  split at h
  · rename_i hc
    cases h
    simp only [Bool.and_eq_true, beq_iff_eq] at hc
    simp only [Parser.free]
    omega
  · cases h
    exact (hne hs).elim

/-! ## Non-vacuity: concrete instances meeting the hypotheses -/

example : PInv (Parser.new 0 1) := new_inv 0 1
example : (Parser.new 0 1).free = 24 := by decide
example : alignedBufsize 25 = 32 ∧ alignedBufsize 1048576 = 1048576 ∧ alignedBufsize 1048569 = 1048576 := by
  decide
example : alignedBufsize (2 ^ 64 - 3) = 2 ^ 64 - 1 := aligned_overflow _ (by decide)

/-- A `BeginRequest` record (id 1, Responder) fed to a fresh minimum-size parser: not done, and
the whole buffer is offered again. -/
def exBegin : Bytes := [1, 1, 0, 1, 0, 8, 0, 0, 0, 1, 0, 0, 0, 0, 0, 0]

def exInner : Inner := { req := { id := 1, role := 1, flags := 0, env := [] }, buffer := [] }

theorem ex_begin_parse :
    (Parser.new 0 1).parse exBegin =
      ({ cap := 24, input := [], state := .params exInner 0 0, maxConns := 1 },
        some { done := false, output := [] }) := by
  have hs : step .header exBegin 1 = (.cont [] (.params exInner 0 0), []) := by decide
  have hr : run (Parser.new 0 1).state ((Parser.new 0 1).input ++ exBegin) (Parser.new 0 1).maxConns
      = { rem := [], st := .params exInner 0 0, out := [] } := run_cont_empty hs
  rw [parse_eq (new_inv 0 1) (by decide), hr]
  rfl

example : 0 < ((Parser.new 0 1).parse exBegin).1.free := by
  have := not_done_has_space (new := exBegin) (new_inv 0 1) (by decide) ex_begin_parse rfl
  rw [ex_begin_parse]; exact this

/-- A parser with the minimum buffer inside a 100-byte `Params` record, fed 24 bytes that start a
pair announcing a 50-byte name and a 50-byte value: nothing can be consumed, the buffer is full. -/
def exStuckParser : Parser := { cap := 24, input := [], state := .params exInner 100 0, maxConns := 1 }

def exStuckInput : Bytes := [50, 50] ++ List.replicate 22 65

theorem ex_stuck_inv : PInv exStuckParser :=
  ⟨by decide, ⟨by decide, by decide, innerOK_nil _⟩, by decide⟩

theorem ex_stuck_step :
    step exStuckParser.state exStuckInput 1 = (.brk exStuckInput (.params exInner 100 0), []) := by
  have hn : NV.next exStuckInput = none := by decide
  have hps : parseStream exInner exStuckInput false = .ok exInner 0 := by
    simp [parseStream, exInner, C16.all_none hn, envExtend]
  show paramsDrive exInner 100 0 exStuckInput = _
  rw [paramsDrive_eq]
  have hpp : payloadPhase exInner 100 0 exStuckInput =
      .error (.brk exStuckInput (.params exInner 100 0), []) := by
    unfold payloadPhase
    rw [if_pos (by decide), if_pos (by decide), hps]
    rfl
  rw [hpp]

theorem ex_stuck_parse :
    exStuckParser.parse exStuckInput =
      ({ exStuckParser with input := exStuckInput, state := .fatal .stuckOnInput },
        some { done := true, output := [] }) := by
  have hr : run exStuckParser.state (exStuckParser.input ++ exStuckInput) exStuckParser.maxConns
      = { rem := exStuckInput, st := .params exInner 100 0, out := [] } :=
    run_brk (st := exStuckParser.state) rfl ex_stuck_step
  rw [parse_eq ex_stuck_inv (by decide), hr]
  rfl

example : (exStuckParser.parse exStuckInput).1.intoRequest = .error .stuckOnInput := by
  rw [ex_stuck_parse]; rfl

example : (exStuckParser.parse exStuckInput).1.free = 0 := by
  rw [ex_stuck_parse]; decide

end Fcgi.C06
