import Fcgi.Proofs.RunLoop
/-!
# C14a — graceful shutdown vs the connection task (`Token::run`)

Stated over the executable model of `Token::run` (`Model/RunLoop.lean`): `pollConn fuel c` is one
poll of the connection task, `c.stop` the shutdown flag (`select(stop_fut, parse_request)` polls the
stop listener first), `c.env.tr.events` the trace.  `Run.stepConn` (Proofs/RunLoop) is one phase
transition; `pollConn (fuel+1) c = (stepConn c).run (pollConn fuel)` (`Run.pollConn_succ`).

* `events_append_only`, `handler_start_only_from_parseReq`: the trace only grows, and a
  handler-start event `HS(` is appended only by a transition out of a `parseReq` phase.
* `no_new_handler_after_stop`: with the flag raised no poll — whatever its phase and fuel — starts
  a handler; `stop_sticky`: the executor never clears the flag, so this holds for every poll from
  the one at which the flag is raised.
* `idle_stops_without_reading`: an idle connection (inside `parse_request`) returns at once, without
  any transport call.
* `in_flight_runs_on`: `handler`/`closing` phases do not look at the flag: up to the next
  `parse_request` the poll is the same with and without it; there the raised flag ends the task.
-/
namespace Fcgi.C14a
open Fcgi Fcgi.Req Fcgi.Str Fcgi.Async Fcgi.Run

/-- number of events starting with `"HS("` -/
abbrev hsCount := Run.hsCount

/-! ## 1. The trace only grows; handlers start only out of `parse_request` -/

/-- One poll only appends to the trace (and to the write log). -/
theorem events_append_only (fuel : Nat) (c : Conn) :
    (∃ new, (pollConn fuel c).1.env.tr.events = c.env.tr.events ++ new) ∧
    (∃ w, (pollConn fuel c).1.env.tr.wlog = c.env.tr.wlog ++ w) := by
  have h := pollConn_cle fuel c
  obtain ⟨n, e, _⟩ := h.ev
  exact ⟨⟨n, e⟩, h.wl⟩

/-- A phase transition that does not start in a `parseReq` phase appends no `HS(` event. -/
theorem handler_start_only_from_parseReq (c : Conn) (h : c.phase.isParse = false) :
    ∃ new, (stepConn c).conn.env.tr.events = c.env.tr.events ++ new ∧ hsCount new = 0 := by
  have hs : stepConn { c with stop := true } = (stepConn c).map (fun c => { c with stop := true }) :=
    stepConn_setStop c true h
  have hc := stepConn_cle { c with stop := true }
  rw [hs] at hc
  obtain ⟨n, e, _, q⟩ := hc.ev
  refine ⟨n, ?_, hsCount_eq_zero (q rfl)⟩
  cases hst : stepConn c <;> rw [hst] at e <;> exact e

/-- Poll-level form: as long as the poll has not come (back) to `parse_request`, no `HS(`. -/
theorem handler_start_only_after_parseReq (fuel : Nat) (c c' : Conn) (r : PRes)
    (h : inFlight fuel c = .halted c' r) :
    pollConn fuel c = (c', r) ∧
    ∃ new, c'.env.tr.events = c.env.tr.events ++ new ∧ hsCount new = 0 := by
  have h1 : pollConn fuel c = (c', r) := by rw [pollConn_eq_inFlight, h]; rfl
  have h2 : pollConn fuel { c with stop := true } = ({ c' with stop := true }, r) := by
    rw [pollConn_eq_inFlight, inFlight_setStop, h]; rfl
  have hc := pollConn_cle fuel { c with stop := true }
  rw [h2] at hc
  obtain ⟨n, e, _, q⟩ := hc.ev
  exact ⟨h1, n, e, hsCount_eq_zero (q rfl)⟩

/-- Every `HS(` event of a poll consumes one handler script: the scripts left are the old ones
minus one per handler start. -/
theorem scripts_consumed (fuel : Nat) (c : Conn) :
    ∃ new, (pollConn fuel c).1.env.tr.events = c.env.tr.events ++ new ∧
      (pollConn fuel c).1.scripts = c.scripts.drop (hsCount new) := by
  obtain ⟨n, e, sc, _⟩ := (pollConn_cle fuel c).ev
  exact ⟨n, e, sc⟩

/-! ## 2. No new handler after stop -/

/-- The flag is never changed by a poll. -/
theorem poll_keeps_flag (fuel : Nat) (c : Conn) : (pollConn fuel c).1.stop = c.stop :=
  (pollConn_cle fuel c).stop

/-- With the flag raised, a poll appends no `HS(` event — for every phase and every fuel. -/
theorem no_new_handler_after_stop (fuel : Nat) (c : Conn) (hs : c.stop = true) :
    ∃ new, (pollConn fuel c).1.env.tr.events = c.env.tr.events ++ new ∧ hsCount new = 0 ∧
      (pollConn fuel c).1.scripts = c.scripts := by
  obtain ⟨n, e, sc, q⟩ := (pollConn_cle fuel c).ev
  have h0 := hsCount_eq_zero (q hs)
  refine ⟨n, e, h0, ?_⟩
  rw [sc]; show List.drop (Run.hsCount n) c.scripts = c.scripts
  rw [h0]; rfl

/-- The executor only ever raises the flag. -/
theorem stop_sticky (fuel : Nat) (c : Conn) (pollNo : Nat) (stopAt : Option Nat) (hs : c.stop = true) :
    (runTask fuel c pollNo stopAt).1.stop = true :=
  (runTask_stop_quiet fuel c pollNo stopAt).1 hs

/-- From the poll with index `stopAt` on (and for any run that starts with the flag raised) the
executor's run appends no `HS(` event: all its polls are polls with the flag raised. -/
theorem no_new_handler_from_stopAt (fuel : Nat) (c : Conn) (pollNo : Nat) (stopAt : Option Nat)
    (h : c.stop = true ∨ stopAt = some pollNo) :
    ∃ new, (runTask fuel c pollNo stopAt).1.env.tr.events = c.env.tr.events ++ new ∧ hsCount new = 0 := by
  obtain ⟨n, e, q⟩ := (runTask_stop_quiet fuel c pollNo stopAt).2 h
  exact ⟨n, e, hsCount_eq_zero q⟩

/-! ## 3. An idle connection stops without reading -/

/-- Inside `parse_request` (any of its suspension points) a raised flag ends the task at once: the
result is `finished`, and the environment — transport, trace, write log, mutex — is untouched. -/
theorem idle_stops_without_reading (fuel : Nat) (c : Conn) (rp : Req.Parser) (sub : PRSub)
    (hp : c.phase = .parseReq rp sub) (hs : c.stop = true) :
    pollConn (fuel + 1) c = ({ c with phase := .finished }, .finished) :=
  pollConn_parse_stop fuel c (by rw [hp]; rfl) hs

/-! ## 4. An in-flight request runs on -/

/-- `handler` and `closing` transitions do not depend on the flag. -/
theorem step_ignores_flag (c : Conn) (b : Bool) (h : c.phase.isParse = false) :
    stepConn { c with stop := b } = (stepConn c).map (fun c => { c with stop := b }) :=
  stepConn_setStop c b h

/-- If the poll ends before it comes back to `parse_request` (`inFlight … = .halted c' r`: pending
or finished inside the handler or `close`), the flag makes no difference at all. -/
theorem in_flight_runs_on (fuel : Nat) (c c' : Conn) (r : PRes) (b : Bool)
    (h : inFlight fuel c = .halted c' r) :
    pollConn fuel { c with stop := b } = ({ c' with stop := b }, r) := by
  rw [pollConn_eq_inFlight, inFlight_setStop, h]; rfl

/-- If it does come back to `parse_request` — in configuration `c'`, after a `reuse` — the two runs
agree up to that point; there the raised flag ends the task, while without it the task goes on to
parse the next request. -/
theorem in_flight_then_stop (fuel : Nat) (c c' : Conn) (f : Nat)
    (h : inFlight fuel c = .reachedParse f c') :
    pollConn fuel { c with stop := true } = ({ c' with stop := true, phase := .finished }, .finished) ∧
    pollConn fuel { c with stop := false } = pollConn f { c' with stop := false } := by
  obtain ⟨hp, f', rfl⟩ := inFlight_reached fuel c h
  constructor
  · rw [pollConn_eq_inFlight, inFlight_setStop, h]
    exact pollConn_parse_stop f' { c' with stop := true } hp rfl
  · rw [pollConn_eq_inFlight, inFlight_setStop, h]; rfl

/-- The same without the auxiliary `inFlight`: if, without the flag, a poll started in a
`handler`/`closing` phase ends in a `handler`/`closing` phase and appended no `HS(` event (it is
still the same request), then with the flag it ends in the same state with the same result. -/
theorem in_flight_runs_on' (fuel : Nat) (c c' : Conn) (r : PRes)
    (hres : pollConn fuel { c with stop := false } = (c', r))
    (hph' : c'.phase.inFlight = true)
    (hcount : hsCount c'.env.tr.events = hsCount c.env.tr.events) :
    pollConn fuel { c with stop := true } = ({ c' with stop := true }, r) := by
  cases hfl : inFlight fuel c with
  | halted c1 r1 =>
    have h0 := in_flight_runs_on fuel c c1 r1 false hfl
    rw [hres] at h0
    cases h0
    exact in_flight_runs_on fuel c c1 _ true hfl
  | reachedParse f c1 =>
    exfalso
    obtain ⟨hp, f', rfl⟩ := inFlight_reached fuel c hfl
    have h2 := (in_flight_then_stop fuel c c1 _ hfl).2
    rw [hres] at h2
    have hlt := from_parse_hs (f' + 1) { c1 with stop := false } hp h2.symm hph'
    -- the in-flight part appended no `HS(` either
    have h3 : pollConn fuel { c with stop := true } = _ := (in_flight_then_stop fuel c c1 _ hfl).1
    have hc := pollConn_cle fuel { c with stop := true }
    rw [h3] at hc
    have := hc.hs_mono
    obtain ⟨n, e, _, q⟩ := hc.ev
    have hz := hsCount_eq_zero (q rfl)
    simp only at e hlt
    rw [e, hsCount_append, hz] at hlt
    simp only [hsCount] at hcount
    omega

/-- The unqualified form of `in_flight_runs_on'` (without "no `HS(` event was appended", i.e. without
"the poll did not pass through `parse_request`").  It is false for the model — and for the Rust: take
a `closing` phase of a KeepConn request whose successor request is already buffered; without the
flag the poll goes `closing → parseReq → handler` and may end `pending` inside the *next* handler,
with the flag it ends `finished` at the `parseReq` (`in_flight_then_stop`).  That is the intended
graceful-shutdown behaviour; `in_flight_runs_on` / `in_flight_runs_on'` are the true (`_partial`) forms. -/
def in_flight_runs_on_full : Prop :=
  ∀ (fuel : Nat) (c c' : Conn) (r : PRes), c.phase.inFlight = true →
    pollConn fuel { c with stop := false } = (c', r) → c'.phase.inFlight = true →
    pollConn fuel { c with stop := true } = ({ c' with stop := true }, r)

/-! ## Concrete instances (non-vacuity) -/

def exReq : Request := { id := 1, role := 1, flags := 1, env := [] }
def exTr : Transport := { input := [], endMode := .pend, rd := [], wr := [], fl := [] }
def exAReq : AReq := AReq.new (Str.Parser.fromParser 64 exReq [] 1)

/-- idle inside `parse_request`, flag raised -/
def exIdle : Conn :=
  { phase := .parseReq (Req.Parser.new 64 1) .reading, env := { tr := exTr }, scripts := [], stop := true }

example : pollConn 5 exIdle = ({ exIdle with phase := .finished }, .finished) :=
  idle_stops_without_reading 4 exIdle _ _ rfl rfl

/-- a handler that opens stdout and flushes it; the transport's flush is pending -/
def exInHandler : Conn :=
  { phase := .handler exAReq { ops := [.open_ 6, .flush 0, .ret (.complete 0)] },
    env := { tr := { exTr with fl := [.pending] } }, scripts := [] }

example : ∃ c', inFlight 10 exInHandler = .halted c' .pending := ⟨_, rfl⟩

/-- a `close` whose final `write_all` is pending -/
def exInClose : Conn :=
  { phase := .closing exAReq .start (.complete 0) 0,
    env := { tr := { exTr with wr := [.pending] } }, scripts := [] }

example : ∃ c', inFlight 10 exInClose = .halted c' .pending := ⟨_, rfl⟩
example : ∃ c' : Conn, pollConn 10 { exInClose with stop := true } = ({ c' with stop := true }, .pending) := by
  obtain ⟨c', h⟩ : ∃ c', inFlight 10 exInClose = .halted c' .pending := ⟨_, rfl⟩
  exact ⟨c', in_flight_runs_on 10 exInClose c' .pending true h⟩

/-- a `close` that completes with keep-alive: the poll comes back to `parse_request` -/
def exCloseReuse : Conn :=
  { phase := .closing exAReq .start (.complete 0) 0, env := { tr := exTr }, scripts := [] }
example : ∃ f c', inFlight 10 exCloseReuse = .reachedParse f c' := ⟨_, _, rfl⟩

end Fcgi.C14a
