import Fcgi.Proofs.E2EFilterAbort4
import Fcgi.Props.C11Filter3
/-!
# C11 — `AbortRequest` for a FILTER: the last cell of the table, row (c) behind Data content

Handler `[ret st]` (never reads).  Wire behind the preamble: `sbody` (Stdin), the Stdin terminator,
`dbody` (Data records with content `c2`, and noise), the request's `AbortRequest` record `a`, `post`.

`filter_abort_data_noread_e2e`: `close()`'s own `writeable()` (`set_stream(Data)`, `poll_input(None)`)
passes over Stdin and

* returns `Ready` once a `parse` call has buffered Data content: the request is writeable;
  `set_stream(None)` drops the content; `record_boundary()` lets the parser run in ignore mode until it
  stands between two records — anywhere between the content seen and the abort record, at the latest in
  FRONT of the abort record (its `Err(AbortRequest)` is swallowed by the loop): `dbody = d₁ ++ s₂`, `d₁`
  consumed; FULL epilogue `Stdout∅ Stderr∅ EndRequest(id, st)`; `s₂`, the abort record and `post` are handed
  to the next request parser;
* or fails with the abort error (all content and the abort record in one `parse` call; swallowed): the
  request is not writeable, `s₂ = []`, bare `EndRequest(id, st)`.

The status is the handler's `st` in every case.  Forced hypotheses beyond those of placement (iii): no
`BeginRequest` among the noise of the Data stream (it would be handed to the next request parser and
start a request), and no record typed Stdin with the request's id behind the abort record (the proof
views the ignoring parser as a Responder's parser).

`filter_abort_table_full`: `filter_abort_table` plus this cell.
-/
namespace Fcgi.C11F
open Fcgi Fcgi.Req Fcgi.Str Fcgi.Async Fcgi.Run Fcgi.Spec Fcgi.E2E Fcgi.C07E Fcgi.C07U

theorem body_stdin {id : Nat} (hid : id < 65536) {c : Bytes} {rs : List Rec} (h : Body id 5 c rs) :
    ∀ r ∈ rs, StdinRec id r := by
  induction h with
  | nil => intro r hr; cases hr
  | noise r hn t ih =>
    intro x hx
    rcases List.mem_cons.1 hx with rfl | hx
    · exact ⟨hn.1, Or.inl hn⟩
    · exact ih x hx
  | chunk c pad res hc hp t ih =>
    intro x hx
    rcases List.mem_cons.1 hx with rfl | hx
    · exact ⟨⟨hid, hc.2, hp⟩, Or.inr ⟨rfl, rfl⟩⟩
    · exact ih x hx

/-- the wire behind the preamble, as the proof splits it -/
def dataX4 (id : Nat) (sbody : List Rec) (pad : Bytes) (res : UInt8) (dbody : List Rec) (a : Rec) (post : List Rec) :
    Bytes :=
  serAll (sbody ++ [stdinTerm id pad res]) ++ serAll (dbody ++ a :: post)

theorem dataX4_eq (id : Nat) (sbody : List Rec) (pad : Bytes) (res : UInt8) (dbody : List Rec) (a : Rec)
    (post : List Rec) : gapX id sbody pad res dbody a post = dataX4 id sbody pad res dbody a post := by
  simp only [gapX, dataX4, C02.serAll_append, serAll_cons, C02.serAll_single, List.append_assoc, serAll_nil,
    List.append_nil]

def cfgFR4 (p : Preamble) (recs : List Rec) (content : Bytes) (sbody : List Rec) (pad : Bytes) (res : UInt8)
    (c2 : Bytes) (dbody : List Rec) (a : Rec) (post : List Rec)
    (b mc : Nat) (st : ExitStatus) (L0 : Bytes) (h : Nat) (more : List (List HOp × Bool)) : E2E.Cfg :=
  ⟨p, recs, content, sbody, pad, res, c2, post, [], 0, b, mc, [], st, L0, h, more,
    dataX4 p.id sbody pad res dbody a post, serAll (dbody ++ a :: post), a.ser ++ serAll post, [], [], [.ret st]⟩

theorem fr4ok_of {p : Preamble} {recs sbody dbody : List Rec} {pad : Bytes} {res : UInt8} {content c2 : Bytes} {a : Rec}
    {post : List Rec} {b mc : Nat} {st : ExitStatus}
    (L0 : Bytes) (h : Nat) (more : List (List HOp × Bool))
    (hwf : WellFormedPreamble p recs) (hrole : p.role = 3)
    (hpairs : ∀ q ∈ p.pairs, (NV.enc q).length ≤ alignedBufsize b)
    (hnoise : NoiseFits (alignedBufsize b) recs)
    (hbody : Body p.id 5 content sbody) (hpf : NoiseFits (alignedBufsize b) sbody) (hpad : pad.length < 256)
    (hdb : Body p.id 8 c2 dbody) (hdf : NoiseFits (alignedBufsize b) dbody)
    (hpost : ∀ r ∈ post, r.WF) (hpost5 : ∀ r ∈ post, ¬ (r.rtype.toNat = 5 ∧ r.id = p.id)) (ha : IsAbort p.id a) :
    FR4OK (cfgFR4 p recs content sbody pad res c2 dbody a post b mc st L0 h more) dbody a := by
  have hid := (pid_of_wf hwf).2
  refine ⟨hwf, hrole, hpairs, hnoise, ?_, ?_, hdb, hdf, ha, fun r hr => ⟨hpost r hr, hpost5 r hr⟩, rfl, rfl, rfl⟩
  · intro r hr
    rcases List.mem_append.1 hr with hr | hr
    · exact body_stdin hid hbody r hr
    · rw [List.mem_singleton.1 hr]
      exact ⟨⟨hid, by simp [E2E.Cfg.term], hpad⟩, Or.inr ⟨rfl, rfl⟩⟩
  · intro r hr hg
    rcases List.mem_append.1 hr with hr | hr
    · exact hpf r hr hg
    · rw [List.mem_singleton.1 hr] at hg
      exact absurd hg.1 (by simp [E2E.Cfg.term, RT.getValues])

theorem lf4_eq {p : Preamble} {recs sbody dbody : List Rec} {pad : Bytes} {res : UInt8} {content c2 : Bytes} {a : Rec}
    {post : List Rec} {b mc : Nat} {st : ExitStatus}
    {L0 : Bytes} {h : Nat} {more : List (List HOp × Bool)} (full : Bool) (d1 : List Rec) :
    (cfgFR4 p recs content sbody pad res c2 dbody a post b mc st L0 h more).Lf4 full d1 =
      L0 ++ (owedPreamble p mc recs ++ owedActive p.id mc (gapPre p.id sbody pad res d1) ++
        epilogueFor p.id st full) := by
  have hO : owedI p.id mc ((sbody ++ [stdinTerm p.id pad res]) ++ d1) =
      owedActive p.id mc (gapPre p.id sbody pad res d1) := by
    simp only [owedActive, gapPre, List.append_assoc, List.cons_append, List.nil_append]
  cases full with
  | false =>
    show (L0 ++ owedPreamble p mc recs) ++ owedI p.id mc ((sbody ++ [stdinTerm p.id pad res]) ++ d1) ++
      makeRequestEpilogue p.id st [] = _
    rw [epilogue_nil, hO]
    simp [epilogueFor, List.append_assoc]
  | true =>
    show (L0 ++ owedPreamble p mc recs) ++ owedI p.id mc ((sbody ++ [stdinTerm p.id pad res]) ++ d1) ++
      makeRequestEpilogue p.id st [RT.stdout, RT.stderr] = _
    rw [epilogue_full, hO]
    simp only [List.append_assoc]

/-- What the run comes to: `dbody = d₁ ++ s₂`, `d₁` consumed by `close()`, `s₂` handed on. -/
structure FilterAbortSplitOutcome (p : Preamble) (recs sbody : List Rec) (pad : Bytes) (res : UInt8)
    (dbody : List Rec) (a : Rec) (post : List Rec)
    (b mc : Nat) (st : ExitStatus) (more : List (List HOp × Bool)) (t : Transport) (c' : Conn) (fin : String) :
    Prop where
  one_handler : hsCount c'.env.tr.events = 1 ∧ startEvent p.request ∈ c'.env.tr.events
  scripts : c'.scripts = more
  final : ∃ (full : Bool) (d1 s2 : List Rec), dbody = d1 ++ s2 ∧ (full = false → s2 = []) ∧
    ((p.flags.toNat % 2 = 1 ∧
      c'.env.tr.wlog = t.wlog ++ (owedPreamble p mc recs ++ owedActive p.id mc (gapPre p.id sbody pad res d1) ++
        epilogueFor p.id st full ++ idleOwed mc (s2 ++ a :: post)) ∧
      ((t.endMode = .eof ∧ fin = "RET" ∧ c'.phase = .finished) ∨
       (t.endMode = .pend ∧ fin = "STALL" ∧
          c'.phase = .parseReq (track (alignedBufsize b) mc (serAll (s2 ++ a :: post))) .reading ∧
          c'.env.tr.input = [] ∧ c'.env.mutex = none ∧ c'.stop = false ∧ Ben c'.env.tr))) ∨
    (p.flags.toNat % 2 = 0 ∧ fin = "RET" ∧ c'.phase = .finished ∧
      c'.env.tr.wlog = t.wlog ++ (owedPreamble p mc recs ++ owedActive p.id mc (gapPre p.id sbody pad res d1) ++
        epilogueFor p.id st full)))

/-- **C11 end to end, row (c), placement (iii) behind Data content.** -/
theorem filter_abort_data_noread_e2e {p : Preamble} {recs sbody dbody : List Rec} {pad : Bytes} {res : UInt8}
    {a : Rec} {post : List Rec} {b mc : Nat} {content c2 : Bytes} {st : ExitStatus}
    {more : List (List HOp × Bool)} {t : Transport} {fuel : Nat}
    (hwf : WellFormedPreamble p recs) (hrole : p.role = 3)
    (hpairs : ∀ q ∈ p.pairs, (NV.enc q).length ≤ alignedBufsize b)
    (hnoise : NoiseFits (alignedBufsize b) recs)
    (hbody : Body p.id 5 content sbody) (hpf : NoiseFits (alignedBufsize b) sbody) (hpad : pad.length < 256)
    (hdb : Body p.id 8 c2 dbody) (hdf : NoiseFits (alignedBufsize b) dbody)
    (hnbd : ∀ r ∈ dbody, r.rtype.toNat ≠ RT.beginRequest) (ha : IsAbort p.id a)
    (hpost : ∀ r ∈ post, r.WF) (hpostf : NoiseFits (alignedBufsize b) post)
    (hnb : ∀ r ∈ post, r.rtype.toNat ≠ RT.beginRequest)
    (hpost5 : ∀ r ∈ post, ¬ (r.rtype.toNat = 5 ∧ r.id = p.id))
    (hin : t.input = serAll recs ++ gapX p.id sbody pad res dbody a post) (hben : Ben t)
    (hev : hsCount t.events = 0) (hfuel : t.rd.length + t.wr.length + 1 ≤ fuel)
    (hsize : 6 * t.input.length + 26 ≤ 100000) :
    ∃ c' fin, runTask fuel (connS b mc t (([.ret st], true) :: more)) 0 none = (c', fin) ∧
      FilterAbortSplitOutcome p recs sbody pad res dbody a post b mc st more t c' fin := by
  have hid := (pid_of_wf hwf).2
  have hwa := isAbort_wf ha hid
  have hdwf := body_wf hid hdb
  have hidle : ∀ s2, s2 <:+ dbody → ∀ e ∈ s2 ++ a :: post, IdleNoise e := by
    intro s2 hs2 e he
    rcases List.mem_append.1 he with he | he
    · exact ⟨hdwf e (hs2.subset he), fun hx => absurd hx (hnbd e (hs2.subset he))⟩
    · rcases List.mem_cons.1 he with rfl | he
      · exact ⟨hwa, fun hx => absurd hx (by rw [ha.1]; decide)⟩
      · exact idle_of_noBegin hpost hnb e he
  have hfit : ∀ s2, s2 <:+ dbody → NoiseFits (alignedBufsize b) (s2 ++ a :: post) := by
    intro s2 hs2 e he hg
    rcases List.mem_append.1 he with he | he
    · exact hdf e (hs2.subset he) hg
    · rcases List.mem_cons.1 he with rfl | he
      · exact absurd hg.1 (by rw [ha.1]; decide)
      · exact hpostf e he hg
  have ok := fr4ok_of (content := content) (pad := pad) (res := res) (post := post) (mc := mc) (st := st) t.wlog 0 more
    hwf hrole hpairs hnoise hbody hpf hpad hdb hdf hpost hpost5 ha
  have hfront : ∀ s2, s2 <:+ dbody → _ := fun s2 hs2 =>
    idle_front dummy_wf b mc (fun q hq => by cases hq) (dummy_fits _) (hidle s2 hs2) (hfit s2 hs2) []
  have hst : FStage (cfgFR4 p recs content sbody pad res c2 dbody a post b mc st t.wlog 0 more)
      (connS b mc t (([.ret st], true) :: more)) :=
    .start (raw := []) rfl (by show [] ++ t.input = _; rw [hin, dataX4_eq]; rfl) (Nat.zero_le _) rfl hben rfl rfl rfl hev
  obtain ⟨c', fin, hrun, hres⟩ := run_filterR4 ok (Z := serAll dummyRecs ++ [])
    (fun s2 hs2 => (hfront s2 hs2).1) (fun s2 hs2 => (hfront s2 hs2).2)
    t.endMode [] _ 0 fuel hst rfl (fun s hs => by cases hs) rfl (by show ans t + 1 ≤ fuel; unfold ans; omega) hsize
  rcases hres with ⟨⟨full, d1, s2⟩, ⟨hk, hsp, hfs⟩, hkp, hem, _, _, _, hend⟩ | ⟨hfin, ⟨full, d1, s2, ⟨hsp, hfs⟩, hfu⟩, _, _⟩
  · have hsuf : s2 <:+ dbody := ⟨d1, hsp.symm⟩
    have hout : ∀ F, F ++ (serAll dummyRecs ++ []) = serAll (s2 ++ a :: post) ++ (serAll dummyRecs ++ []) →
        (cfgFR4 p recs content sbody pad res c2 dbody a post b mc st t.wlog 0 more).Lf4 full d1 ++
          (run .header F mc).out =
        t.wlog ++ (owedPreamble p mc recs ++ owedActive p.id mc (gapPre p.id sbody pad res d1) ++
          epilogueFor p.id st full ++ idleOwed mc (s2 ++ a :: post)) := by
      intro F hF
      have hro := (run_idle_out mc (s2 ++ a :: post) (hidle s2 hsuf)).1
      rw [List.append_cancel_right hF, hro, lf4_eq]
      simp only [List.append_assoc]
    refine ⟨c', fin, hrun, ⟨hkp.hs, hkp.ev _ List.mem_cons_self⟩, hkp.sc, full, d1, s2, hsp, hfs, Or.inl ⟨hk, ?_, ?_⟩⟩
    · rcases hend with ⟨_, hp⟩ | ⟨_, hf⟩
      · obtain ⟨F, hF, _, _, hlg⟩ := hp.pst
        exact hlg.trans (hout F hF)
      · obtain ⟨F, hF, hlg⟩ := hf.log
        exact hlg.trans (hout F hF)
    · rcases hend with ⟨rfl, hp⟩ | ⟨rfl, hf⟩
      · obtain ⟨F, hF, hps, hph, _⟩ := hp.pst
        have hFe : F = serAll (s2 ++ a :: post) := List.append_cancel_right hF
        subst hFe
        exact Or.inr ⟨hem.symm.trans hp.em, rfl, hph, hp.inp, hkp.mx, hps.stop, hps.ben⟩
      · exact Or.inl ⟨hem.symm.trans hf.em, rfl, hf.ph⟩
  · exact ⟨c', fin, hrun, ⟨hfu.ev.1, hfu.ev.2⟩, hfu.sc, full, d1, s2, hsp, hfs,
      Or.inr ⟨hfu.nokeep, hfin, hfu.ph, by rw [hfu.log, lf4_eq]⟩⟩

theorem endOnce_of_splitOutcome {p : Preamble} {recs sbody dbody : List Rec} {pad : Bytes} {res : UInt8} {a : Rec}
    {post : List Rec} {b mc : Nat}
    {st : ExitStatus} {more : List (List HOp × Bool)} {t : Transport} {c' : Conn} {fin : String}
    (hid : p.id < 65536) (hs : ∀ r ∈ sbody, r.WF) (hp : pad.length < 256) (hd : ∀ r ∈ dbody, r.WF)
    (hnbd : ∀ r ∈ dbody, r.rtype.toNat ≠ RT.beginRequest) (ha : IsAbort p.id a)
    (hnb : ∀ r ∈ post, r.rtype.toNat ≠ RT.beginRequest)
    (h : FilterAbortSplitOutcome p recs sbody pad res dbody a post b mc st more t c' fin) :
    EndOnce p recs mc st t c' := by
  obtain ⟨full, d1, s2, hsp, _, hf⟩ := h.final
  have hpre : ∀ r ∈ gapPre p.id sbody pad res d1, r.WF :=
    gapPre_wf hid hs hp (fun r hr => hd r (by rw [hsp]; exact List.mem_append_left _ hr))
  have hnb' : ∀ r ∈ s2 ++ a :: post, r.rtype.toNat ≠ RT.beginRequest := by
    intro r hr
    rcases List.mem_append.1 hr with hr | hr
    · exact hnbd r (by rw [hsp]; exact List.mem_append_right _ hr)
    · rcases List.mem_cons.1 hr with rfl | hr
      · rw [ha.1]; decide
      · exact hnb r hr
  rcases hf with ⟨_, hlog, _⟩ | ⟨_, _, _, hlog⟩
  · exact endOnce_of_log hid hpre hnb' h.one_handler.1 (full := full) (Or.inr rfl) hlog
  · refine endOnce_of_log (post := s2 ++ a :: post) hid hpre hnb' h.one_handler.1 (full := full) (Or.inl rfl) ?_
    rw [hlog]; simp

/-- **C11 for a Filter — the whole table**: `filter_abort_table` (rows (a), (b) at placements (i), (ii),
(iii); row (c) with no Data content before the abort record) and the last cell, row (c) behind Data
content: there too the run ends, with one handler start and exactly one `EndRequest` for the request,
carrying the handler's own status (`[ret st]` never sees the abort error). -/
theorem filter_abort_table_full :
    (∀ {p : Preamble} {recs sbody dbody : List Rec} {pad : Bytes} {res : UInt8} {a : Rec} {post : List Rec}
      {b mc : Nat} {content c2 : Bytes} {st : ExitStatus} {more : List (List HOp × Bool)} {t : Transport}
      {fuel : Nat},
      WellFormedPreamble p recs → p.role = 3 → (∀ q ∈ p.pairs, (NV.enc q).length ≤ alignedBufsize b) →
      NoiseFits (alignedBufsize b) recs → Body p.id 5 content sbody → NoiseFits (alignedBufsize b) sbody →
      pad.length < 256 → Body p.id 8 c2 dbody → NoiseFits (alignedBufsize b) dbody →
      (∀ r ∈ dbody, r.rtype.toNat ≠ RT.beginRequest) → IsAbort p.id a →
      (∀ r ∈ post, r.WF) → NoiseFits (alignedBufsize b) post → (∀ r ∈ post, r.rtype.toNat ≠ RT.beginRequest) →
      (∀ r ∈ post, ¬ (r.rtype.toNat = 5 ∧ r.id = p.id)) →
      t.input = serAll recs ++ gapX p.id sbody pad res dbody a post → Ben t → hsCount t.events = 0 →
      t.rd.length + t.wr.length + 1 ≤ fuel → 6 * t.input.length + 26 ≤ 100000 →
      ∃ c' fin, runTask fuel (connS b mc t (([.ret st], true) :: more)) 0 none = (c', fin) ∧
        EndOnce p recs mc st t c') ∧
    -- … and all the other cells
    ((∀ {p : Preamble} {recs pre : List Rec} {a : Rec} {post : List Rec} {b mc : Nat} {st : ExitStatus}
      {more : List (List HOp × Bool)} {t : Transport} {fuel : Nat},
      WellFormedPreamble p recs → p.role = 3 → (∀ q ∈ p.pairs, (NV.enc q).length ≤ alignedBufsize b) →
      NoiseFits (alignedBufsize b) recs → (∀ r ∈ pre, StdinRec p.id r) → NoiseFits (alignedBufsize b) pre →
      IsAbort p.id a → (∀ r ∈ post, r.WF) → NoiseFits (alignedBufsize b) post →
      (∀ r ∈ post, r.rtype.toNat ≠ RT.beginRequest) →
      t.input = serAll recs ++ (serAll (pre ++ [a]) ++ serAll post) → Ben t → hsCount t.events = 0 →
      t.rd.length + t.wr.length + 1 ≤ fuel → 6 * t.input.length + 26 ≤ 100000 →
      ∃ c' fin, runTask fuel (connS b mc t (([.ret st], true) :: more)) 0 none = (c', fin) ∧
        EndOnce p recs mc st t c') ∧
    (∀ {p : Preamble} {recs pre : List Rec} {a : Rec} {post : List Rec} {b mc : Nat} {content : Bytes}
      {s0 : ExitStatus} {pr : Bool} {more : List (List HOp × Bool)} {t : Transport} {fuel : Nat},
      WellFormedPreamble p recs → p.role = 3 → (∀ q ∈ p.pairs, (NV.enc q).length ≤ alignedBufsize b) →
      NoiseFits (alignedBufsize b) recs → Body p.id 5 content pre → NoiseFits (alignedBufsize b) pre →
      IsAbort p.id a → (∀ r ∈ post, r.WF) → NoiseFits (alignedBufsize b) post →
      (∀ r ∈ post, r.rtype.toNat ≠ RT.beginRequest) →
      t.input = serAll recs ++ (serAll (pre ++ [a]) ++ serAll post) → Ben t → hsCount t.events = 0 →
      t.rd.length + t.wr.length + 1 ≤ fuel → 6 * t.input.length + 26 ≤ 100000 →
      ∃ c' fin, runTask fuel (connS b mc t ((rscript s0, pr) :: more)) 0 none = (c', fin) ∧
        EndOnce p recs mc (closeStatus pr s0) t c') ∧
    (∀ {p : Preamble} {recs sbody mid : List Rec} {pad : Bytes} {res : UInt8} {a : Rec} {post : List Rec}
      {b mc : Nat} {content : Bytes}
      {s0 : ExitStatus} {pr : Bool} {more : List (List HOp × Bool)} {t : Transport} {fuel : Nat},
      WellFormedPreamble p recs → p.role = 3 → (∀ q ∈ p.pairs, (NV.enc q).length ≤ alignedBufsize b) →
      NoiseFits (alignedBufsize b) recs → Body p.id 5 content sbody → NoiseFits (alignedBufsize b) sbody →
      pad.length < 256 → (∀ r ∈ mid, StdinRec p.id r) → NoiseFits (alignedBufsize b) mid →
      IsAbort p.id a → (∀ r ∈ post, r.WF) → NoiseFits (alignedBufsize b) post →
      (∀ r ∈ post, r.rtype.toNat ≠ RT.beginRequest) →
      t.input = serAll recs ++ gapX p.id sbody pad res mid a post → Ben t → hsCount t.events = 0 →
      t.rd.length + t.wr.length + 1 ≤ fuel → 6 * t.input.length + 26 ≤ 100000 →
      ∃ c' fin, runTask fuel (connS b mc t ((rscript s0, pr) :: more)) 0 none = (c', fin) ∧
        EndOnce p recs mc (closeStatus pr s0) t c') ∧
    (∀ {p : Preamble} {recs sbody dbody : List Rec} {pad : Bytes} {res : UInt8} {a : Rec} {post : List Rec}
      {b mc : Nat} {content c2 : Bytes}
      {s0 : ExitStatus} {pr : Bool} {more : List (List HOp × Bool)} {t : Transport} {fuel : Nat},
      WellFormedPreamble p recs → p.role = 3 → (∀ q ∈ p.pairs, (NV.enc q).length ≤ alignedBufsize b) →
      NoiseFits (alignedBufsize b) recs → Body p.id 5 content sbody → NoiseFits (alignedBufsize b) sbody →
      pad.length < 256 → Body p.id 8 c2 dbody → NoiseFits (alignedBufsize b) dbody →
      IsAbort p.id a → (∀ r ∈ post, r.WF) → NoiseFits (alignedBufsize b) post →
      (∀ r ∈ post, r.rtype.toNat ≠ RT.beginRequest) →
      t.input = serAll recs ++ gapX p.id sbody pad res dbody a post → Ben t → hsCount t.events = 0 →
      t.rd.length + t.wr.length + 1 ≤ fuel → 6 * t.input.length + 26 ≤ 100000 →
      ∃ c' fin, runTask fuel (connS b mc t ((rscript s0, pr) :: more)) 0 none = (c', fin) ∧
        EndOnce p recs mc (closeStatus pr s0) t c') ∧
    (∀ s0, closeStatus true s0 = ExitStatus.abort ∧ closeStatus false s0 = s0)) := by
  refine ⟨?_, filter_abort_table⟩
  intro p recs sbody dbody pad res a post b mc content c2 st more t fuel hwf hrole hpairs hnoise hbody hpf hpad hdb hdf
    hnbd ha hpost hpostf hnb hpost5 hin hben hev hfuel hsize
  obtain ⟨c', fin, hrun, ho⟩ := filter_abort_data_noread_e2e (more := more) hwf hrole hpairs hnoise hbody hpf hpad hdb
    hdf hnbd ha hpost hpostf hnb hpost5 hin hben hev hfuel hsize
  have hid := (pid_of_wf hwf).2
  exact ⟨c', fin, hrun, endOnce_of_splitOutcome hid (body_wf hid hbody) hpad (body_wf hid hdb) hnbd ha hnb ho⟩

/-! ## Non-vacuity -/
namespace Example4
open Fcgi.C01.Example Fcgi.C07E.Example Fcgi.C07U.Example Fcgi.C11F.Example Fcgi.C11F.Example2 Fcgi.C11F.Example3

/-- `filter_abort_data_noread_e2e` applied to the wire of `Example3` (`Stdin("AB")`, terminator, `GetValues`,
`Data("xyz")`, abort record, Data terminator), handler `[ret Complete(3)]`, KEEP_CONN.  Replayed, model
driver = crate (`# case c11f-keep-iiip-split-Xcomplete:3-24,53,P,A`): `… HE(ok:complete:3) R64:53 W32:5 W27:P |1
W27:27 W32:32 R64:P |2 R64:17 R64:W STALL`: `writeable()` buffers `"xyz"` (the read ends exactly behind that
record), `record_boundary()` returns at once (`d₁ = dbody`, `s₂ = []`), full epilogue with status `3`; the
abort record arrives later and goes to the next request parser.  With `rd = A`
(`# case c11f-keep-iiip-Xcomplete:3-A`): content and abort record in one `parse` call, bare `EndRequest`. -/
example : ∃ c' full d1 s2, runTask 20 (connS 64 10 fr3T [([.ret (.complete 3)], true)]) 0 none = (c', "STALL") ∧
    fDc = d1 ++ s2 ∧ (full = false → s2 = []) ∧
    c'.env.tr.wlog = owedActive 1 10 (gapPre 1 fS1 [] 0 d1) ++ epilogueFor 1 (.complete 3) full ++
      idleOwed 10 (s2 ++ aR :: dE) ∧
    c'.phase = .parseReq (track 64 10 (serAll (s2 ++ aR :: dE))) .reading ∧
    hsCount c'.env.tr.events = 1 ∧ c'.env.tr.input = [] := by
  obtain ⟨c', fin, hrun, ho⟩ := filter_abort_data_noread_e2e (p := preFK) (recs := recsFK) (sbody := fS1) (pad := [])
    (res := 0) (dbody := fDc) (a := aR)
    (post := dE) (b := 64) (mc := 10) (content := [65, 66]) (c2 := [120, 121, 122]) (st := .complete 3)
    (more := []) (t := fr3T) (fuel := 20)
    recsFK_wf rfl (fun q hq => by cases hq) (recsFK_fits _) fS1_body (fS1_fits _) (by decide) fDc_body fDc_fits
    (by decide) aR_abort dE_wf (dE_fits _) (by decide) (by decide) rfl ⟨by decide, by decide, rfl, by decide⟩ rfl
    (by decide) (by decide +kernel)
  obtain ⟨full, d1, s2, hsp, hfs, hf⟩ := ho.final
  rcases hf with ⟨_, hlog, hf⟩ | ⟨h, _⟩
  · rcases hf with ⟨h, _⟩ | ⟨_, hfin, hph, hin, _⟩
    · exact absurd h (by decide)
    · subst hfin
      refine ⟨c', full, d1, s2, hrun, hsp, hfs, ?_, hph, ho.one_handler.1, hin⟩
      rw [hlog]
      show [] ++ (owedPreamble preFK 10 recsFK ++ owedActive 1 10 (gapPre 1 fS1 [] 0 d1) ++
        epilogueFor 1 (.complete 3) full ++ idleOwed 10 (s2 ++ aR :: dE)) = _
      have h1 : owedPreamble preFK 10 recsFK = [] := by decide +kernel
      rw [h1]
      simp only [List.nil_append]
  · exact absurd h (by decide)

end Example4

end Fcgi.C11F
