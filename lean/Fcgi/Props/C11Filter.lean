import Fcgi.Proofs.E2EFilterAbortConn
import Fcgi.Props.C07Authorizer
/-!
# C11 — `AbortRequest` for a FILTER

`Props/C11E2E.lean` covers a Responder aborted inside Stdin.  Here: a Filter (role 3) whose
`AbortRequest(id)` record arrives

  (i) inside the Stdin stream, (ii) between the Stdin terminator and the first Data record,
  (iii) inside the Data stream,

for a handler that

  (a) reads Stdin, selects Data, reads Data, propagating errors; (b) the same, ignoring errors;
  (c) never reads (`[ret st]`).

## What is proved

Row (c), every placement in which NO Data content precedes the abort record — (i), (ii), and (iii) as
long as only noise of the Data stream precedes it: `filter_abort_noread_e2e`, and the chain step
`filter_abort_noread_chain_e2e`.  `pre` = the records between the preamble and the abort record (own
Stdin records incl. the terminator, noise — `StdinRec`), `post` = the records behind it.

* exactly one handler start;
* the abort is met by `close()`'s own `writeable()` (`set_stream(Data)`, `poll_input(None)`), which
  passes over `pre` (replies written) and fails in front of the abort record; `close()` SWALLOWS that
  error: `set_stream(None)`, `record_boundary()` (returns at once), epilogue;
* exactly one `EndRequest` for the request, with the HANDLER's status `st` — not `ABORT` —, and, the
  request not being writeable, WITHOUT the empty Stdout / Stderr records: the log is
  `owedPreamble ++ owedActive pre ++ EndRequest(id, st)`;
* KEEP_CONN: the abort record and `post` are handed to the next request parser (a record boundary of
  the wire), which swallows the abort record without reply and answers `post` as idle noise; a
  following request is served exactly as alone; no KEEP_CONN: the task returns after the `EndRequest`.

## The other cells (replayed on the crate, model driver = crate; NOT proved here)

See the report / `/verif/.run/replay-c11-filter.ops`: rows (a), (b), and row (c) with Data content
before the abort (there `writeable()` succeeds, the request IS writeable, `record_boundary()` stops in
front of the abort record: full epilogue with the handler's `st`).
-/
namespace Fcgi.C11F
open Fcgi Fcgi.Req Fcgi.Str Fcgi.Async Fcgi.Run Fcgi.Spec Fcgi.E2E Fcgi.C07E Fcgi.C07U

/-- the configuration: a Filter, `pre` ++ `[a]` ++ `post` behind its preamble, handler `[.ret st]` -/
def cfgFA (p : Preamble) (recs pre : List Rec) (a : Rec) (post : List Rec) (b mc : Nat) (st : ExitStatus)
    (L0 : Bytes) (h : Nat) (more : List (List HOp × Bool)) : E2E.Cfg :=
  ⟨p, recs, [], pre, [], 0, [], post, [], 0, b, mc, [], st, L0, h, more,
    serAll (pre ++ [a]) ++ serAll post, [], a.ser ++ serAll post, [], [], [.ret st]⟩

/-- the `EndRequest` record with the handler's status -/
abbrev endRequest (id : Nat) (st : ExitStatus) : Bytes := st.toEndRequest.toRecord id

theorem epilogue_nil (id : Nat) (st : ExitStatus) : makeRequestEpilogue id st [] = endRequest id st := by
  rw [(C17.epilogue_spec id st []).1]; rfl

/-- an `AbortRequest` record met by an idle request parser is owed nothing -/
theorem owed_idle_abort {id : Nat} {a : Rec} (h : IsAbort id a) (mc : Nat) : owed none mc a = [] :=
  C04.owed_other none mc a (by rw [h.1]; decide) (by rw [h.1]; decide) (fun hx => by rw [h.1] at hx; exact absurd hx.1 (by decide))

structure FilterAbortOutcome (p : Preamble) (recs pre : List Rec) (a : Rec) (post : List Rec)
    (b mc : Nat) (st : ExitStatus) (more : List (List HOp × Bool)) (t : Transport) (c' : Conn) (fin : String) :
    Prop where
  /-- exactly one handler start, for the request sent -/
  one_handler : hsCount c'.env.tr.events = 1 ∧ startEvent p.request ∈ c'.env.tr.events
  scripts : c'.scripts = more
  final :
    -- KEEP_CONN: the abort record and `post` go to the next request parser
    (p.flags.toNat % 2 = 1 ∧
      c'.env.tr.wlog = t.wlog ++ (owedPreamble p mc recs ++ owedActive p.id mc pre ++ endRequest p.id st ++
        idleOwed mc post) ∧
      ((t.endMode = .eof ∧ fin = "RET" ∧ c'.phase = .finished) ∨
       (t.endMode = .pend ∧ fin = "STALL" ∧
          c'.phase = .parseReq (track (alignedBufsize b) mc (a.ser ++ serAll post)) .reading ∧
          c'.env.tr.input = [] ∧ c'.env.mutex = none ∧ c'.stop = false ∧ Ben c'.env.tr))) ∨
    -- no KEEP_CONN: the task returns after the `EndRequest`
    (p.flags.toNat % 2 = 0 ∧ fin = "RET" ∧ c'.phase = .finished ∧
      c'.env.tr.wlog = t.wlog ++ (owedPreamble p mc recs ++ owedActive p.id mc pre ++ endRequest p.id st))

theorem faok_of {p : Preamble} {recs pre : List Rec} {a : Rec} {post : List Rec} {b mc : Nat} {st : ExitStatus}
    (L0 : Bytes) (h : Nat) (more : List (List HOp × Bool))
    (hwf : WellFormedPreamble p recs) (hrole : p.role = 3)
    (hpairs : ∀ q ∈ p.pairs, (NV.enc q).length ≤ alignedBufsize b)
    (hnoise : NoiseFits (alignedBufsize b) recs)
    (hpre : ∀ r ∈ pre, StdinRec p.id r) (hpf : NoiseFits (alignedBufsize b) pre) (ha : IsAbort p.id a) :
    FAOK (cfgFA p recs pre a post b mc st L0 h more) a :=
  ⟨hwf, hrole, hpairs, hnoise, hpre, hpf, ha, rfl, rfl, rfl⟩

theorem lfa_eq {p : Preamble} {recs pre : List Rec} {a : Rec} {post : List Rec} {b mc : Nat} {st : ExitStatus}
    {L0 : Bytes} {h : Nat} {more : List (List HOp × Bool)} (left : List Rec) (hl : ∀ e ∈ left, IdleNoise e) :
    ((cfgFA p recs pre a post b mc st L0 h more).front left).LfA =
      L0 ++ idleOwed mc left ++ (owedPreamble p mc recs ++ owedActive p.id mc pre ++ endRequest p.id st) := by
  show ((cfgFA p recs pre a post b mc st L0 h more).front left).L1 ++ owedI p.id mc pre ++
    makeRequestEpilogue p.id st [] = _
  rw [E2E.Cfg.front_L1 _ hl, epilogue_nil]
  simp only [List.append_assoc]
  rfl

/-- **C11 end to end: a Filter whose handler never reads, aborted before any Data content** (cells
(c)(i), (c)(ii), and (c)(iii) with only noise of the Data stream before the abort record). -/
theorem filter_abort_noread_e2e {p : Preamble} {recs pre : List Rec} {a : Rec} {post : List Rec}
    {b mc : Nat} {st : ExitStatus} {more : List (List HOp × Bool)} {t : Transport} {fuel : Nat}
    (hwf : WellFormedPreamble p recs) (hrole : p.role = 3)
    (hpairs : ∀ q ∈ p.pairs, (NV.enc q).length ≤ alignedBufsize b)
    (hnoise : NoiseFits (alignedBufsize b) recs)
    (hpre : ∀ r ∈ pre, StdinRec p.id r) (hpf : NoiseFits (alignedBufsize b) pre) (ha : IsAbort p.id a)
    (hpost : ∀ r ∈ post, r.WF) (hpostf : NoiseFits (alignedBufsize b) post)
    (hnb : ∀ r ∈ post, r.rtype.toNat ≠ RT.beginRequest)
    (hin : t.input = serAll recs ++ (serAll (pre ++ [a]) ++ serAll post)) (hben : Ben t)
    (hev : hsCount t.events = 0) (hfuel : t.rd.length + t.wr.length + 1 ≤ fuel)
    (hsize : 6 * t.input.length + 26 ≤ 100000) :
    ∃ c' fin, runTask fuel (connS b mc t (([.ret st], true) :: more)) 0 none = (c', fin) ∧
      FilterAbortOutcome p recs pre a post b mc st more t c' fin := by
  have hid := (pid_of_wf hwf).2
  have hwa := isAbort_wf ha hid
  have hidleA : IdleNoise a := ⟨hwa, fun hx => absurd hx (by rw [ha.1]; decide)⟩
  have hidle : ∀ e ∈ a :: post, IdleNoise e := by
    intro e he
    rcases List.mem_cons.1 he with rfl | he
    · exact hidleA
    · exact idle_of_noBegin hpost hnb e he
  have hfit : NoiseFits (alignedBufsize b) (a :: post) := by
    intro e he hg
    rcases List.mem_cons.1 he with rfl | he
    · exact absurd hg.1 (by rw [ha.1]; decide)
    · exact hpostf e he hg
  have ok := faok_of (post := post) (mc := mc) (st := st) t.wlog 0 more hwf hrole hpairs hnoise hpre hpf ha
  obtain ⟨hns, hNF⟩ := idle_front dummy_wf b mc (fun q hq => by cases hq) (dummy_fits _) hidle hfit []
  rw [serAll_cons] at hns hNF
  have hst : FStage (cfgFA p recs pre a post b mc st t.wlog 0 more) (connS b mc t (([.ret st], true) :: more)) :=
    .start (raw := []) rfl (by show [] ++ t.input = _; rw [hin]; rfl) (Nat.zero_le _) rfl hben rfl rfl rfl hev
  obtain ⟨c', fin, hrun, hres⟩ := run_filterA ok (Z := serAll dummyRecs ++ []) hns hNF
    t.endMode [] _ 0 fuel hst rfl (fun s hs => by cases hs) rfl (by show ans t + 1 ≤ fuel; unfold ans; omega) hsize
  have hLf := lfa_eq (p := p) (recs := recs) (pre := pre) (a := a) (post := post) (b := b) (mc := mc) (st := st)
    (L0 := t.wlog) (h := 0) (more := more) [] (fun _ h => nomatch h)
  have hLf' : (cfgFA p recs pre a post b mc st t.wlog 0 more).LfA =
      t.wlog ++ (owedPreamble p mc recs ++ owedActive p.id mc pre ++ endRequest p.id st) := by
    have e : (cfgFA p recs pre a post b mc st t.wlog 0 more).front [] = cfgFA p recs pre a post b mc st t.wlog 0 more := rfl
    rw [e] at hLf
    rw [hLf]; simp [idleOwed]
  rcases hres with ⟨_, hk, hkp, hem, _, _, _, hend⟩ | ⟨hfin, hfu, _, _⟩
  · have hout : ∀ F, F ++ (serAll dummyRecs ++ []) = a.ser ++ serAll post ++ (serAll dummyRecs ++ []) →
        (cfgFA p recs pre a post b mc st t.wlog 0 more).LfA ++ (run .header F mc).out =
        t.wlog ++ (owedPreamble p mc recs ++ owedActive p.id mc pre ++ endRequest p.id st ++ idleOwed mc post) := by
      intro F hF
      have hro := (run_idle_out mc (a :: post) hidle).1
      rw [serAll_cons] at hro
      rw [List.append_cancel_right hF, hro, hLf', idleOwed_cons, owed_idle_abort ha, List.nil_append]
      simp only [List.append_assoc]
    refine ⟨c', fin, hrun, ⟨hkp.hs, hkp.ev _ List.mem_cons_self⟩, hkp.sc, Or.inl ⟨hk, ?_, ?_⟩⟩
    · rcases hend with ⟨_, hp⟩ | ⟨_, hf⟩
      · obtain ⟨F, hF, _, _, hlg⟩ := hp.pst
        exact hlg.trans (hout F hF)
      · obtain ⟨F, hF, hlg⟩ := hf.log
        exact hlg.trans (hout F hF)
    · rcases hend with ⟨rfl, hp⟩ | ⟨rfl, hf⟩
      · obtain ⟨F, hF, hps, hph, _⟩ := hp.pst
        have hFe : F = a.ser ++ serAll post := List.append_cancel_right hF
        subst hFe
        exact Or.inr ⟨hem.symm.trans hp.em, rfl, hph, hp.inp, hkp.mx, hps.stop, hps.ben⟩
      · exact Or.inl ⟨hem.symm.trans hf.em, rfl, hf.ph⟩
  · exact ⟨c', fin, hrun, ⟨hfu.ev.1, hfu.ev.2⟩, hfu.sc, Or.inr ⟨hfu.nokeep, hfin, hfu.ph, hfu.log.trans hLf'⟩⟩

/-- **The chain step** (KEEP_CONN): after the aborted Filter request of `filter_abort_noread_e2e` a
closed-loop client sends the keep-alive requests `x :: xs` (`UReq.OK`): the abort record and `post` are
swallowed by the next `parse_request` (`post` answered as idle noise), then each request is served
exactly as alone (`UReq.Seg`). -/
theorem filter_abort_noread_chain_e2e {p : Preamble} {recs pre : List Rec} {a : Rec} {post : List Rec}
    {b mc : Nat} {st : ExitStatus} (x : UReq) (xs : List UReq) {t : Transport} {fuel : Nat}
    (hwf : WellFormedPreamble p recs) (hrole : p.role = 3) (hk : p.flags.toNat % 2 = 1)
    (hpairs : ∀ q ∈ p.pairs, (NV.enc q).length ≤ alignedBufsize b)
    (hnoise : NoiseFits (alignedBufsize b) recs)
    (hpre : ∀ r ∈ pre, StdinRec p.id r) (hpf : NoiseFits (alignedBufsize b) pre) (ha : IsAbort p.id a)
    (hpost : ∀ r ∈ post, r.WF) (hpostf : NoiseFits (alignedBufsize b) post)
    (hnb : ∀ r ∈ post, r.rtype.toNat ≠ RT.beginRequest)
    (hok : ∀ y ∈ x :: xs, y.OK b)
    (hin : t.input = serAll recs ++ (serAll (pre ++ [a]) ++ serAll post)) (hben : Ben t) (hem : t.endMode = .pend)
    (hev : hsCount t.events = 0) (hfuel : t.rd.length + t.wr.length + 1 ≤ fuel)
    (hsize : 6 * t.input.length + 26 ≤ 100000) :
    ∃ c' A,
      closedLoop fuel ((x :: xs).map UReq.wire)
        (connS b mc t (([.ret st], true) :: (x :: xs).map UReq.handler)) 0 = (c', "STALL") ∧
      SegsAll mc (x :: xs) A ∧
      c'.env.tr.wlog = t.wlog ++ (owedPreamble p mc recs ++ owedActive p.id mc pre ++ endRequest p.id st ++
        idleOwed mc post) ++ A ∧
      hsCount c'.env.tr.events = 1 + (x :: xs).length ∧
      startEvent p.request ∈ c'.env.tr.events ∧
      (∀ y ∈ x :: xs, startEvent y.p.request ∈ c'.env.tr.events) ∧ c'.scripts = [] ∧
      c'.env.tr.input = [] ∧
      c'.phase = .parseReq (track (alignedBufsize b) mc (serAll ((x :: xs).getLast (by simp)).left)) .reading := by
  have hid := (pid_of_wf hwf).2
  have hwa := isAbort_wf ha hid
  have hidle : ∀ e ∈ a :: post, IdleNoise e := by
    intro e he
    rcases List.mem_cons.1 he with rfl | he
    · exact ⟨hwa, fun hx => absurd hx (by rw [ha.1]; decide)⟩
    · exact idle_of_noBegin hpost hnb e he
  have hfit : NoiseFits (alignedBufsize b) (a :: post) := by
    intro e he hg
    rcases List.mem_cons.1 he with rfl | he
    · exact absurd hg.1 (by rw [ha.1]; decide)
    · exact hpostf e he hg
  have hlo : LeftOK (alignedBufsize b) (a :: post) := ⟨hidle, hfit⟩
  have ok := faok_of (post := post) (mc := mc) (st := st) t.wlog 0 (((x :: xs).map (UReq.spec mc)).map RSpec.handler)
    hwf hrole hpairs hnoise hpre hpf ha
  have hstart : StartAt (alignedBufsize b) mc [] t.wlog
      (([.ret st], true) :: ((x :: xs).map (UReq.spec mc)).map RSpec.handler) 0 [] (ans t)
      (serAll recs ++ (serAll (pre ++ [a]) ++ serAll post))
      (connS b mc t (([.ret st], true) :: ((x :: xs).map (UReq.spec mc)).map RSpec.handler)) :=
    Or.inr ⟨rfl, rfl, hin, rfl, hben, rfl, rfl, rfl, hev, (fun _ hs => nomatch hs), rfl, hem, Nat.le_refl _⟩
  have hleft0 : LeftOK (alignedBufsize b) [] := ⟨(fun _ he => nomatch he), (fun _ hr => nomatch hr)⟩
  obtain ⟨c1, hrun1, hw1⟩ := serve_filterA_core ok hk (left := []) hleft0 (Z := x.wire) hidle
    (goodNext_of_ok (hok x List.mem_cons_self) hlo) 0 fuel (by simp [idleOwed]; rfl) hstart (by unfold ans; omega)
    (by show 6 * (serAll recs ++ (serAll (pre ++ [a]) ++ serAll post)).length + 26 ≤ _; rw [← hin]; exact hsize)
  have hLf := lfa_eq (p := p) (recs := recs) (pre := pre) (a := a) (post := post) (b := b) (mc := mc) (st := st)
    (L0 := t.wlog) (h := 0) (more := ((x :: xs).map (UReq.spec mc)).map RSpec.handler) [] (fun _ h => nomatch h)
  have hLw : ((cfgFA p recs pre a post b mc st t.wlog 0 (((x :: xs).map (UReq.spec mc)).map RSpec.handler)).front []).LfA ++
      idleOwed mc (a :: post) =
      t.wlog ++ (owedPreamble p mc recs ++ owedActive p.id mc pre ++ endRequest p.id st ++ idleOwed mc post) := by
    rw [hLf, idleOwed_cons, owed_idle_abort ha, List.nil_append]
    simp [idleOwed, List.append_assoc]
  have hw1' : Waiting (alignedBufsize b) mc (a :: post)
      (t.wlog ++ (owedPreamble p mc recs ++ owedActive p.id mc pre ++ endRequest p.id st ++ idleOwed mc post))
      (((x :: xs).map (UReq.spec mc)).map RSpec.handler) 1 [hsEvent p.request] (ans t) c1 := by
    rw [← hLw]; exact hw1
  obtain ⟨c', A, hrun, hseg, hw⟩ := chain_serves (alignedBufsize b) mc (serAll dummyRecs ++ [])
    (xs.map (UReq.spec mc)) (UReq.spec mc x) (a :: post) _ 1 [hsEvent p.request] (ans t) (feed c1 x.wire) 1000 fuel
    (hall_of_ok x xs hok) hlo (Or.inl ⟨c1, hw1', rfl⟩) (by unfold ans; omega)
  have hrun' : closedLoop fuel ((x :: xs).map UReq.wire)
      (connS b mc t (([.ret st], true) :: (x :: xs).map UReq.handler)) 0 = (c', "STALL") := by
    have e : (x :: xs).map UReq.handler = ((x :: xs).map (UReq.spec mc)).map RSpec.handler := by
      rw [List.map_map]; rfl
    rw [e]
    show closedLoop fuel (x.wire :: xs.map UReq.wire) _ 0 = _
    rw [closedLoop, hrun1]
    simp only [if_true]
    rw [← hrun, List.map_map]; rfl
  have hlast := lastLeft_specs mc x xs
  refine ⟨c', A, hrun', segAll_specs mc (x :: xs) A hseg, hw.log, ?_, ?_, ?_, hw.sc, hw.inp, ?_⟩
  · have := hw.hs; simpa [Nat.add_comm] using this
  · exact hw.ev _ (mem_evsAfter _ _ _ (Or.inl List.mem_cons_self))
  · intro y hy
    exact hw.ev _ (mem_evsAfter _ _ _ (Or.inr ⟨UReq.spec mc y, List.mem_map_of_mem hy, rfl⟩))
  · rw [← hlast]; exact hw.ph

/-! ## Non-vacuity -/
namespace Example
open Fcgi.C01.Example Fcgi.C07E.Example Fcgi.C07U.Example

/-- `AbortRequest(1)` -/
def aR : Rec := { rtype := 2, id := 1, content := [], pad := [] }
theorem aR_abort : IsAbort 1 aR := ⟨rfl, rfl, by decide, by decide⟩

theorem fS_stdin : ∀ r ∈ fS, StdinRec 1 r := by
  intro r hr
  simp only [fS, List.mem_cons, List.not_mem_nil, or_false] at hr
  rcases hr with rfl | rfl <;> exact ⟨⟨by decide, by decide, by decide⟩, Or.inr ⟨rfl, rfl⟩⟩

theorem fD_wf : ∀ r ∈ fD, r.WF := streamRecs_wf (by decide) (by decide) fD_ok

/-- cell (c)(ii), KEEP_CONN: the abort record sits between the Stdin terminator and the Data stream -/
def faT : Transport :=
  { input := serAll recsFK ++ (serAll (fS ++ [aR]) ++ serAll fD), endMode := .pend,
    rd := [.n 24, .n 7, .pending, .n 9, .all], wr := [.n 5, .pending, .all], fl := [] }

/-- `filter_abort_noread_e2e` applied to cell (c)(ii) (handler `[ret Complete(3)]`, KEEP_CONN).  Replayed
(`# case c11f-keep-ii-Xcomplete:3-24,7,P,9,A`, model driver = crate): `… HS(3,1,-) HE(ok:complete:3) R64:7
R57:P |1 R57:9 R58:54 W16:5 W11:P |2 W11:11 W32:32 R64:W STALL`: `writeable()` inside `close()` reads (one
transient `Pending`), meets the abort record; the 16-byte bare `EndRequest(1, Complete(3))` is written
(`01 03 00 01 00 08 00 00  00 00 00 03 00 00 00 00`) — no empty Stdout / Stderr records, status NOT
`ABRT` —; the next `parse_request` swallows the abort record and answers the `GetValues` record of the
abandoned Data stream (`W32`). -/
example : ∃ c', runTask 20 (connS 64 10 faT [([.ret (.complete 3)], true)]) 0 none = (c', "STALL") ∧
    c'.env.tr.wlog = [1, 3, 0, 1, 0, 8, 0, 0, 0, 0, 0, 3, 0, 0, 0, 0] ++ idleOwed 10 fD ∧
    c'.phase = .parseReq (track 64 10 (aR.ser ++ serAll fD)) .reading ∧
    hsCount c'.env.tr.events = 1 ∧ c'.env.tr.input = [] := by
  obtain ⟨c', fin, hrun, ho⟩ := filter_abort_noread_e2e (p := preFK) (recs := recsFK) (pre := fS) (a := aR)
    (post := fD) (b := 64) (mc := 10) (st := .complete 3) (more := []) (t := faT) (fuel := 20)
    recsFK_wf rfl (fun q hq => by cases hq) (recsFK_fits _) fS_stdin (fS_fits _) aR_abort fD_wf fD_fits fD_noBegin
    rfl ⟨by decide, by decide, rfl, by decide⟩ rfl (by decide) (by decide +kernel)
  rcases ho.final with ⟨_, hlog, hf⟩ | ⟨h, _⟩
  · rcases hf with ⟨h, _⟩ | ⟨_, hfin, hph, hin, _⟩
    · exact absurd h (by decide)
    · subst hfin
      refine ⟨c', hrun, ?_, hph, ho.one_handler.1, hin⟩
      rw [hlog]
      show [] ++ (owedPreamble preFK 10 recsFK ++ owedActive 1 10 fS ++ endRequest 1 (.complete 3) ++ idleOwed 10 fD) = _
      have h1 : owedPreamble preFK 10 recsFK = [] := by decide +kernel
      have h2 : owedActive 1 10 fS = [] := by decide +kernel
      rw [h1, h2]
      simp only [List.nil_append]
      rfl
  · exact absurd h (by decide)

end Example

end Fcgi.C11F
