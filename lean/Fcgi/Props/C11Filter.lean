import Fcgi.Proofs.E2EFilterAbortConn
import Fcgi.Props.C07Authorizer
/-!
# C11 — `AbortRequest` for a FILTER

`Props/C11E2E.lean` covers a Responder aborted inside Stdin.  Here: a Filter (role 3) whose
`AbortRequest(id)` record arrives

  (i) inside the Stdin stream, (ii) between the Stdin terminator and the first Data record,
  (iii) inside the Data stream,

for a handler that

  (a) reads Stdin, selects Data, reads Data, propagating errors; (b) the same, ignoring errors;
  (c) never reads (`[ret st]`).

## What is proved

Row (c), every placement in which NO Data content precedes the abort record — (i), (ii), and (iii) as
long as only noise of the Data stream precedes it: `filter_abort_noread_e2e`, and the chain step
`filter_abort_noread_chain_e2e`.  `pre` = the records between the preamble and the abort record (own
Stdin records incl. the terminator, noise — `StdinRec`), `post` = the records behind it.

* exactly one handler start;
* the abort is met by `close()`'s own `writeable()` (`set_stream(Data)`, `poll_input(None)`), which
  passes over `pre` (replies written) and fails in front of the abort record; `close()` SWALLOWS that
  error: `set_stream(None)`, `record_boundary()` (returns at once), epilogue;
* exactly one `EndRequest` for the request, with the HANDLER's status `st` — not `ABORT` —, and, the
  request not being writeable, WITHOUT the empty Stdout / Stderr records: the log is
  `owedPreamble ++ owedActive pre ++ EndRequest(id, st)`;
* KEEP_CONN: the abort record and `post` are handed to the next request parser (a record boundary of
  the wire), which swallows the abort record without reply and answers `post` as idle noise; a
  following request is served exactly as alone; no KEEP_CONN: the task returns after the `EndRequest`.

## The other cells (replayed on the crate, model driver = crate; NOT proved here)

See the report / `/verif/.run/replay-c11-filter.ops`: rows (a), (b), and row (c) with Data content
before the abort (there `writeable()` succeeds, the request IS writeable, `record_boundary()` stops in
front of the abort record: full epilogue with the handler's `st`).
-/
namespace Fcgi.C11F
open Fcgi Fcgi.Req Fcgi.Str Fcgi.Async Fcgi.Run Fcgi.Spec Fcgi.E2E Fcgi.C07E Fcgi.C07U

/-- the configuration: a Filter, `pre` ++ `[a]` ++ `post` behind its preamble, handler `[.ret st]` -/
def cfgFA (p : Preamble) (recs pre : List Rec) (a : Rec) (post : List Rec) (b mc : Nat) (st : ExitStatus)
    (L0 : Bytes) (h : Nat) (more : List (List HOp × Bool)) : E2E.Cfg :=
  ⟨p, recs, [], pre, [], 0, [], post, [], 0, b, mc, [], st, L0, h, more,
    serAll (pre ++ [a]) ++ serAll post, [], a.ser ++ serAll post, [], [], [.ret st]⟩

/-- the `EndRequest` record with the handler's status -/
abbrev endRequest (id : Nat) (st : ExitStatus) : Bytes := st.toEndRequest.toRecord id

theorem epilogue_nil (id : Nat) (st : ExitStatus) : makeRequestEpilogue id st [] = endRequest id st := by
  rw [(C17.epilogue_spec id st []).1]; rfl

/-- an `AbortRequest` record met by an idle request parser is owed nothing -/
theorem owed_idle_abort {id : Nat} {a : Rec} (h : IsAbort id a) (mc : Nat) : owed none mc a = [] :=
  C04.owed_other none mc a (by rw [h.1]; decide) (by rw [h.1]; decide) (fun hx => by rw [h.1] at hx; exact absurd hx.1 (by decide))

structure FilterAbortOutcome (p : Preamble) (recs pre : List Rec) (a : Rec) (post : List Rec)
    (b mc : Nat) (st : ExitStatus) (more : List (List HOp × Bool)) (t : Transport) (c' : Conn) (fin : String) :
    Prop where
  /-- exactly one handler start, for the request sent -/
  one_handler : hsCount c'.env.tr.events = 1 ∧ startEvent p.request ∈ c'.env.tr.events
  scripts : c'.scripts = more
  final :
    -- KEEP_CONN: the abort record and `post` go to the next request parser
    (p.flags.toNat % 2 = 1 ∧
      c'.env.tr.wlog = t.wlog ++ (owedPreamble p mc recs ++ owedActive p.id mc pre ++ endRequest p.id st ++
        idleOwed mc post) ∧
      ((t.endMode = .eof ∧ fin = "RET" ∧ c'.phase = .finished) ∨
       (t.endMode = .pend ∧ fin = "STALL" ∧
          c'.phase = .parseReq (track (alignedBufsize b) mc (a.ser ++ serAll post)) .reading ∧
          c'.env.tr.input = [] ∧ c'.env.mutex = none ∧ c'.stop = false ∧ Ben c'.env.tr))) ∨
    -- no KEEP_CONN: the task returns after the `EndRequest`
    (p.flags.toNat % 2 = 0 ∧ fin = "RET" ∧ c'.phase = .finished ∧
      c'.env.tr.wlog = t.wlog ++ (owedPreamble p mc recs ++ owedActive p.id mc pre ++ endRequest p.id st))

theorem faok_of {p : Preamble} {recs pre : List Rec} {a : Rec} {post : List Rec} {b mc : Nat} {st : ExitStatus}
    (L0 : Bytes) (h : Nat) (more : List (List HOp × Bool))
    (hwf : WellFormedPreamble p recs) (hrole : p.role = 3)
    (hpairs : ∀ q ∈ p.pairs, (NV.enc q).length ≤ alignedBufsize b)
    (hnoise : NoiseFits (alignedBufsize b) recs)
    (hpre : ∀ r ∈ pre, StdinRec p.id r) (hpf : NoiseFits (alignedBufsize b) pre) (ha : IsAbort p.id a) :
    FAOK (cfgFA p recs pre a post b mc st L0 h more) a :=
  ⟨hwf, hrole, hpairs, hnoise, hpre, hpf, ha, rfl, rfl, rfl⟩

theorem lfa_eq {p : Preamble} {recs pre : List Rec} {a : Rec} {post : List Rec} {b mc : Nat} {st : ExitStatus}
    {L0 : Bytes} {h : Nat} {more : List (List HOp × Bool)} (left : List Rec) (hl : ∀ e ∈ left, IdleNoise e) :
    ((cfgFA p recs pre a post b mc st L0 h more).front left).LfA =
      L0 ++ idleOwed mc left ++ (owedPreamble p mc recs ++ owedActive p.id mc pre ++ endRequest p.id st) := by
  show ((cfgFA p recs pre a post b mc st L0 h more).front left).L1 ++ owedI p.id mc pre ++
    makeRequestEpilogue p.id st [] = _
  rw [E2E.Cfg.front_L1 _ hl, epilogue_nil]
  simp only [List.append_assoc]
  rfl

/-- **C11 end to end: a Filter whose handler never reads, aborted before any Data content** (cells
(c)(i), (c)(ii), and (c)(iii) with only noise of the Data stream before the abort record). -/
theorem filter_abort_noread_e2e {p : Preamble} {recs pre : List Rec} {a : Rec} {post : List Rec}
    {b mc : Nat} {st : ExitStatus} {more : List (List HOp × Bool)} {t : Transport} {fuel : Nat}
    (hwf : WellFormedPreamble p recs) (hrole : p.role = 3)
    (hpairs : ∀ q ∈ p.pairs, (NV.enc q).length ≤ alignedBufsize b)
    (hnoise : NoiseFits (alignedBufsize b) recs)
    (hpre : ∀ r ∈ pre, StdinRec p.id r) (hpf : NoiseFits (alignedBufsize b) pre) (ha : IsAbort p.id a)
    (hpost : ∀ r ∈ post, r.WF) (hpostf : NoiseFits (alignedBufsize b) post)
    (hnb : ∀ r ∈ post, r.rtype.toNat ≠ RT.beginRequest)
    (hin : t.input = serAll recs ++ (serAll (pre ++ [a]) ++ serAll post)) (hben : Ben t)
    (hev : hsCount t.events = 0) (hfuel : t.rd.length + t.wr.length + 1 ≤ fuel)
    (hsize : 6 * t.input.length + 26 ≤ 100000) :
    ∃ c' fin, runTask fuel (connS b mc t (([.ret st], true) :: more)) 0 none = (c', fin) ∧
      FilterAbortOutcome p recs pre a post b mc st more t c' fin := by
  have hid := (pid_of_wf hwf).2
  have hwa := isAbort_wf ha hid
  have hidleA : IdleNoise a := ⟨hwa, fun hx => absurd hx (by rw [ha.1]; decide)⟩
  have hidle : ∀ e ∈ a :: post, IdleNoise e := by
    intro e he
    rcases List.mem_cons.1 he with rfl | he
    · exact hidleA
    · exact idle_of_noBegin hpost hnb e he
  have hfit : NoiseFits (alignedBufsize b) (a :: post) := by
    intro e he hg
    rcases List.mem_cons.1 he with rfl | he
    · exact absurd hg.1 (by rw [ha.1]; decide)
    · exact hpostf e he hg
  have ok := faok_of (post := post) (mc := mc) (st := st) t.wlog 0 more hwf hrole hpairs hnoise hpre hpf ha
  obtain ⟨hns, hNF⟩ := idle_front dummy_wf b mc (fun q hq => by cases hq) (dummy_fits _) hidle hfit []
  rw [serAll_cons] at hns hNF
  have hst : FStage (cfgFA p recs pre a post b mc st t.wlog 0 more) (connS b mc t (([.ret st], true) :: more)) :=
    .start (raw := []) rfl (by show [] ++ t.input = _; rw [hin]; rfl) (Nat.zero_le _) rfl hben rfl rfl rfl hev
  obtain ⟨c', fin, hrun, hres⟩ := run_filterA ok (Z := serAll dummyRecs ++ []) hns hNF
    t.endMode [] _ 0 fuel hst rfl (fun s hs => by cases hs) rfl (by show ans t + 1 ≤ fuel; unfold ans; omega) hsize
  have hLf := lfa_eq (p := p) (recs := recs) (pre := pre) (a := a) (post := post) (b := b) (mc := mc) (st := st)
    (L0 := t.wlog) (h := 0) (more := more) [] (fun _ h => nomatch h)
  have hLf' : (cfgFA p recs pre a post b mc st t.wlog 0 more).LfA =
      t.wlog ++ (owedPreamble p mc recs ++ owedActive p.id mc pre ++ endRequest p.id st) := by
    have e : (cfgFA p recs pre a post b mc st t.wlog 0 more).front [] = cfgFA p recs pre a post b mc st t.wlog 0 more := rfl
    rw [e] at hLf
    rw [hLf]; simp [idleOwed]
  rcases hres with ⟨_, hk, hkp, hem, _, _, _, hend⟩ | ⟨hfin, hfu, _, _⟩
  · have hout : ∀ F, F ++ (serAll dummyRecs ++ []) = a.ser ++ serAll post ++ (serAll dummyRecs ++ []) →
        (cfgFA p recs pre a post b mc st t.wlog 0 more).LfA ++ (run .header F mc).out =
        t.wlog ++ (owedPreamble p mc recs ++ owedActive p.id mc pre ++ endRequest p.id st ++ idleOwed mc post) := by
      intro F hF
      have hro := (run_idle_out mc (a :: post) hidle).1
      rw [serAll_cons] at hro
      rw [List.append_cancel_right hF, hro, hLf', idleOwed_cons, owed_idle_abort ha, List.nil_append]
      simp only [List.append_assoc]
    refine ⟨c', fin, hrun, ⟨hkp.hs, hkp.ev _ List.mem_cons_self⟩, hkp.sc, Or.inl ⟨hk, ?_, ?_⟩⟩
    · rcases hend with ⟨_, hp⟩ | ⟨_, hf⟩
      · obtain ⟨F, hF, _, _, hlg⟩ := hp.pst
        exact hlg.trans (hout F hF)
      · obtain ⟨F, hF, hlg⟩ := hf.log
        exact hlg.trans (hout F hF)
    · rcases hend with ⟨rfl, hp⟩ | ⟨rfl, hf⟩
      · obtain ⟨F, hF, hps, hph, _⟩ := hp.pst
        have hFe : F = a.ser ++ serAll post := List.append_cancel_right hF
        subst hFe
        exact Or.inr ⟨hem.symm.trans hp.em, rfl, hph, hp.inp, hkp.mx, hps.stop, hps.ben⟩
      · exact Or.inl ⟨hem.symm.trans hf.em, rfl, hf.ph⟩
  · exact ⟨c', fin, hrun, ⟨hfu.ev.1, hfu.ev.2⟩, hfu.sc, Or.inr ⟨hfu.nokeep, hfin, hfu.ph, hfu.log.trans hLf'⟩⟩

end Fcgi.C11F
