import Fcgi.Proofs.E2EChainNF
import Fcgi.Props.C07NoFuel5

/-!
# C07 — the keep-alive chains over requests WITHOUT cost fields (`UReq.OKn`)

`UReq.OKn` is `UReq.OKu` (`Props/E2EUnbounded.lean`) without its cost fields (`Sent.OKn` for a fully read request, no
`wcost |data| + 4 ≤ 1000` for a request left unread); `serves_of_okn`, `hall_of_okn`: every such request is served from any
start of a chain (`E2E.Serves`), over the no-fuel engines.  The chain theorems that quantify over follow-up requests are
restated with `OKn` (suffix `_okn`): each is its `_nofuel` twin with `UReq.OKu` replaced by `UReq.OKn`.
-/
namespace Fcgi.C07U
open Fcgi Fcgi.Req Fcgi.Str Fcgi.Async Fcgi.Run Fcgi.Spec Fcgi.E2E Fcgi.C07E

/-- `UReq.OKu` without the cost fields. -/
def UReq.OKn (b : Nat) : UReq → Prop
  | .full q => q.OKn b ∧ q.p.flags.toNat % 2 = 1
  | .unread p recs content srecs data st hs =>
    NoRead hs data st ∧ WellFormedPreamble p recs ∧ p.role = 1 ∧ p.flags.toNat % 2 = 1 ∧
    (∀ q ∈ p.pairs, (NV.enc q).length ≤ alignedBufsize b) ∧ NoiseFits (alignedBufsize b) recs ∧
    StreamRecs p.id 5 content srecs ∧ NoiseFits (alignedBufsize b) srecs ∧
    (∀ r ∈ srecs, r.rtype.toNat ≠ RT.beginRequest)

theorem UReq.OKu.toN {b : Nat} {x : UReq} (h : x.OKu b) : x.OKn b := by
  cases x with
  | full q => exact ⟨C07E.Sent.OKu.toN h.1, h.2⟩
  | unread p recs content srecs data st hs =>
    obtain ⟨h1, h2, h3, h4, h5, h6, h7, h8, h9, _⟩ := h
    exact ⟨h1, h2, h3, h4, h5, h6, h7, h8, h9⟩

/-- `serves_full_u` for `OKn`. -/
theorem serves_full_n {b mc : Nat} {q : Sent} (hq : q.OKn b) (hk : q.p.flags.toNat % 2 = 1) (Z : Bytes) :
    Serves (alignedBufsize b) mc ((UReq.full q).spec mc) Z := by
  intro left Lw sc h evs A0 c n fuel hleft hstart hf
  obtain ⟨L, hLw⟩ := startAt_base hstart hleft.1
  have ok := cfg_ok_n (mc := mc) hq L h sc
  have hleft' : LeftOK (alignedBufsize (q.cfg b mc L h sc).b) left := by rw [cfg_b]; exact hleft
  have hstart' : StartAt (q.cfg b mc L h sc).cap (q.cfg b mc L h sc).mc left Lw
      (((q.cfg b mc L h sc).hscript, true) :: (q.cfg b mc L h sc).more) (q.cfg b mc L h sc).hs0 evs A0
      (q.cfg b mc L h sc).W c := by
    rw [E2E.Cfg.cap, cfg_b, cfg_mc, cfg_hscript, cfg_more, cfg_hs0, cfg_W]; exact hstart
  obtain ⟨c', O1, O2, hrun, hO, hw, _⟩ := serve_full_coreN' ok (by rw [cfg_p]; exact hk) hleft' n fuel
    (by rw [cfg_L0, cfg_mc]; exact hLw) hstart' hf
  rw [cfg_Ot] at hO
  refine ⟨c', expectedLogN q.p q.recs mc q.data q.st O1 O2, hrun, ⟨O1, O2, hO, rfl⟩, ?_⟩
  have hL3 : ((q.cfg b mc L h sc).front left).L3 O1 O2 = Lw ++ expectedLogN q.p q.recs mc q.data q.st O1 O2 := by
    rw [L3_eq]
    show (q.cfg b mc L h sc).L0 ++ expectedLogN (q.cfg b mc L h sc).p (left ++ (q.cfg b mc L h sc).recs)
      (q.cfg b mc L h sc).mc (q.cfg b mc L h sc).data (q.cfg b mc L h sc).st O1 O2 = _
    rw [cfg_L0, cfg_p, cfg_recs, cfg_mc, cfg_data, cfg_st, hLw]
    simp only [expectedLogN, owedPreamble_idle q.p mc left hleft.1, List.append_assoc]
  rw [hL3, E2E.Cfg.cap, cfg_b, cfg_mc, cfg_more, cfg_hs0, cfg_p] at hw
  exact hw

/-- `serves_unread_u` for `OKn`. -/
theorem serves_unread_n {b mc : Nat} {p : Preamble} {recs : List Rec} {content : Bytes} {srecs : List Rec}
    {data : Bytes} {st : ExitStatus} {hs : List HOp}
    (hx : (UReq.unread p recs content srecs data st hs).OKn b) {Z : Bytes}
    (hZ : GoodNext (alignedBufsize b) mc srecs Z) :
    Serves (alignedBufsize b) mc ((UReq.unread p recs content srecs data st hs).spec mc) Z := by
  obtain ⟨hnr, hwf, hrole, hk, hpairs, hnoise, hstr, hsn, hnb⟩ := hx
  intro left Lw sc h evs A0 c n fuel hleft hstart hf
  obtain ⟨L, hLw⟩ := startAt_base hstart hleft.1
  have hidle := srecs_idle hwf hstr hnb
  have ok : UOKn (cfgU p recs srecs b mc data st hs L h sc) :=
    ⟨hwf, hrole, hpairs, hnoise, rfl, rfl, rfl, rfl, hnr⟩
  obtain ⟨c', hrun, hw⟩ := serve_unread_coreN' ok hk (left := left) hleft (Z := Z) hidle hZ n fuel hLw hstart hf
  refine ⟨c', _, hrun, rfl, ?_⟩
  have hLU : ((cfgU p recs srecs b mc data st hs L h sc).front left).LU ++ idleOwed mc srecs =
      Lw ++ (owedPreamble p mc recs ++ streamRecords 6 p.id data ++ epilogue p.id st ++ owedStream p.id 5 mc srecs) := by
    show (((cfgU p recs srecs b mc data st hs L h sc).front left).L1 ++ streamRecords 6 p.id data ++
      makeRequestEpilogue p.id st [RT.stdout, RT.stderr]) ++ idleOwed mc srecs = _
    rw [E2E.Cfg.front_L1 _ hleft.1, epilogue_eq,
      idleOwed_eq_owedStream hstr (by decide) (by decide) (by decide) (by decide) hnb, hLw]
    simp only [List.append_assoc]
    rfl
  have hw' : Waiting (alignedBufsize b) mc srecs
      (((cfgU p recs srecs b mc data st hs L h sc).front left).LU ++ idleOwed mc srecs) sc (h + 1)
      (hsEvent p.request :: evs) A0 c' := hw
  rw [hLU] at hw'
  exact hw'

/-- `goodNext_of_oku` for `OKn`. -/
theorem goodNext_of_okn {b mc : Nat} {x : UReq} (hx : x.OKn b) {left : List Rec} (hl : LeftOK (alignedBufsize b) left) :
    GoodNext (alignedBufsize b) mc left x.wire := by
  cases x with
  | full q =>
    obtain ⟨hwf, hpairs, hnoise, _⟩ := hx.1
    exact idle_front hwf b mc hpairs hnoise hl.1 hl.2 _
  | unread p recs content srecs data st hs =>
    obtain ⟨_, hwf, _, _, hpairs, hnoise, _⟩ := hx
    exact idle_front hwf b mc hpairs hnoise hl.1 hl.2 _

/-- `leftOK_of_oku` for `OKn`. -/
theorem leftOK_of_okn {b : Nat} {x : UReq} (hx : x.OKn b) : LeftOK (alignedBufsize b) x.left := by
  cases x with
  | full q => exact ⟨(fun _ he => nomatch he), (fun _ hr => nomatch hr)⟩
  | unread p recs content srecs data st hs =>
    obtain ⟨_, hwf, _, _, _, _, hstr, hsn, hnb⟩ := hx
    exact ⟨srecs_idle hwf hstr hnb, hsn⟩

/-- `serves_of_oku` for `OKn`. -/
theorem serves_of_okn {b mc : Nat} {x : UReq} (hx : x.OKn b) {Z : Bytes}
    (hZ : GoodNext (alignedBufsize b) mc x.left Z) : Serves (alignedBufsize b) mc (x.spec mc) Z := by
  cases x with
  | full q => exact serves_full_n hx.1 hx.2 Z
  | unread p recs content srecs data st hs => exact serves_unread_n hx hZ

/-- `hall_of_oku` for `OKn`. -/
theorem hall_of_okn {b mc : Nat} (x : UReq) (xs : List UReq) (hok : ∀ y ∈ x :: xs, y.OKn b) :
    ∀ ys y zs, (UReq.spec mc x) :: xs.map (UReq.spec mc) = ys ++ y :: zs →
      Serves (alignedBufsize b) mc y (nextW (serAll dummyRecs ++ []) zs) ∧ LeftOK (alignedBufsize b) y.left := by
  intro ys y zs he
  have he' : (x :: xs).map (UReq.spec mc) = ys ++ y :: zs := he
  obtain ⟨l1, l2, hl, h1, h2⟩ := List.map_eq_append_iff.1 he'
  cases l2 with
  | nil => cases h2
  | cons y0 l3 =>
    simp only [List.map_cons, List.cons.injEq] at h2
    obtain ⟨rfl, rfl⟩ := h2
    have hy0 : y0.OKn b := hok y0 (by rw [hl]; simp)
    refine ⟨serves_of_okn hy0 ?_, leftOK_of_okn hy0⟩
    cases l3 with
    | nil =>
      have hl0 := leftOK_of_okn hy0
      exact idle_front dummy_wf b mc (fun _ hq => nomatch hq) (dummy_fits _) hl0.1 hl0.2 []
    | cons y1 l4 =>
      have hy1 : y1.OKn b := hok y1 (by rw [hl]; simp)
      exact goodNext_of_okn hy1 (leftOK_of_okn hy0)

end Fcgi.C07U

namespace Fcgi.C07W
open Fcgi Fcgi.Req Fcgi.Str Fcgi.Async Fcgi.Run Fcgi.Spec Fcgi.E2E Fcgi.C07E Fcgi.C07U Fcgi.C07B

/-- `writers_chain_e2e_nofuel` with the follow-up requests `UReq.OKn` (no cost fields). -/
theorem writers_chain_e2e_okn {p : Preamble} {recs : List Rec} {content : Bytes} {srecs : List Rec}
    {b mc : Nat} {W : WList} {st : ExitStatus} (x : UReq) (xs : List UReq) {t : Transport} {fuel : Nat}
    (hwf : WellFormedPreamble p recs) (hrole : p.role = 1) (hk : p.flags.toNat % 2 = 1)
    (hpairs : ∀ q ∈ p.pairs, (NV.enc q).length ≤ alignedBufsize b)
    (hnoise : NoiseFits (alignedBufsize b) recs)
    (hs : StreamRecs p.id 5 content srecs) (hsn : NoiseFits (alignedBufsize b) srecs)
    (hok : ∀ y ∈ x :: xs, y.OKn b)
    (hin : t.input = serAll recs ++ serAll srecs) (hben : Ben t) (hem : t.endMode = .pend)
    (hev : hsCount t.events = 0) (hfuel : t.rd.length + t.wr.length + 1 ≤ fuel) :
    ∃ c' O₁ O₂ A,
      closedLoop fuel ((x :: xs).map UReq.wire)
        (connS b mc t ((wscript W st, true) :: (x :: xs).map UReq.handler)) 0 = (c', "STALL") ∧
      O₁ ++ O₂ = owedStream p.id 5 mc srecs ∧
      SegsAll mc (x :: xs) A ∧
      c'.env.tr.wlog = t.wlog ++ expectedLogW p recs mc W st O₁ O₂ ++ A ∧
      hsCount c'.env.tr.events = 1 + (x :: xs).length ∧
      startEvent p.request ∈ c'.env.tr.events ∧ readEvent content ∈ c'.env.tr.events ∧
      (∀ y ∈ x :: xs, startEvent y.p.request ∈ c'.env.tr.events) ∧ c'.scripts = [] ∧
      c'.env.tr.input = [] ∧
      c'.phase = .parseReq (track (alignedBufsize b) mc (serAll ((x :: xs).getLast (by simp)).left)) .reading := by
  have hid := (pid_of_wf hwf).2
  obtain ⟨body, pad, res, hpad, hbody, hsrecs⟩ := StreamRecs.split hs
  have hsb : NoiseFits (alignedBufsize b) body := fun r hr => hsn r (by rw [hsrecs]; simp [hr])
  have hOt : owedStream p.id 5 mc srecs = owedStream p.id 5 mc body := by
    rw [hsrecs, owedStream_append, owedStream_term p.id 5 mc _ rfl, List.append_nil]
  have ok : BR2OKWN (cfgW p recs content body pad res b mc W st t.wlog 0
      (((x :: xs).map (UReq.spec mc)).map RSpec.handler)) W 0 0 :=
    ⟨hwf, hrole, hpairs, hnoise, hbody, hsb, hpad, rfl, rfl, rfl, rfl⟩
  have htw : (trec 5 p.id pad res).WF := ⟨hid, by simp [trec], hpad⟩
  have hT : IdleNoise (trec 5 p.id pad res) :=
    ⟨htw, fun hx => absurd hx (by show (5 : UInt8).toNat ≠ RT.beginRequest; decide)⟩
  have hlo : LeftOK (alignedBufsize b) [trec 5 p.id pad res] :=
    ⟨fun e he => by rw [List.mem_singleton.1 he]; exact hT, fun e he hg => by
      rw [List.mem_singleton.1 he] at hg
      exact absurd hg.1 (by show (5 : UInt8).toNat ≠ RT.getValues; decide)⟩
  have hW : (cfgW p recs content body pad res b mc W st t.wlog 0
      (((x :: xs).map (UReq.spec mc)).map RSpec.handler)).W = t.input := by
    rw [hin, hsrecs, C02.serAll_append, C02.serAll_single]
    rfl
  have hstart : StartAt (alignedBufsize b) mc [] t.wlog
      ((wscript W st, true) :: ((x :: xs).map (UReq.spec mc)).map RSpec.handler) 0 [] (ans t)
      (cfgW p recs content body pad res b mc W st t.wlog 0
        (((x :: xs).map (UReq.spec mc)).map RSpec.handler)).W
      (connS b mc t ((wscript W st, true) :: ((x :: xs).map (UReq.spec mc)).map RSpec.handler)) :=
    Or.inr ⟨rfl, rfl, by show t.input = _; rw [hW], rfl, hben, rfl, rfl, rfl, hev,
      (fun _ hs => nomatch hs), rfl, hem, Nat.le_refl _⟩
  have hleft0 : LeftOK (alignedBufsize b) [] := ⟨(fun _ he => nomatch he), (fun _ hr => nomatch hr)⟩
  obtain ⟨c1, O1, O2, hrun1, hO, hrd, hw1⟩ := serve_writers_coreN ok hk (left := []) hleft0 (Z := x.wire) hT
    (goodNext_of_okn (hok x List.mem_cons_self) hlo) 0 fuel (by simp [idleOwed]; rfl) hstart (by unfold ans; omega)
  have hz : idleOwed mc [trec 5 p.id pad res] = [] := by
    simp [idleOwed, owed, trec, RT.valid, RT.getValues, RT.beginRequest]
  have hLw : ((cfgW p recs content body pad res b mc W st t.wlog 0
      (((x :: xs).map (UReq.spec mc)).map RSpec.handler)).front []).Lw W O1 O2 ++ idleOwed mc [trec 5 p.id pad res] =
      t.wlog ++ expectedLogW p recs mc W st O1 O2 := by
    rw [hz, List.append_nil]
    exact lw_eq O1 O2
  have hw1' : Waiting (alignedBufsize b) mc [trec 5 p.id pad res]
      (t.wlog ++ expectedLogW p recs mc W st O1 O2)
      (((x :: xs).map (UReq.spec mc)).map RSpec.handler) 1 [hsEvent p.request, rEvent content] (ans t) c1 := by
    rw [← hLw]
    have hev' : ∀ s ∈ [hsEvent p.request, rEvent content], s ∈ c1.env.tr.events := by
      intro s hs
      rcases List.mem_cons.1 hs with rfl | hs
      · exact hw1.ev _ List.mem_cons_self
      · rw [List.mem_singleton.1 hs]; exact hrd
    exact { hw1 with ev := hev' }
  obtain ⟨c', A, hrun, hseg, hw⟩ := chain_serves (alignedBufsize b) mc (serAll dummyRecs ++ [])
    (xs.map (UReq.spec mc)) (UReq.spec mc x) _ _ 1 [hsEvent p.request, rEvent content] (ans t) (feed c1 x.wire) 1000 fuel
    (hall_of_okn x xs hok) hlo (Or.inl ⟨c1, hw1', rfl⟩) (by unfold ans; omega)
  have hrun' : closedLoop fuel ((x :: xs).map UReq.wire)
      (connS b mc t ((wscript W st, true) :: (x :: xs).map UReq.handler)) 0 = (c', "STALL") := by
    have e : (x :: xs).map UReq.handler = ((x :: xs).map (UReq.spec mc)).map RSpec.handler := by
      rw [List.map_map]; rfl
    rw [e]
    show closedLoop fuel (x.wire :: xs.map UReq.wire) _ 0 = _
    rw [closedLoop, hrun1]
    simp only [if_true]
    rw [← hrun, List.map_map]; rfl
  have hlast := lastLeft_specs mc x xs
  refine ⟨c', O1, O2, A, hrun', hO.trans hOt.symm, segAll_specs mc (x :: xs) A hseg, hw.log, ?_, ?_, ?_, ?_, hw.sc, hw.inp, ?_⟩
  · have := hw.hs; simpa [Nat.add_comm] using this
  · exact hw.ev _ (mem_evsAfter _ _ _ (Or.inl List.mem_cons_self))
  · exact hw.ev _ (mem_evsAfter _ _ _ (Or.inl (by simp)))
  · intro y hy
    exact hw.ev _ (mem_evsAfter _ _ _ (Or.inr ⟨UReq.spec mc y, List.mem_map_of_mem hy, rfl⟩))
  · rw [← hlast]; exact hw.ph

/-- `writers_flush_chain_e2e_nofuel` with the follow-up requests `UReq.OKn` (no cost fields). -/
theorem writers_flush_chain_e2e_okn {p : Preamble} {recs : List Rec} {content : Bytes} {srecs : List Rec}
    {b mc : Nat} {W : FList} {st : ExitStatus} (x : UReq) (xs : List UReq) {t : Transport} {fuel : Nat}
    (hwf : WellFormedPreamble p recs) (hrole : p.role = 1) (hk : p.flags.toNat % 2 = 1)
    (hpairs : ∀ q ∈ p.pairs, (NV.enc q).length ≤ alignedBufsize b)
    (hnoise : NoiseFits (alignedBufsize b) recs)
    (hs : StreamRecs p.id 5 content srecs) (hsn : NoiseFits (alignedBufsize b) srecs)
    (hok : ∀ y ∈ x :: xs, y.OKn b)
    (hin : t.input = serAll recs ++ serAll srecs) (hben : Ben t) (hem : t.endMode = .pend)
    (hev : hsCount t.events = 0) (hfl : ∀ a ∈ t.fl, a ≠ FlAns.err)
    (hfuel : t.rd.length + t.wr.length + t.fl.length + 1 ≤ fuel) :
    ∃ c' O₁ O₂ A,
      closedLoop fuel ((x :: xs).map UReq.wire)
        (connS b mc t ((fscriptW W st, true) :: (x :: xs).map UReq.handler)) 0 = (c', "STALL") ∧
      O₁ ++ O₂ = owedStream p.id 5 mc srecs ∧
      SegsAll mc (x :: xs) A ∧
      c'.env.tr.wlog = t.wlog ++ expectedLogW p recs mc (E2E.writesOf W) st O₁ O₂ ++ A ∧
      hsCount c'.env.tr.events = 1 + (x :: xs).length ∧
      startEvent p.request ∈ c'.env.tr.events ∧ readEvent content ∈ c'.env.tr.events ∧
      (∀ y ∈ x :: xs, startEvent y.p.request ∈ c'.env.tr.events) ∧ c'.scripts = [] ∧
      c'.env.tr.input = [] ∧
      c'.phase = .parseReq (track (alignedBufsize b) mc (serAll ((x :: xs).getLast (by simp)).left)) .reading := by
  have hid := (pid_of_wf hwf).2
  obtain ⟨body, pad, res, hpad, hbody, hsrecs⟩ := StreamRecs.split hs
  have hsb : NoiseFits (alignedBufsize b) body := fun r hr => hsn r (by rw [hsrecs]; simp [hr])
  have hOt : owedStream p.id 5 mc srecs = owedStream p.id 5 mc body := by
    rw [hsrecs, owedStream_append, owedStream_term p.id 5 mc _ rfl, List.append_nil]
  have ok : WFOKN (cfgW2 p recs content body pad res b mc W st t.wlog 0
      (((x :: xs).map (UReq.spec mc)).map RSpec.handler)) W :=
    ⟨hwf, hrole, hpairs, hnoise, hbody, hsb, hpad, rfl, rfl, rfl, rfl⟩
  have hap : C12Inv.AllProp (connS b mc t ((fscriptW W st, true) :: ((x :: xs).map (UReq.spec mc)).map RSpec.handler)) := by
    refine ⟨fun s hs => ?_, trivial⟩
    rcases List.mem_cons.1 hs with rfl | hs
    · rfl
    · obtain ⟨z, hz, rfl⟩ := List.mem_map.1 hs
      obtain ⟨y, _, rfl⟩ := List.mem_map.1 hz
      cases y with
      | full q => cases q <;> rfl
      | unread => rfl
  have htw : (trec 5 p.id pad res).WF := ⟨hid, by simp [trec], hpad⟩
  have hT : IdleNoise (trec 5 p.id pad res) :=
    ⟨htw, fun hx => absurd hx (by show (5 : UInt8).toNat ≠ RT.beginRequest; decide)⟩
  have hlo : LeftOK (alignedBufsize b) [trec 5 p.id pad res] :=
    ⟨fun e he => by rw [List.mem_singleton.1 he]; exact hT, fun e he hg => by
      rw [List.mem_singleton.1 he] at hg
      exact absurd hg.1 (by show (5 : UInt8).toNat ≠ RT.getValues; decide)⟩
  have hW : (cfgW2 p recs content body pad res b mc W st t.wlog 0
      (((x :: xs).map (UReq.spec mc)).map RSpec.handler)).W = t.input := by
    rw [hin, hsrecs, C02.serAll_append, C02.serAll_single]
    rfl
  have hstart : StartAt (alignedBufsize b) mc [] t.wlog
      ((fscriptW W st, true) :: ((x :: xs).map (UReq.spec mc)).map RSpec.handler) 0 [] (ans t)
      (cfgW2 p recs content body pad res b mc W st t.wlog 0
        (((x :: xs).map (UReq.spec mc)).map RSpec.handler)).W
      (connS b mc t ((fscriptW W st, true) :: ((x :: xs).map (UReq.spec mc)).map RSpec.handler)) :=
    Or.inr ⟨rfl, rfl, by show t.input = _; rw [hW], rfl, hben, rfl, rfl, rfl, hev,
      (fun _ hs => nomatch hs), rfl, hem, Nat.le_refl _⟩
  have hleft0 : LeftOK (alignedBufsize b) [] := ⟨(fun _ he => nomatch he), (fun _ hr => nomatch hr)⟩
  obtain ⟨c1, O1, O2, hrun1, hO, hrd, hw1⟩ := serve_writersF_coreNF ok hk (left := []) hleft0 (Z := x.wire) hT
    (goodNext_of_okn (hok x List.mem_cons_self) hlo) 0 fuel (by simp [idleOwed]; rfl) hstart hap hfl
    (by show ans t + t.fl.length + 1 ≤ fuel; unfold ans; omega)
  have hz : idleOwed mc [trec 5 p.id pad res] = [] := by
    simp [idleOwed, owed, trec, RT.valid, RT.getValues, RT.beginRequest]
  have hLw : ((cfgW2 p recs content body pad res b mc W st t.wlog 0
      (((x :: xs).map (UReq.spec mc)).map RSpec.handler)).front []).Lw (E2E.writesOf W) O1 O2 ++ idleOwed mc [trec 5 p.id pad res] =
      t.wlog ++ expectedLogW p recs mc (E2E.writesOf W) st O1 O2 := by
    rw [hz, List.append_nil]
    exact lw_eq2 O1 O2
  have hw1' : Waiting (alignedBufsize b) mc [trec 5 p.id pad res]
      (t.wlog ++ expectedLogW p recs mc (E2E.writesOf W) st O1 O2)
      (((x :: xs).map (UReq.spec mc)).map RSpec.handler) 1 [hsEvent p.request, rEvent content] (ans t) c1 := by
    rw [← hLw]
    have hev' : ∀ s ∈ [hsEvent p.request, rEvent content], s ∈ c1.env.tr.events := by
      intro s hs
      rcases List.mem_cons.1 hs with rfl | hs
      · exact hw1.ev _ List.mem_cons_self
      · rw [List.mem_singleton.1 hs]; exact hrd
    exact { hw1 with ev := hev' }
  obtain ⟨c', A, hrun, hseg, hw⟩ := chain_serves (alignedBufsize b) mc (serAll dummyRecs ++ [])
    (xs.map (UReq.spec mc)) (UReq.spec mc x) _ _ 1 [hsEvent p.request, rEvent content] (ans t) (feed c1 x.wire) 1000 fuel
    (hall_of_okn x xs hok) hlo (Or.inl ⟨c1, hw1', rfl⟩) (by unfold ans; omega)
  have hrun' : closedLoop fuel ((x :: xs).map UReq.wire)
      (connS b mc t ((fscriptW W st, true) :: (x :: xs).map UReq.handler)) 0 = (c', "STALL") := by
    have e : (x :: xs).map UReq.handler = ((x :: xs).map (UReq.spec mc)).map RSpec.handler := by
      rw [List.map_map]; rfl
    rw [e]
    show closedLoop fuel (x.wire :: xs.map UReq.wire) _ 0 = _
    rw [closedLoop, hrun1]
    simp only [if_true]
    rw [← hrun, List.map_map]; rfl
  have hlast := lastLeft_specs mc x xs
  refine ⟨c', O1, O2, A, hrun', hO.trans hOt.symm, segAll_specs mc (x :: xs) A hseg, hw.log, ?_, ?_, ?_, ?_, hw.sc, hw.inp, ?_⟩
  · have := hw.hs; simpa [Nat.add_comm] using this
  · exact hw.ev _ (mem_evsAfter _ _ _ (Or.inl List.mem_cons_self))
  · exact hw.ev _ (mem_evsAfter _ _ _ (Or.inl (by simp)))
  · intro y hy
    exact hw.ev _ (mem_evsAfter _ _ _ (Or.inr ⟨UReq.spec mc y, List.mem_map_of_mem hy, rfl⟩))
  · rw [← hlast]; exact hw.ph

/-- `filter_writers_flush_chain_e2e_nofuel` with the follow-up requests `UReq.OKn` (no cost fields). -/
theorem filter_writers_flush_chain_e2e_okn {p : Preamble} {recs : List Rec} {content : Bytes} {srecs : List Rec}
    {content2 : Bytes} {drecs : List Rec}
    {b mc : Nat} {W : FList} {st : ExitStatus} (x : UReq) (xs : List UReq) {t : Transport} {fuel : Nat}
    (hwf : WellFormedPreamble p recs) (hrole : p.role = 3) (hk : p.flags.toNat % 2 = 1)
    (hpairs : ∀ q ∈ p.pairs, (NV.enc q).length ≤ alignedBufsize b)
    (hnoise : NoiseFits (alignedBufsize b) recs)
    (hs : StreamRecs p.id 5 content srecs) (hsn : NoiseFits (alignedBufsize b) srecs)
    (hd : StreamRecs p.id 8 content2 drecs) (hdn : NoiseFits (alignedBufsize b) drecs)
    (hok : ∀ y ∈ x :: xs, y.OKn b)
    (hin : t.input = serAll recs ++ (serAll srecs ++ serAll drecs)) (hben : Ben t) (hem : t.endMode = .pend)
    (hev : hsCount t.events = 0) (hfl : ∀ a ∈ t.fl, a ≠ FlAns.err)
    (hfuel : t.rd.length + t.wr.length + t.fl.length + 1 ≤ fuel) :
    ∃ c' O₁ O₂ A,
      closedLoop fuel ((x :: xs).map UReq.wire)
        (connS b mc t ((ffscriptW W st, true) :: (x :: xs).map UReq.handler)) 0 = (c', "STALL") ∧
      O₁ ++ O₂ = owedStream p.id 5 mc srecs ++ owedStream p.id 8 mc drecs ∧
      SegsAll mc (x :: xs) A ∧
      c'.env.tr.wlog = t.wlog ++ expectedLogW p recs mc (E2E.writesOf W) st O₁ O₂ ++ A ∧
      hsCount c'.env.tr.events = 1 + (x :: xs).length ∧
      startEvent p.request ∈ c'.env.tr.events ∧ readEvent content ∈ c'.env.tr.events ∧
      readEvent content2 ∈ c'.env.tr.events ∧
      (∀ y ∈ x :: xs, startEvent y.p.request ∈ c'.env.tr.events) ∧ c'.scripts = [] ∧
      c'.env.tr.input = [] ∧
      c'.phase = .parseReq (track (alignedBufsize b) mc (serAll ((x :: xs).getLast (by simp)).left)) .reading := by
  have hid := (pid_of_wf hwf).2
  obtain ⟨body, pad, res, hpad, hbody, hsrecs⟩ := StreamRecs.split hs
  obtain ⟨body2, pad2, res2, hpad2, hbody2, hdrecs⟩ := StreamRecs.split hd
  have hsb : NoiseFits (alignedBufsize b) body := fun r hr => hsn r (by rw [hsrecs]; simp [hr])
  have hdb : NoiseFits (alignedBufsize b) body2 := fun r hr => hdn r (by rw [hdrecs]; simp [hr])
  have hOt : owedStream p.id 5 mc srecs ++ owedStream p.id 8 mc drecs =
      owedStream p.id 5 mc body ++ owedStream p.id 8 mc body2 := by
    rw [hsrecs, hdrecs, owedStream_append, owedStream_append, owedStream_term p.id 5 mc _ rfl,
      owedStream_term p.id 8 mc _ rfl, List.append_nil, List.append_nil]
  have ok : WFOK3N (cfgW3 p recs content body pad res content2 body2 pad2 res2 b mc W st t.wlog 0
      (((x :: xs).map (UReq.spec mc)).map RSpec.handler)) W :=
    ⟨hwf, hrole, hpairs, hnoise, hbody, hbody2, hsb, hdb, hpad, hpad2, rfl, rfl, rfl, rfl, rfl⟩
  have hap : C12Inv.AllProp (connS b mc t ((ffscriptW W st, true) :: ((x :: xs).map (UReq.spec mc)).map RSpec.handler)) := by
    refine ⟨fun s hs => ?_, trivial⟩
    rcases List.mem_cons.1 hs with rfl | hs
    · rfl
    · obtain ⟨z, hz, rfl⟩ := List.mem_map.1 hs
      obtain ⟨y, _, rfl⟩ := List.mem_map.1 hz
      cases y with
      | full q => cases q <;> rfl
      | unread => rfl
  have htw : (trec 8 p.id pad2 res2).WF := ⟨hid, by simp [trec], hpad2⟩
  have hT : IdleNoise (trec 8 p.id pad2 res2) :=
    ⟨htw, fun hx => absurd hx (by show (8 : UInt8).toNat ≠ RT.beginRequest; decide)⟩
  have hlo : LeftOK (alignedBufsize b) [trec 8 p.id pad2 res2] :=
    ⟨fun e he => by rw [List.mem_singleton.1 he]; exact hT, fun e he hg => by
      rw [List.mem_singleton.1 he] at hg
      exact absurd hg.1 (by show (8 : UInt8).toNat ≠ RT.getValues; decide)⟩
  have hW : (cfgW3 p recs content body pad res content2 body2 pad2 res2 b mc W st t.wlog 0
      (((x :: xs).map (UReq.spec mc)).map RSpec.handler)).W = t.input := by
    rw [hin, hsrecs, hdrecs, C02.serAll_append, C02.serAll_single, C02.serAll_append, C02.serAll_single,
      List.append_assoc]
    rfl
  have hstart : StartAt (alignedBufsize b) mc [] t.wlog
      ((ffscriptW W st, true) :: ((x :: xs).map (UReq.spec mc)).map RSpec.handler) 0 [] (ans t)
      (cfgW3 p recs content body pad res content2 body2 pad2 res2 b mc W st t.wlog 0
        (((x :: xs).map (UReq.spec mc)).map RSpec.handler)).W
      (connS b mc t ((ffscriptW W st, true) :: ((x :: xs).map (UReq.spec mc)).map RSpec.handler)) :=
    Or.inr ⟨rfl, rfl, by show t.input = _; rw [hW], rfl, hben, rfl, rfl, rfl, hev,
      (fun _ hs => nomatch hs), rfl, hem, Nat.le_refl _⟩
  have hleft0 : LeftOK (alignedBufsize b) [] := ⟨(fun _ he => nomatch he), (fun _ hr => nomatch hr)⟩
  obtain ⟨c1, O1, O2, hrun1, hO, hrd, hrd2, hw1⟩ := serve_filterWF_coreNF ok hk (left := []) hleft0 (Z := x.wire) hT
    (goodNext_of_okn (hok x List.mem_cons_self) hlo) 0 fuel (by simp [idleOwed]; rfl) hstart hap hfl
    (by show ans t + t.fl.length + 1 ≤ fuel; unfold ans; omega)
  have hz : idleOwed mc [trec 8 p.id pad2 res2] = [] := by
    simp [idleOwed, owed, trec, RT.valid, RT.getValues, RT.beginRequest]
  have hLw : ((cfgW3 p recs content body pad res content2 body2 pad2 res2 b mc W st t.wlog 0
      (((x :: xs).map (UReq.spec mc)).map RSpec.handler)).front []).Lw (E2E.writesOf W) O1 O2 ++ idleOwed mc [trec 8 p.id pad2 res2] =
      t.wlog ++ expectedLogW p recs mc (E2E.writesOf W) st O1 O2 := by
    rw [hz, List.append_nil]
    exact lw_eq3 O1 O2
  have hw1' : Waiting (alignedBufsize b) mc [trec 8 p.id pad2 res2]
      (t.wlog ++ expectedLogW p recs mc (E2E.writesOf W) st O1 O2)
      (((x :: xs).map (UReq.spec mc)).map RSpec.handler) 1 [hsEvent p.request, rEvent content, rEvent content2] (ans t) c1 := by
    rw [← hLw]
    have hev' : ∀ s ∈ [hsEvent p.request, rEvent content, rEvent content2], s ∈ c1.env.tr.events := by
      intro s hs
      rcases List.mem_cons.1 hs with rfl | hs
      · exact hw1.ev _ List.mem_cons_self
      rcases List.mem_cons.1 hs with rfl | hs
      · exact hrd
      · rw [List.mem_singleton.1 hs]; exact hrd2
    exact { hw1 with ev := hev' }
  obtain ⟨c', A, hrun, hseg, hw⟩ := chain_serves (alignedBufsize b) mc (serAll dummyRecs ++ [])
    (xs.map (UReq.spec mc)) (UReq.spec mc x) _ _ 1 [hsEvent p.request, rEvent content, rEvent content2] (ans t) (feed c1 x.wire) 1000 fuel
    (hall_of_okn x xs hok) hlo (Or.inl ⟨c1, hw1', rfl⟩) (by unfold ans; omega)
  have hrun' : closedLoop fuel ((x :: xs).map UReq.wire)
      (connS b mc t ((ffscriptW W st, true) :: (x :: xs).map UReq.handler)) 0 = (c', "STALL") := by
    have e : (x :: xs).map UReq.handler = ((x :: xs).map (UReq.spec mc)).map RSpec.handler := by
      rw [List.map_map]; rfl
    rw [e]
    show closedLoop fuel (x.wire :: xs.map UReq.wire) _ 0 = _
    rw [closedLoop, hrun1]
    simp only [if_true]
    rw [← hrun, List.map_map]; rfl
  have hlast := lastLeft_specs mc x xs
  refine ⟨c', O1, O2, A, hrun', hO.trans hOt.symm, segAll_specs mc (x :: xs) A hseg, hw.log, ?_, ?_, ?_, ?_, ?_, hw.sc, hw.inp, ?_⟩
  · have := hw.hs; simpa [Nat.add_comm] using this
  · exact hw.ev _ (mem_evsAfter _ _ _ (Or.inl List.mem_cons_self))
  · exact hw.ev _ (mem_evsAfter _ _ _ (Or.inl (by simp)))
  · exact hw.ev _ (mem_evsAfter _ _ _ (Or.inl (by simp)))
  · intro y hy
    exact hw.ev _ (mem_evsAfter _ _ _ (Or.inr ⟨UReq.spec mc y, List.mem_map_of_mem hy, rfl⟩))
  · rw [← hlast]; exact hw.ph

/-- non-vacuity: the follow-up request `qHuge` (70 000 000 bytes of output) is `UReq.OKn` but not `UReq.OKu` -/
example (b : Nat) : (UReq.full C07E.ExampleNoFuel.qHuge).OKn b ∧ ¬ (UReq.full C07E.ExampleNoFuel.qHuge).OKu b :=
  ⟨⟨C07E.ExampleNoFuel.qHuge_okn b, by decide⟩, fun h => C07E.ExampleNoFuel.qHuge_not_oku b h.1⟩

end Fcgi.C07W
