import Fcgi.Proofs.RunLoop
import Fcgi.Props.C17
/-!
# C07 — per request: one handler call, one correct EndRequest, correct reuse

Model-level invariants of the connection task (`Model/RunLoop.lean`, `Model/Async.lean`);
`Run.stepConn` is one phase transition of `pollConn` (`Run.pollConn_succ`).

* `one_handler_per_done`: the `HS(` event is emitted exactly by the transition out of
  `parse_request` taken when the request parser reached `done`; the handler's `Request` wraps exactly
  that parser's request; one handler script is consumed per such transition.
* `close_*`: what `Request::close` writes — see §2.
* `reuse_iff`, `handler_error_*`: when the connection is reused / finished.
-/
namespace Fcgi.C07
open Fcgi Fcgi.Req Fcgi.Str Fcgi.Async Fcgi.Run

/-! ## 1. One handler call per completed request -/

/-- the script the next handler call will run, and the scripts left after it -/
def nextScript (scripts : List (List HOp × Bool)) : List HOp × Bool × List (List HOp × Bool) :=
  match scripts with | [] => ([], true, []) | (o, p) :: s => (o, p, s)

/-- `into_stream_parser` succeeds exactly on a `done` request parser, and wraps its request. -/
theorem intoStreamParser_ok_iff (rp : Req.Parser) (sp : Str.Parser) :
    rp.intoStreamParser = .ok sp ↔
      ∃ rq, rp.state = .done rq ∧ sp = Str.Parser.fromParser rp.cap rq rp.input rp.maxConns := by
  unfold Req.Parser.intoStreamParser
  constructor
  · intro h
    split at h
    · rename_i rq hst; cases h; exact ⟨rq, hst, rfl⟩
    · cases h
    · cases h
  · rintro ⟨rq, hst, rfl⟩
    rw [hst]

/-- The transition that starts a handler: `parse_request` has written its pending output and the
request parser is `done` with request `rq`.  It emits `HS(rq)`, wraps `rq` in the new `Request`, and
consumes one script. -/
theorem done_starts_handler (c : Conn) (rp : Req.Parser) (rest rest' : Bytes) (t : Transport) (rq : Request)
    (hp : c.phase = .parseReq rp (.writing rest true)) (hs : c.stop = false)
    (hw : writeAllLoop (rest.length + 1) rest c.env.tr = (rest', t, .ready))
    (hd : rp.state = .done rq) :
    ∃ r : AReq, r.sp.request = rq ∧
      r = AReq.new (Str.Parser.fromParser rp.cap rq rp.input rp.maxConns) ∧
      stepConn c = .next
        { phase := .handler r { ops := (nextScript c.scripts).1, propagate := (nextScript c.scripts).2.1 },
          scripts := (nextScript c.scripts).2.2,
          env := ({ c.env with tr := t }).ev (hsEvent rq), stop := false } := by
  obtain ⟨phase, env, scripts, stop⟩ := c
  simp only at hp hs hw; subst hp; subst hs
  refine ⟨_, rfl, rfl, ?_⟩
  have hsp : rp.intoStreamParser = .ok (Str.Parser.fromParser rp.cap rq rp.input rp.maxConns) :=
    (intoStreamParser_ok_iff _ _).2 ⟨rq, hd, rfl⟩
  simp only [stepConn, hw, hsp, Bool.false_eq_true, if_false, Bool.not_true]
  cases scripts with
  | nil => rfl
  | cons p s => obtain ⟨o, p⟩ := p; rfl

/-- Conversely, every transition into a `handler` phase is that one. -/
theorem handler_only_from_done (c c' : Conn) (r : AReq) (h : HState)
    (hs : stepConn c = .next c') (hph : c'.phase = .handler r h) :
    ∃ rp rest rest' t rq, c.phase = .parseReq rp (.writing rest true) ∧ c.stop = false ∧
      writeAllLoop (rest.length + 1) rest c.env.tr = (rest', t, .ready) ∧ rp.state = .done rq ∧
      r.sp.request = rq ∧ r = AReq.new (Str.Parser.fromParser rp.cap rq rp.input rp.maxConns) ∧
      h = { ops := (nextScript c.scripts).1, propagate := (nextScript c.scripts).2.1 } ∧
      c'.scripts = (nextScript c.scripts).2.2 ∧
      c'.env = ({ c.env with tr := t }).ev (hsEvent rq) := by
  obtain ⟨phase, env, scripts, stop⟩ := c
  cases phase with
  | finished => simp [stepConn] at hs
  | handler r0 h0 =>
    simp only [stepConn] at hs
    repeat' (split at hs)
    all_goals first | (cases hs; done) | (cases hs; cases hph; done)
  | closing r0 cs status alive =>
    simp only [stepConn] at hs
    repeat' (split at hs)
    all_goals first | (cases hs; done) | (cases hs; cases hph; done)
  | parseReq rp sub =>
    cases stop with
    | true => simp [stepConn] at hs
    | false =>
      cases sub with
      | start =>
        simp only [stepConn, Bool.false_eq_true, if_false] at hs
        repeat' (split at hs)
        all_goals first | (cases hs; done) | (cases hs; cases hph; done)
      | reading =>
        simp only [stepConn, Bool.false_eq_true, if_false] at hs
        repeat' (split at hs)
        all_goals first | (cases hs; done) | (cases hs; cases hph; done)
      | writing rest done =>
        simp only [stepConn, Bool.false_eq_true, if_false] at hs
        repeat' (split at hs)
        all_goals first
          | (cases hs; done)
          | (cases hs; cases hph; done)
          | (have hdone : done = true := by simpa using ‹¬ (!done) = true›
             subst hdone
             obtain ⟨rq, hst, hsp⟩ := (intoStreamParser_ok_iff _ _).1 ‹rp.intoStreamParser = .ok _›
             subst hsp
             cases hs; cases hph
             exact ⟨rp, rest, _, _, rq, rfl, rfl, ‹_›, hst, rfl, rfl, rfl, rfl, rfl⟩)

/-- `HS(` is emitted exactly at that transition: a phase transition appends exactly one `HS(` event if
it leads from a `parseReq` phase into a `handler` phase, and none otherwise. -/
theorem one_handler_per_done (c : Conn) :
    ∃ new, (stepConn c).conn.env.tr.events = c.env.tr.events ++ new ∧
      hsCount new = if c.phase.isParse && (stepConn c).conn.phase.isHandler then 1 else 0 := by
  obtain ⟨new, e, ⟨q, hn⟩ | ⟨h1, hp, hh⟩⟩ := stepConn_events c
  · refine ⟨new, e, ?_⟩
    rw [hsCount_eq_zero q]
    split
    · rename_i hc; exact absurd (by simpa using hc) hn
    · rfl
  · exact ⟨new, e, by simp [h1, hp, hh]⟩

/-- Over a whole poll: one handler script is consumed per `HS(` event. -/
theorem one_script_per_handler_start (fuel : Nat) (c : Conn) :
    ∃ new, (pollConn fuel c).1.env.tr.events = c.env.tr.events ++ new ∧
      (pollConn fuel c).1.scripts = c.scripts.drop (hsCount new) := by
  obtain ⟨n, e, sc, _⟩ := (pollConn_cle fuel c).ev
  exact ⟨n, e, sc⟩

/-! ## 2. What `Request::close` writes

`closePoll r cs status alive m t` is one poll of `req.close(status)`, `cs` its suspension point.
`Run.closePoll_cases` splits a poll into: stopped by `writeable()` (phase 1), stopped by
`record_boundary()` (phase 2, which writes nothing), or — from the record-boundary request state
`r2` — the epilogue phases.  `epilogueOf r2 status` is the epilogue (`C17.epilogue_spec`),
`cs.owed` the bytes a suspended `close` still has to write. -/

/-- (i) The epilogue is `[Stdout∅][Stderr∅][EndRequest]` for a writeable request and the `EndRequest`
record alone otherwise, for the request's own id and the mapped status. -/
theorem epilogue_shape (r : AReq) (status : ExitStatus) :
    epilogueOf r status =
      (if r.writeable then
          RecordHeader.toBytes ⟨RT.stdout, r.sp.request.id, 0, 0⟩ ++ RecordHeader.toBytes ⟨RT.stderr, r.sp.request.id, 0, 0⟩
        else []) ++ status.toEndRequest.toRecord r.sp.request.id ∧
    (epilogueOf r status).length = if r.writeable then 32 else 16 := by
  unfold epilogueOf
  cases r.writeable
  · exact ⟨by simp [(C17.epilogue_spec _ _ _).1], by simp [(C17.epilogue_spec _ _ _).2.1]⟩
  · exact ⟨by simp [(C17.epilogue_spec _ _ _).1, outputStreams],
      by simp [(C17.epilogue_spec _ _ _).2.1, outputStreams]⟩

/-- (ii)+(iii) One poll of a `close` that has not yet built its epilogue (`cs` = `start`,
`inWriteable` or `inBoundary`).  Either it stops before the epilogue (and is then not a success), or
it reaches the record boundary with request state `r2` — the same request — after `writeable()`
wrote `X`, and from there writes, in this order and nothing else, a prefix `done` of
`r2.sp.output ++ epilogue`; exactly the rest stays owed; it completes only with nothing owed. -/
theorem close_epilogue_spec {r : AReq} {cs : CloseSt} {status : ExitStatus} {alive : Nat} {m : MutexSt}
    {t : Transport} {r' : AReq} {cs' : CloseSt} {m' : MutexSt} {t' : Transport} {res : CRes}
    (h : closePoll r cs status alive m t = (r', cs', m', t', res)) (hl : cs.late = false) :
    (cs'.late = false ∧ ∀ rp, res ≠ .reuse rp) ∨
    ∃ X r2, alive = 0 ∧ r2.sp.request = r.sp.request ∧ r2.sp.isRecordBoundary = true ∧
      r'.sp.request = r.sp.request ∧ r'.writeable = r2.writeable ∧ cs'.late = true ∧
      (∃ done, r2.sp.output ++ epilogueOf r2 status = done ++ cs'.owed ∧ t'.wlog = t.wlog ++ X ++ done) ∧
      ((cs' = .writeEnd [] ∧ res = closeDecision r') ∨ (res = .pending ∧ cs'.owed ≠ []) ∨ WriteFail res) ∧
      CloseInv r' cs' := by
  rcases closePoll_cases h with ⟨_, h1⟩ | ⟨_, r1, m1, t1, st1, _, h2⟩ |
      ⟨_, r1, m1, t1, st1, r2, m2, t2, h1, h2, hb, h3⟩ | ⟨hl', _⟩
  · obtain ⟨rfl, _, hres⟩ := closeP1_error h1
    refine Or.inl ⟨rfl, fun rp hrp => ?_⟩
    rcases hres with h | ⟨e, h, _⟩ | ⟨s, h, _⟩ <;> rw [h] at hrp <;> cases hrp
  · obtain ⟨_, _, rfl, _, hres⟩ := closeP2_error h2
    refine Or.inl ⟨rfl, fun rp hrp => ?_⟩
    rcases hres with h | ⟨e, h⟩ | ⟨s, h, _⟩ <;> rw [h] at hrp <;> cases hrp
  · by_cases ha : 0 < alive
    · rw [closeFrom3_alive _ _ _ _ _ ha] at h3; cases h3
      exact Or.inl ⟨rfl, fun rp hrp => by cases hrp⟩
    · have : alive = 0 := by omega
      subst this
      obtain ⟨X, hX⟩ := (closeP1_le.1 h1).wl
      have hreq1 := (closeP1_ok h1).1
      obtain ⟨hreq2, _, _, _, hw2, _⟩ := closeP2_ok h2
      obtain ⟨g1, g2, g3, _, ⟨done, g5, g6⟩, g7, g8⟩ := closeFrom3_spec h3 hb
      refine Or.inr ⟨X, r2, rfl, hreq2.trans hreq1, hb, g1.trans (hreq2.trans hreq1), g2, g3,
        ⟨done, g5, ?_⟩, g7, g8⟩
      rw [g6, hw2, hX]
  · rw [hl] at hl'; cases hl'

/-- Later polls of a `close` suspended in one of its `write_all`s: it writes exactly a prefix of what
is owed, the rest stays owed, and it completes only with nothing owed. -/
theorem close_resume_spec {r : AReq} {cs : CloseSt} {status : ExitStatus} {alive : Nat} {m : MutexSt}
    {t : Transport} {r' : AReq} {cs' : CloseSt} {m' : MutexSt} {t' : Transport} {res : CRes}
    (h : closePoll r cs status alive m t = (r', cs', m', t', res)) (hl : cs.late = true) :
    r'.sp.request = r.sp.request ∧ cs'.late = true ∧
    (∃ done, cs.owed = done ++ cs'.owed ∧ t'.wlog = t.wlog ++ done) ∧
    ((cs' = .writeEnd [] ∧ res = closeDecision r') ∨ (res = .pending ∧ cs'.owed ≠ []) ∨ WriteFail res) ∧
    (CloseInv r cs → CloseInv r' cs') := by
  rw [closePoll_late _ _ _ _ _ _ hl] at h
  obtain ⟨_, h2, _, h4, _, h6, h7, h8⟩ := closeP4_spec h hl
  exact ⟨h2, h4, h6, h7, h8⟩

/-- (iv) When `close` completes — nothing owed, the parser at a record boundary with its output
written — it returns the request parser for reuse iff the `KeepConn` bit is set, and
`ConnectionReset` otherwise. -/
theorem close_decision {r' : AReq} {cs' : CloseSt} (hinv : CloseInv r' cs') (hcs : cs' = .writeEnd []) :
    closeDecision r' =
      if r'.sp.request.flags.toNat % 2 = 1 then
        .reuse (Req.Parser.fromParser r'.sp.cap r'.sp.raw r'.sp.maxConns)
      else .err .connectionReset := by
  subst hcs
  exact closeDecision_of_inv hinv.1 hinv.2

/-- The one-poll summary: a `close` that returns `Ok` in the poll that started it (or resumed it
before the epilogue) wrote `X ++ r2.sp.output ++ epilogue` and nothing else: first what `writeable()`
flushed, then everything still pending in the parser's output buffer, then — last — the epilogue of
the request with the handler's status.  No writer was alive and the request had `KeepConn`. -/
theorem close_writes_epilogue {r : AReq} {cs : CloseSt} {status : ExitStatus} {alive : Nat} {m : MutexSt}
    {t : Transport} {r' : AReq} {cs' : CloseSt} {m' : MutexSt} {t' : Transport} {rp : Req.Parser}
    (h : closePoll r cs status alive m t = (r', cs', m', t', .reuse rp)) (hl : cs.late = false) :
    ∃ X r2, r2.sp.request = r.sp.request ∧
      t'.wlog = t.wlog ++ X ++ r2.sp.output ++ epilogueOf r2 status ∧
      alive = 0 ∧ r.sp.request.flags.toNat % 2 = 1 ∧
      rp = Req.Parser.fromParser r'.sp.cap r'.sp.raw r'.sp.maxConns := by
  rcases close_epilogue_spec h hl with ⟨_, hno⟩ | ⟨X, r2, ha, hreq, _, hreq', _, _, ⟨done, hd, hw⟩, hres, hinv⟩
  · exact absurd rfl (hno rp)
  · rcases hres with ⟨hcs, hdec⟩ | ⟨hp, _⟩ | hf
    · subst hcs
      rw [close_decision hinv rfl] at hdec
      simp only [CloseSt.owed, List.append_nil] at hd
      refine ⟨X, r2, hreq, by rw [hw, ← hd]; simp only [List.append_assoc], ha, ?_, ?_⟩
      · split at hdec
        · rw [← hreq']; assumption
        · cases hdec
      · split at hdec
        · cases hdec; rfl
        · cases hdec
    · cases hp
    · rcases hf with ⟨e, _, hf⟩ | hf <;> cases hf

/-- (v) With a `StreamWriter` still alive, `close` fails with the `writers` error as soon as it is past
the record boundary; it never builds or writes an epilogue, and never returns `Ok`.  The transport
it returns is the one `record_boundary()` left (`t2`), whose write log is the one after `writeable()`. -/
theorem close_writers_alive {r : AReq} {cs : CloseSt} {status : ExitStatus} {alive : Nat} {m : MutexSt}
    {t : Transport} {out : CloseOut}
    (h : closePoll r cs status alive m t = out) (hl : cs.late = false) (ha : 0 < alive) :
    closeP1 r cs m t = .error out ∨
    (∃ r1 m1 t1 st1, closeP1 r cs m t = .ok (r1, m1, t1, st1) ∧ closeP2 r1 m1 t1 st1 = .error out) ∨
    ∃ r1 m1 t1 st1 r2 m2 t2, closeP1 r cs m t = .ok (r1, m1, t1, st1) ∧
      closeP2 r1 m1 t1 st1 = .ok (r2, m2, t2, .start) ∧ t2.wlog = t1.wlog ∧
      out = ({ r2 with lock := .none }, .start, lockDrop r2.lock m2, t2, .err .writersAlive) := by
  rcases closePoll_cases h with ⟨_, h1⟩ | ⟨_, r1, m1, t1, st1, h1, h2⟩ |
      ⟨_, r1, m1, t1, st1, r2, m2, t2, h1, h2, hb, h3⟩ | ⟨hl', _⟩
  · exact Or.inl h1
  · exact Or.inr (Or.inl ⟨r1, m1, t1, st1, h1, h2⟩)
  · rw [closeFrom3_alive _ _ _ _ _ ha] at h3
    exact Or.inr (Or.inr ⟨r1, m1, t1, st1, r2, m2, t2, h1, h2, (closeP2_ok h2).2.2.2.2.1, h3.symm⟩)
  · rw [hl] at hl'; cases hl'

/-! ## 3. Reuse, and handler errors -/

/-- The transition out of a `closing` phase, spelled out. -/
theorem closing_step (c : Conn) (r : AReq) (cs : CloseSt) (status : ExitStatus) (alive : Nat)
    (hp : c.phase = .closing r cs status alive) :
    stepConn c =
      match closePoll r cs status alive c.env.mutex c.env.tr with
      | (r, cs, m, t, .pending) =>
        .halt { c with phase := .closing r cs status alive, env := { c.env with mutex := m, tr := t } } .pending
      | (_, _, m, t, .panic s) => .halt { c with env := { c.env with mutex := m, tr := t } } (.panic s)
      | (_, _, m, t, .err _) =>
        .halt { c with phase := .finished, env := { c.env with mutex := m, tr := t } } .finished
      | (_, _, m, t, .reuse rp) =>
        .next { c with phase := .parseReq rp .start, env := { c.env with mutex := m, tr := t } } := by
  obtain ⟨phase, env, scripts, stop⟩ := c
  simp only at hp; subst hp
  rfl

/-- The connection goes on to parse the next request iff `close` returned the request parser; in every
other case the poll ends here. -/
theorem reuse_iff (c : Conn) (r : AReq) (cs : CloseSt) (status : ExitStatus) (alive : Nat)
    (hp : c.phase = .closing r cs status alive) :
    (∃ c', stepConn c = .next c') ↔
      ∃ r' cs' m t rp, closePoll r cs status alive c.env.mutex c.env.tr = (r', cs', m, t, .reuse rp) := by
  rw [closing_step c r cs status alive hp]
  cases hc : closePoll r cs status alive c.env.mutex c.env.tr with
  | mk r' x =>
    obtain ⟨cs', m, t, res⟩ := x
    cases res with
    | reuse rp => exact ⟨fun _ => ⟨_, _, _, _, _, rfl⟩, fun _ => ⟨_, rfl⟩⟩
    | pending => exact ⟨fun ⟨_, h⟩ => (by cases h), fun ⟨_, _, _, _, _, h⟩ => (by cases h)⟩
    | err e => exact ⟨fun ⟨_, h⟩ => (by cases h), fun ⟨_, _, _, _, _, h⟩ => (by cases h)⟩
    | panic s => exact ⟨fun ⟨_, h⟩ => (by cases h), fun ⟨_, _, _, _, _, h⟩ => (by cases h)⟩

/-- … and then the next `parse_request` starts with exactly the parser `close` returned, on the
transport state `close` left. -/
theorem reuse_next (c : Conn) (r : AReq) (cs : CloseSt) (status : ExitStatus) (alive : Nat)
    (r' : AReq) (cs' : CloseSt) (m : MutexSt) (t : Transport) (rp : Req.Parser)
    (hp : c.phase = .closing r cs status alive)
    (hc : closePoll r cs status alive c.env.mutex c.env.tr = (r', cs', m, t, .reuse rp)) :
    stepConn c = .next { c with phase := .parseReq rp .start, env := { c.env with mutex := m, tr := t } } := by
  rw [closing_step c r cs status alive hp, hc]

/-- The transition out of a `handler` phase, spelled out: `Ok(status)` ⇒ `close(status)`;
`Err(ConnectionAborted)` ⇒ `close(ABORT)`; any other `Err` ⇒ the connection finishes without
`close` — no `EndRequest` is written. -/
theorem handler_step (c : Conn) (r : AReq) (h : HState) (hp : c.phase = .handler r h) :
    stepConn c =
      match handlerPoll ((handlerFuel c.env r + scriptOf c)) r h c.env with
      | (r, h, e, .pending) => .halt { c with phase := .handler r h, env := e } .pending
      | (_, _, e, .panic s) => .halt { c with env := e } (.panic s)
      | (r, h, e, .done (.ok st)) =>
        .next { c with phase := .closing r .start st (h.writers.filter Option.isSome).length,
                       env := e.ev s!"HE(ok:{showStatus st})" }
      | (r, h, e, .done (.error x)) =>
        if x = .abortRequest then
          .next { c with phase := .closing r .start ExitStatus.abort (h.writers.filter Option.isSome).length,
                         env := e.ev "HE(err:abort-request)" }
        else .halt { c with phase := .finished, env := e.ev s!"HE(err:{showIo x})" } .finished := by
  obtain ⟨phase, env, scripts, stop⟩ := c
  simp only at hp; subst hp
  simp only [stepConn, handlerFuel, scriptOf]
  generalize handlerPoll _ r h env = x
  obtain ⟨r', h', e, res⟩ := x
  cases res with
  | done res =>
    cases res with
    | ok st => rfl
    | error x => by_cases hx : x = .abortRequest <;> simp [hx]
  | _ => rfl

/-- A handler `Err` other than `ConnectionAborted` finishes the connection at once: the phase never
becomes `closing`, and this transition writes nothing (only the `HE(` event is appended). -/
theorem handler_error_finishes (c : Conn) (r : AReq) (h : HState) (r' : AReq) (h' : HState) (e : Env)
    (x : IoErr) (hp : c.phase = .handler r h)
    (hh : handlerPoll ((handlerFuel c.env r + scriptOf c)) r h c.env = (r', h', e, .done (.error x)))
    (hx : x ≠ .abortRequest) :
    stepConn c = .halt { c with phase := .finished, env := e.ev s!"HE(err:{showIo x})" } .finished ∧
    (e.ev s!"HE(err:{showIo x})").tr.wlog = e.tr.wlog := by
  rw [handler_step c r h hp, hh]
  simp [hx, Env.ev, Transport.ev]

/-! ## Concrete instances (non-vacuity) -/

def exReq (flags : UInt8) : Request := { id := 1, role := 1, flags := flags, env := [] }
def exTr : Transport := { input := [], endMode := .pend, rd := [], wr := [], fl := [] }
def exAReq (flags : UInt8) : AReq := AReq.new (Str.Parser.fromParser 64 (exReq flags) [] 1)

/-- `close(Complete(0))` of a KeepConn responder request in one poll: exactly the 32-byte epilogue
`[Stdout∅][Stderr∅][EndRequest]` is written and the request parser is handed back. -/
example : ∃ r' m' t' rp, closePoll (exAReq 1) .start (.complete 0) 0 none exTr = (r', .writeEnd [], m', t', .reuse rp) ∧
    t'.wlog = [1, 6, 0, 1, 0, 0, 0, 0, 1, 7, 0, 1, 0, 0, 0, 0,
               1, 3, 0, 1, 0, 8, 0, 0, 0, 0, 0, 0, 0, 0, 0, 0] := ⟨_, _, _, _, rfl, rfl⟩

/-- without KeepConn: the same bytes, then `ConnectionReset` -/
example : ∃ r' m' t', closePoll (exAReq 0) .start (.complete 0) 0 none exTr
      = (r', .writeEnd [], m', t', .err .connectionReset) ∧ t'.wlog.length = 32 := ⟨_, _, _, rfl, rfl⟩

/-- a writer still alive: error, nothing written -/
example : ∃ r' m' t', closePoll (exAReq 1) .start (.complete 0) 1 none exTr
      = (r', .start, m', t', .err .writersAlive) ∧ t'.wlog = [] := ⟨_, _, _, rfl, rfl⟩

/-- the transport takes 5 bytes and then is busy: 27 bytes stay owed; the next poll writes them -/
example : ∃ r' m' t' rest, closePoll (exAReq 1) .start (.complete 0) 0 none { exTr with wr := [.n 5, .pending] }
      = (r', .writeEnd rest, m', t', .pending) ∧ t'.wlog.length = 5 ∧ rest.length = 27 ∧
      ∃ r'' m'' t'' rp, closePoll r' (.writeEnd rest) (.complete 0) 0 m' t' = (r'', .writeEnd [], m'', t'', .reuse rp) ∧
        t''.wlog = t'.wlog ++ rest := ⟨_, _, _, _, rfl, rfl, rfl, _, _, _, _, rfl, rfl⟩

/-- the request parser is `done`: the next transition starts the handler with that request -/
def exDone : Conn :=
  { phase := .parseReq { cap := 64, input := [], state := .done (exReq 1), maxConns := 1 } (.writing [] true),
    env := { tr := exTr }, scripts := [([.ret (.complete 7)], true)] }

example : ∃ c', stepConn exDone = .next c' ∧ c'.phase.isHandler = true ∧ c'.scripts = [] ∧
    hsCount c'.env.tr.events = 1 := ⟨_, rfl, rfl, rfl, by decide⟩

/-- and the whole poll (request without KeepConn): the handler returns `Complete(7)`, `close` writes
the epilogue carrying status 7, then the connection finishes -/
def exDone0 : Conn :=
  { phase := .parseReq { cap := 64, input := [], state := .done (exReq 0), maxConns := 1 } (.writing [] true),
    env := { tr := exTr }, scripts := [([.ret (.complete 7)], true)] }

example : ∃ c', pollConn 10 exDone0 = (c', .finished) ∧
    hsCount c'.env.tr.events = 1 ∧ c'.env.tr.wlog.length = 32 ∧
    c'.env.tr.wlog.drop 24 = [0, 0, 0, 7, 0, 0, 0, 0] := by
  refine ⟨_, rfl, ?_, rfl, rfl⟩
  decide

end Fcgi.C07
