import Fcgi.Proofs.ChainAny
import Fcgi.Props.C05Chain
import Fcgi.Props.C04
/-!
# C05 at the sync level, continued

1. `responder_delivered_any`, `filter_delivered_any`: point (2) of `k_requests_any_reads` for EVERY
   legal turn — whatever the history (reads with any destination, `set_stream` to the same, a later
   or no stream, parses in ignore mode, …), the bytes delivered to the caller are a prefix of the
   stream's content; for a Filter: a prefix of the `Stdin` content followed by a prefix of the `Data`
   content.  Engine: `Str.ops_ign` (an ignoring parser delivers nothing), `C05C.any_delivered`.
-/
namespace Fcgi.C05C
open Fcgi Fcgi.Req Fcgi.Str Fcgi.Spec Fcgi.C03SI
open Fcgi.E2E (serAll_app body_wf)

/-- the records behind the preamble start with the request's `Stdin` stream -/
structure StdinShape (q : Spec1) (content : Bytes) (body : List Rec) (term : Rec) (more : List Rec) : Prop where
  split : q.srecs = body ++ term :: more
  body : Body q.p.id 5 content body
  term : IsTerm q.p.id 5 term

theorem rclass_term {E : Cfg} {e : Rec} (hs : RT.isInputStream E.s = true) (h : IsTerm E.id E.s e) :
    rclass E e = .endStream := by
  obtain ⟨-, hid, ht, hc⟩ := h
  simp [rclass, hid, ht, hc, hs]

/-- the reference of the `Stdin` stream on the turn's wire -/
theorem refWire_turn {mc : Nat} {q : Spec1} {later : List Rec} (hq : q.OK) (hlater : ∀ r ∈ later, r.WF)
    {content : Bytes} {body : List Rec} {term : Rec} {more : List Rec} (hsh : StdinShape q content body term more) :
    refWire ⟨q.p.id, q.p.role, 5, mc⟩ (serAll (q.srecs ++ later)) =
      ⟨content, owedStream q.p.id 5 mc body, .eos, serAll (term :: (more ++ later))⟩ := by
  have hmore : ∀ r ∈ more ++ later, r.WF := by
    intro r hr
    rcases List.mem_append.1 hr with h | h
    · exact (hq.2 r (by rw [hsh.split]; exact List.mem_append_right _ (List.mem_cons_of_mem _ h))).1
    · exact hlater r h
  have := E2E.refWire_stream ⟨q.p.id, q.p.role, 5, mc⟩ (Or.inl rfl) (wf_id_lt hq.1) hsh.body term hsh.term.1
    (rclass_term (E := ⟨q.p.id, q.p.role, 5, mc⟩) rfl hsh.term) (more ++ later) hmore
  rw [hsh.split]
  simpa [List.append_assoc] using this

/-- what `Front` gives for the reference machinery -/
theorem front_start {cap mc : Nat} {q : Spec1} {later : List Rec} {t : Turn} {o : Obs} (hq : q.OK)
    (hrole : q.p.role = 1 ∨ q.p.role = 3) (hf : Front cap mc q later t o) :
    Start ⟨q.p.id, q.p.role, 5, mc⟩ o.sp ∧ IgnInv o.sp ∧ LegalAll o.sp t.ops ∧
      o.sp.raw ++ fedBytes t.ops <+: serAll (q.srecs ++ later) := by
  obtain ⟨hsp, hlen, -, hl, hpre⟩ := hf
  refine ⟨?_, ?_, hl, by rw [← fedBytes_eq]; exact hpre⟩
  · rw [hsp]
    exact start_fresh cap q.p.request o.sp.raw mc hlen (wf_id_lt hq.1) hrole
  · rw [hsp]; exact ignInv_fromParser _ _ _ _

/-- **(2) for every legal turn of a Responder request**: whatever the caller does on the stream
parser, the bytes delivered are a prefix of the `Stdin` content. -/
theorem responder_delivered_any {cap mc : Nat} {q : Spec1} {later : List Rec} {t : Turn} {o : Obs} (hq : q.OK)
    (hlater : ∀ r ∈ later, r.WF) (hrole : q.p.role = 1) (hf : Front cap mc q later t o)
    {content : Bytes} {body : List Rec} {term : Rec} {more : List Rec} (hsh : StdinShape q content body term more) :
    deliveredOps o.sp t.ops <+: content := by
  obtain ⟨h0, hI, hl, hpre⟩ := front_start hq (Or.inl hrole) hf
  obtain ⟨dA, dB, hd, hA, hB⟩ := any_delivered h0 hI t.ops hl _ hpre
  rw [refWire_turn hq hlater hsh] at hA hB
  rcases hB with rfl | ⟨s', hlat, -⟩
  · rw [hd, List.append_nil]; exact hA
  · rw [hrole] at hlat
    exact absurd hlat (no_later_responder s')

/-- the records behind a Filter's preamble: the `Stdin` stream, then the `Data` stream -/
structure FilterShape (q : Spec1) (c5 : Bytes) (b5 : List Rec) (t5 : Rec) (c8 : Bytes) (b8 : List Rec) (t8 : Rec)
    (more : List Rec) : Prop where
  stdin : StdinShape q c5 b5 t5 (b8 ++ t8 :: more)
  body8 : Body q.p.id 8 c8 b8
  term8 : IsTerm q.p.id 8 t8

theorem later_filter {s' : Nat} (h : Later 3 (some 5) s') : s' = 8 := by
  have hm := Str.mem_of_Later h
  have : s' = 5 ∨ s' = 8 := by simpa [inputStreams, RT.stdin, RT.data] using hm
  rcases this with rfl | rfl
  · exact absurd h.1 (Nat.lt_irrefl _)
  · rfl

/-- **(2) for every legal turn of a Filter request** (gap 3: reads of `Data` after
`set_stream(Some(Data))`, at any point — also before `Stdin` was read to its end): the bytes
delivered are a prefix of the `Stdin` content followed by a prefix of the `Data` content. -/
theorem filter_delivered_any {cap mc : Nat} {q : Spec1} {later : List Rec} {t : Turn} {o : Obs} (hq : q.OK)
    (hlater : ∀ r ∈ later, r.WF) (hrole : q.p.role = 3) (hf : Front cap mc q later t o)
    {c5 c8 : Bytes} {b5 b8 : List Rec} {t5 t8 : Rec} {more : List Rec}
    (hsh : FilterShape q c5 b5 t5 c8 b8 t8 more) :
    ∃ dA dB, deliveredOps o.sp t.ops = dA ++ dB ∧ dA <+: c5 ∧ dB <+: c8 := by
  obtain ⟨h0, hI, hl, hpre⟩ := front_start hq (Or.inr hrole) hf
  obtain ⟨dA, dB, hd, hA, hB⟩ := any_delivered h0 hI t.ops hl _ hpre
  rw [refWire_turn hq hlater hsh.stdin] at hA hB
  refine ⟨dA, dB, hd, hA, ?_⟩
  rcases hB with rfl | ⟨s', hlat, hB⟩
  · exact List.nil_prefix
  · rw [hrole] at hlat
    have := later_filter hlat
    subst this
    have hidlt := wf_id_lt hq.1
    have hrest : ∀ r ∈ more ++ later, r.WF := by
      intro r hr
      rcases List.mem_append.1 hr with h | h
      · refine (hq.2 r ?_).1
        rw [hsh.stdin.split]
        exact List.mem_append_right _ (List.mem_cons_of_mem _ (List.mem_append_right _ (List.mem_cons_of_mem _ h)))
      · exact hlater r h
    have h5 : t5.rtype.toNat = 5 := hsh.stdin.term.2.2.1
    have hpc : rclass ⟨q.p.id, q.p.role, 8, mc⟩ t5 = .noise := by
      have hl : ¬ Later q.p.role (some 8) 5 := by rw [hrole]; decide
      simp [rclass, h5, hsh.stdin.term.2.1, RT.isInputStream, hl]
    have hpo : owed (some q.p.id) mc t5 = [] := by
      have hv : RT.valid t5.rtype.toNat = true := by rw [h5]; rfl
      exact C04.owed_other (some q.p.id) mc t5 hv (by rw [h5]; decide) (fun hx => by rw [h5] at hx; exact absurd hx.1 (by decide))
    have href := E2E.refWire_stream' ⟨q.p.id, q.p.role, 8, mc⟩ (Or.inr rfl) hidlt t5 hsh.stdin.term.1 hpc hpo
      hsh.body8 t8 hsh.term8.1 (rclass_term (E := ⟨q.p.id, q.p.role, 8, mc⟩) rfl hsh.term8) (more ++ later) hrest
    have hsw : (switchRef (Cfg.withStream ⟨q.p.id, q.p.role, 5, mc⟩ 8)
        ⟨c5, owedStream q.p.id 5 mc b5, .eos, serAll (t5 :: (b8 ++ t8 :: more ++ later))⟩).content = c8 := by
      simp only [switchRef, Cfg.withStream, ref_eq_refWire]
      rw [show t5 :: (b8 ++ t8 :: more ++ later) = t5 :: (b8 ++ t8 :: (more ++ later)) by simp, href]
      simp [RefOut.pre]
    rw [hsw] at hB
    exact hB

end Fcgi.C05C
