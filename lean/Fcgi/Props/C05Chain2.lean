import Fcgi.Proofs.ChainAny
import Fcgi.Proofs.ChainIgnore
import Fcgi.Proofs.ChainZero
import Fcgi.Props.C05Chain
import Fcgi.Props.C04
/-!
# C05 at the sync level, continued

1. `responder_delivered_any`, `filter_delivered_any`: point (2) of `k_requests_any_reads` for EVERY
   legal turn — whatever the history (reads with any destination, `set_stream` to the same, a later
   or no stream, parses in ignore mode, …), the bytes delivered to the caller are a prefix of the
   stream's content; for a Filter: a prefix of the `Stdin` content followed by a prefix of the `Data`
   content.  Engine: `Str.ops_ign` (an ignoring parser delivers nothing), `C05C.any_delivered`.
2. `within_turn_replies`: the stream parser's share of (4) for a Responder turn that stops anywhere
   (also mid-record) and skips to the record boundary as `close()` does — `set_stream(None)`, then
   `parse(new, None)` / `compress` / `consume_output` —, the parser being given bytes of its own
   request only (`WithinAll`): the replies it generated over the whole turn are exactly those owed
   for the records `d` it consumed (`owedI id mc d`, read or skipped alike); with `Results` (the next
   request parser answers `idleOwed mc u'`) this is the split `owedI d ++ idleOwed u'`.
   Engine: `E2E.R2` / `E2E.parse_r2` (Proofs/E2EPrefixStr), wired by `r2_start`, `r2_ops`,
   `ignore_replies` (Proofs/ChainIgnore).
3. (`filter_delivered_any` above.)
4. `k_requests_any_reads0`: the chain in which every request parser is first called with NO new
   input (`parse(0)`, as the async `parse_request` does) and then fed chunks — possibly none: the
   fully buffered preamble.  `turn0_eq`: such a turn IS the turn of `C05C.turn` with the look-ahead
   presented as the first chunk of an empty-buffered parser, so the same theorem holds.
-/
namespace Fcgi.C05C
open Fcgi Fcgi.Req Fcgi.Str Fcgi.Spec Fcgi.C03SI
open Fcgi.E2E (serAll_app body_wf)

/-- the records behind the preamble start with the request's `Stdin` stream -/
structure StdinShape (q : Spec1) (content : Bytes) (body : List Rec) (term : Rec) (more : List Rec) : Prop where
  split : q.srecs = body ++ term :: more
  body : Body q.p.id 5 content body
  term : IsTerm q.p.id 5 term

theorem rclass_term {E : Cfg} {e : Rec} (hs : RT.isInputStream E.s = true) (h : IsTerm E.id E.s e) :
    rclass E e = .endStream := by
  obtain ⟨-, hid, ht, hc⟩ := h
  simp [rclass, hid, ht, hc, hs]

/-- the reference of the `Stdin` stream on the turn's wire -/
theorem refWire_turn {mc : Nat} {q : Spec1} {later : List Rec} (hq : q.OK) (hlater : ∀ r ∈ later, r.WF)
    {content : Bytes} {body : List Rec} {term : Rec} {more : List Rec} (hsh : StdinShape q content body term more) :
    refWire ⟨q.p.id, q.p.role, 5, mc⟩ (serAll (q.srecs ++ later)) =
      ⟨content, owedStream q.p.id 5 mc body, .eos, serAll (term :: (more ++ later))⟩ := by
  have hmore : ∀ r ∈ more ++ later, r.WF := by
    intro r hr
    rcases List.mem_append.1 hr with h | h
    · exact (hq.2 r (by rw [hsh.split]; exact List.mem_append_right _ (List.mem_cons_of_mem _ h))).1
    · exact hlater r h
  have := E2E.refWire_stream ⟨q.p.id, q.p.role, 5, mc⟩ (Or.inl rfl) (wf_id_lt hq.1) hsh.body term hsh.term.1
    (rclass_term (E := ⟨q.p.id, q.p.role, 5, mc⟩) rfl hsh.term) (more ++ later) hmore
  rw [hsh.split]
  simpa [List.append_assoc] using this

/-- what `Front` gives for the reference machinery -/
theorem front_start {cap mc : Nat} {q : Spec1} {later : List Rec} {t : Turn} {o : Obs} (hq : q.OK)
    (hrole : q.p.role = 1 ∨ q.p.role = 3) (hf : Front cap mc q later t o) :
    Start ⟨q.p.id, q.p.role, 5, mc⟩ o.sp ∧ IgnInv o.sp ∧ LegalAll o.sp t.ops ∧
      o.sp.raw ++ fedBytes t.ops <+: serAll (q.srecs ++ later) := by
  obtain ⟨hsp, hlen, -, hl, hpre⟩ := hf
  refine ⟨?_, ?_, hl, by rw [← fedBytes_eq]; exact hpre⟩
  · rw [hsp]
    exact start_fresh cap q.p.request o.sp.raw mc hlen (wf_id_lt hq.1) hrole
  · rw [hsp]; exact ignInv_fromParser _ _ _ _

/-- **(2) for every legal turn of a Responder request**: whatever the caller does on the stream
parser, the bytes delivered are a prefix of the `Stdin` content. -/
theorem responder_delivered_any {cap mc : Nat} {q : Spec1} {later : List Rec} {t : Turn} {o : Obs} (hq : q.OK)
    (hlater : ∀ r ∈ later, r.WF) (hrole : q.p.role = 1) (hf : Front cap mc q later t o)
    {content : Bytes} {body : List Rec} {term : Rec} {more : List Rec} (hsh : StdinShape q content body term more) :
    deliveredOps o.sp t.ops <+: content := by
  obtain ⟨h0, hI, hl, hpre⟩ := front_start hq (Or.inl hrole) hf
  obtain ⟨dA, dB, hd, hA, hB⟩ := any_delivered h0 hI t.ops hl _ hpre
  rw [refWire_turn hq hlater hsh] at hA hB
  rcases hB with rfl | ⟨s', hlat, -⟩
  · rw [hd, List.append_nil]; exact hA
  · rw [hrole] at hlat
    exact absurd hlat (no_later_responder s')

/-- the records behind a Filter's preamble: the `Stdin` stream, then the `Data` stream -/
structure FilterShape (q : Spec1) (c5 : Bytes) (b5 : List Rec) (t5 : Rec) (c8 : Bytes) (b8 : List Rec) (t8 : Rec)
    (more : List Rec) : Prop where
  stdin : StdinShape q c5 b5 t5 (b8 ++ t8 :: more)
  body8 : Body q.p.id 8 c8 b8
  term8 : IsTerm q.p.id 8 t8

theorem later_filter {s' : Nat} (h : Later 3 (some 5) s') : s' = 8 := by
  have hm := Str.mem_of_Later h
  have : s' = 5 ∨ s' = 8 := by simpa [inputStreams, RT.stdin, RT.data] using hm
  rcases this with rfl | rfl
  · exact absurd h.1 (Nat.lt_irrefl _)
  · rfl

/-- **(2) for every legal turn of a Filter request** (gap 3: reads of `Data` after
`set_stream(Some(Data))`, at any point — also before `Stdin` was read to its end): the bytes
delivered are a prefix of the `Stdin` content followed by a prefix of the `Data` content. -/
theorem filter_delivered_any {cap mc : Nat} {q : Spec1} {later : List Rec} {t : Turn} {o : Obs} (hq : q.OK)
    (hlater : ∀ r ∈ later, r.WF) (hrole : q.p.role = 3) (hf : Front cap mc q later t o)
    {c5 c8 : Bytes} {b5 b8 : List Rec} {t5 t8 : Rec} {more : List Rec}
    (hsh : FilterShape q c5 b5 t5 c8 b8 t8 more) :
    ∃ dA dB, deliveredOps o.sp t.ops = dA ++ dB ∧ dA <+: c5 ∧ dB <+: c8 := by
  obtain ⟨h0, hI, hl, hpre⟩ := front_start hq (Or.inr hrole) hf
  obtain ⟨dA, dB, hd, hA, hB⟩ := any_delivered h0 hI t.ops hl _ hpre
  rw [refWire_turn hq hlater hsh.stdin] at hA hB
  refine ⟨dA, dB, hd, hA, ?_⟩
  rcases hB with rfl | ⟨s', hlat, hB⟩
  · exact List.nil_prefix
  · rw [hrole] at hlat
    have := later_filter hlat
    subst this
    have hidlt := wf_id_lt hq.1
    have hrest : ∀ r ∈ more ++ later, r.WF := by
      intro r hr
      rcases List.mem_append.1 hr with h | h
      · refine (hq.2 r ?_).1
        rw [hsh.stdin.split]
        exact List.mem_append_right _ (List.mem_cons_of_mem _ (List.mem_append_right _ (List.mem_cons_of_mem _ h)))
      · exact hlater r h
    have h5 : t5.rtype.toNat = 5 := hsh.stdin.term.2.2.1
    have hpc : rclass ⟨q.p.id, q.p.role, 8, mc⟩ t5 = .noise := by
      have hl : ¬ Later q.p.role (some 8) 5 := by rw [hrole]; decide
      simp [rclass, h5, hsh.stdin.term.2.1, RT.isInputStream, hl]
    have hpo : owed (some q.p.id) mc t5 = [] := by
      have hv : RT.valid t5.rtype.toNat = true := by rw [h5]; rfl
      exact C04.owed_other (some q.p.id) mc t5 hv (by rw [h5]; decide) (fun hx => by rw [h5] at hx; exact absurd hx.1 (by decide))
    have href := E2E.refWire_stream' ⟨q.p.id, q.p.role, 8, mc⟩ (Or.inr rfl) hidlt t5 hsh.stdin.term.1 hpc hpo
      hsh.body8 t8 hsh.term8.1 (rclass_term (E := ⟨q.p.id, q.p.role, 8, mc⟩) rfl hsh.term8) (more ++ later) hrest
    have hsw : (switchRef (Cfg.withStream ⟨q.p.id, q.p.role, 5, mc⟩ 8)
        ⟨c5, owedStream q.p.id 5 mc b5, .eos, serAll (t5 :: (b8 ++ t8 :: more ++ later))⟩).content = c8 := by
      simp only [switchRef, Cfg.withStream, ref_eq_refWire]
      rw [show t5 :: (b8 ++ t8 :: more ++ later) = t5 :: (b8 ++ t8 :: (more ++ later)) by simp, href]
      simp [RefOut.pre]
    rw [hsw] at hB
    exact hB

/-! ## 2. The replies of a turn that skips to the record boundary -/

/-- **(4), the stream parser's share, for a `WithinAll` turn of a Responder.**  `t.ops = H ++
set_stream(None) :: N`: `H` any legal history whose `set_stream` calls name a stream, `N` the skip.
`hfit`: the bodies of the management `GetValues` records among the request's records fit the buffer
(as in the async theorems). -/
theorem within_turn_replies {cap mc : Nat} {q : Spec1} {later : List Rec} {t : Turn} {o : Obs} (hq : q.OK)
    (hrole : q.p.role = 1) (hf : Front cap mc q later t o) (h8 : 8 ≤ cap)
    (hrecs : ∀ r ∈ q.srecs, E2E.StdinRec q.p.id r) (hfit : NoiseFits cap q.srecs)
    (hin : o.sp.raw ++ C05.fedBytes t.ops <+: serAll q.srecs)
    {H N : List Op} (hops : t.ops = H ++ Op.setStream none :: N) (hH : C03SS.SetSome H) (hN : SkipOps N)
    (hb : o.spEnd.isRecordBoundary = true) :
    ∃ d u', q.srecs = d ++ u' ∧ C03S.grownAll o.sp t.ops = E2E.owedI q.p.id mc d ∧
      o.sp.raw ++ C05.fedBytes t.ops = serAll d ++ o.spEnd.raw ∧ o.spEnd.raw <+: serAll u' := by
  obtain ⟨h0, -, hl, -⟩ := front_start hq (Or.inl hrole) hf
  obtain ⟨hsp, -, hend, -, -⟩ := hf
  rw [hrole] at h0
  have hc : E2E.R2Ctx q.p.id mc cap q.srecs := ⟨hrecs, wf_id_lt hq.1, hfit, h8⟩
  have hns : NoSwitch ⟨q.p.id, 1, 5, mc⟩ H := by
    intro st hm
    obtain ⟨s', rfl⟩ := hH st hm
    exact ⟨s', rfl, no_later_responder s'⟩
  obtain ⟨fut, hfut⟩ := hin
  rw [fedBytes_eq, hops] at hfut
  rw [hops] at hl
  rw [hend, hops] at hb
  obtain ⟨d, rs, h1, h2, h3, h4⟩ := ignore_replies hc h0 (by rw [hsp]; rfl) hl hns hN hfut hb
  refine ⟨d, rs, h1, by rw [hops]; exact h2, by rw [fedBytes_eq, hend, hops]; exact h3, ?_⟩
  rw [hend, hops]
  exact ⟨fut, h4⟩

/-! ## 4. Every turn starts with `parse(0)`; the chunk list may be empty -/

/-- **k requests, any reads, `parse(0)` first** — `k_requests_any_reads` for `chain0`. -/
theorem k_requests_any_reads0 {cap mc : Nat} {ts : List Turn} {qs : List Spec1} {os : List Obs}
    {rp rpK : Req.Parser} {u : List Rec} {fut : Bytes}
    (hqs : ∀ q ∈ qs, q.OK) (hp : PInv rp) (hst : rp.state = .header) (hmc : rp.maxConns = mc)
    (hcap : rp.cap = cap) (hu : ∀ e ∈ u, IdleNoise e) (hlen : ts.length ≤ qs.length)
    (hwire : rp.input ++ ts.flatMap Turn.fed ++ fut = serAll (u ++ wireRecs qs))
    (hleg : ChainLegal0 rp ts) (hch : chain0 rp ts = some (os, rpK)) (hno : NoOverruns cap mc qs ts os) :
    os.map (·.r) = (qs.take os.length).map (·.p.request) ∧ Results cap mc u qs ts os ∧
    (∃ uK, (∀ e ∈ uK, IdleNoise e) ∧ rpK.input ++ fut = serAll (uK ++ wireRecs (qs.drop ts.length))) ∧
    PInv rpK ∧ rpK.state = .header ∧ rpK.maxConns = mc ∧ rpK.cap = cap := by
  obtain ⟨h1, h2, h3, h4, h5, h6⟩ := chain0_spec ts qs os rp u fut rpK hqs hp hst hmc hcap hu hlen hwire hleg hch hno
  exact ⟨results_requests os qs ts u h1, h1, h6, h2, h3, h4, h5⟩

end Fcgi.C05C
