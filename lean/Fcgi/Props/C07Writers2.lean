import Fcgi.Proofs.E2EWriters2
import Fcgi.Props.C07Writers
/-!
# C07 / C10 — end to end with two writers, any sequence of `write_all` AND `flush` calls

`Props/C07Writers` with `flush` ops anywhere in the script (first, repeated, after the last write), over any benign
transport with an ARBITRARY script of flush answers `Pending` / `Ok`.

`single_request_writers_flush_e2e`: the outcome is exactly that of `single_request_writers_e2e` for the script with
the flushes erased (`E2E.writesOf W`): one handler start, `readAll` returned the content, the log is
`owedPreamble ++ O₁ ++ outOf id (E2E.writesOf W) ++ O₂ ++ epilogue` — a flush contributes no byte —, the same final
states.  `writers_flush_chain_e2e`: the chain step.

Side conditions (all about the model / the scripted environment, none on the input size or `b`):
* `hfl : ∀ a ∈ t.fl, a ≠ .err` — no error among the flush answers (`Pending`/`Ok` in any order);
* `hfuel : |rd| + |wr| + |fl| + 1 ≤ fuel` — a `Pending` flush costs a poll (the measure is `E2E.mu`);
* `hhf : fcost W + 20 ≤ 1000` — the model's handler fuel: `Σ (⌈|data|/65535⌉ + 1)` over the writes, `+ 1` per flush;
* `hmore : ∀ s ∈ more, s.2 = true` — the handler scripts still to come propagate I/O errors.  Forced by the proof,
  not by the code: that the flush script only shrinks along a poll is taken from the whole-model invariant of
  `Props/C12Inv` (`stepConn_w`), which is stated for such connections.
-/
namespace Fcgi.C07W
open Fcgi Fcgi.Req Fcgi.Str Fcgi.Async Fcgi.Run Fcgi.Spec Fcgi.E2E Fcgi.C07E Fcgi.C07U Fcgi.C07B

def cfgW2 (p : Preamble) (recs : List Rec) (content : Bytes) (body : List Rec) (pad : Bytes) (res : UInt8)
    (b mc : Nat) (W : FList) (st : ExitStatus) (L0 : Bytes) (h : Nat) (more : List (List HOp × Bool)) :
    E2E.Cfg :=
  ⟨p, recs, content, body, pad, res, [], [], [], 0, b, mc, [], st, L0, h, more,
    serAll body ++ (trec 5 p.id pad res).ser, [], (trec 5 p.id pad res).ser, [], [], fscriptW W st⟩

theorem lw_eq2 {p : Preamble} {recs : List Rec} {content : Bytes} {body : List Rec} {pad : Bytes} {res : UInt8}
    {b mc : Nat} {W : FList} {W' : WList} {st : ExitStatus} {L0 : Bytes} {h : Nat} {more : List (List HOp × Bool)}
    (O1 O2 : Bytes) :
    (cfgW2 p recs content body pad res b mc W st L0 h more).Lw W' O1 O2 =
      L0 ++ expectedLogW p recs mc W' st O1 O2 := by
  show (L0 ++ owedPreamble p mc recs) ++ O1 ++ outOf p.id W' ++ O2 ++
    makeRequestEpilogue p.id st [RT.stdout, RT.stderr] = _
  rw [(C17.epilogue_spec p.id st _).1]
  simp [expectedLogW, epilogue, List.append_assoc]

/-- flushes contribute nothing to what the writes owe -/
theorem writesOf_flush (i : _root_.Fin 2) (W : FList) : E2E.writesOf (.f i :: W) = E2E.writesOf W := rfl
theorem writesOf_write (i : _root_.Fin 2) (d : Bytes) (W : FList) : E2E.writesOf (.w i d :: W) = (i, d) :: E2E.writesOf W := rfl

/-- **C07/C10 end to end: one request, two writers, any sequence of `write_all` and `flush` calls**, over a transport
with any script of `Pending`/`Ok` flush answers: the same outcome as `single_request_writers_e2e` for the script with
the flushes erased (`E2E.writesOf W`) — a flush contributes no byte. -/
theorem single_request_writers_flush_e2e {p : Preamble} {recs : List Rec} {content : Bytes} {srecs : List Rec}
    {b mc : Nat} {W : FList} {st : ExitStatus} {more : List (List HOp × Bool)} {t : Transport} {fuel : Nat}
    (hwf : WellFormedPreamble p recs) (hrole : p.role = 1)
    (hpairs : ∀ q ∈ p.pairs, (NV.enc q).length ≤ alignedBufsize b)
    (hnoise : NoiseFits (alignedBufsize b) recs)
    (hs : StreamRecs p.id 5 content srecs) (hsn : NoiseFits (alignedBufsize b) srecs)
    (hin : t.input = serAll recs ++ serAll srecs) (hben : Ben t) (hev : hsCount t.events = 0)
    (hfl : ∀ a ∈ t.fl, a ≠ FlAns.err) (hmore : ∀ s ∈ more, s.2 = true)
    (hfuel : t.rd.length + t.wr.length + t.fl.length + 1 ≤ fuel)
    (hhf : fcost W + 20 ≤ 1000) :
    ∃ c' fin O₁ O₂ pad res,
      runTask fuel (connS b mc t ((fscriptW W st, true) :: more)) 0 none = (c', fin) ∧
      O₁ ++ O₂ = owedStream p.id 5 mc srecs ∧
      WritersOutcome p recs content (E2E.writesOf W) O₁ O₂ pad res b mc st more t c' fin := by
  obtain ⟨body, pad, res, hpad, hbody, hsrecs⟩ := StreamRecs.split hs
  have hid := (pid_of_wf hwf).2
  have hsb : NoiseFits (alignedBufsize b) body := fun r hr => hsn r (by rw [hsrecs]; simp [hr])
  have ok : WFOK (cfgW2 p recs content body pad res b mc W st t.wlog 0 more) W :=
    ⟨hwf, hrole, hpairs, hnoise, hbody, hsb, hpad, rfl, rfl, rfl, rfl, hhf⟩
  have hOt : owedStream p.id 5 mc srecs = owedStream p.id 5 mc body := by
    rw [hsrecs, owedStream_append, owedStream_term p.id 5 mc _ rfl, List.append_nil]
  have htwf : (trec 5 p.id pad res).WF := ⟨hid, by simp [trec], hpad⟩
  have hidle : ∀ e ∈ [trec 5 p.id pad res], IdleNoise e := by
    intro e he
    rw [List.mem_singleton.1 he]
    exact ⟨htwf, fun hx => absurd hx (by show (5 : UInt8).toNat ≠ RT.beginRequest; decide)⟩
  have hfit : NoiseFits (alignedBufsize b) [trec 5 p.id pad res] := by
    intro e he hg
    rw [List.mem_singleton.1 he] at hg
    exact absurd hg.1 (by show (5 : UInt8).toNat ≠ RT.getValues; decide)
  obtain ⟨hns, hNF⟩ := idle_front dummy_wf b mc (fun q hq => by cases hq) (dummy_fits _) hidle hfit []
  rw [C02.serAll_single] at hns hNF
  have hst : FStage (cfgW2 p recs content body pad res b mc W st t.wlog 0 more)
      (connS b mc t ((fscriptW W st, true) :: more)) :=
    .start (raw := []) rfl (by
      show [] ++ t.input = _
      rw [hin, hsrecs, C02.serAll_append, C02.serAll_single]; rfl) (Nat.zero_le _) rfl hben rfl rfl rfl hev
  have hap : C12Inv.AllProp (connS b mc t ((fscriptW W st, true) :: more)) :=
    ⟨fun s hs => by
      rcases List.mem_cons.1 hs with rfl | hs
      · rfl
      · exact hmore s hs, trivial⟩
  obtain ⟨c', fin, hrun, hres⟩ := run_writersF ok (Z := serAll dummyRecs ++ []) hns hNF
    t.endMode [] _ 0 fuel hst rfl (fun s hs => by cases hs) hap hfl rfl (by show mu t + 1 ≤ fuel; unfold mu ans; omega)
  have hro := (run_idle_out mc [trec 5 p.id pad res] hidle).1
  rw [C02.serAll_single] at hro
  have hio : idleOwed mc [trec 5 p.id pad res] = [] := by
    simp [idleOwed, owed, trec, RT.valid, RT.getValues, RT.beginRequest]
  rcases hres with ⟨⟨O1, O2⟩, ⟨hkp, hO⟩, hk', hem, _, _, _, hend⟩ |
      ⟨hfin, ⟨O1, O2, hO, q3, hfu⟩, _, _⟩
  · have hout : ∀ F, F ++ (serAll dummyRecs ++ []) = (trec 5 p.id pad res).ser ++ (serAll dummyRecs ++ []) →
        (cfgW2 p recs content body pad res b mc W st t.wlog 0 more).Lw (E2E.writesOf W) O1 O2 ++ (run .header F mc).out =
        t.wlog ++ expectedLogW p recs mc (E2E.writesOf W) st O1 O2 := by
      intro F hF
      rw [List.append_cancel_right hF, hro, hio, List.append_nil, lw_eq2]
    refine ⟨c', fin, O1, O2, pad, res, hrun, hO.trans hOt.symm, ⟨hk'.hs, hk'.ev _ List.mem_cons_self⟩,
      hk'.ev _ (List.mem_cons_of_mem _ List.mem_cons_self), ?_, hk'.sc, ?_⟩
    · rcases hend with ⟨_, hp⟩ | ⟨_, hf⟩
      · obtain ⟨F, hF, _, _, hlg⟩ := hp.pst
        exact hlg.trans (hout F hF)
      · obtain ⟨F, hF, hlg⟩ := hf.log
        exact hlg.trans (hout F hF)
    · rcases hend with ⟨rfl, hp⟩ | ⟨rfl, hf⟩
      · obtain ⟨F, hF, hps, hph, _⟩ := hp.pst
        have hFe : F = (trec 5 p.id pad res).ser := List.append_cancel_right hF
        subst hFe
        exact Or.inr (Or.inr ⟨hkp, hem.symm.trans hp.em, rfl, hph, hp.inp, hk'.mx, hps.stop, hps.ben⟩)
      · exact Or.inr (Or.inl ⟨hkp, hem.symm.trans hf.em, rfl, hf.ph⟩)
  · exact ⟨c', fin, O1, O2, pad, res, hrun, hO.trans hOt.symm, ⟨hfu.ev.1, hfu.ev.2⟩,
      q3, by rw [hfu.log, lw_eq2], hfu.sc, Or.inl ⟨hfu.nokeep, hfin, hfu.ph⟩⟩


/-! ## The chain step -/

/-- **After the two-writer request, the next requests are served exactly as alone.**  A closed-loop client sends
the request of `single_request_writers_e2e` (with KEEP_CONN) and then the keep-alive requests `x :: xs`
(`UReq.OKu`: read to the end by a canonical handler, or a Responder request left unread).  Then: `1 + k` handler
starts; the log is the first request's (`expectedLogW`, all its writes' records in script order) followed by the `k`
segments `UReq.Seg`; all scripts are consumed; the task is parked behind what the last request left unread. -/
theorem writers_flush_chain_e2e {p : Preamble} {recs : List Rec} {content : Bytes} {srecs : List Rec}
    {b mc : Nat} {W : FList} {st : ExitStatus} (x : UReq) (xs : List UReq) {t : Transport} {fuel : Nat}
    (hwf : WellFormedPreamble p recs) (hrole : p.role = 1) (hk : p.flags.toNat % 2 = 1)
    (hpairs : ∀ q ∈ p.pairs, (NV.enc q).length ≤ alignedBufsize b)
    (hnoise : NoiseFits (alignedBufsize b) recs)
    (hs : StreamRecs p.id 5 content srecs) (hsn : NoiseFits (alignedBufsize b) srecs)
    (hok : ∀ y ∈ x :: xs, y.OKu b)
    (hin : t.input = serAll recs ++ serAll srecs) (hben : Ben t) (hem : t.endMode = .pend)
    (hev : hsCount t.events = 0) (hfl : ∀ a ∈ t.fl, a ≠ FlAns.err)
    (hfuel : t.rd.length + t.wr.length + t.fl.length + 1 ≤ fuel)
    (hhf : fcost W + 20 ≤ 1000) :
    ∃ c' O₁ O₂ A,
      closedLoop fuel ((x :: xs).map UReq.wire)
        (connS b mc t ((fscriptW W st, true) :: (x :: xs).map UReq.handler)) 0 = (c', "STALL") ∧
      O₁ ++ O₂ = owedStream p.id 5 mc srecs ∧
      SegsAll mc (x :: xs) A ∧
      c'.env.tr.wlog = t.wlog ++ expectedLogW p recs mc (E2E.writesOf W) st O₁ O₂ ++ A ∧
      hsCount c'.env.tr.events = 1 + (x :: xs).length ∧
      startEvent p.request ∈ c'.env.tr.events ∧ readEvent content ∈ c'.env.tr.events ∧
      (∀ y ∈ x :: xs, startEvent y.p.request ∈ c'.env.tr.events) ∧ c'.scripts = [] ∧
      c'.env.tr.input = [] ∧
      c'.phase = .parseReq (track (alignedBufsize b) mc (serAll ((x :: xs).getLast (by simp)).left)) .reading := by
  have hid := (pid_of_wf hwf).2
  obtain ⟨body, pad, res, hpad, hbody, hsrecs⟩ := StreamRecs.split hs
  have hsb : NoiseFits (alignedBufsize b) body := fun r hr => hsn r (by rw [hsrecs]; simp [hr])
  have hOt : owedStream p.id 5 mc srecs = owedStream p.id 5 mc body := by
    rw [hsrecs, owedStream_append, owedStream_term p.id 5 mc _ rfl, List.append_nil]
  have ok : WFOK (cfgW2 p recs content body pad res b mc W st t.wlog 0
      (((x :: xs).map (UReq.spec mc)).map RSpec.handler)) W :=
    ⟨hwf, hrole, hpairs, hnoise, hbody, hsb, hpad, rfl, rfl, rfl, rfl, hhf⟩
  have hap : C12Inv.AllProp (connS b mc t ((fscriptW W st, true) :: ((x :: xs).map (UReq.spec mc)).map RSpec.handler)) := by
    refine ⟨fun s hs => ?_, trivial⟩
    rcases List.mem_cons.1 hs with rfl | hs
    · rfl
    · obtain ⟨z, hz, rfl⟩ := List.mem_map.1 hs
      obtain ⟨y, _, rfl⟩ := List.mem_map.1 hz
      cases y with
      | full q => cases q <;> rfl
      | unread => rfl
  have htw : (trec 5 p.id pad res).WF := ⟨hid, by simp [trec], hpad⟩
  have hT : IdleNoise (trec 5 p.id pad res) :=
    ⟨htw, fun hx => absurd hx (by show (5 : UInt8).toNat ≠ RT.beginRequest; decide)⟩
  have hlo : LeftOK (alignedBufsize b) [trec 5 p.id pad res] :=
    ⟨fun e he => by rw [List.mem_singleton.1 he]; exact hT, fun e he hg => by
      rw [List.mem_singleton.1 he] at hg
      exact absurd hg.1 (by show (5 : UInt8).toNat ≠ RT.getValues; decide)⟩
  have hW : (cfgW2 p recs content body pad res b mc W st t.wlog 0
      (((x :: xs).map (UReq.spec mc)).map RSpec.handler)).W = t.input := by
    rw [hin, hsrecs, C02.serAll_append, C02.serAll_single]
    rfl
  have hstart : StartAt (alignedBufsize b) mc [] t.wlog
      ((fscriptW W st, true) :: ((x :: xs).map (UReq.spec mc)).map RSpec.handler) 0 [] (ans t)
      (cfgW2 p recs content body pad res b mc W st t.wlog 0
        (((x :: xs).map (UReq.spec mc)).map RSpec.handler)).W
      (connS b mc t ((fscriptW W st, true) :: ((x :: xs).map (UReq.spec mc)).map RSpec.handler)) :=
    Or.inr ⟨rfl, rfl, by show t.input = _; rw [hW], rfl, hben, rfl, rfl, rfl, hev,
      (fun _ hs => nomatch hs), rfl, hem, Nat.le_refl _⟩
  have hleft0 : LeftOK (alignedBufsize b) [] := ⟨(fun _ he => nomatch he), (fun _ hr => nomatch hr)⟩
  obtain ⟨c1, O1, O2, hrun1, hO, hrd, hw1⟩ := serve_writersF_core ok hk (left := []) hleft0 (Z := x.wire) hT
    (goodNext_of_oku (hok x List.mem_cons_self) hlo) 0 fuel (by simp [idleOwed]; rfl) hstart hap hfl
    (by show ans t + t.fl.length + 1 ≤ fuel; unfold ans; omega)
  have hz : idleOwed mc [trec 5 p.id pad res] = [] := by
    simp [idleOwed, owed, trec, RT.valid, RT.getValues, RT.beginRequest]
  have hLw : ((cfgW2 p recs content body pad res b mc W st t.wlog 0
      (((x :: xs).map (UReq.spec mc)).map RSpec.handler)).front []).Lw (E2E.writesOf W) O1 O2 ++ idleOwed mc [trec 5 p.id pad res] =
      t.wlog ++ expectedLogW p recs mc (E2E.writesOf W) st O1 O2 := by
    rw [hz, List.append_nil]
    exact lw_eq2 O1 O2
  have hw1' : Waiting (alignedBufsize b) mc [trec 5 p.id pad res]
      (t.wlog ++ expectedLogW p recs mc (E2E.writesOf W) st O1 O2)
      (((x :: xs).map (UReq.spec mc)).map RSpec.handler) 1 [hsEvent p.request, rEvent content] (ans t) c1 := by
    rw [← hLw]
    have hev' : ∀ s ∈ [hsEvent p.request, rEvent content], s ∈ c1.env.tr.events := by
      intro s hs
      rcases List.mem_cons.1 hs with rfl | hs
      · exact hw1.ev _ List.mem_cons_self
      · rw [List.mem_singleton.1 hs]; exact hrd
    exact { hw1 with ev := hev' }
  obtain ⟨c', A, hrun, hseg, hw⟩ := chain_serves (alignedBufsize b) mc (serAll dummyRecs ++ [])
    (xs.map (UReq.spec mc)) (UReq.spec mc x) _ _ 1 [hsEvent p.request, rEvent content] (ans t) (feed c1 x.wire) 1000 fuel
    (hall_of_oku x xs hok) hlo (Or.inl ⟨c1, hw1', rfl⟩) (by unfold ans; omega)
  have hrun' : closedLoop fuel ((x :: xs).map UReq.wire)
      (connS b mc t ((fscriptW W st, true) :: (x :: xs).map UReq.handler)) 0 = (c', "STALL") := by
    have e : (x :: xs).map UReq.handler = ((x :: xs).map (UReq.spec mc)).map RSpec.handler := by
      rw [List.map_map]; rfl
    rw [e]
    show closedLoop fuel (x.wire :: xs.map UReq.wire) _ 0 = _
    rw [closedLoop, hrun1]
    simp only [if_true]
    rw [← hrun, List.map_map]; rfl
  have hlast := lastLeft_specs mc x xs
  refine ⟨c', O1, O2, A, hrun', hO.trans hOt.symm, segAll_specs mc (x :: xs) A hseg, hw.log, ?_, ?_, ?_, ?_, hw.sc, hw.inp, ?_⟩
  · have := hw.hs; simpa [Nat.add_comm] using this
  · exact hw.ev _ (mem_evsAfter _ _ _ (Or.inl List.mem_cons_self))
  · exact hw.ev _ (mem_evsAfter _ _ _ (Or.inl (by simp)))
  · intro y hy
    exact hw.ev _ (mem_evsAfter _ _ _ (Or.inr ⟨UReq.spec mc y, List.mem_map_of_mem hy, rfl⟩))
  · rw [← hlast]; exact hw.ph


/-! ## Non-vacuity -/
namespace Example2
open Fcgi.C01.Example Fcgi.C07E.Example

/-- flush Stdout BEFORE any write, write "hi" to Stdout, flush Stderr, write "er" to Stderr, flush Stdout -/
def exF : FList := [.f 0, .w 0 [104, 105], .f 1, .w 1 [101, 114], .f 0]

/-- the first flush is answered `Pending` then `Ok`, the second `Pending`, `Pending`, `Ok`, the third by default -/
def fT : Transport :=
  { input := serAll recs ++ serAll nS, endMode := .pend,
    rd := [.n 10, .pending, .n 7, .all, .n 3], wr := [.n 5, .pending, .all],
    fl := [.pending, .ok, .pending, .pending, .ok] }

/-- `single_request_writers_flush_e2e` applied (driver line: case `c07w2-flush-first-pending` of
`/verif/.run/replay-c07-writers2.ops`, model = crate): three flushes, three `Pending` answers — the log has exactly
the two records of the two writes, Stdout then Stderr. -/
example : ∃ c' fin O₁ O₂, runTask 20 (connS 64 10 fT [(fscriptW exF (.complete 0), true)]) 0 none = (c', fin) ∧
    O₁ ++ O₂ = owedStream 1 5 10 nS ∧
    c'.env.tr.wlog = owedPreamble pre 10 recs ++ O₁ ++
      ([1, 6, 0, 1, 0, 2, 6, 0, 104, 105, 0, 0, 0, 0, 0, 0] ++ [1, 7, 0, 1, 0, 2, 6, 0, 101, 114, 0, 0, 0, 0, 0, 0]) ++ O₂ ++
      epilogue 1 (.complete 0) ∧
    hsCount c'.env.tr.events = 1 ∧ readEvent [65, 66, 67] ∈ c'.env.tr.events := by
  obtain ⟨c', fin, O1, O2, pad, res, hrun, hO, ho⟩ := single_request_writers_flush_e2e (p := pre) (recs := recs)
    (content := [65, 66, 67]) (srecs := nS) (b := 64) (mc := 10) (W := exF) (st := .complete 0) (more := []) (t := fT)
    (fuel := 20) recs_wf rfl (pre_pairs_fit 64) (noise_fits 64) nS_ok nS_fits rfl ⟨by decide, by decide, rfl, by decide⟩ rfl
    (by decide) (fun _ h => nomatch h) (by decide) (by decide)
  refine ⟨c', fin, O1, O2, hrun, hO, ?_, ho.one_handler.1, ho.read⟩
  rw [ho.log]
  show [] ++ (owedPreamble pre 10 recs ++ O1 ++ outOf pre.id (E2E.writesOf exF) ++ O2 ++ epilogue pre.id (.complete 0)) = _
  have h : outOf pre.id (E2E.writesOf exF) =
      [1, 6, 0, 1, 0, 2, 6, 0, 104, 105, 0, 0, 0, 0, 0, 0] ++ [1, 7, 0, 1, 0, 2, 6, 0, 101, 114, 0, 0, 0, 0, 0, 0] := by
    decide +kernel
  rw [h, List.nil_append]; rfl
end Example2

end Fcgi.C07W
