import Fcgi.Proofs.E2EStop
import Fcgi.Props.C07E2E

/-!
# C14(a) — end to end: shutdown requested at an arbitrary poll of a request's life

`runTask fuel c 0 (some j)` raises the stop flag at the start of poll `j` (waking the task if it is
parked by then).  The model consults the flag only in `parse_request` (`select(stop_fut, req_fut)`,
the stop listener first); the handler and `close` never look at it.

`stop_any_poll_single_e2e` — ONE Responder request (`C07E.single_request_e2e`: well-formed preamble
and Stdin stream with any noise, canonical handler, benign transport), the flag raised at EVERY
possible poll `j`.  The task always returns (`RET`, phase `finished`), and

* (0) the flag is seen by the request's own `parse_request` (it is raised at or before the poll in
  which the handler would have been started, and `parse_request` is polled first): NO handler start;
  the write log is a byte prefix of `t.wlog ++` the replies owed for the preamble;
* (1)/(2) the flag is raised while the request is in flight (handler or `close`), or after it is
  completed while the reused connection idles in (or is parked in) the next `parse_request`:
  exactly one handler start, for the request sent; its `readAll` returned the whole content; the
  write log is the COMPLETE log of `single_request_e2e` — preamble replies, stream-noise replies, the
  Stdout records, `[Stdout∅][Stderr∅][EndRequest]` — and nothing else; then the task stops "without
  reading further": of what the request left unread (`U` = the stream's terminating record) the
  transport still holds everything except what was already buffered (`raw ++ input = U`) — the
  `parse_request` that sees the flag performs no transport call at all (`C14E.step_stop`);
* (F) or the run was over before poll `j` (no KEEP_CONN, or end-of-file): the outcome of
  `single_request_e2e`.

`exact`: the complete log is stated up to one corner the stage invariant of `E2EConn` does not
exclude (the flag seen by the reused connection's `parse_request` while it is suspended inside a
`write_all` — it never is, it owes no reply): there `log ++ rest = complete log`; `exact = true`
(log = complete log) in every other case, in particular whenever the flag is raised while the
request is in flight.

Missing relative to the two-request statement (`stop_any_poll_e2e`): the second request of a
closed-loop client (`C07E.k_requests_e2e` runs on the executor `closedLoop`, which feeds the next
wire when the task parks; `runTask … (some j)` and `closedLoop` are different executors, and the
stages of request 2 would need `run_stop` chained across the feed).  For a single connection the
cases (1)–(2) above are exactly "request 2's handler is never started".
-/
namespace Fcgi.C14E
open Fcgi Fcgi.Req Fcgi.Str Fcgi.Async Fcgi.Run Fcgi.Spec Fcgi.E2E Fcgi.C07E

/-- **Shutdown requested at poll `j`, one Responder request.** -/
theorem stop_any_poll_single_e2e {p : Preamble} {recs : List Rec} {content : Bytes} {srecs : List Rec}
    {b mc : Nat} {data : Bytes} {st : ExitStatus} {t : Transport} {fuel : Nat} (j : Nat)
    (hwf : WellFormedPreamble p recs) (hrole : p.role = 1)
    (hpairs : ∀ q ∈ p.pairs, (NV.enc q).length ≤ alignedBufsize b)
    (hnoise : NoiseFits (alignedBufsize b) recs)
    (hs : StreamRecs p.id 5 content srecs) (hsn : NoiseFits (alignedBufsize b) srecs)
    (hin : t.input = serAll recs ++ serAll srecs) (hben : Ben t) (hev : hsCount t.events = 0)
    (hfuel : t.rd.length + t.wr.length + 2 ≤ fuel)
    (hsize : 4 * t.input.length + 17 ≤ 100000)
    (hhf : alignedBufsize b / 32 + wcost data.length + 12 ≤ 1000) :
    ∃ c', runTask fuel (conn0 b mc t data st) 0 (some j) = (c', "RET") ∧ c'.phase = .finished ∧
      (-- (0) seen by the request's own `parse_request`: no handler
       (hsCount c'.env.tr.events = 0 ∧ c'.env.tr.wlog <+: t.wlog ++ owedPreamble p mc recs) ∨
       -- (1)/(2)/(F) the request is completed; no second handler start; nothing read further
       (∃ O₁ O₂ rest, O₁ ++ O₂ = owedStream p.id 5 mc srecs ∧
          c'.env.tr.wlog ++ rest = t.wlog ++ expectedLogN p recs mc data st O₁ O₂ ∧
          hsCount c'.env.tr.events = 1 ∧ startEvent p.request ∈ c'.env.tr.events ∧
          readEvent content ∈ c'.env.tr.events ∧
          (-- stopped by the flag after completing the request
           (∃ exact : Bool, (exact = true → rest = []) ∧
              ∃ raw pad res, raw ++ c'.env.tr.input = (trec 5 p.id pad res).ser) ∨
           -- the run was over before poll `j`
           rest = []))) := by
  obtain ⟨body, pad, res, hpad, hbody, hsrecs⟩ := Str.StreamRecs.split hs
  have hsb : NoiseFits (alignedBufsize b) body := fun r hr => hsn r (by rw [hsrecs]; simp [hr])
  have ok : (cfgR p recs content body pad res b mc data st t.wlog 0 []).OK :=
    ⟨hwf, hpairs, hnoise, .responder hrole hbody hsb hpad rfl rfl rfl rfl rfl rfl hhf⟩
  have hW : t.input = (cfgR p recs content body pad res b mc data st t.wlog 0 []).W := by
    rw [hin, hsrecs, C02.serAll_append, C02.serAll_single]
    rfl
  have hOt : owedStream p.id 5 mc srecs = owedStream p.id 5 mc body := by
    rw [hsrecs, owedStream_append, owedStream_term p.id 5 mc _ rfl, List.append_nil]
  have hstage : Stage (cfgR p recs content body pad res b mc data st t.wlog 0 []) (conn0 b mc t data st) :=
    .start (raw := []) rfl (by show [] ++ t.input = _; rw [hW]; rfl) (Nat.zero_le _) rfl hben rfl rfl rfl hev
  obtain ⟨c', hrun, hout⟩ := run_stop ok j (ans t) (conn0 b mc t data st) 0 fuel hstage rfl (Nat.zero_le _)
    (Nat.le_refl _) (by unfold ans; omega) hsize
  rcases hout with (hearly | ⟨O1, O2, ex, hO, hd⟩) | ⟨O1, O2, hO, hfin⟩
  · exact ⟨c', hrun, hearly.ph, Or.inl ⟨hearly.hs, hearly.log⟩⟩
  · obtain ⟨rest, hl, hex⟩ := hd.log
    rw [L3_eq] at hl
    have hev1 : hsCount c'.env.tr.events = 0 + 1 ∧ hsEvent p.request ∈ c'.env.tr.events := hd.ev
    obtain ⟨raw, hraw⟩ := hd.unread
    exact ⟨c', hrun, hd.ph, Or.inr ⟨O1, O2, rest, hO.trans hOt.symm, hl, hev1.1, hev1.2,
      hd.re _ (by show rEvent content ∈ [rEvent content]; simp),
      Or.inl ⟨ex, hex, raw, pad, res, hraw⟩⟩⟩
  · have hl := hfin.log
    rw [L3_eq] at hl
    have hev1 : hsCount c'.env.tr.events = 0 + 1 ∧ hsEvent p.request ∈ c'.env.tr.events := hfin.ev
    exact ⟨c', hrun, hfin.ph, Or.inr ⟨O1, O2, [], hO.trans hOt.symm, by rw [List.append_nil]; exact hl, hev1.1, hev1.2,
      hfin.re _ (by show rEvent content ∈ [rEvent content]; simp), Or.inr rfl⟩⟩

/-- **An idle connection stops without reading**: the flag raised before the first poll of a
connection that waits for its first request (any input pending, any scripts).  The task returns in
that poll; the only trace event is the poll marker — no transport call (`R…`, `W…`) was made; input
and write log are untouched. -/
theorem stop_before_first_poll_e2e (b mc : Nat) (t : Transport) (scripts : List (List HOp × Bool)) (fuel : Nat) :
    ∃ c', runTask (fuel + 1) (connS b mc t scripts) 0 (some 0) = (c', "RET") ∧ c'.phase = .finished ∧
      c'.env.tr.events = t.events ++ ["|0"] ∧ c'.env.tr.input = t.input ∧ c'.env.tr.wlog = t.wlog ∧
      c'.scripts = scripts := by
  have hp : prePoll (connS b mc t scripts) 0 (some 0) =
      { ({ connS b mc t scripts with stop := true } : Conn) with
        env := ({ tr := { t with hold := false, woken := false } } : Run.Env).ev s!"|{0}" } := by
    rw [prePoll_eq, prePoll_nil _ _ rfl]
    rfl
  have hstep := step_stop (prePoll (connS b mc t scripts) 0 (some 0)) (Req.Parser.new b mc) .start (by rw [hp]; rfl)
    (by rw [hp])
  have hpoll := (Halts.now hstep).pollT (by omega)
  rw [runTask_succ, hpoll]
  refine ⟨_, rfl, rfl, ?_, ?_, ?_, ?_⟩ <;> rw [hp] <;> rfl

/-- Non-vacuity: the run of `C07E.Example` (KEEP_CONN, parks after the request) with the flag raised at
poll 3, and at poll 50 (long after it parked). -/
example (j : Nat) : ∃ c', runTask 20 (conn0 64 10 C07E.Example.exT [104, 105] (.complete 0)) 0 (some j) = (c', "RET") ∧
    c'.phase = .finished ∧ hsCount c'.env.tr.events ≤ 1 := by
  obtain ⟨c', h1, h2, h3⟩ := stop_any_poll_single_e2e (p := C01.Example.pre) (recs := C01.Example.recs)
    (content := [65, 66, 67]) (srecs := C07E.Example.exS) (b := 64) (mc := 10) (data := [104, 105])
    (st := .complete 0) (t := C07E.Example.exT) (fuel := 20) j
    C01.Example.recs_wf rfl (C01.Example.pre_pairs_fit 64) (C01.Example.noise_fits 64) C07E.Example.exS_ok
    (C07E.Example.exS_fits _) rfl C07E.Example.exT_ben rfl (by decide) (by decide +kernel) (by decide)
  refine ⟨c', h1, h2, ?_⟩
  rcases h3 with ⟨h, _⟩ | ⟨_, _, _, _, _, h, _⟩
  · omega
  · omega

end Fcgi.C14E
