import Fcgi.Proofs.E2EStopNF
import Fcgi.Props.C14Unbounded
import Fcgi.Props.C07NoFuel

/-!
# C14 — graceful stop at any poll, without the model-fuel hypothesis

The exact-log stop theorems of `Props/C14Unbounded.lean` minus `hhf : wcost |data| + 12 ≤ 1000` (single request) resp.
over `Sent.OKn` instead of `Sent.OKu` (two requests): the model's handler fuel pays for the script
(`Props/C07ScriptFuel.lean`); engine `Proofs/E2EStopNF.lean` over `Proofs/E2ENoFuel.lean`.  Each `X_nofuel` is stated exactly
like `X_unbounded` minus the cost hypothesis.
-/
namespace Fcgi.C14E
open Fcgi Fcgi.Req Fcgi.Str Fcgi.Async Fcgi.Run Fcgi.Spec Fcgi.E2E Fcgi.C07E Fcgi.C07U

/-- **`stop_any_poll_single_e2e_exact_unbounded` without the model-fuel hypothesis.** -/
theorem stop_any_poll_single_e2e_exact_nofuel {p : Preamble} {recs : List Rec} {content : Bytes} {srecs : List Rec}
    {b mc : Nat} {data : Bytes} {st : ExitStatus} {t : Transport} {fuel : Nat} (j : Nat)
    (hwf : WellFormedPreamble p recs) (hrole : p.role = 1)
    (hpairs : ∀ q ∈ p.pairs, (NV.enc q).length ≤ alignedBufsize b)
    (hnoise : NoiseFits (alignedBufsize b) recs)
    (hs : StreamRecs p.id 5 content srecs) (hsn : NoiseFits (alignedBufsize b) srecs)
    (hin : t.input = serAll recs ++ serAll srecs) (hben : Ben t) (hev : hsCount t.events = 0)
    (hfuel : t.rd.length + t.wr.length + 2 ≤ fuel) :
    ∃ c', runTask fuel (conn0 b mc t data st) 0 (some j) = (c', "RET") ∧ c'.phase = .finished ∧
      (-- (0) seen by the request's own `parse_request`: no handler
       (hsCount c'.env.tr.events = 0 ∧ c'.env.tr.wlog <+: t.wlog ++ owedPreamble p mc recs) ∨
       -- (1)/(2)/(F) the request is completed; no second handler start; nothing read further
       (∃ O₁ O₂, O₁ ++ O₂ = owedStream p.id 5 mc srecs ∧
          c'.env.tr.wlog = t.wlog ++ expectedLogN p recs mc data st O₁ O₂ ∧
          hsCount c'.env.tr.events = 1 ∧ startEvent p.request ∈ c'.env.tr.events ∧
          readEvent content ∈ c'.env.tr.events ∧
          (-- stopped by the flag after completing the request: nothing read further
           (∃ raw pad res, raw ++ c'.env.tr.input = (trec 5 p.id pad res).ser) ∨
           -- the run was over before poll `j` (no KEEP_CONN, or end-of-file)
           p.flags.toNat % 2 = 0 ∨ c'.env.tr.endMode = .eof))) := by
  obtain ⟨body, pad, res, hpad, hbody, hsrecs⟩ := Str.StreamRecs.split hs
  have hsb : NoiseFits (alignedBufsize b) body := fun r hr => hsn r (by rw [hsrecs]; simp [hr])
  have ok : (cfgR p recs content body pad res b mc data st t.wlog 0 []).OKn :=
    ⟨hwf, hpairs, hnoise, .responderU hrole hbody hsb hpad rfl rfl rfl rfl rfl rfl⟩
  have hW : t.input = (cfgR p recs content body pad res b mc data st t.wlog 0 []).W := by
    rw [hin, hsrecs, C02.serAll_append, C02.serAll_single]
    rfl
  have hOt : owedStream p.id 5 mc srecs = owedStream p.id 5 mc body := by
    rw [hsrecs, owedStream_append, owedStream_term p.id 5 mc _ rfl, List.append_nil]
  have hstage : Stage (cfgR p recs content body pad res b mc data st t.wlog 0 []) (conn0 b mc t data st) :=
    .start (raw := []) rfl (by show [] ++ t.input = _; rw [hW]; rfl) (Nat.zero_le _) rfl hben rfl rfl rfl hev
  obtain ⟨c', hrun, hout⟩ := run_stopXN' ok j (ans t) (conn0 b mc t data st) 0 fuel hstage rfl (Nat.zero_le _)
    (Nat.le_refl _) (by unfold ans; omega)
  rcases hout with (hearly | ⟨O1, O2, hO, hd⟩) | ⟨O1, O2, hO, hfin⟩
  · exact ⟨c', hrun, hearly.ph, Or.inl ⟨hearly.hs, hearly.log⟩⟩
  · have hl := hd.log
    rw [L3_eq] at hl
    have hev1 : hsCount c'.env.tr.events = 0 + 1 ∧ hsEvent p.request ∈ c'.env.tr.events := hd.ev
    obtain ⟨raw, hraw⟩ := hd.unread
    exact ⟨c', hrun, hd.ph, Or.inr ⟨O1, O2, hO.trans hOt.symm, hl, hev1.1, hev1.2,
      hd.re _ (by show rEvent content ∈ [rEvent content]; simp),
      Or.inl ⟨raw, pad, res, hraw⟩⟩⟩
  · have hl := hfin.log
    rw [L3_eq] at hl
    have hev1 : hsCount c'.env.tr.events = 0 + 1 ∧ hsEvent p.request ∈ c'.env.tr.events := hfin.ev
    exact ⟨c', hrun, hfin.ph, Or.inr ⟨O1, O2, hO.trans hOt.symm, hl, hev1.1, hev1.2,
      hfin.re _ (by show rEvent content ∈ [rEvent content]; simp),
      Or.inr (hfin.why.imp id (fun h => h.2))⟩⟩

/-- **`stop_any_poll_e2e_exact_unbounded` without the model-fuel hypothesis.** -/
theorem stop_any_poll_e2e_exact_nofuel {b mc : Nat} (q₁ q₂ : Sent) {t : Transport} {fuel : Nat} (j : Nat)
    (hok₁ : q₁.OKn b) (hok₂ : q₂.OKn b) (hkeep : q₁.p.flags.toNat % 2 = 1)
    (hin : t.input = q₁.wire) (hben : Ben t) (hev : hsCount t.events = 0)
    (hfuel : t.rd.length + t.wr.length + 3 ≤ fuel) :
    ∃ c', runFeed fuel (connK b mc t [q₁, q₂]) 0 (some j) [q₂.wire] = (c', "RET") ∧ c'.phase = .finished ∧
      (-- the flag is seen before the client has sent `q₂`
       SentStopX mc q₁ t.wlog 0 [q₂.handler] c' ∨
       -- `q₂` was sent: the complete answer to `q₁` is in the log
       ∃ O₁ O₂, O₁ ++ O₂ = q₁.owed mc ∧
         (t.wlog ++ expectedLogN q₁.p q₁.recs mc q₁.data q₁.st O₁ O₂) <+: c'.env.tr.wlog ∧
         SentStopX mc q₂ (t.wlog ++ expectedLogN q₁.p q₁.recs mc q₁.data q₁.st O₁ O₂) 1 [] c') := by
  have hstage : Stage (q₁.cfg b mc t.wlog 0 [q₂.handler]) (connK b mc t [q₁, q₂]) :=
    .start (raw := [])
      (by show Phase.parseReq (Req.Parser.new b mc) .start =
            .parseReq ⟨alignedBufsize (q₁.cfg b mc t.wlog 0 [q₂.handler]).b, [], .header,
              (q₁.cfg b mc t.wlog 0 [q₂.handler]).mc⟩ .start
          rw [cfg_b, cfg_mc]; rfl)
      (by show [] ++ t.input = _; rw [cfg_W, hin]; rfl) (Nat.zero_le _) (cfg_L0 ..).symm hben rfl
      (by rw [cfg_more, cfg_hscript]; rfl) rfl (by rw [cfg_hs0]; exact hev)
  have hl : Linked (q₁.cfg b mc t.wlog 0 [q₂.handler]) (q₂.cfg b mc [] 1 []) :=
    ⟨by rw [cfg_b, cfg_b], by rw [cfg_mc, cfg_mc], by rw [cfg_hs0, cfg_hs0],
      by rw [cfg_more, cfg_more, cfg_hscript], by rw [cfg_p]; exact hkeep⟩
  obtain ⟨c', hrun, hout⟩ := run_stop2XN' (cfg_ok_n hok₁ t.wlog 0 [q₂.handler]) (cfg_ok_n hok₂ [] 1 []) hl j
    (c := connK b mc t [q₁, q₂]) (n := 0) (fuel := fuel) hstage rfl (Nat.zero_le _)
    (by show ans t + 3 ≤ fuel; unfold ans; omega)
  rw [cfg_W] at hrun
  rcases hout with h1 | ⟨O1, O2, hO, hpre, h2⟩
  · obtain ⟨hph, hs⟩ := sentStopX_of h1
    exact ⟨c', hrun, hph, Or.inl hs⟩
  · rw [cfg_at] at h2
    rw [cfg_L3] at hpre h2
    obtain ⟨hph, hs⟩ := sentStopX_of h2
    exact ⟨c', hrun, hph, Or.inr ⟨O1, O2, by rw [← cfg_Ot b mc t.wlog 0 [q₂.handler] q₁]; exact hO, hpre, hs⟩⟩

/-- **`stop_any_poll_e2e_both_unbounded` without the model-fuel hypothesis.** -/
theorem stop_any_poll_e2e_both_nofuel {b mc : Nat} (q₁ q₂ : Sent) {t : Transport} {fuel : Nat} (j : Nat)
    (hok₁ : q₁.OKn b) (hok₂ : q₂.OKn b) (hkeep : q₁.p.flags.toNat % 2 = 1)
    (hin : t.input = q₁.wire) (hben : Ben t) (hev : hsCount t.events = 0)
    (hfuel : t.rd.length + t.wr.length + 3 ≤ fuel) :
    ∃ c', runFeed fuel (connK b mc t [q₁, q₂]) 0 (some j) [q₂.wire] = (c', "RET") ∧
      (hsCount c'.env.tr.events = 2 → ∃ O₁ O₂ P₁ P₂, O₁ ++ O₂ = q₁.owed mc ∧ P₁ ++ P₂ = q₂.owed mc ∧
        c'.env.tr.wlog = t.wlog ++ expectedLogN q₁.p q₁.recs mc q₁.data q₁.st O₁ O₂ ++
          expectedLogN q₂.p q₂.recs mc q₂.data q₂.st P₁ P₂) := by
  obtain ⟨c', hrun, _, hout⟩ := stop_any_poll_e2e_exact_nofuel (mc := mc) q₁ q₂ j hok₁ hok₂ hkeep hin hben hev hfuel
  refine ⟨c', hrun, fun h2 => ?_⟩
  rcases hout with (⟨h, _⟩ | ⟨_, _, _, _, h, _⟩) | ⟨O1, O2, hO, _, (⟨h, _⟩ | ⟨P1, P2, hP, hl, _⟩)⟩
  · omega
  · omega
  · omega
  · exact ⟨O1, O2, P1, P2, hO, hP, hl⟩

/-! ## Non-vacuity: a handler that writes 70 000 000 bytes, the stop flag raised before any poll -/
namespace ExampleNoFuel14
open Fcgi.C01.Example Fcgi.C07E.Example Fcgi.C07E.ExampleNoFuel

example (j : Nat) : ¬ (wcost bigData.length + 12 ≤ 1000) ∧
    ∃ c', runTask 20 (conn0 64 10 exT bigData (.complete 0)) 0 (some j) = (c', "RET") ∧
      (hsCount c'.env.tr.events = 1 → ∃ O₁ O₂, c'.env.tr.wlog =
        [] ++ expectedLogN pre recs 10 bigData (.complete 0) O₁ O₂) := by
  refine ⟨old_hhf_fails, ?_⟩
  obtain ⟨c', h1, _, h3⟩ := stop_any_poll_single_e2e_exact_nofuel (p := pre) (recs := recs)
    (content := [65, 66, 67]) (srecs := exS) (b := 64) (mc := 10) (data := bigData)
    (st := .complete 0) (t := exT) (fuel := 20) j
    recs_wf rfl (pre_pairs_fit 64) (noise_fits 64) exS_ok (exS_fits _) rfl exT_ben rfl (by decide)
  refine ⟨c', h1, fun h => ?_⟩
  rcases h3 with ⟨h0, _⟩ | ⟨O1, O2, _, hl, _⟩
  · omega
  · exact ⟨O1, O2, hl⟩

/-- two requests, the first with the huge output (`qHuge`: `Sent.OKn`, not `Sent.OKu`) -/
example (j : Nat) : ∃ c', runFeed 20 (connK 64 10 { exT2 with input := qHuge.wire } [qHuge, q2]) 0 (some j) [q2.wire] =
    (c', "RET") := by
  obtain ⟨c', h1, _⟩ := stop_any_poll_e2e_both_nofuel (b := 64) (mc := 10) qHuge q2
    (t := { exT2 with input := qHuge.wire }) (fuel := 20) j (qHuge_okn _) (q2_okn _)
    (by decide) rfl ⟨by decide, by decide, rfl, by decide⟩ rfl (by decide)
  exact ⟨c', h1⟩

end ExampleNoFuel14

end Fcgi.C14E
