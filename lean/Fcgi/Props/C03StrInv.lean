import Fcgi.Proofs.StrHostileOps
import Fcgi.Proofs.StrDecomp
import Fcgi.Props.C02
/-!
# C03, stream-parser half — chunk invariance on ARBITRARY (hostile) input

Over the literal model of `parser/stream.rs` (`Model/StreamParser.lean`).  `Props/C02.lean` covers
well-formed traffic only; here the byte string is arbitrary: own-id records of an earlier stream,
own-id `AbortRequest`, all 256 type values, headers with a version byte ≠ 1, truncated tails,
trailing garbage.

**Reference** (`Proofs/StrDecomp.lean`): every byte string `w` is uniquely
`serAll rs ++ tail` (`decomposition_exists`, `decomposition_unique`); `refRun E rs` folds over the
records looking only at type / id / emptiness of the content (`rclass`) and `Spec.owed`;
`refTail E tail` adds the unfinished tail; `refWire E w` is both combined:
`content` (stream bytes), `out` (replies), `verdict` (`more` / `eos` / `err e`), `unread`.

**Theorems** (for every start state `Start E p0`: stream `E.s` of request `E.id` active, record
boundary; every legal history `ops` of `parse` (any input chunking, any `dest`), `consume_stream`,
`compress`, `consume_output`):

* `prefix_sim` — whatever prefix of `w` was fed: no panic, the stream bytes made available and
  the replies queued are prefixes of `(refWire E w).content` / `.out`;
* `err_only_where_ref_says` (incl. `prefix_on_error`), `end_only_where_ref_says` — a call returns
  `Err e` / reports `stream_end` only if the reference verdict is `err e` / `eos`, and then all
  replies were generated, the unread remainder is the reference's, and what was delivered before
  is a prefix of (for `stream_end`: equal to) the reference content;
* `drained_outcome` — once everything fed was processed (`Drained`: a further `parse(0, None)`
  changes nothing; holds after every `parse(_, None)`, `drained_after_parse_none`), replies,
  unread remainder and the report of the next call ARE the reference's;
* `str_chunk_invariance` (= `str_chunk_invariance_partial`) — two drained histories over the same
  bytes agree on all of that, whatever the chunking / `dest` sizes / interleaving; they agree on
  the stream bytes made available unless the first call that returned `Err` was one into a `dest`
  (`FirstErrInternal`), and on the reported ones whenever the outcome is not a fatal error;
* `err_in_records`, `end_in_records` — the same two in terms of `refRun`'s stop index and the tail;
* `str_chunk_invariance_full_false` — the exception is real: `parse` returns
  `Result<Status, Error>`, so the bytes a failing call wrote into `dest` are not reported, and how
  many these are depends on the chunking (witness: `Stdin("ABC")` followed by `AbortRequest`);
* `fatal_sticky` — re-export of `C03S.err_sticky`.

Restriction kept visible: histories without `set_stream` (`NoSet`), active stream `some s`.

**How `refRun` treats a well-formed record `r`** (request `E.id`, role `E.role`, active stream `E.s`;
`rclass`), to be cross-checked against `parse_head` in `stream.rs`:

| record                                                              | class       | effect |
|---------------------------------------------------------------------|-------------|--------|
| type `E.s`, id `E.id`, content non-empty                            | `data`      | content appended |
| type `E.s`, id `E.id`, content empty                                | `endStream` | stop `endOfStream k` (header held back) |
| Stdin/Data ≠ `E.s`, id `E.id`, LATER in the role's stream order     | `endStream` | stop `endOfStream k` |
| Stdin/Data ≠ `E.s`, id `E.id`, not later (an EARLIER stream, or a stream the role has not) | `noise` | skipped, no reply |
| AbortRequest, id `E.id`                                             | `abort`     | stop `abort k` = `Err(AbortRequest)`, header left in place |
| type byte not in 1..11 (any id)                                     | `noise`     | reply `UnknownType(type)` to that id, body skipped |
| BeginRequest, id ≠ `E.id`                                           | `noise`     | reply `EndRequest(CantMpxConn)` to that id |
| GetValues, id 0, content non-empty                                  | `noise`     | reply `GetValuesResult` (known variables of the body) |
| anything else (Stdin/Data/AbortRequest of other ids, Params, …)     | `noise`     | skipped, no reply (`Spec.owed = []`) |

Tail (`refTail`): fewer than 8 bytes → nothing, wait; version byte `v ≠ 1` → `Err(UnknownVersion(v))`,
header left in place; version-1 header of an incomplete record → classified like a record's header
(`hclass`): stop in front of it, or the payload bytes that are there count (stream data; the reply
triggered by the header; the `GetValuesResult` once the body is complete).
-/
namespace Fcgi.C03SI
open Fcgi Fcgi.Str Fcgi.Spec
open Fcgi.Req (Request PErr)

/-! ## Hypotheses -/

/-- The parser belongs to configuration `E` (request id, role, active stream `E.s`, `max_conns`)
and stands at a record boundary.  (`state`, `parsed`, `output`, the buffer geometry are arbitrary.) -/
structure Start (E : Cfg) (p0 : Parser) : Prop where
  inv : SInv p0
  mtch : Match E p0
  pay : p0.pay = 0
  pad : p0.pad = 0

/-- The `Start` of `Props/C02.lean` is an instance. -/
theorem start_of_C02 {p0 : Parser} {id s mc : Nat} (h : C02.Start p0 id s mc) :
    Start ⟨id, p0.request.role, s, mc⟩ p0 :=
  ⟨h.inv, ⟨h.id, rfl, h.strm, h.mc, h.mem⟩, h.pay, h.pad⟩

/-- `Parser::from_parser` / `Parser::new` for a Responder or Filter request (`Stdin` active). -/
theorem start_fresh (cap : Nat) (req : Request) (input : Bytes) (mc : Nat)
    (hlen : input.length ≤ cap) (hid : req.id < 65536) (hrole : req.role = 1 ∨ req.role = 3) :
    Start ⟨req.id, req.role, 5, mc⟩ (Parser.fromParser cap req input mc) :=
  start_of_C02 (C02.start_fresh cap req input mc hlen hid hrole)

theorem rem_start {E : Cfg} {p0 : Parser} (h0 : Start E p0) (fut : Bytes) :
    Rem E p0 fut = refWire E (p0.raw ++ fut) := by
  unfold Rem
  rw [h0.pay, h0.pad]
  exact ref_eq_refWire E _ _

/-! ## 1–2. The reference is a function of the bytes -/

/-- **Decomposition, existence**: `w = serAll rs ++ tail`, all `rs` well-formed version-1 records,
`tail` not starting with a complete version-1 record. -/
theorem decomposition_exists (w : Bytes) :
    ∃ rs tail, w = serAll rs ++ tail ∧ (∀ r ∈ rs, r.WF) ∧ nextRec tail = none :=
  ⟨(decomp w).1, (decomp w).2, decomp_spec w⟩

/-- The tail condition spelled out: fewer than 8 bytes, or a version byte ≠ 1, or a version-1
header whose payload + padding is incomplete. -/
theorem tail_condition (tail : Bytes) :
    nextRec tail = none ↔ tail.length < 8 ∨
      ∃ b0 b1 b2 b3 b4 b5 b6 b7 rest, tail = b0 :: b1 :: b2 :: b3 :: b4 :: b5 :: b6 :: b7 :: rest ∧
        (b0.toNat ≠ 1 ∨ rest.length < be16 b4 b5 + b6.toNat) :=
  nextRec_none_iff tail

/-- **Decomposition, uniqueness.** -/
theorem decomposition_unique {rs rs' : List Rec} {t t' : Bytes} (hwf : ∀ r ∈ rs, r.WF)
    (hwf' : ∀ r ∈ rs', r.WF) (ht : nextRec t = none) (ht' : nextRec t' = none)
    (h : serAll rs ++ t = serAll rs' ++ t') : rs = rs' ∧ t = t' :=
  decomp_unique hwf hwf' ht ht' h

/-- Hence the reference outcome can be read off ANY such presentation of the bytes. -/
theorem refWire_presentation (E : Cfg) {rs : List Rec} {tail : Bytes} (hwf : ∀ r ∈ rs, r.WF)
    (ht : nextRec tail = none) :
    refWire E (serAll rs ++ tail) = glue (refRun E rs) rs tail (refTail E tail) :=
  refWire_of_presentation E hwf ht

/-- On the well-formed traffic of C02 the reference is the C02 specification: the stream content,
exactly `owedStream`, end of stream in front of the terminating record. -/
theorem refWire_wellformed (E : Cfg) (hs : E.s = 5 ∨ E.s = 8) (hid : E.id < 65536)
    {content : Bytes} {body : List Rec} (hb : Body E.id E.s content body) (pad : Bytes)
    (res : UInt8) (hp : pad.length < 256) (tail : Bytes) (ht : nextRec tail = none) :
    refWire E (serAll (body ++ [{ rtype := UInt8.ofNat E.s, id := E.id, content := [], pad := pad,
                                  reserved := res }]) ++ tail) =
      ⟨content, owedStream E.id E.s E.mc body, .eos,
        ({ rtype := UInt8.ofNat E.s, id := E.id, content := [], pad := pad, reserved := res } : Rec).ser
          ++ tail⟩ := by
  have hsn : (UInt8.ofNat E.s).toNat = E.s := toNat_ofNat_lt (by omega)
  have hwfb : ∀ {c : Bytes} {b : List Rec}, Body E.id E.s c b → ∀ r ∈ b, r.WF := by
    intro c b hb'
    induction hb' with
    | nil => intro r hr; cases hr
    | noise r hn t ih =>
      intro r' hr'
      simp only [List.mem_cons] at hr'
      rcases hr' with rfl | hr'
      · exact hn.1
      · exact ih r' hr'
    | chunk c pad res hc hp t ih =>
      intro r' hr'
      simp only [List.mem_cons] at hr'
      rcases hr' with rfl | hr'
      · exact ⟨hid, hc.2, hp⟩
      · exact ih r' hr'
  have hrun : ∀ {c : Bytes} {b : List Rec}, Body E.id E.s c b →
      refRun E (b ++ [{ rtype := UInt8.ofNat E.s, id := E.id, content := [], pad := pad,
                        reserved := res }]) = ⟨c, owedStream E.id E.s E.mc b, .endOfStream b.length⟩ := by
    intro c b hb'
    have hi : RT.isInputStream E.s = true := by rcases hs with h | h <;> rw [h] <;> rfl
    induction hb' with
    | nil => simp [refRun, rclass, hsn, hi, owedStream]
    | noise r hn t ih =>
      simp only [List.cons_append, refRun, rclass_noise hn, ih, owedStream_cons, Stop.succ,
        List.length_cons]
      rw [if_neg]
      intro hh
      simp only [Bool.and_eq_true, beq_iff_eq] at hh
      exact hn.2 ⟨hh.2, by simp only [RT.stdin, RT.data]; omega⟩
    | chunk c pad' res' hc hp' t ih =>
      have hcl : rclass E { rtype := UInt8.ofNat E.s, id := E.id, content := c, pad := pad',
                            reserved := res' } = .data := by
        have hne : c ≠ [] := fun h => by rw [h] at hc; simp at hc
        simp [rclass, hsn, hi, hne]
      simp only [List.cons_append, refRun, hcl, ih, owedStream_cons, Stop.succ, hsn,
        List.length_cons]
      simp
  rw [refWire_of_presentation E _ ht, hrun hb]
  · simp [glue, serAll]
  · intro r hr
    simp only [List.mem_append, List.mem_singleton] at hr
    rcases hr with hr | rfl
    · exact hwfb hb r hr
    · exact ⟨hid, by simp, hp⟩

/-! ## 3. Safety: prefixes -/

/-- **Prefix simulation.**  Whatever prefix of `w` has been fed through whatever legal history:
no call panics; the stream bytes made available (and the reported ones) are a prefix of the
reference content of `w`; the replies queued are a prefix of the reference replies. -/
theorem prefix_sim {E : Cfg} {p0 : Parser} (h0 : Start E p0) (ops : List Op)
    (hl : LegalAll p0 ops) (hns : NoSet ops) (w : Bytes) (hfed : p0.raw ++ fedBytes ops <+: w) :
    ¬ PanicsAny p0 ops ∧ availOps p0 ops <+: (refWire E w).content ∧
      deliveredOps p0 ops <+: (refWire E w).content ∧
      C03S.grownAll p0 ops <+: (refWire E w).out := by
  obtain ⟨x, hx⟩ := hfed
  obtain ⟨lost, -, -, hc, ho, -, -, -⟩ := ops_ref (E := E) (x := x) ops p0 h0.mtch h0.inv hl hns
  rw [rem_start h0, ← List.append_assoc, hx] at hc ho
  have ha : availOps p0 ops <+: (refWire E w).content :=
    ⟨lost ++ (Rem E (applyOps p0 ops) x).content, by rw [← hc]; simp [List.append_assoc]⟩
  exact ⟨(trace_safe h0.inv hl).2, ha, (delivered_le_avail h0.inv hl).trans ha, ⟨_, ho⟩⟩

/-- Facts about a history ending in a `parse` call (shared by the next two theorems). -/
theorem last_call {E : Cfg} {p0 : Parser} (h0 : Start E p0) (ops : List Op) (new : Bytes)
    (dest : Option Nat) (hl : LegalAll p0 (ops ++ [.parse new dest])) (hns : NoSet ops) (x : Bytes) :
    ∃ lost,
      availOps p0 (ops ++ [.parse new dest]) ++ lost ++
          (Rem E ((applyOps p0 ops).parse new dest).1 x).content =
        (refWire E (p0.raw ++ fedBytes (ops ++ [.parse new dest]) ++ x)).content ∧
      C03S.grownAll p0 (ops ++ [.parse new dest]) ++
          (Rem E ((applyOps p0 ops).parse new dest).1 x).out =
        (refWire E (p0.raw ++ fedBytes (ops ++ [.parse new dest]) ++ x)).out ∧
      (Rem E ((applyOps p0 ops).parse new dest).1 x).verdict =
        (refWire E (p0.raw ++ fedBytes (ops ++ [.parse new dest]) ++ x)).verdict ∧
      (Rem E ((applyOps p0 ops).parse new dest).1 x).unread =
        (refWire E (p0.raw ++ fedBytes (ops ++ [.parse new dest]) ++ x)).unread ∧
      (FirstErrInternal p0 (ops ++ [.parse new dest]) → lost = []) ∧
      Match E ((applyOps p0 ops).parse new dest).1 ∧
      (match ((applyOps p0 ops).parse new dest).2 with
       | .ok st => st.streamEnd = true →
           Rem E ((applyOps p0 ops).parse new dest).1 x =
             ⟨[], [], .eos, ((applyOps p0 ops).parse new dest).1.raw ++ x⟩
       | .err e => Rem E ((applyOps p0 ops).parse new dest).1 x =
             ⟨[], [], .err e, ((applyOps p0 ops).parse new dest).1.raw ++ x⟩
       | .panic _ => False) := by
  have hns' : NoSet (ops ++ [.parse new dest]) :=
    C02.NoSet_append.2 ⟨hns, C02.NoSet_parse new dest⟩
  obtain ⟨lost, m, -, hc, ho, hv, hu, hn⟩ :=
    ops_ref (E := E) (x := x) (ops ++ [.parse new dest]) p0 h0.mtch h0.inv hl hns'
  have hap : applyOps p0 (ops ++ [.parse new dest]) = ((applyOps p0 ops).parse new dest).1 := by
    rw [applyOps_append]; rfl
  rw [rem_start h0, ← List.append_assoc, hap] at hc ho hv hu
  rw [hap] at m
  refine ⟨lost, hc, ho, hv, hu, hn, m, ?_⟩
  obtain ⟨hl1, hl2, -⟩ := C02.LegalAll_append.1 hl
  obtain ⟨_, m1, i1, -⟩ := ops_ref (E := E) (x := new ++ x) ops p0 h0.mtch h0.inv hl1 hns
  obtain ⟨_, -, -, -, -, -, -, mt⟩ :=
    parse_ri (E := E) (fut := x) (new := new) (dest := dest) m1 i1 hl2.1 hl2.2
  revert mt
  generalize (applyOps p0 ops).parse new dest = out
  obtain ⟨q', pr⟩ := out
  cases pr with
  | ok st =>
    rintro ⟨-, h⟩ hs
    obtain ⟨a, b, c⟩ := h hs
    dsimp only at a b c ⊢
    simp only [Rem, a, b]
    exact ref_atStop c _ _
  | err e =>
    rintro ⟨a, b, c⟩
    dsimp only at a b c ⊢
    simp only [Rem, a, b]
    exact ref_atStop c _ _
  | panic s => exact id

/-- **An `Err` only where the reference says so** (and `prefix_on_error`).  If the last call of a
legal history returns `Err e`, then — for every continuation `x` of the bytes fed — the reference
verdict is `err e` (`AbortRequest` in front of that record, `UnknownVersion v` for that header);
all reference replies have been generated; the parser's unread remainder is the reference's; and
the stream bytes reported before the failing call are a prefix of the reference content.  If the
first failing call is one into the internal buffer, the available stream bytes are exactly the
reference content. -/
theorem err_only_where_ref_says {E : Cfg} {p0 : Parser} (h0 : Start E p0) (ops : List Op)
    (new : Bytes) (dest : Option Nat) (hl : LegalAll p0 (ops ++ [.parse new dest])) (hns : NoSet ops)
    {q' : Parser} {e : PErr} (hp : (applyOps p0 ops).parse new dest = (q', .err e)) (x : Bytes) :
    (refWire E (p0.raw ++ fedBytes (ops ++ [.parse new dest]) ++ x)).verdict = .err e ∧
    C03S.grownAll p0 (ops ++ [.parse new dest]) =
      (refWire E (p0.raw ++ fedBytes (ops ++ [.parse new dest]) ++ x)).out ∧
    q'.raw ++ x = (refWire E (p0.raw ++ fedBytes (ops ++ [.parse new dest]) ++ x)).unread ∧
    deliveredOps p0 ops <+:
      (refWire E (p0.raw ++ fedBytes (ops ++ [.parse new dest]) ++ x)).content ∧
    (FirstErrInternal p0 (ops ++ [.parse new dest]) → availOps p0 (ops ++ [.parse new dest]) =
      (refWire E (p0.raw ++ fedBytes (ops ++ [.parse new dest]) ++ x)).content) := by
  obtain ⟨lost, hc, ho, hv, hu, hn, -, mt⟩ := last_call h0 ops new dest hl hns x
  rw [hp] at hc ho hv hu mt
  simp only at mt hc ho hv hu
  rw [mt] at hc ho hv hu
  simp only [List.append_nil] at hc ho
  refine ⟨hv.symm, ho, hu, ?_, fun h => ?_⟩
  · have hd : deliveredOps p0 (ops ++ [.parse new dest]) = deliveredOps p0 ops := by
      rw [deliveredOps_append]
      simp [deliveredOps, deliveredOp, hp]
    rw [← hd]
    exact (delivered_le_avail h0.inv hl).trans ⟨lost, hc⟩
  · rw [← hc, hn h, List.append_nil]

/-- `prefix_on_error`, in the property's words: when a call fails, the stream bytes reported
before it are a prefix of the stream's true content. -/
theorem prefix_on_error {E : Cfg} {p0 : Parser} (h0 : Start E p0) (ops : List Op)
    (new : Bytes) (dest : Option Nat) (hl : LegalAll p0 (ops ++ [.parse new dest])) (hns : NoSet ops)
    {q' : Parser} {e : PErr} (hp : (applyOps p0 ops).parse new dest = (q', .err e)) (x : Bytes) :
    deliveredOps p0 ops <+:
      (refWire E (p0.raw ++ fedBytes (ops ++ [.parse new dest]) ++ x)).content :=
  (err_only_where_ref_says h0 ops new dest hl hns hp x).2.2.2.1

/-- **`stream_end` only where the reference says so.**  If the last call of a legal history
reports `stream_end`, then the reference verdict is `eos`, and everything is exact: the stream
bytes reported so far ARE the reference content, the replies generated ARE the reference replies,
the unread remainder is the reference's (the held-back header first). -/
theorem end_only_where_ref_says {E : Cfg} {p0 : Parser} (h0 : Start E p0) (ops : List Op)
    (new : Bytes) (dest : Option Nat) (hl : LegalAll p0 (ops ++ [.parse new dest])) (hns : NoSet ops)
    {q' : Parser} {st : Status} (hp : (applyOps p0 ops).parse new dest = (q', .ok st))
    (hse : st.streamEnd = true) (x : Bytes) :
    (refWire E (p0.raw ++ fedBytes (ops ++ [.parse new dest]) ++ x)).verdict = .eos ∧
    C03S.grownAll p0 (ops ++ [.parse new dest]) =
      (refWire E (p0.raw ++ fedBytes (ops ++ [.parse new dest]) ++ x)).out ∧
    q'.raw ++ x = (refWire E (p0.raw ++ fedBytes (ops ++ [.parse new dest]) ++ x)).unread ∧
    deliveredOps p0 (ops ++ [.parse new dest]) =
      (refWire E (p0.raw ++ fedBytes (ops ++ [.parse new dest]) ++ x)).content := by
  obtain ⟨lost, hc, ho, hv, hu, hn, -, mt⟩ := last_call h0 ops new dest hl hns x
  obtain ⟨hl1, hl2, -⟩ := C02.LegalAll_append.1 hl
  -- no earlier call failed, and this one did not
  have hef : ErrFree p0 (ops ++ [.parse new dest]) := by
    have h1 : ErrFree p0 ops :=
      errFree_of_later_ok h0.inv hl1 hl2.1 hl2.2 (by intro e; rw [hp]; simp)
    have : ∀ {ops : List Op} {p : Parser}, ErrFree p ops →
        (∀ e, ((applyOps p ops).parse new dest).2 ≠ .err e) →
        ErrFree p (ops ++ [.parse new dest]) := by
      intro ops
      induction ops with
      | nil => intro p _ h; exact ⟨h, trivial⟩
      | cons op t ih => intro p h1 h2; exact ⟨h1.1, ih h1.2 h2⟩
    exact this h1 (by intro e; rw [hp]; simp)
  rw [hp] at hc ho hv hu mt
  simp only at mt hc ho hv hu
  rw [mt hse] at hc ho hv hu
  simp only [List.append_nil] at hc ho
  refine ⟨hv.symm, ho, hu, ?_⟩
  rw [delivered_eq_avail h0.inv hl hef, ← hc, hn hef.firstErrInternal, List.append_nil]

/-! ### The same in terms of records and tail -/

/-- **Where an `Err` comes from.**  If a call returns `Err e`, then with `(rs, tail)` the
decomposition of the bytes (fed so far, followed by any `x`): either `refRun` stops with
`abort k` — `e = AbortRequest`, and the unread remainder begins with record `k` —, or no record
stops the parser and the tail begins with a fatal header — version byte `v ≠ 1` and
`e = UnknownVersion(v)`, or a (truncated) `AbortRequest` header of this request — which is the
unread remainder. -/
theorem err_in_records {E : Cfg} {p0 : Parser} (h0 : Start E p0) (ops : List Op)
    (new : Bytes) (dest : Option Nat) (hl : LegalAll p0 (ops ++ [.parse new dest])) (hns : NoSet ops)
    {q' : Parser} {e : PErr} (hp : (applyOps p0 ops).parse new dest = (q', .err e)) (x w : Bytes)
    (hw : w = p0.raw ++ fedBytes (ops ++ [.parse new dest]) ++ x) :
    (∃ k, (refRun E (decomp w).1).stop = .abort k ∧ e = .abortRequest ∧
      q'.raw ++ x = serAll ((decomp w).1.drop k) ++ (decomp w).2) ∨
    ((refRun E (decomp w).1).stop = .ranOut ∧ q'.raw ++ x = (decomp w).2 ∧
      ∃ b0 b1 b2 b3 b4 b5 b6 b7 rest,
        (decomp w).2 = b0 :: b1 :: b2 :: b3 :: b4 :: b5 :: b6 :: b7 :: rest ∧
        ((b0.toNat ≠ 1 ∧ e = .unknownVersion b0) ∨
         (b0.toNat = 1 ∧ b1.toNat = RT.abortRequest ∧ be16 b2 b3 = E.id ∧ e = .abortRequest))) := by
  obtain ⟨hv, -, hu, -, -⟩ := err_only_where_ref_says h0 ops new dest hl hns hp x
  rw [← hw] at hv hu
  rcases verdict_in_records E w (by rw [hv]; exact fun h => by cases h) with
    ⟨k, (⟨_, h2⟩ | ⟨h1, h2⟩), h3⟩ | ⟨h1, h2, h3⟩
  · rw [hv] at h2; cases h2
  · rw [hv] at h2
    cases h2
    exact Or.inl ⟨k, h1, rfl, hu.trans h3⟩
  · rw [hv] at h2
    exact Or.inr ⟨h1, hu.trans h3, refTail_err h2⟩

/-- **Where `stream_end` comes from**: `refRun` stops with `endOfStream k` (the unread remainder
begins with record `k`: the stream's empty record or a record of a later stream), or no record
stops the parser and the tail begins with such a record's header (the record itself truncated). -/
theorem end_in_records {E : Cfg} {p0 : Parser} (h0 : Start E p0) (ops : List Op)
    (new : Bytes) (dest : Option Nat) (hl : LegalAll p0 (ops ++ [.parse new dest])) (hns : NoSet ops)
    {q' : Parser} {st : Status} (hp : (applyOps p0 ops).parse new dest = (q', .ok st))
    (hse : st.streamEnd = true) (x w : Bytes)
    (hw : w = p0.raw ++ fedBytes (ops ++ [.parse new dest]) ++ x) :
    (∃ k, (refRun E (decomp w).1).stop = .endOfStream k ∧
      q'.raw ++ x = serAll ((decomp w).1.drop k) ++ (decomp w).2) ∨
    ((refRun E (decomp w).1).stop = .ranOut ∧ q'.raw ++ x = (decomp w).2 ∧
      (refTail E (decomp w).2).verdict = .eos) := by
  obtain ⟨hv, -, hu, -⟩ := end_only_where_ref_says h0 ops new dest hl hns hp hse x
  rw [← hw] at hv hu
  rcases verdict_in_records E w (by rw [hv]; exact fun h => by cases h) with
    ⟨k, (⟨h1, _⟩ | ⟨_, h2⟩), h3⟩ | ⟨h1, h2, h3⟩
  · exact Or.inl ⟨k, h1, hu.trans h3⟩
  · rw [hv] at h2; cases h2
  · rw [hv] at h2
    exact Or.inr ⟨h1, hu.trans h3, h2⟩

/-! ## 3'. Exactness at drained states; chunk invariance -/

/-- After every legal `parse(_, None)` the parser is drained. -/
theorem drained_after_parse_none {E : Cfg} {p0 : Parser} (h0 : Start E p0) (ops : List Op)
    (new : Bytes) (hl : LegalAll p0 (ops ++ [.parse new none])) (hns : NoSet ops) :
    Drained (applyOps p0 (ops ++ [.parse new none])) := by
  obtain ⟨hl1, hl2, -⟩ := C02.LegalAll_append.1 hl
  obtain ⟨_, m1, i1, -⟩ := ops_ref (E := E) (x := []) ops p0 h0.mtch h0.inv hl1 hns
  rw [applyOps_append]
  exact parse_none_drained m1 i1 new hl2.2

/-- The chunking-independent part of what a history leaves behind: all replies generated, what
the next call reports, the unread remainder. -/
structure Outcome where
  out : Bytes
  probe : ParseRes
  unread : Bytes
deriving DecidableEq, Repr

def outcome (p0 : Parser) (ops : List Op) : Outcome :=
  ⟨C03S.grownAll p0 ops, ((applyOps p0 ops).parse [] none).2, (applyOps p0 ops).raw⟩

/-- The same, read off the reference. -/
def refOutcome (E : Cfg) (w : Bytes) : Outcome :=
  ⟨(refWire E w).out, verdictRes (refWire E w).verdict, (refWire E w).unread⟩

/-- **Exactness.**  Once the history has processed everything it fed (`Drained`), its outcome is
the reference outcome of the bytes fed: all replies `refRun` prescribes, in order, nothing else;
the next call returns the reference's fatal error / `stream_end` / nothing; the unread remainder is
the reference's.  The stream bytes made available are the reference content up to `lost`
(bytes written into a `dest` by the first call that returned `Err`: none if that call was one into
the internal buffer, `FirstErrInternal`); the reported ones are a prefix, and equal if no call
failed. -/
theorem drained_outcome {E : Cfg} {p0 : Parser} (h0 : Start E p0) (ops : List Op)
    (hl : LegalAll p0 ops) (hns : NoSet ops) (hdr : Drained (applyOps p0 ops)) :
    outcome p0 ops = refOutcome E (p0.raw ++ fedBytes ops) ∧
    (∃ lost, availOps p0 ops ++ lost = (refWire E (p0.raw ++ fedBytes ops)).content ∧
      (FirstErrInternal p0 ops → lost = [])) ∧
    deliveredOps p0 ops <+: (refWire E (p0.raw ++ fedBytes ops)).content ∧
    (ErrFree p0 ops → deliveredOps p0 ops = (refWire E (p0.raw ++ fedBytes ops)).content) := by
  obtain ⟨lost, m, i, hc, ho, hv, hu, hn⟩ :=
    ops_ref (E := E) (x := []) ops p0 h0.mtch h0.inv hl hns
  rw [rem_start h0, List.append_nil] at hc ho hv hu
  obtain ⟨v, hr, hvi⟩ := ref_terminal (drained_terminal m i hdr)
  have hrem : Rem E (applyOps p0 ops) [] = ⟨[], [], v, (applyOps p0 ops).raw⟩ := by
    simp only [Rem, List.append_nil]; exact hr
  rw [hrem] at hc ho hv hu
  simp only [List.append_nil] at hc ho hv hu
  have hpr := probe_drained m i hdr hvi
  have ha : availOps p0 ops <+: (refWire E (p0.raw ++ fedBytes ops)).content := ⟨lost, hc⟩
  refine ⟨?_, ⟨lost, hc, hn⟩, (delivered_le_avail h0.inv hl).trans ha, fun hef => ?_⟩
  · simp only [outcome, refOutcome, ho, hpr, hv, hu]
  · rw [delivered_eq_avail h0.inv hl hef, ← hc, hn hef.firstErrInternal, List.append_nil]

/-- If the reference verdict of the bytes fed is not a fatal error, no call of a drained history
failed. -/
theorem errFree_of_verdict {E : Cfg} {p0 : Parser} (h0 : Start E p0) (ops : List Op)
    (hl : LegalAll p0 ops) (hns : NoSet ops) (hdr : Drained (applyOps p0 ops))
    (hv : ∀ e, (refWire E (p0.raw ++ fedBytes ops)).verdict ≠ .err e) : ErrFree p0 ops := by
  apply Classical.byContradiction
  intro hne
  obtain ⟨e, hes⟩ := errState_of_not_errFree h0.inv hl hne
  have h1 := (C03S.err_state_parse hes [] none (Or.inl rfl) (by simp)).1
  have h2 := (drained_outcome h0 ops hl hns hdr).1
  simp only [outcome, refOutcome, Outcome.mk.injEq] at h2
  rw [h1] at h2
  cases hvv : (refWire E (p0.raw ++ fedBytes ops)).verdict with
  | more => rw [hvv] at h2; simp [verdictRes] at h2
  | eos => rw [hvv] at h2; simp [verdictRes] at h2
  | err e' => exact hv e' hvv

/-- **C03, stream parser: chunk invariance on arbitrary input.**  Two legal histories from the
same state that feed the same bytes — in any chunking, with any `dest` sizes or the internal
buffer, with any interleaving of `consume_stream` / `compress` / `consume_output` — and have both
processed what they fed, agree on: all replies generated, the outcome of the next call (the
specific fatal error, or `stream_end`, or neither), and the unread remainder.  They agree on the
stream bytes made available unless the first `parse` that returned `Err` was one into a `dest`;
the reported stream bytes agree whenever the outcome is not a fatal error, and are always
prefix-comparable (both are prefixes of the reference content). -/
theorem str_chunk_invariance {E : Cfg} {p0 : Parser} (h0 : Start E p0) {ops₁ ops₂ : List Op}
    (hl₁ : LegalAll p0 ops₁) (hl₂ : LegalAll p0 ops₂) (hns₁ : NoSet ops₁) (hns₂ : NoSet ops₂)
    (hfed : fedBytes ops₁ = fedBytes ops₂)
    (hd₁ : Drained (applyOps p0 ops₁)) (hd₂ : Drained (applyOps p0 ops₂)) :
    outcome p0 ops₁ = outcome p0 ops₂ ∧
    (FirstErrInternal p0 ops₁ → FirstErrInternal p0 ops₂ → availOps p0 ops₁ = availOps p0 ops₂) ∧
    ((∀ e, (outcome p0 ops₁).probe ≠ .err e) →
      deliveredOps p0 ops₁ = deliveredOps p0 ops₂ ∧ availOps p0 ops₁ = availOps p0 ops₂) ∧
    (deliveredOps p0 ops₁ <+: deliveredOps p0 ops₂ ∨ deliveredOps p0 ops₂ <+: deliveredOps p0 ops₁) := by
  obtain ⟨a1, ⟨l1, a2, a3⟩, a4, a5⟩ := drained_outcome h0 ops₁ hl₁ hns₁ hd₁
  obtain ⟨b1, ⟨l2, b2, b3⟩, b4, b5⟩ := drained_outcome h0 ops₂ hl₂ hns₂ hd₂
  rw [← hfed] at b1 b2 b4 b5
  refine ⟨a1.trans b1.symm, fun n1 n2 => ?_, fun hne => ?_, List.prefix_or_prefix_of_prefix a4 b4⟩
  · have e1 := a3 n1
    have e2 := b3 n2
    subst e1 e2
    rw [List.append_nil] at a2 b2
    exact a2.trans b2.symm
  · have hv : ∀ e, (refWire E (p0.raw ++ fedBytes ops₁)).verdict ≠ .err e := by
      intro e he
      have := congrArg Outcome.probe a1
      simp only [refOutcome, he, verdictRes] at this
      exact hne e this
    have f1 := errFree_of_verdict h0 ops₁ hl₁ hns₁ hd₁ hv
    have f2 := errFree_of_verdict h0 ops₂ hl₂ hns₂ hd₂ (by rw [← hfed]; exact hv)
    have d1 := a5 f1
    have d2 := b5 f2
    refine ⟨d1.trans d2.symm, ?_⟩
    rw [← delivered_eq_avail h0.inv hl₁ f1, ← delivered_eq_avail h0.inv hl₂ f2]
    exact d1.trans d2.symm

/-- The outcome is a function of the bytes and the configuration alone. -/
theorem outcome_determined {E : Cfg} {p0 : Parser} (h0 : Start E p0) (ops : List Op)
    (hl : LegalAll p0 ops) (hns : NoSet ops) (hdr : Drained (applyOps p0 ops)) :
    outcome p0 ops = refOutcome E (p0.raw ++ fedBytes ops) :=
  (drained_outcome h0 ops hl hns hdr).1

/-! ### The strong statement and why it fails -/

/-- The statement one would like: ALSO the reported stream bytes coincide, unconditionally. -/
def str_chunk_invariance_full : Prop :=
  ∀ (E : Cfg) (p0 : Parser) (ops₁ ops₂ : List Op), Start E p0 → LegalAll p0 ops₁ →
    LegalAll p0 ops₂ → NoSet ops₁ → NoSet ops₂ → fedBytes ops₁ = fedBytes ops₂ →
    Drained (applyOps p0 ops₁) → Drained (applyOps p0 ops₂) →
    outcome p0 ops₁ = outcome p0 ops₂ ∧ deliveredOps p0 ops₁ = deliveredOps p0 ops₂ ∧
      availOps p0 ops₁ = availOps p0 ops₂

/-- What IS true (all conjuncts of `str_chunk_invariance`). -/
theorem str_chunk_invariance_partial {E : Cfg} {p0 : Parser} (h0 : Start E p0)
    {ops₁ ops₂ : List Op} (hl₁ : LegalAll p0 ops₁) (hl₂ : LegalAll p0 ops₂) (hns₁ : NoSet ops₁)
    (hns₂ : NoSet ops₂) (hfed : fedBytes ops₁ = fedBytes ops₂)
    (hd₁ : Drained (applyOps p0 ops₁)) (hd₂ : Drained (applyOps p0 ops₂)) :
    outcome p0 ops₁ = outcome p0 ops₂ ∧
    (FirstErrInternal p0 ops₁ → FirstErrInternal p0 ops₂ → availOps p0 ops₁ = availOps p0 ops₂) ∧
    ((∀ e, (outcome p0 ops₁).probe ≠ .err e) →
      deliveredOps p0 ops₁ = deliveredOps p0 ops₂ ∧ availOps p0 ops₁ = availOps p0 ops₂) ∧
    (deliveredOps p0 ops₁ <+: deliveredOps p0 ops₂ ∨ deliveredOps p0 ops₂ <+: deliveredOps p0 ops₁) :=
  str_chunk_invariance h0 hl₁ hl₂ hns₁ hns₂ hfed hd₁ hd₂

/-! ## 4. Fatal errors are sticky (re-export) -/

/-- **`fatal_sticky`.**  A fatal error, once reported, is reported again by every later call, and
no further output or stream data is produced; the offending header stays at the head of `raw`. -/
theorem fatal_sticky {p p' : Parser} {new : Bytes} {dest : Option Nat} {e : PErr} (hinv : SInv p)
    (hd : dest = none ∨ p.parsed = []) (hfree : new.length ≤ p.free)
    (h : p.parse new dest = (p', .err e)) :
    p'.pay = 0 ∧ p'.pad = 0 ∧ headErr p'.raw p'.request.id = some e ∧
    (∀ dest', (dest' = none ∨ p'.parsed = []) → p'.parse [] dest' = (p', .err e)) ∧
    (∀ new' dest', (dest' = none ∨ p'.parsed = []) → new'.length ≤ p'.free →
      (p'.parse new' dest').2 = .err e ∧ (p'.parse new' dest').1.output = p'.output ∧
      (p'.parse new' dest').1.parsed = p'.parsed ∧
      (p'.parse new' dest').1.raw = p'.raw ++ new') :=
  C03S.err_sticky hinv hd hfree h

/-- Over whole histories: after a failed call nothing more is delivered or queued. -/
theorem fatal_silent {q : Parser} {e : PErr} (h : C03S.ErrState q e) {t : List Op}
    (hl : LegalAll q t) :
    availOps q t = [] ∧ C03S.grownAll q t = [] ∧ deliveredOps q t = [] ∧
      C03S.ErrState (applyOps q t) e :=
  ⟨(err_quiet h hl).1, (err_quiet h hl).2.1, (err_quiet h hl).2.2, C03S.err_sticky_trace h hl⟩


/-! ## 5. Concrete instances (non-vacuity) -/

section Examples

/-! ### A. A hostile wire: earlier-stream record, foreign-id Stdin, unknown type, foreign
BeginRequest, GetValues, then a header with version 2 and trailing bytes -/

/-- A Filter request, id 1; `Data` is the active stream (as after `set_stream(Data)`). -/
def hReq : Request := { id := 1, role := 3, flags := 0, env := [] }
def hP : Parser := { Parser.fromParser 128 hReq [] 10 with stream := some 8 }
def hE : Cfg := ⟨1, 3, 8, 10⟩

theorem hStart : Start hE hP :=
  ⟨⟨by decide, by decide, by decide, trivial, Or.inr ⟨8, rfl, by decide⟩, by decide⟩,
   ⟨rfl, rfl, rfl, rfl, by decide⟩, rfl, rfl⟩

def hRecs : List Rec :=
  [{ rtype := 8, id := 1, content := [65, 66], pad := [0, 0] },          -- Data "AB"
   { rtype := 5, id := 1, content := [88, 89, 90], pad := [] },          -- own-id Stdin: EARLIER stream
   { rtype := 5, id := 2, content := [81], pad := [0] },                 -- foreign-id Stdin
   { rtype := 200, id := 7, content := [1, 2, 3], pad := [] },           -- unknown record type 200
   { rtype := 1, id := 9, content := [0, 1, 0, 0, 0, 0, 0, 0], pad := [] },  -- foreign BeginRequest
   C02.exNoise,                                                          -- management GetValues
   { rtype := 8, id := 1, content := [67], pad := [0, 0, 0] }]           -- Data "C"
/-- A header with version byte 2, and two trailing bytes. -/
def hTail : Bytes := [2, 8, 0, 1, 0, 0, 0, 0, 9, 9]
def hWire : Bytes := serAll hRecs ++ hTail

example : hWire.length = 114 := by decide +kernel
example : (∀ r ∈ hRecs, r.WF) ∧ nextRec hTail = none := by
  refine ⟨?_, by decide +kernel⟩
  intro r hr
  simp only [hRecs, List.mem_cons, List.not_mem_nil, or_false] at hr
  rcases hr with rfl | rfl | rfl | rfl | rfl | rfl | rfl <;> (unfold Rec.WF; decide)

/-- The record-level semantics of these records: the classes … -/
example : hRecs.map (rclass hE) = [.data, .noise, .noise, .noise, .noise, .noise, .data] := by
  decide +kernel

/-- … content "ABC"; replies: `UnknownType(200)` to id 7, `EndRequest(CantMpxConn)` to id 9, a
32-byte `GetValuesResult`; no record stops the parser; the tail is fatal. -/
example : (refRun hE hRecs).content = [65, 66, 67] ∧ (refRun hE hRecs).stop = .ranOut ∧
    (refRun hE hRecs).out =
      [1, 11, 0, 7, 0, 8, 0, 0, 200, 0, 0, 0, 0, 0, 0, 0] ++
      [1, 3, 0, 9, 0, 8, 0, 0, 0, 0, 0, 0, 1, 0, 0, 0] ++ owed (some 1) 10 C02.exNoise ∧
    (owed (some 1) 10 C02.exNoise).length = 32 ∧
    refTail hE hTail = ⟨[], [], .err (.unknownVersion 2), hTail⟩ := by decide +kernel

example : refWire hE hWire =
    ⟨[65, 66, 67], (refRun hE hRecs).out, .err (.unknownVersion 2), hTail⟩ := by decide +kernel

/-- Schedule 1: everything at once into the internal buffer. -/
def hOps1 : List Op := [.parse hWire none]
/-- Schedule 2: eight pieces, tiny `dest` buffers, the internal buffer, compaction, flushing. -/
def hOps2 : List Op :=
  [.parse (hWire.take 5) (some 1), .parse ((hWire.drop 5).take 8) (some 1), .parse [] (some 1),
   .compress, .parse ((hWire.drop 13).take 30) (some 4), .consumeOutput 7,
   .parse ((hWire.drop 43).take 30) none, .consumeStream 1, .compress,
   .parse ((hWire.drop 73).take 33) (some 3), .consumeOutput 100, .parse (hWire.drop 106) none,
   .parse [] (some 3)]

theorem hLegal1 : LegalAll hP hOps1 := by decide +kernel
theorem hLegal2 : LegalAll hP hOps2 := by decide +kernel
theorem hNoSet1 : NoSet hOps1 := fun s h => by simp [hOps1] at h
theorem hNoSet2 : NoSet hOps2 := fun s h => by simp [hOps2] at h
theorem hFed : fedBytes hOps1 = fedBytes hOps2 := by decide +kernel
theorem hDrained1 : Drained (applyOps hP hOps1) := by decide +kernel
theorem hDrained2 : Drained (applyOps hP hOps2) := by decide +kernel

/-- The theorem on the instance … -/
example : outcome hP hOps1 = outcome hP hOps2 :=
  (str_chunk_invariance hStart hLegal1 hLegal2 hNoSet1 hNoSet2 hFed hDrained1 hDrained2).1

example : outcome hP hOps1 = refOutcome hE hWire := by
  have := outcome_determined hStart hOps1 hLegal1 hNoSet1 hDrained1
  rwa [show hP.raw ++ fedBytes hOps1 = hWire by decide +kernel] at this

/-- … and what actually happens, computed: the same replies, `Err(UnknownVersion(2))` from the
next call, the offending header (and what follows) unread.  Schedule 1 — whose only call returned
`Err` — REPORTED no stream bytes (they are in the internal buffer: `availOps`), schedule 2
reported all three. -/
example : outcome hP hOps1 = ⟨(refRun hE hRecs).out, .err (.unknownVersion 2), hTail⟩ ∧
    outcome hP hOps2 = ⟨(refRun hE hRecs).out, .err (.unknownVersion 2), hTail⟩ ∧
    availOps hP hOps1 = [65, 66, 67] ∧ availOps hP hOps2 = [65, 66, 67] ∧
    deliveredOps hP hOps1 = [] ∧ deliveredOps hP hOps2 = [65, 66, 67] := by decide +kernel

/-- In both schedules the first failing call is one into the internal buffer, so the available
bytes agree by the theorem. -/
example : availOps hP hOps1 = availOps hP hOps2 :=
  (str_chunk_invariance hStart hLegal1 hLegal2 hNoSet1 hNoSet2 hFed hDrained1 hDrained2).2.1
    (by decide +kernel) (by decide +kernel)

/-! ### B. `AbortRequest`; the witness against the strong statement -/

/-- A Responder request, id 1, fresh parser (`Stdin` active). -/
def aP : Parser := Parser.fromParser 64 C02.exReq [] 10
def aE : Cfg := ⟨1, 1, 5, 10⟩
theorem aStart : Start aE aP := start_fresh 64 C02.exReq [] 10 (by decide) (by decide) (Or.inl rfl)

def aStdin : Rec := { rtype := 5, id := 1, content := [65, 66, 67], pad := [0] }
def aAbort : Rec := { rtype := 2, id := 1, content := [], pad := [] }
def aWire : Bytes := aStdin.ser ++ aAbort.ser ++ [7, 7]

example : refRun aE [aStdin, aAbort] = ⟨[65, 66, 67], [], .abort 1⟩ := by decide +kernel
example : refWire aE aWire = ⟨[65, 66, 67], [], .err .abortRequest, aAbort.ser ++ [7, 7]⟩ := by
  decide +kernel

/-- One call for everything, into a 10-byte `dest` … -/
def aOps1 : List Op := [.parse aWire (some 10)]
/-- … versus the `Stdin` record first. -/
def aOps2 : List Op := [.parse aStdin.ser (some 10), .parse (aAbort.ser ++ [7, 7]) (some 10)]

theorem aLegal1 : LegalAll aP aOps1 := by decide +kernel
theorem aLegal2 : LegalAll aP aOps2 := by decide +kernel
theorem aNoSet1 : NoSet aOps1 := fun s h => by simp [aOps1] at h
theorem aNoSet2 : NoSet aOps2 := fun s h => by simp [aOps2] at h
theorem aFed : fedBytes aOps1 = fedBytes aOps2 := by decide +kernel
theorem aDrained1 : Drained (applyOps aP aOps1) := by decide +kernel
theorem aDrained2 : Drained (applyOps aP aOps2) := by decide +kernel

/-- Error, replies and unread remainder agree (by the theorem) … -/
example : outcome aP aOps1 = outcome aP aOps2 :=
  (str_chunk_invariance aStart aLegal1 aLegal2 aNoSet1 aNoSet2 aFed aDrained1 aDrained2).1
example : outcome aP aOps1 = ⟨[], .err .abortRequest, aAbort.ser ++ [7, 7]⟩ := by decide +kernel

/-- … `prefix_on_error` on the instance … -/
example : deliveredOps aP [.parse aStdin.ser (some 10)] <+: [65, 66, 67] := by
  have h := prefix_on_error aStart [.parse aStdin.ser (some 10)] (aAbort.ser ++ [7, 7]) (some 10)
    aLegal2 (fun s h => by simp at h) (q' := (applyOps aP aOps2)) (e := .abortRequest)
    (by decide +kernel) []
  rwa [show (refWire aE (aP.raw ++ fedBytes ([.parse aStdin.ser (some 10)] ++
      [.parse (aAbort.ser ++ [7, 7]) (some 10)]) ++ [])).content = [65, 66, 67] by decide +kernel] at h

/-- … but the stream bytes REPORTED differ: the call that met the `AbortRequest` had already
written "ABC" into `dest`, and its `Status` is lost with the `Err`. -/
example : deliveredOps aP aOps1 = [] ∧ deliveredOps aP aOps2 = [65, 66, 67] ∧
    availOps aP aOps1 = [] ∧ availOps aP aOps2 = [65, 66, 67] := by decide +kernel

/-- **The strong statement is false**: with an `Err` returned by a call into `dest`, the reported
(and the available) stream bytes depend on the chunking. -/
theorem str_chunk_invariance_full_false : ¬ str_chunk_invariance_full := by
  intro h
  have := h aE aP aOps1 aOps2 aStart aLegal1 aLegal2 aNoSet1 aNoSet2 aFed aDrained1 aDrained2
  exact absurd this.2.1 (by decide +kernel)

/-- With the internal buffer instead of `dest` nothing is lost: the bytes are in `stream_buffer()`. -/
example : availOps aP [.parse aWire none] = [65, 66, 67] ∧
    (applyOps aP [.parse aWire none]).parsed = [65, 66, 67] := by decide +kernel

/-! ### C. A truncated tail -/

/-- `Stdin("AB")`, then a `Stdin` header announcing 5 bytes of which 3 are there. -/
def tWire : Bytes := ({ rtype := 5, id := 1, content := [65, 66], pad := [] } : Rec).ser ++
  [1, 5, 0, 1, 0, 5, 3, 0, 67, 68, 69]

example : decomp tWire =
    ([{ rtype := 5, id := 1, content := [65, 66], pad := [] }], [1, 5, 0, 1, 0, 5, 3, 0, 67, 68, 69]) := by
  decide +kernel
example : refWire aE tWire = ⟨[65, 66, 67, 68, 69], [], .more, []⟩ := by decide +kernel

def tOps1 : List Op := [.parse tWire none]
def tOps2 : List Op := [.parse (tWire.take 9) (some 1), .parse (tWire.drop 9) (some 1),
  .parse [] (some 2), .parse [] none]

example : outcome aP tOps1 = outcome aP tOps2 ∧ deliveredOps aP tOps1 = deliveredOps aP tOps2 := by
  have h := str_chunk_invariance aStart (ops₁ := tOps1) (ops₂ := tOps2) (by decide +kernel)
    (by decide +kernel) (fun s h => by simp [tOps1] at h) (fun s h => by simp [tOps2] at h)
    (by decide +kernel) (by decide +kernel) (by decide +kernel)
  exact ⟨h.1, (h.2.2.1 (by decide +kernel)).1⟩
example : outcome aP tOps1 =
    ⟨[], .ok { stream := 0, streamEnd := false, output := 0, delivered := [] }, []⟩ ∧
    deliveredOps aP tOps2 = [65, 66, 67, 68, 69] ∧
    (applyOps aP tOps2).pay = 2 ∧ (applyOps aP tOps2).pad = 3 := by decide +kernel

end Examples

end Fcgi.C03SI
