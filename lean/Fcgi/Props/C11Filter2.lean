import Fcgi.Proofs.E2EFilterAbort2
import Fcgi.Props.C11Filter
/-!
# C11 — `AbortRequest` for a FILTER whose handler reads (rows (a) and (b) of the table of `Props/C11Filter`)

Handler `rscript s0 = [readAll, set_stream(Data), readAll, return s0]`, run

  (a) propagating errors (`pr = true`: the first failing call ends the handler, `close` is called with
      `ExitStatus::ABORT`), or (b) ignoring them (`pr = false`: the handler returns its own `s0`).

`closeStatus pr s0` is the status of the one `EndRequest`: `ABORT` (appStatus `"ABRT"`) in row (a), the
handler's `s0` in row (b).

## Placement (i): the `AbortRequest` inside Stdin — `filter_abort_stdin_e2e`, chain step
`filter_abort_stdin_chain_e2e`

`pre` = Stdin records with content `content` (NO terminator) and noise, then the request's abort record
`a`, then `post`.

* exactly one handler start; the handler's first `readAll` fails in front of the abort record
  ((a): handler over; (b): `set_stream(Data)` is accepted, the second `readAll` fails at once on the same
  record, the handler returns `s0`);
* `close()`: the request is NOT writeable (`poll_input` never returned `Ready` on the last input
  stream), so `close()` runs its own `writeable()`: `set_stream(Data)`, `poll_input(None)` — which fails
  with the abort error again, swallowed; `record_boundary()` returns at once;
* exactly one `EndRequest(id, closeStatus pr s0)`, WITHOUT the empty Stdout / Stderr records; the log is
  `owedPreamble ++ owedActive pre ++ EndRequest`;
* KEEP_CONN: the abort record and `post` go to the next request parser (chain step: following requests
  are served exactly as alone); no KEEP_CONN: the task returns after the `EndRequest`.

## Placement (ii): between the Stdin terminator and the first Data content — see below.
-/
namespace Fcgi.C11F
open Fcgi Fcgi.Req Fcgi.Str Fcgi.Async Fcgi.Run Fcgi.Spec Fcgi.E2E Fcgi.C07E Fcgi.C07U

/-- the status `close` is called with -/
def closeStatus (pr : Bool) (s0 : ExitStatus) : ExitStatus := if pr then ExitStatus.abort else s0

/-- the configuration: a Filter, `pre ++ [a] ++ post` behind its preamble, handler `rscript s0` -/
def cfgFR (p : Preamble) (recs : List Rec) (content : Bytes) (pre : List Rec) (a : Rec) (post : List Rec)
    (b mc : Nat) (s0 stc : ExitStatus) (L0 : Bytes) (h : Nat) (more : List (List HOp × Bool)) : E2E.Cfg :=
  ⟨p, recs, content, pre, [], 0, [], post, [], 0, b, mc, [], stc, L0, h, more,
    serAll (pre ++ [a]) ++ serAll post, [], a.ser ++ serAll post, [], [], rscript s0⟩

theorem fr1ok_of {p : Preamble} {recs pre : List Rec} {content : Bytes} {a : Rec} {post : List Rec} {b mc : Nat}
    {s0 : ExitStatus} {pr : Bool}
    (L0 : Bytes) (h : Nat) (more : List (List HOp × Bool))
    (hwf : WellFormedPreamble p recs) (hrole : p.role = 3)
    (hpairs : ∀ q ∈ p.pairs, (NV.enc q).length ≤ alignedBufsize b)
    (hnoise : NoiseFits (alignedBufsize b) recs)
    (hbody : Body p.id 5 content pre) (hpf : NoiseFits (alignedBufsize b) pre) (ha : IsAbort p.id a)
    (hX : (serAll (pre ++ [a]) ++ serAll post).length ≤ 31000) :
    FR1OK (cfgFR p recs content pre a post b mc s0 (closeStatus pr s0) L0 h more) a s0 pr :=
  ⟨hwf, hrole, hpairs, hnoise, hbody, hpf, ha, rfl, rfl, rfl, rfl, hX⟩

theorem lfo1_eq {p : Preamble} {recs pre : List Rec} {content : Bytes} {a : Rec} {post : List Rec} {b mc : Nat}
    {s0 stc : ExitStatus}
    {L0 : Bytes} {h : Nat} {more : List (List HOp × Bool)} (left : List Rec) (hl : ∀ e ∈ left, IdleNoise e) :
    ((cfgFR p recs content pre a post b mc s0 stc L0 h more).front left).LfO
        (cfgFR p recs content pre a post b mc s0 stc L0 h more).Ow1 =
      L0 ++ idleOwed mc left ++ (owedPreamble p mc recs ++ owedActive p.id mc pre ++ endRequest p.id stc) := by
  show ((cfgFR p recs content pre a post b mc s0 stc L0 h more).front left).L1 ++ owedStream p.id 5 mc pre ++
    makeRequestEpilogue p.id stc [] = _
  rw [E2E.Cfg.front_L1 _ hl, epilogue_nil, ← owedI_eq_owedStream]
  simp only [List.append_assoc]
  rfl

/-- **C11 end to end, rows (a) and (b), placement (i)**: a Filter whose handler reads, aborted inside Stdin. -/
theorem filter_abort_stdin_e2e {p : Preamble} {recs pre : List Rec} {a : Rec} {post : List Rec}
    {b mc : Nat} {content : Bytes} {s0 : ExitStatus} {pr : Bool} {more : List (List HOp × Bool)} {t : Transport} {fuel : Nat}
    (hwf : WellFormedPreamble p recs) (hrole : p.role = 3)
    (hpairs : ∀ q ∈ p.pairs, (NV.enc q).length ≤ alignedBufsize b)
    (hnoise : NoiseFits (alignedBufsize b) recs)
    (hbody : Body p.id 5 content pre) (hpf : NoiseFits (alignedBufsize b) pre) (ha : IsAbort p.id a)
    (hpost : ∀ r ∈ post, r.WF) (hpostf : NoiseFits (alignedBufsize b) post)
    (hnb : ∀ r ∈ post, r.rtype.toNat ≠ RT.beginRequest)
    (hin : t.input = serAll recs ++ (serAll (pre ++ [a]) ++ serAll post)) (hben : Ben t)
    (hev : hsCount t.events = 0) (hfuel : t.rd.length + t.wr.length + 1 ≤ fuel)
    (hsize : 6 * t.input.length + 26 ≤ 100000) :
    ∃ c' fin, runTask fuel (connS b mc t ((rscript s0, pr) :: more)) 0 none = (c', fin) ∧
      FilterAbortOutcome p recs pre a post b mc (closeStatus pr s0) more t c' fin := by
  have hid := (pid_of_wf hwf).2
  have hX31 : (serAll (pre ++ [a]) ++ serAll post).length ≤ 31000 := by
    have := congrArg List.length hin
    simp only [List.length_append] at this ⊢
    omega
  have hwa := isAbort_wf ha hid
  have hidleA : IdleNoise a := ⟨hwa, fun hx => absurd hx (by rw [ha.1]; decide)⟩
  have hidle : ∀ e ∈ a :: post, IdleNoise e := by
    intro e he
    rcases List.mem_cons.1 he with rfl | he
    · exact hidleA
    · exact idle_of_noBegin hpost hnb e he
  have hfit : NoiseFits (alignedBufsize b) (a :: post) := by
    intro e he hg
    rcases List.mem_cons.1 he with rfl | he
    · exact absurd hg.1 (by rw [ha.1]; decide)
    · exact hpostf e he hg
  have ok := fr1ok_of (post := post) (mc := mc) (s0 := s0) (pr := pr) t.wlog 0 more hwf hrole hpairs hnoise hbody hpf ha hX31
  obtain ⟨hns, hNF⟩ := idle_front dummy_wf b mc (fun q hq => by cases hq) (dummy_fits _) hidle hfit []
  rw [serAll_cons] at hns hNF
  have hst : FStageP (cfgFR p recs content pre a post b mc s0 (closeStatus pr s0) t.wlog 0 more) pr (connS b mc t ((rscript s0, pr) :: more)) :=
    .start (raw := []) rfl (by show [] ++ t.input = _; rw [hin]; rfl) (Nat.zero_le _) rfl hben rfl rfl rfl hev
  obtain ⟨c', fin, hrun, hres⟩ := run_filterR1 ok (Z := serAll dummyRecs ++ []) hns hNF
    t.endMode [] _ 0 fuel hst rfl (fun s hs => by cases hs) rfl (by show ans t + 1 ≤ fuel; unfold ans; omega) hsize
  have hLf := lfo1_eq (p := p) (recs := recs) (content := content) (pre := pre) (a := a) (post := post) (b := b) (mc := mc) (s0 := s0) (stc := closeStatus pr s0)
    (L0 := t.wlog) (h := 0) (more := more) [] (fun _ h => nomatch h)
  have hLf' : (cfgFR p recs content pre a post b mc s0 (closeStatus pr s0) t.wlog 0 more).LfO (cfgFR p recs content pre a post b mc s0 (closeStatus pr s0) t.wlog 0 more).Ow1 =
      t.wlog ++ (owedPreamble p mc recs ++ owedActive p.id mc pre ++ endRequest p.id (closeStatus pr s0)) := by
    have e : (cfgFR p recs content pre a post b mc s0 (closeStatus pr s0) t.wlog 0 more).front [] = cfgFR p recs content pre a post b mc s0 (closeStatus pr s0) t.wlog 0 more := rfl
    rw [e] at hLf
    rw [hLf]; simp [idleOwed]
  rcases hres with ⟨_, hk, hkp, hem, _, _, _, hend⟩ | ⟨hfin, hfu, _, _⟩
  · have hout : ∀ F, F ++ (serAll dummyRecs ++ []) = a.ser ++ serAll post ++ (serAll dummyRecs ++ []) →
        (cfgFR p recs content pre a post b mc s0 (closeStatus pr s0) t.wlog 0 more).LfO (cfgFR p recs content pre a post b mc s0 (closeStatus pr s0) t.wlog 0 more).Ow1 ++ (run .header F mc).out =
        t.wlog ++ (owedPreamble p mc recs ++ owedActive p.id mc pre ++ endRequest p.id (closeStatus pr s0) ++ idleOwed mc post) := by
      intro F hF
      have hro := (run_idle_out mc (a :: post) hidle).1
      rw [serAll_cons] at hro
      rw [List.append_cancel_right hF, hro, hLf', idleOwed_cons, owed_idle_abort ha, List.nil_append]
      simp only [List.append_assoc]
    refine ⟨c', fin, hrun, ⟨hkp.hs, hkp.ev _ List.mem_cons_self⟩, hkp.sc, Or.inl ⟨hk, ?_, ?_⟩⟩
    · rcases hend with ⟨_, hp⟩ | ⟨_, hf⟩
      · obtain ⟨F, hF, _, _, hlg⟩ := hp.pst
        exact hlg.trans (hout F hF)
      · obtain ⟨F, hF, hlg⟩ := hf.log
        exact hlg.trans (hout F hF)
    · rcases hend with ⟨rfl, hp⟩ | ⟨rfl, hf⟩
      · obtain ⟨F, hF, hps, hph, _⟩ := hp.pst
        have hFe : F = a.ser ++ serAll post := List.append_cancel_right hF
        subst hFe
        exact Or.inr ⟨hem.symm.trans hp.em, rfl, hph, hp.inp, hkp.mx, hps.stop, hps.ben⟩
      · exact Or.inl ⟨hem.symm.trans hf.em, rfl, hf.ph⟩
  · exact ⟨c', fin, hrun, ⟨hfu.ev.1, hfu.ev.2⟩, hfu.sc, Or.inr ⟨hfu.nokeep, hfin, hfu.ph, hfu.log.trans hLf'⟩⟩

/-- **The chain step** (KEEP_CONN): after the aborted Filter request of `filter_abort_stdin_e2e` a
closed-loop client sends the keep-alive requests `x :: xs` (`UReq.OK`): the abort record and `post` are
swallowed by the next `parse_request` (`post` answered as idle noise), then each request is served
exactly as alone (`UReq.Seg`). -/
theorem filter_abort_stdin_chain_e2e {p : Preamble} {recs pre : List Rec} {a : Rec} {post : List Rec}
    {b mc : Nat} {content : Bytes} {s0 : ExitStatus} {pr : Bool} (x : UReq) (xs : List UReq) {t : Transport} {fuel : Nat}
    (hwf : WellFormedPreamble p recs) (hrole : p.role = 3) (hk : p.flags.toNat % 2 = 1)
    (hpairs : ∀ q ∈ p.pairs, (NV.enc q).length ≤ alignedBufsize b)
    (hnoise : NoiseFits (alignedBufsize b) recs)
    (hbody : Body p.id 5 content pre) (hpf : NoiseFits (alignedBufsize b) pre) (ha : IsAbort p.id a)
    (hpost : ∀ r ∈ post, r.WF) (hpostf : NoiseFits (alignedBufsize b) post)
    (hnb : ∀ r ∈ post, r.rtype.toNat ≠ RT.beginRequest)
    (hok : ∀ y ∈ x :: xs, y.OK b)
    (hin : t.input = serAll recs ++ (serAll (pre ++ [a]) ++ serAll post)) (hben : Ben t) (hem : t.endMode = .pend)
    (hev : hsCount t.events = 0) (hfuel : t.rd.length + t.wr.length + 1 ≤ fuel)
    (hsize : 6 * t.input.length + 26 ≤ 100000) :
    ∃ c' A,
      closedLoop fuel ((x :: xs).map UReq.wire)
        (connS b mc t ((rscript s0, pr) :: (x :: xs).map UReq.handler)) 0 = (c', "STALL") ∧
      SegsAll mc (x :: xs) A ∧
      c'.env.tr.wlog = t.wlog ++ (owedPreamble p mc recs ++ owedActive p.id mc pre ++ endRequest p.id (closeStatus pr s0) ++
        idleOwed mc post) ++ A ∧
      hsCount c'.env.tr.events = 1 + (x :: xs).length ∧
      startEvent p.request ∈ c'.env.tr.events ∧
      (∀ y ∈ x :: xs, startEvent y.p.request ∈ c'.env.tr.events) ∧ c'.scripts = [] ∧
      c'.env.tr.input = [] ∧
      c'.phase = .parseReq (track (alignedBufsize b) mc (serAll ((x :: xs).getLast (by simp)).left)) .reading := by
  have hid := (pid_of_wf hwf).2
  have hX31 : (serAll (pre ++ [a]) ++ serAll post).length ≤ 31000 := by
    have := congrArg List.length hin
    simp only [List.length_append] at this ⊢
    omega
  have hwa := isAbort_wf ha hid
  have hidle : ∀ e ∈ a :: post, IdleNoise e := by
    intro e he
    rcases List.mem_cons.1 he with rfl | he
    · exact ⟨hwa, fun hx => absurd hx (by rw [ha.1]; decide)⟩
    · exact idle_of_noBegin hpost hnb e he
  have hfit : NoiseFits (alignedBufsize b) (a :: post) := by
    intro e he hg
    rcases List.mem_cons.1 he with rfl | he
    · exact absurd hg.1 (by rw [ha.1]; decide)
    · exact hpostf e he hg
  have hlo : LeftOK (alignedBufsize b) (a :: post) := ⟨hidle, hfit⟩
  have ok := fr1ok_of (post := post) (mc := mc) (s0 := s0) (pr := pr) t.wlog 0 (((x :: xs).map (UReq.spec mc)).map RSpec.handler)
    hwf hrole hpairs hnoise hbody hpf ha hX31
  have hstart : StartAt (alignedBufsize b) mc [] t.wlog
      ((rscript s0, pr) :: ((x :: xs).map (UReq.spec mc)).map RSpec.handler) 0 [] (ans t)
      (serAll recs ++ (serAll (pre ++ [a]) ++ serAll post))
      (connS b mc t ((rscript s0, pr) :: ((x :: xs).map (UReq.spec mc)).map RSpec.handler)) :=
    Or.inr ⟨rfl, rfl, hin, rfl, hben, rfl, rfl, rfl, hev, (fun _ hs => nomatch hs), rfl, hem, Nat.le_refl _⟩
  have hleft0 : LeftOK (alignedBufsize b) [] := ⟨(fun _ he => nomatch he), (fun _ hr => nomatch hr)⟩
  obtain ⟨c1, hrun1, hw1⟩ := serve_filterR1_core ok hk (left := []) hleft0 (Z := x.wire) hidle
    (goodNext_of_ok (hok x List.mem_cons_self) hlo) 0 fuel (by simp [idleOwed]; rfl) hstart (by unfold ans; omega)
    (by show 6 * (serAll recs ++ (serAll (pre ++ [a]) ++ serAll post)).length + 26 ≤ _; rw [← hin]; exact hsize)
  have hLf := lfo1_eq (p := p) (recs := recs) (content := content) (pre := pre) (a := a) (post := post) (b := b) (mc := mc) (s0 := s0) (stc := closeStatus pr s0)
    (L0 := t.wlog) (h := 0) (more := ((x :: xs).map (UReq.spec mc)).map RSpec.handler) [] (fun _ h => nomatch h)
  have hLw : ((cfgFR p recs content pre a post b mc s0 (closeStatus pr s0) t.wlog 0 (((x :: xs).map (UReq.spec mc)).map RSpec.handler)).front []).LfO (cfgFR p recs content pre a post b mc s0 (closeStatus pr s0) t.wlog 0 (((x :: xs).map (UReq.spec mc)).map RSpec.handler)).Ow1 ++
      idleOwed mc (a :: post) =
      t.wlog ++ (owedPreamble p mc recs ++ owedActive p.id mc pre ++ endRequest p.id (closeStatus pr s0) ++ idleOwed mc post) := by
    rw [hLf, idleOwed_cons, owed_idle_abort ha, List.nil_append]
    simp [idleOwed, List.append_assoc]
  have hw1' : Waiting (alignedBufsize b) mc (a :: post)
      (t.wlog ++ (owedPreamble p mc recs ++ owedActive p.id mc pre ++ endRequest p.id (closeStatus pr s0) ++ idleOwed mc post))
      (((x :: xs).map (UReq.spec mc)).map RSpec.handler) 1 [hsEvent p.request] (ans t) c1 := by
    rw [← hLw]; exact hw1
  obtain ⟨c', A, hrun, hseg, hw⟩ := chain_serves (alignedBufsize b) mc (serAll dummyRecs ++ [])
    (xs.map (UReq.spec mc)) (UReq.spec mc x) (a :: post) _ 1 [hsEvent p.request] (ans t) (feed c1 x.wire) 1000 fuel
    (hall_of_ok x xs hok) hlo (Or.inl ⟨c1, hw1', rfl⟩) (by unfold ans; omega)
  have hrun' : closedLoop fuel ((x :: xs).map UReq.wire)
      (connS b mc t ((rscript s0, pr) :: (x :: xs).map UReq.handler)) 0 = (c', "STALL") := by
    have e : (x :: xs).map UReq.handler = ((x :: xs).map (UReq.spec mc)).map RSpec.handler := by
      rw [List.map_map]; rfl
    rw [e]
    show closedLoop fuel (x.wire :: xs.map UReq.wire) _ 0 = _
    rw [closedLoop, hrun1]
    simp only [if_true]
    rw [← hrun, List.map_map]; rfl
  have hlast := lastLeft_specs mc x xs
  refine ⟨c', A, hrun', segAll_specs mc (x :: xs) A hseg, hw.log, ?_, ?_, ?_, hw.sc, hw.inp, ?_⟩
  · have := hw.hs; simpa [Nat.add_comm] using this
  · exact hw.ev _ (mem_evsAfter _ _ _ (Or.inl List.mem_cons_self))
  · intro y hy
    exact hw.ev _ (mem_evsAfter _ _ _ (Or.inr ⟨UReq.spec mc y, List.mem_map_of_mem hy, rfl⟩))
  · rw [← hlast]; exact hw.ph


/-! ## Placement (ii): the `AbortRequest` between the Stdin terminator and the first Data content —
`filter_abort_gap_e2e`, chain step `filter_abort_gap_chain_e2e`

`sbody` = the Stdin records (content `content`) and noise, the Stdin terminator, `mid` = noise between
the terminator and the request's abort record `a` (`StdinRec`: anything but a Data record), `post`.
The handler's first `readAll` returns all of `content`; `set_stream(Data)`; the second `readAll` passes
over the terminator and `mid` (replies written) and fails in front of the abort record.  From there as
in placement (i): the request is not writeable, `close()`'s own `writeable()` fails again (swallowed),
bare `EndRequest(id, closeStatus pr s0)`. -/

/-- the empty Stdin record -/
def stdinTerm (id : Nat) (pad : Bytes) (res : UInt8) : Rec :=
  { rtype := 5, id := id, content := [], pad := pad, reserved := res }

/-- the records between the preamble and the abort record -/
def gapPre (id : Nat) (sbody : List Rec) (pad : Bytes) (res : UInt8) (mid : List Rec) : List Rec :=
  sbody ++ stdinTerm id pad res :: mid

/-- the wire behind the preamble -/
def gapX (id : Nat) (sbody : List Rec) (pad : Bytes) (res : UInt8) (mid : List Rec) (a : Rec) (post : List Rec) : Bytes :=
  serAll sbody ++ ((stdinTerm id pad res).ser ++ (serAll (mid ++ [a]) ++ serAll post))

theorem gapX_eq (id : Nat) (sbody : List Rec) (pad : Bytes) (res : UInt8) (mid : List Rec) (a : Rec) (post : List Rec) :
    gapX id sbody pad res mid a post = serAll (gapPre id sbody pad res mid ++ [a]) ++ serAll post := by
  simp only [gapX, gapPre, C02.serAll_append, serAll_cons, List.append_assoc, List.cons_append]

def cfgFR2 (p : Preamble) (recs : List Rec) (content : Bytes) (sbody : List Rec) (pad : Bytes) (res : UInt8)
    (mid : List Rec) (a : Rec) (post : List Rec)
    (b mc : Nat) (s0 stc : ExitStatus) (L0 : Bytes) (h : Nat) (more : List (List HOp × Bool)) : E2E.Cfg :=
  ⟨p, recs, content, sbody, pad, res, [], post, [], 0, b, mc, [], stc, L0, h, more,
    gapX p.id sbody pad res mid a post, serAll (mid ++ [a]) ++ serAll post, a.ser ++ serAll post, [], [], rscript s0⟩

theorem fr2ok_of {p : Preamble} {recs sbody mid : List Rec} {pad : Bytes} {res : UInt8} {content : Bytes} {a : Rec}
    {post : List Rec} {b mc : Nat} {s0 : ExitStatus} {pr : Bool}
    (L0 : Bytes) (h : Nat) (more : List (List HOp × Bool))
    (hwf : WellFormedPreamble p recs) (hrole : p.role = 3)
    (hpairs : ∀ q ∈ p.pairs, (NV.enc q).length ≤ alignedBufsize b)
    (hnoise : NoiseFits (alignedBufsize b) recs)
    (hbody : Body p.id 5 content sbody) (hpf : NoiseFits (alignedBufsize b) sbody) (hpad : pad.length < 256)
    (hmid : ∀ r ∈ mid, StdinRec p.id r) (hmf : NoiseFits (alignedBufsize b) mid)
    (hpost : ∀ r ∈ post, r.WF) (hpostf : NoiseFits (alignedBufsize b) post) (ha : IsAbort p.id a)
    (hX : (gapX p.id sbody pad res mid a post).length ≤ 31000) :
    FR2OK (cfgFR2 p recs content sbody pad res mid a post b mc s0 (closeStatus pr s0) L0 h more) mid a s0 pr :=
  ⟨hwf, hrole, hpairs, hnoise, hbody, hpf, hpad, hmid, hmf, hpost, hpostf, ha, rfl, rfl, rfl, rfl, rfl, hX⟩

theorem lfo2_eq {p : Preamble} {recs sbody mid : List Rec} {pad : Bytes} {res : UInt8} {content : Bytes} {a : Rec}
    {post : List Rec} {b mc : Nat} {s0 stc : ExitStatus}
    {L0 : Bytes} {h : Nat} {more : List (List HOp × Bool)} (left : List Rec) (hl : ∀ e ∈ left, IdleNoise e) :
    ((cfgFR2 p recs content sbody pad res mid a post b mc s0 stc L0 h more).front left).LfO
        ((cfgFR2 p recs content sbody pad res mid a post b mc s0 stc L0 h more).Ow2 mid) =
      L0 ++ idleOwed mc left ++ (owedPreamble p mc recs ++ owedActive p.id mc (gapPre p.id sbody pad res mid) ++
        endRequest p.id stc) := by
  show ((cfgFR2 p recs content sbody pad res mid a post b mc s0 stc L0 h more).front left).L1 ++
    (owedStream p.id 5 mc sbody ++ owedI p.id mc (stdinTerm p.id pad res :: mid)) ++
    makeRequestEpilogue p.id stc [] = _
  rw [E2E.Cfg.front_L1 _ hl, epilogue_nil, ← owedI_eq_owedStream]
  simp only [owedActive, owedI, gapPre, List.flatMap_append, List.append_assoc]
  rfl

/-- **C11 end to end, rows (a) and (b), placement (ii)**: a Filter whose handler reads, aborted between
the Stdin terminator and the first Data content. -/
theorem filter_abort_gap_e2e {p : Preamble} {recs sbody mid : List Rec} {pad : Bytes} {res : UInt8} {a : Rec} {post : List Rec}
    {b mc : Nat} {content : Bytes} {s0 : ExitStatus} {pr : Bool} {more : List (List HOp × Bool)} {t : Transport} {fuel : Nat}
    (hwf : WellFormedPreamble p recs) (hrole : p.role = 3)
    (hpairs : ∀ q ∈ p.pairs, (NV.enc q).length ≤ alignedBufsize b)
    (hnoise : NoiseFits (alignedBufsize b) recs)
    (hbody : Body p.id 5 content sbody) (hpf : NoiseFits (alignedBufsize b) sbody) (hpad : pad.length < 256)
    (hmid : ∀ r ∈ mid, StdinRec p.id r) (hmf : NoiseFits (alignedBufsize b) mid) (ha : IsAbort p.id a)
    (hpost : ∀ r ∈ post, r.WF) (hpostf : NoiseFits (alignedBufsize b) post)
    (hnb : ∀ r ∈ post, r.rtype.toNat ≠ RT.beginRequest)
    (hin : t.input = serAll recs ++ (gapX p.id sbody pad res mid a post)) (hben : Ben t)
    (hev : hsCount t.events = 0) (hfuel : t.rd.length + t.wr.length + 1 ≤ fuel)
    (hsize : 6 * t.input.length + 26 ≤ 100000) :
    ∃ c' fin, runTask fuel (connS b mc t ((rscript s0, pr) :: more)) 0 none = (c', fin) ∧
      FilterAbortOutcome p recs (gapPre p.id sbody pad res mid) a post b mc (closeStatus pr s0) more t c' fin := by
  have hid := (pid_of_wf hwf).2
  have hX31 : (gapX p.id sbody pad res mid a post).length ≤ 31000 := by
    have := congrArg List.length hin
    simp only [List.length_append] at this ⊢
    omega
  have hwa := isAbort_wf ha hid
  have hidleA : IdleNoise a := ⟨hwa, fun hx => absurd hx (by rw [ha.1]; decide)⟩
  have hidle : ∀ e ∈ a :: post, IdleNoise e := by
    intro e he
    rcases List.mem_cons.1 he with rfl | he
    · exact hidleA
    · exact idle_of_noBegin hpost hnb e he
  have hfit : NoiseFits (alignedBufsize b) (a :: post) := by
    intro e he hg
    rcases List.mem_cons.1 he with rfl | he
    · exact absurd hg.1 (by rw [ha.1]; decide)
    · exact hpostf e he hg
  have ok := fr2ok_of (post := post) (mc := mc) (s0 := s0) (pr := pr) t.wlog 0 more hwf hrole hpairs hnoise hbody hpf hpad hmid hmf hpost hpostf ha hX31
  obtain ⟨hns, hNF⟩ := idle_front dummy_wf b mc (fun q hq => by cases hq) (dummy_fits _) hidle hfit []
  rw [serAll_cons] at hns hNF
  have hst : FStageP (cfgFR2 p recs content sbody pad res mid a post b mc s0 (closeStatus pr s0) t.wlog 0 more) pr (connS b mc t ((rscript s0, pr) :: more)) :=
    .start (raw := []) rfl (by show [] ++ t.input = _; rw [hin]; rfl) (Nat.zero_le _) rfl hben rfl rfl rfl hev
  obtain ⟨c', fin, hrun, hres⟩ := run_filterR2 ok (Z := serAll dummyRecs ++ []) hns hNF
    t.endMode [] _ 0 fuel hst rfl (fun s hs => by cases hs) rfl (by show ans t + 1 ≤ fuel; unfold ans; omega) hsize
  have hLf := lfo2_eq (p := p) (recs := recs) (content := content) (sbody := sbody) (pad := pad) (res := res) (mid := mid) (a := a) (post := post) (b := b) (mc := mc) (s0 := s0) (stc := closeStatus pr s0)
    (L0 := t.wlog) (h := 0) (more := more) [] (fun _ h => nomatch h)
  have hLf' : (cfgFR2 p recs content sbody pad res mid a post b mc s0 (closeStatus pr s0) t.wlog 0 more).LfO ((cfgFR2 p recs content sbody pad res mid a post b mc s0 (closeStatus pr s0) t.wlog 0 more).Ow2 mid) =
      t.wlog ++ (owedPreamble p mc recs ++ owedActive p.id mc (gapPre p.id sbody pad res mid) ++ endRequest p.id (closeStatus pr s0)) := by
    have e : (cfgFR2 p recs content sbody pad res mid a post b mc s0 (closeStatus pr s0) t.wlog 0 more).front [] = cfgFR2 p recs content sbody pad res mid a post b mc s0 (closeStatus pr s0) t.wlog 0 more := rfl
    rw [e] at hLf
    rw [hLf]; simp [idleOwed]
  rcases hres with ⟨_, hk, hkp, hem, _, _, _, hend⟩ | ⟨hfin, hfu, _, _⟩
  · have hout : ∀ F, F ++ (serAll dummyRecs ++ []) = a.ser ++ serAll post ++ (serAll dummyRecs ++ []) →
        (cfgFR2 p recs content sbody pad res mid a post b mc s0 (closeStatus pr s0) t.wlog 0 more).LfO ((cfgFR2 p recs content sbody pad res mid a post b mc s0 (closeStatus pr s0) t.wlog 0 more).Ow2 mid) ++ (run .header F mc).out =
        t.wlog ++ (owedPreamble p mc recs ++ owedActive p.id mc (gapPre p.id sbody pad res mid) ++ endRequest p.id (closeStatus pr s0) ++ idleOwed mc post) := by
      intro F hF
      have hro := (run_idle_out mc (a :: post) hidle).1
      rw [serAll_cons] at hro
      rw [List.append_cancel_right hF, hro, hLf', idleOwed_cons, owed_idle_abort ha, List.nil_append]
      simp only [List.append_assoc]
    refine ⟨c', fin, hrun, ⟨hkp.hs, hkp.ev _ List.mem_cons_self⟩, hkp.sc, Or.inl ⟨hk, ?_, ?_⟩⟩
    · rcases hend with ⟨_, hp⟩ | ⟨_, hf⟩
      · obtain ⟨F, hF, _, _, hlg⟩ := hp.pst
        exact hlg.trans (hout F hF)
      · obtain ⟨F, hF, hlg⟩ := hf.log
        exact hlg.trans (hout F hF)
    · rcases hend with ⟨rfl, hp⟩ | ⟨rfl, hf⟩
      · obtain ⟨F, hF, hps, hph, _⟩ := hp.pst
        have hFe : F = a.ser ++ serAll post := List.append_cancel_right hF
        subst hFe
        exact Or.inr ⟨hem.symm.trans hp.em, rfl, hph, hp.inp, hkp.mx, hps.stop, hps.ben⟩
      · exact Or.inl ⟨hem.symm.trans hf.em, rfl, hf.ph⟩
  · exact ⟨c', fin, hrun, ⟨hfu.ev.1, hfu.ev.2⟩, hfu.sc, Or.inr ⟨hfu.nokeep, hfin, hfu.ph, hfu.log.trans hLf'⟩⟩

/-- **The chain step** (KEEP_CONN): after the aborted Filter request of `filter_abort_gap_e2e` a
closed-loop client sends the keep-alive requests `x :: xs` (`UReq.OK`): the abort record and `post` are
swallowed by the next `parse_request` (`post` answered as idle noise), then each request is served
exactly as alone (`UReq.Seg`). -/
theorem filter_abort_gap_chain_e2e {p : Preamble} {recs sbody mid : List Rec} {pad : Bytes} {res : UInt8} {a : Rec} {post : List Rec}
    {b mc : Nat} {content : Bytes} {s0 : ExitStatus} {pr : Bool} (x : UReq) (xs : List UReq) {t : Transport} {fuel : Nat}
    (hwf : WellFormedPreamble p recs) (hrole : p.role = 3) (hk : p.flags.toNat % 2 = 1)
    (hpairs : ∀ q ∈ p.pairs, (NV.enc q).length ≤ alignedBufsize b)
    (hnoise : NoiseFits (alignedBufsize b) recs)
    (hbody : Body p.id 5 content sbody) (hpf : NoiseFits (alignedBufsize b) sbody) (hpad : pad.length < 256)
    (hmid : ∀ r ∈ mid, StdinRec p.id r) (hmf : NoiseFits (alignedBufsize b) mid) (ha : IsAbort p.id a)
    (hpost : ∀ r ∈ post, r.WF) (hpostf : NoiseFits (alignedBufsize b) post)
    (hnb : ∀ r ∈ post, r.rtype.toNat ≠ RT.beginRequest)
    (hok : ∀ y ∈ x :: xs, y.OK b)
    (hin : t.input = serAll recs ++ (gapX p.id sbody pad res mid a post)) (hben : Ben t) (hem : t.endMode = .pend)
    (hev : hsCount t.events = 0) (hfuel : t.rd.length + t.wr.length + 1 ≤ fuel)
    (hsize : 6 * t.input.length + 26 ≤ 100000) :
    ∃ c' A,
      closedLoop fuel ((x :: xs).map UReq.wire)
        (connS b mc t ((rscript s0, pr) :: (x :: xs).map UReq.handler)) 0 = (c', "STALL") ∧
      SegsAll mc (x :: xs) A ∧
      c'.env.tr.wlog = t.wlog ++ (owedPreamble p mc recs ++ owedActive p.id mc (gapPre p.id sbody pad res mid) ++ endRequest p.id (closeStatus pr s0) ++
        idleOwed mc post) ++ A ∧
      hsCount c'.env.tr.events = 1 + (x :: xs).length ∧
      startEvent p.request ∈ c'.env.tr.events ∧
      (∀ y ∈ x :: xs, startEvent y.p.request ∈ c'.env.tr.events) ∧ c'.scripts = [] ∧
      c'.env.tr.input = [] ∧
      c'.phase = .parseReq (track (alignedBufsize b) mc (serAll ((x :: xs).getLast (by simp)).left)) .reading := by
  have hid := (pid_of_wf hwf).2
  have hX31 : (gapX p.id sbody pad res mid a post).length ≤ 31000 := by
    have := congrArg List.length hin
    simp only [List.length_append] at this ⊢
    omega
  have hwa := isAbort_wf ha hid
  have hidle : ∀ e ∈ a :: post, IdleNoise e := by
    intro e he
    rcases List.mem_cons.1 he with rfl | he
    · exact ⟨hwa, fun hx => absurd hx (by rw [ha.1]; decide)⟩
    · exact idle_of_noBegin hpost hnb e he
  have hfit : NoiseFits (alignedBufsize b) (a :: post) := by
    intro e he hg
    rcases List.mem_cons.1 he with rfl | he
    · exact absurd hg.1 (by rw [ha.1]; decide)
    · exact hpostf e he hg
  have hlo : LeftOK (alignedBufsize b) (a :: post) := ⟨hidle, hfit⟩
  have ok := fr2ok_of (post := post) (mc := mc) (s0 := s0) (pr := pr) t.wlog 0 (((x :: xs).map (UReq.spec mc)).map RSpec.handler)
    hwf hrole hpairs hnoise hbody hpf hpad hmid hmf hpost hpostf ha hX31
  have hstart : StartAt (alignedBufsize b) mc [] t.wlog
      ((rscript s0, pr) :: ((x :: xs).map (UReq.spec mc)).map RSpec.handler) 0 [] (ans t)
      (serAll recs ++ (gapX p.id sbody pad res mid a post))
      (connS b mc t ((rscript s0, pr) :: ((x :: xs).map (UReq.spec mc)).map RSpec.handler)) :=
    Or.inr ⟨rfl, rfl, hin, rfl, hben, rfl, rfl, rfl, hev, (fun _ hs => nomatch hs), rfl, hem, Nat.le_refl _⟩
  have hleft0 : LeftOK (alignedBufsize b) [] := ⟨(fun _ he => nomatch he), (fun _ hr => nomatch hr)⟩
  obtain ⟨c1, hrun1, hw1⟩ := serve_filterR2_core ok hk (left := []) hleft0 (Z := x.wire) hidle
    (goodNext_of_ok (hok x List.mem_cons_self) hlo) 0 fuel (by simp [idleOwed]; rfl) hstart (by unfold ans; omega)
    (by show 6 * (serAll recs ++ (gapX p.id sbody pad res mid a post)).length + 26 ≤ _; rw [← hin]; exact hsize)
  have hLf := lfo2_eq (p := p) (recs := recs) (content := content) (sbody := sbody) (pad := pad) (res := res) (mid := mid) (a := a) (post := post) (b := b) (mc := mc) (s0 := s0) (stc := closeStatus pr s0)
    (L0 := t.wlog) (h := 0) (more := ((x :: xs).map (UReq.spec mc)).map RSpec.handler) [] (fun _ h => nomatch h)
  have hLw : ((cfgFR2 p recs content sbody pad res mid a post b mc s0 (closeStatus pr s0) t.wlog 0 (((x :: xs).map (UReq.spec mc)).map RSpec.handler)).front []).LfO ((cfgFR2 p recs content sbody pad res mid a post b mc s0 (closeStatus pr s0) t.wlog 0 (((x :: xs).map (UReq.spec mc)).map RSpec.handler)).Ow2 mid) ++
      idleOwed mc (a :: post) =
      t.wlog ++ (owedPreamble p mc recs ++ owedActive p.id mc (gapPre p.id sbody pad res mid) ++ endRequest p.id (closeStatus pr s0) ++ idleOwed mc post) := by
    rw [hLf, idleOwed_cons, owed_idle_abort ha, List.nil_append]
    simp [idleOwed, List.append_assoc]
  have hw1' : Waiting (alignedBufsize b) mc (a :: post)
      (t.wlog ++ (owedPreamble p mc recs ++ owedActive p.id mc (gapPre p.id sbody pad res mid) ++ endRequest p.id (closeStatus pr s0) ++ idleOwed mc post))
      (((x :: xs).map (UReq.spec mc)).map RSpec.handler) 1 [hsEvent p.request] (ans t) c1 := by
    rw [← hLw]; exact hw1
  obtain ⟨c', A, hrun, hseg, hw⟩ := chain_serves (alignedBufsize b) mc (serAll dummyRecs ++ [])
    (xs.map (UReq.spec mc)) (UReq.spec mc x) (a :: post) _ 1 [hsEvent p.request] (ans t) (feed c1 x.wire) 1000 fuel
    (hall_of_ok x xs hok) hlo (Or.inl ⟨c1, hw1', rfl⟩) (by unfold ans; omega)
  have hrun' : closedLoop fuel ((x :: xs).map UReq.wire)
      (connS b mc t ((rscript s0, pr) :: (x :: xs).map UReq.handler)) 0 = (c', "STALL") := by
    have e : (x :: xs).map UReq.handler = ((x :: xs).map (UReq.spec mc)).map RSpec.handler := by
      rw [List.map_map]; rfl
    rw [e]
    show closedLoop fuel (x.wire :: xs.map UReq.wire) _ 0 = _
    rw [closedLoop, hrun1]
    simp only [if_true]
    rw [← hrun, List.map_map]; rfl
  have hlast := lastLeft_specs mc x xs
  refine ⟨c', A, hrun', segAll_specs mc (x :: xs) A hseg, hw.log, ?_, ?_, ?_, hw.sc, hw.inp, ?_⟩
  · have := hw.hs; simpa [Nat.add_comm] using this
  · exact hw.ev _ (mem_evsAfter _ _ _ (Or.inl List.mem_cons_self))
  · intro y hy
    exact hw.ev _ (mem_evsAfter _ _ _ (Or.inr ⟨UReq.spec mc y, List.mem_map_of_mem hy, rfl⟩))
  · rw [← hlast]; exact hw.ph


/-! ## Non-vacuity -/
namespace Example2
open Fcgi.C01.Example Fcgi.C07E.Example Fcgi.C07U.Example Fcgi.C11F.Example

/-- `Stdin("AB")`, no terminator -/
def fS1 : List Rec := [ { rtype := 5, id := 1, content := [65, 66], pad := [] } ]
theorem fS1_body : Body 1 5 [65, 66] fS1 := Body.chunk [65, 66] [] 0 (by decide) (by decide) Body.nil
theorem fS1_fits (M : Nat) : NoiseFits M fS1 := no_getValues_fits (by decide)

/-- what follows the abort record in cell (i): the Stdin terminator and the Data stream `fD` -/
def postI : List Rec := { rtype := 5, id := 1, content := [], pad := [] } :: fD
theorem postI_wf : ∀ r ∈ postI, r.WF := by
  intro r hr
  rcases List.mem_cons.1 hr with rfl | hr
  · exact ⟨by decide, by decide, by decide⟩
  · exact fD_wf r hr
theorem postI_fits : NoiseFits (alignedBufsize 64) postI := by
  intro r hr hg
  rcases List.mem_cons.1 hr with rfl | hr
  · exact absurd hg.1 (by decide)
  · exact fD_fits r hr hg
theorem postI_noBegin : ∀ r ∈ postI, r.rtype.toNat ≠ RT.beginRequest := by decide

/-- cell (a)(i), KEEP_CONN: the abort record sits inside Stdin (behind `Stdin("AB")`) -/
def fr1T : Transport :=
  { input := serAll recsFK ++ (serAll (fS1 ++ [aR]) ++ serAll postI), endMode := .pend,
    rd := [.n 24, .n 7, .pending, .n 9, .all], wr := [.n 5, .pending, .all], fl := [] }

/-- `filter_abort_stdin_e2e` applied to cell (a)(i) (propagating handler, KEEP_CONN).  Replayed
(`# case c11f-keep-i-R,s8,R,Xcomplete:3-24,7,P,9,A`, model driver = crate): `… HS(3,1,-) R64:7 R57:P |1
R57:9 R58:54 R!abort-request:2:4142 HE(err:abort-request) W16:5 W11:P |2 W11:11 W32:32 R64:W STALL`: the
handler's first `readAll` fails (it had collected `"AB"`), the handler ends with the error; the 16-byte bare
`EndRequest(1, ABORT)` (appStatus `41 42 52 54` = `"ABRT"`) is written — no empty Stdout / Stderr —;
the next `parse_request` swallows the abort record, the Stdin terminator and the abandoned Data stream
(its `GetValues` record answered, `W32`). -/
example : ∃ c', runTask 20 (connS 64 10 fr1T [(rscript (.complete 3), true)]) 0 none = (c', "STALL") ∧
    c'.env.tr.wlog = [1, 3, 0, 1, 0, 8, 0, 0, 65, 66, 82, 84, 0, 0, 0, 0] ++ idleOwed 10 postI ∧
    c'.phase = .parseReq (track 64 10 (aR.ser ++ serAll postI)) .reading ∧
    hsCount c'.env.tr.events = 1 ∧ c'.env.tr.input = [] := by
  obtain ⟨c', fin, hrun, ho⟩ := filter_abort_stdin_e2e (p := preFK) (recs := recsFK) (pre := fS1) (a := aR)
    (post := postI) (b := 64) (mc := 10) (content := [65, 66]) (s0 := .complete 3) (pr := true) (more := [])
    (t := fr1T) (fuel := 20)
    recsFK_wf rfl (fun q hq => by cases hq) (recsFK_fits _) fS1_body (fS1_fits _) aR_abort postI_wf postI_fits
    postI_noBegin rfl ⟨by decide, by decide, rfl, by decide⟩ rfl (by decide) (by decide +kernel)
  rcases ho.final with ⟨_, hlog, hf⟩ | ⟨h, _⟩
  · rcases hf with ⟨h, _⟩ | ⟨_, hfin, hph, hin, _⟩
    · exact absurd h (by decide)
    · subst hfin
      refine ⟨c', hrun, ?_, hph, ho.one_handler.1, hin⟩
      rw [hlog]
      show [] ++ (owedPreamble preFK 10 recsFK ++ owedActive 1 10 fS1 ++ endRequest 1 ExitStatus.abort ++
        idleOwed 10 postI) = _
      have h1 : owedPreamble preFK 10 recsFK = [] := by decide +kernel
      have h2 : owedActive 1 10 fS1 = [] := by decide +kernel
      rw [h1, h2]
      simp only [List.nil_append]
      rfl
  · exact absurd h (by decide)

/-- cell (b)(ii), KEEP_CONN: `Stdin("AB")`, the Stdin terminator, the abort record, the Data stream `fD` -/
def fr2T : Transport :=
  { input := serAll recsFK ++ gapX 1 fS1 [] 0 [] aR fD, endMode := .pend,
    rd := [.n 24, .n 7, .pending, .n 9, .all], wr := [.n 5, .pending, .all], fl := [] }

/-- `filter_abort_gap_e2e` applied to cell (b)(ii) (handler ignoring errors, KEEP_CONN).  Replayed
(`# case c11f-keep-ii-~R,s8,R,Xcomplete:3-24,7,P,9,A`, model driver = crate): `… R=2:4142 s=ok
R!abort-request:0:- HE(ok:complete:3) W16:5 W11:P |2 W11:11 W32:32 R64:W STALL`: the first `readAll` returns
`"AB"`, `set_stream(Data)`, the second fails at once; the handler returns `Complete(3)`; bare
`EndRequest(1, Complete(3))`. -/
example : ∃ c', runTask 20 (connS 64 10 fr2T [(rscript (.complete 3), false)]) 0 none = (c', "STALL") ∧
    c'.env.tr.wlog = [1, 3, 0, 1, 0, 8, 0, 0, 0, 0, 0, 3, 0, 0, 0, 0] ++ idleOwed 10 fD ∧
    c'.phase = .parseReq (track 64 10 (aR.ser ++ serAll fD)) .reading ∧
    hsCount c'.env.tr.events = 1 ∧ c'.env.tr.input = [] := by
  obtain ⟨c', fin, hrun, ho⟩ := filter_abort_gap_e2e (p := preFK) (recs := recsFK) (sbody := fS1) (pad := [])
    (res := 0) (mid := []) (a := aR)
    (post := fD) (b := 64) (mc := 10) (content := [65, 66]) (s0 := .complete 3) (pr := false) (more := [])
    (t := fr2T) (fuel := 20)
    recsFK_wf rfl (fun q hq => by cases hq) (recsFK_fits _) fS1_body (fS1_fits _) (by decide) (fun _ h => nomatch h)
    (fun _ h => nomatch h) aR_abort fD_wf fD_fits
    fD_noBegin rfl ⟨by decide, by decide, rfl, by decide⟩ rfl (by decide) (by decide +kernel)
  rcases ho.final with ⟨_, hlog, hf⟩ | ⟨h, _⟩
  · rcases hf with ⟨h, _⟩ | ⟨_, hfin, hph, hin, _⟩
    · exact absurd h (by decide)
    · subst hfin
      refine ⟨c', hrun, ?_, hph, ho.one_handler.1, hin⟩
      rw [hlog]
      show [] ++ (owedPreamble preFK 10 recsFK ++ owedActive 1 10 (gapPre 1 fS1 [] 0 []) ++
        endRequest 1 (.complete 3) ++ idleOwed 10 fD) = _
      have h1 : owedPreamble preFK 10 recsFK = [] := by decide +kernel
      have h2 : owedActive 1 10 (gapPre 1 fS1 [] 0 []) = [] := by decide +kernel
      rw [h1, h2]
      simp only [List.nil_append]
      rfl
  · exact absurd h (by decide)

end Example2

end Fcgi.C11F
