import Fcgi.Proofs.E2EChainIdx
import Fcgi.Props.C12Chain
/-!
# C12 — a failing WRITE in the last request of a keep-alive chain, addressed by answer index

`Props/C12Chain` lifts EOF / a read error at a byte offset to the last request of a chain, but not faults addressed by
ANSWER INDEX: `E2E.Waiting` does not say how many scripted answers the first `k` requests consumed.

(a) `Proofs/E2EChainIdx`: for EVERY connection and every run (`runTask_suf`, `closedLoop_suf`; no benignity, no
`AllProp`) the write and flush scripts left after the run are suffixes of the original ones — `SufL.drop`:
`t'.wr = t.wr.drop n`, `t'.fl = t.fl.drop m`; the same for the READ script (`RdL`, `runTask_rl`, `closedLoop_rl`,
`RdL.drop`: `t'.rd = t.rd.drop n`).  `chain_prefix_s` / `WaitingS` / `chain_serves_s`: the chain prefix with those
facts.

(b) `write_error_in_last_request_e2e`: `k ≥ 1` complete keep-alive requests `x :: xs` (any `UReq` family), each answered
completely by a closed-loop run on a benign transport `t`; the task parks; the first `k` requests have consumed the
first `n` write answers of the script (`c₁.wr = t.wr.drop n`).  Then the client sends one more complete request `y` (any
`UReq` family — in particular a Responder) and the `i`-th write answer of ITS OWN output — answer `n + i` of the
script — is `bad` (`.err` or `.zero` = `Ok(0)`): the last leg runs on the ACTUAL parked state `c₁`, its write script
`(t.wr.drop n).take i ++ bad :: post` (`feedW`).  Either the failing answer is never reached (the output of `y` needs
at most `i` write calls): `y` is answered completely, the task parks again, `bad :: post` still in the script; or it is
consumed: the task ends `RET` in phase `finished`, the log is the `k` complete segments followed by a byte PREFIX of the
complete answer `Ay` to `y`, the failing call was the LAST transport write (nothing written after it, `C12Inv.Clean /
FailCall / WSame`), the error is the one `bad` produces (and ends the trace as `HE(err:…)` if the handler got it),
and there are `k` or `k + 1` handler starts (`k` only if the failure hit the replies owed for `y`'s preamble).

(c) `read_error_in_last_request_at_index_e2e`: the same with the `i`-th READ answer of the last request (answer `n + i`
of the read script, `c₁.rd = t.rd.drop n`) an error: never reached, or `RET` / `finished` / the log a byte prefix of
the complete answer / `k` or `k + 1` handler starts / the error `ConnectionAborted` or the transport's read error.

Composition: `chain_prefix` + `closedLoop_suf` for the prefix; `Serves` (the chain's own per-request lemma) for the
benign last leg from the parked state with the truncated script; `Indep3.runTask_dich` (the appended `bad :: post`) and
`C12Inv.runTask_write_failure` for the faulty one.  As in `Props/C12Chain` the last leg is a new `runTask` call on the
actual state `c₁` (poll counter restarted).  The prefix itself is run on the benign script: that it runs the same with
`bad` already in the script at position `n + i` is NOT proved (`Indep3` is about one `runTask`, and its "hit" case does
not say that the benign run had exhausted its script).
-/
namespace Fcgi.C12E
open Fcgi Fcgi.Req Fcgi.Str Fcgi.Async Fcgi.Run Fcgi.Spec Fcgi.E2E Fcgi.C07E Fcgi.C07U Fcgi.C12Inv Fcgi.Indep3 Fcgi.EofErr

/-! ## (a) the scripts left after the chain prefix -/

/-- `Waiting` with what is left of the write / flush scripts of the transport `t` the chain started on -/
structure WaitingS (cap mc : Nat) (left : List Rec) (Lw : Bytes) (sc : List (List HOp × Bool)) (h : Nat)
    (evs : List String) (A0 : Nat) (t : Transport) (c : Conn) : Prop where
  w : Waiting cap mc left Lw sc h evs A0 c
  wr : ∃ n, c.env.tr.wr = t.wr.drop n ∧ n + c.env.tr.wr.length = t.wr.length
  fl : ∃ m, c.env.tr.fl = t.fl.drop m ∧ m + c.env.tr.fl.length = t.fl.length
  rd : ∃ n, c.env.tr.rd = t.rd.drop n ∧ n + c.env.tr.rd.length = t.rd.length

/-- `chain_serves_sc` exposing the scripts: what is left after the served requests are suffixes of what the
connection started with -/
theorem chain_serves_s (cap mc : Nat) (Zend : Bytes) (sc : List (List HOp × Bool))
    (xs : List RSpec) (x : RSpec) (left : List Rec) (Lw : Bytes) (h : Nat) (evs : List String) (A0 : Nat)
    (c : Conn) (n fuel : Nat)
    (hall : ∀ ys y zs, x :: xs = ys ++ y :: zs → Serves cap mc y (nextW Zend zs) ∧ LeftOK cap y.left)
    (hleft : LeftOK cap left) (hstart : StartAt cap mc left Lw ((x :: xs).map RSpec.handler ++ sc) h evs A0 x.W c)
    (hf : A0 + 1 ≤ fuel) :
    ∃ c' A, closedLoop fuel (xs.map RSpec.W) c n = (c', "STALL") ∧ SegAll (x :: xs) A ∧
      WaitingS cap mc (lastLeft xs x.left) (Lw ++ A) sc (h + (x :: xs).length) (evsAfter (x :: xs) evs) A0 c.env.tr c' := by
  obtain ⟨c', A, hrun, hseg, hw⟩ := chain_serves_sc cap mc Zend sc xs x left Lw h evs A0 c n fuel hall hleft hstart hf
  have hs := closedLoop_suf fuel (xs.map RSpec.W) c n
  rw [hrun] at hs
  obtain ⟨a, m, h1, h2, h3, h4⟩ := hs.drop
  have hr := closedLoop_rl fuel (xs.map RSpec.W) c n
  rw [hrun] at hr
  exact ⟨c', A, hrun, hseg, hw, ⟨a, h1, h2⟩, ⟨m, h3, h4⟩, hr.drop⟩

/-- `chain_prefix` exposing the scripts -/
theorem chain_prefix_s {b mc : Nat} (x : UReq) (xs : List UReq) (sc : List (List HOp × Bool)) {t : Transport} {fuel : Nat}
    (hok : ∀ y ∈ x :: xs, y.OKu b) (hleft : ((x :: xs).getLast (by simp)).left = [])
    (hin : t.input = x.wire) (hben : Ben t) (hem : t.endMode = .pend) (hev : hsCount t.events = 0)
    (hfuel : t.rd.length + t.wr.length + 1 ≤ fuel) :
    ∃ c₁ A, closedLoop fuel (xs.map UReq.wire) (connS b mc t ((x :: xs).map UReq.handler ++ sc)) 0 = (c₁, "STALL") ∧
      SegsAll mc (x :: xs) A ∧
      WaitingS (alignedBufsize b) mc [] (t.wlog ++ A) sc (x :: xs).length
        (evsAfter ((x :: xs).map (UReq.spec mc)) []) (ans t) t c₁ := by
  obtain ⟨c₁, A, hrun, hseg, hw⟩ := chain_prefix (mc := mc) x xs sc hok hleft hin hben hem hev hfuel
  have hs := closedLoop_suf fuel (xs.map UReq.wire) (connS b mc t ((x :: xs).map UReq.handler ++ sc)) 0
  rw [hrun] at hs
  obtain ⟨a, m, h1, h2, h3, h4⟩ := (show SufL c₁.env.tr t from hs).drop
  have hr := closedLoop_rl fuel (xs.map UReq.wire) (connS b mc t ((x :: xs).map UReq.handler ++ sc)) 0
  rw [hrun] at hr
  exact ⟨c₁, A, hrun, hseg, hw, ⟨a, h1, h2⟩, ⟨m, h3, h4⟩, (show RdL t c₁.env.tr from hr).drop⟩

/-! ## (b) a failing write in the last request -/

/-- the peer sends `w`; the write answers still to come are `wr` -/
def feedW (c : Conn) (w : Bytes) (wr : List WrAns) : Conn :=
  { c with env := { c.env with tr := { c.env.tr with input := w, wr := wr } } }

/-- the parked connection with the write answers still to come replaced -/
def setWr (c : Conn) (wr : List WrAns) : Conn :=
  { c with env := { c.env with tr := { c.env.tr with wr := wr } } }

theorem feedW_ext (c : Conn) (w : Bytes) (pre : List WrAns) (xw : List WrAns) :
    feedW c w (pre ++ xw) = extC ⟨[], xw, []⟩ (feed (setWr c pre) w) := by
  obtain ⟨phase, env, scripts, stop⟩ := c
  obtain ⟨tr, mutex, segs⟩ := env
  obtain ⟨input, endMode, rd, wr, fl, wlog, events, hold, woken, readWaker, abortKind⟩ := tr
  simp [feedW, extC, extE, ext, E2E.feed, setWr]

theorem uhandler_prop (y : UReq) : y.handler.2 = true := by
  cases y with
  | full q => cases q <;> rfl
  | unread => rfl

/-- **C12 end to end: the `i`-th write answer of the LAST request's own output fails** (answer `n + i` of the script,
`n` = the number of write answers the first `k` requests consumed).  As the module doc says: the fault is inserted into the script at the
hand-over (the first `k` requests run on the benign script); the fault present from the start is `…_whole` in `Props/C12Chain3.lean`. -/
theorem write_error_in_last_request_e2e {b mc : Nat} (x : UReq) (xs : List UReq) (y : UReq) {t : Transport} {fuel : Nat}
    (i : Nat) (bad : WrAns) (post : List WrAns) (hbad : bad = .err ∨ bad = .zero)
    (hok : ∀ z ∈ x :: xs, z.OKu b) (hoky : y.OKu b) (hleft : ((x :: xs).getLast (by simp)).left = [])
    (hin : t.input = x.wire) (hben : Ben t) (hem : t.endMode = .pend) (hev : hsCount t.events = 0)
    (hfuel : t.rd.length + t.wr.length + 1 ≤ fuel) :
    ∃ c₁ A n,
      -- the first `k` requests: served, the task parked; they consumed the first `n` write answers
      closedLoop fuel (xs.map UReq.wire) (connS b mc t ((x :: xs).map UReq.handler ++ [y.handler])) 0 = (c₁, "STALL") ∧
      SegsAll mc (x :: xs) A ∧ c₁.env.tr.wlog = t.wlog ++ A ∧ hsCount c₁.env.tr.events = (x :: xs).length ∧
      c₁.env.tr.wr = t.wr.drop n ∧ n + c₁.env.tr.wr.length = t.wr.length ∧
      -- the last request, its `i`-th own write answer failing
      ∃ c' fin Ay, runTask fuel (feedW c₁ y.wire ((t.wr.drop n).take i ++ bad :: post)) 0 none = (c', fin) ∧
        y.Seg mc Ay ∧
        ((fin = "STALL" ∧ c'.env.tr.wlog = t.wlog ++ A ++ Ay ∧ hsCount c'.env.tr.events = (x :: xs).length + 1 ∧
            ∃ rest, c'.env.tr.wr = rest ++ bad :: post) ∨
         (fin = "RET" ∧ c'.phase = .finished ∧
          (∃ w, c'.env.tr.wlog = t.wlog ++ A ++ w ∧ w <+: Ay) ∧
          (x :: xs).length ≤ hsCount c'.env.tr.events ∧ hsCount c'.env.tr.events ≤ (x :: xs).length + 1 ∧
          (∃ e inH, WrErrOf bad e ∧ (inH = true → ∃ evs, c'.env.tr.events = evs ++ [handlerErrEv e])) ∧
          (∃ t1 t2, Clean (feedW c₁ y.wire ((t.wr.drop n).take i ++ bad :: post)).env.tr t1 ∧ FailCall t1 t2 ∧
            WSame t2 c'.env.tr ∧ c'.env.tr.wlog = t1.wlog))) := by
  obtain ⟨c₁, A, hrun, hseg, hw, ⟨n, hn1, hn2⟩, _, _⟩ :=
    chain_prefix_s (mc := mc) x xs [y.handler] hok hleft hin hben hem hev hfuel
  refine ⟨c₁, A, n, hrun, hseg, hw.log, hw.hs, hn1, hn2, ?_⟩
  -- the benign last leg, on the script truncated in front of the failing answer
  have hsub : ∀ a ∈ (t.wr.drop n).take i, a ∈ c₁.env.tr.wr := fun a ha => by rw [hn1]; exact List.mem_of_mem_take ha
  have hlen : ((t.wr.drop n).take i).length ≤ c₁.env.tr.wr.length := by rw [hn1]; exact List.length_take_le' _ _
  have hwW : Waiting (alignedBufsize b) mc [] (t.wlog ++ A) [y.handler] (x :: xs).length
      (evsAfter ((x :: xs).map (UReq.spec mc)) []) (ans t) (setWr c₁ ((t.wr.drop n).take i)) :=
    ⟨hw.ph, hw.nf, hw.rem, hw.inp, hw.log, hw.logL, hw.stop,
      ⟨hw.ben.rd, fun a ha => hw.ben.wr a (hsub a ha), hw.ben.hold, hw.ben.em⟩, hw.sc, hw.mtx, hw.hs, hw.ev, hw.segs, hw.em,
      by have := hw.ans; unfold ans at this ⊢
         show c₁.env.tr.rd.length + ((t.wr.drop n).take i).length ≤ _
         omega⟩
  have hsv := (hall_of_oku (mc := mc) y [] (fun z hz => by rw [List.mem_singleton.1 hz]; exact hoky)
    [] (UReq.spec mc y) [] rfl).1
  obtain ⟨c2, Ay, hrun2, hsegy, hw2⟩ := hsv [] (t.wlog ++ A) [] (x :: xs).length
    (evsAfter ((x :: xs).map (UReq.spec mc)) []) (ans t) (feed (setWr c₁ ((t.wr.drop n).take i)) y.wire) 0 fuel
    ⟨(fun _ he => nomatch he), (fun _ hr => nomatch hr)⟩ (Or.inl ⟨_, hwW, rfl⟩) (by unfold ans; omega)
  have hX : Bad ⟨[], bad :: post, []⟩ :=
    ⟨Or.inl rfl, Or.inr ⟨bad, post, rfl, by rcases hbad with rfl | rfl <;> rfl⟩, Or.inl rfl⟩
  have hc := feedW_ext c₁ y.wire ((t.wr.drop n).take i) (bad :: post)
  have hp : AllProp (feed (setWr c₁ ((t.wr.drop n).take i)) y.wire) := by
    obtain ⟨phase, env, scripts, stop⟩ := c₁
    have h1 := hw.ph
    have h3 := hw.sc
    simp only at h1 h3
    subst h1 h3
    exact ⟨fun s hs => by
      have hs' : s = y.handler := by simpa [E2E.feed, setWr] using hs
      rw [hs']; exact uhandler_prop y, trivial⟩
  have hlog0 : (feedW c₁ y.wire ((t.wr.drop n).take i ++ bad :: post)).env.tr.wlog = t.wlog ++ A := hw.log
  have hhs0 : hsCount (feedW c₁ y.wire ((t.wr.drop n).take i ++ bad :: post)).env.tr.events = (x :: xs).length := hw.hs
  rcases Indep3.runTask_dich hX fuel (feed (setWr c₁ ((t.wr.drop n).take i)) y.wire) 0 none hp with hsame | ⟨c3, h3, hhit⟩
  · rw [hrun2] at hsame
    refine ⟨extC ⟨[], bad :: post, []⟩ c2, "STALL", Ay, by rw [hc]; exact hsame, hsegy, Or.inl ⟨rfl, hw2.log, hw2.hs, ?_⟩⟩
    exact ⟨c2.env.tr.wr, rfl⟩
  · rw [hrun2] at hhit
    simp only at hhit
    have hp2 : AllProp (feedW c₁ y.wire ((t.wr.drop n).take i ++ bad :: post)) := by
      rw [hc]; exact ⟨hp.1, hp.2⟩
    have hrun3 : runTask fuel (feedW c₁ y.wire ((t.wr.drop n).take i ++ bad :: post)) 0 none = (c3, "RET") := by
      rw [hc]; exact h3
    obtain ⟨⟨w, hw'⟩, hge⟩ := Indep3.runTask_grow fuel (feedW c₁ y.wire ((t.wr.drop n).take i ++ bad :: post)) 0 none
    rw [hrun3] at hw' hge
    simp only at hw' hge
    rw [hlog0] at hw'
    rw [hhs0] at hge
    have hpre := hhit.rel.log
    rw [hw', hw2.log] at hpre
    have hwf' : WriteFailed (feedW c₁ y.wire ((t.wr.drop n).take i ++ bad :: post)).env.tr c3.env.tr := by
      rcases hhit.rel.used with ⟨_, _, h, _⟩ | ⟨b', post', h, hsuf⟩ | ⟨_, _, h, _⟩
      · cases h
      · simp only [List.cons.injEq] at h
        obtain ⟨rfl, rfl⟩ := h
        obtain ⟨z, hz⟩ := hsuf
        left
        refine ⟨(t.wr.drop n).take i ++ bad :: z, ?_, bad, by simp, by rcases hbad with rfl | rfl <;> rfl⟩
        show (t.wr.drop n).take i ++ bad :: post = _
        rw [← hz]; simp
      · cases h
    obtain ⟨_, _, t1, t2, hcl, hfc, hws, hlog⟩ := runTask_write_failure hp2 hrun3 hwf'
    obtain ⟨e, inH, he, hlast⟩ := hhit.err
    have he' : WrErrOf bad e := by
      rcases he with ⟨⟨_, h⟩, _⟩ | ⟨⟨_, h⟩, h2⟩ | ⟨⟨_, h⟩, h2⟩ | ⟨⟨_, h⟩, _⟩
      · cases h
      · simp only [List.cons.injEq] at h; exact Or.inl ⟨h.1, h2⟩
      · simp only [List.cons.injEq] at h; exact Or.inr ⟨h.1, h2⟩
      · cases h
    have hhs := hhit.rel.hs
    rw [hw2.hs] at hhs
    exact ⟨c3, "RET", Ay, hrun3, hsegy, Or.inr ⟨rfl, hhit.ph,
      ⟨w, hw', (List.prefix_append_right_inj _).1 hpre⟩, hge, hhs, ⟨e, inH, he', hlast⟩, t1, t2, hcl, hfc, hws, hlog⟩⟩


/-! ## (c) an erroring read in the last request -/

/-- the peer sends `w`; the read answers still to come are `rd` -/
def feedR (c : Conn) (w : Bytes) (rd : List RdAns) : Conn :=
  { c with env := { c.env with tr := { c.env.tr with input := w, rd := rd } } }

/-- the parked connection with the read answers still to come replaced -/
def setRd (c : Conn) (rd : List RdAns) : Conn :=
  { c with env := { c.env with tr := { c.env.tr with rd := rd } } }

theorem feedR_ext (c : Conn) (w : Bytes) (pre : List RdAns) (xr : List RdAns) :
    feedR c w (pre ++ xr) = extC ⟨xr, [], []⟩ (E2E.feed (setRd c pre) w) := by
  obtain ⟨phase, env, scripts, stop⟩ := c
  obtain ⟨tr, mutex, segs⟩ := env
  obtain ⟨input, endMode, rd, wr, fl, wlog, events, hold, woken, readWaker, abortKind⟩ := tr
  simp [feedR, extC, extE, ext, E2E.feed, setRd]

/-- **C12 end to end: the `i`-th read answer of the LAST request fails** (answer `n + i` of the read script, `n` = the
number of read answers the first `k` requests consumed). -/
theorem read_error_in_last_request_at_index_e2e {b mc : Nat} (x : UReq) (xs : List UReq) (y : UReq) {t : Transport}
    {fuel : Nat} (i : Nat) (post : List RdAns)
    (hok : ∀ z ∈ x :: xs, z.OKu b) (hoky : y.OKu b) (hleft : ((x :: xs).getLast (by simp)).left = [])
    (hin : t.input = x.wire) (hben : Ben t) (hem : t.endMode = .pend) (hev : hsCount t.events = 0)
    (hfuel : t.rd.length + t.wr.length + 1 ≤ fuel) :
    ∃ c₁ A n,
      closedLoop fuel (xs.map UReq.wire) (connS b mc t ((x :: xs).map UReq.handler ++ [y.handler])) 0 = (c₁, "STALL") ∧
      SegsAll mc (x :: xs) A ∧ c₁.env.tr.wlog = t.wlog ++ A ∧ hsCount c₁.env.tr.events = (x :: xs).length ∧
      c₁.env.tr.rd = t.rd.drop n ∧ n + c₁.env.tr.rd.length = t.rd.length ∧
      ∃ c' fin Ay, runTask fuel (feedR c₁ y.wire ((t.rd.drop n).take i ++ .err :: post)) 0 none = (c', fin) ∧
        y.Seg mc Ay ∧
        ((fin = "STALL" ∧ c'.env.tr.wlog = t.wlog ++ A ++ Ay ∧ hsCount c'.env.tr.events = (x :: xs).length + 1 ∧
            ∃ rest, c'.env.tr.rd = rest ++ .err :: post) ∨
         (fin = "RET" ∧ c'.phase = .finished ∧
          (∃ w, c'.env.tr.wlog = t.wlog ++ A ++ w ∧ w <+: Ay) ∧
          (x :: xs).length ≤ hsCount c'.env.tr.events ∧ hsCount c'.env.tr.events ≤ (x :: xs).length + 1 ∧
          (∃ e inH, (e = .connectionAborted ∨ e = .transportRead) ∧
            (inH = true → ∃ evs, c'.env.tr.events = evs ++ [handlerErrEv e])))) := by
  obtain ⟨c₁, A, hrun, hseg, hw, _, _, ⟨n, hn1, hn2⟩⟩ :=
    chain_prefix_s (mc := mc) x xs [y.handler] hok hleft hin hben hem hev hfuel
  refine ⟨c₁, A, n, hrun, hseg, hw.log, hw.hs, hn1, hn2, ?_⟩
  have hsub : ∀ a ∈ (t.rd.drop n).take i, a ∈ c₁.env.tr.rd := fun a ha => by rw [hn1]; exact List.mem_of_mem_take ha
  have hlen : ((t.rd.drop n).take i).length ≤ c₁.env.tr.rd.length := by rw [hn1]; exact List.length_take_le' _ _
  have hwW : Waiting (alignedBufsize b) mc [] (t.wlog ++ A) [y.handler] (x :: xs).length
      (evsAfter ((x :: xs).map (UReq.spec mc)) []) (ans t) (setRd c₁ ((t.rd.drop n).take i)) :=
    ⟨hw.ph, hw.nf, hw.rem, hw.inp, hw.log, hw.logL, hw.stop,
      ⟨fun a ha => hw.ben.rd a (hsub a ha), hw.ben.wr, hw.ben.hold, hw.ben.em⟩, hw.sc, hw.mtx, hw.hs, hw.ev, hw.segs, hw.em,
      by have := hw.ans; unfold ans at this ⊢
         show ((t.rd.drop n).take i).length + c₁.env.tr.wr.length ≤ _
         omega⟩
  have hsv := (hall_of_oku (mc := mc) y [] (fun z hz => by rw [List.mem_singleton.1 hz]; exact hoky)
    [] (UReq.spec mc y) [] rfl).1
  obtain ⟨c2, Ay, hrun2, hsegy, hw2⟩ := hsv [] (t.wlog ++ A) [] (x :: xs).length
    (evsAfter ((x :: xs).map (UReq.spec mc)) []) (ans t) (E2E.feed (setRd c₁ ((t.rd.drop n).take i)) y.wire) 0 fuel
    ⟨(fun _ he => nomatch he), (fun _ hr => nomatch hr)⟩ (Or.inl ⟨_, hwW, rfl⟩) (by unfold ans; omega)
  have hX : Bad ⟨.err :: post, [], []⟩ := ⟨Or.inr ⟨post, rfl⟩, Or.inl rfl, Or.inl rfl⟩
  have hc := feedR_ext c₁ y.wire ((t.rd.drop n).take i) (.err :: post)
  have hp : AllProp (E2E.feed (setRd c₁ ((t.rd.drop n).take i)) y.wire) := by
    obtain ⟨phase, env, scripts, stop⟩ := c₁
    have h1 := hw.ph
    have h3 := hw.sc
    simp only at h1 h3
    subst h1 h3
    exact ⟨fun s hs => by
      have hs' : s = y.handler := by simpa [E2E.feed, setRd] using hs
      rw [hs']; exact uhandler_prop y, trivial⟩
  have hlog0 : (feedR c₁ y.wire ((t.rd.drop n).take i ++ .err :: post)).env.tr.wlog = t.wlog ++ A := hw.log
  have hhs0 : hsCount (feedR c₁ y.wire ((t.rd.drop n).take i ++ .err :: post)).env.tr.events = (x :: xs).length := hw.hs
  rcases Indep3.runTask_dich hX fuel (E2E.feed (setRd c₁ ((t.rd.drop n).take i)) y.wire) 0 none hp with hsame | ⟨c3, h3, hhit⟩
  · rw [hrun2] at hsame
    exact ⟨extC ⟨.err :: post, [], []⟩ c2, "STALL", Ay, by rw [hc]; exact hsame, hsegy,
      Or.inl ⟨rfl, hw2.log, hw2.hs, c2.env.tr.rd, rfl⟩⟩
  · rw [hrun2] at hhit
    simp only at hhit
    have hrun3 : runTask fuel (feedR c₁ y.wire ((t.rd.drop n).take i ++ .err :: post)) 0 none = (c3, "RET") := by
      rw [hc]; exact h3
    obtain ⟨⟨w, hw'⟩, hge⟩ := Indep3.runTask_grow fuel (feedR c₁ y.wire ((t.rd.drop n).take i ++ .err :: post)) 0 none
    rw [hrun3] at hw' hge
    simp only at hw' hge
    rw [hlog0] at hw'
    rw [hhs0] at hge
    have hpre := hhit.rel.log
    rw [hw', hw2.log] at hpre
    obtain ⟨e, inH, he, hlast⟩ := hhit.err
    have he' : e = .connectionAborted ∨ e = .transportRead := by
      rcases he with ⟨_, h2⟩ | ⟨⟨_, h⟩, _⟩ | ⟨⟨_, h⟩, _⟩ | ⟨⟨_, h⟩, _⟩
      · exact h2
      · cases h
      · cases h
      · cases h
    have hhs := hhit.rel.hs
    rw [hw2.hs] at hhs
    exact ⟨c3, "RET", Ay, hrun3, hsegy, Or.inr ⟨rfl, hhit.ph,
      ⟨w, hw', (List.prefix_append_right_inj _).1 hpre⟩, hge, hhs, ⟨e, inH, he', hlast⟩⟩⟩


/-! ## Non-vacuity: one complete request, then a request whose 2nd own write answer fails -/
namespace ExampleChain2
open Fcgi.C01.Example Fcgi.C07E.Example ExampleChain

/-- the transport of `Props/C07E2E` (`exT2`: short reads, a `Pending` read, partial writes) with a long benign write
script -/
def exT3 : Transport :=
  { exT2 with wr := [.n 5, .pending, .all, .n 1, .pending, .n 7, .n 9, .all, .all, .all, .all, .all, .all, .all] }

/-- `q1` (a Responder request with Stdin noise, KEEP_CONN) answered; then `q1` again, the answer to its 2nd own write
call (`i = 1`) an error: the theorem applies; whichever case occurs, at most 2 handler starts, and in the failing case
the task has returned with a byte prefix of the answer -/
example : ∃ c₁ n c' fin, closedLoop 20 [] (connS 64 10 exT3
      ([UReq.full q1].map UReq.handler ++ [(UReq.full q1).handler])) 0 = (c₁, "STALL") ∧
    hsCount c₁.env.tr.events = 1 ∧ c₁.env.tr.wr = exT3.wr.drop n ∧
    runTask 20 (feedW c₁ q1.wire ((exT3.wr.drop n).take 1 ++ [.err])) 0 none = (c', fin) ∧
    hsCount c'.env.tr.events ≤ 2 ∧
    (fin = "STALL" ∨ (fin = "RET" ∧ c'.phase = .finished ∧
      ∃ A w Ay, (UReq.full q1).Seg 10 A ∧ (UReq.full q1).Seg 10 Ay ∧ c'.env.tr.wlog = A ++ w ∧ w <+: Ay)) := by
  obtain ⟨c₁, A, n, h1, hseg, _, h4, h5, _, c', fin, Ay, hrun, hsy, hcase⟩ :=
    write_error_in_last_request_e2e (b := 64) (mc := 10) (.full q1) [] (.full q1) (t := exT3) (fuel := 20)
      1 .err [] (Or.inl rfl)
      (fun y hy => by rw [List.mem_singleton.1 hy]; exact ⟨q1_oku _, by decide⟩) ⟨q1_oku _, by decide⟩
      rfl rfl ⟨by decide, by decide, rfl, by decide⟩ rfl rfl (by decide)
  obtain ⟨A1, A2, hs1, hs2, hA⟩ := hseg
  have hA2 : A2 = [] := hs2
  subst hA2
  refine ⟨c₁, n, c', fin, h1, h4, h5, hrun, ?_, ?_⟩
  · rcases hcase with ⟨_, _, h, _⟩ | ⟨_, _, _, _, h, _⟩
    · rw [h]; decide
    · exact h
  · rcases hcase with ⟨h, _⟩ | ⟨h, hph, ⟨w, hw1, hw2⟩, _⟩
    · exact Or.inl h
    · refine Or.inr ⟨h, hph, A1, w, Ay, hs1, hsy, ?_, hw2⟩
      rw [hw1, hA]
      show [] ++ (A1 ++ []) ++ w = _
      simp

/-- the same chain, the 1st read answer of the second request an error -/
example : ∃ c₁ n c' fin, closedLoop 20 [] (connS 64 10 exT3
      ([UReq.full q1].map UReq.handler ++ [(UReq.full q1).handler])) 0 = (c₁, "STALL") ∧
    c₁.env.tr.rd = exT3.rd.drop n ∧
    runTask 20 (feedR c₁ q1.wire ((exT3.rd.drop n).take 0 ++ [.err])) 0 none = (c', fin) ∧
    hsCount c'.env.tr.events ≤ 2 := by
  obtain ⟨c₁, A, n, h1, _, _, _, h5, _, c', fin, Ay, hrun, _, hcase⟩ :=
    read_error_in_last_request_at_index_e2e (b := 64) (mc := 10) (.full q1) [] (.full q1) (t := exT3) (fuel := 20)
      0 []
      (fun y hy => by rw [List.mem_singleton.1 hy]; exact ⟨q1_oku _, by decide⟩) ⟨q1_oku _, by decide⟩
      rfl rfl ⟨by decide, by decide, rfl, by decide⟩ rfl rfl (by decide)
  refine ⟨c₁, n, c', fin, h1, h5, hrun, ?_⟩
  rcases hcase with ⟨_, _, h, _⟩ | ⟨_, _, _, _, h, _⟩
  · rw [h]; decide
  · exact h
end ExampleChain2

end Fcgi.C12E
