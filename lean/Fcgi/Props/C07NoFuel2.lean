import Fcgi.Proofs.E2EUnreadNF
import Fcgi.Props.C07NoFuel

/-!
# C07 end to end without the model-fuel hypothesis, continued: the non-reading Responder

`unread_request_e2e_nofuel` = `unread_request_e2e_unbounded` (`Props/C07Unbounded.lean`) minus
`hhf : wcost |data| + 4 ≤ 1000` (engine `Proofs/E2EUnreadNF.lean`).  `unread_prefix_e2e_unbounded` and
`unread_filter_e2e_unbounded` never had a cost hypothesis.  Still with a cost hypothesis in C07: `authorizer_tail_e2e`,
the `AsyncBufRead` clauses, the two-writer clauses (their cost bound is threaded through several stage invariants).
-/
namespace Fcgi.C07U
open Fcgi Fcgi.Req Fcgi.Str Fcgi.Async Fcgi.Run Fcgi.Spec Fcgi.E2E Fcgi.C07E

/-- **`unread_request_e2e_unbounded` without `hhf`.** -/
theorem unread_request_e2e_nofuel {p : Preamble} {recs : List Rec} {content : Bytes} {srecs : List Rec}
    {b mc : Nat} {data : Bytes} {st : ExitStatus} {hs : List HOp} {more : List (List HOp × Bool)}
    {t : Transport} {fuel : Nat}
    (hnr : NoRead hs data st)
    (hwf : WellFormedPreamble p recs) (hrole : p.role = 1) (hk : p.flags.toNat % 2 = 1)
    (hpairs : ∀ q ∈ p.pairs, (NV.enc q).length ≤ alignedBufsize b)
    (hnoise : NoiseFits (alignedBufsize b) recs)
    (hstr : StreamRecs p.id 5 content srecs) (hsn : NoiseFits (alignedBufsize b) srecs)
    (hnb : ∀ r ∈ srecs, r.rtype.toNat ≠ RT.beginRequest)
    (hin : t.input = serAll recs ++ serAll srecs) (hben : Ben t) (hev : hsCount t.events = 0)
    (hfuel : t.rd.length + t.wr.length + 1 ≤ fuel) :
    ∃ c' fin, runTask fuel (connS b mc t ((hs, true) :: more)) 0 none = (c', fin) ∧
      UnreadOutcome p srecs b mc
        (t.wlog ++ (owedPreamble p mc recs ++ streamRecords 6 p.id data ++ epilogue p.id st ++
          owedStream p.id 5 mc srecs)) more t c' fin := by
  have hidle := srecs_idle hwf hstr hnb
  have ok : UOKn (cfgU p recs srecs b mc data st hs t.wlog 0 more) :=
    ⟨hwf, hrole, hpairs, hnoise, rfl, rfl, rfl, rfl, hnr⟩
  obtain ⟨hns, hNF⟩ := idle_front dummy_wf b mc (fun q hq => by cases hq) (dummy_fits _) hidle hsn []
  have hst : UStage (cfgU p recs srecs b mc data st hs t.wlog 0 more) (connS b mc t ((hs, true) :: more)) :=
    .start (raw := []) rfl (by show [] ++ t.input = _; rw [hin]; rfl) (Nat.zero_le _) rfl hben rfl rfl rfl hev
  obtain ⟨c', fin, hrun, hkp, hem, _, _, _, hend⟩ := run_unreadN' ok hk (Z := serAll dummyRecs ++ []) hns hNF t.endMode [] _ 0 fuel
    hst rfl (fun s hs => by cases hs) rfl (by show ans t + 1 ≤ fuel; unfold ans; omega)
  have hLU : (cfgU p recs srecs b mc data st hs t.wlog 0 more).LU =
      t.wlog ++ (owedPreamble p mc recs ++ streamRecords 6 p.id data ++ epilogue p.id st) := by
    show ((t.wlog ++ owedPreamble p mc recs) ++ streamRecords 6 p.id data ++
      makeRequestEpilogue p.id st [RT.stdout, RT.stderr]) = _
    rw [epilogue_eq]; simp only [List.append_assoc]
  have hout : ∀ F, F ++ (serAll dummyRecs ++ []) = serAll srecs ++ (serAll dummyRecs ++ []) →
      (cfgU p recs srecs b mc data st hs t.wlog 0 more).LU ++ (run .header F mc).out =
      t.wlog ++ (owedPreamble p mc recs ++ streamRecords 6 p.id data ++ epilogue p.id st ++
          owedStream p.id 5 mc srecs) := by
    intro F hF
    rw [List.append_cancel_right hF, (run_idle_out mc srecs hidle).1, hLU,
      idleOwed_eq_owedStream hstr (by decide) (by decide) (by decide) (by decide) hnb]
    simp only [List.append_assoc]
  refine ⟨c', fin, hrun, ⟨hkp.hs, hkp.ev _ List.mem_cons_self⟩, ?_, hkp.sc, ?_⟩
  · rcases hend with ⟨_, hp⟩ | ⟨_, hf⟩
    · obtain ⟨F, hF, _, _, hlg⟩ := hp.pst
      rw [hlg]; exact hout F hF
    · obtain ⟨F, hF, hlg⟩ := hf.log
      rw [hlg]; exact hout F hF
  · rcases hend with ⟨rfl, hp⟩ | ⟨rfl, hf⟩
    · obtain ⟨F, hF, hps, hph, _⟩ := hp.pst
      have hFe : F = serAll srecs := List.append_cancel_right hF
      subst hFe
      exact Or.inr ⟨hem.symm.trans hp.em, rfl, hph, hp.inp, hkp.mx, hps.stop, hps.ben⟩
    · exact Or.inl ⟨hem.symm.trans hf.em, rfl, hf.ph⟩

/-! ## Non-vacuity: a handler that reads nothing and writes 70 000 000 bytes -/
namespace ExampleNoFuel2
open Fcgi.C01.Example Fcgi.C07E.Example Fcgi.C07E.ExampleNoFuel

/-- the old bound fails for `bigData` … -/
theorem old_hhf4_fails : ¬ (wcost bigData.length + 4 ≤ 1000) := by
  rw [bigData_len]; unfold wcost; omega

/-- … and the `_nofuel` theorem applies to the handler `open Stdout; write_all(bigData); drop; return` that reads nothing:
one handler start -/
example : ∃ c' fin, runTask 20 (connS 64 10 exT [(oscript bigData (.complete 3), true)]) 0 none = (c', fin) ∧
    hsCount c'.env.tr.events = 1 := by
  obtain ⟨c', fin, hrun, ho⟩ := unread_request_e2e_nofuel (p := pre) (recs := recs) (content := [65, 66, 67]) (srecs := exS)
    (b := 64) (mc := 10) (data := bigData) (st := .complete 3) (hs := oscript bigData (.complete 3)) (more := []) (t := exT)
    (fuel := 20) (Or.inr rfl) recs_wf rfl (by decide) (pre_pairs_fit _) (noise_fits _) exS_ok (exS_fits _)
    (by decide) rfl exT_ben rfl (by decide)
  exact ⟨c', fin, hrun, ho.one_handler.1⟩

end ExampleNoFuel2

end Fcgi.C07U
