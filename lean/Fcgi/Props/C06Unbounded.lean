import Fcgi.Proofs.E2EStuckUnb
import Fcgi.Props.C06E2E
import Fcgi.Props.C07Unbounded

/-!
# C06 end to end, without the size side conditions

Every theorem `X_unbounded` below is the theorem `X` of `Props/C06E2E.lean` with the hypothesis
`hlen : 2·|input| + 6 ≤ 100000` (resp. `hsize`) DROPPED; proofs verbatim up to the primed executors of
`Proofs/E2EStuckUnb.lean` (`Halts.pollB`: every poll takes `≤ 6·|input| + 26 ≤ connFuel c` steps).
`fatal_version_e2e`, `fits_never_stuck`, `RGood` and its lemmas never had a size hypothesis.
-/
namespace Fcgi.C06E
open Fcgi Fcgi.Req Fcgi.Str Fcgi.Async Fcgi.Run Fcgi.Spec Fcgi.E2E Fcgi.C07E Fcgi.C06 Fcgi.VarInt

/-- `stuck_preamble_e2e` without the size hypothesis. -/
theorem stuck_preamble_e2e_unbounded {Wk W O : Bytes} (b mc : Nat) (scripts : List (List HOp × Bool)) (t : Transport)
    (fuel : Nat) (K : SCtx (alignedBufsize b) mc Wk W O)
    (hin : t.input = W) (hb : Ben t)
    (hfuel : t.rd.length + t.wr.length + 1 ≤ fuel) :
    ∃ c', runTask fuel (connS b mc t scripts) 0 none = (c', "RET") ∧ c'.phase = .finished ∧
      hsCount c'.env.tr.events = hsCount t.events ∧ c'.scripts = scripts ∧
      c'.env.tr.wlog = t.wlog ++ O := by
  obtain ⟨c', hrun, hfin, hsc⟩ := stuck_run_start' K (c := connS b mc t scripts) (n := 0) (fuel := fuel)
    rfl rfl hin hb rfl hfuel
  exact ⟨c', hrun, hfin.phase, hfin.hs, hsc, hfin.wlog⟩

/-- `stuck_pair_e2e` without the size hypothesis. -/
theorem stuck_pair_e2e_unbounded (b mc : Nat) (q : Bytes × Bytes) (extra : Bytes) (scripts : List (List HOp × Bool))
    (t : Transport) (fuel : Nat)
    (hq : q.1.length ≤ maxVal ∧ q.2.length ≤ maxVal)
    (h1 : alignedBufsize b < (NV.enc q).length) (h2 : (NV.enc q).length < 65536)
    (hin : t.input = serAll (pairRecs q) ++ extra) (hb : Ben t)
    (hfuel : t.rd.length + t.wr.length + 1 ≤ fuel) :
    ∃ c', runTask fuel (connS b mc t scripts) 0 none = (c', "RET") ∧ c'.phase = .finished ∧
      hsCount c'.env.tr.events = hsCount t.events ∧ c'.scripts = scripts ∧
      c'.env.tr.wlog = t.wlog := by
  obtain ⟨c', h⟩ := stuck_preamble_e2e_unbounded b mc scripts t fuel
    (pair_sctx (alignedBufsize b) mc q hq (alignedBufsize_ge b) h1 h2 extra) hin hb hfuel
  rw [List.append_nil] at h
  exact ⟨c', h⟩

/-- `fatal_preamble_e2e` without the size hypothesis. -/
theorem fatal_preamble_e2e_unbounded {Wf Z : Bytes} {e : PErr} (b mc : Nat) (scripts : List (List HOp × Bool))
    (t : Transport) (fuel : Nat)
    (hfat : (run .header Wf mc).st = .fatal e) (hsmall : Wf.length < alignedBufsize b)
    (hin : t.input = Wf ++ Z) (hb : Ben t)
    (hfuel : t.rd.length + t.wr.length + 1 ≤ fuel) :
    ∃ c', runTask fuel (connS b mc t scripts) 0 none = (c', "RET") ∧ c'.phase = .finished ∧
      hsCount c'.env.tr.events = hsCount t.events ∧ c'.scripts = scripts ∧
      c'.env.tr.wlog = t.wlog ++ (run .header Wf mc).out ∧
      (run .header Wf mc).out = (C04H.reqRef mc Wf).out := by
  have hf : (run .header Wf mc).st.isFinal = true := by rw [hfat]; rfl
  have hext := run_final_ext hf Z
  have K : FCtx (alignedBufsize b) mc (Wf ++ Z) e :=
    ⟨alignedBufsize_ge b, noStuckW_of_final_small hf hsmall, by rw [hext.1, hfat]⟩
  obtain ⟨c', hrun, hfin, hsc⟩ := fatal_run_start' K (c := connS b mc t scripts) (n := 0) (fuel := fuel)
    rfl rfl hin hb rfl hfuel
  exact ⟨c', hrun, hfin.phase, hfin.hs, hsc, by rw [← hext.2]; exact hfin.wlog,
    (C04H.req_replies_hostile mc Wf).1⟩

/-- `fatal_badlen_e2e` without the size hypothesis. -/
theorem fatal_badlen_e2e_unbounded (r : Rec) (Z : Bytes) (b mc : Nat) (scripts : List (List HOp × Bool))
    (t : Transport) (fuel : Nat)
    (hwf : r.WF) (ht : r.rtype.toNat = RT.beginRequest) (hl : r.content.length ≠ 8)
    (hsmall : r.ser.length < alignedBufsize b)
    (hin : t.input = r.ser ++ Z) (hb : Ben t)
    (hfuel : t.rd.length + t.wr.length + 1 ≤ fuel) :
    ∃ c', runTask fuel (connS b mc t scripts) 0 none = (c', "RET") ∧ c'.phase = .finished ∧
      hsCount c'.env.tr.events = hsCount t.events ∧ c'.scripts = scripts ∧ c'.env.tr.wlog = t.wlog := by
  have hr := run_idle_badlen r hwf ht hl [] mc
  rw [List.append_nil] at hr
  obtain ⟨c', h1, h2, h3, h4, h5, _⟩ := fatal_preamble_e2e_unbounded (Wf := r.ser) (Z := Z)
    (e := .invalidRequestLen r.content.length) b mc scripts t fuel (by rw [hr]) hsmall hin hb hfuel
  rw [hr, List.append_nil] at h5
  exact ⟨c', h1, h2, h3, h4, h5⟩

/-- `fatal_null_e2e` without the size hypothesis. -/
theorem fatal_null_e2e_unbounded (r : Rec) (Z : Bytes) (b mc : Nat) (scripts : List (List HOp × Bool))
    (t : Transport) (fuel : Nat)
    (hwf : r.WF) (ht : r.rtype.toNat = RT.beginRequest)
    {c0 c1 c2 c3 c4 c5 c6 c7 : UInt8} (hc : r.content = [c0, c1, c2, c3, c4, c5, c6, c7])
    (hrole : roleValid (be16 c0 c1) = true) (hid : r.id = 0) (hpad : r.pad.length < 8)
    (hin : t.input = r.ser ++ Z) (hb : Ben t)
    (hfuel : t.rd.length + t.wr.length + 1 ≤ fuel) :
    ∃ c', runTask fuel (connS b mc t scripts) 0 none = (c', "RET") ∧ c'.phase = .finished ∧
      hsCount c'.env.tr.events = hsCount t.events ∧ c'.scripts = scripts ∧ c'.env.tr.wlog = t.wlog := by
  have hr := run_idle_null r hwf ht hc hrole hid [] mc
  rw [List.append_nil] at hr
  have hsmall : r.ser.length < alignedBufsize b := by
    have := alignedBufsize_ge b
    rw [ser_length, hc]; simp only [List.length_cons, List.length_nil]; omega
  obtain ⟨c', h1, h2, h3, h4, h5, _⟩ := fatal_preamble_e2e_unbounded (Wf := r.ser) (Z := Z)
    (e := .nullRequest) b mc scripts t fuel (by rw [hr]) hsmall hin hb hfuel
  rw [hr, List.append_nil] at h5
  exact ⟨c', h1, h2, h3, h4, h5⟩

/-- `wPair_e2e` without the size hypothesis. -/
theorem wPair_e2e_unbounded (extra : Bytes) (scripts : List (List HOp × Bool)) (t : Transport) (fuel : Nat)
    (hin : t.input = serAll (pairRecs wPair) ++ extra) (hb : Ben t)
    (hfuel : t.rd.length + t.wr.length + 1 ≤ fuel) :
    ∃ c', runTask fuel (connS 0 1 t scripts) 0 none = (c', "RET") ∧ c'.phase = .finished ∧
      hsCount c'.env.tr.events = hsCount t.events ∧ c'.scripts = scripts ∧ c'.env.tr.wlog = t.wlog :=
  stuck_pair_e2e_unbounded 0 1 wPair extra scripts t fuel (by decide) (by decide) (by decide) hin hb hfuel

/-- `fits_preamble_e2e` without the size hypothesis and with a model-fuel bound free of `b`. -/
theorem fits_preamble_e2e_unbounded {p : Preamble} {recs : List Rec} {content : Bytes} {srecs : List Rec}
    {b mc : Nat} {data : Bytes} {st : ExitStatus} {t : Transport} {fuel : Nat}
    (hwf : WellFormedPreamble p recs) (hrole : p.role = 1)
    (hpairs : ∀ q ∈ p.pairs, (NV.enc q).length ≤ alignedBufsize b)
    (hnoise : NoiseFits (alignedBufsize b) recs)
    (hs : StreamRecs p.id 5 content srecs) (hsn : NoiseFits (alignedBufsize b) srecs)
    (hin : t.input = serAll recs ++ serAll srecs) (hben : Ben t) (hev : hsCount t.events = 0)
    (hfuel : t.rd.length + t.wr.length + 1 ≤ fuel)
    (hhf : wcost data.length + 12 ≤ 1000) :
    ∃ c' fin O₁ O₂, runTask fuel (conn0 b mc t data st) 0 none = (c', fin) ∧
      hsCount c'.env.tr.events = 1 ∧ startEvent p.request ∈ c'.env.tr.events ∧
      c'.env.tr.wlog = t.wlog ++ expectedLogN p recs mc data st O₁ O₂ := by
  obtain ⟨c', fin, O1, O2, hrun, _, ho⟩ :=
    single_request_e2e_unbounded (data := data) (st := st) (fuel := fuel) hwf hrole hpairs hnoise hs hsn hin hben hev hfuel hhf
  exact ⟨c', fin, O1, O2, hrun, ho.one_handler.1, ho.one_handler.2, ho.log⟩

/-! ## Non-vacuity: a pair that does not fit, followed by 100 000 bytes -/

/-- the 25-byte pair of `C06Suff` with 100 000 arbitrary bytes behind it -/
def tBig6 : Transport :=
  { input := serAll (pairRecs wPair) ++ List.replicate 100000 7, endMode := .pend,
    rd := [.n 10, .pending, .all], wr := [], fl := [] }

/-- … on the minimal buffer (outside `wPair_e2e`): `RET`, nothing written -/
example : ∃ c', runTask 9 (connS 0 1 tBig6 []) 0 none = (c', "RET") ∧ c'.phase = .finished ∧
    c'.env.tr.wlog = [] := by
  obtain ⟨c', h1, h2, _, _, h5⟩ := wPair_e2e_unbounded (List.replicate 100000 7) [] tBig6 9 rfl
    ⟨by decide, by decide, rfl, by decide⟩ (by decide)
  exact ⟨c', h1, h2, h5⟩

end Fcgi.C06E
