import Fcgi.Props.HeadlineExtra
import Fcgi.Props.C11FilterAnysize

/-!
# HeadlineUnb — the numeric side conditions of the headline conjuncts after the unbounded lift

Companion of `Props/Headline.lean`, `Props/HeadlineExtra.lean` and of the section "After the unbounded lift" of
`HEADLINE_REVIEW.md`.  Every hypothesis of a headline conjunct that compares something with a NUMBER is listed
here with its status (the writers conjuncts C07Clause13–16, added to the headline after this file was written, carry
`wcostAll W + 20 ≤ 1000` / `fcost W + 20 ≤ 1000` and `+ |t.fl|` in `hfuel` — the same kind as section B's `hhf` / `hfuel`).  Nothing here edits `Headline.lean` / `HeadlineExtra.lean`.

## A. Removed here (artefacts of a PROOF, or of a bound already lifted elsewhere)

* `C11Clause7` (`filter_abort_table_full_unbounded`), rows (a)/(b), placements (i)/(ii):
  `|Stdin wire| ≤ 31000`.  Artefact of the proof's fuel accounting (`hr1A_core` asked for `4·|input|` handler
  fuel because `readAll_runAW` reported only `fuel ≤ fuel' + N`).  REMOVED: `C11_filter_abort_table_anysize`
  below (`Props/C11FilterAnysize.lean`, `Proofs/E2EFilterAbort2U.lean`).
* `HeadlineExtra.C06_stuck_pair_e2e`, `C06_fatal_preamble_e2e`, `C11_abort_in_params_alone_e2e`,
  `C11_abort_own_status_next_e2e`, `C12_read_error_at_index_e2e`, `C12_read_err_in_preamble_e2e` cite the
  ORIGINAL theorems, which carry `K·|input| + M ≤ 100000` (a bound on the connection-loop fuel that the model
  does not need: `connFuel c ≥ 6·|input| + 26`) and, two of them, `alignedBufsize b / 32 + … ≤ 1000`.
  REMOVED: the `_unbounded` twins cited below.

## B. Cannot be removed without changing the model (`Model/RunLoop.lean`), and why

UPDATE: the model WAS changed — the handler fuel now has the term `scriptCost h` (`Props/C07ScriptFuel.lean`: the fuel
guard is unreachable for every script).  The `hhf` hypotheses below are still in the statements, but are now artefacts
of the proofs (class **X**), no longer of the model; the description below is that of the model BEFORE the change.

* `hhf : wcost |data| + c ≤ 1000` (`c ∈ {4, 8, 12, 24}`; C07 Clauses 1–3, 6, 8, C11 Clause 5, C12 Clauses 1–3,
  5, 9, 10, C14 Clause 1; inside `Sent.OKu` (the requests of a chain): C07 Clause 4, C11 Clauses 1, 6, 9,
  C14 Clause 2), with
  `wcost n = ⌈n / 65535⌉ + 1`.  The model interprets the handler SCRIPT with the fuel
  `handlerFuel e r = 1000 + 4·|pending input| + 4·|queued segments| + 4·cap` PER POLL; every script operation
  costs one unit and `write_all data` costs one unit per Stdout record (`wcost`).  The fuel does not depend on
  the script, so a handler that writes more than ≈ 987 records (≈ 64 MB) within ONE poll hits the model's
  fuel guard (`PANIC "model: handler fuel exhausted"`), which the crate does not have.  The statement without
  `hhf` is FALSE for the model: `C12.handlerPoll_terminates_full_false` (a script one operation longer than the
  fuel).  To remove it the constant `1000` would have to become `|h.ops| + Σ_{write_all d ∈ h.ops} wcost |d|`
  (script length plus the number of Stdout records of the script).  It bounds the length of the handler's own
  OUTPUT only; wire, records and buffer are unbounded in all these conjuncts.
* `hhf : 2·n + wcost |data| + c ≤ 1000` (C07 Clauses 10–12, the `AsyncBufRead` handlers): same fuel; the script
  has `n` `fill_buf`/`consume` rounds of two operations each (the model has no looping buffered operation), and
  Clause 10 (drain Stdin through `fill_buf` alone) needs `|content| ≤ n`, so it covers Stdin contents of at most
  ≈ 490 bytes; Clauses 11–12 bound only the number of rounds.  The constant would have to grow with the script
  length `|h.ops| = 2·n + …`.
* `hfuel : |t.rd| + |t.wr| + k ≤ fuel` (every end-to-end conjunct): `fuel` is the number of POLLS the model
  executor `runTask` may make, `t.rd`/`t.wr` are the scripted read/write answers (each `Pending` answer ends a
  poll).  Not a bound on anything: it says "the executor keeps polling until the scripted transport has
  answered"; for a smaller `fuel` the run ends with the verdict `"FUEL"` by construction.  It would disappear
  only with an executor without a poll budget (not definable as a total function on non-terminating scripts).

## C. Property-given or code-given (not artefacts)

* `(NV.enc q).length ≤ alignedBufsize b`, `q.1.length + q.2.length + 13 ≤ b`, `NoiseFits (alignedBufsize b) …`:
  the documented buffer bound of C06 (necessary: `C06.sufficiency_tight`, `stuck_pair_e2e`).
* `24 ≤ p.cap`, `8 ≤ K.cap` (inside `RCtx.OK`, C09), `b + 7 < 2^64`, `mc < 2^64`, `maxConns < 2^64`: `usize` is 64 bit; the constructor aligns to ≥ 24.
* `id < 65536`, `contentLength < 65536`, `payload.length ≤ 65535`, `pad.length < 256`, `appStatus < 2^32`,
  `protocolStatus ≤ 3`, `v < 128`, `128 ≤ v ≤ maxVal`, `b1 ≤ 11`, `rec_.length ≤ 104`: field widths and constants
  of the FastCGI wire format (some are conclusions, not hypotheses).
-/

namespace Fcgi.HeadlineUnb
open Fcgi

/-! ## A. The conjuncts without the removed side conditions -/

/-- `Headline.C11Clause7` without `|Stdin wire| ≤ 31000` in rows (a)/(b), placements (i)/(ii): every abort
placement × handler row for a Filter, exactly one EndRequest, any sizes. -/
theorem C11_filter_abort_table_anysize : type_of% @C11F.filter_abort_table_full_anysize :=
  @C11F.filter_abort_table_full_anysize

-- the four cells behind it (full outcome, and the chain step on a KEEP_CONN connection)
theorem C11_filter_abort_stdin_anysize : type_of% @C11F.filter_abort_stdin_e2e_anysize :=
  @C11F.filter_abort_stdin_e2e_anysize
theorem C11_filter_abort_stdin_chain_anysize : type_of% @C11F.filter_abort_stdin_chain_e2e_anysize :=
  @C11F.filter_abort_stdin_chain_e2e_anysize
theorem C11_filter_abort_gap_anysize : type_of% @C11F.filter_abort_gap_e2e_anysize :=
  @C11F.filter_abort_gap_e2e_anysize
theorem C11_filter_abort_gap_chain_anysize : type_of% @C11F.filter_abort_gap_chain_e2e_anysize :=
  @C11F.filter_abort_gap_chain_e2e_anysize

-- the six `HeadlineExtra` citations of size-bounded theorems, size-free
theorem C06_stuck_pair_e2e : type_of% @C06E.stuck_pair_e2e_unbounded := @C06E.stuck_pair_e2e_unbounded
theorem C06_fatal_preamble_e2e : type_of% @C06E.fatal_preamble_e2e_unbounded := @C06E.fatal_preamble_e2e_unbounded
theorem C11_abort_in_params_alone_e2e : type_of% @C11E.abort_in_params_alone_e2e_unbounded :=
  @C11E.abort_in_params_alone_e2e_unbounded
theorem C11_abort_own_status_next_e2e : type_of% @C11E.abort_own_status_next_e2e_unbounded :=
  @C11E.abort_own_status_next_e2e_unbounded
theorem C12_read_error_at_index_e2e : type_of% @C12E.read_error_at_index_e2e_unbounded :=
  @C12E.read_error_at_index_e2e_unbounded
theorem C12_read_err_in_preamble_e2e : type_of% @C12E.read_err_in_preamble_e2e_unbounded :=
  @C12E.read_err_in_preamble_e2e_unbounded

/-! ## B. Why `hhf` stays: the model's handler fuel is independent of the script -/

/-- with the script-independent fuel `handlerFuel e r` alone the model's handler fuel guard is reachable by a long
enough script.  (Since the model's handler fuel has the term `scriptCost h`, the guard is UNREACHABLE for the fuel
`pollConn` passes: `C07SF.handlerPoll_terminates_actual_holds`, `Props/C07ScriptFuel.lean`; the `hhf` hypotheses of the
end-to-end conjuncts are from now on artefacts of their PROOFS — class **X** — and can be removed by threading
`scriptOf c` through the stage invariants.) -/
theorem script_fuel_guard_is_reachable : ¬ C12.handlerPoll_terminates_full := C12.handlerPoll_terminates_full_false

end Fcgi.HeadlineUnb
