import Fcgi.Proofs.AsyncRead
import Fcgi.Model.RunLoop
import Fcgi.Props.C02
/-!
# C09 — Async reads deliver exactly the active stream; output is gated on the final stream

Over the literal poll-level model `Model/Async.lean` of `async_io::Request`
(`new`, `poll_output`, `poll_input`, `AsyncRead`/`AsyncBufRead`, `set_stream`, `writeable`,
`output_stream`), which sits on the stream-parser model.  Helper lemmas: `Proofs/AsyncRead.lean`.

* §1 `AInv`, `LockInv`, `WriteableInv`, `new_inv` — the invariants and their establishment;
* §2 `poll_input_legal` — every parser call `poll_input` makes is legal (C03's preconditions), so
  no Rust panic site and no model fuel guard is reachable, and the invariants are kept; the bytes
  fed to the parser are exactly the bytes taken from the transport (`transport_read_spec`);
* §3 `reply_flush`, `reply_flush_repolled`, `flush_before_read` — `poll_output` writes the reply
  buffer front to back exactly once under the lock; fresh input is only parsed with an empty reply
  buffer;
* §4 `writeable_*`, `output_gate` — `writeable` is monotone, set by `new` iff the role has at most
  one input stream, set by `poll_input` only on the final stream; `writeable()` never panics and
  completes only with the flag set *under `WriteableInv`* (`writeable_ready_sets_flag_partial`; the
  unrestricted statement is false after a failed read: `writeable_ready_sets_flag_full_false`);
  `output_stream` yields a writer iff `writeable` and the type is an output stream of the role;
* §5 `eof_enters`, `eof_persists`, `eof_persists_flush` — end of stream is sticky;
* §6 `set_stream_async` — `Request::set_stream` accepts exactly "same or later";
* §7 `read_structural`, `buffered_first`, `read_is_last_parse` — what a read returns;
* §8 `reads_deliver_stream_prefix` — with C02: over any session of `read` / `fill_buf` / `consume`
  polls, everything handed to the handler (plus what is still buffered) is a prefix of the active
  stream's content — exactly its bytes, once, in order.
-/
namespace Fcgi.C09
open Fcgi Fcgi.Str Fcgi.Async

/-! ## 1. Invariants -/

theorem AInv_iff (r : AReq) : AInv r ↔ (SInv r.sp ∧ 24 ≤ r.sp.cap) := Iff.rfl

theorem LockInv_iff (r : AReq) (m : MutexSt) :
    LockInv r m ↔ ((r.lock = .held ↔ m = some 0) ∧ (r.sp.output = [] → r.lock = .none)) := Iff.rfl

theorem WriteableInv_iff (r : AReq) :
    WriteableInv r ↔ ((r.sp.stream = none → r.writeable = true) ∧
      (r.sp.parsed ≠ [] → r.isFinalStream = true → r.writeable = true)) := Iff.rfl

/-- `Request::new` on an invariant stream parser with the minimum buffer. -/
theorem new_inv {sp : Parser} (h : SInv sp) (hc : 24 ≤ sp.cap) {m : MutexSt} (hm : m ≠ some 0) :
    AInv (AReq.new sp) ∧ LockInv (AReq.new sp) m := ⟨new_ainv h hc, new_lockInv sp hm⟩

/-- `Request::new` on the parser `into_stream_parser` produces: all three invariants. -/
theorem new_inv_fresh (cap : Nat) (req : Req.Request) (input : Bytes) (mc : Nat)
    (hlen : input.length ≤ cap) (hid : req.id < 65536) (hcap : 24 ≤ cap) :
    AInv (AReq.new (Parser.fromParser cap req input mc)) ∧
    LockInv (AReq.new (Parser.fromParser cap req input mc)) none ∧
    WriteableInv (AReq.new (Parser.fromParser cap req input mc)) :=
  ⟨new_ainv (C03S.fromParser_inv cap req input mc hlen hid) hcap,
    new_lockInv _ (fun h => nomatch h), new_winv cap req input mc⟩

/-! ## 2. Every parser call of `poll_input` is legal -/

/-- `poll_read` on the scripted transport with a `cap`-byte buffer returns at most `cap` bytes,
taken from the front of the input, and returns no bytes only for an empty buffer or when the
input is exhausted (and the peer signalled end of input). -/
theorem transport_read_spec {t t' : Transport} {cap : Nat} {bs : Bytes}
    (h : t.read cap = (t', .ready (.ok bs))) :
    bs.length ≤ cap ∧ t.input = bs ++ t'.input ∧ t'.wlog = t.wlog ∧
      (bs = [] → cap = 0 ∨ (t.input = [] ∧ t.hold = false ∧ t.endMode = .eof)) := by
  obtain ⟨h1, h2, -⟩ := tread_spec h
  obtain ⟨a, b, c⟩ := h2 bs rfl
  exact ⟨a, b, h1, c⟩

/-- **`poll_input` is a legal client of the stream parser.**  Under the invariants, the effect of
any poll on the parser is an operation history `ops` (C03's vocabulary) such that

* every call is legal in the state it is made in — `parse` with `dest = None` or an empty stream
  buffer, and `new_input ≤ input_buffer().len()` (`LegalAll`), hence none panics (`PanicsAny`);
* the bytes fed to `parse` are exactly the bytes that left the transport's input, in order;
* the bytes removed by `consume_output` are exactly the bytes appended to the transport's log;
* the poll itself returns no panic — neither a Rust assertion nor the model's fuel guards
  (`"model: input loop fuel exhausted"`, `"model: output loop fuel exhausted"`) —, and
* `AInv` and `LockInv` hold afterwards. -/
theorem poll_input_legal {r : AReq} {dest : Option Nat} {m : MutexSt} {t : Transport} {r' : AReq}
    {m' : MutexSt} {t' : Transport} {res : IRes} (hinv : AInv r) (hl : LockInv r m)
    (h : r.pollInput dest m t = (r', m', t', res)) :
    ∃ ops, LegalAll r.sp ops ∧ r'.sp = applyOps r.sp ops ∧ ¬ PanicsAny r.sp ops ∧
      t.input = C05.fedBytes ops ++ t'.input ∧ t'.wlog = t.wlog ++ C03S.sentAll r.sp ops ∧
      (∀ s, res ≠ .panic s) ∧ AInv r' ∧ LockInv r' m' := by
  obtain ⟨⟨ops, htr, -⟩, hpo, -⟩ := pollInput_spec hinv hl h
  obtain ⟨a, b, -, d⟩ := htr.inv hinv.1
  exact ⟨ops, htr.legal, htr.sp, d, htr.fed, htr.sent, hpo.nopanic, ⟨a, by rw [b]; exact hinv.2⟩,
    hpo.linv⟩

/-- The same for the loop alone, entered with `new` freshly read bytes that fit the buffer. -/
theorem in_loop_legal {fuel : Nat} {r : AReq} {new : Bytes} {dest : Option Nat} {m : MutexSt}
    {t : Transport} {r' : AReq} {m' : MutexSt} {t' : Transport} {res : IRes} (hinv : AInv r)
    (hl : LockInv r m) (hd : dest = none ∨ r.sp.parsed = []) (hfree : new.length ≤ r.sp.free)
    (hfuel : t.input.length < fuel) (h : inLoop fuel r new dest m t = (r', m', t', res)) :
    ∃ ops, LegalAll r.sp (.parse new dest :: ops) ∧ r'.sp = applyOps r.sp (.parse new dest :: ops) ∧
      new ++ t.input = C05.fedBytes (.parse new dest :: ops) ++ t'.input ∧
      (∀ s, res ≠ .panic s) ∧ LockInv r' m' := by
  obtain ⟨⟨ops, htr, -⟩, hpo, -⟩ := inLoop_spec fuel r new dest m t hinv hl hd hfree hfuel _ _ _ _ h
  exact ⟨ops, htr.legal, htr.sp, htr.fed, hpo.nopanic, hpo.linv⟩

/-- `poll_input` never panics (spelled out for the two fuel guards and the Rust assertions). -/
theorem poll_input_no_panic {r : AReq} {dest : Option Nat} {m : MutexSt} {t : Transport}
    (hinv : AInv r) (hl : LockInv r m) (s : String) :
    (r.pollInput dest m t).2.2.2 ≠ .panic s := by
  rcases h : r.pollInput dest m t with ⟨r', m', t', res⟩
  exact (pollInput_spec hinv hl h).2.1.nopanic s

/-- `poll_output` never panics (debug assertion `lock.is_none()`, fuel guard) and keeps `LockInv`;
it touches only the reply buffer and the lock. -/
theorem poll_output_legal {r : AReq} {m : MutexSt} {t : Transport} {r' : AReq} {m' : MutexSt}
    {t' : Transport} {res : ORes} (hl : LockInv r m) (h : r.pollOutput m t = (r', m', t', res)) :
    (∀ s, res ≠ .panic s) ∧ LockInv r' m' ∧ (∃ k, r'.sp = r.sp.consumeOutput k) ∧
      r'.writeable = r.writeable ∧ (AInv r → AInv r') := by
  obtain ⟨k, h1, h2, -, -, h5, h6, -, -⟩ := pollOutput_spec hl h
  refine ⟨h6, h5, ⟨k, h1⟩, h2, fun hinv => ⟨?_, ?_⟩⟩
  · rw [h1]; exact C03S.consumeOutput_inv hinv.1 k
  · rw [h1]; exact hinv.2

/-! ## 3. Replies are flushed in order, exactly once, before every read -/

/-- **One poll of `poll_output`.**  Some prefix `output[..k]` was written to the transport and
removed from the buffer (`written ++ queued` is invariant).  `Ready`: everything was written, the
buffer is empty, the lock released.  `Pending` / `Err`: the rest is still queued and — unless the
mutex was held by a writer and nothing happened at all — the lock is *kept* (`m' = some 0`), so no
stream writer can interleave a record into a half-written reply. -/
theorem reply_flush {r : AReq} {m : MutexSt} {t : Transport} {r' : AReq} {m' : MutexSt}
    {t' : Transport} {res : ORes} (hl : LockInv r m) (h : r.pollOutput m t = (r', m', t', res)) :
    (∃ k, t'.wlog = t.wlog ++ r.sp.output.take k ∧ r'.sp.output = r.sp.output.drop k) ∧
    t'.wlog ++ r'.sp.output = t.wlog ++ r.sp.output ∧
    (res = .ready → t'.wlog = t.wlog ++ r.sp.output ∧ r'.sp.output = [] ∧ r'.lock = .none ∧
      (r.sp.output ≠ [] → m' = none) ∧ (r.sp.output = [] → m' = m ∧ t' = t)) ∧
    (res ≠ .ready → r'.sp.output ≠ [] ∧
      ((m' = some 0 ∧ r'.lock = .held) ∨
       (t' = t ∧ r'.sp = r.sp ∧ m' = m ∧ res = .pending ∧ ∃ i, m = some (i + 1)))) ∧
    RFrame t t' := by
  obtain ⟨k, h1, -, h3, h4, -, -, h7, h8⟩ := pollOutput_spec hl h
  have hq : r'.sp.output = r.sp.output.drop k := by rw [h1]; rfl
  have hled : t'.wlog ++ r'.sp.output = t.wlog ++ r.sp.output := by
    rw [h3, hq, List.append_assoc, List.take_append_drop]
  refine ⟨⟨k, h3, hq⟩, hled, fun hr => ?_, fun hr => ?_, h4⟩
  · obtain ⟨a, b, c, d⟩ := h7 hr
    refine ⟨by rw [a, List.append_nil] at hled; exact hled, a, b, d, fun he => ?_⟩
    obtain ⟨-, c2, c3⟩ := c he
    exact ⟨c2, c3⟩
  · obtain ⟨a, b⟩ := h8 hr
    refine ⟨a, b.imp id ?_⟩
    rintro ⟨b1, b2, b3, b4, b5⟩
    exact ⟨b1, by rw [b2], b3, b4, b5⟩

/-- Re-polling `poll_output` while it answers `Pending` (at most `n` more times). -/
def repollOutput : Nat → AReq → MutexSt → Transport → AReq × MutexSt × Transport × ORes
  | 0, r, m, t => r.pollOutput m t
  | n + 1, r, m, t =>
    match r.pollOutput m t with
    | (r', m', t', .pending) => repollOutput n r' m' t'
    | x => x

/-- **However often the write side answers `Pending`**, across all the re-polls the reply bytes are
written exactly once and in order (`written ++ queued` stays invariant, nothing is re-sent after a
partial write), and a final `Ready` means all of the original buffer is in the log. -/
theorem reply_flush_repolled (n : Nat) : ∀ {r : AReq} {m : MutexSt} {t : Transport} {r' : AReq}
    {m' : MutexSt} {t' : Transport} {res : ORes}, LockInv r m →
    repollOutput n r m t = (r', m', t', res) →
    t'.wlog ++ r'.sp.output = t.wlog ++ r.sp.output ∧ LockInv r' m' ∧ (∀ s, res ≠ .panic s) ∧
      (res = .ready → t'.wlog = t.wlog ++ r.sp.output ∧ r'.sp.output = []) := by
  induction n with
  | zero =>
    intro r m t r' m' t' res hl h
    obtain ⟨-, h2, h3, -, -⟩ := reply_flush hl h
    obtain ⟨h4, h5, -⟩ := poll_output_legal hl h
    exact ⟨h2, h5, h4, fun hr => ⟨(h3 hr).1, (h3 hr).2.1⟩⟩
  | succ n ih =>
    intro r m t r' m' t' res hl h
    simp only [repollOutput] at h
    rcases hp : r.pollOutput m t with ⟨r1, m1, t1, o⟩
    obtain ⟨-, h2, h3, -, -⟩ := reply_flush hl hp
    obtain ⟨h4, h5, -⟩ := poll_output_legal hl hp
    rw [hp] at h
    cases o with
    | pending =>
      simp only at h
      obtain ⟨a, b, c, d⟩ := ih h5 h
      refine ⟨a.trans h2, b, c, fun hr => ?_⟩
      obtain ⟨d1, d2⟩ := d hr
      refine ⟨?_, d2⟩
      have := a.trans h2
      rw [d2, List.append_nil] at this
      exact this
    | ready =>
      simp only at h; cases h
      exact ⟨h2, h5, h4, fun hr => ⟨(h3 hr).1, (h3 hr).2.1⟩⟩
    | err e =>
      simp only at h; cases h
      exact ⟨h2, h5, h4, fun hr => nomatch hr⟩
    | panic s => exact absurd rfl (h4 s)

/-- The tail of one loop iteration of `poll_input` after a `parse` that neither produced stream
data nor reported end of stream: flush, then — only on `Ready` — read. -/
def readStep (fuel : Nat) (dest : Option Nat) :
    AReq × MutexSt × Transport × ORes → AReq × MutexSt × Transport × IRes
  | (r, m, t, .pending) => (r, m, t, .pending)
  | (r, m, t, .err e) => (r, m, t, .err e)
  | (r, m, t, .panic s) => (r, m, t, .panic s)
  | (r, m, t, .ready) =>
    match t.read r.sp.free with
    | (t, .pending) => (r, m, t, .pending)
    | (t, .ready (.error e)) => (r, m, t, .err e)
    | (t, .ready (.ok [])) => (r, m, t, .err .unexpectedEof)
    | (t, .ready (.ok bs)) => inLoop fuel r bs dest m t

/-- **The flush sits between every parse and the next read** (the second fix): an iteration that
has to wait for more input is literally `parse; compress; poll_output; (only if Ready) poll_read`.
Together with `reply_flush` (`Ready` ⇒ reply buffer empty, all of it in the log): a
`Transport.read` is only ever issued in a state with `sp.output = []`. -/
theorem flush_before_read_unfold (fuel : Nat) (r : AReq) (new : Bytes) (dest : Option Nat)
    (m : MutexSt) (t : Transport) {sp : Parser} {st : Status}
    (hp : r.sp.parse new dest = (sp, .ok st)) (hnd : (st.streamEnd || decide (st.stream > 0)) = false) :
    inLoop (fuel + 1) r new dest m t =
      readStep fuel dest (({ r with sp := sp.compress } : AReq).pollOutput m t) := by
  rw [inLoop, hp]
  simp only [hnd, Bool.false_eq_true, if_false]
  rcases ({ r with sp := sp.compress } : AReq).pollOutput m t with ⟨r1, m1, t1, o⟩
  cases o <;> simp only [readStep]
  rcases t1.read r1.sp.free with ⟨t2, x⟩
  cases x with
  | pending => rfl
  | ready y =>
    cases y with
    | error e => rfl
    | ok bs => cases bs <;> rfl

/-- The state in which `readStep` issues its read has an empty reply buffer, everything that was
queued is in the transport's log, and the `Request` no longer holds the lock. -/
theorem flush_before_read_state {q : AReq} {m : MutexSt} {t : Transport} {r1 : AReq}
    {m1 : MutexSt} {t1 : Transport} (hl : LockInv q m)
    (h : q.pollOutput m t = (r1, m1, t1, .ready)) :
    r1.sp.output = [] ∧ t1.wlog = t.wlog ++ q.sp.output ∧ r1.lock = .none := by
  obtain ⟨-, -, h3, -, -⟩ := reply_flush hl h
  obtain ⟨a, b, c, -⟩ := h3 rfl
  exact ⟨b, a, c⟩

/-- **Flush before read, as a property of the history.**  In the operation history of any poll of
`poll_input`, every `parse` call that is handed fresh bytes (bytes just read from the transport) is
made with an empty reply buffer: all management replies generated so far had been written out
before the read that produced those bytes was issued. -/
theorem flush_before_read {r : AReq} {dest : Option Nat} {m : MutexSt} {t : Transport} {r' : AReq}
    {m' : MutexSt} {t' : Transport} {res : IRes} (hinv : AInv r) (hl : LockInv r m)
    (h : r.pollInput dest m t = (r', m', t', res)) :
    ∃ ops, r'.sp = applyOps r.sp ops ∧ t.input = C05.fedBytes ops ++ t'.input ∧
      FlushedReads r.sp ops := by
  obtain ⟨⟨ops, htr, hfl, -⟩, -, -⟩ := pollInput_spec hinv hl h
  exact ⟨ops, htr.sp, htr.fed, hfl⟩

/-! ## 4. The `writeable` gate -/

/-- `Request::new` sets `writeable` iff the role has at most one input stream: Responder (1) and
Authorizer (2) start writeable, Filter (3) does not. -/
theorem new_writeable_iff (sp : Parser) :
    (AReq.new sp).writeable = true ↔ (inputStreams sp.request.role).length ≤ 1 :=
  new_writeable sp

theorem new_writeable_roles (sp : Parser) :
    (sp.request.role = 1 → (AReq.new sp).writeable = true) ∧
    (sp.request.role = 2 → (AReq.new sp).writeable = true) ∧
    (sp.request.role = 3 → (AReq.new sp).writeable = false) := by
  refine ⟨fun h => ?_, fun h => ?_, fun h => ?_⟩ <;> simp [AReq.new, inputStreams, h]

/-- `is_final_stream` by role (for the active-stream values `SInv` allows): Responder — `Stdin`
active; Filter — `Data` active; a role without input streams — always.  With no stream active
(`None`) a Responder / Filter is *not* on its final stream. -/
theorem isFinalStream_iff {r : AReq} (hinv : SInv r.sp) :
    (r.sp.request.role = 1 → (r.isFinalStream = true ↔ r.sp.stream = some 5)) ∧
    (r.sp.request.role = 3 → (r.isFinalStream = true ↔ r.sp.stream = some 8)) ∧
    (r.sp.request.role ≠ 1 → r.sp.request.role ≠ 3 → r.isFinalStream = true) := by
  obtain ⟨-, -, -, -, hst, -⟩ := hinv
  refine ⟨fun h1 => ?_, fun h3 => ?_, fun h1 h3 => ?_⟩
  · rcases hst with hs | ⟨e, hs, hm⟩
    · simp [AReq.isFinalStream, nextInputStream, h1, hs]
    · simp only [inputStreams, h1, RT.stdin] at hm
      simp at hm; subst hm
      simp [AReq.isFinalStream, nextInputStream, h1, hs]
  · rcases hst with hs | ⟨e, hs, hm⟩
    · simp [AReq.isFinalStream, nextInputStream, h3, hs]
    · simp only [inputStreams, h3, RT.stdin, RT.data] at hm
      simp at hm
      rcases hm with rfl | rfl <;> simp [AReq.isFinalStream, nextInputStream, h3, hs, RT.stdin]
  · rcases hst with hs | ⟨e, hs, hm⟩
    · simp [AReq.isFinalStream, nextInputStream, h1, h3, hs]
    · simp [inputStreams, h1, h3] at hm

/-- **`writeable` is never reset by `poll_input`, and is set only on the final stream**, by a poll
whose (last) `parse` reported stream data or end of stream. -/
theorem writeable_pollInput {r : AReq} {dest : Option Nat} {m : MutexSt} {t : Transport}
    {r' : AReq} {m' : MutexSt} {t' : Transport} {res : IRes} (hinv : AInv r) (hl : LockInv r m)
    (h : r.pollInput dest m t = (r', m', t', res)) :
    (r.writeable = true → r'.writeable = true) ∧
    (r.writeable = false → r'.writeable = true →
      r'.isFinalStream = true ∧ r.isFinalStream = true ∧
      nextInputStream r.sp.request.role r.sp.stream = none ∧ ∃ k d, res = .ready k d) := by
  obtain ⟨-, hpo, -⟩ := pollInput_spec hinv hl h
  refine ⟨hpo.wmono, fun h0 h1 => ?_⟩
  rcases hpo.wset h1 with hx | ⟨hf, hk⟩
  · rw [h0] at hx; cases hx
  · have hf' : r.isFinalStream = true := by rw [← hpo.final]; exact hf
    refine ⟨hf, hf', ?_, hk⟩
    simpa [AReq.isFinalStream] using hf'

/-- `set_stream` never touches `writeable`; `consume` (`consume_stream`) neither. -/
theorem writeable_setStream {r r' : AReq} {s : Nat} (h : r.setStream s = some r') :
    r'.writeable = r.writeable := by
  obtain ⟨sp', -, rfl⟩ := (setStream_some_iff r s _).mp h
  rfl

/-- `writeable()` never resets the flag, never panics — its `expect("final stream should always be
valid to set")` cannot fire —, and keeps the invariants. -/
theorem writeable_poll_safe {r : AReq} {started : Bool} {m : MutexSt} {t : Transport} {r' : AReq}
    {b : Bool} {m' : MutexSt} {t' : Transport} {res : ORes} (hinv : AInv r) (hl : LockInv r m)
    (hw : WriteableInv r) (hstart : started = true → r.isFinalStream = true)
    (h : r.writeablePoll started m t = (r', b, m', t', res)) :
    (∀ s, res ≠ .panic s) ∧ (r.writeable = true → r'.writeable = true) ∧ AInv r' ∧ LockInv r' m' ∧
      (res = .pending → r'.isFinalStream = true ∧ (r'.sp.parsed ≠ [] → r'.writeable = true)) := by
  obtain ⟨-, a, b', c, d, -, f⟩ := writeablePoll_spec hinv hl hw hstart h
  exact ⟨c, d, a, b', f⟩

/-- The unrestricted wish: whenever (a poll of) `writeable()` completes with `Ok(())`, the request
is writeable.  FALSE — see `writeable_ready_sets_flag_full_false`. -/
def writeable_ready_sets_flag_full : Prop :=
  ∀ (r : AReq) (started : Bool) (m : MutexSt) (t : Transport) (r' : AReq) (b : Bool)
    (m' : MutexSt) (t' : Transport), AInv r → LockInv r m →
    (r.sp.stream = none → r.writeable = true) → (started = true → r.isFinalStream = true) →
    r.writeablePoll started m t = (r', b, m', t', .ready) → r'.writeable = true

/-- **`writeable()` completes only with the flag set** — provided `WriteableInv` holds: stream data of the
final stream is never buffered while `writeable` is unset.  `WriteableInv` holds for a new request and is
kept by `set_stream`, `consume` and every `poll_input` that does not fail (`winv_*` below). -/
theorem writeable_ready_sets_flag_partial {r : AReq} {started : Bool} {m : MutexSt} {t : Transport}
    {r' : AReq} {b : Bool} {m' : MutexSt} {t' : Transport} (hinv : AInv r) (hl : LockInv r m)
    (hw : WriteableInv r) (hstart : started = true → r.isFinalStream = true)
    (h : r.writeablePoll started m t = (r', b, m', t', .ready)) : r'.writeable = true :=
  (writeablePoll_spec hinv hl hw hstart h).2.2.2.2.2.1 rfl

theorem winv_new (cap : Nat) (req : Req.Request) (input : Bytes) (mc : Nat) :
    WriteableInv (AReq.new (Parser.fromParser cap req input mc)) := new_winv cap req input mc

theorem winv_setStream {r r' : AReq} {s : Nat} {m : MutexSt} (h : r.setStream s = some r')
    (hinv : AInv r) (hl : LockInv r m) (hw : WriteableInv r) : WriteableInv r' :=
  (setStream_inv h hinv hl hw).2.2.1

theorem winv_consume {r : AReq} (hw : WriteableInv r) (k : Nat) :
    WriteableInv { r with sp := r.sp.consumeStream k } := by
  refine ⟨hw.1, fun hp hf => hw.2 (fun hx => hp ?_) hf⟩
  show (r.sp.consumeStream k).parsed = []
  rw [consumeStream_parsed, hx]; simp

/-- `poll_input` keeps `WriteableInv` unless it returns an error; the half "no active stream ⇒ writeable"
is kept unconditionally. -/
theorem winv_pollInput {r : AReq} {dest : Option Nat} {m : MutexSt} {t : Transport} {r' : AReq}
    {m' : MutexSt} {t' : Transport} {res : IRes} (hinv : AInv r) (hl : LockInv r m) (hw : WriteableInv r)
    (h : r.pollInput dest m t = (r', m', t', res)) :
    (r'.sp.stream = none → r'.writeable = true) ∧ ((∀ e, res ≠ .err e) → WriteableInv r') :=
  pollInput_winv hinv hl hw h

/-! ### The counterexample (also reproduced on the crate)

A Filter request (role 3).  The handler selects `Data` (`set_stream`), then `fill_buf()`; one
transport read delivers `Data(id 1, "AB")` followed by `AbortRequest(id 1)`.  The parser moves "AB"
into the stream buffer, then meets the abort header: `parse` returns `Err(AbortRequest)`, so
`poll_input` returns `Err(ConnectionAborted)` *without* reaching `set_writeable`.  A handler that
carries on and awaits `writeable()` gets `Ok(())` at once (`poll_input(None)` finds the stream
buffer non-empty and returns early) although `is_writeable()` is still `false`; `output_stream`
then panics.  Harness replay (real crate, panics at `async_io/mod.rs:328`):
`t.run B=8192 mc=3 in=0101000100080000000300000000000001040001000000000108000100020000414201020001000000000000 end=pend rd=- wr=- fl=- stop=none h=~s8,f,w,o6`
→ `HS(3,0,-) s=ok f!aborted w=ok PANIC`. -/

def cxReq : Req.Request := { id := 1, role := 3, flags := 0, env := [] }
/-- `Request::new` for the Filter request, then `set_stream(Data)`. -/
def cxR1 : AReq := ((AReq.new (Parser.fromParser 64 cxReq [] 10)).setStream 8).getD
  (AReq.new (Parser.fromParser 64 cxReq [] 10))
/-- One read delivers `Data(id 1, "AB")` and `AbortRequest(id 1)`. -/
def cxT : Transport :=
  { input := [1, 8, 0, 1, 0, 2, 0, 0, 65, 66,  1, 2, 0, 1, 0, 0, 0, 0], endMode := .eof,
    rd := [], wr := [], fl := [] }
/-- the request, mutex and transport after the failed `fill_buf()` -/
def cxR2 : AReq := (cxR1.pollInput none none cxT).1
def cxM2 : MutexSt := (cxR1.pollInput none none cxT).2.1
def cxT2 : Transport := (cxR1.pollInput none none cxT).2.2.1

theorem cx_setup : AInv cxR1 ∧ LockInv cxR1 none ∧ WriteableInv cxR1 ∧ cxR1.writeable = false ∧
    cxR1.sp.stream = some 8 := by
  refine ⟨⟨⟨by decide +kernel, by decide +kernel, by decide +kernel, ?_,
    Or.inr ⟨8, by decide +kernel, by decide +kernel⟩, by decide +kernel⟩, by decide +kernel⟩,
    ⟨by decide +kernel, by decide +kernel⟩, ⟨by decide +kernel, by decide +kernel⟩,
    by decide +kernel, by decide +kernel⟩
  have : cxR1.sp.state = .skip := by decide +kernel
  simp [this]

theorem cx_failed_read : (cxR1.pollInput none none cxT).2.2.2 = .err .abortRequest ∧
    cxR2.sp.parsed = [65, 66] ∧ cxR2.writeable = false ∧ cxR2.isFinalStream = true ∧
    cxR2.sp.stream = some 8 := by
  decide +kernel

theorem cx_writeable_ok : (cxR2.writeablePoll false cxM2 cxT2).2.2.2.2 = .ready ∧
    (cxR2.writeablePoll false cxM2 cxT2).1.writeable = false := by
  decide +kernel

theorem writeable_ready_sets_flag_full_false : ¬ writeable_ready_sets_flag_full := by
  intro hfull
  obtain ⟨a, b, -, -, -⟩ := cx_setup
  have hp : cxR1.pollInput none none cxT =
      (cxR2, cxM2, cxT2, (cxR1.pollInput none none cxT).2.2.2) := rfl
  obtain ⟨ops, -, -, -, -, -, -, hinv2, hl2⟩ := poll_input_legal a b hp
  have hq : cxR2.writeablePoll false cxM2 cxT2 =
      ((cxR2.writeablePoll false cxM2 cxT2).1, (cxR2.writeablePoll false cxM2 cxT2).2.1,
        (cxR2.writeablePoll false cxM2 cxT2).2.2.1, (cxR2.writeablePoll false cxM2 cxT2).2.2.2.1,
        ORes.ready) :=
    Prod.ext rfl (Prod.ext rfl (Prod.ext rfl (Prod.ext rfl cx_writeable_ok.1)))
  have hstream : cxR2.sp.stream = none → cxR2.writeable = true := by
    intro hx; rw [cx_failed_read.2.2.2.2] at hx; cases hx
  have := hfull cxR2 false cxM2 cxT2 _ _ _ _ hinv2 hl2 hstream (fun hx => nomatch hx) hq
  rw [cx_writeable_ok.2] at this
  cases this

/-- `output_stream(t)` in the run-loop model: a writer for stream `t` of this request is created
iff the request is writeable and `t` is one of the role's output streams; otherwise the documented
assertion panics.  (`handlerPoll` is the handler interpreter of `Model/RunLoop.lean`.) -/
theorem output_gate (fuel : Nat) (r : AReq) (h : Run.HState) (e : Run.Env) (t : Nat)
    (rest : List Run.HOp) (hops : h.ops = .open_ t :: rest) :
    (t ∈ outputStreams r.sp.request.role ∧ r.writeable = true →
      Run.handlerPoll (fuel + 1) r h e =
        Run.handlerPoll fuel r
          { h with ops := rest, sub := .fresh,
                   writers := h.writers ++ [some { rtype := t, id := r.sp.request.id }] }
          (e.ev s!"o=w{h.writers.length}")) ∧
    (¬ (t ∈ outputStreams r.sp.request.role ∧ r.writeable = true) →
      Run.handlerPoll (fuel + 1) r h e = (r, h, e, .panic "async_io:324 output_stream assertion")) := by
  constructor
  · rintro ⟨h1, h2⟩
    rw [Run.handlerPoll]
    simp only [hops]
    have : (!(outputStreams r.sp.request.role).contains t || !r.writeable) = false := by
      simp [h1, h2]
    simp only [this, Bool.false_eq_true, if_false]
  · intro hn
    rw [Run.handlerPoll]
    simp only [hops]
    have : (!(outputStreams r.sp.request.role).contains t || !r.writeable) = true := by
      cases hw : r.writeable with
      | false => simp
      | true =>
        have : t ∉ outputStreams r.sp.request.role := fun hm => hn ⟨hm, hw⟩
        simp [this]
    simp only [this, if_true]

/-- The writer handed out carries the request's id and the requested stream type, holds no lock
and has nothing in flight. -/
theorem output_gate_writer (t id : Nat) :
    ({ rtype := t, id := id } : Writer).lock = .none ∧
    ({ rtype := t, id := id } : Writer).isWriting = false := ⟨rfl, rfl⟩

/-! ## 5. End of stream is sticky -/

/-- **Entering.**  A `read` into a non-empty buffer that returns `Ok(0)` while a stream is active
does so because the parser reported `stream_end`: the request is left at a record boundary in
front of the held-back header (the active stream's empty record, or a record of a later stream of
this request — `C18.held_back`), with nothing buffered. -/
theorem eof_enters {r : AReq} {n : Nat} {m : MutexSt} {t : Transport} {r' : AReq}
    {m' : MutexSt} {t' : Transport} (hinv : AInv r) (hl : LockInv r m) (hn : 0 < n)
    (hs : r.sp.stream ≠ none) (h : r.pollInput (some n) m t = (r', m', t', .ready 0 [])) :
    EofSt r' ∧ r'.sp.stream = r.sp.stream :=
  ⟨pollInput_eof_enters hinv hl hn hs h, (pollInput_spec hinv hl h).2.1.strm⟩

/-- **Persisting (no reply queued).**  Every later `poll_input` — `read` with any buffer, or
`fill_buf` — returns `Ok(0)` again, with **no transport call at all** (`t` and the mutex come back
unchanged, in particular `events`), and leaves the parser exactly as it is. -/
theorem eof_persists {r : AReq} {m : MutexSt} (hinv : AInv r) (hl : LockInv r m) (he : EofSt r)
    (ho : r.sp.output = []) (dest : Option Nat) (t : Transport) :
    ∃ r', r.pollInput dest m t = (r', m, t, .ready 0 []) ∧ r'.sp = r.sp ∧ r'.lock = r.lock ∧
      (r.writeable = true → r'.writeable = true) ∧ EofSt r' :=
  pollInput_eof hinv hl he ho dest t

/-- …and so for any number of further polls. -/
theorem eof_persists_forever {m : MutexSt} (dests : List (Option Nat)) (t : Transport) :
    ∀ {r : AReq}, AInv r → LockInv r m → EofSt r → r.sp.output = [] →
    ∀ dest ∈ dests, ∃ r', AInv r' ∧ LockInv r' m ∧ EofSt r' ∧ r'.sp = r.sp ∧
      ∃ r'', r'.pollInput dest m t = (r'', m, t, .ready 0 []) := by
  intro r hinv hl he ho dest _
  obtain ⟨r', h, -⟩ := pollInput_eof hinv hl he ho dest t
  exact ⟨r, hinv, hl, he, rfl, r', h⟩

/-- **Persisting (replies queued).**  `poll_input` first flushes (`poll_output`), which may write
and may answer `Pending` or fail; but the read side of the transport is never touched, the only
`Ready` result is `Ok(0)`, the replies are written exactly once, and the state stays an
end-of-stream state. -/
theorem eof_persists_flush {r : AReq} {m : MutexSt} {t : Transport} {dest : Option Nat}
    {r' : AReq} {m' : MutexSt} {t' : Transport} {res : IRes} (hinv : AInv r) (hl : LockInv r m)
    (he : EofSt r) (h : r.pollInput dest m t = (r', m', t', res)) :
    RFrame t t' ∧ EofSt r' ∧ (∀ k d, res = .ready k d → k = 0 ∧ d = []) ∧
      t'.wlog ++ r'.sp.output = t.wlog ++ r.sp.output :=
  pollInput_eof_flush hinv hl he h

/-- …until `set_stream` selects a *different* stream: re-selecting the active one changes nothing. -/
theorem eof_setStream_same {r r' : AReq} {s : Nat} (hs : r.sp.stream = some s)
    (h : r.setStream s = some r') : r' = r := by
  obtain ⟨sp', h1, rfl⟩ := (setStream_some_iff r s _).mp h
  rcases setStream_ok_cases h1 with ⟨-, rfl⟩ | ⟨hne, -, -⟩
  · rfl
  · exact absurd hs.symm hne

/-- With no stream active (`None`, after `close` selected it) `poll_input` never reads either: the
parser reports `stream_end` at once on every call. -/
theorem no_stream_no_read {r : AReq} {dest : Option Nat} {m : MutexSt} {t : Transport} {r' : AReq}
    {m' : MutexSt} {t' : Transport} {res : IRes} (hinv : AInv r) (hl : LockInv r m)
    (hs : r.sp.stream = none) (h : r.pollInput dest m t = (r', m', t', res)) : RFrame t t' := by
  by_cases hz : dest = some 0
  · subst hz; rw [pollInput_zero] at h; cases h; exact RFrame.refl _
  by_cases hp : r.sp.parsed = []
  · rw [pollInput_loop r dest m t hz hp] at h
    rcases hpo : r.pollOutput m t with ⟨r1, m1, t1, o⟩
    obtain ⟨k, hk1, -, -, hk4, hk5, hk6, -, -⟩ := pollOutput_spec hl hpo
    rw [hpo] at h
    cases o with
    | pending => simp only [afterFlush] at h; cases h; exact hk4
    | err e => simp only [afterFlush] at h; cases h; exact hk4
    | panic s => exact absurd rfl (hk6 s)
    | ready =>
      simp only [afterFlush] at h
      rw [inLoop] at h
      have hs1 : r1.sp.stream = none := by rw [hk1]; exact hs
      have hinv1 : SInv r1.sp := by rw [hk1]; exact C03S.consumeOutput_inv hinv.1 k
      have hg := parse_good r1.sp [] dest hinv1.1 (Or.inr (by rw [hk1]; exact hp)) (Nat.zero_le _)
      rcases hpar : r1.sp.parse [] dest with ⟨sp, pr⟩
      rw [hpar] at h hg
      cases pr with
      | panic s => simp only at h; cases h; exact hk4
      | err e => simp only at h; cases h; exact hk4
      | ok st =>
        obtain ⟨⟨d', hrel⟩, -⟩ := hg
        have hse : st.streamEnd = true := hrel.se (by simp [initStatus, hs1])
        simp only [hse, Bool.true_or, if_true] at h
        cases h
        exact hk4
  · cases dest with
    | none => rw [pollInput_none_buffered r m t hp] at h; cases h; exact RFrame.refl _
    | some n =>
      have hn : 0 < n := by
        cases n with
        | zero => exact absurd rfl hz
        | succ n => omega
      rw [pollInput_some_buffered r n m t hn hp] at h; cases h; exact RFrame.refl _

/-! ## 6. `Request::set_stream` -/

/-- **`set_stream(s)`** for an input-stream type `s`: succeeds iff the stream parser accepts, i.e.
iff `s` is the active stream or strictly later in the role's order (`C18.setStream_accept_iff`);
otherwise the model yields `none` — the documented panic.  On success only the parser changes:
re-selecting the active stream is the identity; a change discards the stream buffer (`parsed = []`,
so no byte of the old stream can be returned afterwards) and touches neither the unparsed protocol
bytes nor the reply buffer nor the record position. -/
theorem set_stream_async {r : AReq} (hinv : AInv r) {s : Nat} (hs : RT.isInputStream s = true) :
    ((∃ r', r.setStream s = some r') ↔
      (r.sp.stream = some s ∨ Later r.sp.request.role r.sp.stream s)) ∧
    (¬ (r.sp.stream = some s ∨ Later r.sp.request.role r.sp.stream s) → r.setStream s = none) ∧
    (∀ r', r.setStream s = some r' →
      r'.lock = r.lock ∧ r'.writeable = r.writeable ∧ r'.sp.stream = some s ∧
      r'.sp.raw = r.sp.raw ∧ r'.sp.output = r.sp.output ∧ r'.sp.pay = r.sp.pay ∧
      r'.sp.pad = r.sp.pad ∧ r'.sp.request = r.sp.request ∧ AInv r' ∧
      (r.sp.stream = some s → r' = r) ∧
      (r.sp.stream ≠ some s → r'.sp.parsed = [] ∧ r'.sp.g0 = 0 ∧ r'.sp.g1 = 0 ∧
        Later r.sp.request.role r.sp.stream s)) := by
  obtain ⟨hacc, hrej⟩ := C18.setStream_accept_iff hinv.1 hs
  refine ⟨⟨?_, ?_⟩, ?_, ?_⟩
  · rintro ⟨r', h⟩
    obtain ⟨sp', h1, -⟩ := (setStream_some_iff r s _).mp h
    exact hacc.mp ⟨sp', h1⟩
  · intro h
    obtain ⟨sp', h1⟩ := hacc.mpr h
    exact ⟨_, (setStream_some_iff r s _).mpr ⟨sp', h1, rfl⟩⟩
  · intro h
    rw [setStream_none_iff]
    intro sp' h1
    rw [hrej h] at h1
    cases h1
  · intro r' h
    obtain ⟨sp', h1, rfl⟩ := (setStream_some_iff r s _).mp h
    have hinv' : AInv { r with sp := sp' } :=
      ⟨C03S.setStream_inv hinv.1 h1, by
        show 24 ≤ sp'.cap; rw [(setStream_ok_frame h1).2.2.1]; exact hinv.2⟩
    rcases setStream_ok_cases h1 with ⟨he, rfl⟩ | ⟨hne, -, -⟩
    · exact ⟨rfl, rfl, he.symm, rfl, rfl, rfl, rfl, rfl, hinv', fun _ => rfl,
        fun hx => absurd he.symm hx⟩
    · obtain ⟨c1, c2, c3, c4, c5, c6, -, c8, -, c10, c11, c12⟩ := C18.setStream_changed h1 hne
      refine ⟨rfl, rfl, c1, c3, c4, c5, c6, c8, hinv', fun hx => absurd hx.symm hne, fun _ => ?_⟩
      refine ⟨c2, c10, c11, ?_⟩
      rcases c12 with hx | ⟨s', hx, hl⟩
      · cases hx
      · cases hx; exact hl

/-- A type that is not an input-stream type is never accepted. -/
theorem set_stream_non_input (r : AReq) {s : Nat} (hs : RT.isInputStream s = false) :
    r.setStream s = none := by
  rw [setStream_none_iff]
  intro sp' h
  rw [C18.setStream_nonInput r.sp hs] at h
  split at h <;> cases h

/-- Once no stream is active, every `set_stream` is the documented panic. -/
theorem set_stream_after_none (r : AReq) (s : Nat) (h : r.sp.stream = none) :
    r.setStream s = none := by
  rw [setStream_none_iff]
  intro sp' h1
  rw [C18.setStream_some_of_none_rejected r.sp s h] at h1
  cases h1

/-! ## 7. What a read returns -/

/-- Buffered stream data is handed out first, without touching the transport, the mutex, the
parser's protocol state or the reply buffer: `read(&mut [])` returns `Ok(0)`; `fill_buf()` with a
non-empty stream buffer returns it as is; `read(buf)` with a non-empty stream buffer copies
`min(buf.len(), buffered)` bytes from its front and consumes exactly those. -/
theorem buffered_first (r : AReq) (m : MutexSt) (t : Transport) :
    r.pollInput (some 0) m t = (r, m, t, .ready 0 []) ∧
    (r.sp.parsed ≠ [] → r.pollInput none m t = (r, m, t, .ready 0 [])) ∧
    (∀ n, 0 < n → r.sp.parsed ≠ [] →
      r.pollInput (some n) m t =
        ({ r with sp := r.sp.consumeStream (min n r.sp.parsed.length) }, m, t,
          .ready (min n r.sp.parsed.length) (r.sp.parsed.take (min n r.sp.parsed.length)))) :=
  ⟨pollInput_zero r m t, pollInput_none_buffered r m t,
    fun n hn hp => pollInput_some_buffered r n m t hn hp⟩

/-- The shape of every `Ready(Ok(k))`: with a destination of `n` bytes, exactly `k ≤ n` bytes were
written into it; with `dest = None` nothing is copied — the data is the stream buffer
`r'.sp.parsed` (`fill_buf` returns `parser.stream_buffer()`). -/
theorem read_structural {r : AReq} {dest : Option Nat} {m : MutexSt} {t : Transport} {r' : AReq}
    {m' : MutexSt} {t' : Transport} {k : Nat} {d : Bytes} (hinv : AInv r) (hl : LockInv r m)
    (h : r.pollInput dest m t = (r', m', t', .ready k d)) :
    (∀ n, dest = some n → d.length = k ∧ k ≤ n) ∧ (dest = none → d = []) := by
  obtain ⟨-, hpo, -⟩ := pollInput_spec hinv hl h
  exact ⟨fun n hn => hpo.rsome n k d hn rfl, fun hn => hpo.rnone hn k d rfl⟩

/-- **A read that goes to the parser returns what a legal `parse` call delivered.**  When nothing
is buffered, the result `Ok(k)` with data `d` of a poll is exactly `Status::stream` and the bytes
delivered by the poll's last `parse` call — a legal call (C03's preconditions) on an invariant
parser `q` with the same request and active stream, whose resulting parser is the request's —
which reported stream data or end of stream.  For `dest = None` the `k` bytes were appended to the
stream buffer.  By `C18.only_active_delivered` / `C18.iter_only_active` such bytes are payload
bytes of records of the active stream carrying the request's id, and by C02
(`delivered_prefix`) they continue the stream's content. -/
theorem read_is_last_parse {r : AReq} {dest : Option Nat} {m : MutexSt} {t : Transport}
    {r' : AReq} {m' : MutexSt} {t' : Transport} {k : Nat} {d : Bytes} (hinv : AInv r)
    (hl : LockInv r m) (hz : dest ≠ some 0) (hp : r.sp.parsed = [])
    (h : r.pollInput dest m t = (r', m', t', .ready k d)) :
    ∃ q new st, SInv q ∧ (dest = none ∨ q.parsed = []) ∧ new.length ≤ q.free ∧
      q.parse new dest = (r'.sp, .ok st) ∧ k = st.stream ∧ d = st.delivered ∧
      (st.streamEnd = true ∨ 0 < st.stream) ∧
      q.request = r.sp.request ∧ q.stream = r.sp.stream ∧
      (dest = none → ∃ a, r'.sp.parsed = q.parsed ++ a ∧ a.length = k) ∧
      (dest ≠ none → r'.sp.parsed = []) := by
  obtain ⟨-, hpo, hlo⟩ := pollInput_spec hinv hl h
  have hlo := hlo hz hp
  obtain ⟨q, new, st, h1, h2, h3, h4, h5, h6, h7⟩ := hlo.last k d rfl
  obtain ⟨f1, f2, -⟩ := parse_frame q new dest
  rw [h4] at f1 f2
  simp only at f1 f2
  refine ⟨q, new, st, h1, h2, h3, h4, h5, h6, h7, by rw [← f2, hpo.req], by rw [← f1, hpo.strm],
    fun hn => ?_, hlo.psome⟩
  obtain ⟨-, hcn, -, -⟩ := C03S.counts_exact h1.1 h2 h3 h4
  obtain ⟨a, ha, hlen, -⟩ := hcn hn
  exact ⟨a, ha, by rw [hlen, h5]⟩

/-! ## 8. Sessions of reads deliver a prefix of the stream's content (with C02) -/

/-- The handler's read-side calls, one poll each. -/
inductive RdOp
  | read (n : Nat)      -- `AsyncRead::poll_read` with an `n`-byte buffer
  | fill                -- `AsyncBufRead::poll_fill_buf`
  | consume (k : Nat)   -- `AsyncBufRead::consume(k)`
deriving Repr, DecidableEq

structure RdSt where
  r : AReq
  m : MutexSt
  t : Transport

/-- One call: the new state and the stream bytes handed to the handler by it (`read`: the bytes
written into its buffer — none on `Pending` / `Err`; `fill_buf`: none, they stay in the stream
buffer; `consume(k)`: the first `k` buffered bytes). -/
def rdStep (s : RdSt) : RdOp → RdSt × Bytes
  | .read n =>
    (⟨(s.r.pollInput (some n) s.m s.t).1, (s.r.pollInput (some n) s.m s.t).2.1,
      (s.r.pollInput (some n) s.m s.t).2.2.1⟩, retOf (s.r.pollInput (some n) s.m s.t).2.2.2)
  | .fill =>
    (⟨(s.r.pollInput none s.m s.t).1, (s.r.pollInput none s.m s.t).2.1,
      (s.r.pollInput none s.m s.t).2.2.1⟩, [])
  | .consume k => (⟨{ s.r with sp := s.r.sp.consumeStream k }, s.m, s.t⟩, s.r.sp.parsed.take k)

def rdRun : RdSt → List RdOp → RdSt × Bytes
  | s, [] => (s, [])
  | s, op :: ops => ((rdRun (rdStep s op).1 ops).1, (rdStep s op).2 ++ (rdRun (rdStep s op).1 ops).2)

/-- One call is a legal parser history with the ledger `buffered ++ delivered = handed out ++
buffered'`, and keeps the invariants. -/
theorem rdStep_spec (s : RdSt) (op : RdOp) (hinv : AInv s.r) (hl : LockInv s.r s.m) :
    ∃ O, Tr s.r.sp s.t.input s.t.wlog O (rdStep s op).1.r.sp (rdStep s op).1.t.input
        (rdStep s op).1.t.wlog ∧
      Led s.r.sp O (rdStep s op).2 (rdStep s op).1.r.sp ∧ AInv (rdStep s op).1.r ∧
      LockInv (rdStep s op).1.r (rdStep s op).1.m := by
  cases op with
  | read n =>
    rcases hp : s.r.pollInput (some n) s.m s.t with ⟨r', m', t', res⟩
    have e : rdStep s (.read n) = (⟨r', m', t'⟩, retOf res) := by simp only [rdStep, hp]
    rw [e]
    obtain ⟨⟨O, htr, -, hled⟩, hpo, -⟩ := pollInput_spec hinv hl hp
    obtain ⟨a, b, -, -⟩ := htr.inv hinv.1
    exact ⟨O, htr, hled, ⟨a, by rw [b]; exact hinv.2⟩, hpo.linv⟩
  | fill =>
    rcases hp : s.r.pollInput none s.m s.t with ⟨r', m', t', res⟩
    have e : rdStep s .fill = (⟨r', m', t'⟩, []) := by simp only [rdStep, hp]
    rw [e]
    obtain ⟨⟨O, htr, -, hled⟩, hpo, -⟩ := pollInput_spec hinv hl hp
    obtain ⟨a, b, -, -⟩ := htr.inv hinv.1
    refine ⟨O, htr, ?_, ⟨a, by rw [b]; exact hinv.2⟩, hpo.linv⟩
    have : retOf res = [] := by
      cases res with
      | ready k d => exact hpo.rnone rfl k d rfl
      | _ => rfl
    rw [this] at hled
    exact hled
  | consume k =>
    refine ⟨[.consumeStream k], Tr.consumeStream k (Tr.nil _ _ _), ?_,
      ⟨C03S.consumeStream_inv hinv.1 k, hinv.2⟩, lockInv_sp hl id⟩
    unfold Led
    simp only [dlvAll, dlv, rdStep, List.append_nil]
    rw [consumeStream_parsed, List.take_append_drop]

theorem rdRun_spec : ∀ (ops : List RdOp) (s : RdSt), AInv s.r → LockInv s.r s.m →
    ∃ O, Tr s.r.sp s.t.input s.t.wlog O (rdRun s ops).1.r.sp (rdRun s ops).1.t.input
        (rdRun s ops).1.t.wlog ∧
      Led s.r.sp O (rdRun s ops).2 (rdRun s ops).1.r.sp ∧ AInv (rdRun s ops).1.r ∧
      LockInv (rdRun s ops).1.r (rdRun s ops).1.m := by
  intro ops
  induction ops with
  | nil => intro s hinv hl; exact ⟨[], Tr.nil _ _ _, Led.nil _, hinv, hl⟩
  | cons op ops ih =>
    intro s hinv hl
    obtain ⟨O1, t1, l1, i1, k1⟩ := rdStep_spec s op hinv hl
    obtain ⟨O2, t2, l2, i2, k2⟩ := ih (rdStep s op).1 i1 k1
    exact ⟨O1 ++ O2, t1.append t2, l1.append l2 t1.sp, i2, k2⟩

theorem fedBytes_eq (ops : List Op) : C05.fedBytes ops = Str.fedBytes ops := by
  induction ops with
  | nil => rfl
  | cons op t ih => cases op <;> simp [C05.fedBytes, Str.fedBytes, ih]

/-- When every `parse` of the history returned `Ok` (which C02 guarantees on a well-formed wire),
this file's ledger of delivered bytes is C02's. -/
theorem dlvAll_eq_deliveredOps {content : Bytes} : ∀ (ops : List Op) (acc : Bytes) (p : Parser),
    EveryParse (EndExact content) acc p ops → dlvAll p ops = deliveredOps p ops := by
  intro ops
  induction ops with
  | nil => intro _ _ _; rfl
  | cons op t ih =>
    intro acc p h
    obtain ⟨h1, h2⟩ := h
    simp only [dlvAll, deliveredOps]
    rw [ih _ _ h2]
    congr 1
    cases op with
    | parse new dest =>
      obtain ⟨st, hst, -⟩ := h1
      simp only [dlv, deliveredOp]
      rcases hp : p.parse new dest with ⟨p', pr⟩
      rw [hp] at hst
      simp only at hst
      subst hst
      cases dest <;> rfl
    | consumeStream k => rfl
    | compress => rfl
    | consumeOutput k => rfl
    | setStream st => rfl

/-- **Async reads deliver exactly the active stream.**  The request stands at a record boundary
with stream `s` of request `id` active and nothing buffered (`C02.Start`, e.g. right after
`Request::new`); `recs` is any well-formed record sequence of that stream carrying `content` (any
segmentation, padding, interleaved management / foreign records); everything the transport will
ever deliver lies within `serAll recs ++ tail`.  Then for **every** sequence of `read(buf)` (any
buffer sizes), `fill_buf()` and `consume(k)` polls — including polls that return `Pending` or an
I/O error, under any transport chunking and any write-side behaviour —

* all bytes handed to the handler so far, followed by what is still in the stream buffer, are a
  prefix of `content`: exactly the stream's bytes, each once, in order, nothing from other
  streams, other requests, management records or padding;
* the parser calls made were all legal, none returned an error or panicked. -/
theorem reads_deliver_stream_prefix {id s mc : Nat} {content : Bytes} {recs : List Spec.Rec}
    (s0 : RdSt) (ops : List RdOp) (hinv : AInv s0.r) (hl : LockInv s0.r s0.m)
    (h0 : C02.Start s0.r.sp id s mc) (hb : s0.r.sp.parsed = [])
    (hrecs : Spec.StreamRecs id s content recs) (tail : Bytes)
    (hwire : s0.r.sp.raw ++ s0.t.input <+: Spec.serAll recs ++ tail) :
    (rdRun s0 ops).2 ++ (rdRun s0 ops).1.r.sp.parsed <+: content ∧
    (rdRun s0 ops).2 <+: content ∧
    ∃ O, (rdRun s0 ops).1.r.sp = applyOps s0.r.sp O ∧ LegalAll s0.r.sp O ∧
      EveryParse (EndExact content) [] s0.r.sp O := by
  obtain ⟨O, htr, hled, -, -⟩ := rdRun_spec ops s0 hinv hl
  have hfed : s0.r.sp.raw ++ Str.fedBytes O <+: Spec.serAll recs ++ tail := by
    refine List.IsPrefix.trans ?_ hwire
    rw [htr.fed, fedBytes_eq]
    exact ⟨(rdRun s0 ops).1.t.input, by rw [List.append_assoc]⟩
  obtain ⟨hpre, hev⟩ := C02.delivered_prefix h0 hrecs tail O htr.legal htr.noset hfed
  unfold Led at hled
  rw [hb, List.nil_append, dlvAll_eq_deliveredOps O [] _ hev] at hled
  rw [← hled]
  refine ⟨hpre, ?_, O, htr.sp, htr.legal, hev⟩
  exact List.IsPrefix.trans ⟨_, rfl⟩ (hled ▸ hpre)

/-- The same for a new request (`Request::new` on the parser handed over by the request parser):
Responder / Filter, `Stdin` active; the hand-over bytes `input0` count as part of the wire. -/
theorem reads_deliver_stream_prefix_fresh (cap : Nat) (req : Req.Request) (input0 : Bytes)
    (mc : Nat) (hlen : input0.length ≤ cap) (hid : req.id < 65536) (hcap : 24 ≤ cap)
    (hrole : req.role = 1 ∨ req.role = 3) {content : Bytes} {recs : List Spec.Rec}
    (hrecs : Spec.StreamRecs req.id 5 content recs) (tail : Bytes) (t : Transport)
    (hwire : input0 ++ t.input <+: Spec.serAll recs ++ tail) (ops : List RdOp) :
    (rdRun ⟨AReq.new (Parser.fromParser cap req input0 mc), none, t⟩ ops).2 <+: content := by
  obtain ⟨a, b, -⟩ := new_inv_fresh cap req input0 mc hlen hid hcap
  exact (reads_deliver_stream_prefix ⟨AReq.new (Parser.fromParser cap req input0 mc), none, t⟩ ops
    a b (C02.start_fresh cap req input0 mc hlen hid hrole) rfl hrecs tail hwire).2.1

/-! ## Concrete instances (non-vacuity) -/

section Examples

/-- A Responder request (id 1) right after `Request::new`, 64-byte buffer. -/
def exR : AReq := AReq.new (Parser.fromParser 64 { id := 1, role := 1, flags := 0, env := [] } [] 10)

example : AInv exR ∧ LockInv exR none ∧ WriteableInv exR ∧ exR.writeable = true :=
  ⟨(new_inv_fresh 64 _ [] 10 (by decide) (by decide) (by decide)).1,
   (new_inv_fresh 64 _ [] 10 (by decide) (by decide) (by decide)).2.1,
   (new_inv_fresh 64 _ [] 10 (by decide) (by decide) (by decide)).2.2, by decide⟩

/-- The peer sends a record of unknown type 99 (owed reply: a 16-byte `UnknownType` record), then
`Stdin(id 1, "AB")`, then the empty `Stdin`; the first transport read returns 8 bytes only. -/
def exT : Transport :=
  { input := [1, 99, 0, 0, 0, 0, 0, 0] ++ [1, 5, 0, 1, 0, 2, 0, 0, 65, 66] ++ [1, 5, 0, 1, 0, 0, 0, 0],
    endMode := .eof, rd := [.n 8], wr := [], fl := [] }

/-- `read(&mut [0; 8])`: the first transport read brings the unknown record only, so the loop has to
read again; the reply is written out *before* that second read (16 bytes in the log, reply buffer
empty again); then "AB" is returned. -/
example : (exR.pollInput (some 8) none exT).2.2.2 = .ready 2 [65, 66] ∧
    (exR.pollInput (some 8) none exT).2.2.1.wlog.length = 16 ∧
    (exR.pollInput (some 8) none exT).1.sp.output = [] ∧
    (exR.pollInput (some 8) none exT).2.2.1.input = [] := by decide +kernel

/-- The next read reports end of stream: `Ok(0)`; the request is then in an end-of-stream state with
an empty reply buffer, so by `eof_persists` every further poll returns `Ok(0)` with no transport
call. -/
example :
    let s1 := exR.pollInput (some 8) none exT
    (s1.1.pollInput (some 8) s1.2.1 s1.2.2.1).2.2.2 = .ready 0 [] ∧
    (s1.1.pollInput (some 8) s1.2.1 s1.2.2.1).1.sp.output = [] := by decide +kernel

/-- A Filter standing in front of a `Data` header while `Stdin` is active (`C18.demo3`): an
end-of-stream state; `fill_buf` and `read` return `Ok(0)` with no transport call, by
`eof_persists`. -/
def exEof : AReq := { sp := C18.demo3, lock := .none, writeable := false }

theorem exEof_inv : AInv exEof ∧ LockInv exEof none ∧ EofSt exEof :=
  ⟨⟨SInv_fromParser _ _ _ _ (by decide) (by decide), by decide⟩,
   ⟨by decide, fun _ => rfl⟩,
   ⟨⟨1, 8, 0, 1, 0, 3, 0, 0, [9, 9, 9],
      { rtype := 8, requestId := 1, contentLength := 3, paddingLength := 0 },
      rfl, rfl, by decide, rfl, Or.inr (by decide)⟩, rfl, rfl⟩⟩

example (dest : Option Nat) (t : Transport) :
    ∃ r', exEof.pollInput dest none t = (r', none, t, .ready 0 []) ∧ r'.sp = exEof.sp :=
  let ⟨r', h, hs, _⟩ := eof_persists exEof_inv.1 exEof_inv.2.1 exEof_inv.2.2 rfl dest t
  ⟨r', h, hs⟩

/-- `set_stream(Data)` is accepted there (Data is later than Stdin for a Filter); `set_stream`
back to `Stdin` afterwards would be the documented panic. -/
example : (∃ r', exEof.setStream 8 = some r') ∧
    ∀ r', exEof.setStream 8 = some r' → r'.setStream 5 = none := by
  have h8 := set_stream_async exEof_inv.1 (s := 8) rfl
  refine ⟨h8.1.mpr (Or.inr (by decide)), fun r' hr' => ?_⟩
  obtain ⟨-, -, hs, -, -, -, -, hreq, hinv', -, -⟩ := h8.2.2 r' hr'
  refine (set_stream_async hinv' (s := 5) rfl).2.1 ?_
  rw [hs, hreq]
  decide

/-- The output gate on the concrete Filter request: not writeable yet, so `output_stream(Stdout)`
is the documented panic. -/
example (h : Run.HState) (e : Run.Env) (rest : List Run.HOp) (hops : h.ops = .open_ 6 :: rest) :
    Run.handlerPoll 1 exEof h e = (exEof, h, e, .panic "async_io:324 output_stream assertion") :=
  (output_gate 0 exEof h e 6 rest hops).2 (fun hx => by cases hx.2)

end Examples

end Fcgi.C09
