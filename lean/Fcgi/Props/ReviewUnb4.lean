import Fcgi.Props.ReviewUnb
import Fcgi.Props.C07Echo3
import Fcgi.Props.C09Gate3
import Fcgi.Props.C07NoFuel3
/-!
# Review, round 4 (see `lean/UNBOUNDED_REVIEW.md`, section "Round 4")

Fresh instantiations (does not import any `Headline*` module):
* `rv4_echo_noise` — `C07W.echo_responder_e2e_noise_reads` on the connection of `ReviewUnb` (8-record noisy preamble,
  Stdin "hello" in two records with a type-77 record ON THE REQUEST'S OWN ID and a GetValues record in between — both
  owe replies —, short reads and Pendings): the log is an interleaving of the two owed replies and the five echo
  records + epilogue, and the trace has `r=1:68, r=1:65, r=1:6c, r=1:6c, r=1:6f, r=0:-` in this order;
* `rv4_gate_free` — `C09G.filter_gate_free` on the Filter of `ReviewUnb`;
* `rv4_many_writes` — `C07W.single_request_writers_e2e_nofuel` with 1 200 one-byte writes alternating Stdout / Stderr
  (cost 2 400 > 1000: the old `hhf` fails, `rv4_old_hhf_fails`).
Driver lines: `/verif/.run/replay-review-unb4.ops`.
-/
namespace Fcgi.ReviewUnb4
open Fcgi Fcgi.Req Fcgi.Str Fcgi.Async Fcgi.Run Fcgi.Spec Fcgi.E2E Fcgi.C07E Fcgi.C07U Fcgi.C07W Fcgi.ReviewUnb

theorem rv4_reads : echoReadEvents [104, 101, 108, 108, 111] =
    ["r=1:68", "r=1:65", "r=1:6c", "r=1:6c", "r=1:6f", "r=0:-"] := by decide

theorem rv4_echo_noise : ∃ c' fin pad res,
    runTask 40 (connS 64 10 rvT [(echoScript [104, 101, 108, 108, 111] (.complete 3), true)]) 0 none = (c', fin) ∧
    EchoNoiseOutcome rvPre rvRecs [104, 101, 108, 108, 111] rvS pad res 64 10 (.complete 3) [] rvT c' fin ∧
    ["r=1:68", "r=1:65", "r=1:6c", "r=1:6c", "r=1:6f", "r=0:-"].Sublist c'.env.tr.events := by
  have h := echo_responder_e2e_noise_reads (p := rvPre) (recs := rvRecs) (content := [104, 101, 108, 108, 111])
    (srecs := rvS) (b := 64) (mc := 10) (st := .complete 3) (more := []) (t := rvT) (fuel := 40)
    rvRecs_wf rfl rvPairs_fit rvRecs_fits rvS_ok rvS_fits rfl rvT_ben rfl (by decide)
  rw [rv4_reads] at h
  exact h

/-- the empty content: the sublist claim is `["r=0:-"]` -/
theorem rv4_reads_empty : echoReadEvents [] = ["r=0:-"] := by decide

open Fcgi.C09G in
theorem rv4_gate_free : ∃ k : Nat, k ≤ 15 ∧
    ∃ ck, runTask k (connS 64 10 { rvT with input := serAll rvRecsF ++ (serAll rvS ++ serAll rvD) }
        (([.writeable, .open_ 6, .writeAll 0 [111, 107], .dropW 0, .ret (.complete 4)], true) :: [])) 0 none = (ck, "FUEL") ∧
      GatePollFree rvPreF rvRecsF rvS rvD 10 [] [.open_ 6, .writeAll 0 [111, 107], .dropW 0, .ret (.complete 4)] []
        (prePoll ck k none) := by
  obtain ⟨k, hk, _, ck, hrun, hg⟩ := filter_gate_free (p := rvPreF) (recs := rvRecsF)
    (content := [104, 101, 108, 108, 111]) (srecs := rvS) (content2 := [68, 65, 84, 65, 33]) (drecs := rvD)
    (b := 64) (mc := 10) (rest := [.open_ 6, .writeAll 0 [111, 107], .dropW 0, .ret (.complete 4)]) (more := [])
    (t := { rvT with input := serAll rvRecsF ++ (serAll rvS ++ serAll rvD) })
    rvRecsF_wf rfl (by exact rvPairs_fit) rvRecsF_fits rvS_ok rvS_fits rvD_ok rvD_fits rfl
    ⟨by decide, by decide, rfl, by decide⟩ rfl
  exact ⟨k, hk, ck, hrun, hg⟩

/-- 1 200 one-byte writes, alternately Stdout / Stderr -/
def rv4W : WList := (List.range 1200).map fun i => (if i % 2 = 0 then (0 : _root_.Fin 2) else 1, [UInt8.ofNat (65 + i % 26)])

theorem rv4_old_hhf_fails : ¬ (wcostAll rv4W + 20 ≤ 1000) := by
  have h := ExampleNoFuel3.wcostAll_ge rv4W
  have hl : rv4W.length = 1200 := by simp [rv4W]
  omega

theorem rv4_many_writes : ∃ c' fin O₁ O₂ pad res,
    runTask 20 (connS 64 10 rvT [(wscript rv4W (.complete 5), true)]) 0 none = (c', fin) ∧
    O₁ ++ O₂ = owedStream 7 5 10 rvS ∧
    WritersOutcome rvPre rvRecs [104, 101, 108, 108, 111] rv4W O₁ O₂ pad res 64 10 (.complete 5) [] rvT c' fin :=
  single_request_writers_e2e_nofuel (p := rvPre) (recs := rvRecs) (content := [104, 101, 108, 108, 111]) (srecs := rvS)
    (b := 64) (mc := 10) (W := rv4W) (st := .complete 5) (more := []) (t := rvT) (fuel := 20)
    rvRecs_wf rfl rvPairs_fit rvRecs_fits rvS_ok rvS_fits rfl rvT_ben rfl (by decide)

end Fcgi.ReviewUnb4
