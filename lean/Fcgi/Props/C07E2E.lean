import Fcgi.Proofs.E2EMulti
/-!
# C07 — end to end: what a whole connection does for well-formed requests

The composition of C01/C06 (request parser, any chunking), C02/C03 (stream parser against its
functional reference), C09 (`poll_input`), C10 (`StreamWriter`) and the run-loop phase specs of C07
into statements about the executor `runTask` on the connection task `pollConn`:

a client sends a well-formed preamble (any idle / Params-phase noise, replies owed as in C01) and
the input streams of the request's role (Responder: Stdin; Authorizer: none; Filter: Stdin, then
Data), with ANY noise inside the streams (management `GetValues` bodies within the buffer bound,
`NoiseFits`), all of it sitting in the transport; the transport splits reads and writes arbitrarily
and answers `Pending` whenever it likes (but never with an error); the handler is the canonical one
of the role (`readAll` per input stream — with `set_stream(Data)` in between for a Filter —, open
Stdout, `writeAll data`, drop the writer, return `st`).  Then the task

* starts exactly one handler, for exactly the request sent (`HS(` event of `p.request`);
* the handler's `readAll`s return exactly the contents of the input streams;
* the write log is, in this order and nothing else: the replies owed for the preamble, `O₁`, the
  Stdout records framing `data` (`≤ 65535` bytes each, padded to 8), `O₂`,
  `[Stdout∅][Stderr∅][EndRequest(id, st)]`, where `O₁ ++ O₂` = the replies owed for the noise inside
  the input streams (what the `parse` call reporting the end of the last stream generated is only
  flushed by `close`, i.e. after the handler's output: `O₂`);
* without KEEP_CONN the task returns (`RET`, phase `finished`); with KEEP_CONN it goes back to
  `parse_request`, swallows the last stream's terminating record (which the stream parser never
  consumed), and returns at end-of-file (`RET`) resp. parks on an empty buffer if the peer just
  stays silent (`STALL`, phase `parseReq … .reading`);
* it never panics (`RET`/`STALL` are the only outcomes), within `|rd| + |wr| + 1` polls.

`single_request_e2e_full` is the general Responder statement, `single_request_e2e_full_holds` its
proof; `single_request_e2e` the same with the final state spelled out (`OutcomeN`);
`single_request_e2e_authorizer`, `single_request_e2e_filter` the other two roles (`OutcomeG`);
`single_request_e2e_partial` the instance where the stream noise owes no reply (plain log);
`single_request_e2e_ideal` the instance for the ideal transport (one poll);
`run_cfg` the role-generic core in terms of `E2E.Cfg`;
`k_requests_e2e` serves a list of KEEP_CONN requests OF ANY ROLES sent by a closed-loop client
(`E2E.closedLoop`: the next request is sent when the task has parked), `k_requests_e2e_partial` its
instance without reply-owing stream noise.

The stages of the proof (`Fcgi/Proofs/E2E*.lean`), each a theorem about one poll:
* stage 1, `parse_request`: `E2E.parse_loop` (any poll inside `parse_request`: the request parser is
  where one run over the bytes consumed so far stops — C01/C06 for every chunking the transport
  produces — and exactly that run's output is written), `E2E.handler_start` (the handler is started
  on `Request::new` of exactly the spec request, with exactly the wire after the preamble in
  buffer ++ transport, the log being exactly the owed preamble replies);
* stage 2, `readAll`: `E2E.parse_rinv` (one `parse` call against the reference `refWire` on the
  stream's wire), `E2E.stream_fits` (the stream analogue of C06: the buffer never fills up with an
  incomplete `GetValues` pair), `E2E.pollInput_sim` / `E2E.readAll_run` (the poll loop of C09: the
  bytes delivered are the next piece of the content, `0` exactly at the end mark),
  `E2E.switch_stream` / `E2E.read_phaseF` (Filter: `set_stream(Data)` at the end of Stdin);
* stage 3, `writeAll` / `close`: `E2E.writeAll_run` (C10's `pollWrite_spec`: one record per
  `min 65535` bytes, whatever the partial writes), `E2E.close_start_eq`, `E2E.close_core` (the
  queued replies, the epilogue, then `ConnectionReset` or reuse), `E2E.idle_poll` (the reused
  connection swallows the terminating record and parks / returns);
* glue: `E2E.stage_poll` (one poll from any stage), `E2E.run_from_stage` (the executor: every
  non-final poll consumes a scripted answer), `E2E.chain_run` (several requests).
-/
namespace Fcgi.C07E
open Fcgi Fcgi.Req Fcgi.Str Fcgi.Async Fcgi.Run Fcgi.Spec Fcgi.E2E

/-- The canonical Responder handler: read all of Stdin, open Stdout, write `data`, drop the writer,
return `st`. -/
abbrev canonical (data : Bytes) (st : ExitStatus) : List HOp :=
  [.readAll, .open_ 6, .writeAll 0 data, .dropW 0, .ret st]

/-- The canonical Authorizer handler (no input stream to read). -/
abbrev canonicalA (data : Bytes) (st : ExitStatus) : List HOp :=
  [.open_ 6, .writeAll 0 data, .dropW 0, .ret st]

/-- The canonical Filter handler: read all of Stdin, `set_stream(Data)`, read all of Data, then as above. -/
abbrev canonicalF (data : Bytes) (st : ExitStatus) : List HOp :=
  [.readAll, .setStream 8, .readAll, .open_ 6, .writeAll 0 data, .dropW 0, .ret st]

/-- The connection task as `Token::run` starts it: fresh request parser, the scripted transport, no
closed-loop peer, the handler scripts of the requests to come. -/
def connS (b mc : Nat) (t : Transport) (scripts : List (List HOp × Bool)) : Conn :=
  { phase := .parseReq (Req.Parser.new b mc) .start, env := { tr := t, segs := [] }, scripts := scripts }

/-- … with the one script of a Responder request -/
def conn0 (b mc : Nat) (t : Transport) (data : Bytes) (st : ExitStatus) : Conn :=
  connS b mc t [(canonical data st, true)]

/-- `[Stdout∅][Stderr∅][EndRequest(id, st)]` -/
def epilogue (id : Nat) (st : ExitStatus) : Bytes :=
  RecordHeader.toBytes ⟨RT.stdout, id, 0, 0⟩ ++ RecordHeader.toBytes ⟨RT.stderr, id, 0, 0⟩ ++
    st.toEndRequest.toRecord id

/-- Everything the connection writes for the request, in order; `O₁` / `O₂` = the replies owed for
the noise inside the input streams that get written before / after the handler's output. -/
def expectedLogN (p : Preamble) (recs : List Rec) (mc : Nat) (data : Bytes) (st : ExitStatus)
    (O₁ O₂ : Bytes) : Bytes :=
  owedPreamble p mc recs ++ O₁ ++ streamRecords 6 p.id data ++ O₂ ++ epilogue p.id st

/-- … when the streams' noise owes no reply (or there is no input stream) -/
def expectedLog (p : Preamble) (recs : List Rec) (mc : Nat) (data : Bytes) (st : ExitStatus) : Bytes :=
  owedPreamble p mc recs ++ streamRecords 6 p.id data ++ epilogue p.id st

theorem expectedLogN_nil (p : Preamble) (recs : List Rec) (mc : Nat) (data : Bytes) (st : ExitStatus) :
    expectedLogN p recs mc data st [] [] = expectedLog p recs mc data st := by
  simp [expectedLogN, expectedLog]

/-- The trace event of the handler start of request `rq` (`HS(role,flags,env)`). -/
abbrev startEvent (rq : Request) : String := hsEvent rq

/-- The trace event of a `readAll` that returned `bytes`. -/
abbrev readEvent (bytes : Bytes) : String := rEvent bytes

/-- What the run ends in, for any role (`log` = everything written after `L0`, `reads` = what the
handler's `readAll`s returned). -/
structure OutcomeG (p : Preamble) (reads : List Bytes) (b mc : Nat) (L0 log : Bytes) (t : Transport)
    (c' : Conn) (fin : String) : Prop where
  /-- (a) exactly one handler invocation, for the request sent -/
  one_handler : hsCount c'.env.tr.events = 1 ∧ startEvent p.request ∈ c'.env.tr.events
  /-- (b) its `readAll`s returned exactly the contents of the input streams -/
  read_content : ∀ d ∈ reads, readEvent d ∈ c'.env.tr.events
  /-- (c) the write log -/
  log : c'.env.tr.wlog = L0 ++ log
  /-- (d) returned, or parked waiting for the next request -/
  final : (p.flags.toNat % 2 = 0 ∧ fin = "RET" ∧ c'.phase = .finished) ∨
          (p.flags.toNat % 2 = 1 ∧ t.endMode = .eof ∧ fin = "RET" ∧ c'.phase = .finished) ∨
          (p.flags.toNat % 2 = 1 ∧ t.endMode = .pend ∧ fin = "STALL" ∧
            c'.phase = .parseReq ⟨alignedBufsize b, [], .header, mc⟩ .reading ∧ c'.env.tr.input = [])

/-- What the run ends in for a Responder request with Stdin content `content`. -/
structure OutcomeN (p : Preamble) (content : Bytes) (b mc : Nat) (L0 log : Bytes) (t : Transport)
    (c' : Conn) (fin : String) : Prop where
  /-- (a) exactly one handler invocation, for the request sent -/
  one_handler : hsCount c'.env.tr.events = 1 ∧ startEvent p.request ∈ c'.env.tr.events
  /-- (b) its `readAll` returned exactly the Stdin content -/
  read_content : readEvent content ∈ c'.env.tr.events
  /-- (c) the write log -/
  log : c'.env.tr.wlog = L0 ++ log
  /-- (d) returned, or parked waiting for the next request -/
  final : (p.flags.toNat % 2 = 0 ∧ fin = "RET" ∧ c'.phase = .finished) ∨
          (p.flags.toNat % 2 = 1 ∧ t.endMode = .eof ∧ fin = "RET" ∧ c'.phase = .finished) ∨
          (p.flags.toNat % 2 = 1 ∧ t.endMode = .pend ∧ fin = "STALL" ∧
            c'.phase = .parseReq ⟨alignedBufsize b, [], .header, mc⟩ .reading ∧ c'.env.tr.input = [])

theorem OutcomeG.responder {p content b mc L0 log t c' fin}
    (h : OutcomeG p [content] b mc L0 log t c' fin) : OutcomeN p content b mc L0 log t c' fin :=
  ⟨h.one_handler, h.read_content content (by simp), h.log, h.final⟩

/-- What the run ends in when the stream's noise owes no reply. -/
abbrev Outcome (p : Preamble) (recs : List Rec) (content : Bytes) (b mc : Nat) (data : Bytes)
    (st : ExitStatus) (L0 : Bytes) (t : Transport) (c' : Conn) (fin : String) : Prop :=
  OutcomeN p content b mc L0 (expectedLog p recs mc data st) t c' fin

/-- (e) in particular: no panic, no fuel exhaustion -/
theorem OutcomeG.no_panic {p reads b mc L0 log t c' fin}
    (h : OutcomeG p reads b mc L0 log t c' fin) : fin = "RET" ∨ fin = "STALL" := by
  rcases h.final with ⟨_, h, _⟩ | ⟨_, _, h, _⟩ | ⟨_, _, h, _⟩
  · exact Or.inl h
  · exact Or.inl h
  · exact Or.inr h

theorem OutcomeN.no_panic {p content b mc L0 log t c' fin}
    (h : OutcomeN p content b mc L0 log t c' fin) : fin = "RET" ∨ fin = "STALL" := by
  rcases h.final with ⟨_, h, _⟩ | ⟨_, _, h, _⟩ | ⟨_, _, h, _⟩
  · exact Or.inl h
  · exact Or.inl h
  · exact Or.inr h

/-- **The general statement** (Responder; arbitrary `StreamNoise` in the Stdin stream — provided its
management `GetValues` bodies fit the buffer like those of the preamble, `NoiseFits` — whose replies
`O₁ ++ O₂ = owedStream …` may come before *or after* the handler's own output: the replies queued
by the `parse` call that reports `stream_end` are only flushed by `close`).
Proved: `single_request_e2e_full_holds`. -/
def single_request_e2e_full : Prop :=
  ∀ (p : Preamble) (recs : List Rec) (content : Bytes) (srecs : List Rec) (b mc : Nat) (data : Bytes)
    (st : ExitStatus) (t : Transport) (fuel : Nat),
    WellFormedPreamble p recs → p.role = 1 →
    (∀ q ∈ p.pairs, (NV.enc q).length ≤ alignedBufsize b) → NoiseFits (alignedBufsize b) recs →
    StreamRecs p.id 5 content srecs → NoiseFits (alignedBufsize b) srecs →
    t.input = serAll recs ++ serAll srecs → Ben t → hsCount t.events = 0 →
    t.rd.length + t.wr.length + 1 ≤ fuel →
    4 * t.input.length + 17 ≤ 100000 → alignedBufsize b / 32 + wcost data.length + 12 ≤ 1000 →
    ∃ c' fin O₁ O₂, runTask fuel (conn0 b mc t data st) 0 none = (c', fin) ∧
      O₁ ++ O₂ = owedStream p.id 5 mc srecs ∧
      c'.env.tr.wlog = t.wlog ++ (owedPreamble p mc recs ++ O₁ ++ streamRecords 6 p.id data ++ O₂ ++
        epilogue p.id st) ∧
      (fin = "RET" ∨ fin = "STALL") ∧
      hsCount c'.env.tr.events = 1 ∧ startEvent p.request ∈ c'.env.tr.events ∧
      readEvent content ∈ c'.env.tr.events

theorem epilogue_eq (id : Nat) (st : ExitStatus) :
    makeRequestEpilogue id st [RT.stdout, RT.stderr] = epilogue id st := by
  rw [(C17.epilogue_spec id st _).1]
  simp [epilogue]

theorem owedStream_term (id s mc : Nat) (ty : UInt8) (hty : ty.toNat = s) (pad : Bytes) (res : UInt8) :
    owedStream id s mc [{ rtype := ty, id := id, content := [], pad := pad, reserved := res }] = [] := by
  simp [owedStream, hty]

/-! ## The configurations of the three roles -/

/-- an empty record (the terminator of a stream) -/
def trec (ty : UInt8) (id : Nat) (pad : Bytes) (res : UInt8) : Rec :=
  { rtype := ty, id := id, content := [], pad := pad, reserved := res }

/-- a Responder request: Stdin = `body` then an empty record -/
def cfgR (p : Preamble) (recs : List Rec) (content : Bytes) (body : List Rec) (pad : Bytes) (res : UInt8)
    (b mc : Nat) (data : Bytes) (st : ExitStatus) (L0 : Bytes) (h : Nat) (more : List (List HOp × Bool)) :
    E2E.Cfg :=
  ⟨p, recs, content, body, pad, res, [], [], [], 0, b, mc, data, st, L0, h, more,
    serAll body ++ (trec 5 p.id pad res).ser, [], (trec 5 p.id pad res).ser, owedStream p.id 5 mc body,
    [rEvent content], script data st⟩

/-- an Authorizer request: nothing after the preamble -/
def cfgA (p : Preamble) (recs : List Rec) (b mc : Nat) (data : Bytes) (st : ExitStatus) (L0 : Bytes) (h : Nat)
    (more : List (List HOp × Bool)) : E2E.Cfg :=
  ⟨p, recs, [], [], [], 0, [], [], [], 0, b, mc, data, st, L0, h, more, [], [], [], [], [], oscript data st⟩

/-- a Filter request: Stdin = `body` then an empty record, Data = `body2` then an empty record -/
def cfgF (p : Preamble) (recs : List Rec) (content : Bytes) (body : List Rec) (pad : Bytes) (res : UInt8)
    (content2 : Bytes) (body2 : List Rec) (pad2 : Bytes) (res2 : UInt8)
    (b mc : Nat) (data : Bytes) (st : ExitStatus) (L0 : Bytes) (h : Nat) (more : List (List HOp × Bool)) :
    E2E.Cfg :=
  ⟨p, recs, content, body, pad, res, content2, body2, pad2, res2, b, mc, data, st, L0, h, more,
    serAll body ++ ((trec 5 p.id pad res).ser ++ (serAll body2 ++ (trec 8 p.id pad2 res2).ser)),
    serAll body2 ++ (trec 8 p.id pad2 res2).ser, (trec 8 p.id pad2 res2).ser,
    owedStream p.id 5 mc body ++ owedStream p.id 8 mc body2, [rEvent content, rEvent content2],
    fscript data st⟩

theorem L3_eq (g : E2E.Cfg) (O1 O2 : Bytes) :
    g.L3 O1 O2 = g.L0 ++ expectedLogN g.p g.recs g.mc g.data g.st O1 O2 := by
  show (((g.L0 ++ owedPreamble g.p g.mc g.recs) ++ O1) ++ streamRecords 6 g.p.id g.data) ++ O2 ++
    makeRequestEpilogue g.p.id g.st [RT.stdout, RT.stderr] = _
  rw [epilogue_eq]
  simp only [expectedLogN, List.append_assoc]

/-- **One request of any role**, in terms of its configuration: `runTask` on the connection whose
transport holds exactly the request's wire. -/
theorem run_cfg {g : E2E.Cfg} (ok : g.OK) {t : Transport} {fuel : Nat} (hW : t.input = g.W) (hL : g.L0 = t.wlog)
    (hh : g.hs0 = 0) (hben : Ben t) (hev : hsCount t.events = 0) (hfuel : t.rd.length + t.wr.length + 1 ≤ fuel)
    (hsize : 4 * t.input.length + 17 ≤ 100000) :
    ∃ c' fin O₁ O₂, runTask fuel (connS g.b g.mc t ((g.hscript, true) :: g.more)) 0 none = (c', fin) ∧
      O₁ ++ O₂ = g.Ot ∧ c'.scripts = g.more ∧ (∀ s ∈ g.revs, s ∈ c'.env.tr.events) ∧
      OutcomeG g.p [] g.b g.mc t.wlog (expectedLogN g.p g.recs g.mc g.data g.st O₁ O₂) t c' fin := by
  have hstage : Stage g (connS g.b g.mc t ((g.hscript, true) :: g.more)) :=
    .start (raw := []) rfl (by show [] ++ t.input = g.W; rw [hW]; rfl) (Nat.zero_le _) hL.symm hben rfl rfl rfl
      (hev.trans hh.symm)
  obtain ⟨c', ⟨hem, _, _, _⟩, O1, O2, hO, hres⟩ :=
    run_from_stage ok (ans t) (connS g.b g.mc t ((g.hscript, true) :: g.more)) 0 fuel hstage rfl
      (Nat.le_refl _) (by unfold ans; omega) hsize
  have hlog : g.L3 O1 O2 = t.wlog ++ expectedLogN g.p g.recs g.mc g.data g.st O1 O2 := by rw [L3_eq, hL]
  have hem' : c'.env.tr.endMode = t.endMode := hem
  rcases hres with ⟨hrun, hfin⟩ | ⟨hrun, hpk⟩
  · have hev1 : hsCount c'.env.tr.events = 1 ∧ startEvent g.p.request ∈ c'.env.tr.events := by
      have := hfin.ev; rw [Ev1, hh] at this; exact this
    refine ⟨c', "RET", O1, O2, hrun, hO, hfin.sc, hfin.re,
      ⟨hev1, fun d hd => (by cases hd), hfin.log.trans hlog, ?_⟩⟩
    rcases hfin.why with hk | ⟨hk, he⟩
    · exact Or.inl ⟨hk, rfl, hfin.ph⟩
    · exact Or.inr (Or.inl ⟨hk, hem'.symm.trans he, rfl, hfin.ph⟩)
  · have hev1 : hsCount c'.env.tr.events = 1 ∧ startEvent g.p.request ∈ c'.env.tr.events := by
      have := hpk.ev; rw [Ev1, hh] at this; exact this
    exact ⟨c', "STALL", O1, O2, hrun, hO, hpk.sc, hpk.re,
      ⟨hev1, fun d hd => (by cases hd), hpk.log.trans hlog,
      Or.inr (Or.inr ⟨hpk.keep, hem'.symm.trans hpk.em, rfl, hpk.ph, hpk.inp⟩)⟩⟩

theorem OutcomeG.with_reads {p b mc L0 log t c' fin} (h : OutcomeG p [] b mc L0 log t c' fin)
    (reads : List Bytes) (hr : ∀ d ∈ reads, readEvent d ∈ c'.env.tr.events) :
    OutcomeG p reads b mc L0 log t c' fin := ⟨h.one_handler, hr, h.log, h.final⟩

/-- **C07 end to end, one request** — the general form with the final state spelled out.

A Responder request: well-formed preamble (any idle / Params noise within the C06 buffer bound), a
Stdin stream with ANY noise (management `GetValues` bodies within the same bound), all of it in the
transport; the transport splits reads and writes arbitrarily and answers `Pending` whenever it likes
(`Ben t`: no `err`, no `zero`, `endMode ∈ {eof, pend}`, no peer holding input back); the canonical
handler.  Then `runTask`, within `|rd| + |wr| + 1` polls, ends `RET` / `STALL` as `OutcomeN` says,
having written exactly: the replies owed for the preamble, `O₁`, the Stdout records of `data`, `O₂`,
`[Stdout∅][Stderr∅][EndRequest(id, st)]`, where `O₁ ++ O₂` are the replies owed for the stream's noise.

`hsize` / `hhf` are side conditions on the *model's* fuel (`pollConn (connFuel c)` with `connFuel c ≥ 100000`,
`handlerPoll (≥ 1000 + 4·|input|)`), not properties of the code. -/
theorem single_request_e2e {p : Preamble} {recs : List Rec} {content : Bytes} {srecs : List Rec}
    {b mc : Nat} {data : Bytes} {st : ExitStatus} {t : Transport} {fuel : Nat}
    (hwf : WellFormedPreamble p recs) (hrole : p.role = 1)
    (hpairs : ∀ q ∈ p.pairs, (NV.enc q).length ≤ alignedBufsize b)
    (hnoise : NoiseFits (alignedBufsize b) recs)
    (hs : StreamRecs p.id 5 content srecs) (hsn : NoiseFits (alignedBufsize b) srecs)
    (hin : t.input = serAll recs ++ serAll srecs) (hben : Ben t) (hev : hsCount t.events = 0)
    (hfuel : t.rd.length + t.wr.length + 1 ≤ fuel)
    (hsize : 4 * t.input.length + 17 ≤ 100000)
    (hhf : alignedBufsize b / 32 + wcost data.length + 12 ≤ 1000) :
    ∃ c' fin O₁ O₂, runTask fuel (conn0 b mc t data st) 0 none = (c', fin) ∧
      O₁ ++ O₂ = owedStream p.id 5 mc srecs ∧
      OutcomeN p content b mc t.wlog (expectedLogN p recs mc data st O₁ O₂) t c' fin := by
  obtain ⟨body, pad, res, hpad, hbody, hsrecs⟩ := StreamRecs.split hs
  have hsb : NoiseFits (alignedBufsize b) body := fun r hr => hsn r (by rw [hsrecs]; simp [hr])
  have ok : (cfgR p recs content body pad res b mc data st t.wlog 0 []).OK :=
    ⟨hwf, hpairs, hnoise, .responder hrole hbody hsb hpad rfl rfl rfl rfl rfl rfl hhf⟩
  have hW : t.input = (cfgR p recs content body pad res b mc data st t.wlog 0 []).W := by
    rw [hin, hsrecs, C02.serAll_append, C02.serAll_single]
    rfl
  have hOt : owedStream p.id 5 mc srecs = owedStream p.id 5 mc body := by
    rw [hsrecs, owedStream_append, owedStream_term p.id 5 mc _ rfl, List.append_nil]
  obtain ⟨c', fin, O1, O2, hrun, hO, _, hre, ho⟩ := run_cfg ok hW rfl rfl hben hev hfuel hsize
  exact ⟨c', fin, O1, O2, hrun, hO.trans hOt.symm,
    (ho.with_reads [content] (fun d hd => by rw [List.mem_singleton.1 hd]; exact hre _ (by simp [cfgR]))).responder⟩

/-- **`single_request_e2e_full` holds.** -/
theorem single_request_e2e_full_holds : single_request_e2e_full := by
  intro p recs content srecs b mc data st t fuel hwf hrole hpairs hnoise hs hsn hin hben hev hfuel hsize hhf
  obtain ⟨c', fin, O1, O2, hrun, hO, ho⟩ :=
    single_request_e2e hwf hrole hpairs hnoise hs hsn hin hben hev hfuel hsize hhf
  exact ⟨c', fin, O1, O2, hrun, hO, ho.log, ho.no_panic, ho.one_handler.1, ho.one_handler.2, ho.read_content⟩

/-- The instance where the stream's noise owes no reply (`hquiet`; then `NoiseFits` for the stream is
automatic and the log has no `O₁`, `O₂`). -/
theorem single_request_e2e_partial {p : Preamble} {recs : List Rec} {content : Bytes} {srecs : List Rec}
    {b mc : Nat} {data : Bytes} {st : ExitStatus} {t : Transport} {fuel : Nat}
    (hwf : WellFormedPreamble p recs) (hrole : p.role = 1)
    (hpairs : ∀ q ∈ p.pairs, (NV.enc q).length ≤ alignedBufsize b)
    (hnoise : NoiseFits (alignedBufsize b) recs)
    (hs : StreamRecs p.id 5 content srecs) (hsn : NoiseFits (alignedBufsize b) srecs)
    (hquiet : owedStream p.id 5 mc srecs = [])
    (hin : t.input = serAll recs ++ serAll srecs) (hben : Ben t) (hev : hsCount t.events = 0)
    (hfuel : t.rd.length + t.wr.length + 1 ≤ fuel)
    (hsize : 4 * t.input.length + 17 ≤ 100000)
    (hhf : alignedBufsize b / 32 + wcost data.length + 12 ≤ 1000) :
    ∃ c' fin, runTask fuel (conn0 b mc t data st) 0 none = (c', fin) ∧
      Outcome p recs content b mc data st t.wlog t c' fin := by
  obtain ⟨c', fin, O1, O2, hrun, hO, ho⟩ :=
    single_request_e2e hwf hrole hpairs hnoise hs hsn hin hben hev hfuel hsize hhf
  rw [hquiet] at hO
  obtain ⟨h1, h2⟩ := List.append_eq_nil_iff.1 hO
  subst h1 h2
  rw [expectedLogN_nil] at ho
  exact ⟨c', fin, hrun, ho⟩

/-- **Ideal transport** (every read returns what is there, every write accepts everything): the whole
request is served in a single poll of the task. -/
theorem single_request_e2e_ideal {p : Preamble} {recs : List Rec} {content : Bytes} {srecs : List Rec}
    {b mc : Nat} {data : Bytes} {st : ExitStatus} {t : Transport}
    (hwf : WellFormedPreamble p recs) (hrole : p.role = 1)
    (hpairs : ∀ q ∈ p.pairs, (NV.enc q).length ≤ alignedBufsize b)
    (hnoise : NoiseFits (alignedBufsize b) recs)
    (hs : StreamRecs p.id 5 content srecs) (hsn : NoiseFits (alignedBufsize b) srecs)
    (hin : t.input = serAll recs ++ serAll srecs) (hrd : t.rd = []) (hwr : t.wr = [])
    (hhold : t.hold = false) (hem : t.endMode ≠ .err) (hev : hsCount t.events = 0)
    (hsize : 4 * t.input.length + 17 ≤ 100000)
    (hhf : alignedBufsize b / 32 + wcost data.length + 12 ≤ 1000) :
    ∃ c' fin O₁ O₂, runTask 1 (conn0 b mc t data st) 0 none = (c', fin) ∧
      O₁ ++ O₂ = owedStream p.id 5 mc srecs ∧
      OutcomeN p content b mc t.wlog (expectedLogN p recs mc data st O₁ O₂) t c' fin :=
  single_request_e2e hwf hrole hpairs hnoise hs hsn hin
    ⟨(by rw [hrd]; intro a ha; cases ha), (by rw [hwr]; intro a ha; cases ha), hhold, hem⟩ hev
    (by rw [hrd, hwr]; exact Nat.le_refl _) hsize hhf

/-- **C07 end to end, one Authorizer request**: a well-formed preamble with `role = 2` and nothing
after it (an Authorizer has no input stream); the canonical Authorizer handler opens Stdout at once.
Same transport hypotheses, same conclusions; no `readAll`, and the log has no stream-noise replies. -/
theorem single_request_e2e_authorizer {p : Preamble} {recs : List Rec}
    {b mc : Nat} {data : Bytes} {st : ExitStatus} {t : Transport} {fuel : Nat}
    (hwf : WellFormedPreamble p recs) (hrole : p.role = 2)
    (hpairs : ∀ q ∈ p.pairs, (NV.enc q).length ≤ alignedBufsize b)
    (hnoise : NoiseFits (alignedBufsize b) recs)
    (hin : t.input = serAll recs) (hben : Ben t) (hev : hsCount t.events = 0)
    (hfuel : t.rd.length + t.wr.length + 1 ≤ fuel)
    (hsize : 4 * t.input.length + 17 ≤ 100000)
    (hhf : wcost data.length + 4 ≤ 1000) :
    ∃ c' fin, runTask fuel (connS b mc t [(canonicalA data st, true)]) 0 none = (c', fin) ∧
      OutcomeG p [] b mc t.wlog (expectedLog p recs mc data st) t c' fin := by
  have ok : (cfgA p recs b mc data st t.wlog 0 []).OK :=
    ⟨hwf, hpairs, hnoise, .authorizer hrole rfl rfl rfl rfl rfl hhf⟩
  have hW : t.input = (cfgA p recs b mc data st t.wlog 0 []).W := by
    rw [hin]; exact (List.append_nil _).symm
  obtain ⟨c', fin, O1, O2, hrun, hO, _, hre, ho⟩ := run_cfg ok hW rfl rfl hben hev hfuel hsize
  obtain ⟨h1, h2⟩ := List.append_eq_nil_iff.1 (show O1 ++ O2 = [] from hO)
  subst h1 h2
  exact ⟨c', fin, hrun, by rw [← expectedLogN_nil]; exact ho⟩

/-- **C07 end to end, one Filter request**: a well-formed preamble with `role = 3`, then the Stdin
stream, then the Data stream (each with any noise within the buffer bound, each closed by its empty
record); the canonical Filter handler reads Stdin to its end, switches to Data (`set_stream`), reads
Data to its end and then answers like the Responder.  `O₁ ++ O₂` = the replies owed for the noise in
the Stdin stream followed by those for the noise in the Data stream; what the last `parse` call of the
Data stream generated is written by `close`, after the handler's output (`O₂`). -/
theorem single_request_e2e_filter {p : Preamble} {recs : List Rec} {content : Bytes} {srecs : List Rec}
    {content2 : Bytes} {drecs : List Rec}
    {b mc : Nat} {data : Bytes} {st : ExitStatus} {t : Transport} {fuel : Nat}
    (hwf : WellFormedPreamble p recs) (hrole : p.role = 3)
    (hpairs : ∀ q ∈ p.pairs, (NV.enc q).length ≤ alignedBufsize b)
    (hnoise : NoiseFits (alignedBufsize b) recs)
    (hs : StreamRecs p.id 5 content srecs) (hsn : NoiseFits (alignedBufsize b) srecs)
    (hd : StreamRecs p.id 8 content2 drecs) (hdn : NoiseFits (alignedBufsize b) drecs)
    (hin : t.input = serAll recs ++ (serAll srecs ++ serAll drecs)) (hben : Ben t) (hev : hsCount t.events = 0)
    (hfuel : t.rd.length + t.wr.length + 1 ≤ fuel)
    (hsize : 4 * t.input.length + 17 ≤ 100000)
    (hhf : alignedBufsize b / 16 + wcost data.length + 24 ≤ 1000) :
    ∃ c' fin O₁ O₂, runTask fuel (connS b mc t [(canonicalF data st, true)]) 0 none = (c', fin) ∧
      O₁ ++ O₂ = owedStream p.id 5 mc srecs ++ owedStream p.id 8 mc drecs ∧
      OutcomeG p [content, content2] b mc t.wlog (expectedLogN p recs mc data st O₁ O₂) t c' fin := by
  obtain ⟨body, pad, res, hpad, hbody, hsrecs⟩ := StreamRecs.split hs
  obtain ⟨body2, pad2, res2, hpad2, hbody2, hdrecs⟩ := StreamRecs.split hd
  have hsb : NoiseFits (alignedBufsize b) body := fun r hr => hsn r (by rw [hsrecs]; simp [hr])
  have hdb : NoiseFits (alignedBufsize b) body2 := fun r hr => hdn r (by rw [hdrecs]; simp [hr])
  have ok : (cfgF p recs content body pad res content2 body2 pad2 res2 b mc data st t.wlog 0 []).OK :=
    ⟨hwf, hpairs, hnoise, .filter hrole hbody hbody2 hsb hdb hpad hpad2 rfl rfl rfl rfl rfl rfl hhf⟩
  have hW : t.input = (cfgF p recs content body pad res content2 body2 pad2 res2 b mc data st t.wlog 0 []).W := by
    rw [hin, hsrecs, hdrecs, C02.serAll_append, C02.serAll_single, C02.serAll_append, C02.serAll_single,
      List.append_assoc]
    rfl
  have hOt : owedStream p.id 5 mc srecs ++ owedStream p.id 8 mc drecs =
      owedStream p.id 5 mc body ++ owedStream p.id 8 mc body2 := by
    rw [hsrecs, hdrecs, owedStream_append, owedStream_append, owedStream_term p.id 5 mc _ rfl,
      owedStream_term p.id 8 mc _ rfl, List.append_nil, List.append_nil]
  obtain ⟨c', fin, O1, O2, hrun, hO, _, hre, ho⟩ := run_cfg ok hW rfl rfl hben hev hfuel hsize
  refine ⟨c', fin, O1, O2, hrun, hO.trans hOt.symm, ho.with_reads _ (fun d hd => ?_)⟩
  rcases List.mem_cons.1 hd with rfl | hd
  · exact hre _ (by simp [cfgF])
  · rw [List.mem_singleton.1 hd]; exact hre _ (by simp [cfgF])

/-! ## Several requests on one connection (closed-loop client) -/

/-- One request as the client sends it — of any of the three roles; each input stream split into its
records before the terminating empty record (`body`) and that record's padding / reserved byte — and
what the handler does with it (`data` to Stdout, exit status `st`). -/
inductive Sent
  | responder (p : Preamble) (recs : List Rec) (content : Bytes) (body : List Rec) (pad : Bytes) (res : UInt8)
      (data : Bytes) (st : ExitStatus)
  | authorizer (p : Preamble) (recs : List Rec) (data : Bytes) (st : ExitStatus)
  | filter (p : Preamble) (recs : List Rec) (content : Bytes) (body : List Rec) (pad : Bytes) (res : UInt8)
      (content2 : Bytes) (body2 : List Rec) (pad2 : Bytes) (res2 : UInt8) (data : Bytes) (st : ExitStatus)

namespace Sent
def p : Sent → Preamble
  | .responder p .. => p
  | .authorizer p .. => p
  | .filter p .. => p
def recs : Sent → List Rec
  | .responder _ recs .. => recs
  | .authorizer _ recs .. => recs
  | .filter _ recs .. => recs
def data : Sent → Bytes
  | .responder _ _ _ _ _ _ data _ => data
  | .authorizer _ _ data _ => data
  | .filter _ _ _ _ _ _ _ _ _ _ data _ => data
def st : Sent → ExitStatus
  | .responder _ _ _ _ _ _ _ st => st
  | .authorizer _ _ _ st => st
  | .filter _ _ _ _ _ _ _ _ _ _ _ st => st
/-- the records of the Stdin stream -/
def srecs : Sent → List Rec
  | .responder p _ _ body pad res _ _ => body ++ [trec 5 p.id pad res]
  | .authorizer .. => []
  | .filter p _ _ body pad res .. => body ++ [trec 5 p.id pad res]
/-- the records of the Data stream -/
def drecs : Sent → List Rec
  | .responder .. => []
  | .authorizer .. => []
  | .filter p _ _ _ _ _ _ body2 pad2 res2 _ _ => body2 ++ [trec 8 p.id pad2 res2]
/-- the bytes the client sends for the request -/
def wire (q : Sent) : Bytes := serAll q.recs ++ (serAll q.srecs ++ serAll q.drecs)
/-- what the handler's `readAll`s must return -/
def reads : Sent → List Bytes
  | .responder _ _ content .. => [content]
  | .authorizer .. => []
  | .filter _ _ content _ _ _ content2 .. => [content, content2]
/-- the replies owed for the noise inside the input streams -/
def owed (mc : Nat) (q : Sent) : Bytes :=
  owedStream q.p.id 5 mc q.srecs ++ owedStream q.p.id 8 mc q.drecs
/-- the handler script for the request -/
def handler : Sent → List HOp × Bool
  | .responder _ _ _ _ _ _ data st => (canonical data st, true)
  | .authorizer _ _ data st => (canonicalA data st, true)
  | .filter _ _ _ _ _ _ _ _ _ _ data st => (canonicalF data st, true)

/-- The hypotheses of `single_request_e2e` / `…_authorizer` / `…_filter` on one request. -/
def OK (b : Nat) (q : Sent) : Prop :=
  WellFormedPreamble q.p q.recs ∧ (∀ x ∈ q.p.pairs, (NV.enc x).length ≤ alignedBufsize b) ∧
  NoiseFits (alignedBufsize b) q.recs ∧ NoiseFits (alignedBufsize b) q.srecs ∧
  NoiseFits (alignedBufsize b) q.drecs ∧ 4 * q.wire.length + 17 ≤ 100000 ∧
  match q with
  | .responder p _ content body pad res data _ =>
    p.role = 1 ∧ StreamRecs p.id 5 content (body ++ [trec 5 p.id pad res]) ∧
      alignedBufsize b / 32 + wcost data.length + 12 ≤ 1000
  | .authorizer p _ data _ => p.role = 2 ∧ wcost data.length + 4 ≤ 1000
  | .filter p _ content body pad res content2 body2 pad2 res2 data _ =>
    p.role = 3 ∧ StreamRecs p.id 5 content (body ++ [trec 5 p.id pad res]) ∧
      StreamRecs p.id 8 content2 (body2 ++ [trec 8 p.id pad2 res2]) ∧
      alignedBufsize b / 16 + wcost data.length + 24 ≤ 1000

/-- the request's configuration (`L0`: the write log when it starts, `h`: handler starts before it,
`more`: the scripts of the requests after it) -/
def cfg (b mc : Nat) (L0 : Bytes) (h : Nat) (more : List (List HOp × Bool)) : Sent → E2E.Cfg
  | .responder p recs content body pad res data st => cfgR p recs content body pad res b mc data st L0 h more
  | .authorizer p recs data st => cfgA p recs b mc data st L0 h more
  | .filter p recs content body pad res content2 body2 pad2 res2 data st =>
    cfgF p recs content body pad res content2 body2 pad2 res2 b mc data st L0 h more
end Sent

section cfg
variable (b mc : Nat) (L0 : Bytes) (h : Nat) (more : List (List HOp × Bool)) (q : Sent)

theorem cfg_p : (q.cfg b mc L0 h more).p = q.p := by cases q <;> rfl
theorem cfg_recs : (q.cfg b mc L0 h more).recs = q.recs := by cases q <;> rfl
theorem cfg_data : (q.cfg b mc L0 h more).data = q.data := by cases q <;> rfl
theorem cfg_st : (q.cfg b mc L0 h more).st = q.st := by cases q <;> rfl
theorem cfg_b : (q.cfg b mc L0 h more).b = b := by cases q <;> rfl
theorem cfg_mc : (q.cfg b mc L0 h more).mc = mc := by cases q <;> rfl
theorem cfg_L0 : (q.cfg b mc L0 h more).L0 = L0 := by cases q <;> rfl
theorem cfg_hs0 : (q.cfg b mc L0 h more).hs0 = h := by cases q <;> rfl
theorem cfg_more : (q.cfg b mc L0 h more).more = more := by cases q <;> rfl
theorem cfg_hscript : ((q.cfg b mc L0 h more).hscript, true) = q.handler := by cases q <;> rfl
theorem cfg_revs : (q.cfg b mc L0 h more).revs = q.reads.map rEvent := by cases q <;> rfl
theorem cfg_at (L : Bytes) : (q.cfg b mc L0 h more).at L = q.cfg b mc L h more := by cases q <;> rfl

theorem cfg_W : (q.cfg b mc L0 h more).W = q.wire := by
  cases q <;>
    simp [Sent.cfg, Sent.wire, Sent.srecs, Sent.drecs, Sent.recs, E2E.Cfg.W, cfgR, cfgA, cfgF, serAll]

theorem cfg_L3 (O1 O2 : Bytes) :
    (q.cfg b mc L0 h more).L3 O1 O2 = L0 ++ expectedLogN q.p q.recs mc q.data q.st O1 O2 := by
  rw [L3_eq, cfg_p, cfg_recs, cfg_data, cfg_st, cfg_mc, cfg_L0]

theorem cfg_Ot : (q.cfg b mc L0 h more).Ot = q.owed mc := by
  cases q with
  | responder p recs content body pad res data st =>
    show owedStream p.id 5 mc body = owedStream p.id 5 mc (body ++ [trec 5 p.id pad res]) ++ owedStream p.id 8 mc []
    rw [owedStream_append, trec, owedStream_term p.id 5 mc _ rfl]
    simp [owedStream]
  | authorizer p recs data st => rfl
  | filter p recs content body pad res content2 body2 pad2 res2 data st =>
    show owedStream p.id 5 mc body ++ owedStream p.id 8 mc body2 =
      owedStream p.id 5 mc (body ++ [trec 5 p.id pad res]) ++ owedStream p.id 8 mc (body2 ++ [trec 8 p.id pad2 res2])
    rw [owedStream_append, owedStream_append, trec, trec, owedStream_term p.id 5 mc _ rfl,
      owedStream_term p.id 8 mc _ rfl, List.append_nil, List.append_nil]
end cfg

/-- a `StreamRecs` list given as `body ++ [terminator]` -/
theorem body_of_stream {id s : Nat} {content : Bytes} {body : List Rec} {pad : Bytes} {res : UInt8}
    (h : StreamRecs id s content (body ++ [trec (UInt8.ofNat s) id pad res])) :
    Body id s content body ∧ pad.length < 256 := by
  obtain ⟨body', pad', res', hp', hb', heq⟩ := StreamRecs.split h
  obtain ⟨e1, e2⟩ := List.append_inj' heq rfl
  have e3 : pad = pad' := congrArg Rec.pad (List.singleton_inj.1 e2)
  rw [e1, e3]
  exact ⟨hb', hp'⟩

theorem cfg_ok {b mc : Nat} {q : Sent} (ok : q.OK b) (L0 : Bytes) (h : Nat)
    (more : List (List HOp × Bool)) : (q.cfg b mc L0 h more).OK := by
  obtain ⟨hwf, hpairs, hnoise, hsn, hdn, _, hrole⟩ := ok
  cases q with
  | responder p recs content body pad res data st =>
    obtain ⟨hr, hs, hfu⟩ := hrole
    obtain ⟨hb, hp⟩ := body_of_stream (s := 5) hs
    exact ⟨hwf, hpairs, hnoise, .responder hr hb (fun r hr => hsn r (List.mem_append_left _ hr)) hp rfl rfl rfl rfl
      rfl rfl hfu⟩
  | authorizer p recs data st =>
    exact ⟨hwf, hpairs, hnoise, .authorizer hrole.1 rfl rfl rfl rfl rfl hrole.2⟩
  | filter p recs content body pad res content2 body2 pad2 res2 data st =>
    obtain ⟨hr, hs, hd, hfu⟩ := hrole
    obtain ⟨hb, hp⟩ := body_of_stream (s := 5) hs
    obtain ⟨hb2, hp2⟩ := body_of_stream (s := 8) hd
    exact ⟨hwf, hpairs, hnoise, .filter hr hb hb2 (fun r hr => hsn r (List.mem_append_left _ hr))
      (fun r hr => hdn r (List.mem_append_left _ hr)) hp hp2 rfl rfl rfl rfl rfl rfl hfu⟩

theorem Sent.OK.hsize {b : Nat} {q : Sent} (ok : q.OK b) : 4 * q.wire.length + 17 ≤ 100000 := ok.2.2.2.2.2.1

/-- `A` is what the connection writes for the requests, in order: for each request its answer
(`expectedLogN`) with some split `O₁ ++ O₂` of the replies owed for the noise in its input streams. -/
def AnswerAll (mc : Nat) : List Sent → Bytes → Prop
  | [], A => A = []
  | q :: qs, A => ∃ O₁ O₂ rest, O₁ ++ O₂ = q.owed mc ∧ AnswerAll mc qs rest ∧
      A = expectedLogN q.p q.recs mc q.data q.st O₁ O₂ ++ rest

/-- … when no stream noise owes a reply -/
def expectedAll (mc : Nat) : List Sent → Bytes
  | [] => []
  | q :: qs => expectedLog q.p q.recs mc q.data q.st ++ expectedAll mc qs

theorem answerAll_quiet (mc : Nat) : ∀ (qs : List Sent) (A : Bytes),
    (∀ q ∈ qs, q.owed mc = []) → AnswerAll mc qs A → A = expectedAll mc qs
  | [], A, _, h => h
  | q :: qs, A, hq, ⟨O1, O2, rest, hO, hr, hA⟩ => by
    rw [hq q List.mem_cons_self] at hO
    obtain ⟨h1, h2⟩ := List.append_eq_nil_iff.1 hO
    subst h1 h2
    rw [hA, expectedLogN_nil, answerAll_quiet mc qs rest (fun q' hq' => hq q' (List.mem_cons_of_mem _ hq')) hr]
    rfl

/-- the connection task with one handler script per request to come -/
def connK (b mc : Nat) (t : Transport) (qs : List Sent) : Conn := connS b mc t (qs.map Sent.handler)

/-- the configurations of the requests after the first (their `L0` is threaded by `chain_run`) -/
def cfgs (b mc : Nat) : Nat → List Sent → List E2E.Cfg
  | _, [] => []
  | h, q :: qs => q.cfg b mc [] h (qs.map Sent.handler) :: cfgs b mc (h + 1) qs

theorem cfgs_W (b mc : Nat) : ∀ (qs : List Sent) (h : Nat),
    (cfgs b mc h qs).map E2E.Cfg.W = qs.map Sent.wire
  | [], _ => rfl
  | q :: qs, h => by
    simp only [cfgs, List.map_cons, cfg_W, cfgs_W b mc qs]

theorem cfgs_ok {b mc : Nat} : ∀ (qs : List Sent) (h : Nat), (∀ q ∈ qs, q.OK b) →
    ∀ g ∈ cfgs b mc h qs, g.OK ∧ 4 * g.W.length + 17 ≤ 100000
  | [], _, _ => fun g hg => by simp [cfgs] at hg
  | q :: qs, h, hok => by
    intro g hg
    simp only [cfgs, List.mem_cons] at hg
    rcases hg with rfl | hg
    · exact ⟨cfg_ok (hok q List.mem_cons_self) _ _ _, by rw [cfg_W]; exact (hok q List.mem_cons_self).hsize⟩
    · exact cfgs_ok qs _ (fun q' hq' => hok q' (List.mem_cons_of_mem _ hq')) g hg

theorem chain_cfgs {b mc : Nat} : ∀ (qs : List Sent) (q : Sent) (L0 : Bytes) (h : Nat),
    (∀ q' ∈ (q :: qs).dropLast, q'.p.flags.toNat % 2 = 1) →
    ChainFrom (q.cfg b mc L0 h (qs.map Sent.handler)) (cfgs b mc (h + 1) qs)
  | [], _, _, _, _ => trivial
  | q2 :: qs, q, L0, h, hk => by
    refine ⟨⟨by rw [cfg_b, cfg_b], by rw [cfg_mc, cfg_mc], by rw [cfg_hs0, cfg_hs0],
      by rw [cfg_more, cfg_more, cfg_hscript]; rfl, by rw [cfg_p]; exact hk q (by simp [List.dropLast])⟩, ?_⟩
    exact chain_cfgs qs q2 _ _ (fun q' hq' => hk q' (by
      rw [List.dropLast_cons_cons]
      exact List.mem_cons_of_mem _ hq'))

/-- the logs of the chain are the answers of the requests -/
theorem logChain_answers {b mc : Nat} : ∀ (qs : List Sent) (q : Sent) (L0 L L' : Bytes) (h : Nat),
    LogChain L (q.cfg b mc L0 h (qs.map Sent.handler) :: cfgs b mc (h + 1) qs) L' →
    ∃ A, AnswerAll mc (q :: qs) A ∧ L' = L ++ A
  | [], q, L0, L, L', h, ⟨O1, O2, hO, hr⟩ => by
    have hr' : L' = _ := hr
    refine ⟨_, ⟨O1, O2, [], by rw [← cfg_Ot b mc L0 h [] q]; exact hO, rfl, rfl⟩, ?_⟩
    rw [hr', cfg_at, cfg_L3, List.append_nil]
  | q2 :: qs, q, L0, L, L', h, ⟨O1, O2, hO, hr⟩ => by
    obtain ⟨A, hA, hL'⟩ := logChain_answers qs q2 [] _ L' (h + 1) hr
    refine ⟨_, ⟨O1, O2, A, by rw [← cfg_Ot b mc L0 h ((q2 :: qs).map Sent.handler) q]; exact hO, hA, rfl⟩, ?_⟩
    rw [hL', cfg_at, cfg_L3, List.append_assoc]

theorem lastP_cfgs {b mc : Nat} : ∀ (qs : List Sent) (q : Sent) (L0 : Bytes) (h : Nat),
    ∃ L', lastP (q.cfg b mc L0 h (qs.map Sent.handler)) (cfgs b mc (h + 1) qs) =
      ((q :: qs).getLast (by simp)).cfg b mc L' (h + qs.length) []
  | [], q, L0, h => ⟨L0, rfl⟩
  | q2 :: qs, q, L0, h => by
    obtain ⟨L', hL'⟩ := lastP_cfgs qs q2 [] (h + 1)
    refine ⟨L', ?_⟩
    simp only [cfgs, lastP_cons, List.getLast_cons_cons, List.length_cons]
    rw [hL']
    congr 1
    omega

/-- **C07 end to end, several requests of any roles** (same hypotheses as `single_request_e2e` /
`…_authorizer` / `…_filter`, for every request; plus: the peer is the closed-loop client of
`closedLoop` — it sends the next request when the task has parked — and never closes its end,
`t.endMode = .pend`).

A client sends `q₁, …, q_k` on one connection, all but the last with KEEP_CONN, each after the answer
to the previous one.  Then every request gets its own handler call (with its own request, its
`readAll`s returning its input streams' contents), the write log is the concatenation of the `k`
answers in order and nothing else, and the task ends parked for a `(k+1)`-th request (last request
KEEP_CONN) or returns (otherwise). -/
theorem k_requests_e2e {b mc : Nat} (q : Sent) (qs : List Sent) {t : Transport} {fuel : Nat}
    (hok : ∀ q' ∈ q :: qs, q'.OK b)
    (hkeep : ∀ q' ∈ (q :: qs).dropLast, q'.p.flags.toNat % 2 = 1)
    (hin : t.input = q.wire) (hben : Ben t) (hem : t.endMode = .pend) (hev : hsCount t.events = 0)
    (hfuel : t.rd.length + t.wr.length + 1 ≤ fuel) :
    ∃ c' fin A, closedLoop fuel (qs.map Sent.wire) (connK b mc t (q :: qs)) 0 = (c', fin) ∧
      AnswerAll mc (q :: qs) A ∧ c'.env.tr.wlog = t.wlog ++ A ∧
      hsCount c'.env.tr.events = (q :: qs).length ∧
      (∀ q' ∈ q :: qs, startEvent q'.p.request ∈ c'.env.tr.events ∧
        ∀ d ∈ q'.reads, readEvent d ∈ c'.env.tr.events) ∧
      c'.scripts = [] ∧
      ((((q :: qs).getLast (by simp)).p.flags.toNat % 2 = 1 ∧ fin = "STALL" ∧
          c'.phase = .parseReq ⟨alignedBufsize b, [], .header, mc⟩ .reading ∧ c'.env.tr.input = []) ∨
       (((q :: qs).getLast (by simp)).p.flags.toNat % 2 = 0 ∧ fin = "RET" ∧ c'.phase = .finished)) := by
  have okq := hok q List.mem_cons_self
  have hstage : Stage (q.cfg b mc t.wlog 0 (qs.map Sent.handler)) (connK b mc t (q :: qs)) :=
    .start (raw := [])
      (by show Phase.parseReq (Req.Parser.new b mc) .start =
            .parseReq ⟨alignedBufsize (q.cfg b mc t.wlog 0 (qs.map Sent.handler)).b, [], .header,
              (q.cfg b mc t.wlog 0 (qs.map Sent.handler)).mc⟩ .start
          rw [cfg_b, cfg_mc]; rfl)
      (by show [] ++ t.input = _; rw [cfg_W, hin]; rfl) (Nat.zero_le _) (cfg_L0 ..).symm hben rfl
      (by rw [cfg_more, cfg_hscript]; rfl) rfl (by rw [cfg_hs0]; exact hev)
  obtain ⟨c', fin, hrun, _, hem', hlog, hend, hall⟩ := chain_run
    (cfgs b mc (0 + 1) qs)
    (q.cfg b mc t.wlog 0 (qs.map Sent.handler)) (connK b mc t (q :: qs)) 0 fuel hstage rfl hem
    (by show ans t + 1 ≤ fuel; unfold ans; omega)
    (by show 4 * t.input.length + 17 ≤ 100000; rw [hin]; exact okq.hsize)
    (cfg_ok okq _ _ _)
    (cfgs_ok qs _ (fun q' hq' => hok q' (List.mem_cons_of_mem _ hq')))
    (chain_cfgs qs q _ _ hkeep)
  rw [cfgs_W] at hrun
  rw [cfg_L0] at hlog
  obtain ⟨A, hA, hLA⟩ := logChain_answers qs q t.wlog t.wlog c'.env.tr.wlog 0 hlog
  obtain ⟨L', hgl⟩ := lastP_cfgs (b := b) (mc := mc) qs q t.wlog 0
  rw [hgl] at hend
  have hallq : ∀ q' ∈ q :: qs, startEvent q'.p.request ∈ c'.env.tr.events ∧
      ∀ d ∈ q'.reads, readEvent d ∈ c'.env.tr.events := by
    have key : ∀ (qs : List Sent) (h : Nat) (q' : Sent), q' ∈ qs →
        ∃ g ∈ cfgs b mc h qs, g.p = q'.p ∧ g.revs = q'.reads.map rEvent := by
      intro qs
      induction qs with
      | nil => intro _ _ h; cases h
      | cons a as ih =>
        intro h q' hq'
        rcases List.mem_cons.1 hq' with rfl | hq'
        · exact ⟨_, by simp only [cfgs]; exact List.mem_cons_self, cfg_p .., cfg_revs ..⟩
        · obtain ⟨g, hg, h1, h2⟩ := ih (h + 1) q' hq'
          exact ⟨g, by simp only [cfgs]; exact List.mem_cons_of_mem _ hg, h1, h2⟩
    have conv : ∀ (g : E2E.Cfg) (q' : Sent), g.p = q'.p → g.revs = q'.reads.map rEvent →
        (hsEvent g.p.request ∈ c'.env.tr.events ∧ ∀ s ∈ g.revs, s ∈ c'.env.tr.events) →
        startEvent q'.p.request ∈ c'.env.tr.events ∧ ∀ d ∈ q'.reads, readEvent d ∈ c'.env.tr.events := by
      intro g q' h1 h2 ⟨a, b⟩
      rw [h1] at a
      exact ⟨a, fun d hd => b _ (by rw [h2]; exact List.mem_map_of_mem hd)⟩
    intro q' hq'
    rcases List.mem_cons.1 hq' with h | hq'
    · rw [h]
      exact conv _ q (cfg_p ..) (cfg_revs ..) (hall (q.cfg b mc t.wlog 0 (qs.map Sent.handler)) List.mem_cons_self)
    · obtain ⟨g, hg, h1, h2⟩ := key qs (0 + 1) q' hq'
      exact conv g q' h1 h2 (hall g (List.mem_cons_of_mem _ hg))
  refine ⟨c', fin, A, hrun, hA, hLA, ?_, hallq, by rw [← cfg_more b mc L' _ [] _]; exact hend.sc, ?_⟩
  · have := hend.hs
    rw [cfg_hs0] at this
    simp only [List.length_cons] at this ⊢
    omega
  · have hfinal := hend.fin
    simp only [E2E.Cfg.cap, cfg_p, cfg_mc, cfg_b] at hfinal
    rcases hfinal with ⟨rfl, hph, hk | ⟨_, he⟩⟩ | ⟨rfl, hph, hinp, hk⟩
    · exact Or.inr ⟨hk, rfl, hph⟩
    · rw [hem'] at he; cases he
    · exact Or.inl ⟨hk, rfl, hph, hinp⟩

/-- The instance where no stream noise owes a reply: the log is `expectedAll`. -/
theorem k_requests_e2e_partial {b mc : Nat} (q : Sent) (qs : List Sent) {t : Transport} {fuel : Nat}
    (hok : ∀ q' ∈ q :: qs, q'.OK b)
    (hquiet : ∀ q' ∈ q :: qs, q'.owed mc = [])
    (hkeep : ∀ q' ∈ (q :: qs).dropLast, q'.p.flags.toNat % 2 = 1)
    (hin : t.input = q.wire) (hben : Ben t) (hem : t.endMode = .pend) (hev : hsCount t.events = 0)
    (hfuel : t.rd.length + t.wr.length + 1 ≤ fuel) :
    ∃ c' fin, closedLoop fuel (qs.map Sent.wire) (connK b mc t (q :: qs)) 0 = (c', fin) ∧
      c'.env.tr.wlog = t.wlog ++ expectedAll mc (q :: qs) ∧
      hsCount c'.env.tr.events = (q :: qs).length ∧
      (∀ q' ∈ q :: qs, startEvent q'.p.request ∈ c'.env.tr.events ∧
        ∀ d ∈ q'.reads, readEvent d ∈ c'.env.tr.events) ∧
      c'.scripts = [] ∧
      ((((q :: qs).getLast (by simp)).p.flags.toNat % 2 = 1 ∧ fin = "STALL" ∧
          c'.phase = .parseReq ⟨alignedBufsize b, [], .header, mc⟩ .reading ∧ c'.env.tr.input = []) ∨
       (((q :: qs).getLast (by simp)).p.flags.toNat % 2 = 0 ∧ fin = "RET" ∧ c'.phase = .finished)) := by
  obtain ⟨c', fin, A, h1, h2, h3, h4⟩ := k_requests_e2e q qs hok hkeep hin hben hem hev hfuel
  rw [answerAll_quiet mc _ A hquiet h2] at h3
  exact ⟨c', fin, h1, h3, h4⟩

/-! Names of the first version of this file (still listed in the audit of C07). -/

theorem Outcome.no_panic {p recs content b mc data st L0 t c' fin}
    (h : Outcome p recs content b mc data st L0 t c' fin) : fin = "RET" ∨ fin = "STALL" := OutcomeN.no_panic h

abbrev cfgOf (b mc : Nat) (q : Sent) (L0 : Bytes) (h : Nat) (more : List (List HOp × Bool)) : E2E.Cfg :=
  q.cfg b mc L0 h more

theorem cfgOf_W (b mc : Nat) (q : Sent) (L0 : Bytes) (h : Nat) (more : List (List HOp × Bool)) :
    (cfgOf b mc q L0 h more).W = q.wire := cfg_W ..

theorem cfgOf_L3 (b mc : Nat) (q : Sent) (L0 : Bytes) (h : Nat) (more : List (List HOp × Bool)) (O1 O2 : Bytes) :
    (cfgOf b mc q L0 h more).L3 O1 O2 = L0 ++ expectedLogN q.p q.recs mc q.data q.st O1 O2 := cfg_L3 ..

theorem cfgOf_ok {b mc : Nat} {q : Sent} (ok : q.OK b) (L0 : Bytes) (h : Nat) (more : List (List HOp × Bool)) :
    (cfgOf b mc q L0 h more).OK := cfg_ok ok ..

theorem last_cfg {b mc : Nat} (qs : List Sent) (q : Sent) (L0 : Bytes) (h : Nat) :
    ∃ L', lastP (cfgOf b mc q L0 h (qs.map Sent.handler)) (cfgs b mc (h + 1) qs) =
      cfgOf b mc ((q :: qs).getLast (by simp)) L' (h + qs.length) [] := lastP_cfgs qs q L0 h

/-! ## Non-vacuity: a concrete run

The preamble of `Props/C01.lean` (request 1, Responder, KEEP_CONN, one pair, two `GetValues` noise
records that are owed replies) followed by a Stdin stream `"ABC"` with a stale Stdin record of
request 2 in front; buffer size 64, `max_conns = 10`; the transport hands out 10, then nothing
(`Pending`), then 7 bytes, then whatever fits, …, accepts 5 bytes, then nothing, then everything, …;
the peer then stays silent.  The handler writes `"hi"` and returns `Complete(0)`.

(For this run the compiled model prints `fin=STALL`, the events `HS(1,1,41:62)` and `R=3:414243`, and
exactly the write log below: `#eval` of `runTask 20 (conn0 64 10 exT [104, 105] (.complete 0)) 0 none`.) -/
namespace Example
open Fcgi.C01.Example

def exS : List Rec :=
  [ { rtype := 5, id := 2, content := [9], pad := [] },              -- noise: Stdin of another request
    { rtype := 5, id := 1, content := [65, 66, 67], pad := [0] },
    { rtype := 5, id := 1, content := [], pad := [0, 0] } ]

def exT : Transport :=
  { input := serAll recs ++ serAll exS, endMode := .pend,
    rd := [.n 10, .pending, .n 7, .all, .n 3], wr := [.n 5, .pending, .all, .n 1], fl := [] }

theorem exS_ok : StreamRecs 1 5 [65, 66, 67] exS := by
  refine .noise _ ⟨⟨by decide, by decide, by decide⟩, by decide⟩ ?_
  exact .chunk [65, 66, 67] [0] 0 (by decide) (by decide) (.term [0, 0] 0 (by decide))

theorem exS_quiet (mc : Nat) : owedStream 1 5 mc exS = [] := by
  simp [owedStream, exS, owed, RT.valid, RT.getValues, RT.beginRequest]

/-- no management `GetValues` record among them -/
theorem exS_fits (M : Nat) : NoiseFits M exS := by
  intro r hr hg
  exfalso
  obtain ⟨h1, _⟩ := hg
  simp only [exS, List.mem_cons, List.not_mem_nil, or_false] at hr
  rcases hr with rfl | rfl | rfl <;> simp [RT.getValues] at h1

theorem exT_ben : Ben exT :=
  ⟨by decide, by decide, rfl, by decide⟩

/-- The theorem applied: the run ends `STALL` (parked for the next request on an empty buffer) after
one handler call for `{"A" ↦ "b"}` that read `"ABC"`, with exactly this write log. -/
example : ∃ c', runTask 20 (conn0 64 10 exT [104, 105] (.complete 0)) 0 none = (c', "STALL") ∧
    c'.env.tr.wlog = owedPreamble pre 10 recs ++
      [1, 6, 0, 1, 0, 2, 6, 0, 104, 105, 0, 0, 0, 0, 0, 0] ++
      [1, 6, 0, 1, 0, 0, 0, 0, 1, 7, 0, 1, 0, 0, 0, 0, 1, 3, 0, 1, 0, 8, 0, 0, 0, 0, 0, 0, 0, 0, 0, 0] ∧
    c'.phase = .parseReq ⟨64, [], .header, 10⟩ .reading ∧ c'.env.tr.input = [] ∧
    hsCount c'.env.tr.events = 1 ∧
    startEvent { id := 1, role := 1, flags := 1, env := [([65], [98])] } ∈ c'.env.tr.events ∧
    readEvent [65, 66, 67] ∈ c'.env.tr.events := by
  obtain ⟨c', fin, hrun, ho⟩ := single_request_e2e_partial (p := pre) (recs := recs) (content := [65, 66, 67])
    (srecs := exS) (b := 64) (mc := 10) (data := [104, 105]) (st := .complete 0) (t := exT) (fuel := 20)
    recs_wf rfl (pre_pairs_fit 64) (noise_fits 64) exS_ok (exS_fits _) (exS_quiet 10) rfl exT_ben rfl (by decide)
    (by decide +kernel) (by decide)
  have hreq : pre.request = { id := 1, role := 1, flags := 1, env := [([65], [98])] } := by decide +kernel
  rcases ho.final with ⟨h, _⟩ | ⟨_, h, _⟩ | ⟨_, _, hfin, hph, hin⟩
  · exact absurd h (by decide)
  · exact absurd h (by decide)
  · subst hfin
    refine ⟨c', hrun, ?_, hph, hin, ho.one_handler.1, by rw [← hreq]; exact ho.one_handler.2, ho.read_content⟩
    rw [ho.log]
    show [] ++ (owedPreamble pre 10 recs ++ streamRecords 6 1 [104, 105] ++ epilogue 1 (.complete 0)) = _
    rw [List.nil_append]
    congr 1

/-- A Stdin stream with noise that IS owed replies: a management `GetValues` record with a body in
front, an unknown-type record right before the end. -/
def nS : List Rec :=
  [ { rtype := 9, id := 0, content := NV.enc (Vars.nameMaxConns, []), pad := [] },
    { rtype := 5, id := 1, content := [65, 66, 67], pad := [0] },
    { rtype := 77, id := 3, content := [1, 2], pad := [] },
    { rtype := 5, id := 1, content := [], pad := [0, 0] } ]

def nT : Transport :=
  { input := serAll recs ++ serAll nS, endMode := .pend,
    rd := [.n 10, .pending, .n 7, .all, .n 3], wr := [.n 5, .pending, .all, .n 1, .pending], fl := [] }

theorem nS_ok : StreamRecs 1 5 [65, 66, 67] nS := by
  refine .noise _ ⟨⟨by decide, by decide +kernel, by decide⟩, by decide⟩ ?_
  refine .chunk [65, 66, 67] [0] 0 (by decide) (by decide) ?_
  refine .noise _ ⟨⟨by decide, by decide, by decide⟩, by decide⟩ ?_
  exact .term [0, 0] 0 (by decide)

theorem nS_fits : NoiseFits (alignedBufsize 64) nS := by
  refine noiseFits_of_content (fun r hr _ _ => ?_)
  simp only [nS, List.mem_cons, List.not_mem_nil, or_false] at hr
  rcases hr with rfl | rfl | rfl | rfl <;> decide +kernel

/-- `single_request_e2e` applied to a stream whose noise owes replies: they are all written, split
somehow around the handler's output. -/
example : ∃ c' O₁ O₂, runTask 20 (conn0 64 10 nT [104, 105] (.complete 0)) 0 none = (c', "STALL") ∧
    O₁ ++ O₂ = owedStream 1 5 10 nS ∧ owedStream 1 5 10 nS ≠ [] ∧
    c'.env.tr.wlog = owedPreamble pre 10 recs ++ O₁ ++
      [1, 6, 0, 1, 0, 2, 6, 0, 104, 105, 0, 0, 0, 0, 0, 0] ++ O₂ ++
      [1, 6, 0, 1, 0, 0, 0, 0, 1, 7, 0, 1, 0, 0, 0, 0, 1, 3, 0, 1, 0, 8, 0, 0, 0, 0, 0, 0, 0, 0, 0, 0] ∧
    readEvent [65, 66, 67] ∈ c'.env.tr.events := by
  obtain ⟨c', fin, O1, O2, hrun, hO, ho⟩ := single_request_e2e (p := pre) (recs := recs) (content := [65, 66, 67])
    (srecs := nS) (b := 64) (mc := 10) (data := [104, 105]) (st := .complete 0) (t := nT) (fuel := 20)
    recs_wf rfl (pre_pairs_fit 64) (noise_fits 64) nS_ok nS_fits rfl ⟨by decide, by decide, rfl, by decide⟩ rfl
    (by decide) (by decide +kernel) (by decide)
  rcases ho.final with ⟨h, _⟩ | ⟨_, h, _⟩ | ⟨_, _, hfin, hph, hin⟩
  · exact absurd h (by decide)
  · exact absurd h (by decide)
  · subst hfin
    refine ⟨c', O1, O2, hrun, hO, by decide +kernel, ?_, ho.read_content⟩
    rw [ho.log]
    show [] ++ (owedPreamble pre 10 recs ++ O1 ++ streamRecords 6 1 [104, 105] ++ O2 ++ epilogue 1 (.complete 0)) = _
    rw [List.nil_append]
    congr 1

/-! ### The other roles -/

/-- Authorizer request 1, KEEP_CONN, no parameters. -/
def preA : Preamble := { id := 1, role := 2, flags := 1, pairs := [] }
def recsA : List Rec :=
  [ { rtype := 1, id := 1, content := [0, 2, 1, 0, 0, 0, 0, 0], pad := [] },
    { rtype := 4, id := 1, content := [], pad := [] } ]

theorem recsA_wf : WellFormedPreamble preA recsA :=
  .begin [] 0 [0, 0, 0, 0, 0] rfl (by decide) (by decide) (by decide) (fun q hq => by cases hq) (.done [] 0 (by decide))

theorem no_getValues_fits {M : Nat} {rs : List Rec} (h : ∀ r ∈ rs, r.rtype.toNat ≠ RT.getValues) :
    NoiseFits M rs := fun r hr hg => absurd hg.1 (h r hr)

theorem recsA_fits (M : Nat) : NoiseFits M recsA := no_getValues_fits (by decide)

/-- Filter request 1, no KEEP_CONN, no parameters. -/
def preF : Preamble := { id := 1, role := 3, flags := 0, pairs := [] }
def recsF : List Rec :=
  [ { rtype := 1, id := 1, content := [0, 3, 0, 0, 0, 0, 0, 0], pad := [] },
    { rtype := 4, id := 1, content := [], pad := [] } ]

theorem recsF_wf : WellFormedPreamble preF recsF :=
  .begin [] 0 [0, 0, 0, 0, 0] rfl (by decide) (by decide) (by decide) (fun q hq => by cases hq) (.done [] 0 (by decide))

theorem recsF_fits (M : Nat) : NoiseFits M recsF := no_getValues_fits (by decide)

/-- the Stdin stream `"AB"` and the Data stream `"xyz"` (with a management `GetValues` record in front) -/
def fS : List Rec :=
  [ { rtype := 5, id := 1, content := [65, 66], pad := [] }, { rtype := 5, id := 1, content := [], pad := [] } ]
def fD : List Rec :=
  [ { rtype := 9, id := 0, content := NV.enc (Vars.nameMaxConns, []), pad := [] },
    { rtype := 8, id := 1, content := [120, 121, 122], pad := [] },
    { rtype := 8, id := 1, content := [], pad := [0] } ]

theorem fS_ok : StreamRecs 1 5 [65, 66] fS :=
  .chunk [65, 66] [] 0 (by decide) (by decide) (.term [] 0 (by decide))

theorem fD_ok : StreamRecs 1 8 [120, 121, 122] fD := by
  refine .noise _ ⟨⟨by decide, by decide +kernel, by decide⟩, by decide⟩ ?_
  exact .chunk [120, 121, 122] [] 0 (by decide) (by decide) (.term [0] 0 (by decide))

theorem fD_fits : NoiseFits (alignedBufsize 64) fD := by
  refine noiseFits_of_content (fun r hr _ _ => ?_)
  simp only [fD, List.mem_cons, List.not_mem_nil, or_false] at hr
  rcases hr with rfl | rfl | rfl <;> decide +kernel

def aT : Transport :=
  { input := serAll recsA, endMode := .eof, rd := [.n 3, .pending, .all], wr := [.n 9, .pending], fl := [] }

/-- `single_request_e2e_authorizer` applied: handler started, `"ok"` and the epilogue written, and
(KEEP_CONN, peer closed) the task returns. -/
example : ∃ c', runTask 10 (connS 64 10 aT [(canonicalA [111, 107] (.complete 0), true)]) 0 none = (c', "RET") ∧
    c'.env.tr.wlog = [1, 6, 0, 1, 0, 2, 6, 0, 111, 107, 0, 0, 0, 0, 0, 0] ++
      [1, 6, 0, 1, 0, 0, 0, 0, 1, 7, 0, 1, 0, 0, 0, 0, 1, 3, 0, 1, 0, 8, 0, 0, 0, 0, 0, 0, 0, 0, 0, 0] ∧
    c'.phase = .finished ∧ hsCount c'.env.tr.events = 1 := by
  obtain ⟨c', fin, hrun, ho⟩ := single_request_e2e_authorizer (p := preA) (recs := recsA) (b := 64) (mc := 10)
    (data := [111, 107]) (st := .complete 0) (t := aT) (fuel := 10)
    recsA_wf rfl (fun q hq => by cases hq) (recsA_fits _) rfl ⟨by decide, by decide, rfl, by decide⟩ rfl
    (by decide) (by decide +kernel) (by decide)
  rcases ho.final with ⟨h, _⟩ | ⟨_, _, hfin, hph⟩ | ⟨_, h, _⟩
  · exact absurd h (by decide)
  · subst hfin
    refine ⟨c', hrun, ?_, hph, ho.one_handler.1⟩
    rw [ho.log]
    show [] ++ (owedPreamble preA 10 recsA ++ streamRecords 6 1 [111, 107] ++ epilogue 1 (.complete 0)) = _
    decide +kernel
  · exact absurd h (by decide)

def fT : Transport :=
  { input := serAll recsF ++ (serAll fS ++ serAll fD), endMode := .pend,
    rd := [.n 20, .pending, .n 30, .n 1, .pending, .all], wr := [.n 5, .pending, .all, .n 1], fl := [] }

/-- `single_request_e2e_filter` applied: both streams read, the reply owed for the `GetValues` record
in the Data stream written (before or after the handler's output), the task returns. -/
example : ∃ c' O₁ O₂, runTask 20 (connS 64 10 fT [(canonicalF [33] (.complete 3), true)]) 0 none = (c', "RET") ∧
    O₁ ++ O₂ = owedStream 1 8 10 fD ∧ owedStream 1 8 10 fD ≠ [] ∧
    c'.env.tr.wlog = O₁ ++ [1, 6, 0, 1, 0, 1, 7, 0, 33, 0, 0, 0, 0, 0, 0, 0] ++ O₂ ++
      [1, 6, 0, 1, 0, 0, 0, 0, 1, 7, 0, 1, 0, 0, 0, 0, 1, 3, 0, 1, 0, 8, 0, 0, 0, 0, 0, 3, 0, 0, 0, 0] ∧
    readEvent [65, 66] ∈ c'.env.tr.events ∧ readEvent [120, 121, 122] ∈ c'.env.tr.events ∧
    c'.phase = .finished := by
  obtain ⟨c', fin, O1, O2, hrun, hO, ho⟩ := single_request_e2e_filter (p := preF) (recs := recsF)
    (content := [65, 66]) (srecs := fS) (content2 := [120, 121, 122]) (drecs := fD) (b := 64) (mc := 10)
    (data := [33]) (st := .complete 3) (t := fT) (fuel := 20)
    recsF_wf rfl (fun q hq => by cases hq) (recsF_fits _) fS_ok (no_getValues_fits (by decide)) fD_ok fD_fits rfl
    ⟨by decide, by decide, rfl, by decide⟩ rfl (by decide) (by decide +kernel) (by decide)
  have hS : owedStream 1 5 10 fS = [] := by decide +kernel
  rw [show preF.id = 1 from rfl, hS, List.nil_append] at hO
  rcases ho.final with ⟨_, hfin, hph⟩ | ⟨h, _⟩ | ⟨h, _⟩
  · subst hfin
    refine ⟨c', O1, O2, hrun, hO, by decide +kernel, ?_, ho.read_content _ (by simp), ho.read_content _ (by simp), hph⟩
    rw [ho.log]
    show [] ++ (owedPreamble preF 10 recsF ++ O1 ++ streamRecords 6 1 [33] ++ O2 ++ epilogue 1 (.complete 3)) = _
    rw [List.nil_append, show owedPreamble preF 10 recsF = [] from by decide +kernel, List.nil_append]
    congr 1
  · exact absurd h (by decide)
  · exact absurd h (by decide)

/-! ### Several requests -/

/-- three requests on the connection: the Responder request above, an Authorizer request (both
KEEP_CONN), then the Filter request above -/
def q1 : Sent :=
  .responder pre recs [65, 66, 67]
    [ { rtype := 5, id := 2, content := [9], pad := [] }, { rtype := 5, id := 1, content := [65, 66, 67], pad := [0] } ]
    [0, 0] 0 [104, 105] (.complete 0)
def q2 : Sent := .authorizer preA recsA [111, 107] (.complete 0)
def q3 : Sent :=
  .filter preF recsF [65, 66] [ { rtype := 5, id := 1, content := [65, 66], pad := [] } ] [] 0
    [120, 121, 122]
    [ { rtype := 9, id := 0, content := NV.enc (Vars.nameMaxConns, []), pad := [] },
      { rtype := 8, id := 1, content := [120, 121, 122], pad := [] } ] [0] 0 [33] (.complete 3)

def exT2 : Transport :=
  { input := q1.wire, endMode := .pend,
    rd := [.n 10, .pending, .n 7, .all, .n 3], wr := [.n 5, .pending, .all, .n 1], fl := [] }

theorem q1_ok : q1.OK 64 :=
  ⟨recs_wf, pre_pairs_fit 64, noise_fits 64, exS_fits _, (fun _ hr => nomatch hr), by decide +kernel, rfl, exS_ok,
    by decide⟩

theorem q2_ok : q2.OK 64 :=
  ⟨recsA_wf, (fun _ hq => nomatch hq), recsA_fits _, (fun _ hr => nomatch hr), (fun _ hr => nomatch hr),
    by decide +kernel, rfl, by decide⟩

theorem q3_ok : q3.OK 64 :=
  ⟨recsF_wf, (fun _ hq => nomatch hq), recsF_fits _, no_getValues_fits (by decide), fD_fits, by decide +kernel, rfl,
    fS_ok, fD_ok, by decide⟩

/-- `k_requests_e2e` applied to requests of the three roles: all are served, the log is the three
answers in order, and the task returns after the last (no KEEP_CONN). -/
example : ∃ c' A, closedLoop 20 [q2.wire, q3.wire] (connK 64 10 exT2 [q1, q2, q3]) 0 = (c', "RET") ∧
    AnswerAll 10 [q1, q2, q3] A ∧ c'.env.tr.wlog = A ∧ hsCount c'.env.tr.events = 3 ∧
    readEvent [65, 66, 67] ∈ c'.env.tr.events ∧ readEvent [65, 66] ∈ c'.env.tr.events ∧
    readEvent [120, 121, 122] ∈ c'.env.tr.events ∧ c'.phase = .finished := by
  obtain ⟨c', fin, A, hrun, hA, hlog, hhs, hall, _, hfin⟩ := k_requests_e2e (b := 64) (mc := 10) q1 [q2, q3]
    (t := exT2) (fuel := 20)
    (fun q' hq' => by
      simp only [List.mem_cons, List.not_mem_nil, or_false] at hq'
      rcases hq' with rfl | rfl | rfl
      · exact q1_ok
      · exact q2_ok
      · exact q3_ok)
    (fun q' hq' => by
      simp only [List.dropLast, List.mem_cons, List.not_mem_nil, or_false] at hq'
      rcases hq' with rfl | rfl <;> decide)
    rfl ⟨by decide, by decide, rfl, by decide⟩ rfl rfl (by decide)
  rcases hfin with ⟨h, _⟩ | ⟨_, rfl, hph⟩
  · exact absurd h (by decide)
  · exact ⟨c', A, hrun, hA, hlog.trans (List.nil_append _), hhs, (hall q1 (by simp)).2 _ (by simp [q1, Sent.reads]),
      (hall q3 (by simp)).2 _ (by simp [q3, Sent.reads]), (hall q3 (by simp)).2 _ (by simp [q3, Sent.reads]), hph⟩

end Example

end Fcgi.C07E
