import Fcgi.Proofs.E2EMulti
/-!
# C07 — end to end: what a whole connection does for one well-formed request

The composition of C01 (request parser, any chunking), C02 (stream parser simulation), C09
(`poll_input`), C10 (`StreamWriter`) and the run-loop phase specs of C07 into ONE statement about the
executor `runTask` on the connection task `pollConn`:

a client sends a well-formed preamble (any idle / Params-phase noise, replies owed as in C01) and a
Stdin stream (any noise that owes no reply), all of it sitting in the transport; the transport
splits reads and writes arbitrarily and answers `Pending` whenever it likes (but never with an
error); the handler is the canonical one (`readAll`, open Stdout, `writeAll data`, drop the writer,
return `st`).  Then the task

* starts exactly one handler, for exactly the request sent (`HS(` event of `p.request`);
* the handler's `readAll` returns exactly the Stdin content;
* the write log is, in this order and nothing else: the replies owed for the preamble, the Stdout
  records framing `data` (`≤ 65535` bytes each, padded to 8), `[Stdout∅][Stderr∅][EndRequest(id, st)]`;
* without KEEP_CONN the task returns (`RET`, phase `finished`); with KEEP_CONN it goes back to
  `parse_request`, swallows the stream's terminating record, and returns at end-of-file (`RET`)
  resp. parks on an empty buffer if the peer just stays silent (`STALL`, phase `parseReq … .reading`);
* it never panics (`RET`/`STALL` are the only outcomes), within `|rd| + |wr| + 1` polls.

`single_request_e2e_full` is the general statement (arbitrary stream noise);
`single_request_e2e_partial` is what is proved — see its doc comment for the exact added hypotheses;
`single_request_e2e_ideal` is its instance for the ideal transport (one poll);
`k_requests_e2e_partial` serves a list of KEEP_CONN requests sent by a closed-loop client
(`E2E.closedLoop`: the next request is sent when the task has parked).

The stages of the proof (`Fcgi/Proofs/E2E*.lean`), each a theorem about one poll:
* stage 1, `parse_request`: `E2E.parse_loop` (any poll inside `parse_request`: the request parser is
  where one run over the bytes consumed so far stops — C01/C06 for every chunking the transport
  produces — and exactly that run's output is written), `E2E.handler_start` (the handler is started
  on `Request::new` of exactly the spec request, with exactly the wire after the preamble in
  buffer ++ transport, the log being exactly the owed preamble replies);
* stage 2, `readAll`: `E2E.pollInput_sim` / `E2E.readAll_run` (C02's simulation `parse_sim` under the
  poll loop of C09: the bytes delivered are the next piece of the content, `0` exactly at the end mark);
* stage 3, `writeAll` / `close`: `E2E.writeAll_run` (C10's `pollWrite_spec`: one record per
  `min 65535` bytes, whatever the partial writes), `E2E.close_start_eq`, `E2E.close_core` (the
  epilogue, then `ConnectionReset` or reuse), `E2E.idle_poll` (the reused connection swallows the
  terminating record and parks / returns);
* glue: `E2E.stage_poll` (one poll from any stage), `E2E.run_from_stage` (the executor: every
  non-final poll consumes a scripted answer), `E2E.chain_run` (several requests).
-/
namespace Fcgi.C07E
open Fcgi Fcgi.Req Fcgi.Str Fcgi.Async Fcgi.Run Fcgi.Spec Fcgi.E2E

/-- The canonical handler: read all of Stdin, open Stdout, write `data`, drop the writer, return `st`. -/
abbrev canonical (data : Bytes) (st : ExitStatus) : List HOp :=
  [.readAll, .open_ 6, .writeAll 0 data, .dropW 0, .ret st]

/-- The connection task as `Token::run` starts it: fresh request parser, the scripted transport, no
closed-loop peer, one handler script. -/
def conn0 (b mc : Nat) (t : Transport) (data : Bytes) (st : ExitStatus) : Conn :=
  { phase := .parseReq (Req.Parser.new b mc) .start, env := { tr := t, segs := [] },
    scripts := [(canonical data st, true)] }

/-- `[Stdout∅][Stderr∅][EndRequest(id, st)]` -/
def epilogue (id : Nat) (st : ExitStatus) : Bytes :=
  RecordHeader.toBytes ⟨RT.stdout, id, 0, 0⟩ ++ RecordHeader.toBytes ⟨RT.stderr, id, 0, 0⟩ ++
    st.toEndRequest.toRecord id

/-- Everything the connection writes for the request, in order; `O₁` / `O₂` = the replies owed for
the noise inside the Stdin stream that get written before / after the handler's output. -/
def expectedLogN (p : Preamble) (recs : List Rec) (mc : Nat) (data : Bytes) (st : ExitStatus)
    (O₁ O₂ : Bytes) : Bytes :=
  owedPreamble p mc recs ++ O₁ ++ streamRecords 6 p.id data ++ O₂ ++ epilogue p.id st

/-- … when the stream's noise owes no reply -/
def expectedLog (p : Preamble) (recs : List Rec) (mc : Nat) (data : Bytes) (st : ExitStatus) : Bytes :=
  owedPreamble p mc recs ++ streamRecords 6 p.id data ++ epilogue p.id st

theorem expectedLogN_nil (p : Preamble) (recs : List Rec) (mc : Nat) (data : Bytes) (st : ExitStatus) :
    expectedLogN p recs mc data st [] [] = expectedLog p recs mc data st := by
  simp [expectedLogN, expectedLog]

/-- The trace event of the handler start of request `rq` (`HS(role,flags,env)`). -/
abbrev startEvent (rq : Request) : String := hsEvent rq

/-- The trace event of a `readAll` that returned `bytes`. -/
abbrev readEvent (bytes : Bytes) : String := rEvent bytes

/-- What the run ends in (`log` = everything written after `L0`). -/
structure OutcomeN (p : Preamble) (content : Bytes) (b mc : Nat) (L0 log : Bytes) (t : Transport)
    (c' : Conn) (fin : String) : Prop where
  /-- (a) exactly one handler invocation, for the request sent -/
  one_handler : hsCount c'.env.tr.events = 1 ∧ startEvent p.request ∈ c'.env.tr.events
  /-- (b) its `readAll` returned exactly the Stdin content -/
  read_content : readEvent content ∈ c'.env.tr.events
  /-- (c) the write log -/
  log : c'.env.tr.wlog = L0 ++ log
  /-- (d) returned, or parked waiting for the next request -/
  final : (p.flags.toNat % 2 = 0 ∧ fin = "RET" ∧ c'.phase = .finished) ∨
          (p.flags.toNat % 2 = 1 ∧ t.endMode = .eof ∧ fin = "RET" ∧ c'.phase = .finished) ∨
          (p.flags.toNat % 2 = 1 ∧ t.endMode = .pend ∧ fin = "STALL" ∧
            c'.phase = .parseReq ⟨alignedBufsize b, [], .header, mc⟩ .reading ∧ c'.env.tr.input = [])

/-- What the run ends in when the stream's noise owes no reply. -/
abbrev Outcome (p : Preamble) (recs : List Rec) (content : Bytes) (b mc : Nat) (data : Bytes)
    (st : ExitStatus) (L0 : Bytes) (t : Transport) (c' : Conn) (fin : String) : Prop :=
  OutcomeN p content b mc L0 (expectedLog p recs mc data st) t c' fin

/-- (e) in particular: no panic, no fuel exhaustion -/
theorem OutcomeN.no_panic {p content b mc L0 log t c' fin}
    (h : OutcomeN p content b mc L0 log t c' fin) : fin = "RET" ∨ fin = "STALL" := by
  rcases h.final with ⟨_, h, _⟩ | ⟨_, _, h, _⟩ | ⟨_, _, h, _⟩
  · exact Or.inl h
  · exact Or.inl h
  · exact Or.inr h

/-- **The general statement** (Responder; arbitrary `StreamNoise` in the Stdin stream — provided its
management `GetValues` bodies fit the buffer like those of the preamble, `NoiseFits` — whose replies
`O₁ ++ O₂ = owedStream …` may come before *or after* the handler's own output: the replies queued
by the `parse` call that reports `stream_end` are only flushed by `close`).
Proved: `single_request_e2e_full_holds`. -/
def single_request_e2e_full : Prop :=
  ∀ (p : Preamble) (recs : List Rec) (content : Bytes) (srecs : List Rec) (b mc : Nat) (data : Bytes)
    (st : ExitStatus) (t : Transport) (fuel : Nat),
    WellFormedPreamble p recs → p.role = 1 →
    (∀ q ∈ p.pairs, (NV.enc q).length ≤ alignedBufsize b) → NoiseFits (alignedBufsize b) recs →
    StreamRecs p.id 5 content srecs → NoiseFits (alignedBufsize b) srecs →
    t.input = serAll recs ++ serAll srecs → Ben t → hsCount t.events = 0 →
    t.rd.length + t.wr.length + 1 ≤ fuel →
    4 * t.input.length + 17 ≤ 100000 → alignedBufsize b / 32 + wcost data.length + 12 ≤ 1000 →
    ∃ c' fin O₁ O₂, runTask fuel (conn0 b mc t data st) 0 none = (c', fin) ∧
      O₁ ++ O₂ = owedStream p.id 5 mc srecs ∧
      c'.env.tr.wlog = t.wlog ++ (owedPreamble p mc recs ++ O₁ ++ streamRecords 6 p.id data ++ O₂ ++
        epilogue p.id st) ∧
      (fin = "RET" ∨ fin = "STALL") ∧
      hsCount c'.env.tr.events = 1 ∧ startEvent p.request ∈ c'.env.tr.events ∧
      readEvent content ∈ c'.env.tr.events

theorem epilogue_eq (id : Nat) (st : ExitStatus) :
    makeRequestEpilogue id st [RT.stdout, RT.stderr] = epilogue id st := by
  rw [(C17.epilogue_spec id st _).1]
  simp [epilogue]

theorem owedStream_term (id mc : Nat) (pad : Bytes) (res : UInt8) :
    owedStream id 5 mc [{ rtype := 5, id := id, content := [], pad := pad, reserved := res }] = [] := by
  simp [owedStream]

/-- **C07 end to end, one request** — the general form with the final state spelled out.

A Responder request: well-formed preamble (any idle / Params noise within the C06 buffer bound), a
Stdin stream with ANY noise (management `GetValues` bodies within the same bound), all of it in the
transport; the transport splits reads and writes arbitrarily and answers `Pending` whenever it likes
(`Ben t`: no `err`, no `zero`, `endMode ∈ {eof, pend}`, no peer holding input back); the canonical
handler.  Then `runTask`, within `|rd| + |wr| + 1` polls, ends `RET` / `STALL` as `OutcomeN` says,
having written exactly: the replies owed for the preamble, `O₁`, the Stdout records of `data`, `O₂`,
`[Stdout∅][Stderr∅][EndRequest(id, st)]`, where `O₁ ++ O₂` are the replies owed for the stream's noise.

`hsize` / `hhf` are side conditions on the *model's* fuel (`pollConn 100000`,
`handlerPoll (1000 + 4·|input|)`), not properties of the code. -/
theorem single_request_e2e {p : Preamble} {recs : List Rec} {content : Bytes} {srecs : List Rec}
    {b mc : Nat} {data : Bytes} {st : ExitStatus} {t : Transport} {fuel : Nat}
    (hwf : WellFormedPreamble p recs) (hrole : p.role = 1)
    (hpairs : ∀ q ∈ p.pairs, (NV.enc q).length ≤ alignedBufsize b)
    (hnoise : NoiseFits (alignedBufsize b) recs)
    (hs : StreamRecs p.id 5 content srecs) (hsn : NoiseFits (alignedBufsize b) srecs)
    (hin : t.input = serAll recs ++ serAll srecs) (hben : Ben t) (hev : hsCount t.events = 0)
    (hfuel : t.rd.length + t.wr.length + 1 ≤ fuel)
    (hsize : 4 * t.input.length + 17 ≤ 100000)
    (hhf : alignedBufsize b / 32 + wcost data.length + 12 ≤ 1000) :
    ∃ c' fin O₁ O₂, runTask fuel (conn0 b mc t data st) 0 none = (c', fin) ∧
      O₁ ++ O₂ = owedStream p.id 5 mc srecs ∧
      OutcomeN p content b mc t.wlog (expectedLogN p recs mc data st O₁ O₂) t c' fin := by
  obtain ⟨body, pad, res, hpad, hbody, hsrecs⟩ := StreamRecs.split hs
  let g : E2E.Cfg := ⟨p, recs, content, body, pad, res, b, mc, data, st, t.wlog, 0, []⟩
  have hsb : NoiseFits (alignedBufsize b) body := fun r hr => hsn r (by rw [hsrecs]; simp [hr])
  have ok : g.OK := ⟨hwf, hrole, hpairs, hnoise, hbody, hsb, hpad, hhf⟩
  have hW : g.W = t.input := by
    rw [hin, hsrecs, C02.serAll_append, C02.serAll_single]
    rfl
  have hOt : owedStream p.id 5 mc srecs = g.Ot := by
    rw [hsrecs, owedStream_append]
    have := owedStream_term p.id mc pad res
    show owedStream p.id 5 mc body ++ owedStream p.id 5 mc [_] = owedStream p.id 5 mc body
    rw [show (UInt8.ofNat 5) = 5 from rfl, this, List.append_nil]
  have hstage : Stage g (conn0 b mc t data st) :=
    .start (raw := []) rfl (by show [] ++ t.input = g.W; rw [hW]; rfl) (Nat.zero_le _) rfl hben rfl rfl rfl hev
  obtain ⟨c', ⟨hem, _, _, _⟩, O1, O2, hO, hres⟩ := run_from_stage ok (ans t) (conn0 b mc t data st) 0 fuel hstage rfl
    (Nat.le_refl _) (by unfold ans; omega) hsize
  have hlog : g.L3 O1 O2 = t.wlog ++ expectedLogN p recs mc data st O1 O2 := by
    show (((t.wlog ++ owedPreamble p mc recs) ++ O1) ++ streamRecords 6 p.id data) ++ O2 ++
      makeRequestEpilogue p.id st [RT.stdout, RT.stderr] = _
    rw [epilogue_eq]
    simp only [expectedLogN, List.append_assoc]
  have hem' : c'.env.tr.endMode = t.endMode := hem
  rcases hres with ⟨hrun, hfin⟩ | ⟨hrun, hpk⟩
  · refine ⟨c', "RET", O1, O2, hrun, hO.trans hOt.symm, hfin.ev, hfin.re, hfin.log.trans hlog, ?_⟩
    rcases hfin.why with hk | ⟨hk, he⟩
    · exact Or.inl ⟨hk, rfl, hfin.ph⟩
    · exact Or.inr (Or.inl ⟨hk, hem'.symm.trans he, rfl, hfin.ph⟩)
  · exact ⟨c', "STALL", O1, O2, hrun, hO.trans hOt.symm, hpk.ev, hpk.re, hpk.log.trans hlog,
      Or.inr (Or.inr ⟨hpk.keep, hem'.symm.trans hpk.em, rfl, hpk.ph, hpk.inp⟩)⟩

/-- **`single_request_e2e_full` holds.** -/
theorem single_request_e2e_full_holds : single_request_e2e_full := by
  intro p recs content srecs b mc data st t fuel hwf hrole hpairs hnoise hs hsn hin hben hev hfuel hsize hhf
  obtain ⟨c', fin, O1, O2, hrun, hO, ho⟩ :=
    single_request_e2e hwf hrole hpairs hnoise hs hsn hin hben hev hfuel hsize hhf
  exact ⟨c', fin, O1, O2, hrun, hO, ho.log, ho.no_panic, ho.one_handler.1, ho.one_handler.2, ho.read_content⟩

/-- The instance where the stream's noise owes no reply (`hquiet`; then `NoiseFits` for the stream is
automatic and the log has no `O₁`, `O₂`). -/
theorem single_request_e2e_partial {p : Preamble} {recs : List Rec} {content : Bytes} {srecs : List Rec}
    {b mc : Nat} {data : Bytes} {st : ExitStatus} {t : Transport} {fuel : Nat}
    (hwf : WellFormedPreamble p recs) (hrole : p.role = 1)
    (hpairs : ∀ q ∈ p.pairs, (NV.enc q).length ≤ alignedBufsize b)
    (hnoise : NoiseFits (alignedBufsize b) recs)
    (hs : StreamRecs p.id 5 content srecs) (hsn : NoiseFits (alignedBufsize b) srecs)
    (hquiet : owedStream p.id 5 mc srecs = [])
    (hin : t.input = serAll recs ++ serAll srecs) (hben : Ben t) (hev : hsCount t.events = 0)
    (hfuel : t.rd.length + t.wr.length + 1 ≤ fuel)
    (hsize : 4 * t.input.length + 17 ≤ 100000)
    (hhf : alignedBufsize b / 32 + wcost data.length + 12 ≤ 1000) :
    ∃ c' fin, runTask fuel (conn0 b mc t data st) 0 none = (c', fin) ∧
      Outcome p recs content b mc data st t.wlog t c' fin := by
  obtain ⟨c', fin, O1, O2, hrun, hO, ho⟩ :=
    single_request_e2e hwf hrole hpairs hnoise hs hsn hin hben hev hfuel hsize hhf
  rw [hquiet] at hO
  obtain ⟨h1, h2⟩ := List.append_eq_nil_iff.1 hO
  subst h1 h2
  rw [expectedLogN_nil] at ho
  exact ⟨c', fin, hrun, ho⟩

/-- **Ideal transport** (every read returns what is there, every write accepts everything): the whole
request is served in a single poll of the task. -/
theorem single_request_e2e_ideal {p : Preamble} {recs : List Rec} {content : Bytes} {srecs : List Rec}
    {b mc : Nat} {data : Bytes} {st : ExitStatus} {t : Transport}
    (hwf : WellFormedPreamble p recs) (hrole : p.role = 1)
    (hpairs : ∀ q ∈ p.pairs, (NV.enc q).length ≤ alignedBufsize b)
    (hnoise : NoiseFits (alignedBufsize b) recs)
    (hs : StreamRecs p.id 5 content srecs) (hsn : NoiseFits (alignedBufsize b) srecs)
    (hin : t.input = serAll recs ++ serAll srecs) (hrd : t.rd = []) (hwr : t.wr = [])
    (hhold : t.hold = false) (hem : t.endMode ≠ .err) (hev : hsCount t.events = 0)
    (hsize : 4 * t.input.length + 17 ≤ 100000)
    (hhf : alignedBufsize b / 32 + wcost data.length + 12 ≤ 1000) :
    ∃ c' fin O₁ O₂, runTask 1 (conn0 b mc t data st) 0 none = (c', fin) ∧
      O₁ ++ O₂ = owedStream p.id 5 mc srecs ∧
      OutcomeN p content b mc t.wlog (expectedLogN p recs mc data st O₁ O₂) t c' fin :=
  single_request_e2e hwf hrole hpairs hnoise hs hsn hin
    ⟨(by rw [hrd]; intro a ha; cases ha), (by rw [hwr]; intro a ha; cases ha), hhold, hem⟩ hev
    (by rw [hrd, hwr]; exact Nat.le_refl _) hsize hhf

/-! ## Several requests on one connection (closed-loop client) -/

/-- One request as the client sends it (the Stdin stream split into its records before the
terminating empty record, and that record's padding / reserved byte), and what the handler does with
it (`data` to Stdout, exit status `st`). -/
structure Sent where
  p : Preamble
  recs : List Rec
  content : Bytes
  body : List Rec
  pad : Bytes
  res : UInt8
  data : Bytes
  st : ExitStatus

namespace Sent
/-- the records of the Stdin stream -/
def srecs (q : Sent) : List Rec :=
  q.body ++ [{ rtype := 5, id := q.p.id, content := [], pad := q.pad, reserved := q.res }]
/-- the bytes the client sends for the request -/
def wire (q : Sent) : Bytes := serAll q.recs ++ serAll q.srecs
/-- the handler script for the request -/
def handler (q : Sent) : List HOp × Bool := (canonical q.data q.st, true)

/-- The hypotheses of `single_request_e2e` on one request. -/
structure OK (q : Sent) (b mc : Nat) : Prop where
  wf : WellFormedPreamble q.p q.recs
  role : q.p.role = 1
  pairs : ∀ x ∈ q.p.pairs, (NV.enc x).length ≤ alignedBufsize b
  noise : NoiseFits (alignedBufsize b) q.recs
  stream : StreamRecs q.p.id 5 q.content q.srecs
  sfits : NoiseFits (alignedBufsize b) q.srecs
  hsize : 4 * q.wire.length + 17 ≤ 100000
  hhf : alignedBufsize b / 32 + wcost q.data.length + 12 ≤ 1000
end Sent

/-- `A` is what the connection writes for the requests, in order: for each request its answer
(`expectedLogN`) with some split `O₁ ++ O₂` of the replies owed for its stream's noise. -/
def AnswerAll (mc : Nat) : List Sent → Bytes → Prop
  | [], A => A = []
  | q :: qs, A => ∃ O₁ O₂ rest, O₁ ++ O₂ = owedStream q.p.id 5 mc q.srecs ∧ AnswerAll mc qs rest ∧
      A = expectedLogN q.p q.recs mc q.data q.st O₁ O₂ ++ rest

/-- … when no stream noise owes a reply -/
def expectedAll (mc : Nat) : List Sent → Bytes
  | [] => []
  | q :: qs => expectedLog q.p q.recs mc q.data q.st ++ expectedAll mc qs

theorem answerAll_quiet (mc : Nat) : ∀ (qs : List Sent) (A : Bytes),
    (∀ q ∈ qs, owedStream q.p.id 5 mc q.srecs = []) → AnswerAll mc qs A → A = expectedAll mc qs
  | [], A, _, h => h
  | q :: qs, A, hq, ⟨O1, O2, rest, hO, hr, hA⟩ => by
    rw [hq q List.mem_cons_self] at hO
    obtain ⟨h1, h2⟩ := List.append_eq_nil_iff.1 hO
    subst h1 h2
    rw [hA, expectedLogN_nil, answerAll_quiet mc qs rest (fun q' hq' => hq q' (List.mem_cons_of_mem _ hq')) hr]
    rfl

/-- the connection task with one handler script per request to come -/
def connK (b mc : Nat) (t : Transport) (qs : List Sent) : Conn :=
  { phase := .parseReq (Req.Parser.new b mc) .start, env := { tr := t, segs := [] },
    scripts := qs.map Sent.handler }

def cfgOf (b mc : Nat) (q : Sent) (L0 : Bytes) (h : Nat) (more : List (List HOp × Bool)) : E2E.Cfg :=
  ⟨q.p, q.recs, q.content, q.body, q.pad, q.res, b, mc, q.data, q.st, L0, h, more⟩

/-- the configurations of the requests after the first (their `L0` is threaded by `chain_run`) -/
def cfgs (b mc : Nat) : Nat → List Sent → List E2E.Cfg
  | _, [] => []
  | h, q :: qs => cfgOf b mc q [] h (qs.map Sent.handler) :: cfgs b mc (h + 1) qs

theorem cfgOf_W (b mc : Nat) (q : Sent) (L0 : Bytes) (h : Nat) (more : List (List HOp × Bool)) :
    (cfgOf b mc q L0 h more).W = q.wire := by
  simp only [E2E.Cfg.W, E2E.Cfg.X, Sent.wire, Sent.srecs, C02.serAll_append, C02.serAll_single]
  rfl

theorem cfgOf_L3 (b mc : Nat) (q : Sent) (L0 : Bytes) (h : Nat) (more : List (List HOp × Bool))
    (O1 O2 : Bytes) :
    (cfgOf b mc q L0 h more).L3 O1 O2 = L0 ++ expectedLogN q.p q.recs mc q.data q.st O1 O2 := by
  show (((L0 ++ owedPreamble q.p mc q.recs) ++ O1) ++ streamRecords 6 q.p.id q.data) ++ O2 ++
    makeRequestEpilogue q.p.id q.st [RT.stdout, RT.stderr] = _
  rw [epilogue_eq]
  simp only [expectedLogN, List.append_assoc]

theorem cfgOf_Ot (b mc : Nat) (q : Sent) (L0 : Bytes) (h : Nat) (more : List (List HOp × Bool)) :
    (cfgOf b mc q L0 h more).Ot = owedStream q.p.id 5 mc q.srecs := by
  rw [Sent.srecs, owedStream_append, owedStream_term, List.append_nil]
  rfl

theorem cfgOf_ok {b mc : Nat} {q : Sent} (ok : q.OK b mc) (L0 : Bytes) (h : Nat)
    (more : List (List HOp × Bool)) : (cfgOf b mc q L0 h more).OK := by
  obtain ⟨body', pad', res', hp', hb', heq⟩ := StreamRecs.split ok.stream
  obtain ⟨e1, e2⟩ := List.append_inj' heq rfl
  have e3 : q.pad = pad' := by
    have := List.singleton_inj.1 e2
    exact congrArg Rec.pad this
  have hsb : NoiseFits (alignedBufsize b) q.body := fun r hr => ok.sfits r (by simp [Sent.srecs, hr])
  exact ⟨ok.wf, ok.role, ok.pairs, ok.noise, by show Body q.p.id 5 q.content q.body; rw [e1]; exact hb', hsb,
    by show q.pad.length < 256; rw [e3]; exact hp', ok.hhf⟩

theorem cfgs_W (b mc : Nat) : ∀ (qs : List Sent) (h : Nat),
    (cfgs b mc h qs).map E2E.Cfg.W = qs.map Sent.wire
  | [], _ => rfl
  | q :: qs, h => by
    simp only [cfgs, List.map_cons, cfgOf_W, cfgs_W b mc qs]

theorem cfgs_ok {b mc : Nat} : ∀ (qs : List Sent) (h : Nat), (∀ q ∈ qs, q.OK b mc) →
    ∀ g ∈ cfgs b mc h qs, g.OK ∧ 4 * g.W.length + 17 ≤ 100000
  | [], _, _ => fun g hg => by simp [cfgs] at hg
  | q :: qs, h, hok => by
    intro g hg
    simp only [cfgs, List.mem_cons] at hg
    rcases hg with rfl | hg
    · exact ⟨cfgOf_ok (hok q List.mem_cons_self) _ _ _, by rw [cfgOf_W]; exact (hok q List.mem_cons_self).hsize⟩
    · exact cfgs_ok qs _ (fun q' hq' => hok q' (List.mem_cons_of_mem _ hq')) g hg

theorem chain_cfgs {b mc : Nat} : ∀ (qs : List Sent) (q : Sent) (L0 : Bytes) (h : Nat),
    (∀ q' ∈ (q :: qs).dropLast, q'.p.flags.toNat % 2 = 1) →
    ChainFrom (cfgOf b mc q L0 h (qs.map Sent.handler)) (cfgs b mc (h + 1) qs)
  | [], _, _, _, _ => trivial
  | q2 :: qs, q, L0, h, hk => by
    refine ⟨⟨rfl, rfl, rfl, rfl, hk q (by simp [List.dropLast])⟩, ?_⟩
    exact chain_cfgs qs q2 _ _ (fun q' hq' => hk q' (by
      rw [List.dropLast_cons_cons]
      exact List.mem_cons_of_mem _ hq'))

/-- the logs of the chain are the answers of the requests -/
theorem logChain_answers {b mc : Nat} : ∀ (qs : List Sent) (q : Sent) (L0 L L' : Bytes) (h : Nat),
    LogChain L (cfgOf b mc q L0 h (qs.map Sent.handler) :: cfgs b mc (h + 1) qs) L' →
    ∃ A, AnswerAll mc (q :: qs) A ∧ L' = L ++ A
  | [], q, L0, L, L', h, ⟨O1, O2, hO, hr⟩ => by
    have hr' : L' = _ := hr
    refine ⟨_, ⟨O1, O2, [], by rw [← cfgOf_Ot b mc q L0 h []]; exact hO, rfl, rfl⟩, ?_⟩
    rw [hr']
    show (cfgOf b mc q L h []).L3 O1 O2 = _
    rw [cfgOf_L3, List.append_nil]
  | q2 :: qs, q, L0, L, L', h, ⟨O1, O2, hO, hr⟩ => by
    obtain ⟨A, hA, hL'⟩ := logChain_answers qs q2 [] _ L' (h + 1) hr
    refine ⟨_, ⟨O1, O2, A, by rw [← cfgOf_Ot b mc q L0 h ((q2 :: qs).map Sent.handler)]; exact hO, hA, rfl⟩, ?_⟩
    rw [hL']
    show (cfgOf b mc q L h _).L3 O1 O2 ++ A = _
    rw [cfgOf_L3, List.append_assoc]

theorem lastP_cfgs {b mc : Nat} : ∀ (qs : List Sent) (q : Sent) (L0 : Bytes) (h : Nat),
    ∃ L', lastP (cfgOf b mc q L0 h (qs.map Sent.handler)) (cfgs b mc (h + 1) qs) =
      cfgOf b mc ((q :: qs).getLast (by simp)) L' (h + qs.length) []
  | [], q, L0, h => ⟨L0, rfl⟩
  | q2 :: qs, q, L0, h => by
    obtain ⟨L', hL'⟩ := lastP_cfgs qs q2 [] (h + 1)
    refine ⟨L', ?_⟩
    simp only [cfgs, lastP_cons, List.getLast_cons_cons, List.length_cons]
    rw [hL']
    congr 1
    omega

/-- **C07 end to end, several requests** (same hypotheses as `single_request_e2e`, for every request;
plus: the peer is the closed-loop client of `closedLoop` — it sends the next request when the task
has parked — and never closes its end, `t.endMode = .pend`).

A client sends `q₁, …, q_k` on one connection, all but the last with KEEP_CONN, each after the answer
to the previous one.  Then every request gets its own handler call (with its own request and Stdin
content), the write log is the concatenation of the `k` answers in order and nothing else, and the
task ends parked for a `(k+1)`-th request (last request KEEP_CONN) or returns (otherwise). -/
theorem k_requests_e2e {b mc : Nat} (q : Sent) (qs : List Sent) {t : Transport} {fuel : Nat}
    (hok : ∀ q' ∈ q :: qs, q'.OK b mc)
    (hkeep : ∀ q' ∈ (q :: qs).dropLast, q'.p.flags.toNat % 2 = 1)
    (hin : t.input = q.wire) (hben : Ben t) (hem : t.endMode = .pend) (hev : hsCount t.events = 0)
    (hfuel : t.rd.length + t.wr.length + 1 ≤ fuel) :
    ∃ c' fin A, closedLoop fuel (qs.map Sent.wire) (connK b mc t (q :: qs)) 0 = (c', fin) ∧
      AnswerAll mc (q :: qs) A ∧ c'.env.tr.wlog = t.wlog ++ A ∧
      hsCount c'.env.tr.events = (q :: qs).length ∧
      (∀ q' ∈ q :: qs, startEvent q'.p.request ∈ c'.env.tr.events ∧ readEvent q'.content ∈ c'.env.tr.events) ∧
      c'.scripts = [] ∧
      ((((q :: qs).getLast (by simp)).p.flags.toNat % 2 = 1 ∧ fin = "STALL" ∧
          c'.phase = .parseReq ⟨alignedBufsize b, [], .header, mc⟩ .reading ∧ c'.env.tr.input = []) ∨
       (((q :: qs).getLast (by simp)).p.flags.toNat % 2 = 0 ∧ fin = "RET" ∧ c'.phase = .finished)) := by
  have okq := hok q List.mem_cons_self
  have hstage : Stage (cfgOf b mc q t.wlog 0 (qs.map Sent.handler)) (connK b mc t (q :: qs)) :=
    .start (raw := []) rfl (by show [] ++ t.input = _; rw [cfgOf_W, hin]; rfl) (Nat.zero_le _) rfl hben rfl rfl rfl hev
  obtain ⟨c', fin, hrun, _, hem', hlog, hend, hall⟩ := chain_run
    (cfgs b mc (0 + 1) qs)
    (cfgOf b mc q t.wlog 0 (qs.map Sent.handler)) (connK b mc t (q :: qs)) 0 fuel hstage rfl hem
    (by show ans t + 1 ≤ fuel; unfold ans; omega)
    (by show 4 * t.input.length + 17 ≤ 100000; rw [hin]; exact okq.hsize)
    (cfgOf_ok okq _ _ _)
    (cfgs_ok qs _ (fun q' hq' => hok q' (List.mem_cons_of_mem _ hq')))
    (chain_cfgs qs q _ _ hkeep)
  rw [cfgs_W] at hrun
  obtain ⟨A, hA, hLA⟩ := logChain_answers qs q t.wlog t.wlog c'.env.tr.wlog 0 hlog
  obtain ⟨L', hgl⟩ := lastP_cfgs (b := b) (mc := mc) qs q t.wlog 0
  rw [hgl] at hend
  have hallq : ∀ q' ∈ q :: qs, startEvent q'.p.request ∈ c'.env.tr.events ∧ readEvent q'.content ∈ c'.env.tr.events := by
    have key : ∀ (qs : List Sent) (h : Nat) (q' : Sent), q' ∈ qs →
        ∃ g ∈ cfgs b mc h qs, g.p = q'.p ∧ g.content = q'.content := by
      intro qs
      induction qs with
      | nil => intro _ _ h; cases h
      | cons a as ih =>
        intro h q' hq'
        rcases List.mem_cons.1 hq' with rfl | hq'
        · exact ⟨_, by simp only [cfgs]; exact List.mem_cons_self, rfl, rfl⟩
        · obtain ⟨g, hg, h1, h2⟩ := ih (h + 1) q' hq'
          exact ⟨g, by simp only [cfgs]; exact List.mem_cons_of_mem _ hg, h1, h2⟩
    intro q' hq'
    rcases List.mem_cons.1 hq' with h | hq'
    · rw [h]
      exact hall (cfgOf b mc q t.wlog 0 (qs.map Sent.handler)) List.mem_cons_self
    · obtain ⟨g, hg, h1, h2⟩ := key qs (0 + 1) q' hq'
      have := hall g (List.mem_cons_of_mem _ hg)
      rw [h1, h2] at this
      exact this
  refine ⟨c', fin, A, hrun, hA, hLA, ?_, hallq, hend.sc, ?_⟩
  · have := hend.hs
    simp only [cfgOf, List.length_cons] at this ⊢
    omega
  · rcases hend.fin with ⟨rfl, hph, hk | ⟨_, he⟩⟩ | ⟨rfl, hph, hinp, hk⟩
    · exact Or.inr ⟨hk, rfl, hph⟩
    · rw [hem'] at he; cases he
    · exact Or.inl ⟨hk, rfl, hph, hinp⟩

/-- The instance where no stream noise owes a reply: the log is `expectedAll`. -/
theorem k_requests_e2e_partial {b mc : Nat} (q : Sent) (qs : List Sent) {t : Transport} {fuel : Nat}
    (hok : ∀ q' ∈ q :: qs, q'.OK b mc)
    (hquiet : ∀ q' ∈ q :: qs, owedStream q'.p.id 5 mc q'.srecs = [])
    (hkeep : ∀ q' ∈ (q :: qs).dropLast, q'.p.flags.toNat % 2 = 1)
    (hin : t.input = q.wire) (hben : Ben t) (hem : t.endMode = .pend) (hev : hsCount t.events = 0)
    (hfuel : t.rd.length + t.wr.length + 1 ≤ fuel) :
    ∃ c' fin, closedLoop fuel (qs.map Sent.wire) (connK b mc t (q :: qs)) 0 = (c', fin) ∧
      c'.env.tr.wlog = t.wlog ++ expectedAll mc (q :: qs) ∧
      hsCount c'.env.tr.events = (q :: qs).length ∧
      (∀ q' ∈ q :: qs, startEvent q'.p.request ∈ c'.env.tr.events ∧ readEvent q'.content ∈ c'.env.tr.events) ∧
      c'.scripts = [] ∧
      ((((q :: qs).getLast (by simp)).p.flags.toNat % 2 = 1 ∧ fin = "STALL" ∧
          c'.phase = .parseReq ⟨alignedBufsize b, [], .header, mc⟩ .reading ∧ c'.env.tr.input = []) ∨
       (((q :: qs).getLast (by simp)).p.flags.toNat % 2 = 0 ∧ fin = "RET" ∧ c'.phase = .finished)) := by
  obtain ⟨c', fin, A, h1, h2, h3, h4⟩ := k_requests_e2e q qs hok hkeep hin hben hem hev hfuel
  rw [answerAll_quiet mc _ A hquiet h2] at h3
  exact ⟨c', fin, h1, h3, h4⟩

/-! ## Non-vacuity: a concrete run

The preamble of `Props/C01.lean` (request 1, Responder, KEEP_CONN, one pair, two `GetValues` noise
records that are owed replies) followed by a Stdin stream `"ABC"` with a stale Stdin record of
request 2 in front; buffer size 64, `max_conns = 10`; the transport hands out 10, then nothing
(`Pending`), then 7 bytes, then whatever fits, …, accepts 5 bytes, then nothing, then everything, …;
the peer then stays silent.  The handler writes `"hi"` and returns `Complete(0)`.

(For this run the compiled model prints `fin=STALL`, the events `HS(1,1,41:62)` and `R=3:414243`, and
exactly the write log below: `#eval` of `runTask 20 (conn0 64 10 exT [104, 105] (.complete 0)) 0 none`.) -/
namespace Example
open Fcgi.C01.Example

def exS : List Rec :=
  [ { rtype := 5, id := 2, content := [9], pad := [] },              -- noise: Stdin of another request
    { rtype := 5, id := 1, content := [65, 66, 67], pad := [0] },
    { rtype := 5, id := 1, content := [], pad := [0, 0] } ]

def exT : Transport :=
  { input := serAll recs ++ serAll exS, endMode := .pend,
    rd := [.n 10, .pending, .n 7, .all, .n 3], wr := [.n 5, .pending, .all, .n 1], fl := [] }

theorem exS_ok : StreamRecs 1 5 [65, 66, 67] exS := by
  refine .noise _ ⟨⟨by decide, by decide, by decide⟩, by decide⟩ ?_
  exact .chunk [65, 66, 67] [0] 0 (by decide) (by decide) (.term [0, 0] 0 (by decide))

theorem exS_quiet (mc : Nat) : owedStream 1 5 mc exS = [] := by
  simp [owedStream, exS, owed, RT.valid, RT.getValues, RT.beginRequest]

/-- no management `GetValues` record among them -/
theorem exS_fits (M : Nat) : NoiseFits M exS := by
  intro r hr hg
  exfalso
  obtain ⟨h1, _⟩ := hg
  simp only [exS, List.mem_cons, List.not_mem_nil, or_false] at hr
  rcases hr with rfl | rfl | rfl <;> simp [RT.getValues] at h1

theorem exT_ben : Ben exT :=
  ⟨by decide, by decide, rfl, by decide⟩

/-- The theorem applied: the run ends `STALL` (parked for the next request on an empty buffer) after
one handler call for `{"A" ↦ "b"}` that read `"ABC"`, with exactly this write log. -/
example : ∃ c', runTask 20 (conn0 64 10 exT [104, 105] (.complete 0)) 0 none = (c', "STALL") ∧
    c'.env.tr.wlog = owedPreamble pre 10 recs ++
      [1, 6, 0, 1, 0, 2, 6, 0, 104, 105, 0, 0, 0, 0, 0, 0] ++
      [1, 6, 0, 1, 0, 0, 0, 0, 1, 7, 0, 1, 0, 0, 0, 0, 1, 3, 0, 1, 0, 8, 0, 0, 0, 0, 0, 0, 0, 0, 0, 0] ∧
    c'.phase = .parseReq ⟨64, [], .header, 10⟩ .reading ∧ c'.env.tr.input = [] ∧
    hsCount c'.env.tr.events = 1 ∧
    startEvent { id := 1, role := 1, flags := 1, env := [([65], [98])] } ∈ c'.env.tr.events ∧
    readEvent [65, 66, 67] ∈ c'.env.tr.events := by
  obtain ⟨c', fin, hrun, ho⟩ := single_request_e2e_partial (p := pre) (recs := recs) (content := [65, 66, 67])
    (srecs := exS) (b := 64) (mc := 10) (data := [104, 105]) (st := .complete 0) (t := exT) (fuel := 20)
    recs_wf rfl (pre_pairs_fit 64) (noise_fits 64) exS_ok (exS_fits _) (exS_quiet 10) rfl exT_ben rfl (by decide)
    (by decide +kernel) (by decide)
  have hreq : pre.request = { id := 1, role := 1, flags := 1, env := [([65], [98])] } := by decide +kernel
  rcases ho.final with ⟨h, _⟩ | ⟨_, h, _⟩ | ⟨_, _, hfin, hph, hin⟩
  · exact absurd h (by decide)
  · exact absurd h (by decide)
  · subst hfin
    refine ⟨c', hrun, ?_, hph, hin, ho.one_handler.1, by rw [← hreq]; exact ho.one_handler.2, ho.read_content⟩
    rw [ho.log]
    show [] ++ (owedPreamble pre 10 recs ++ streamRecords 6 1 [104, 105] ++ epilogue 1 (.complete 0)) = _
    rw [List.nil_append]
    congr 1

/-- two requests on the connection: the one above, then one with an empty Stdin, no output and exit
status 7 (both KEEP_CONN) -/
def q1 : Sent :=
  ⟨pre, recs, [65, 66, 67],
    [ { rtype := 5, id := 2, content := [9], pad := [] }, { rtype := 5, id := 1, content := [65, 66, 67], pad := [0] } ],
    [0, 0], 0, [104, 105], .complete 0⟩
def q2 : Sent := ⟨pre, recs, [], [], [], 0, [], .complete 7⟩

def exT2 : Transport :=
  { input := q1.wire, endMode := .pend,
    rd := [.n 10, .pending, .n 7, .all, .n 3], wr := [.n 5, .pending, .all, .n 1], fl := [] }

theorem q1_ok : q1.OK 64 10 :=
  ⟨recs_wf, rfl, pre_pairs_fit 64, noise_fits 64, exS_ok, exS_fits _, by decide +kernel, by decide⟩

theorem q2_ok : q2.OK 64 10 :=
  ⟨recs_wf, rfl, pre_pairs_fit 64, noise_fits 64, .term [] 0 (by decide),
    (by intro r hr hg
        exfalso
        obtain ⟨h1, _⟩ := hg
        simp only [Sent.srecs, q2, List.nil_append, List.mem_singleton] at hr
        subst hr
        simp [RT.getValues] at h1),
    by decide +kernel, by decide⟩

/-- `k_requests_e2e_partial` applied: both requests are served, the log is the two answers in order,
and the task ends parked for a third request.  (The compiled model prints `fin=STALL` and the events
`HS(1,1,41:62)`, `R=3:414243`, …, `HS(1,1,41:62)`, `R=0:-` for this run.) -/
example : ∃ c', closedLoop 20 [q2.wire] (connK 64 10 exT2 [q1, q2]) 0 = (c', "STALL") ∧
    c'.env.tr.wlog = expectedAll 10 [q1, q2] ∧ hsCount c'.env.tr.events = 2 ∧
    readEvent [65, 66, 67] ∈ c'.env.tr.events ∧ readEvent [] ∈ c'.env.tr.events ∧
    c'.phase = .parseReq ⟨64, [], .header, 10⟩ .reading := by
  obtain ⟨c', fin, hrun, hlog, hhs, hall, _, hfin⟩ := k_requests_e2e_partial (b := 64) (mc := 10) q1 [q2]
    (t := exT2) (fuel := 20)
    (fun q' hq' => by
      rcases List.mem_cons.1 hq' with rfl | hq'
      · exact q1_ok
      · rw [List.mem_singleton.1 hq']; exact q2_ok)
    (fun q' hq' => by
      rcases List.mem_cons.1 hq' with rfl | hq'
      · exact exS_quiet 10
      · rw [List.mem_singleton.1 hq']
        simp [owedStream, Sent.srecs, q2])
    (fun q' hq' => by
      have : q' = q1 := by simpa [List.dropLast] using hq'
      rw [this]; decide)
    rfl ⟨by decide, by decide, rfl, by decide⟩ rfl rfl (by decide)
  rcases hfin with ⟨_, rfl, hph, _⟩ | ⟨h, _⟩
  · exact ⟨c', hrun, hlog.trans (List.nil_append _), hhs, (hall q1 (by simp)).2, (hall q2 (by simp)).2, hph⟩
  · exact absurd h (by decide)

end Example

end Fcgi.C07E
