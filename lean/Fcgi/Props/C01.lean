import Fcgi.Proofs.ReqRecords
/-!
# C01 — request preamble decoding is exact (one-shot form)

For every well-formed preamble (`Spec.WellFormedPreamble`: idle noise, BeginRequest, the encoded
pairs cut *anywhere* into Params records with any padding / reserved bytes and any Params-phase
noise in between, the closing empty Params record) followed by arbitrary `extra` bytes, driving
the parser over the whole byte string

* ends in `done` holding exactly the id / role / flags sent and the last-value-wins environment
  `envExtend [] p.pairs` (`Spec.Preamble.request`),
* leaves exactly `extra` unread,
* emits exactly the replies the specification owes (`Spec.owedPreamble`), in order,
* hits no panic site.

`C01_full` (arbitrary chunking through `Parser.parse`) is kept as a `def … : Prop`; it follows from
`C01_oneshot` + the split lemma (`Proofs/ReqSplit.lean`) + buffer sufficiency.
-/
namespace Fcgi.C01
open Fcgi Fcgi.Req Fcgi.Spec

/-- The replies owed for the records after the BeginRequest (the inner clause of
`Spec.owedPreamble`). -/
def paramsOwed (id mc : Nat) (rs : List Rec) : Bytes :=
  rs.flatMap (fun x => if x.rtype.toNat == RT.params && x.id == id then [] else owed (some id) mc x)

theorem paramsOwed_cons (id mc : Nat) (r : Rec) (rs : List Rec) :
    paramsOwed id mc (r :: rs) =
      (if r.rtype.toNat == RT.params && r.id == id then [] else owed (some id) mc r) ++
        paramsOwed id mc rs := by
  simp [paramsOwed]

theorem ser_ne_nil (r : Rec) : r.ser ≠ [] := by
  intro h
  have := congrArg List.length h
  rw [ser_length] at this
  simp at this

theorem paramsRecs_ser_ne {id : Nat} {payload : Bytes} {rs : List Rec}
    (h : ParamsRecs id payload rs) : serAll rs ≠ [] := by
  cases h <;> (rw [serAll_cons]; intro hx; exact ser_ne_nil _ (List.append_eq_nil_iff.mp hx).1)

theorem preamble_ser_ne {p : Preamble} {rs : List Rec} (h : WellFormedPreamble p rs) :
    serAll rs ≠ [] := by
  cases h <;> (rw [serAll_cons]; intro hx; exact ser_ne_nil _ (List.append_eq_nil_iff.mp hx).1)

/-- An idle-noise record never opens the request in `Spec.owedPreamble`. -/
theorem owedPreamble_noise (p : Preamble) (mc : Nat) {r : Rec} (hn : IdleNoise r) (rs : List Rec) :
    owedPreamble p mc (r :: rs) = owed none mc r ++ owedPreamble p mc rs := by
  rw [owedPreamble, if_neg]
  intro h
  simp only [Bool.and_eq_true, beq_iff_eq] at h
  obtain ⟨r0, r1, f, a, b, c, d, e, hc, hrole⟩ := hn.2 h.1.1.1
  rw [hc] at h
  simp [hrole] at h

/-- The Params phase, by induction over the grammar: from a state that has consumed the payload
bytes `C` so far, the remaining records take the parser to `done` with the invariant for
`C ++ payload`, the owed replies, and `extra` left over. -/
theorem params_oneshot {id : Nat} {payload : Bytes} {rs : List Rec} (h : ParamsRecs id payload rs)
    (hid : id < 65536) (extra : Bytes) (mc : Nat) :
    ∀ (i : Inner) (C : Bytes), i.req.id = id → ParamsInv [] C i →
      ∃ i', SameReqHead i i' ∧ ParamsInv [] (C ++ payload) i' ∧
        run (.params i 0 0) (serAll rs ++ extra) mc =
          ⟨extra, .done i'.req, paramsOwed id mc rs, none⟩ := by
  induction h with
  | done pad res hp =>
    intro i C hi hinv
    subst hi
    refine ⟨i, SameReqHead.refl i, by simpa using hinv, ?_⟩
    rw [serAll_cons, serAll_nil, List.append_nil,
      params_done i hinv.next_buffer pad res extra mc hp hid]
    simp [paramsOwed, RT.params]
  | @noise payload rs r hn t ih =>
    intro i C hi hinv
    subst hi
    obtain ⟨i', hs, hinv', hrun⟩ := ih i C rfl hinv
    refine ⟨i', hs, hinv', ?_⟩
    have hne : serAll rs ++ extra ≠ [] := by
      intro hx; exact paramsRecs_ser_ne t (List.append_eq_nil_iff.mp hx).1
    rw [serAll_cons, List.append_assoc,
      params_noise i hinv.next_buffer r hn (serAll rs ++ extra) mc (Or.inl hne), hrun,
      paramsOwed_cons]
    have hcond : (r.rtype.toNat == RT.params && r.id == i.req.id) = false := by
      cases hc : (r.rtype.toNat == RT.params && r.id == i.req.id) with
      | false => rfl
      | true =>
        simp only [Bool.and_eq_true, beq_iff_eq] at hc
        exact absurd ⟨hc.2, Or.inl hc.1⟩ hn.2
    simp [hcond]
  | @chunk payload rs c pad res hc hp t ih =>
    intro i C hi hinv
    subst hi
    obtain ⟨i1, k, hps⟩ := parseStream_ok_inv [] C i c true hinv
    obtain ⟨hk, hok1, hrun1⟩ :=
      params_chunk i i1 hinv.next_buffer c pad res k (serAll rs ++ extra) mc hc hp hid hps
    obtain ⟨_, hinv1, hs1, _, _⟩ := parseStream_spec [] C i i1 c true k hinv hps
    rw [hk, List.take_length] at hinv1
    obtain ⟨i', hs', hinv', hrun⟩ := ih i1 (C ++ c) hs1.1 hinv1
    refine ⟨i', hs1.trans hs', by simpa [List.append_assoc] using hinv', ?_⟩
    rw [serAll_cons, List.append_assoc, hrun1, hrun, paramsOwed_cons]
    simp [RT.params]

/-- **C01, one-shot form.** -/
theorem C01_oneshot {p : Preamble} {recs : List Rec} (h : WellFormedPreamble p recs)
    (extra : Bytes) (mc : Nat) :
    run .header (serAll recs ++ extra) mc =
      ⟨extra, .done p.request, owedPreamble p mc recs, none⟩ := by
  induction h with
  | @noise rs r hn t ih =>
    have hne : serAll rs ++ extra ≠ [] := by
      intro hx; exact preamble_ser_ne t (List.append_eq_nil_iff.mp hx).1
    rw [serAll_cons, List.append_assoc, header_noise r hn (serAll rs ++ extra) mc (Or.inl hne), ih]
    rw [owedPreamble_noise p mc hn rs]
    simp
  | @begin rs pad res body5 hb hp hid hrole hl t =>
    have hrole' : 1 ≤ p.role ∧ p.role ≤ 3 := by simpa [roleValid] using hrole
    rw [serAll_cons, List.append_assoc,
      header_begin p.id p.role p.flags body5 pad res (serAll rs ++ extra) mc hid hrole hb hp]
    obtain ⟨i', hs, hinv, hrun⟩ := params_oneshot t hid.2 extra mc
      { req := Request.new p.id { role := p.role, flags := p.flags }, buffer := [] } [] rfl
      (paramsInv_init [] _ rfl rfl)
    rw [hrun]
    have hreq : i'.req = p.request := by
      obtain ⟨h1, h2, h3⟩ := hs
      obtain ⟨he, _⟩ := hinv
      rw [List.nil_append, C16.roundtrip_nil p.pairs hl] at he
      obtain ⟨⟨id', role', flags', env'⟩, buf'⟩ := i'
      simp only [Request.new] at h1 h2 h3 he
      subst h1 h2 h3 he
      rfl
    have hbe : be16 (UInt8.ofNat (p.role / 256)) (UInt8.ofNat p.role) = p.role :=
      be16_toBe16 (by omega)
    rw [hreq]
    simp [owedPreamble, RT.beginRequest, toBe16, hb, hbe, hrole, paramsOwed]

/-- **C01 at the `Parser` API.**  One `parse` call on a fresh parser whose buffer holds the whole
preamble and `extra`: the call reports `done`, its output is exactly the owed replies, and
`into_request` returns exactly the request sent together with exactly the unread `extra`. -/
theorem C01_parser_oneshot {p : Preamble} {recs : List Rec} (h : WellFormedPreamble p recs)
    (extra : Bytes) (b mc : Nat) (hlen : (serAll recs ++ extra).length ≤ alignedBufsize b) :
    ((Parser.new b mc).parse (serAll recs ++ extra)).2 =
        some { done := true, output := owedPreamble p mc recs } ∧
    ((Parser.new b mc).parse (serAll recs ++ extra)).1.intoRequest = .ok (p.request, extra) := by
  have hfree : (serAll recs ++ extra).length ≤ (Parser.new b mc).free := by
    simpa [Parser.free, Parser.new] using hlen
  rw [parse_eq (new_inv b mc) hfree]
  have hrun : run (Parser.new b mc).state ((Parser.new b mc).input ++ (serAll recs ++ extra))
      (Parser.new b mc).maxConns = ⟨extra, .done p.request, owedPreamble p mc recs, none⟩ := by
    simpa [Parser.new] using C01_oneshot h extra mc
  rw [hrun]
  simp [State.isFinal, Parser.intoRequest]

/-- Corollaries spelled out: what the finished parser holds. -/
theorem C01_fields {p : Preamble} {recs : List Rec} (h : WellFormedPreamble p recs)
    (extra : Bytes) (mc : Nat) :
    ∃ req, (run .header (serAll recs ++ extra) mc).st = .done req ∧
      req.id = p.id ∧ req.role = p.role ∧ req.flags = p.flags ∧
      req.env = envExtend [] p.pairs ∧
      (run .header (serAll recs ++ extra) mc).rem = extra ∧
      (run .header (serAll recs ++ extra) mc).panic = none := by
  rw [C01_oneshot h extra mc]
  exact ⟨p.request, rfl, rfl, rfl, rfl, rfl, rfl, rfl⟩

/-! ## The chunked statement (not proved here) -/

/-- **C01, full form** (statement only).  The preamble and `extra` arrive in arbitrary non-empty
chunks through `Parser.parse` (`Spec.feed`: the caller respects the free buffer space and stops
once `done` is reported).  Buffer sufficiency: the parser leaves an incomplete name-value pair in
its input buffer until it is complete (or its record ends), so every pair of the request, and every
body of a management GetValues noise record (whose content is arbitrary bytes), must fit into the
buffer — otherwise the parser legitimately reports `StuckOnInput` (it does so when the unconsumed
remainder fills the buffer completely; the remainder is a *strict* prefix of a pair / of the body,
or fewer than 16 header bytes, hence `≤`).  What is left in the input buffer is the part of `extra`
that arrived in the chunk that completed the request. -/
def C01_full : Prop :=
  ∀ (p : Preamble) (recs : List Rec) (extra : Bytes) (chunks : List Bytes) (b mc : Nat),
    WellFormedPreamble p recs →
    (∀ q ∈ p.pairs, (NV.enc q).length ≤ alignedBufsize b) →
    (∀ r ∈ recs, r.rtype.toNat = RT.getValues → r.id = 0 → r.content.length ≤ alignedBufsize b) →
    chunks.flatten = serAll recs ++ extra →
    (∀ c ∈ chunks, c ≠ []) →
    ∀ p' out, Spec.feed (Parser.new b mc) chunks = some (p', out) →
      p'.state = .done p.request ∧ out = owedPreamble p mc recs ∧ ∃ k, p'.input = extra.take k

/-! ## Non-vacuity -/

namespace Example
/-- BeginRequest id 1, role 1 (Responder), flags 1 (KEEP_CONN), one pair `("a","b")`. -/
def pre : Preamble := { id := 1, role := 1, flags := 1, pairs := [([97], [98])] }

/-- `NV.enc ("a","b") = [1, 1, 97, 98]`, cut *inside the length prefix* into `[1]` and `[1,97,98]`. -/
def recs : List Rec :=
  [ { rtype := 9, id := 0, content := NV.enc (Vars.nameMaxConns, []), pad := [0, 0] },   -- idle noise
    { rtype := 1, id := 1, content := [0, 1, 1, 0, 0, 0, 0, 0], pad := [] },
    { rtype := 4, id := 1, content := [1], pad := [0, 0, 0], reserved := 7 },
    { rtype := 9, id := 0, content := NV.enc (Vars.nameMpxsConns, []), pad := [] },      -- Params noise
    { rtype := 4, id := 1, content := [1, 97, 98], pad := [] },
    { rtype := 4, id := 1, content := [], pad := [0] } ]

theorem recs_wf : WellFormedPreamble pre recs := by
  refine .noise _ ⟨⟨by decide, by decide +kernel, by decide⟩, fun h => by cases h⟩ ?_
  refine .begin [] 0 [0, 0, 0, 0, 0] rfl (by decide) (by decide) (by decide) ?_ ?_
  · intro q hq
    simp only [pre, List.mem_singleton] at hq
    subst hq
    decide
  · show ParamsRecs 1 ([1] ++ ([1, 97, 98] ++ [])) _
    refine .chunk [1] [0, 0, 0] 7 (by decide) (by decide) ?_
    refine .noise _ ⟨⟨by decide, by decide +kernel, by decide⟩, fun h => by simp at h⟩ ?_
    refine .chunk [1, 97, 98] [] 0 (by decide) (by decide) ?_
    exact .done [0] 0 (by decide)

/-- The theorem applied: whatever follows, the parser ends with `{"A" ↦ "b"}` for request 1. -/
example (extra : Bytes) (mc : Nat) :
    run .header (serAll recs ++ extra) mc =
      ⟨extra, .done { id := 1, role := 1, flags := 1, env := [([65], [98])] },
        owedPreamble pre mc recs, none⟩ := by
  rw [C01_oneshot recs_wf extra mc]
  have : pre.request = { id := 1, role := 1, flags := 1, env := [([65], [98])] } := by
    decide +kernel
  rw [this]

end Example

end Fcgi.C01
