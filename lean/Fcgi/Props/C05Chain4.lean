import Fcgi.Proofs.ChainFilter2
import Fcgi.Props.C05Chain3
/-!
# C05 at the sync level, part 4 — the reply ledger of a whole Filter turn

`filter_turn_replies`: a Filter's stream parser as created at the hand-off (`Front`), under a history
`A ++ set_stream(Some(Data)) ++ B ++ set_stream(None) ++ N`: `A` any reads of `Stdin` (any
destination, none at all, stopping anywhere), the switch to `Data` at ANY point (mid-record, before
`Stdin` was read or even given to its end), `B` any reads of `Data`, `N` any legal skip, hand-over at
a record boundary.  The replies generated over the whole turn are exactly those owed for the record
prefix passed — all Stdin records `b5` (read or passed over alike: `owedStream id 5 mc b5`), the Stdin
terminator `t5`, the Data records `d` consumed (`owedI`) — and the hand-over holds the record suffix
`u'`.  Engine: `C03SS.two_phase_ledger` → `refWire_stream_any` → `E2E.refWire8_stdin` → `r2f_of_ledger`
(two views, `Proofs/E2EFilterRef`) → `r2f_ops_any`.

Forced (as in the async `r2f_of_switch`): when the stream is dropped, all Stdin records have been
given to the parser (`hG`) and it stands inside the Data records (`hpos`).  STILL OPEN: a
`set_stream(None)` issued while the parser is still inside / in front of the Stdin records — there
one `parse` call of the skip crosses from the Stdin records (where only the `⟨id,3,8⟩` view follows
the ignoring parser) into the Data records (where only the `⟨id,1,5⟩` view does); the per-call
simulations `E2E.parse_ign` / `parse_ign1` cannot be sequenced inside one call.
-/
namespace Fcgi.C05C
open Fcgi Fcgi.Req Fcgi.Str Fcgi.Spec

/-- **The reply ledger of a Filter turn.** -/
theorem filter_turn_replies {cap mc : Nat} {q : Spec1} {later : List Rec} {t : Turn} {o : Obs} (hq : q.OK)
    (hrole : q.p.role = 3) (hf : Front cap mc q later t o) (h8 : 8 ≤ cap)
    {c5 : Bytes} {b5 Rd : List Rec} {t5 : Rec} (hsplit : q.srecs = b5 ++ t5 :: Rd)
    (hb5 : Body q.p.id 5 c5 b5) (ht5 : IsTerm q.p.id 5 t5) (hrd : ∀ r ∈ Rd, E2E.DataRec q.p.id r)
    (hfit : NoiseFits cap Rd) {A B N : List Op}
    (hops : t.ops = (A ++ [Op.setStream (some 8)] ++ B) ++ Op.setStream none :: N)
    (hA : Str.NoSwitch ⟨q.p.id, 3, 5, mc⟩ A) (hB : Str.NoSwitch ⟨q.p.id, 3, 8, mc⟩ B)
    {Gd fut : Bytes} (hwire : o.sp.raw ++ fedBytes t.ops ++ fut = serAll q.srecs)
    (hG : o.sp.raw ++ (fedBytes A ++ fedBytes B) = serAll (b5 ++ [t5]) ++ Gd)
    (hpos : E2E.Pos Rd (applyOps o.sp (A ++ [Op.setStream (some 8)] ++ B)).raw
      (applyOps o.sp (A ++ [Op.setStream (some 8)] ++ B)).pay
      (applyOps o.sp (A ++ [Op.setStream (some 8)] ++ B)).pad (fedBytes N ++ fut))
    (hb : o.spEnd.isRecordBoundary = true) :
    ∃ d u', Rd = d ++ u' ∧
      C03S.grownAll o.sp t.ops =
        owedStream q.p.id 5 mc b5 ++ E2E.owedI q.p.id mc [t5] ++ E2E.owedI q.p.id mc d ∧
      o.spEnd.raw ++ fut = serAll u' := by
  obtain ⟨h0, -, hl, -⟩ := front_start hq (Or.inr hrole) hf
  obtain ⟨hsp, -, hend, -, -⟩ := hf
  rw [hrole] at h0
  rw [hops] at hl
  obtain ⟨hlX, -⟩ := C02.LegalAll_append.1 hl
  have h2 : C03SS.TwoPhase ⟨q.p.id, 3, 5, mc⟩ o.sp A 8 B := ⟨hlX, hA, (show Later 3 (some 5) 8 by decide), hB⟩
  have hw : Gd ++ (fedBytes N ++ fut) = serAll Rd := by
    have h1 : serAll (b5 ++ [t5]) ++ (Gd ++ (fedBytes N ++ fut)) = serAll (b5 ++ [t5]) ++ serAll Rd := by
      rw [← E2E.serAll_app, ← List.append_assoc, ← hG, show b5 ++ [t5] ++ Rd = b5 ++ t5 :: Rd by simp, ← hsplit,
        ← hwire, hops]
      simp [C02.fedBytes_append, fedBytes, List.append_assoc]
    exact List.append_cancel_left h1
  rw [hend, hops] at hb ⊢
  exact filter_turn_ledger hb5 ht5 ⟨hrd, wf_id_lt hq.1, hfit, h8⟩ h0 (by rw [hsp]; rfl) h2 hl hG hw hpos hb

namespace Example4
open Fcgi.C05.Examples Fcgi.C05C.Example Fcgi.C05C.Example3

/-- Filter request 1 -/
def pF3 : Preamble := { id := 1, role := 3, flags := 0, pairs := [] }
def beginF : Rec :=
  { rtype := 1, id := 1, content := toBe16 3 ++ [0] ++ [0, 0, 0, 0, 0], pad := [], reserved := 0 }
theorem wfF : WellFormedPreamble pF3 [beginF, exEndParams] :=
  .begin [] 0 [0, 0, 0, 0, 0] rfl (by decide) (by decide) (by decide) (fun q hq => by cases hq) (.done [] 0 (by decide))

/-- Stdin "hi" + end of Stdin, then Data "xy", a `GetValues` record, end of Data -/
def qF : Spec1 := ⟨pF3, [beginF, exEndParams], [exStdin, exStdinEnd, dataXY, gv, dataEnd]⟩

theorem qF_ok : qF.OK := by
  refine ⟨wfF, fun r hr => ?_⟩
  simp only [qF, List.mem_cons, List.not_mem_nil, or_false] at hr
  rcases hr with rfl | rfl | rfl | rfl | rfl
  · exact idle_stdin.1
  · exact idle_stdin.2
  · exact ⟨⟨by decide, by decide, by decide⟩, fun h => absurd h (by decide)⟩
  · exact ⟨gv_wf, fun h => absurd h (by decide)⟩
  · exact ⟨⟨by decide, by decide, by decide⟩, fun h => absurd h (by decide)⟩

/-- everything buffered at the hand-off; the caller reads one byte of `Stdin`, switches to `Data` in
the middle of that record, reads one byte of `Data`, drops the stream and skips -/
def spF : Str.Parser := Str.Parser.fromParser 256 pF3.request (serAll qF.srecs) 3
def opsT : List Op :=
  ([.parse [] (some 1)] ++ [.setStream (some 8)] ++ [.parse [] (some 1)]) ++
    Op.setStream none :: [.parse [] (some 7), .consumeOutput 64]
def tF : Turn := ⟨[], opsT⟩
def oF : Obs := ⟨pF3.request, [], spF, applyOps spF opsT⟩

theorem exT : ∃ d u', rdF = d ++ u' ∧
    C03S.grownAll spF opsT = owedStream 1 5 3 [exStdin] ++ E2E.owedI 1 3 [exStdinEnd] ++ E2E.owedI 1 3 d ∧
    (applyOps spF opsT).raw ++ [] = serAll u' :=
  filter_turn_replies (cap := 256) (mc := 3) (q := qF) (later := []) (t := tF) (o := oF) qF_ok rfl
    ⟨rfl, by decide +kernel, rfl, by decide +kernel, ⟨[], by decide +kernel⟩⟩ (by decide)
    (c5 := [104, 105]) (b5 := [exStdin]) (Rd := rdF) (t5 := exStdinEnd) rfl
    (Body.chunk [104, 105] [0, 0, 0, 0, 0, 0] 0 (by decide) (by decide) .nil)
    ⟨⟨by decide, by decide, by decide⟩, rfl, rfl, rfl⟩
    (fun r hr => by
      simp only [rdF, List.mem_cons, List.not_mem_nil, or_false] at hr
      rcases hr with rfl | rfl | rfl
      · exact ⟨⟨by decide, by decide, by decide⟩, Or.inr ⟨rfl, rfl⟩⟩
      · exact ⟨gv_wf, Or.inl ⟨gv_wf, by decide⟩⟩
      · exact ⟨⟨by decide, by decide, by decide⟩, Or.inr ⟨rfl, rfl⟩⟩)
    (noiseFits_of_content (fun r hr _ _ => by
      simp only [rdF, List.mem_cons, List.not_mem_nil, or_false] at hr
      rcases hr with rfl | rfl | rfl <;> decide +kernel))
    (A := [.parse [] (some 1)]) (B := [.parse [] (some 1)]) (N := [.parse [] (some 7), .consumeOutput 64]) rfl
    (fun st h => by simp at h) (fun st h => by simp at h) (Gd := serAll rdF) (fut := [])
    (by decide +kernel) (by decide +kernel)
    ⟨[121], [], [gv, dataEnd], by decide +kernel, by decide +kernel, by decide +kernel, ⟨[dataXY], rfl⟩⟩
    (by decide +kernel)

/-- one byte of each stream was delivered; the one reply is the `GetValuesResult` -/
example : deliveredOps spF opsT = [104, 120] ∧ C03S.grownAll spF opsT = Vars.responseRecord 1 3 := by
  decide +kernel

end Example4

end Fcgi.C05C
