import Fcgi.Proofs.E2EScriptSwap
import Fcgi.Props.C12Chain3
/-!
# C12 — a failing write in the last request of a chain, fault in the script from the start: ANY own index (also the first)

`Props/C12Chain3.write_error_in_last_request_e2e_whole` needs `hrem`: the benign prefix, run on the script TRUNCATED in
front of the failing answer, must leave an answer — so the failing answer cannot be the very first answer of the last
request's own output.  `Proofs/E2EScriptSwap` removes that: **a run that ends with at least `k ≥ 1` write answers left
is the same run when those last `k` answers are REPLACED by anything** (`E2E.runTask_sw`, `E2E.closedLoop_sw`; in
particular truncated: the converse of `Proofs/E2EScriptIndep`).  The reference is now a benign script with SPARE answers.

`write_error_in_last_request_e2e_whole0`: `tB` benign (`Ben tB`), the chain prefix `x :: xs` on `tB` consumes `n` write
answers and leaves at least one (`hrem`: the benign script is longer than what the first `k` requests need — e.g. pad
it).  Then for EVERY own index `i ≥ 0` and every `bad ∈ {.err, .zero}`, `post`: the WHOLE closed-loop run (`k` requests,
then `y`) on `{ tB with wr := tB.wr.take (n + i) ++ bad :: post }` — the failing answer at absolute position `n + i` of
the script from the start, `i = 0` included — ends as in `Props/C12Chain2/3`: never reached (`STALL`, all answered,
`bad :: post` still in the script) or consumed (`RET`, `finished`, the log = the `k` segments ++ a byte prefix of the
answer to `y`, the failing call the last transport write, `k` or `k + 1` handler starts, the error of `bad`).
Write side only (the read scripts agree in all runs compared).
-/
namespace Fcgi.C12E
open Fcgi Fcgi.Req Fcgi.Str Fcgi.Async Fcgi.Run Fcgi.Spec Fcgi.E2E Fcgi.C07E Fcgi.C07U Fcgi.C12Inv Fcgi.Indep3 Fcgi.EofErr

theorem feed_swp (c : Conn) (w : Bytes) (s : List WrAns) :
    E2E.feed (swpC c.env.tr.wr.length s c) w = feedW c w s := by
  obtain ⟨phase, env, scripts, stop⟩ := c
  obtain ⟨tr, mutex, segs⟩ := env
  obtain ⟨input, endMode, rd, wr, fl, wlog, events, hold, woken, readWaker, abortKind⟩ := tr
  simp [E2E.feed, swpC, swpE, swp, feedW]

/-- **C12 end to end: the `i`-th own write answer of the last request of a chain fails, `i ≥ 0`, the fault in the script
from the start.** -/
theorem write_error_in_last_request_e2e_whole0 {b mc : Nat} (x : UReq) (xs : List UReq) (y : UReq) {tB : Transport}
    {fuel : Nat}
    (hok : ∀ z ∈ x :: xs, z.OKu b) (hoky : y.OKu b) (hleft : ((x :: xs).getLast (by simp)).left = [])
    (hin : tB.input = x.wire) (hben : Ben tB) (hem : tB.endMode = .pend) (hev : hsCount tB.events = 0)
    (hfuel : tB.rd.length + tB.wr.length + 1 ≤ fuel) :
    ∃ c₁ A n,
      -- the benign prefix: `n` write answers consumed
      closedLoop fuel (xs.map UReq.wire) (connS b mc tB ((x :: xs).map UReq.handler ++ [y.handler])) 0 = (c₁, "STALL") ∧
      SegsAll mc (x :: xs) A ∧ c₁.env.tr.wr = tB.wr.drop n ∧ n + c₁.env.tr.wr.length = tB.wr.length ∧
      -- if the benign script has spare answers: the fault at absolute position `n + i`, ANY `i`
      (c₁.env.tr.wr ≠ [] → ∀ (i : Nat) (bad : WrAns) (post : List WrAns), (bad = .err ∨ bad = .zero) →
        ∃ c' fin Ay,
          closedLoop fuel (xs.map UReq.wire ++ [y.wire])
            (connS b mc { tB with wr := tB.wr.take (n + i) ++ bad :: post } ((x :: xs).map UReq.handler ++ [y.handler])) 0 =
            (c', fin) ∧
          y.Seg mc Ay ∧
          ((fin = "STALL" ∧ c'.env.tr.wlog = tB.wlog ++ A ++ Ay ∧ hsCount c'.env.tr.events = (x :: xs).length + 1 ∧
              ∃ rest, c'.env.tr.wr = rest ++ bad :: post) ∨
           (fin = "RET" ∧ c'.phase = .finished ∧
            (∃ w, c'.env.tr.wlog = tB.wlog ++ A ++ w ∧ w <+: Ay) ∧
            (x :: xs).length ≤ hsCount c'.env.tr.events ∧ hsCount c'.env.tr.events ≤ (x :: xs).length + 1 ∧
            (∃ e inH, WrErrOf bad e ∧ (inH = true → ∃ evs, c'.env.tr.events = evs ++ [handlerErrEv e])) ∧
            (∃ t0 t1 t2, Clean t0 t1 ∧ FailCall t1 t2 ∧ WSame t2 c'.env.tr ∧ c'.env.tr.wlog = t1.wlog)))) := by
  obtain ⟨c₁, A, hrun, hseg, hw, ⟨n, hn1, hn2⟩, _, _⟩ :=
    chain_prefix_s (mc := mc) x xs [y.handler] hok hleft hin hben hem hev hfuel
  refine ⟨c₁, A, n, hrun, hseg, hn1, hn2, fun hrem i bad post hbad => ?_⟩
  have hk1 : 1 ≤ c₁.env.tr.wr.length := List.length_pos_iff.2 hrem
  -- the prefix on the faulty script = the benign prefix with its unconsumed answers replaced
  have hsw := closedLoop_sw c₁.env.tr.wr.length hk1 ((tB.wr.drop n).take i ++ bad :: post) fuel (xs.map UReq.wire)
    (connS b mc tB ((x :: xs).map UReq.handler ++ [y.handler])) 0 (by rw [hrun]; exact Nat.le_refl _)
  rw [hrun] at hsw
  simp only at hsw
  have hc : connS b mc { tB with wr := tB.wr.take (n + i) ++ bad :: post } ((x :: xs).map UReq.handler ++ [y.handler]) =
      swpC c₁.env.tr.wr.length ((tB.wr.drop n).take i ++ bad :: post)
        (connS b mc tB ((x :: xs).map UReq.handler ++ [y.handler])) := by
    have e1 : tB.wr.length - c₁.env.tr.wr.length = n := by omega
    have e2 : tB.wr.take (n + i) ++ bad :: post =
        tB.wr.take (tB.wr.length - c₁.env.tr.wr.length) ++ ((tB.wr.drop n).take i ++ bad :: post) := by
      rw [e1, ← List.append_assoc, ← List.take_add]
    simp only [connS, swpC, swpE, swp]
    rw [e2]
  -- the last leg
  have hsub : ∀ a ∈ (tB.wr.drop n).take i, a ≠ WrAns.err ∧ a ≠ WrAns.zero := fun a ha =>
    hw.ben.wr a (by rw [hn1]; exact List.mem_of_mem_take ha)
  have hans := hw.ans
  obtain ⟨c', fin, Ay, hleg, hsy, hcase⟩ := write_error_leg (mc := mc) y (fuel := fuel)
    (0 + 1000 * ((xs.map UReq.wire).length + 1)) ((tB.wr.drop n).take i) bad post hbad hoky hw hsub (by
      have h1 : ((tB.wr.drop n).take i).length ≤ c₁.env.tr.wr.length := by rw [hn1]; exact List.length_take_le' _ _
      unfold ans at hans
      omega)
  refine ⟨c', fin, Ay, ?_, hsy, ?_⟩
  · rw [closedLoop_snoc, hc, hsw]
    simp only [if_true]
    rw [feed_swp]
    exact hleg
  · have hlog : c₁.env.tr.wlog = tB.wlog ++ A := hw.log
    rcases hcase with ⟨h1, h2, h3, h4⟩ | ⟨h1, h2, h3, h4, h5, h6, t1, t2, h7⟩
    · exact Or.inl ⟨h1, h2, h3, h4⟩
    · exact Or.inr ⟨h1, h2, h3, h4, h5, h6, _, t1, t2, h7⟩


/-! ## Non-vacuity: `i = 0` — the very first write answer of the second request fails, fault in the script from the start -/
namespace ExampleChain4
open Fcgi.C01.Example Fcgi.C07E.Example ExampleChain ExampleChain2

/-- `q1` answered, then `q1` again, the benign reference `ExampleChain2.exT3` (14 write answers; replay: the first request consumes
10).  Whatever `n` the first request consumes: if it leaves an answer, the ONE closed-loop run on the script
`ExampleChain2.exT3.wr.take n ++ [.err]` — the error is the first answer the second request gets — ends parked or returned with at
most 2 handler starts -/
example : ∃ c₁ n, closedLoop 20 [] (connS 64 10 ExampleChain2.exT3
      ([UReq.full q1].map UReq.handler ++ [(UReq.full q1).handler])) 0 = (c₁, "STALL") ∧
    c₁.env.tr.wr = ExampleChain2.exT3.wr.drop n ∧
    (c₁.env.tr.wr ≠ [] →
      ∃ c' fin, closedLoop 20 [q1.wire] (connS 64 10 { ExampleChain2.exT3 with wr := ExampleChain2.exT3.wr.take (n + 0) ++ [.err] }
          ([UReq.full q1].map UReq.handler ++ [(UReq.full q1).handler])) 0 = (c', fin) ∧
        hsCount c'.env.tr.events ≤ 2 ∧ (fin = "STALL" ∨ (fin = "RET" ∧ c'.phase = .finished))) := by
  obtain ⟨c₁, A, n, h1, _, h3, _, hw⟩ :=
    write_error_in_last_request_e2e_whole0 (b := 64) (mc := 10) (.full q1) [] (.full q1) (tB := ExampleChain2.exT3) (fuel := 20)
      (fun y hy => by rw [List.mem_singleton.1 hy]; exact ⟨q1_oku _, by decide⟩) ⟨q1_oku _, by decide⟩
      (by rfl) (by rfl) ⟨by decide, by decide, rfl, by decide⟩ (by rfl) (by rfl) (by decide)
  refine ⟨c₁, n, h1, h3, fun hrem => ?_⟩
  obtain ⟨c', fin, Ay, hrun, _, hcase⟩ := hw hrem 0 .err [] (Or.inl rfl)
  refine ⟨c', fin, hrun, ?_, ?_⟩
  · rcases hcase with ⟨_, _, h, _⟩ | ⟨_, _, _, _, h, _⟩
    · rw [h]; decide
    · exact h
  · rcases hcase with ⟨h, _⟩ | ⟨h, hph, _⟩
    · exact Or.inl h
    · exact Or.inr ⟨h, hph⟩
end ExampleChain4

end Fcgi.C12E
