import Fcgi.Props.C06Suff
/-!
# C01 — request preamble decoding is exact, for every chunking (buffer-bounded form)

The preamble of `Props/C01.lean` (`Spec.WellFormedPreamble`) followed by arbitrary `extra` bytes
arrives in arbitrary non-empty chunks through `Parser::parse`, each chunk within the free space of
the input buffer at that moment (`C03.LegalFeed`; the caller stops once `done` is reported).
Provided the buffer is large enough (`C06Suff`), the parser

* finishes in `done` holding exactly the request sent (`Spec.Preamble.request`),
* has emitted exactly the replies owed (`Spec.owedPreamble`), in order,
* and the bytes it has not consumed — the leftover in its input buffer followed by the chunks never
  fed — are exactly `extra`.

`C01_chunked_tight` states this under the tight buffer condition (every pair *encodes* to at most
`aligned_bufsize` bytes; management `GetValues` bodies fit), `C01_chunked` under the documented one
(name + value + 13 ≤ `buffer_size`), and `C01_full_holds` proves the statement `C01.C01_full` left
open in `Props/C01.lean`, exactly as stated there.
-/
namespace Fcgi.C01
open Fcgi Fcgi.Req Fcgi.Spec Fcgi.C03 Fcgi.C06

/-- **C01, chunked, tight buffer condition.** -/
theorem C01_chunked_tight {p : Preamble} {recs : List Rec} (h : WellFormedPreamble p recs)
    (extra : Bytes) (b mc : Nat)
    (hpairs : ∀ q ∈ p.pairs, (NV.enc q).length ≤ alignedBufsize b)
    (hnoise : NoiseFits (alignedBufsize b) recs) {cs : List Bytes}
    (hl : LegalFeed (Parser.new b mc) cs) (hW : cs.flatten = serAll recs ++ extra) :
    (feedAll (Parser.new b mc) cs).1.state = .done p.request ∧
      (feedAll (Parser.new b mc) cs).2.1 = owedPreamble p mc recs ∧
      (feedAll (Parser.new b mc) cs).1.input ++ (feedAll (Parser.new b mc) cs).2.2.flatten = extra := by
  have hne : cs ≠ [] := by
    intro hx
    rw [hx] at hW
    exact preamble_ser_ne h (List.append_eq_nil_iff.mp hW.symm).1
  obtain ⟨fed, rest, hfr, _, hfeed, hrest⟩ :=
    feed_new_track h extra b mc hpairs hnoise hl (hW ▸ List.prefix_refl _) hne
  have hflat : fed.flatten ++ rest.flatten = serAll recs ++ extra := by
    rw [← hW, hfr, List.flatten_append]
  rcases run_wire_state h extra (F := fed.flatten) ⟨rest.flatten, hflat⟩ mc with
    ⟨e1, hF, _, hrun⟩ | ⟨t, ht, hFt, hnf⟩
  · rw [hfeed, hrun]
    refine ⟨rfl, rfl, ?_⟩
    rw [hF, List.append_assoc] at hflat
    exact List.append_cancel_left hflat
  · exfalso
    have hrne : rest ≠ [] := by
      intro hx
      rw [hx, List.flatten_nil, List.append_nil] at hflat
      have h1 := congrArg List.length hflat
      have h2 := congrArg List.length hFt
      have h3 : 0 < t.length := List.length_pos_iff.mpr ht
      simp only [List.length_append] at h1 h2
      omega
    rw [hrest hrne] at hnf
    cases hnf

/-- **C01, chunked** (the documented buffer bound).  For every well-formed preamble whose pairs
satisfy `name.len + value.len + 13 ≤ buffer_size` (and whose management `GetValues` noise is
small in the same sense), every legal feeding of the preamble followed by `extra`: the parser ends
holding exactly the request sent, has emitted exactly the owed replies, and the unread bytes
(leftover in the buffer ++ chunks never fed) are exactly `extra`. -/
theorem C01_chunked {p : Preamble} {recs : List Rec} (h : WellFormedPreamble p recs)
    (extra : Bytes) (b mc : Nat)
    (hpairs : ∀ q ∈ p.pairs, q.1.length + q.2.length + 13 ≤ b)
    (hnoise : NoiseSmall (b - 13) recs) {cs : List Bytes}
    (hl : LegalFeed (Parser.new b mc) cs) (hW : cs.flatten = serAll recs ++ extra) :
    (feedAll (Parser.new b mc) cs).1.state = .done p.request ∧
      (feedAll (Parser.new b mc) cs).2.1 = owedPreamble p mc recs ∧
      (feedAll (Parser.new b mc) cs).1.input ++ (feedAll (Parser.new b mc) cs).2.2.flatten = extra :=
  C01_chunked_tight h extra b mc (doc_bound_tight h b hpairs hnoise).1
    (doc_bound_tight h b hpairs hnoise).2 hl hW

/-- In terms of `into_request` (`C03.outcome`): the request sent with *all* bytes after the
preamble, and the owed output. -/
theorem C01_chunked_outcome {p : Preamble} {recs : List Rec} (h : WellFormedPreamble p recs)
    (extra : Bytes) (b mc : Nat)
    (hpairs : ∀ q ∈ p.pairs, (NV.enc q).length ≤ alignedBufsize b)
    (hnoise : NoiseFits (alignedBufsize b) recs) {cs : List Bytes}
    (hl : LegalFeed (Parser.new b mc) cs) (hW : cs.flatten = serAll recs ++ extra) :
    outcome (Parser.new b mc) cs = (.ok (p.request, extra), owedPreamble p mc recs) := by
  obtain ⟨h1, h2, h3⟩ := C01_chunked_tight h extra b mc hpairs hnoise hl hW
  simp only [outcome, settled, Parser.intoRequest, h1, h2, h3]

/-! ## `C01_full` as stated in `Props/C01.lean` -/

/-- `Spec.feed` (option-valued: `none` on an oversized chunk or a panic) succeeds only on legal
feedings and then agrees with `C03.feedAll`. -/
theorem specFeed_feedAll : ∀ (cs : List Bytes) (p p' : Parser) (out : Bytes), PInv p →
    (∀ c ∈ cs, c ≠ []) → Spec.feed p cs = some (p', out) →
    LegalFeed p cs ∧ (feedAll p cs).1 = p' ∧ (feedAll p cs).2.1 = out := by
  intro cs
  induction cs with
  | nil =>
    intro p p' out _ _ hf
    simp only [Spec.feed, Option.some.injEq, Prod.mk.injEq] at hf
    exact ⟨trivial, hf.1, hf.2⟩
  | cons c cs ih =>
    intro p p' out hp hne hf
    cases hfin : p.state.isFinal with
    | true =>
      simp only [Spec.feed, hfin, if_true, Option.some.injEq, Prod.mk.injEq] at hf
      rw [feedAll_final hfin]
      exact ⟨Or.inl hfin, hf.1, hf.2⟩
    | false =>
      simp only [Spec.feed, hfin, Bool.false_eq_true, if_false] at hf
      split at hf
      · cases hf
      · rename_i hlen
        have hcn : c.length ≤ p.free := by omega
        obtain ⟨y, hy, hp1⟩ := parse_total hp hcn
        have hpar : p.parse c = ((p.parse c).1, some y) := by rw [← hy]
        rw [hpar] at hf
        simp only [Option.map_eq_some_iff] at hf
        obtain ⟨⟨p2, o2⟩, hf2, heq⟩ := hf
        simp only [Prod.mk.injEq] at heq
        obtain ⟨hl2, e1, e2⟩ := ih _ p2 o2 hp1 (fun x hx => hne x (by simp [hx])) hf2
        rw [feedAll_cons cs hfin hpar]
        refine ⟨Or.inr ⟨hne c (by simp), hcn, hl2⟩, ?_, ?_⟩
        · simp only; rw [e1]; exact heq.1
        · simp only; rw [e2]; exact heq.2

/-- **`C01.C01_full` holds**, exactly as stated in `Props/C01.lean` (its side conditions — every
pair's encoding and every management `GetValues` body at most `aligned_bufsize` bytes — imply the
tight condition of `C01_chunked_tight`). -/
theorem C01_full_holds : C01_full := by
  intro p recs extra chunks b mc hwf hpairs hnoise hflat hne p' out hfeed
  obtain ⟨hl, e1, e2⟩ := specFeed_feedAll chunks _ p' out (Req.new_inv b mc) hne hfeed
  obtain ⟨h1, h2, h3⟩ :=
    C01_chunked_tight hwf extra b mc hpairs (noiseFits_of_content hnoise) hl hflat
  rw [e1] at h1 h3
  rw [e2] at h2
  refine ⟨h1, h2, p'.input.length, ?_⟩
  rw [← h3, List.take_left']
  rfl

/-! ## Non-vacuity: the concrete preamble of `Props/C01.lean` -/

namespace Example
open Fcgi.Req.Examples

theorem pre_pairs_fit (b : Nat) : ∀ q ∈ pre.pairs, (NV.enc q).length ≤ alignedBufsize b := by
  have h24 := alignedBufsize_ge b
  intro q hq
  rw [pre_pairs_enc q hq]; omega

theorem noise_fits (b : Nat) : NoiseFits (alignedBufsize b) recs := by
  have h24 := alignedBufsize_ge b
  exact recs_noise_fits (by omega)

/-- `C01_chunked_tight` applied: *whatever* the configured buffer size (even the minimal 24-byte
buffer, which is much shorter than the example preamble), whatever follows, and however the bytes
are cut into legal `parse` calls, the parser ends with `{"A" ↦ "b"}` for request 1, the two
`GetValuesResult` replies owed, and exactly `extra` unread. -/
example (extra : Bytes) (b mc : Nat) (cs : List Bytes) (hl : LegalFeed (Parser.new b mc) cs)
    (hW : cs.flatten = serAll recs ++ extra) :
    (feedAll (Parser.new b mc) cs).1.state =
        .done { id := 1, role := 1, flags := 1, env := [([65], [98])] } ∧
      (feedAll (Parser.new b mc) cs).2.1 = owedPreamble pre mc recs ∧
      (feedAll (Parser.new b mc) cs).1.input ++ (feedAll (Parser.new b mc) cs).2.2.flatten = extra := by
  have := C01_chunked_tight recs_wf extra b mc (pre_pairs_fit b) (noise_fits b) hl hW
  have hreq : pre.request = { id := 1, role := 1, flags := 1, env := [([65], [98])] } := by
    decide +kernel
  rwa [hreq] at this

/-- In particular the byte-by-byte feeding (always legal: `C03.legalFeed_singles`). -/
example (extra : Bytes) (b mc : Nat) :
    outcome (Parser.new b mc) (singles (serAll recs ++ extra)) =
      (.ok (pre.request, extra), owedPreamble pre mc recs) :=
  C01_chunked_outcome recs_wf extra b mc (pre_pairs_fit b) (noise_fits b)
    (legalFeed_singles _ _ (Req.new_inv b mc) (fun _ => by
      have := alignedBufsize_ge b
      simp only [Parser.new, List.length_nil]; omega))
    (flatten_singles _)

/-- `C01_chunked` (documented bound) applied with the default `buffer_size = 8192`. -/
example (extra : Bytes) (mc : Nat) (cs : List Bytes) (hl : LegalFeed (Parser.new 8192 mc) cs)
    (hW : cs.flatten = serAll recs ++ extra) :
    (feedAll (Parser.new 8192 mc) cs).1.state = .done pre.request := by
  refine (C01_chunked recs_wf extra 8192 mc ?_ (recs_noise_small (by omega)) hl hW).1
  intro q hq
  simp only [pre, List.mem_singleton] at hq
  subst hq; decide

/-- `C01_full_holds` applied to `Spec.feed`. -/
example (extra : Bytes) (chunks : List Bytes) (b mc : Nat) (hflat : chunks.flatten = serAll recs ++ extra)
    (hne : ∀ c ∈ chunks, c ≠ []) (p' : Parser) (out : Bytes)
    (hf : Spec.feed (Parser.new b mc) chunks = some (p', out)) :
    p'.state = .done pre.request ∧ out = owedPreamble pre mc recs ∧ ∃ k, p'.input = extra.take k := by
  have h24 := alignedBufsize_ge b
  exact C01_full_holds pre recs extra chunks b mc recs_wf (pre_pairs_fit b)
    (fun r hr _ _ => by have := recs_content_le r hr; omega) hflat hne p' out hf

end Example

end Fcgi.C01
