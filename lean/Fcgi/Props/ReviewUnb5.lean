import Fcgi.Props.ReviewUnb
import Fcgi.Props.C11Unread
/-!
# Review, round 5 (see `lean/UNBOUNDED_REVIEW.md`, section "Round 5")

Fresh instantiation (no `Headline*` import) on the connection of `ReviewUnb` (request id 7, KEEP_CONN, the noisy
8-record preamble, short reads and Pendings):
* `rv5_abort_unread` — `C11U.abort_unread_e2e`: the handler only writes "ok" and returns `complete 6`; behind the preamble
  come an own Stdin record "hel" (padding 5), a `GetValues(FCGI_MPXS_CONNS)` record (owes a reply — as IDLE reply, after
  the epilogue) and `AbortRequest(7)` with padding 2;
Driver lines: `/verif/.run/replay-review-unb5.ops`.
-/
namespace Fcgi.ReviewUnb5
open Fcgi Fcgi.Req Fcgi.Str Fcgi.Async Fcgi.Run Fcgi.Spec Fcgi.E2E Fcgi.C07E Fcgi.C07U Fcgi.ReviewUnb

def rvBody : List Rec :=
  [ { rtype := 5, id := 7, content := [104, 101, 108], pad := [0, 0, 0, 0, 0] },
    { rtype := 9, id := 0, content := NV.enc (Vars.nameMpxsConns, []), pad := [] } ]
def rvAbort : Rec := { rtype := 2, id := 7, content := [], pad := [0, 0] }

theorem rvBody_idle : ∀ r ∈ rvBody, IdleNoise r := by
  intro r hr
  simp only [rvBody, List.mem_cons, List.not_mem_nil, or_false] at hr
  rcases hr with rfl | rfl
  · exact ⟨⟨by decide, by decide, by decide⟩, fun h => absurd h (by decide)⟩
  · exact ⟨⟨by decide, by decide +kernel, by decide⟩, fun h => absurd h (by decide)⟩

theorem rvBody_fits : NoiseFits (alignedBufsize 64) rvBody := by
  refine noiseFits_of_content (fun r hr _ _ => ?_)
  simp only [rvBody, List.mem_cons, List.not_mem_nil, or_false] at hr
  rcases hr with rfl | rfl <;> decide +kernel

def rvTa : Transport := { rvT with input := serAll rvRecs ++ serAll (rvBody ++ [rvAbort]) }

open Fcgi.C11U in
theorem rv5_abort_unread : ∃ c' fin,
    runTask 20 (connS 64 10 rvTa [(writeOnly [111, 107] (.complete 6), true)]) 0 none = (c', fin) ∧
    UnreadOutcome rvPre (rvBody ++ [rvAbort]) 64 10
      (rvTa.wlog ++ (owedPreamble rvPre 10 rvRecs ++ streamRecords 6 7 [111, 107] ++ epilogue 7 (.complete 6) ++
        idleOwed 10 rvBody)) [] rvTa c' fin :=
  abort_unread_e2e (p := rvPre) (recs := rvRecs) (body := rvBody) (a := rvAbort) (b := 64) (mc := 10)
    (data := [111, 107]) (st := .complete 6) (hs := writeOnly [111, 107] (.complete 6)) (more := []) (t := rvTa)
    (fuel := 20) (Or.inr rfl) rvRecs_wf rfl rfl rvPairs_fit rvRecs_fits rvBody_idle rvBody_fits rfl rfl
    ⟨by decide, by decide, by decide⟩ rfl ⟨by decide, by decide, rfl, by decide⟩ rfl (by decide)

/-- the idle reply in that log is the one GetValuesResult -/
theorem rv5_idle : idleOwed 10 rvBody ≠ [] := by decide +kernel

end Fcgi.ReviewUnb5
