import Fcgi.Props.C09Gate2
/-!
# C09 — the output gate of a Filter: the statements WITHOUT an existential configuration

`Props/C09Gate.filter_gate_e2e` exports an existentially quantified `g : E2E.Cfg` of which only `p`, `R`, `R2`, `L0`
are pinned, while its conclusion (`E2E.GateAt g`: `G ++ input = g.X`, `wlog = g.L1 ++ O₁`, `O₁ <+: g.K8u.O`) talks about
fields that are not (review `UNBOUNDED_REVIEW.md`, R3-D1).  Here:

* `filter_gate_pinned`: the same theorem (same proof) that also exports `GOK g rest`, `g.recs`, `g.mc`, `g.b`, `g.hs0`,
  `g.more`; `gate_taken`: what `GateAt g` says for a configuration satisfying `GOK`;
* `filter_gate_free`: the statement with NO configuration at all — every conclusion is phrased in
  `p recs srecs drecs mc t rest more`:
  - `PreGate`: the state after a poll before the gate — no handler has started (the task is in `parse_request`), or
    the handler is suspended in `writeable()` with no writer, the request not writeable, and the log
    `t.wlog ++ owedPreamble p mc recs ++ O₁`, `O₁` a prefix of the replies owed for the stream noise;
  - `GatePollFree` / `GateNowFree` / `GateOpen`: in the next poll the handler passes `.writeable` and continues with
    `rest` from a state in which the request is writeable, the bytes `G` taken from the transport behind the preamble
    satisfy `G ++ input = serAll srecs ++ serAll drecs ∧ serAll srecs <+: G` (the COMPLETE Stdin stream, terminator
    included, has been delivered), and the log is `t.wlog ++ owedPreamble p mc recs ++ O₁`,
    `O₁ <+: owedStream id 5 mc srecs ++ owedStream id 8 mc drecs` — no handler byte.

`Props/C09Gate2.filter_gate_write_e2e` (the whole run for `rest = open 6; write_all data; drop; return`) has no such
issue: `GateWriteOutcome` mentions only `p recs srecs drecs d₁ s₂ O₁ O₂ data b mc st more t c' fin`.
-/
namespace Fcgi.C09G
open Fcgi Fcgi.Req Fcgi.Str Fcgi.Async Fcgi.Run Fcgi.Spec Fcgi.E2E Fcgi.C07E Fcgi.C07U

/-- `filter_gate_e2e` (same proof) exporting what `GateAt g` / `SGate g` refer to -/
theorem filter_gate_pinned {p : Preamble} {recs : List Rec} {content : Bytes} {srecs : List Rec}
    {content2 : Bytes} {drecs : List Rec}
    {b mc : Nat} {rest : List HOp} {more : List (List HOp × Bool)} {t : Transport}
    (hwf : WellFormedPreamble p recs) (hrole : p.role = 3)
    (hpairs : ∀ q ∈ p.pairs, (NV.enc q).length ≤ alignedBufsize b)
    (hnoise : NoiseFits (alignedBufsize b) recs)
    (hs : StreamRecs p.id 5 content srecs) (hsn : NoiseFits (alignedBufsize b) srecs)
    (hd : StreamRecs p.id 8 content2 drecs) (hdn : NoiseFits (alignedBufsize b) drecs)
    (hin : t.input = serAll recs ++ (serAll srecs ++ serAll drecs)) (hben : Ben t) (hev : hsCount t.events = 0) :
    ∃ (g : E2E.Cfg) (k : Nat), GOK g rest ∧ g.p = p ∧ g.recs = recs ∧ g.mc = mc ∧ g.b = b ∧
      g.R = srecs ∧ g.R2 = drecs ∧ g.L0 = t.wlog ∧ g.hs0 = 0 ∧ g.more = more ∧ k ≤ t.rd.length + t.wr.length ∧
      (∀ j, j ≤ k → ∃ cj, runTask j (connS b mc t ((.writeable :: rest, true) :: more)) 0 none = (cj, "FUEL") ∧
        SGate g rest cj) ∧
      ∃ ck, runTask k (connS b mc t ((.writeable :: rest, true) :: more)) 0 none = (ck, "FUEL") ∧
        GatePoll g rest (prePoll ck k none) := by
  obtain ⟨body, pad, res, hpad, hbody, hsrecs⟩ := StreamRecs.split hs
  obtain ⟨body2, pad2, res2, hpad2, hbody2, hdrecs⟩ := StreamRecs.split hd
  subst hsrecs hdrecs
  have fg := fgok_of (mc := mc) (st := .complete 0) t.wlog 0 more hwf hrole hpairs hnoise hs hsn hpad2 hbody2 hd hdn
  have ok : GOK (cfgG p recs content body pad res content2 body2 pad2 res2 b mc rest t.wlog 0 more) rest :=
    ⟨hwf, hrole, hpairs, hnoise, fg.str, fg.hf, fg.hb2, fg.str2, fg.hf2, fg.hp2, rfl, rfl, rfl⟩
  have hst : FStage (cfgG p recs content body pad res content2 body2 pad2 res2 b mc rest t.wlog 0 more)
      (connS b mc t ((.writeable :: rest, true) :: more)) :=
    .start (raw := []) rfl (by
      show [] ++ t.input = _
      rw [hin, C02.serAll_append, C02.serAll_single, C02.serAll_append, C02.serAll_single, List.append_assoc (serAll body)]
      rfl) (Nat.zero_le _) rfl hben rfl rfl rfl hev
  obtain ⟨k, hk, hall, ck, hrun, hgp⟩ := run_to_gate ok (ans t) (connS b mc t ((.writeable :: rest, true) :: more)) 0
    (Or.inl hst) rfl (Nat.le_refl _)
  refine ⟨_, k, ok, rfl, rfl, rfl, rfl, rfl, rfl, rfl, rfl, rfl, hk, fun j hj => ?_, ck, hrun,
    by rw [Nat.zero_add] at hgp; exact hgp⟩
  obtain ⟨cj, h1, h2, _⟩ := hall j hj
  exact ⟨cj, h1, h2⟩

/-- the replies the reference of the Data stream (entered behind Stdin) owes, in `owedStream` form -/
theorem k8u_O (g : E2E.Cfg) :
    g.K8u.O = owedStream g.p.id 5 g.mc g.R ++ owedStream g.p.id 8 g.mc g.R2 := by
  show owedI g.p.id g.mc g.R ++ owedStream g.p.id 8 g.mc g.body2 = _
  have ht : owedStream g.p.id 8 g.mc [g.term2] = [] := by
    show owedStream g.p.id 8 g.mc [{ rtype := 8, id := g.p.id, content := [], pad := g.pad2, reserved := g.res2 }] = []
    exact owedStream_term g.p.id 8 g.mc 8 rfl g.pad2 g.res2
  rw [owedI_eq_owedStream, Cfg.R2, owedStream_append, ht, List.append_nil]

/-- **What the gate state says once the configuration is pinned** -/
theorem gate_taken {g : E2E.Cfg} {rest : List HOp} (ok : GOK g rest) {r : AReq} {m : MutexSt} {t' : Transport}
    (h : GateAt g r m t') :
    r.writeable = true ∧
    (∃ G, G ++ t'.input = serAll g.R ++ serAll g.R2 ∧ serAll g.R <+: G) ∧
    ∃ O₁, t'.wlog = g.L0 ++ owedPreamble g.p g.mc g.recs ++ O₁ ∧
      O₁ <+: owedStream g.p.id 5 g.mc g.R ++ owedStream g.p.id 8 g.mc g.R2 := by
  obtain ⟨hw, ⟨G, hG, hp⟩, _, O1, hl, hpre⟩ := gateAt_facts h
  refine ⟨hw, ⟨G, by rw [hG, ok.XR], hp⟩, O1, hl, ?_⟩
  have hO := k8u_O g
  rw [← hO]; exact hpre

/-! ## Without a configuration -/

/-- **the gate is open** (`L₀` = the log when the connection started) -/
structure GateOpen (p : Preamble) (recs srecs drecs : List Rec) (mc : Nat) (L0 : Bytes)
    (r : AReq) (m : MutexSt) (t' : Transport) : Prop where
  /-- `output_stream` will succeed -/
  wr : r.writeable = true
  /-- the bytes taken from the transport behind the preamble contain the complete Stdin stream incl. its empty record -/
  taken : ∃ G, G ++ t'.input = serAll srecs ++ serAll drecs ∧ serAll srecs <+: G
  inp : t'.input.length ≤ (serAll drecs).length
  /-- the log: only owed replies, in order -/
  log : ∃ O₁, t'.wlog = L0 ++ owedPreamble p mc recs ++ O₁ ∧
    O₁ <+: owedStream p.id 5 mc srecs ++ owedStream p.id 8 mc drecs
  mx : m = none
  lock : r.lock = .none

theorem gateOpen_of {g : E2E.Cfg} {rest : List HOp} (ok : GOK g rest) {r : AReq} {m : MutexSt} {t' : Transport}
    (h : GateAt g r m t') : GateOpen g.p g.recs g.R g.R2 g.mc g.L0 r m t' := by
  obtain ⟨h1, h2, h3⟩ := gate_taken ok h
  exact ⟨h1, h2, h.inp, h3, h.mx, h.lock⟩

/-- the state after a poll before the gate -/
def PreGate (p : Preamble) (recs srecs drecs : List Rec) (mc : Nat) (L0 : Bytes) (rest : List HOp) (c : Conn) : Prop :=
  ((∃ rp sub, c.phase = .parseReq rp sub) ∧ hsCount c.env.tr.events = 0) ∨
  (∃ r, c.phase = .handler r { ops := .writeable :: rest, sub := .writeableStarted, writers := [], propagate := true } ∧
    r.writeable = false ∧
    ∃ O₁, c.env.tr.wlog = L0 ++ owedPreamble p mc recs ++ O₁ ∧
      O₁ <+: owedStream p.id 5 mc srecs ++ owedStream p.id 8 mc drecs)

theorem preGate_of {g : E2E.Cfg} {rest : List HOp} (ok : GOK g rest) (h0 : g.hs0 = 0) {c : Conn} (h : SGate g rest c) :
    PreGate g.p g.recs g.R g.R2 g.mc g.L0 rest c := by
  have hO := k8u_O g
  rcases h with h | ⟨r, dO, hph, hs, hwr, _⟩
  · left
    cases h with
    | start hph _ _ _ _ _ _ _ hev => exact ⟨⟨_, _, hph⟩, hev.trans h0⟩
    | parse hst _ _ hev =>
      refine ⟨?_, hev.trans h0⟩
      rcases hst.ph with ⟨hph, _⟩ | ⟨rest', hph, _⟩
      · exact ⟨_, _, hph⟩
      · exact ⟨_, _, hph⟩
  · right
    obtain ⟨⟨G, hi⟩, _, _, ⟨O1, hl1, hl2⟩⟩ := hs
    refine ⟨r, hph, hwr, O1, hl1, ?_⟩
    rw [← hO, (hi.now ok.kok).2.1]
    exact ⟨r.sp.output ++ (Rem g.K8u.E r.sp c.env.tr.input).out, by rw [← List.append_assoc, hl2]; simp⟩

/-- the handler passes `.writeable` in this poll, in a state `GateOpen`, and goes on with `rest` -/
def GateNowFree (p : Preamble) (recs srecs drecs : List Rec) (mc : Nat) (L0 : Bytes) (rest : List HOp)
    (more : List (List HOp × Bool)) (c : Conn) : Prop :=
  ∃ (r0 : AReq) (h0 : HState) (r' : AReq) (e' : Run.Env) (f : Nat), c.phase = .handler r0 h0 ∧ h0.writers = [] ∧
    handlerPoll (handlerFuel c.env r0 + scriptOf c) r0 h0 c.env =
      handlerPoll f r' { ops := rest, sub := .fresh, writers := [], propagate := true } (e'.ev "w=ok") ∧
    GateOpen p recs srecs drecs mc L0 r' e'.mutex e'.tr ∧ TStep c.env.tr e'.tr ∧ c.scripts = more ∧
    hsCount c.env.tr.events = 1 ∧ startEvent p.request ∈ c.env.tr.events

/-- … possibly after the phase transitions that end `parse_request` and start the handler -/
def GatePollFree (p : Preamble) (recs srecs drecs : List Rec) (mc : Nat) (L0 : Bytes) (rest : List HOp)
    (more : List (List HOp × Bool)) (c : Conn) : Prop :=
  ∃ k c1, Steps k c c1 ∧ Link c c1 ∧ GateNowFree p recs srecs drecs mc L0 rest more c1

theorem gatePollFree_of {g : E2E.Cfg} {rest : List HOp} (ok : GOK g rest) (h0 : g.hs0 = 0) {c : Conn}
    (h : GatePoll g rest c) : GatePollFree g.p g.recs g.R g.R2 g.mc g.L0 rest g.more c := by
  obtain ⟨k, c1, hs, hl, r0, hh0, r', e', f, hph, hws, heq, hga, hts, hsc, hev⟩ := h
  exact ⟨k, c1, hs, hl, r0, hh0, r', e', f, hph, hws, heq, gateOpen_of ok hga, hts, hsc, by rw [hev.1, h0], hev.2⟩

/-- **C09 end to end, the gate of a Filter that skips Stdin — no configuration in the statement.** -/
theorem filter_gate_free {p : Preamble} {recs : List Rec} {content : Bytes} {srecs : List Rec}
    {content2 : Bytes} {drecs : List Rec}
    {b mc : Nat} {rest : List HOp} {more : List (List HOp × Bool)} {t : Transport}
    (hwf : WellFormedPreamble p recs) (hrole : p.role = 3)
    (hpairs : ∀ q ∈ p.pairs, (NV.enc q).length ≤ alignedBufsize b)
    (hnoise : NoiseFits (alignedBufsize b) recs)
    (hs : StreamRecs p.id 5 content srecs) (hsn : NoiseFits (alignedBufsize b) srecs)
    (hd : StreamRecs p.id 8 content2 drecs) (hdn : NoiseFits (alignedBufsize b) drecs)
    (hin : t.input = serAll recs ++ (serAll srecs ++ serAll drecs)) (hben : Ben t) (hev : hsCount t.events = 0) :
    ∃ k : Nat, k ≤ t.rd.length + t.wr.length ∧
      (∀ j, j ≤ k → ∃ cj, runTask j (connS b mc t ((.writeable :: rest, true) :: more)) 0 none = (cj, "FUEL") ∧
        PreGate p recs srecs drecs mc t.wlog rest cj) ∧
      ∃ ck, runTask k (connS b mc t ((.writeable :: rest, true) :: more)) 0 none = (ck, "FUEL") ∧
        GatePollFree p recs srecs drecs mc t.wlog rest more (prePoll ck k none) := by
  obtain ⟨g, k, ok, hp, hrecs, hmc, _, hR, hR2, hL0, hh0, hmore, hk, hall, ck, hrun, hgp⟩ :=
    filter_gate_pinned (rest := rest) (more := more) hwf hrole hpairs hnoise hs hsn hd hdn hin hben hev
  refine ⟨k, hk, fun j hj => ?_, ck, hrun, ?_⟩
  · obtain ⟨cj, h1, h2⟩ := hall j hj
    have := preGate_of ok hh0 h2
    rw [hp, hrecs, hR, hR2, hmc, hL0] at this
    exact ⟨cj, h1, this⟩
  · have := gatePollFree_of ok hh0 hgp
    rw [hp, hrecs, hR, hR2, hmc, hL0, hmore] at this
    exact this

/-! ## Non-vacuity -/
namespace Example3
open Fcgi.C01.Example Fcgi.C07E.Example

example : ∃ k, k ≤ 10 ∧
    ∃ ck, runTask k (connS 64 10 Example.gT (([.writeable, .open_ 6, .writeAll 0 [104, 105], .dropW 0, .ret (.complete 0)], true) :: [])) 0 none
        = (ck, "FUEL") ∧
      GatePollFree preF recsF nS fD 10 [] [.open_ 6, .writeAll 0 [104, 105], .dropW 0, .ret (.complete 0)] []
        (prePoll ck k none) := by
  obtain ⟨k, hk, _, ck, hrun, hg⟩ := filter_gate_free (p := preF) (recs := recsF) (content := [65, 66, 67])
    (srecs := nS) (content2 := [120, 121, 122]) (drecs := fD) (b := 64) (mc := 10)
    (rest := [.open_ 6, .writeAll 0 [104, 105], .dropW 0, .ret (.complete 0)]) (more := []) (t := Example.gT)
    recsF_wf rfl (fun q hq => by cases hq) (recsF_fits _) nS_ok nS_fits fD_ok fD_fits rfl
    ⟨by decide, by decide, rfl, by decide⟩ rfl
  exact ⟨k, hk, ck, hrun, hg⟩

/-- reading `GateOpen` on that instance: the complete Stdin stream `nS` was taken before the gate -/
example {r : AReq} {m : MutexSt} {t' : Transport} (h : GateOpen preF recsF nS fD 10 [] r m t') :
    r.writeable = true ∧ ∃ G, serAll nS <+: G ∧ G ++ t'.input = serAll nS ++ serAll fD := by
  obtain ⟨G, h1, h2⟩ := h.taken
  exact ⟨h.wr, G, h2, h1⟩
end Example3

end Fcgi.C09G
