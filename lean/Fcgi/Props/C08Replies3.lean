import Fcgi.Proofs.ReplyLedger3
import Fcgi.Props.C08Replies2

/-!
# C08 — the reply ledger of a whole connection: `close()`, reuse, any number of requests

* `hid_holds` — `HID mc` is a theorem (`C05.run_id`); `stall_in_first_handler_log_holds` is
  `C08R.stall_in_first_handler_log` without that hypothesis.
* `handlerPoll_keeps_owner` — with `HI`, "the mutex's owner is a live writer" (`Own`) is kept by
  `handlerPoll` for every script; so a handler that ends with no writer alive leaves the mutex free or
  the request's.
* `closePoll_keeps_ledger` — one poll of `close()` (`writeable()`, `set_stream(None)`,
  `record_boundary()`, the two `write_all`s) keeps the ledger `CSt`; when it returns the request parser
  (`Reused`): `PInv`, state `Header`, mutex free, and the log is
  `wl₁ ++ mix ++ epilogue` with everything the stream parser generated a sublist of `mix`.
* `Served mc wl L` — `L` = `wl` followed, per completely served request, by
  `(reqRef mc F).out ++ mix ++ epilogue` (`Seg`).
* **`stall_log_ledger`** — from the initial connection state (mutex free), ANY transport, ANY peer, ANY
  handler scripts, ANY number of requests served so far: if the executor stalls with the mutex free, the
  connection satisfies `K`: the log is a `Served` prefix followed by the current phase's ledger
  (`PRLed` in `parse_request`; `HI`/`GLed` in a handler; `CSt` in `close()`), and no generated reply byte
  sits in a buffer — except `r.sp.output` of a `close()` parked in `record_boundary()` in the middle of a
  record.  `stall_ledger_parse`, `stall_ledger_handler` spell out the two main cases.
-/
namespace Fcgi.C08R
open Fcgi Fcgi.Req Fcgi.Str Fcgi.Async Fcgi.Run Fcgi.Spec

theorem hid_holds' (mc : Nat) : HID mc := hid_holds mc

/-- `stall_in_first_handler_log` without the hypothesis `HID`. -/
theorem stall_in_first_handler_log_holds {b mc : Nat} {env : Run.Env}
    {scripts : List (List HOp × Bool)} {stop : Bool} {fuel n : Nat} {sa : Option Nat} {c' : Conn}
    (hm0 : env.mutex = none)
    (h : runTask fuel { phase := .parseReq (Req.Parser.new b mc) .start, env, scripts, stop } n sa
      = (c', "STALL"))
    (hm : c'.env.mutex = none) (hhs : hsCount c'.env.tr.events = hsCount env.tr.events + 1)
    {r : AReq} {hs : HState} (hph : c'.phase = .handler r hs) :
    ∃ (rp : Req.Parser) (rq : Request) (D : Bytes) (script0 : List HOp) (ops : List Op) (mix : Bytes),
      rp.state = .done rq ∧ rp.state = (run .header D mc).st ∧ rp.input = (run .header D mc).rem ∧
      hs.ops <:+ script0 ∧
      r.sp = applyOps (Str.Parser.fromParser rp.cap rq rp.input mc) ops ∧
      c'.env.tr.wlog = env.tr.wlog ++ (C04H.reqRef mc D).out ++ mix ∧
      r.sp.output = [] ∧ C08Inv.Quiescent r.sp ∧
      (Plain script0 → rq.role = 1 ∨ rq.role = 3 →
        List.Sublist (C04H.streamReplies ⟨rq.id, rq.role, 5, mc⟩ (rp.input ++ Str.fedBytes ops)) mix) :=
  stall_in_first_handler_log (hid_holds mc) hm0 h hm hhs hph

theorem handlerPoll_keeps_owner {sp0 : Str.Parser} {wl0 : Bytes} {script0 : List HOp} (fuel : Nat) (r : AReq)
    (h : HState) (e : Run.Env) (hp : HP sp0 wl0 script0 r h.writers e) (hs : h.ops <:+ script0) :
    Own (handlerPoll fuel r h e).2.1.writers (handlerPoll fuel r h e).2.2.1.mutex :=
  handlerPoll_hp fuel r h e hp hs

theorem closePoll_keeps_ledger {sp0 : Str.Parser} {wl1 : Bytes} {st : ExitStatus} {al : Nat} {r : AReq}
    {cs : CloseSt} {e : Run.Env} (h : CSt sp0 wl1 st al r cs e) :
    CPost sp0 wl1 st al (closePoll r cs st al e.mutex e.tr) :=
  closePoll_cst h

/-- **The ledger of the whole connection at any stall.** -/
theorem stall_log_ledger {b mc : Nat} {env : Run.Env} {scripts : List (List HOp × Bool)} {stop : Bool}
    {fuel n : Nat} {sa : Option Nat} {c' : Conn} (hm0 : env.mutex = none)
    (h : runTask fuel { phase := .parseReq (Req.Parser.new b mc) .start, env, scripts, stop } n sa
      = (c', "STALL"))
    (hm : c'.env.mutex = none) :
    K mc env.tr.wlog c' ∧
    (pendingOut c'.phase = [] ∨
      ∃ r st al, c'.phase = .closing r .inBoundary st al ∧ r.sp.isRecordBoundary = false) := by
  have hk := k_run fuel _ n sa (k_init b mc env scripts stop hm0) (by rw [h])
  rw [h] at hk
  exact ⟨hk, stall_pending_output_partial (C08Inv.CInv_init b mc env scripts stop) h hm⟩

/-- … stalled in a `parse_request` (of any request of the connection): the log is a `Served` prefix
followed by EXACTLY the request parser's replies for what this `parse_request` consumed (leftover `raw0`
of the previous request, then `D` from the transport). -/
theorem stall_ledger_parse {b mc : Nat} {env : Run.Env} {scripts : List (List HOp × Bool)} {stop : Bool}
    {fuel n : Nat} {sa : Option Nat} {c' : Conn} (hm0 : env.mutex = none)
    (h : runTask fuel { phase := .parseReq (Req.Parser.new b mc) .start, env, scripts, stop } n sa
      = (c', "STALL"))
    (hm : c'.env.mutex = none) {rp : Req.Parser} {sub : PRSub} (hph : c'.phase = .parseReq rp sub) :
    ∃ L0 raw0 D, Served mc env.tr.wlog L0 ∧ sub = .reading ∧
      c'.env.tr.wlog = L0 ++ (C04H.reqRef mc (raw0 ++ D)).out := by
  obtain ⟨hk, _⟩ := stall_log_ledger hm0 h hm
  obtain ⟨ho, _, _, _, _⟩ := C08Inv.runTask_stall_owes_nothing_partial
    (C08Inv.CInv_init b mc env scripts stop) h hm
  unfold K at hk
  rw [hph] at hk ho
  obtain ⟨L0, raw0, D, hsv, hl, _⟩ := hk
  have hsub : sub = .reading := ho
  subst hsub
  simp only [PRLed, hph] at hl
  obtain ⟨hmc, _, _, hlog⟩ := hl
  exact ⟨L0, raw0, D, hsv, rfl, by rw [hlog, hmc, (C04H.req_replies_hostile mc _).1]⟩

/-- … stalled inside a handler (of any request): `Served` prefix, then the request parser's replies for
the preamble bytes `F`, then `mix`; for a script without `set_stream` / `writeable()` of a Responder /
Filter, `mix` contains every reply prescribed for the stream bytes consumed, in order. -/
theorem stall_ledger_handler {b mc : Nat} {env : Run.Env} {scripts : List (List HOp × Bool)} {stop : Bool}
    {fuel n : Nat} {sa : Option Nat} {c' : Conn} (hm0 : env.mutex = none)
    (h : runTask fuel { phase := .parseReq (Req.Parser.new b mc) .start, env, scripts, stop } n sa
      = (c', "STALL"))
    (hm : c'.env.mutex = none) {r : AReq} {hs : HState} (hph : c'.phase = .handler r hs) :
    ∃ (L0 F : Bytes) (rp : Req.Parser) (rq : Request) (script0 : List HOp) (ops : List Op) (mix : Bytes),
      Served mc env.tr.wlog L0 ∧ HInfo mc rp rq F ∧
      hs.ops <:+ script0 ∧ r.sp = applyOps (Str.Parser.fromParser rp.cap rq rp.input mc) ops ∧
      c'.env.tr.wlog = L0 ++ (C04H.reqRef mc F).out ++ mix ∧ r.sp.output = [] ∧ C08Inv.Quiescent r.sp ∧
      (Plain script0 → rq.role = 1 ∨ rq.role = 3 →
        List.Sublist (C04H.streamReplies ⟨rq.id, rq.role, 5, mc⟩ (rp.input ++ Str.fedBytes ops)) mix) := by
  obtain ⟨hk, _⟩ := stall_log_ledger hm0 h hm
  obtain ⟨ho, hpr, _, _, _⟩ := C08Inv.runTask_stall_owes_nothing_partial
    (C08Inv.CInv_init b mc env scripts stop) h hm
  unfold K at hk
  rw [hph] at hk ho hpr
  obtain ⟨L0, F, rp, rq, script0, hsv, hinfo, hp, hsuf⟩ := hk
  obtain ⟨ops, hg, hpl⟩ := hp.1.led
  obtain ⟨mix, hmix, _⟩ := hg.sent
  refine ⟨L0, F, rp, rq, script0, ops, mix, hsv, hinfo, hsuf, hg.sp_eq, ?_, ho.1, hpr.1, fun hP hrole => ?_⟩
  · rw [hmix, (C04H.req_replies_hostile mc F).1]
  · obtain ⟨hl, hns⟩ := hpl hP
    obtain ⟨g1, g2, g3, g4, g5⟩ := hinfo
    have hidq : rq.id < 65536 := hid_holds mc F rq (by rw [← g4, g3])
    have h0 := C03SI.start_fresh rp.cap rq rp.input mc g1.1 hidq hrole
    obtain ⟨mix', hm', hs'⟩ := handler_read_ledger h0 rfl hg hl hns hpr.1 ho.1
    have : mix' = mix := List.append_cancel_left (hm'.symm.trans hmix)
    rw [this] at hs'
    exact hs'

end Fcgi.C08R
