import Fcgi.Proofs.E2EAuthEofEnd
import Fcgi.Proofs.E2ETrunc3Cfg
import Fcgi.Props.C12E2E6
import Fcgi.Props.C12E2E5

/-!
# C12 — end to end, AUTHORIZER with tail traffic, end-of-file at any offset: the closed description

Setting of `C12E2E6` (`W = serAll recs ++ serAll tail`, the transport delivers `W.take k`, then EOF),
now with handlers that may write: `aHandler rd wr data st` = the read `rd` (none / `read n` /
`readAll`), then — if `wr` — open Stdout, `write_all data`, drop the writer, then `Ok(st)`.

`eof_in_auth_tail_closed_e2e` (the cut is behind the preamble; `X ++ lost = serAll tail`, `X` arrives):
the task ALWAYS returns (`RET`, `finished`, one handler start, the read returned `Ok(0)`), and

* `AuthCutFail2` — `close()`'s `record_boundary()` failed with `UnexpectedEof`: the log is
  `t.wlog ++ owedPreamble ++ O₁ ++ [the handler's Stdout records]` where `O₁` (the replies the parser
  had queued when the handler's `write_all` flushed them; `[]` if `wr = false`) is the first part of
  a prefix `O₁ ++ O₂` of what the tail is owed — `O₂` (queued, never flushed), the stream terminators
  and `EndRequest` are NOT written; bytes are really missing (`lost ≠ []`), the input is used up;
* or `AuthCutEnd` — `record_boundary()` reached a boundary of the tail (`tail = t₁ ++ t₂`, of
  `serAll t₂` the part `U` arrived: `U ++ lost = serAll t₂`): `close` completes exactly as on the
  uncut wire — `O₁`, Stdout records, `O₂` (`O₁ ++ O₂` = all that `t₁` is owed), the epilogue
  `[Stdout∅][Stderr∅][EndRequest]` —; with KEEP_CONN the next `parse_request` is handed `U`, answers
  what is complete in it (`(run .header U mc).out`, a prefix of `idleOwed mc t₂`) and ends quietly at
  EOF; without KEEP_CONN the task returns after the epilogue.

`eof_any_offset_auth_closed_e2e`: every offset `k` (preamble cuts from `eof_in_preamble_e2e_partial`).
Which of `AuthCutFail2` / `AuthCutEnd` happens is decided by `record_boundary_eof` (`C12E2E6`) in
terms of the parser state when `close()` is polled; a criterion in terms of the wire alone ("the
handler's read consumed the header of the cut record") is NOT proved (it needs the consumed position
of `Str.Parser.parse`, which `parse_r2d` does not expose).

## FILTER: the missing range of `eof_any_offset_filter_e2e`

`eof_in_data_terminator_filter_e2e`: the cut is behind the 8th byte of the terminating `Data` record
(or there is none): the stream parser has seen that record's header, both streams end cleanly, the
handler and `close` run as on the whole wire — complete log with `EndRequest`; the next
`parse_request` (KEEP_CONN) swallows the cut record silently and ends at EOF.
`eof_any_offset_filter_all_e2e`: `eof_any_offset_filter_e2e` without its hypothesis `hk`.

Replays (`fcgi-harness C12 quick 1 /tmp/xx --replay f`, crate = model driver on all 9 cases; Authorizer
wire of `C12E2E6`, handler `r4,o6,W0:6f6b,d0,Xcomplete:0` = read 4, write "ok" to Stdout, return):

```
auth  k=37        |0 R64:37 HS(2,1,-) r=0:- o=w0 V8+2+6:16 W=ok HE(ok:complete:0) R59:0 RET wlog=[Stdout "ok"]
auth  k=57        |0 R64:57 HS(2,1,-) r=0:- o=w0 V8+2+6:16 W=ok HE(ok:complete:0) R64:0 RET wlog=[Stdout "ok"]
auth  k=50        |0 R64:50 … W=ok HE(ok:complete:0) W32:32 W32:32 R62:0 RET wlog=[Stdout "ok"][GetValuesResult][epilogue]
auth  k=45 no read, rd=37,P,3,P,A
                  |0 R64:37 HS(2,1,-) o=w0 V8+2+6:16 W=ok HE(ok:complete:0) W32:32 R59:P |1 R59:3 R56:P |2 R56:5 R51:0 RET
                  wlog=[Stdout "ok"][epilogue]
filter k=85 (of 86: inside the padding of the Data terminator), h=R,s8,R,o6,W0:21,d0,Xcomplete:3
                  |0 R64:64 HS(3,0,-) R=2:4142 s=ok R50:21 W32:32 R=3:78797a o=w0 V8+1+7:16 W=ok HE(ok:complete:3) W32:32 RET
                  wlog=[GetValuesResult][Stdout "!"][epilogue with EndRequest]
filter k=84 (7 bytes of that record's header)
                  … R50:20 W32:32 R57:0 R!eof:3:78797a HE(err:eof) RET wlog=[GetValuesResult]
```

(k=37/57: `AuthCutFail2` with `O₁ = []` — the handler's `write_all` goes through its `Writer` and does
not flush the replies the stream parser queued; k=50: `AuthCutEnd`, `O₁ = []`, `O₂` = the
`GetValuesResult`.)
-/
namespace Fcgi.C12E
open Fcgi Fcgi.Req Fcgi.Str Fcgi.Async Fcgi.Run Fcgi.Spec Fcgi.E2E Fcgi.C07E Fcgi.C07U

/-- `record_boundary()` failed: nothing of `close` was written -/
structure AuthCutFail2 (p : Preamble) (recs tail : List Rec) (rd : ARead) (mc : Nat) (data : Bytes)
    (more : List (List HOp × Bool)) (lost : Bytes) (t : Transport) (c' : Conn) : Prop where
  phase : c'.phase = .finished
  wlog : ∃ O₁ O₂, O₁ ++ O₂ <+: owedActive p.id mc tail ∧
    c'.env.tr.wlog = t.wlog ++ (owedPreamble p mc recs ++ O₁ ++ streamRecords 6 p.id data)
  input : c'.env.tr.input = []
  lost : lost ≠ []
  one_handler : hsCount c'.env.tr.events = 1 ∧ startEvent p.request ∈ c'.env.tr.events
  reads : ∀ s ∈ rd.evs, s ∈ c'.env.tr.events
  scripts : c'.scripts = more

/-- `close` completed -/
structure AuthCutEnd (p : Preamble) (recs tail t₁ t₂ : List Rec) (O₁ O₂ U : Bytes) (rd : ARead) (mc : Nat)
    (data : Bytes) (st : ExitStatus) (more : List (List HOp × Bool)) (lost : Bytes) (t : Transport) (c' : Conn) :
    Prop where
  split : tail = t₁ ++ t₂
  owed : O₁ ++ O₂ = owedActive p.id mc t₁
  /-- of the records the request's own parser did not consume, `U` arrived -/
  arrived : U ++ lost = serAll t₂
  phase : c'.phase = .finished
  one_handler : hsCount c'.env.tr.events = 1 ∧ startEvent p.request ∈ c'.env.tr.events
  reads : ∀ s ∈ rd.evs, s ∈ c'.env.tr.events
  scripts : c'.scripts = more
  final :
    (p.flags.toNat % 2 = 1 ∧
      c'.env.tr.wlog = t.wlog ++ (owedPreamble p mc recs ++ O₁ ++ streamRecords 6 p.id data ++ O₂ ++
        epilogue p.id st ++ (run .header U mc).out) ∧
      (run .header U mc).out <+: idleOwed mc t₂) ∨
    (p.flags.toNat % 2 = 0 ∧
      c'.env.tr.wlog = t.wlog ++ (owedPreamble p mc recs ++ O₁ ++ streamRecords 6 p.id data ++ O₂ ++
        epilogue p.id st))

/-- what the idle request parser has put out for a prefix of idle noise is a prefix of what that is owed -/
theorem idle_out_prefix (mc : Nat) {us : List Rec} (hu : ∀ e ∈ us, IdleNoise e) {U lost : Bytes}
    (h : U ++ lost = serAll us) : (run .header U mc).out <+: idleOwed mc us := by
  have hfull := (run_idle_out mc us hu).1
  by_cases hl : lost = []
  · subst hl
    rw [List.append_nil] at h
    rw [h, hfull]
    exact List.prefix_refl _
  · have hs := Req.run_split (st := .header) trivial U lost mc hl
    rw [h] at hs
    rw [← hfull, hs]
    exact List.prefix_append _ _

/-- **C12 end to end, Authorizer (reading and/or writing handler), the wire ends behind the
preamble: closed description of the final state.** -/
theorem eof_in_auth_tail_closed_e2e {p : Preamble} {recs tail : List Rec} {b mc : Nat} {rd : ARead} {wr : Bool}
    {data : Bytes} {st : ExitStatus} {more : List (List HOp × Bool)} {t : Transport} {fuel : Nat} {X lost : Bytes}
    (hwf : WellFormedPreamble p recs) (hrole : p.role = 2)
    (hpairs : ∀ q ∈ p.pairs, (NV.enc q).length ≤ alignedBufsize b)
    (hnoise : NoiseFits (alignedBufsize b) recs)
    (htail : ∀ r ∈ tail, StreamNoise p.id r) (htn : NoiseFits (alignedBufsize b) tail)
    (hnb : ∀ r ∈ tail, r.rtype.toNat ≠ RT.beginRequest)
    (hwd : wr = false → data = [])
    (hcut : X ++ lost = serAll tail)
    (hin : t.input = serAll recs ++ X) (hben : Ben t) (hem : t.endMode = .eof) (hev : hsCount t.events = 0)
    (hfuel : t.rd.length + t.wr.length + 1 ≤ fuel)
    (hsize : 6 * t.input.length + 26 ≤ 100000) (hhf : wcost data.length + 8 ≤ 1000) :
    ∃ c', runTask fuel (connS b mc t ((aHandler rd wr data st, true) :: more)) 0 none = (c', "RET") ∧
      (AuthCutFail2 p recs tail rd mc data more lost t c' ∨
       ∃ t₁ t₂ O₁ O₂ U, AuthCutEnd p recs tail t₁ t₂ O₁ O₂ U rd mc data st more lost t c') := by
  have hidle : ∀ r ∈ tail, IdleNoise r := idle_of_noBegin (fun r hr => (htail r hr).1) hnb
  have ok := aok_of (mc := mc) (rd := rd) (st := st) t.wlog 0 more hwf hrole hpairs hnoise htail htn hwd hhf
  have hmem : ∀ t1 t2 : List Rec, (C07U.cfgA p recs tail b mc rd wr data st t.wlog 0 more).body = t1 ++ t2 →
      ∀ e ∈ t2, e ∈ tail := by
    intro t1 t2 hsp e he
    have : e ∈ (C07U.cfgA p recs tail b mc rd wr data st t.wlog 0 more).body := by
      rw [hsp]; exact List.mem_append_right _ he
    exact this
  have hgood : ∀ t1 t2 : List Rec, (C07U.cfgA p recs tail b mc rd wr data st t.wlog 0 more).body = t1 ++ t2 →
      GoodNext (alignedBufsize b) mc t2 (serAll dummyRecs ++ []) := fun t1 t2 hsp =>
    idle_front dummy_wf b mc (fun q hq => by cases hq) (dummy_fits _) (fun e he => hidle e (hmem t1 t2 hsp e he))
      (fun e he hg => htn e (hmem t1 t2 hsp e he) hg) []
  have hst : E2E.FStage (cutX (C07U.cfgA p recs tail b mc rd wr data st t.wlog 0 more) X)
      (connS b mc t ((aHandler rd wr data st, true) :: more)) :=
    .start (raw := []) rfl (by show [] ++ t.input = _; rw [hin]; rfl) (Nat.zero_le _) rfl hben rfl rfl rfl hev
  obtain ⟨c', fin, hrun, hres⟩ :=
    run_authC ok (X := X) (lost := lost) (Zd := serAll dummyRecs ++ []) hcut
      (fun t1 t2 h => (hgood t1 t2 h).1) (fun t1 t2 h => (hgood t1 t2 h).2)
      _ 0 fuel hst hem rfl (by show ans t + 1 ≤ fuel; unfold ans; omega) hsize
  have hL1 : (C07U.cfgA p recs tail b mc rd wr data st t.wlog 0 more).L1 = t.wlog ++ owedPreamble p mc recs := rfl
  have hLeq : ∀ O1 O2 : Bytes, ((C07U.cfgA p recs tail b mc rd wr data st t.wlog 0 more).L1 ++ O1) ++
      (C07U.cfgA p recs tail b mc rd wr data st t.wlog 0 more).D ++ O2 ++
      (C07U.cfgA p recs tail b mc rd wr data st t.wlog 0 more).epi =
      t.wlog ++ (owedPreamble p mc recs ++ O1 ++ streamRecords 6 p.id data ++ O2 ++ epilogue p.id st) := by
    intro O1 O2
    show ((t.wlog ++ owedPreamble p mc recs) ++ O1) ++ streamRecords 6 p.id data ++ O2 ++
      makeRequestEpilogue p.id st [RT.stdout, RT.stderr] = _
    rw [epilogue_eq]
    simp only [List.append_assoc]
  rcases hres with ⟨i, ⟨⟨hsp, hO, hU⟩, hk⟩, hkp, hem', _, _, _, hend⟩ | ⟨hfin, hfa, _, _⟩
  · rcases hend with ⟨_, hp⟩ | ⟨rfl, hf⟩
    · rw [hp.em] at hem'; cases hem'
    · obtain ⟨F, hF, hlg⟩ := hf.log
      have hFU : F = i.U := by
        have e : serAll i.t2 ++ (serAll dummyRecs ++ []) = i.U ++ (lost ++ (serAll dummyRecs ++ [])) := by
          rw [← hU, List.append_assoc]
        have hF' : F ++ (lost ++ (serAll dummyRecs ++ [])) = serAll i.t2 ++ (serAll dummyRecs ++ []) := hF
        rw [e] at hF'
        exact List.append_cancel_right hF'
      subst hFU
      have hs2 : ∀ e ∈ i.t2, IdleNoise e := fun e he => hidle e (hmem i.t1 i.t2 hsp e he)
      refine ⟨c', hrun, Or.inr ⟨i.t1, i.t2, i.O1, i.O2, i.U, hsp, hO, hU, hf.ph,
        ⟨hkp.hs, hkp.ev _ List.mem_cons_self⟩, fun s hs => hkp.ev _ (List.mem_cons_of_mem _ hs), hkp.sc,
        Or.inl ⟨hk, ?_, idle_out_prefix mc hs2 hU⟩⟩⟩
      rw [hlg, CIdx.L, hLeq]
      simp only [List.append_assoc]
      rfl
  · subst hfin
    rcases hfa with ⟨s1, s2, O1, O2, U', hsp, hO, hU, hrd, hfu⟩ | hfe
    · refine ⟨c', hrun, Or.inr ⟨s1, s2, O1, O2, U', hsp, hO, hU, hfu.ph, ⟨hfu.ev.1, hfu.ev.2⟩,
        fun s hs => hrd s hs, hfu.sc, Or.inr ⟨hfu.nokeep, ?_⟩⟩⟩
      rw [hfu.log, gU_LU]
      exact hLeq O1 O2
    · obtain ⟨O1, O2, hpre, hlg⟩ := hfe.wlog
      refine ⟨c', hrun, Or.inl ⟨hfe.phase, ⟨O1, O2, hpre, ?_⟩, hfe.input, hfe.lost, ⟨hfe.ev.1, hfe.ev.2⟩,
        fun s hs => hfe.reads s hs, hfe.scripts⟩⟩
      rw [hlg, hL1]
      show ((t.wlog ++ owedPreamble p mc recs) ++ O1) ++ streamRecords 6 p.id data = _
      simp only [List.append_assoc]

/-- **C12 end to end, Authorizer with tail traffic: end-of-file at ANY offset `k`, closed form.** -/
theorem eof_any_offset_auth_closed_e2e {p : Preamble} {recs tail : List Rec} {b mc : Nat} {rd : ARead} {wr : Bool}
    {data : Bytes} {st : ExitStatus} {more : List (List HOp × Bool)} {t : Transport} {fuel : Nat} (k : Nat)
    (hwf : WellFormedPreamble p recs) (hrole : p.role = 2)
    (hpairs : ∀ q ∈ p.pairs, (NV.enc q).length ≤ alignedBufsize b)
    (hnoise : NoiseFits (alignedBufsize b) recs)
    (htail : ∀ r ∈ tail, StreamNoise p.id r) (htn : NoiseFits (alignedBufsize b) tail)
    (hnb : ∀ r ∈ tail, r.rtype.toNat ≠ RT.beginRequest)
    (hwd : wr = false → data = [])
    (hin : t.input = (serAll recs ++ serAll tail).take k) (hben : Ben t) (hem : t.endMode = .eof)
    (hev : hsCount t.events = 0)
    (hfuel : t.rd.length + t.wr.length + 1 ≤ fuel) (hsize : 6 * t.input.length + 26 ≤ 100000)
    (hhf : wcost data.length + 8 ≤ 1000) :
    ∃ c', runTask fuel (connS b mc t ((aHandler rd wr data st, true) :: more)) 0 none = (c', "RET") ∧
      c'.phase = .finished ∧
      ((k < (serAll recs).length ∧ c'.env.tr.input = [] ∧ hsCount c'.env.tr.events = 0 ∧
          ∃ out, c'.env.tr.wlog = t.wlog ++ out ∧ out <+: owedPreamble p mc recs) ∨
       ((serAll recs).length ≤ k ∧
          (AuthCutFail2 p recs tail rd mc data more ((serAll tail).drop (k - (serAll recs).length)) t c' ∨
           ∃ t₁ t₂ O₁ O₂ U, AuthCutEnd p recs tail t₁ t₂ O₁ O₂ U rd mc data st more
             ((serAll tail).drop (k - (serAll recs).length)) t c'))) := by
  by_cases hk : k < (serAll recs).length
  · obtain ⟨c', h1, h2, h3, h4, _, h6, h7⟩ := eof_in_preamble_e2e_partial (serAll tail) b mc k
      ((aHandler rd wr data st, true) :: more) t fuel hwf hpairs hnoise hk hin hben hem hfuel (by omega)
    exact ⟨c', h1, h2, Or.inl ⟨hk, h3, h4.trans hev, _, h6, h7⟩⟩
  · have hk' : (serAll recs).length ≤ k := Nat.le_of_not_lt hk
    obtain ⟨d, rfl⟩ : ∃ d, k = (serAll recs).length + d := ⟨k - (serAll recs).length, by omega⟩
    rw [take_len_add] at hin
    rw [show (serAll recs).length + d - (serAll recs).length = d by omega]
    obtain ⟨c', h1, h2⟩ := eof_in_auth_tail_closed_e2e (more := more) (fuel := fuel) hwf hrole hpairs hnoise htail htn
      hnb hwd (List.take_append_drop d (serAll tail)) hin hben hem hev hfuel hsize hhf
    refine ⟨c', h1, ?_, Or.inr ⟨hk', h2⟩⟩
    rcases h2 with h | ⟨_, _, _, _, _, h⟩
    · exact h.phase
    · exact h.phase


/-! ## FILTER: the cut is inside the terminating `Data` record, behind its header -/

/-- **The input ends inside the terminating record of the `Data` stream, behind its header** (or not
at all). -/
theorem eof_in_data_terminator_filter_e2e {p : Preamble} {recs srecs drecs : List Rec} {content content2 : Bytes}
    {b mc : Nat} {data : Bytes} {st : ExitStatus} {t : Transport} {fuel : Nat} (k : Nat)
    (hwf : WellFormedPreamble p recs) (hrole : p.role = 3)
    (hpairs : ∀ q ∈ p.pairs, (NV.enc q).length ≤ alignedBufsize b) (hnoise : NoiseFits (alignedBufsize b) recs)
    (hs : StreamRecs p.id 5 content srecs) (hsn : NoiseFits (alignedBufsize b) srecs)
    (hd : StreamRecs p.id 8 content2 drecs) (hdn : NoiseFits (alignedBufsize b) drecs)
    (hk : (serAll recs).length + (serAll srecs).length + (serAll drecs.dropLast).length + 8 ≤ k)
    (hin : t.input = (serAll recs ++ (serAll srecs ++ serAll drecs)).take k)
    (hb : Ben t) (hem : t.endMode = .eof) (hev : hsCount t.events = 0)
    (hfuel : t.rd.length + t.wr.length + 1 ≤ fuel) (hsize : 4 * t.input.length + 17 ≤ 100000)
    (hhf : alignedBufsize b / 16 + wcost data.length + 24 ≤ 1000) :
    ∃ c' O₁ O₂, runTask fuel (connS b mc t [(canonicalF data st, true)]) 0 none = (c', "RET") ∧
      O₁ ++ O₂ = owedStream p.id 5 mc srecs ++ owedStream p.id 8 mc drecs ∧ c'.phase = .finished ∧
      c'.env.tr.wlog = t.wlog ++ expectedLogN p recs mc data st O₁ O₂ ∧
      hsCount c'.env.tr.events = 1 ∧ startEvent p.request ∈ c'.env.tr.events ∧
      readEvent content ∈ c'.env.tr.events ∧ readEvent content2 ∈ c'.env.tr.events := by
  by_cases hlt : k < (serAll recs ++ (serAll srecs ++ serAll drecs)).length
  · obtain ⟨body, pad, res, hpad, hbody, hsr⟩ := Str.StreamRecs.split hs
    obtain ⟨body2, pad2, res2, hpad2, hbody2, hdr⟩ := Str.StreamRecs.split hd
    have hdl2 : drecs.dropLast = body2 := by rw [hdr]; exact List.dropLast_concat
    rw [hdl2] at hk
    have hsb : NoiseFits (alignedBufsize b) body := fun r hr => hsn r (by rw [hsr]; simp [hr])
    have hdb : NoiseFits (alignedBufsize b) body2 := fun r hr => hdn r (by rw [hdr]; simp [hr])
    have ok : (cfgF p recs content body pad res content2 body2 pad2 res2 b mc data st t.wlog 0 []).OK :=
      ⟨hwf, hpairs, hnoise, .filter hrole hbody hbody2 hsb hdb hpad hpad2 rfl rfl rfl rfl rfl rfl hhf⟩
    have hser : serAll srecs ++ serAll drecs =
        serAll body ++ ((trec 5 p.id pad res).ser ++ (serAll body2 ++ (trec 8 p.id pad2 res2).ser)) := by
      rw [hsr, hdr, C02.serAll_append, C02.serAll_single, C02.serAll_append, C02.serAll_single, List.append_assoc]
      rfl
    have hsl : (serAll srecs).length = (serAll body).length + (trec 5 p.id pad res).ser.length := by
      rw [hsr, C02.serAll_append, C02.serAll_single, List.length_append]; rfl
    rw [hser] at hin hlt
    rw [hsl] at hk
    obtain ⟨n, rfl⟩ : ∃ n, k = (serAll recs).length + ((serAll body).length + ((trec 5 p.id pad res).ser.length +
        ((serAll body2).length + n))) :=
      ⟨k - (serAll recs).length - (serAll body).length - (trec 5 p.id pad res).ser.length - (serAll body2).length,
        by omega⟩
    have h8 : 8 ≤ n := by omega
    have hn : n < (trec 8 p.id pad2 res2).ser.length := by
      simp only [List.length_append] at hlt; omega
    rw [take_len_add, take_len_add, take_len_add, take_len_add] at hin
    have ok3 := cfg3_cut ok hrole h8 hn
    have hstage : Stage (cutCfgF (cfgF p recs content body pad res content2 body2 pad2 res2 b mc data st t.wlog 0 []) n)
        (connS b mc t [(canonicalF data st, true)]) :=
      .start (raw := []) rfl (by show [] ++ t.input = _; rw [hin]; rfl) (Nat.zero_le _) rfl hb rfl rfl rfl hev
    obtain ⟨c', O1, O2, hO, hrun, hfin⟩ := run_from_stage3 ok3 (ans t) (connS b mc t [(canonicalF data st, true)]) 0 fuel
      hstage hem rfl (Nat.le_refl _) (by unfold ans; omega) hsize
    have hOt : owedStream p.id 5 mc srecs ++ owedStream p.id 8 mc drecs =
        owedStream p.id 5 mc body ++ owedStream p.id 8 mc body2 := by
      rw [hsr, hdr, owedStream_append, owedStream_append, owedStream_term p.id 5 mc _ rfl,
        owedStream_term p.id 8 mc _ rfl, List.append_nil, List.append_nil]
    have hlog : c'.env.tr.wlog =
        (cfgF p recs content body pad res content2 body2 pad2 res2 b mc data st t.wlog 0 []).L3 O1 O2 := hfin.log
    rw [L3_eq] at hlog
    have hev1 : hsCount c'.env.tr.events = 0 + 1 ∧ hsEvent p.request ∈ c'.env.tr.events := hfin.ev
    exact ⟨c', O1, O2, hrun, hO.trans hOt.symm, hfin.ph, hlog, hev1.1, hev1.2,
      hfin.re _ (by show rEvent content ∈ [rEvent content, rEvent content2]; simp),
      hfin.re _ (by show rEvent content2 ∈ [rEvent content, rEvent content2]; simp)⟩
  · have hin' : t.input = serAll recs ++ (serAll srecs ++ serAll drecs) := by
      rw [hin, List.take_of_length_le (by omega)]
    obtain ⟨c', fin, O1, O2, hrun, hO, ho⟩ := single_request_e2e_filter (data := data) (st := st) (fuel := fuel)
      hwf hrole hpairs hnoise hs hsn hd hdn hin' hb hev hfuel hsize hhf
    have hfinal : fin = "RET" ∧ c'.phase = .finished := by
      rcases ho.final with ⟨_, h, hph⟩ | ⟨_, _, h, hph⟩ | ⟨_, hp, _⟩
      · exact ⟨h, hph⟩
      · exact ⟨h, hph⟩
      · rw [hem] at hp; cases hp
    obtain ⟨rfl, hph⟩ := hfinal
    exact ⟨c', O1, O2, hrun, hO, hph, ho.log, ho.one_handler.1, ho.one_handler.2, ho.read_content _ (by simp),
      ho.read_content _ (by simp)⟩

/-- **End-of-file at ANY byte offset `k` of a Filter wire** — `eof_any_offset_filter_e2e` without its
restriction on `k`; the last clause now covers every cut behind the header of the `Data` terminator. -/
theorem eof_any_offset_filter_all_e2e {p : Preamble} {recs srecs drecs : List Rec} {content content2 : Bytes}
    {b mc : Nat} {data : Bytes} {st : ExitStatus} {t : Transport} {fuel : Nat} (k : Nat)
    (hwf : WellFormedPreamble p recs) (hrole : p.role = 3)
    (hpairs : ∀ q ∈ p.pairs, (NV.enc q).length ≤ alignedBufsize b) (hnoise : NoiseFits (alignedBufsize b) recs)
    (hs : StreamRecs p.id 5 content srecs) (hsn : NoiseFits (alignedBufsize b) srecs)
    (hd : StreamRecs p.id 8 content2 drecs) (hdn : NoiseFits (alignedBufsize b) drecs)
    (hin : t.input = (serAll recs ++ (serAll srecs ++ serAll drecs)).take k)
    (hb : Ben t) (hem : t.endMode = .eof) (hev : hsCount t.events = 0)
    (hfuel : t.rd.length + t.wr.length + 1 ≤ fuel) (hsize : 4 * t.input.length + 17 ≤ 100000)
    (hhf : alignedBufsize b / 16 + wcost data.length + 24 ≤ 1000) :
    ∃ c' O₁ O₂, runTask fuel (connS b mc t [(canonicalF data st, true)]) 0 none = (c', "RET") ∧
      c'.phase = .finished ∧ O₁ ++ O₂ = owedStream p.id 5 mc srecs ++ owedStream p.id 8 mc drecs ∧
      (∃ w, c'.env.tr.wlog = t.wlog ++ w ∧ w <+: expectedLogN p recs mc data st O₁ O₂) ∧
      hsCount c'.env.tr.events ≤ 1 ∧
      (k < (serAll recs).length → hsCount c'.env.tr.events = 0) ∧
      ((serAll recs).length ≤ k → hsCount c'.env.tr.events = 1 ∧ startEvent p.request ∈ c'.env.tr.events) ∧
      ((serAll recs).length ≤ k → k < (serAll recs).length + (serAll srecs.dropLast).length + 8 →
        ∃ C, C <+: content ∧ readEofEvent C ∈ c'.env.tr.events ∧ handlerEofEvent ∈ c'.env.tr.events) ∧
      ((serAll recs).length + (serAll srecs.dropLast).length + 8 ≤ k →
        k < (serAll recs).length + (serAll srecs).length + (serAll drecs.dropLast).length + 8 →
        readEvent content ∈ c'.env.tr.events ∧
        ∃ C2, C2 <+: content2 ∧ readEofEvent C2 ∈ c'.env.tr.events ∧ handlerEofEvent ∈ c'.env.tr.events) ∧
      -- behind the header of the Data terminator: everything read, everything answered
      ((serAll recs).length + (serAll srecs).length + (serAll drecs.dropLast).length + 8 ≤ k →
        readEvent content ∈ c'.env.tr.events ∧ readEvent content2 ∈ c'.env.tr.events ∧
        c'.env.tr.wlog = t.wlog ++ expectedLogN p recs mc data st O₁ O₂) := by
  by_cases h3 : k < (serAll recs).length + (serAll srecs).length + (serAll drecs.dropLast).length + 8
  · obtain ⟨c', O1, O2, a1, a2, a3, a4, a5, a6, a7, a8, a9, _⟩ := eof_any_offset_filter_e2e (data := data) (st := st)
      (fuel := fuel) k hwf hrole hpairs hnoise hs hsn hd hdn hin (Or.inl h3) hb hem hev hfuel hsize hhf
    exact ⟨c', O1, O2, a1, a2, a3, a4, a5, a6, a7, a8, a9, fun h => absurd h3 (by omega)⟩
  · have hge : (serAll recs).length + (serAll srecs).length + (serAll drecs.dropLast).length + 8 ≤ k := by omega
    obtain ⟨c', O1, O2, hrun, hO, hph, hlog, hhs, hst, hr1, hr2⟩ := eof_in_data_terminator_filter_e2e (data := data)
      (st := st) (fuel := fuel) k hwf hrole hpairs hnoise hs hsn hd hdn hge hin hb hem hev hfuel hsize hhf
    have hsd : (serAll srecs.dropLast).length ≤ (serAll srecs).length := by
      obtain ⟨body, pad, res, _, _, hsr⟩ := Str.StreamRecs.split hs
      rw [hsr, List.dropLast_concat, C02.serAll_append, List.length_append]; omega
    refine ⟨c', O1, O2, hrun, hph, hO, ⟨_, hlog, List.prefix_refl _⟩, by omega, fun h => by omega,
      fun _ => ⟨hhs, hst⟩, fun _ h => by omega, fun _ h => absurd h h3, fun _ => ⟨hr1, hr2, hlog⟩⟩

/-! ## Non-vacuity -/
namespace Example7
open Fcgi.C01.Example Fcgi.C07E.Example Fcgi.C07U.Example Fcgi.C12E.Example6

/-- every offset of the example wire of `C07U` (68 bytes), all three reads, with and without a
Stdout write of `"ok"`: the task returns, at most one handler start -/
example (k : Nat) (hk : k ≤ 68) (rd : ARead) (wr : Bool) :
    ∃ c', runTask 9 (connS 64 10 (cutT k) [(aHandler rd wr (if wr then [111, 107] else []) (.complete 0), true)]) 0 none =
        (c', "RET") ∧ c'.phase = .finished ∧ hsCount c'.env.tr.events ≤ 1 := by
  have hinl : (cutT k).input.length ≤ 68 := by
    show ((serAll recsA ++ serAll aTail).take k).length ≤ 68
    rw [List.length_take]; omega
  obtain ⟨c', h1, h2, h3⟩ := eof_any_offset_auth_closed_e2e (p := preA) (recs := recsA) (tail := aTail) (b := 64)
    (mc := 10) (rd := rd) (wr := wr) (data := if wr then [111, 107] else []) (st := .complete 0) (more := [])
    (t := cutT k) (fuel := 9) k recsA_wf rfl (fun q hq => by cases hq)
    (recsA_fits _) aTail_noise aTail_fits aTail_noBegin (fun h => by rw [h]; rfl) rfl (cutT_ben k) rfl rfl
    (by show [RdAns.n 37, .pending, .n 3].length + ([] : List WrAns).length + 1 ≤ 9; decide) (by omega)
    (by cases wr <;> decide)
  refine ⟨c', h1, h2, ?_⟩
  rcases h3 with ⟨_, _, h, _⟩ | ⟨_, h | ⟨_, _, _, _, _, h⟩⟩
  · omega
  · have := h.one_handler.1; omega
  · have := h.one_handler.1; omega

/-- the Filter wire of `C07E.Example` cut after `k` bytes -/
def cutTF (k : Nat) : Transport :=
  { input := (serAll recsF ++ (serAll fS ++ serAll fD)).take k, endMode := .eof,
    rd := [.n 20, .pending, .n 30, .n 1, .pending], wr := [.n 5, .pending], fl := [] }

/-- every offset `k` of the Filter example wire (no restriction any more): the task returns, at most
one handler start, the log is a prefix of a complete answer -/
example (k : Nat) : ∃ c' O₁ O₂ w, runTask 20 (connS 64 10 (cutTF k) [(canonicalF [33] (.complete 3), true)]) 0 none = (c', "RET") ∧
    c'.phase = .finished ∧ hsCount c'.env.tr.events ≤ 1 ∧ c'.env.tr.wlog = [] ++ w ∧
    w <+: expectedLogN preF recsF 10 [33] (.complete 3) O₁ O₂ := by
  have hW : (serAll recsF ++ (serAll fS ++ serAll fD)).length ≤ 200 := by decide +kernel
  have hinl : (cutTF k).input.length ≤ 200 := by
    show ((serAll recsF ++ (serAll fS ++ serAll fD)).take k).length ≤ 200
    rw [List.length_take]; omega
  obtain ⟨c', O1, O2, h1, h2, _, ⟨w, hw1, hw2⟩, h5, _⟩ := eof_any_offset_filter_all_e2e (p := preF)
    (recs := recsF) (srecs := fS) (drecs := fD) (content := [65, 66])
    (content2 := [120, 121, 122]) (b := 64) (mc := 10) (data := [33]) (st := .complete 3) (t := cutTF k) (fuel := 20) k
    recsF_wf rfl (fun q hq => by cases hq) (recsF_fits _) fS_ok
    (no_getValues_fits (by decide)) fD_ok fD_fits rfl
    ⟨by show ∀ a ∈ [RdAns.n 20, .pending, .n 30, .n 1, .pending], a ≠ RdAns.err; decide,
     by show ∀ a ∈ [WrAns.n 5, .pending], a ≠ WrAns.err ∧ a ≠ WrAns.zero; decide, rfl,
     by show EndMode.eof ≠ EndMode.err; decide⟩ rfl rfl
    (by show [RdAns.n 20, .pending, .n 30, .n 1, .pending].length + [WrAns.n 5, .pending].length + 1 ≤ 20; decide)
    (by omega) (by decide)
  exact ⟨c', O1, O2, w, h1, h2, h5, hw1, hw2⟩

/-- in particular the cut one byte short of the end (inside the padding of the `Data` terminator):
both contents read, complete log -/
example : ∃ c' O₁ O₂, runTask 20 (connS 64 10 (cutTF ((serAll recsF ++ (serAll fS ++ serAll fD)).length - 1))
      [(canonicalF [33] (.complete 3), true)]) 0 none = (c', "RET") ∧
    readEvent [65, 66] ∈ c'.env.tr.events ∧ readEvent [120, 121, 122] ∈ c'.env.tr.events ∧
    c'.env.tr.wlog = [] ++ expectedLogN preF recsF 10 [33] (.complete 3) O₁ O₂ := by
  have hinl : (cutTF ((serAll recsF ++ (serAll fS ++ serAll fD)).length - 1)).input.length ≤ 200 := by
    show ((serAll recsF ++ (serAll fS ++ serAll fD)).take _).length ≤ 200
    rw [List.length_take]
    have : (serAll recsF ++ (serAll fS ++ serAll fD)).length ≤ 200 := by decide +kernel
    omega
  obtain ⟨c', O1, O2, h1, _, _, _, _, _, _, _, _, h10⟩ := eof_any_offset_filter_all_e2e (p := preF)
    (recs := recsF) (srecs := fS) (drecs := fD) (content := [65, 66])
    (content2 := [120, 121, 122]) (b := 64) (mc := 10) (data := [33]) (st := .complete 3)
    (t := cutTF ((serAll recsF ++ (serAll fS ++ serAll fD)).length - 1)) (fuel := 20)
    ((serAll recsF ++ (serAll fS ++ serAll fD)).length - 1)
    recsF_wf rfl (fun q hq => by cases hq) (recsF_fits _) fS_ok
    (no_getValues_fits (by decide)) fD_ok fD_fits rfl
    ⟨by show ∀ a ∈ [RdAns.n 20, .pending, .n 30, .n 1, .pending], a ≠ RdAns.err; decide,
     by show ∀ a ∈ [WrAns.n 5, .pending], a ≠ WrAns.err ∧ a ≠ WrAns.zero; decide, rfl,
     by show EndMode.eof ≠ EndMode.err; decide⟩ rfl rfl
    (by show [RdAns.n 20, .pending, .n 30, .n 1, .pending].length + [WrAns.n 5, .pending].length + 1 ≤ 20; decide)
    (by omega) (by decide)
  obtain ⟨a, b, c⟩ := h10 (by decide +kernel)
  exact ⟨c', O1, O2, h1, a, b, c⟩

end Example7

end Fcgi.C12E
