import Fcgi.Proofs.E2EAuthEofEnd
import Fcgi.Props.C12E2E6

/-!
# C12 — end to end, AUTHORIZER with tail traffic, end-of-file at any offset: the closed description

Setting of `C12E2E6` (`W = serAll recs ++ serAll tail`, the transport delivers `W.take k`, then EOF),
now with handlers that may write: `aHandler rd wr data st` = the read `rd` (none / `read n` /
`readAll`), then — if `wr` — open Stdout, `write_all data`, drop the writer, then `Ok(st)`.

`eof_in_auth_tail_closed_e2e` (the cut is behind the preamble; `X ++ lost = serAll tail`, `X` arrives):
the task ALWAYS returns (`RET`, `finished`, one handler start, the read returned `Ok(0)`), and

* `AuthCutFail2` — `close()`'s `record_boundary()` failed with `UnexpectedEof`: the log is
  `t.wlog ++ owedPreamble ++ O₁ ++ [the handler's Stdout records]` where `O₁` (the replies the parser
  had queued when the handler's `write_all` flushed them; `[]` if `wr = false`) is the first part of
  a prefix `O₁ ++ O₂` of what the tail is owed — `O₂` (queued, never flushed), the stream terminators
  and `EndRequest` are NOT written; bytes are really missing (`lost ≠ []`), the input is used up;
* or `AuthCutEnd` — `record_boundary()` reached a boundary of the tail (`tail = t₁ ++ t₂`, of
  `serAll t₂` the part `U` arrived: `U ++ lost = serAll t₂`): `close` completes exactly as on the
  uncut wire — `O₁`, Stdout records, `O₂` (`O₁ ++ O₂` = all that `t₁` is owed), the epilogue
  `[Stdout∅][Stderr∅][EndRequest]` —; with KEEP_CONN the next `parse_request` is handed `U`, answers
  what is complete in it (`(run .header U mc).out`, a prefix of `idleOwed mc t₂`) and ends quietly at
  EOF; without KEEP_CONN the task returns after the epilogue.

`eof_any_offset_auth_closed_e2e`: every offset `k` (preamble cuts from `eof_in_preamble_e2e_partial`).
Which of `AuthCutFail2` / `AuthCutEnd` happens is decided by `record_boundary_eof` (`C12E2E6`) in
terms of the parser state when `close()` is polled; a criterion in terms of the wire alone ("the
handler's read consumed the header of the cut record") is NOT proved (it needs the consumed position
of `Str.Parser.parse`, which `parse_r2d` does not expose).
-/
namespace Fcgi.C12E
open Fcgi Fcgi.Req Fcgi.Str Fcgi.Async Fcgi.Run Fcgi.Spec Fcgi.E2E Fcgi.C07E Fcgi.C07U

/-- `record_boundary()` failed: nothing of `close` was written -/
structure AuthCutFail2 (p : Preamble) (recs tail : List Rec) (rd : ARead) (mc : Nat) (data : Bytes)
    (more : List (List HOp × Bool)) (lost : Bytes) (t : Transport) (c' : Conn) : Prop where
  phase : c'.phase = .finished
  wlog : ∃ O₁ O₂, O₁ ++ O₂ <+: owedActive p.id mc tail ∧
    c'.env.tr.wlog = t.wlog ++ (owedPreamble p mc recs ++ O₁ ++ streamRecords 6 p.id data)
  input : c'.env.tr.input = []
  lost : lost ≠ []
  one_handler : hsCount c'.env.tr.events = 1 ∧ startEvent p.request ∈ c'.env.tr.events
  reads : ∀ s ∈ rd.evs, s ∈ c'.env.tr.events
  scripts : c'.scripts = more

/-- `close` completed -/
structure AuthCutEnd (p : Preamble) (recs tail t₁ t₂ : List Rec) (O₁ O₂ U : Bytes) (rd : ARead) (mc : Nat)
    (data : Bytes) (st : ExitStatus) (more : List (List HOp × Bool)) (lost : Bytes) (t : Transport) (c' : Conn) :
    Prop where
  split : tail = t₁ ++ t₂
  owed : O₁ ++ O₂ = owedActive p.id mc t₁
  /-- of the records the request's own parser did not consume, `U` arrived -/
  arrived : U ++ lost = serAll t₂
  phase : c'.phase = .finished
  one_handler : hsCount c'.env.tr.events = 1 ∧ startEvent p.request ∈ c'.env.tr.events
  reads : ∀ s ∈ rd.evs, s ∈ c'.env.tr.events
  scripts : c'.scripts = more
  final :
    (p.flags.toNat % 2 = 1 ∧
      c'.env.tr.wlog = t.wlog ++ (owedPreamble p mc recs ++ O₁ ++ streamRecords 6 p.id data ++ O₂ ++
        epilogue p.id st ++ (run .header U mc).out) ∧
      (run .header U mc).out <+: idleOwed mc t₂) ∨
    (p.flags.toNat % 2 = 0 ∧
      c'.env.tr.wlog = t.wlog ++ (owedPreamble p mc recs ++ O₁ ++ streamRecords 6 p.id data ++ O₂ ++
        epilogue p.id st))

/-- what the idle request parser has put out for a prefix of idle noise is a prefix of what that is owed -/
theorem idle_out_prefix (mc : Nat) {us : List Rec} (hu : ∀ e ∈ us, IdleNoise e) {U lost : Bytes}
    (h : U ++ lost = serAll us) : (run .header U mc).out <+: idleOwed mc us := by
  have hfull := (run_idle_out mc us hu).1
  by_cases hl : lost = []
  · subst hl
    rw [List.append_nil] at h
    rw [h, hfull]
    exact List.prefix_refl _
  · have hs := Req.run_split (st := .header) trivial U lost mc hl
    rw [h] at hs
    rw [← hfull, hs]
    exact List.prefix_append _ _

/-- **C12 end to end, Authorizer (reading and/or writing handler), the wire ends behind the
preamble: closed description of the final state.** -/
theorem eof_in_auth_tail_closed_e2e {p : Preamble} {recs tail : List Rec} {b mc : Nat} {rd : ARead} {wr : Bool}
    {data : Bytes} {st : ExitStatus} {more : List (List HOp × Bool)} {t : Transport} {fuel : Nat} {X lost : Bytes}
    (hwf : WellFormedPreamble p recs) (hrole : p.role = 2)
    (hpairs : ∀ q ∈ p.pairs, (NV.enc q).length ≤ alignedBufsize b)
    (hnoise : NoiseFits (alignedBufsize b) recs)
    (htail : ∀ r ∈ tail, StreamNoise p.id r) (htn : NoiseFits (alignedBufsize b) tail)
    (hnb : ∀ r ∈ tail, r.rtype.toNat ≠ RT.beginRequest)
    (hwd : wr = false → data = [])
    (hcut : X ++ lost = serAll tail)
    (hin : t.input = serAll recs ++ X) (hben : Ben t) (hem : t.endMode = .eof) (hev : hsCount t.events = 0)
    (hfuel : t.rd.length + t.wr.length + 1 ≤ fuel)
    (hsize : 6 * t.input.length + 26 ≤ 100000) (hhf : wcost data.length + 8 ≤ 1000) :
    ∃ c', runTask fuel (connS b mc t ((aHandler rd wr data st, true) :: more)) 0 none = (c', "RET") ∧
      (AuthCutFail2 p recs tail rd mc data more lost t c' ∨
       ∃ t₁ t₂ O₁ O₂ U, AuthCutEnd p recs tail t₁ t₂ O₁ O₂ U rd mc data st more lost t c') := by
  have hidle : ∀ r ∈ tail, IdleNoise r := idle_of_noBegin (fun r hr => (htail r hr).1) hnb
  have ok := aok_of (mc := mc) (rd := rd) (st := st) t.wlog 0 more hwf hrole hpairs hnoise htail htn hwd hhf
  have hmem : ∀ t1 t2 : List Rec, (C07U.cfgA p recs tail b mc rd wr data st t.wlog 0 more).body = t1 ++ t2 →
      ∀ e ∈ t2, e ∈ tail := by
    intro t1 t2 hsp e he
    have : e ∈ (C07U.cfgA p recs tail b mc rd wr data st t.wlog 0 more).body := by
      rw [hsp]; exact List.mem_append_right _ he
    exact this
  have hgood : ∀ t1 t2 : List Rec, (C07U.cfgA p recs tail b mc rd wr data st t.wlog 0 more).body = t1 ++ t2 →
      GoodNext (alignedBufsize b) mc t2 (serAll dummyRecs ++ []) := fun t1 t2 hsp =>
    idle_front dummy_wf b mc (fun q hq => by cases hq) (dummy_fits _) (fun e he => hidle e (hmem t1 t2 hsp e he))
      (fun e he hg => htn e (hmem t1 t2 hsp e he) hg) []
  have hst : E2E.FStage (cutX (C07U.cfgA p recs tail b mc rd wr data st t.wlog 0 more) X)
      (connS b mc t ((aHandler rd wr data st, true) :: more)) :=
    .start (raw := []) rfl (by show [] ++ t.input = _; rw [hin]; rfl) (Nat.zero_le _) rfl hben rfl rfl rfl hev
  obtain ⟨c', fin, hrun, hres⟩ :=
    run_authC ok (X := X) (lost := lost) (Zd := serAll dummyRecs ++ []) hcut
      (fun t1 t2 h => (hgood t1 t2 h).1) (fun t1 t2 h => (hgood t1 t2 h).2)
      _ 0 fuel hst hem rfl (by show ans t + 1 ≤ fuel; unfold ans; omega) hsize
  have hL1 : (C07U.cfgA p recs tail b mc rd wr data st t.wlog 0 more).L1 = t.wlog ++ owedPreamble p mc recs := rfl
  have hLeq : ∀ O1 O2 : Bytes, ((C07U.cfgA p recs tail b mc rd wr data st t.wlog 0 more).L1 ++ O1) ++
      (C07U.cfgA p recs tail b mc rd wr data st t.wlog 0 more).D ++ O2 ++
      (C07U.cfgA p recs tail b mc rd wr data st t.wlog 0 more).epi =
      t.wlog ++ (owedPreamble p mc recs ++ O1 ++ streamRecords 6 p.id data ++ O2 ++ epilogue p.id st) := by
    intro O1 O2
    show ((t.wlog ++ owedPreamble p mc recs) ++ O1) ++ streamRecords 6 p.id data ++ O2 ++
      makeRequestEpilogue p.id st [RT.stdout, RT.stderr] = _
    rw [epilogue_eq]
    simp only [List.append_assoc]
  rcases hres with ⟨i, ⟨⟨hsp, hO, hU⟩, hk⟩, hkp, hem', _, _, _, hend⟩ | ⟨hfin, hfa, _, _⟩
  · rcases hend with ⟨_, hp⟩ | ⟨rfl, hf⟩
    · rw [hp.em] at hem'; cases hem'
    · obtain ⟨F, hF, hlg⟩ := hf.log
      have hFU : F = i.U := by
        have e : serAll i.t2 ++ (serAll dummyRecs ++ []) = i.U ++ (lost ++ (serAll dummyRecs ++ [])) := by
          rw [← hU, List.append_assoc]
        have hF' : F ++ (lost ++ (serAll dummyRecs ++ [])) = serAll i.t2 ++ (serAll dummyRecs ++ []) := hF
        rw [e] at hF'
        exact List.append_cancel_right hF'
      subst hFU
      have hs2 : ∀ e ∈ i.t2, IdleNoise e := fun e he => hidle e (hmem i.t1 i.t2 hsp e he)
      refine ⟨c', hrun, Or.inr ⟨i.t1, i.t2, i.O1, i.O2, i.U, hsp, hO, hU, hf.ph,
        ⟨hkp.hs, hkp.ev _ List.mem_cons_self⟩, fun s hs => hkp.ev _ (List.mem_cons_of_mem _ hs), hkp.sc,
        Or.inl ⟨hk, ?_, idle_out_prefix mc hs2 hU⟩⟩⟩
      rw [hlg, CIdx.L, hLeq]
      simp only [List.append_assoc]
      rfl
  · subst hfin
    rcases hfa with ⟨s1, s2, O1, O2, U', hsp, hO, hU, hrd, hfu⟩ | hfe
    · refine ⟨c', hrun, Or.inr ⟨s1, s2, O1, O2, U', hsp, hO, hU, hfu.ph, ⟨hfu.ev.1, hfu.ev.2⟩,
        fun s hs => hrd s hs, hfu.sc, Or.inr ⟨hfu.nokeep, ?_⟩⟩⟩
      rw [hfu.log, gU_LU]
      exact hLeq O1 O2
    · obtain ⟨O1, O2, hpre, hlg⟩ := hfe.wlog
      refine ⟨c', hrun, Or.inl ⟨hfe.phase, ⟨O1, O2, hpre, ?_⟩, hfe.input, hfe.lost, ⟨hfe.ev.1, hfe.ev.2⟩,
        fun s hs => hfe.reads s hs, hfe.scripts⟩⟩
      rw [hlg, hL1]
      show ((t.wlog ++ owedPreamble p mc recs) ++ O1) ++ streamRecords 6 p.id data = _
      simp only [List.append_assoc]

/-- **C12 end to end, Authorizer with tail traffic: end-of-file at ANY offset `k`, closed form.** -/
theorem eof_any_offset_auth_closed_e2e {p : Preamble} {recs tail : List Rec} {b mc : Nat} {rd : ARead} {wr : Bool}
    {data : Bytes} {st : ExitStatus} {more : List (List HOp × Bool)} {t : Transport} {fuel : Nat} (k : Nat)
    (hwf : WellFormedPreamble p recs) (hrole : p.role = 2)
    (hpairs : ∀ q ∈ p.pairs, (NV.enc q).length ≤ alignedBufsize b)
    (hnoise : NoiseFits (alignedBufsize b) recs)
    (htail : ∀ r ∈ tail, StreamNoise p.id r) (htn : NoiseFits (alignedBufsize b) tail)
    (hnb : ∀ r ∈ tail, r.rtype.toNat ≠ RT.beginRequest)
    (hwd : wr = false → data = [])
    (hin : t.input = (serAll recs ++ serAll tail).take k) (hben : Ben t) (hem : t.endMode = .eof)
    (hev : hsCount t.events = 0)
    (hfuel : t.rd.length + t.wr.length + 1 ≤ fuel) (hsize : 6 * t.input.length + 26 ≤ 100000)
    (hhf : wcost data.length + 8 ≤ 1000) :
    ∃ c', runTask fuel (connS b mc t ((aHandler rd wr data st, true) :: more)) 0 none = (c', "RET") ∧
      c'.phase = .finished ∧
      ((k < (serAll recs).length ∧ c'.env.tr.input = [] ∧ hsCount c'.env.tr.events = 0 ∧
          ∃ out, c'.env.tr.wlog = t.wlog ++ out ∧ out <+: owedPreamble p mc recs) ∨
       ((serAll recs).length ≤ k ∧
          (AuthCutFail2 p recs tail rd mc data more ((serAll tail).drop (k - (serAll recs).length)) t c' ∨
           ∃ t₁ t₂ O₁ O₂ U, AuthCutEnd p recs tail t₁ t₂ O₁ O₂ U rd mc data st more
             ((serAll tail).drop (k - (serAll recs).length)) t c'))) := by
  by_cases hk : k < (serAll recs).length
  · obtain ⟨c', h1, h2, h3, h4, _, h6, h7⟩ := eof_in_preamble_e2e_partial (serAll tail) b mc k
      ((aHandler rd wr data st, true) :: more) t fuel hwf hpairs hnoise hk hin hben hem hfuel (by omega)
    exact ⟨c', h1, h2, Or.inl ⟨hk, h3, h4.trans hev, _, h6, h7⟩⟩
  · have hk' : (serAll recs).length ≤ k := Nat.le_of_not_lt hk
    obtain ⟨d, rfl⟩ : ∃ d, k = (serAll recs).length + d := ⟨k - (serAll recs).length, by omega⟩
    rw [take_len_add] at hin
    rw [show (serAll recs).length + d - (serAll recs).length = d by omega]
    obtain ⟨c', h1, h2⟩ := eof_in_auth_tail_closed_e2e (more := more) (fuel := fuel) hwf hrole hpairs hnoise htail htn
      hnb hwd (List.take_append_drop d (serAll tail)) hin hben hem hev hfuel hsize hhf
    refine ⟨c', h1, ?_, Or.inr ⟨hk', h2⟩⟩
    rcases h2 with h | ⟨_, _, _, _, _, h⟩
    · exact h.phase
    · exact h.phase

/-! ## Non-vacuity -/
namespace Example7
open Fcgi.C01.Example Fcgi.C07E.Example Fcgi.C07U.Example Fcgi.C12E.Example6

/-- every offset of the example wire of `C07U` (68 bytes), all three reads, with and without a
Stdout write of `"ok"`: the task returns, at most one handler start -/
example (k : Nat) (hk : k ≤ 68) (rd : ARead) (wr : Bool) :
    ∃ c', runTask 9 (connS 64 10 (cutT k) [(aHandler rd wr (if wr then [111, 107] else []) (.complete 0), true)]) 0 none =
        (c', "RET") ∧ c'.phase = .finished ∧ hsCount c'.env.tr.events ≤ 1 := by
  have hinl : (cutT k).input.length ≤ 68 := by
    show ((serAll recsA ++ serAll aTail).take k).length ≤ 68
    rw [List.length_take]; omega
  obtain ⟨c', h1, h2, h3⟩ := eof_any_offset_auth_closed_e2e (p := preA) (recs := recsA) (tail := aTail) (b := 64)
    (mc := 10) (rd := rd) (wr := wr) (data := if wr then [111, 107] else []) (st := .complete 0) (more := [])
    (t := cutT k) (fuel := 9) k recsA_wf rfl (fun q hq => by cases hq)
    (recsA_fits _) aTail_noise aTail_fits aTail_noBegin (fun h => by rw [h]; rfl) rfl (cutT_ben k) rfl rfl
    (by show [RdAns.n 37, .pending, .n 3].length + ([] : List WrAns).length + 1 ≤ 9; decide) (by omega)
    (by cases wr <;> decide)
  refine ⟨c', h1, h2, ?_⟩
  rcases h3 with ⟨_, _, h, _⟩ | ⟨_, h | ⟨_, _, _, _, _, h⟩⟩
  · omega
  · have := h.one_handler.1; omega
  · have := h.one_handler.1; omega

end Example7

end Fcgi.C12E
