import Fcgi.Props.C10
/-!
# C10 — clones of a `StreamWriter`, made at any moment

The property quantifies over "1..3 writers (stdout, stderr, clones)".  On the pinned tree `Clone` copied the record header
*including* the remaining lengths `poll_write` counts down in place, so a clone taken while its source was inside a record
(write `Pending`, cancelled, or failed with the lock kept) looked mid-record without holding the lock and every `poll_write`
on it panicked ("lock was dropped mid-write") — found by the mid-schedule clones of the C10 family, repaired in /repo
(`fix:` commit, `known_findings.json`), regression guard `seeded/REVERT-…`, minimised history in `corpus/C10.txt`.
The model's `Writer.clone` is the repaired function; the theorems below state what the repair guarantees for a clone of a
writer in ANY state.
-/
namespace Fcgi.C10Clone
open Fcgi Fcgi.Async Fcgi.C10

/-- A clone is idle whatever state its source is in: no lock, nothing left of a record. -/
theorem clone_idle (w : Writer) : w.clone.lock = .none ∧ w.clone.isWriting = false := by
  simp [Writer.clone, Writer.isWriting]

/-- … and writes the same stream of the same request. -/
theorem clone_stream (w : Writer) : w.clone.rtype = w.rtype ∧ w.clone.id = w.id := by
  simp [Writer.clone]

/-- The defect, as a statement about the OLD clone (`{ w with lock := none, headIdx := 0, origLen := 0 }`): for a source inside
a record its first non-empty `poll_write` panics — whatever the mutex and the transport do. -/
theorem old_clone_panics (w : Writer) (me : Nat) (buf : Bytes) (m : MutexSt) (t : Transport)
    (hb : buf ≠ []) (hw : w.isWriting = true) :
    ({ w with lock := .none, headIdx := 0, origLen := 0 } : Writer).pollWrite me buf m t
      = ({ w with lock := .none, headIdx := 0, origLen := 0 }, m, t, .panic "async_io:71 lock was dropped mid-write") := by
  have hne : buf.isEmpty = false := by cases buf <;> simp_all
  have hw' : ({ w with lock := .none, headIdx := 0, origLen := 0 } : Writer).isWriting = true := by
    simpa [Writer.isWriting] using hw
  unfold Writer.pollWrite
  simp [hne, hw']

/-- The repaired clone never hits that assertion: its first `poll_write` of a non-empty buffer sets up a fresh record for exactly
`min |buf| 65535` bytes and then competes for the mutex like any idle writer — it is `Pending` while the mutex is taken (for instance
by its source, still inside its record). -/
theorem clone_first_poll_waits (w : Writer) (me : Nat) (buf : Bytes) (owner : Nat) (t : Transport)
    (hb : buf ≠ []) :
    ∃ w', (w.clone.pollWrite me buf (some owner) t) = (w', some owner, t, .pending) ∧
      w'.contentLen = min buf.length 65535 ∧ w'.origLen = min buf.length 65535 := by
  have hne : buf.isEmpty = false := by cases buf <;> simp_all
  have hlen : 0 < buf.length := by cases buf <;> simp_all
  unfold Writer.pollWrite
  simp only [hne, Writer.clone, Writer.isWriting]
  simp [lockPoll, Nat.ne_of_gt, hlen]
  rw [if_neg (by omega)]
  exact ⟨_, rfl, rfl, rfl⟩

/-- With the mutex free the clone's first poll goes straight into the write loop of a fresh record: whatever the transport answers,
the result is not the "lock was dropped mid-write" panic (nor any other assertion of `poll_write`'s prologue). -/
theorem clone_first_poll_free (w : Writer) (me : Nat) (buf : Bytes) (t : Transport) (hb : buf ≠ []) :
    w.clone.pollWrite me buf none t =
      (let c := min buf.length 65535
       let w0 : Writer := { rtype := w.rtype, id := w.id, contentLen := c, padLen := RecordHeader.autoPadding c, origLen := c, lock := .held }
       match writeLoop (8 + c + RecordHeader.autoPadding c + 1) w0 w0.headBytes (buf.take c) t with
       | (w', t', .ready n) => ({ w' with lock := .none }, none, t', .ready n)
       | (w', t', r) => (w', some (me + 1), t', r)) := by
  have hne : buf.isEmpty = false := by cases buf <;> simp_all
  have hlen : 0 < buf.length := by cases buf <;> simp_all
  unfold Writer.pollWrite
  simp only [hne, Writer.clone, Writer.isWriting]
  simp [lockPoll, Nat.ne_of_gt, hlen]
  rw [if_neg (by omega)]
  rfl

/-- Non-vacuity, and the corpus history `corpus-clone-mid-record` inside the model: the source accepts 3 bytes of its header and
is `Pending`; its clone's write is `Pending` too (mutex taken), not a panic; once the source has finished, the clone writes its
own complete record. -/
example :
    let src : Writer := { rtype := RT.stdout, id := 7 }
    let t0 : Transport := { input := [], endMode := .pend, rd := [], wr := [.n 3, .pending], fl := [] }
    let r1 := src.pollWrite 0 [0x41, 0x42, 0x43, 0x44] none t0            -- source: 3 header bytes out, then Pending
    let c := r1.1.clone                                                    -- clone taken mid-record
    let r2 := c.pollWrite 1 [0x58, 0x59, 0x5a] r1.2.1 r1.2.2.1             -- clone: waits for the mutex
    let r3 := r1.1.pollWrite 0 [0x41, 0x42, 0x43, 0x44] r2.2.1 r2.2.2.1    -- source finishes its record
    let r4 := r2.1.pollWrite 1 [0x58, 0x59, 0x5a] r3.2.1 r3.2.2.1          -- clone writes its own record
    r1.2.2.2 = .pending ∧ r1.1.isWriting = true ∧ r2.2.2.2 = .pending ∧ r3.2.2.2 = .ready 4 ∧ r4.2.2.2 = .ready 3 ∧
    r4.2.2.1.wlog = recordOf 6 7 [0x41, 0x42, 0x43, 0x44] ++ recordOf 6 7 [0x58, 0x59, 0x5a] := by
  decide

end Fcgi.C10Clone
