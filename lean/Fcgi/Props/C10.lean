import Fcgi.Model.Async
import Fcgi.Proofs.AsyncWriter
import Fcgi.Props.C17
/-!
# C10 — Output records are complete, never interleaved, carry exactly the written bytes

Everything is stated over the executable poll-level model `Model/Async.lean`
(`Writer.pollWrite` / `Writer.pollFlush` = `StreamWriter::{poll_write, poll_flush}`,
`AReq.pollOutput` = `Request::poll_output`, `lockPoll` = `RepeatableLockFuture::poll`,
`Transport.writeV` = the connection's `poll_write_vectored` with scripted answers).

Reading guide
* §1 `recordOf` — the record a completed write must have produced; it is well formed.
* §2 `WInv` / `writeLoop_spec` — invariant of a write in progress, the vectored write loop.
* §3 `single_write` — one write, however it is cut up by the transport, emits exactly one record.
* §4 `flush_under_lock`.
* §5 `OwnInv`, `exclusion`, `only_owner_writes` — the mutex discipline for arbitrary poll orders.
* §6 `no_interleave` — for well-behaved callers the byte log is a sequence of complete records
  (in completion order) followed by at most one partial record of the current mutex owner.
-/
namespace Fcgi.C10
open Fcgi Fcgi.Async

export Fcgi.Async (recordOf WInv LoopInv Consistent Touched)

/-! ## 1. The record of a completed write -/

/-- `set_lengths`: the padding is below 8 and makes the body a multiple of 8 (C17 `padding_rule`). -/
theorem padding_ok (n : Nat) :
    RecordHeader.autoPadding n < 8 ∧ (n + RecordHeader.autoPadding n) % 8 = 0 :=
  C17.padding_rule n

theorem recordOf_length (rtype id : Nat) (payload : Bytes) :
    (recordOf rtype id payload).length = 8 + payload.length + RecordHeader.autoPadding payload.length := by
  simp [recordOf, C17.header_length, zeros]
  omega

/-- The body (payload + padding) of an emitted record is a multiple of 8, the padding is below 8. -/
theorem recordOf_aligned (rtype id : Nat) (payload : Bytes) :
    (recordOf rtype id payload).length % 8 = 0 ∧ RecordHeader.autoPadding payload.length < 8 := by
  rw [recordOf_length]
  have := padding_ok payload.length
  omega

/-- An emitted record is a complete, well-formed record: its first 8 bytes decode (whatever
follows) to the header with the writer's stream type, the request's id, the payload length and the
automatic padding; then come exactly the payload and that many zero bytes. -/
theorem recordOf_wellformed (rtype id : Nat) (payload rest : Bytes)
    (ht : RT.valid rtype = true) (hi : id < 65536) (hp : payload.length ≤ 65535) :
    RecordHeader.fromBytes (recordOf rtype id payload ++ rest) =
      some (.ok ⟨rtype, id, payload.length, RecordHeader.autoPadding payload.length⟩) ∧
    (recordOf rtype id payload ++ rest).drop 8 =
      payload ++ zeros (RecordHeader.autoPadding payload.length) ++ rest := by
  have hpad := (padding_ok payload.length).1
  constructor
  · unfold recordOf
    rw [List.append_assoc, List.append_assoc]
    exact C17.header_roundtrip _ ht hi (by show payload.length < 65536; omega)
      (by show RecordHeader.autoPadding payload.length < 256; omega) _
  · unfold recordOf
    rw [List.append_assoc, List.append_assoc, List.drop_append_of_le_length (by rw [C17.header_length]; omega),
      List.drop_of_length_le (by rw [C17.header_length]; omega)]
    simp

/-! ## 2. The invariant of a write in progress and the write loop -/

/-- `WInv w buf sent` in the words of the property: with `n = min |buf| 65535` and
`r = recordOf w.rtype w.id (buf.take n)`, `sent` is the prefix of `r` written so far and the rest
of `r` is exactly what the next vectored write offers — computed with the **original** header. -/
theorem WInv_unfold {w : Writer} {buf sent : Bytes} (h : WInv w buf sent) :
    let n := min buf.length 65535
    let r := recordOf w.rtype w.id (buf.take n)
    (w.lock = .held ∨ (w.lock = .polling ∧ sent = [])) ∧
    w.origLen = n ∧
    sent <+: r ∧
    r.drop sent.length =
      (RecordHeader.toBytes ⟨w.rtype, w.id, n, RecordHeader.autoPadding n⟩).drop w.headIdx
        ++ (buf.take n).drop (n - w.contentLen) ++ zeros w.padLen ∧
    w.headIdx ≤ 8 ∧ w.contentLen ≤ n ∧ w.padLen ≤ RecordHeader.autoPadding n ∧
    (w.headIdx < 8 → w.contentLen = n ∧ w.padLen = RecordHeader.autoPadding n) := by
  intro n r
  have hlen : (buf.take n).length = n := by
    rw [List.length_take]; omega
  have hl := h.loop
  have hsplit : r = sent ++ remaining w (buf.take n) := hl.split
  refine ⟨h.lock, h.orig, ⟨_, hsplit.symm⟩, ?_, hl.hidx, ?_, ?_, ?_⟩
  · rw [hsplit, List.drop_left']
    · simp only [remaining, origHead, hlen]
    · rfl
  · have := hl.clen; rwa [hlen] at this
  · have := hl.plen; rwa [hlen] at this
  · have := hl.early; rwa [hlen] at this

/-- **The re-encoded header is harmless.**  `poll_write` recomputes `head = this.head.to_bytes()` on
every poll from the current, already counted-down lengths.  Under the invariant the part of it that is
still offered, `head[head_idx..]`, equals the same part of the header the record was started with:
the lengths are only counted down once `head_idx = 8`, and then that slice is empty. -/
theorem reencoded_head_harmless {w : Writer} {buf sent : Bytes} (h : WInv w buf sent) :
    w.headBytes.drop w.headIdx =
      (RecordHeader.toBytes ⟨w.rtype, w.id, min buf.length 65535,
        RecordHeader.autoPadding (min buf.length 65535)⟩).drop w.headIdx := by
  have hlen : (buf.take (min buf.length 65535)).length = min buf.length 65535 := by
    rw [List.length_take]; omega
  have := head_harmless h.loop
  simpa only [origHead, hlen] using this

/-- The lengths in `head` are never counted down while part of the header is still unwritten
(so "part of the header and part of the payload accepted in one vectored write" leaves
`head_idx = 8`, and a decrement with `head_idx < 8` cannot happen). -/
theorem no_early_countdown {w : Writer} {buf sent : Bytes} (h : WInv w buf sent)
    (hc : w.contentLen < min buf.length 65535 ∨ w.padLen < RecordHeader.autoPadding (min buf.length 65535)) :
    w.headIdx = 8 := by
  have hlen : (buf.take (min buf.length 65535)).length = min buf.length 65535 := by
    rw [List.length_take]; omega
  have hl := h.loop
  have h8 := hl.hidx
  by_cases hlt : w.headIdx < 8
  · have := hl.early hlt
    rw [hlen] at this
    omega
  · omega

/-- **`writeLoop_spec`.**  From a state satisfying the loop invariant for payload `p` (the truncated
buffer) with `sent` already out, and with fuel exceeding the number of bytes still to write, the loop
appends some `delta` to the byte log; `delta` is a prefix of the remaining record bytes; on `Ready`
it is all of them, the writer is no longer writing and the reported count is `|p|`; on `Pending` /
`Err` the invariant holds again for `sent ++ delta`; it never panics (the three guards
`content_length > buf.len()`, "transport accepted more than offered" and the model's fuel are
unreachable). -/
theorem writeLoop_spec (fuel : Nat) (w : Writer) (head p : Bytes) (t : Transport) (sent : Bytes)
    (hinv : LoopInv w p sent) (hhead : head.drop w.headIdx = (origHead w p).drop w.headIdx)
    (hfuel : (remaining w p).length < fuel) :
    ∃ w' t' res delta,
      writeLoop fuel w head p t = (w', t', res) ∧ t'.wlog = t.wlog ++ delta ∧
      delta <+: remaining w p ∧
      LoopInv w' p (sent ++ delta) ∧
      (∀ k, res = .ready k → delta = remaining w p ∧ w'.isWriting = false ∧ k = p.length ∧
        sent ++ delta = recordOf w.rtype w.id p) ∧
      (res = .pending ∨ (∃ e, res = .err e) → w'.isWriting = true) ∧
      (∀ s, res ≠ .panic s) := by
  rcases hrun : writeLoop fuel w head p t with ⟨w', t', res⟩
  rw [remaining_length w p hinv.clen] at hfuel
  obtain ⟨delta, hlog, hinv', ⟨f1, f2, _, _⟩, hrdy, hpend, hpanic⟩ :=
    Async.writeLoop_spec fuel w head p t sent hinv hhead hfuel w' t' res hrun
  have hrem : remaining w p = delta ++ remaining w' p := by
    have h1 := hinv.split
    have h2 := hinv'.split
    rw [f1, f2, h1, List.append_assoc] at h2
    exact List.append_cancel_left h2
  refine ⟨w', t', res, delta, rfl, hlog, ⟨_, hrem.symm⟩, hinv', ?_, hpend, hpanic⟩
  intro k hk
  obtain ⟨hk1, hk2⟩ := hrdy k hk
  have hnil := remaining_nil hinv' hk2
  refine ⟨by rw [hrem, hnil, List.append_nil], hk2, hk1, ?_⟩
  have := hinv'.split
  rw [hnil, List.append_nil, f1, f2] at this
  exact this.symm

/-! ## 3. One write emits exactly one record -/

/-- `poll_write(&[])`: no record, nothing written, nothing locked, whatever the writer state. -/
theorem empty_write (w : Writer) (me : Nat) (m : MutexSt) (t : Transport) :
    w.pollWrite me [] m t = (w, m, t, .ready 0) := by
  simp [Writer.pollWrite]

/-- One observed poll of a writer: state before, state after, result. -/
structure PollObs where
  w : Writer
  m : MutexSt
  t : Transport
  w' : Writer
  m' : MutexSt
  t' : Transport
  res : WRes

/-- The bytes this poll appended to the byte log. -/
def PollObs.delta (o : PollObs) : Bytes := o.t'.wlog.drop o.t.wlog.length

/-- `os` are consecutive polls `poll_write(buf)` of writer number `me`, the first one in writer state
`w`.  Between two polls the rest of the world may do anything to the transport and to the mutex, as
long as it respects this writer's ownership: the mutex names this writer as owner exactly while its
lock future is `Done` (`Consistent`; in particular, while the writer holds the mutex nobody else
takes it, and before it acquired the mutex the mutex is free or owned by somebody else). -/
def Chain (me : Nat) (buf : Bytes) : Writer → List PollObs → Prop
  | _, [] => True
  | w, o :: os =>
    o.w = w ∧ o.w.pollWrite me buf o.m o.t = (o.w', o.m', o.t', o.res) ∧
    Consistent (me + 1) o.w.lock o.m ∧ Chain me buf o.w' os

/-- Either the write has not started (idle writer) or it is in progress with `sent` out. -/
def Started (w : Writer) (buf sent : Bytes) : Prop :=
  (w.lock = .none ∧ w.isWriting = false ∧ sent = []) ∨ WInv w buf sent

theorem poll_spec (me : Nat) (buf sent : Bytes) (hb : buf ≠ []) (o : PollObs)
    (hs : Started o.w buf sent) (hc : Consistent (me + 1) o.w.lock o.m)
    (h : o.w.pollWrite me buf o.m o.t = (o.w', o.m', o.t', o.res)) :
    WritePost me o.w buf sent o.t o.w' o.m' o.t' o.res := by
  rcases hs with ⟨hl, hw, rfl⟩ | hs
  · refine pollWrite_spec_idle o.w me buf o.m o.t hb hl hw ?_ h
    intro hm
    have := hc.mpr hm
    rw [hl] at this; cases this
  · exact pollWrite_spec o.w me buf o.m o.t sent hb hs hc h

theorem delta_eq {o : PollObs} {d : Bytes} (h : o.t'.wlog = o.t.wlog ++ d) : o.delta = d := by
  simp [PollObs.delta, h]

theorem chain_aux (me : Nat) (buf : Bytes) (hb : buf ≠ []) (o : PollObs) (k : Nat) (hk : o.res = .ready k) :
    ∀ (os : List PollObs) (w : Writer) (sent : Bytes), Started w buf sent →
      Chain me buf w (os ++ [o]) → (∀ x ∈ os, ∀ j, x.res ≠ .ready j) →
      k = min buf.length 65535 ∧
      sent ++ (os ++ [o]).flatMap PollObs.delta = recordOf w.rtype w.id (buf.take k) ∧
      o.m' = none ∧ o.w'.lock = .none ∧ o.w'.isWriting = false ∧
      ∀ x ∈ os, (x.res = .pending ∨ ∃ e, x.res = .err e) ∧
        (∀ e, x.res = .err e → x.m' = some (me + 1) ∧ x.w'.lock = .held) ∧
        (x.res = .pending → Consistent (me + 1) x.w'.lock x.m') := by
  intro os
  induction os with
  | nil =>
    intro w sent hs hch _
    obtain ⟨rfl, hp, hc, _⟩ := hch
    obtain ⟨_, _, d, hd, hrdy, _, _, _⟩ := poll_spec me buf sent hb o hs hc hp
    obtain ⟨h1, h2, h3, h4, h5⟩ := hrdy k hk
    refine ⟨h1, ?_, h3, h4, h5, fun x hx => by cases hx⟩
    simp [delta_eq hd, h2]
  | cons x xs ih =>
    intro w sent hs hch hnr
    obtain ⟨rfl, hp, hc, hrest⟩ := hch
    obtain ⟨f1, f2, d, hd, _, hpend, herr, hpanic⟩ := poll_spec me buf sent hb x hs hc hp
    have hx : x.res = .pending ∨ ∃ e, x.res = .err e := by
      cases hr : x.res with
      | ready j => exact absurd hr (hnr x (List.mem_cons_self ..) j)
      | pending => exact Or.inl rfl
      | err e => exact Or.inr ⟨e, rfl⟩
      | panic s => exact absurd hr (hpanic s)
    obtain ⟨hinv', hc'⟩ := hpend hx
    obtain ⟨h1, h2, h3, h4, h5, h6⟩ :=
      ih x.w' (sent ++ d) (Or.inr hinv') hrest (fun y hy => hnr y (List.mem_cons_of_mem _ hy))
    refine ⟨h1, ?_, h3, h4, h5, ?_⟩
    · rw [f1, f2] at h2
      rw [← h2]
      simp [delta_eq hd]
    · intro y hy
      rcases List.mem_cons.mp hy with rfl | hy
      · exact ⟨hx, herr, fun _ => hc'⟩
      · exact h6 y hy

/-- **`single_write`.**  Writer number `me` is idle (`lock = None`, not writing) and is then polled
with the same non-empty `buf` any number of times (`os ++ [o]`), the rest of the world respecting its
ownership of the mutex in between (`Chain`).  If `o` is the first poll to return `Ready(k)`, then
* `k = min |buf| 65535`,
* the bytes appended to the byte log by all these polls together are exactly the one record
  `recordOf w.rtype w.id (buf.take k)` — each payload byte once, however the transport cut up or
  delayed the vectored writes,
* the mutex is released and the writer is idle again,
* every earlier poll returned `Pending` or `Err` (never a panic); after `Err` the lock is **kept**
  (mutex still owned by this writer). -/
theorem single_write (me : Nat) (buf : Bytes) (w0 : Writer) (os : List PollObs) (o : PollObs) (k : Nat)
    (hb : buf ≠ []) (hidle : w0.lock = .none ∧ w0.isWriting = false)
    (hchain : Chain me buf w0 (os ++ [o]))
    (hfirst : ∀ x ∈ os, ∀ j, x.res ≠ .ready j) (hk : o.res = .ready k) :
    k = min buf.length 65535 ∧
    (os ++ [o]).flatMap PollObs.delta = recordOf w0.rtype w0.id (buf.take k) ∧
    o.m' = none ∧ o.w'.lock = .none ∧ o.w'.isWriting = false ∧
    ∀ x ∈ os, (x.res = .pending ∨ ∃ e, x.res = .err e) ∧
      (∀ e, x.res = .err e → x.m' = some (me + 1) ∧ x.w'.lock = .held) ∧
      (x.res = .pending → Consistent (me + 1) x.w'.lock x.m') := by
  have := chain_aux me buf hb o k hk os w0 [] (Or.inl ⟨hidle.1, hidle.2, rfl⟩) hchain hfirst
  simpa using this

/-- `n` polls in a row with nothing happening in between (mutex and transport threaded through);
returns the results and the final state. -/
def pollsN (me : Nat) (buf : Bytes) : Nat → Writer → MutexSt → Transport → List WRes × Writer × MutexSt × Transport
  | 0, w, m, t => ([], w, m, t)
  | n + 1, w, m, t =>
    let r := w.pollWrite me buf m t
    let rest := pollsN me buf n r.1 r.2.1 r.2.2.1
    (r.2.2.2 :: rest.1, rest.2)

theorem pollsN_aux (me : Nat) (buf : Bytes) (hb : buf ≠ []) (k : Nat) :
    ∀ (n : Nat) (w : Writer) (m : MutexSt) (t : Transport) (sent : Bytes) (rs : List WRes) w' m' t',
      Started w buf sent → Consistent (me + 1) w.lock m →
      pollsN me buf (n + 1) w m t = (rs ++ [.ready k], w', m', t') → (∀ r ∈ rs, ∀ j, r ≠ .ready j) →
      k = min buf.length 65535 ∧
      ∃ d, t'.wlog = t.wlog ++ d ∧ sent ++ d = recordOf w.rtype w.id (buf.take k) ∧
      m' = none ∧ w'.lock = .none ∧ w'.isWriting = false ∧
      ∀ r ∈ rs, r = .pending ∨ ∃ e, r = .err e := by
  intro n
  induction n with
  | zero =>
    intro w m t sent rs w' m' t' hs hc hrun hnr
    simp only [pollsN] at hrun
    have hlen : rs = [] := by
      have := congrArg (fun x => x.1.length) hrun
      simp only [List.length_append, List.length_cons, List.length_nil] at this
      exact List.eq_nil_of_length_eq_zero (by omega)
    subst hlen
    rcases hp : w.pollWrite me buf m t with ⟨w1, m1, t1, r1⟩
    rw [hp] at hrun
    simp at hrun
    obtain ⟨rfl, rfl, rfl, rfl⟩ := hrun
    obtain ⟨_, _, d, hd, hrdy, _, _, _⟩ := poll_spec me buf sent hb ⟨w, m, t, w1, m1, t1, _⟩ hs hc hp
    obtain ⟨h1, h2, h3, h4, h5⟩ := hrdy k rfl
    exact ⟨h1, d, hd, h2, h3, h4, h5, fun r hr => by cases hr⟩
  | succ n ih =>
    intro w m t sent rs w' m' t' hs hc hrun hnr
    rw [pollsN] at hrun
    rcases hp : w.pollWrite me buf m t with ⟨w1, m1, t1, r1⟩
    rw [hp] at hrun
    simp only at hrun
    rcases hrest : pollsN me buf (n + 1) w1 m1 t1 with ⟨rs1, st1⟩
    rw [hrest] at hrun
    simp only [Prod.mk.injEq] at hrun
    obtain ⟨hrs, rfl⟩ := hrun
    have hlen1 : rs1.length = n + 1 := by
      have : ∀ n w m t, (pollsN me buf n w m t).1.length = n := by
        intro n; induction n with
        | zero => intros; rfl
        | succ n ih => intro w m t; simp [pollsN, ih]
      have h := this (n + 1) w1 m1 t1
      rw [hrest] at h; exact h
    cases rs with
    | nil =>
      have := congrArg List.length hrs
      simp only [List.length_append, List.length_cons, List.length_nil] at this
      omega
    | cons r0 rs' =>
      simp only [List.cons_append, List.cons.injEq] at hrs
      obtain ⟨rfl, rfl⟩ := hrs
      obtain ⟨f1, f2, d, hd, _, hpend, _, hpanic⟩ :=
        poll_spec me buf sent hb ⟨w, m, t, w1, m1, t1, r1⟩ hs hc hp
      have hx : r1 = .pending ∨ ∃ e, r1 = .err e := by
        cases r1 with
        | ready j => exact absurd rfl (hnr _ (List.mem_cons_self ..) j)
        | pending => exact Or.inl rfl
        | err e => exact Or.inr ⟨e, rfl⟩
        | panic s => exact absurd rfl (hpanic s)
      obtain ⟨hinv', hc'⟩ := hpend hx
      obtain ⟨h1, d2, hd2, h2, h3, h4, h5, h6⟩ :=
        ih w1 m1 t1 (sent ++ d) rs' _ _ _ (Or.inr hinv') hc' hrest
          (fun y hy => hnr y (List.mem_cons_of_mem _ hy))
      refine ⟨h1, d ++ d2, ?_, ?_, h3, h4, h5, ?_⟩
      · rw [hd2, hd, List.append_assoc]
      · simp only at f1 f2
        rw [← List.append_assoc, h2, f1, f2]
      · intro y hy
        rcases List.mem_cons.mp hy with rfl | hy
        · exact hx
        · exact h6 y hy

/-- **`single_write`, closed form** (the statement of the design document): an idle writer, the mutex
free, the same non-empty `buf` polled again and again with nobody else touching mutex or transport.
If poll number `|rs| + 1` is the first to return `Ready(k)`, then `k = min |buf| 65535`, the byte log
grew by exactly `recordOf w.rtype w.id (buf.take k)`, the mutex is free and the writer idle again;
all earlier polls returned `Pending` or `Err`. -/
theorem single_write_closed (me : Nat) (buf : Bytes) (w : Writer) (t : Transport) (rs : List WRes) (k : Nat)
    (w' : Writer) (m' : MutexSt) (t' : Transport)
    (hb : buf ≠ []) (hidle : w.lock = .none ∧ w.isWriting = false)
    (hrun : pollsN me buf (rs.length + 1) w none t = (rs ++ [.ready k], w', m', t'))
    (hfirst : ∀ r ∈ rs, ∀ j, r ≠ .ready j) :
    k = min buf.length 65535 ∧
    t'.wlog = t.wlog ++ recordOf w.rtype w.id (buf.take k) ∧
    m' = none ∧ w'.lock = .none ∧ w'.isWriting = false ∧
    ∀ r ∈ rs, r = .pending ∨ ∃ e, r = .err e := by
  have hc : Consistent (me + 1) w.lock none := by
    unfold Consistent; rw [hidle.1]; simp
  obtain ⟨h1, d, hd, h2, h3, h4, h5, h6⟩ :=
    pollsN_aux me buf hb k rs.length w none t [] rs w' m' t' (Or.inl ⟨hidle.1, hidle.2, rfl⟩) hc hrun hfirst
  simp only [List.nil_append] at h2
  exact ⟨h1, by rw [hd, h2], h3, h4, h5, h6⟩

/-! ## 4. `poll_flush` runs under the same lock -/

/-- **`flush_under_lock`.**  For a writer that is not in the middle of a write (otherwise the Rust
asserts; see `pollFlush_writing`):
* if somebody else owns the mutex, `poll_flush` returns `Pending` and does not touch the transport;
* otherwise it owns the mutex while calling the transport's `poll_flush`, keeps it on `Pending`
  and releases it when the flush is `Ready` (`Ok` or `Err`).
A flush never adds bytes to the log (`flush_wlog`). -/
theorem flush_under_lock (w : Writer) (me : Nat) (m : MutexSt) (t : Transport)
    (hc : Consistent (me + 1) w.lock m) (hw : w.isWriting = false) :
    ((w.lock ≠ .held ∧ m ≠ none) →
      w.pollFlush me m t = ({ w with lock := .polling }, m, t, .pending)) ∧
    ((w.lock = .held ∨ m = none) →
      (t.flush.2 = .pending →
        w.pollFlush me m t = ({ w with lock := .held }, some (me + 1), t.flush.1, .pending)) ∧
      (t.flush.2 = .ready (.ok ()) →
        w.pollFlush me m t = ({ w with lock := .none }, none, t.flush.1, .ready 0)) ∧
      (∀ e, t.flush.2 = .ready (.error e) →
        w.pollFlush me m t = ({ w with lock := .none }, none, t.flush.1, .err e))) ∧
    t.flush.1.wlog = t.wlog := by
  refine ⟨fun h => pollFlush_blocked w me m t hw h.1 h.2, fun h => ?_, flush_wlog t⟩
  have := pollFlush_locked w me m t hw hc h
  rcases hf : t.flush with ⟨t1, r⟩
  rw [hf] at this
  refine ⟨?_, ?_, ?_⟩
  · intro hr; simp only at hr; subst hr; exact this
  · intro hr; simp only at hr; subst hr; exact this
  · intro e hr; simp only at hr; subst hr; exact this

/-- `poll_flush` during a write is the documented assertion; the model reports it and changes nothing. -/
theorem flush_while_writing (w : Writer) (me : Nat) (m : MutexSt) (t : Transport) (hw : w.isWriting = true) :
    ∃ s, w.pollFlush me m t = (w, m, t, .panic s) :=
  ⟨_, pollFlush_writing w me m t hw⟩

/-! ### Examples -/

section Examples

/-- stdout writer of request 1 -/
private def w0 : Writer := { rtype := RT.stdout, id := 1 }
/-- a transport that accepts 3 bytes (inside the header), then answers `Pending`, then takes all -/
private def t0 : Transport :=
  { input := [], endMode := .eof, rd := [], wr := [.n 3, .pending], fl := [] }
private def abc : Bytes := [0x41, 0x42, 0x43]

/-- First poll: 3 header bytes are accepted, then `Pending`; the lock is kept. -/
example :
    let r := w0.pollWrite 0 abc none t0
    r.2.2.2 = .pending ∧ r.2.1 = some 1 ∧ r.2.2.1.wlog = [1, 6, 0] ∧ r.1.headIdx = 3 ∧ r.1.lock = .held := by
  decide

/-- Second poll: the rest goes out; `Ready(3)`, mutex released, the log is exactly one record:
header (type 6, id 1, length 3, padding 5), "ABC", five zero bytes. -/
example :
    let r1 := w0.pollWrite 0 abc none t0
    let r2 := r1.1.pollWrite 0 abc r1.2.1 r1.2.2.1
    r2.2.2.2 = .ready 3 ∧ r2.2.1 = none ∧ r2.1.lock = .none ∧
    r2.2.2.1.wlog = [1, 6, 0, 1, 0, 3, 5, 0, 0x41, 0x42, 0x43, 0, 0, 0, 0, 0] ∧
    r2.2.2.1.wlog = recordOf 6 1 abc := by
  decide

/-- The same through the theorem: two polls, first `Pending`, second `Ready k`. -/
example (w' : Writer) (m' : MutexSt) (t' : Transport) (k : Nat)
    (h : pollsN 0 abc 2 w0 none t0 = ([.pending, .ready k], w', m', t')) :
    k = 3 ∧ t'.wlog = recordOf 6 1 abc ∧ m' = none := by
  obtain ⟨h1, h2, h3, _⟩ :=
    single_write_closed 0 abc w0 t0 [.pending] k w' m' t' (by decide) ⟨rfl, rfl⟩ h
      (by intro r hr j; simp at hr; subst hr; intro h; cases h)
  subst h1
  exact ⟨rfl, h2, h3⟩

/-- A write of 70000 bytes reports 65535 and emits one record of 8 + 65535 + 1 bytes — for every
transport behaviour and every number of polls. -/
example (me : Nat) (buf : Bytes) (w : Writer) (os : List PollObs) (o : PollObs) (k : Nat)
    (hlen : buf.length = 70000) (hidle : w.lock = .none ∧ w.isWriting = false)
    (hchain : Chain me buf w (os ++ [o])) (hfirst : ∀ x ∈ os, ∀ j, x.res ≠ .ready j)
    (hk : o.res = .ready k) :
    k = 65535 ∧ ((os ++ [o]).flatMap PollObs.delta).length = 65544 ∧
    (os ++ [o]).flatMap PollObs.delta = recordOf w.rtype w.id (buf.take 65535) := by
  have hb : buf ≠ [] := by intro h; rw [h] at hlen; cases hlen
  obtain ⟨h1, h2, _⟩ := single_write me buf w os o k hb hidle hchain hfirst hk
  have hk' : k = 65535 := by omega
  subst hk'
  refine ⟨rfl, ?_, h2⟩
  rw [h2, recordOf_length, List.length_take, hlen]
  decide

end Examples

/-! ## 5. Any number of writers, any poll order: the mutex discipline -/

/-- The shared world: the writers (stdout, stderr, clones …), the request, the mutex, the connection. -/
structure Sys where
  writers : List Writer
  req : AReq
  mutex : MutexSt
  t : Transport

/-- One poll by some task. -/
inductive Op
  | wpoll (i : Nat) (buf : Bytes)   -- `poll_write(buf)` of writer `i`
  | fpoll (i : Nat)                 -- `poll_flush` of writer `i`
  | opoll                           -- `Request::poll_output`

/-- The mutex owner id of the party an operation polls. -/
def Op.owner : Op → Nat
  | .wpoll i _ => i + 1
  | .fpoll i => i + 1
  | .opoll => 0

/-- Apply the model function (results are ignored; polling a writer that does not exist is a no-op). -/
def step (s : Sys) : Op → Sys
  | .wpoll i buf =>
    match s.writers[i]? with
    | none => s
    | some w =>
      let r := w.pollWrite i buf s.mutex s.t
      { s with writers := s.writers.set i r.1, mutex := r.2.1, t := r.2.2.1 }
  | .fpoll i =>
    match s.writers[i]? with
    | none => s
    | some w =>
      let r := w.pollFlush i s.mutex s.t
      { s with writers := s.writers.set i r.1, mutex := r.2.1, t := r.2.2.1 }
  | .opoll =>
    let r := s.req.pollOutput s.mutex s.t
    { s with req := r.1, mutex := r.2.1, t := r.2.2.1 }

def run (s : Sys) (ops : List Op) : Sys := ops.foldl step s

/-- **Ownership invariant.**  Every party's lock future is `Done` exactly when the mutex names that
party; an owner id always belongs to an existing writer. -/
structure OwnInv (s : Sys) : Prop where
  writers : ∀ i w, s.writers[i]? = some w → Consistent (i + 1) w.lock s.mutex
  req : Consistent 0 s.req.lock s.mutex
  bound : ∀ j, s.mutex = some (j + 1) → j < s.writers.length

/-- mutex free ⇒ nobody holds a guard -/
theorem OwnInv.free {s : Sys} (h : OwnInv s) (hm : s.mutex = none) :
    (∀ (i : Nat) (w : Writer), s.writers[i]? = some w → w.lock ≠ .held) ∧ s.req.lock ≠ .held := by
  refine ⟨fun i w hw hl => ?_, fun hl => ?_⟩
  · have := (h.writers i w hw).mp hl; rw [hm] at this; cases this
  · have := h.req.mp hl; rw [hm] at this; cases this

/-- mutex owned by writer `i` ⇒ exactly writer `i` holds a guard (the others are `None`/`Poll`), the
request does not -/
theorem OwnInv.byWriter {s : Sys} (h : OwnInv s) {i : Nat} (hm : s.mutex = some (i + 1)) :
    (∃ w, s.writers[i]? = some w ∧ w.lock = .held) ∧
    (∀ (j : Nat) (w : Writer), j ≠ i → s.writers[j]? = some w → w.lock ≠ .held) ∧ s.req.lock ≠ .held := by
  refine ⟨?_, fun j w hj hw hl => ?_, fun hl => ?_⟩
  · have hlt := h.bound i hm
    refine ⟨s.writers[i], by simp [hlt], ?_⟩
    exact (h.writers i _ (by simp [hlt])).mpr hm
  · have := (h.writers j w hw).mp hl
    rw [hm] at this
    simp at this
    exact hj this.symm
  · have := h.req.mp hl; rw [hm] at this; cases this

/-- mutex owned by the request ⇒ only the request holds a guard -/
theorem OwnInv.byRequest {s : Sys} (h : OwnInv s) (hm : s.mutex = some 0) :
    s.req.lock = .held ∧ ∀ (i : Nat) (w : Writer), s.writers[i]? = some w → w.lock ≠ .held := by
  refine ⟨h.req.mpr hm, fun i w hw hl => ?_⟩
  have := (h.writers i w hw).mp hl; rw [hm] at this; cases this

theorem consistent_other {a b : Nat} {l : LockSt} {m m' : MutexSt} (h : Consistent a l m) (hab : a ≠ b)
    (hm : m' = m ∨ Touched b m m') : Consistent a l m' := by
  rcases hm with rfl | ⟨h1, h2⟩
  · exact h
  · unfold Consistent at *
    have hl : l ≠ .held := by
      intro hl
      have := h.mp hl
      rcases h1 with h1 | h1 <;> rw [h1] at this
      · cases this
      · simp at this; exact hab this.symm
    constructor
    · intro hl'; exact absurd hl' hl
    · intro hm'
      rcases h2 with h2 | h2 <;> rw [h2] at hm'
      · cases hm'
      · simp at hm'; exact absurd hm'.symm hab

/-- The bytes an operation appended to the byte log. -/
def delta (s : Sys) (op : Op) : Bytes := (step s op).t.wlog.drop s.t.wlog.length

/-- What every step does to the shared state. -/
structure StepFacts (s : Sys) (op : Op) : Prop where
  own : OwnInv (step s op)
  log : (step s op).t.wlog = s.t.wlog ++ delta s op
  mutex : (step s op).mutex = s.mutex ∨ Touched op.owner s.mutex (step s op).mutex
  writes : delta s op ≠ [] →
    (s.mutex = none ∨ s.mutex = some op.owner) ∧
    ((step s op).mutex = some op.owner ∨ (step s op).mutex = none)
  len : (step s op).writers.length = s.writers.length

theorem delta_of {s : Sys} {op : Op} {d : Bytes} (h : (step s op).t.wlog = s.t.wlog ++ d) :
    delta s op = d := by
  simp [delta, h]

/-- Generic preservation argument: one party (owner id `o`) was polled, its new lock state is
consistent with the new mutex, and the mutex moved only between "free" and "owned by `o`". -/
theorem ownInv_writer_step {s : Sys} (h : OwnInv s) {i : Nat} {w w' : Writer} {m' : MutexSt} {t' : Transport}
    {done : Prop} (hw : s.writers[i]? = some w)
    (hp : OwnPost (i + 1) s.mutex s.t w'.lock m' t' done) :
    OwnInv { s with writers := s.writers.set i w', mutex := m', t := t' } := by
  obtain ⟨hc, hm, _⟩ := hp
  have hlt : i < s.writers.length := by
    rcases Nat.lt_or_ge i s.writers.length with h | h
    · exact h
    · rw [List.getElem?_eq_none h] at hw; cases hw
  refine ⟨?_, ?_, ?_⟩
  · intro j wj hj
    simp only [List.getElem?_set] at hj
    by_cases hij : i = j
    · subst hij
      simp [hlt] at hj
      subst hj
      exact hc
    · simp [hij] at hj
      exact consistent_other (h.writers j wj hj) (by omega) hm
  · exact consistent_other h.req (by omega) hm
  · intro j hj
    simp only [List.length_set]
    simp only at hj
    rcases hm with rfl | ⟨_, h2⟩
    · exact h.bound j hj
    · rcases h2 with h2 | h2 <;> rw [h2] at hj
      · cases hj
      · simp at hj; omega

theorem stepFacts (s : Sys) (op : Op) (h : OwnInv s) : StepFacts s op := by
  cases op with
  | wpoll i buf =>
    cases hw : s.writers[i]? with
    | none =>
      have hs : step s (.wpoll i buf) = s := by simp [step, hw]
      have hd : delta s (.wpoll i buf) = [] := by simp [delta, hs]
      exact ⟨by rw [hs]; exact h, by rw [hs, hd]; simp, by rw [hs]; exact Or.inl rfl,
        by rw [hd]; intro h; exact absurd rfl h, by rw [hs]⟩
    | some w =>
      rcases hp : w.pollWrite i buf s.mutex s.t with ⟨w', m', t', res⟩
      have hs : step s (.wpoll i buf) = { s with writers := s.writers.set i w', mutex := m', t := t' } := by
        simp [step, hw, hp]
      obtain ⟨hpost, _, _⟩ := pollWrite_own w i buf s.mutex s.t (h.writers i w hw) hp
      have hown := ownInv_writer_step h hw hpost
      obtain ⟨_, hm, d, hd, hwr⟩ := hpost
      have hdel : delta s (.wpoll i buf) = d := delta_of (by rw [hs]; exact hd)
      refine ⟨by rw [hs]; exact hown, by rw [hdel, hs]; exact hd, by rw [hs]; exact hm, ?_, by rw [hs]; simp⟩
      rw [hdel, hs]
      intro hne
      obtain ⟨h1, h2⟩ := hwr hne
      exact ⟨h1, h2.imp id (fun x => x.1)⟩
  | fpoll i =>
    cases hw : s.writers[i]? with
    | none =>
      have hs : step s (.fpoll i) = s := by simp [step, hw]
      have hd : delta s (.fpoll i) = [] := by simp [delta, hs]
      exact ⟨by rw [hs]; exact h, by rw [hs, hd]; simp, by rw [hs]; exact Or.inl rfl,
        by rw [hd]; intro h; exact absurd rfl h, by rw [hs]⟩
    | some w =>
      rcases hp : w.pollFlush i s.mutex s.t with ⟨w', m', t', res⟩
      have hs : step s (.fpoll i) = { s with writers := s.writers.set i w', mutex := m', t := t' } := by
        simp [step, hw, hp]
      obtain ⟨hpost, _, _⟩ := pollFlush_own w i s.mutex s.t (h.writers i w hw) hp
      have hown := ownInv_writer_step h hw hpost
      obtain ⟨_, hm, d, hd, hwr⟩ := hpost
      have hdel : delta s (.fpoll i) = d := delta_of (by rw [hs]; exact hd)
      refine ⟨by rw [hs]; exact hown, by rw [hdel, hs]; exact hd, by rw [hs]; exact hm, ?_, by rw [hs]; simp⟩
      rw [hdel, hs]
      intro hne
      obtain ⟨h1, h2⟩ := hwr hne
      exact ⟨h1, h2.imp id (fun x => x.1)⟩
  | opoll =>
    rcases hp : s.req.pollOutput s.mutex s.t with ⟨r', m', t', o⟩
    have hs : step s .opoll = { s with req := r', mutex := m', t := t' } := by
      simp [step, hp]
    obtain ⟨⟨hc, hm, d, hd, hwr⟩, _⟩ := pollOutput_own s.req s.mutex s.t h.req hp
    have hdel : delta s .opoll = d := delta_of (by rw [hs]; exact hd)
    refine ⟨?_, by rw [hdel, hs]; exact hd, by rw [hs]; exact hm, ?_, by rw [hs]⟩
    · rw [hs]
      refine ⟨fun j wj hj => consistent_other (h.writers j wj hj) (by omega) hm, hc, ?_⟩
      intro j hj
      simp only at hj
      rcases hm with rfl | ⟨_, h2⟩
      · exact h.bound j hj
      · rcases h2 with h2 | h2 <;> rw [h2] at hj <;> cases hj
    · rw [hdel, hs]
      intro hne
      obtain ⟨h1, h2⟩ := hwr hne
      exact ⟨h1, h2.imp id (fun x => x.1)⟩

/-- **`exclusion`** — the ownership invariant is preserved by every poll of every party … -/
theorem exclusion_step (s : Sys) (op : Op) (h : OwnInv s) : OwnInv (step s op) :=
  (stepFacts s op h).own

/-- … hence along every schedule, for any number of writers and any buffers. -/
theorem exclusion (ops : List Op) : ∀ (s : Sys), OwnInv s → OwnInv (run s ops) := by
  induction ops with
  | nil => intro s h; exact h
  | cons op ops ih => intro s h; exact ih (step s op) (exclusion_step s op h)

/-- **`only_owner_writes`.**  If a poll changes the byte log, then no *other* party owned the mutex
when the poll began (it was free or already owned by the polled party), and when the poll ends the
polled party owns it — or has released it in this very step (a release only happens on `Ready`, see
`pollWrite_own`).  A step is atomic in the model, so bytes are appended only by the mutex owner. -/
theorem only_owner_writes (s : Sys) (op : Op) (h : OwnInv s)
    (hchg : (step s op).t.wlog ≠ s.t.wlog) :
    (s.mutex = none ∨ s.mutex = some op.owner) ∧
    ((step s op).mutex = some op.owner ∨ (step s op).mutex = none) := by
  have f := stepFacts s op h
  apply f.writes
  intro hd
  apply hchg
  rw [f.log, hd, List.append_nil]

/-- A party that does not own the mutex and finds it taken appends nothing. -/
theorem blocked_party_silent (s : Sys) (op : Op) (h : OwnInv s) (j : Nat)
    (hm : s.mutex = some j) (hj : j ≠ op.owner) : (step s op).t.wlog = s.t.wlog ∧ (step s op).mutex = s.mutex := by
  have f := stepFacts s op h
  constructor
  · by_cases hd : delta s op = []
    · rw [f.log, hd, List.append_nil]
    · obtain ⟨h1, _⟩ := f.writes hd
      rw [hm] at h1
      rcases h1 with h1 | h1
      · cases h1
      · simp at h1; exact absurd h1 hj
  · rcases f.mutex with h1 | ⟨h1, _⟩
    · exact h1
    · rw [hm] at h1
      rcases h1 with h1 | h1
      · cases h1
      · simp at h1; exact absurd h1 hj

/-- The byte log only ever grows. -/
theorem log_grows (ops : List Op) : ∀ (s : Sys), OwnInv s → ∃ d, (run s ops).t.wlog = s.t.wlog ++ d := by
  induction ops with
  | nil => intro s _; exact ⟨[], by simp [run]⟩
  | cons op ops ih =>
    intro s h
    have f := stepFacts s op h
    obtain ⟨d, hd⟩ := ih (step s op) f.own
    exact ⟨delta s op ++ d, by rw [← List.append_assoc, ← f.log]; exact hd⟩

/-! ## 6. No interleaving: the byte log is a sequence of complete records -/

/-- What reaches the client as a unit. -/
inductive Entry
  /-- a complete stream record written by writer `i` -/
  | record (i : Nat) (rtype id : Nat) (payload : Bytes)
  /-- bytes of the parser's output buffer (management replies), flushed by one `poll_output` -/
  | reply (bs : Bytes)

def Entry.bytes : Entry → Bytes
  | .record _ rtype id payload => recordOf rtype id payload
  | .reply bs => bs

/-- The writer polled by `poll_write(buf)` of writer `i` in state `s`, and the result of that poll. -/
def wresult (s : Sys) (i : Nat) (buf : Bytes) : Option (Writer × WRes) :=
  (s.writers[i]?).map fun w => (w, (w.pollWrite i buf s.mutex s.t).2.2.2)

/-- What an operation *completes*: a `poll_write` of a non-empty buffer that returns `Ready(k)`
completes the record carrying the first `k` bytes of the buffer; a `poll_output` completes the
bytes it wrote; everything else completes nothing. -/
def emitted (s : Sys) : Op → List Entry
  | .wpoll i buf =>
    if buf.isEmpty then [] else
    match wresult s i buf with
    | some (w, .ready k) => [.record i w.rtype w.id (buf.take k)]
    | _ => []
  | .fpoll _ => []
  | .opoll => [.reply (delta s .opoll)]

/-- The units completed along a schedule, in completion order. -/
def completed : Sys → List Op → List Entry
  | _, [] => []
  | s, op :: ops => emitted s op ++ completed (step s op) ops

/-- Ghost state describing the callers: the buffer of each writer's write in progress. -/
abbrev Ghost := Nat → Option Bytes

def Ghost.set (g : Ghost) (i : Nat) (v : Option Bytes) : Ghost := fun j => if j = i then v else g j

def gstep (g : Ghost) (s : Sys) : Op → Ghost
  | .wpoll i buf =>
    match wresult s i buf with
    | some (_, .ready _) => g.set i none
    | some _ => g.set i (some buf)
    | none => g
  | _ => g

/-- What a well-behaved caller (e.g. `write_all`, `flush`) does: it never passes an empty buffer
(that is a no-op, `empty_write`), re-polls a pending or failed write with the same buffer until it
completes, starts a write only with no flush outstanding, and flushes only between writes.  (All
other call sequences hit one of the assertions of `poll_write` / `poll_flush`, or — a different
buffer of sufficient length — are not caught by the Rust at all; see the report.) -/
def OpOK (g : Ghost) (s : Sys) : Op → Prop
  | .wpoll i buf =>
    buf ≠ [] ∧
    match g i with
    | some b => b = buf
    | none => ∀ w, s.writers[i]? = some w → w.lock = .none
  | .fpoll i => g i = none
  | .opoll => True

def WellBehaved : Ghost → Sys → List Op → Prop
  | _, _, [] => True
  | g, s, op :: ops => OpOK g s op ∧ WellBehaved (gstep g s op) (step s op) ops

/-- the ghost state after a schedule -/
def grun : Ghost → Sys → List Op → Ghost
  | g, _, [] => g
  | g, s, op :: ops => grun (gstep g s op) (step s op) ops

/-- **The log invariant.**  The byte log is `done ++ cur`, where `cur` is the part already written of
the record of the writer that currently owns the mutex (and is empty if the mutex is free, owned by
the request, or owned by a writer that is flushing); writers without a write in progress are not
writing; writers with a write of `buf` in progress satisfy `WInv`. -/
structure LogInv (g : Ghost) (s : Sys) (done cur : Bytes) : Prop where
  own : OwnInv s
  log : s.t.wlog = done ++ cur
  idle : ∀ (i : Nat) (w : Writer), s.writers[i]? = some w → g i = none → w.isWriting = false
  busy : ∀ (i : Nat) (w : Writer) (buf : Bytes), s.writers[i]? = some w → g i = some buf →
    buf ≠ [] ∧ ∃ sent, WInv w buf sent ∧ (s.mutex = some (i + 1) → cur = sent)
  quiet : (∀ (i : Nat) (buf : Bytes), s.mutex = some (i + 1) → g i = some buf → False) → cur = []

theorem mutex_cases (m : MutexSt) (o : Nat) : (m = none ∨ m = some o) ∨ ∃ j, m = some j ∧ j ≠ o := by
  cases m with
  | none => exact Or.inl (Or.inl rfl)
  | some j =>
    by_cases h : j = o
    · exact Or.inl (Or.inr (by rw [h]))
    · exact Or.inr ⟨j, rfl, h⟩

/-- somebody else owns the mutex: the polled party changes neither log nor mutex -/
theorem ownPost_blocked {o : Nat} {m m' : MutexSt} {t t' : Transport} {l' : LockSt} {done : Prop}
    (h : OwnPost o m t l' m' t' done) {j : Nat} (hm : m = some j) (hj : j ≠ o) :
    t'.wlog = t.wlog ∧ m' = m := by
  obtain ⟨_, hmm, d, hd, hwr⟩ := h
  constructor
  · by_cases hd0 : d = []
    · rw [hd, hd0, List.append_nil]
    · obtain ⟨h1, _⟩ := hwr hd0
      rw [hm] at h1
      rcases h1 with h1 | h1
      · cases h1
      · simp at h1; exact absurd h1 hj
  · rcases hmm with h1 | ⟨h1, _⟩
    · exact h1
    · rw [hm] at h1
      rcases h1 with h1 | h1
      · cases h1
      · simp at h1; exact absurd h1 hj

theorem Ghost.set_self (g : Ghost) (i : Nat) (v : Option Bytes) : g.set i v i = v := by simp [Ghost.set]
theorem Ghost.set_ne (g : Ghost) {i j : Nat} (v : Option Bytes) (h : j ≠ i) : g.set i v j = g j := by
  simp [Ghost.set, h]

theorem logInv_opoll {g : Ghost} {s : Sys} {done cur : Bytes} (h : LogInv g s done cur) :
    LogInv (gstep g s .opoll) (step s .opoll) (done ++ (emitted s .opoll).flatMap Entry.bytes) cur := by
  have f := stepFacts s .opoll h.own
  rcases hp : s.req.pollOutput s.mutex s.t with ⟨r', m', t', o⟩
  have hs : step s .opoll = { s with req := r', mutex := m', t := t' } := by simp [step, hp]
  have hem : (emitted s .opoll).flatMap Entry.bytes = delta s .opoll := by
    simp [emitted, Entry.bytes]
  have hquietS : (s.mutex = none ∨ s.mutex = some 0) → cur = [] := by
    intro hm
    apply h.quiet
    intro i buf hmi _
    rw [hmi] at hm
    rcases hm with hm | hm <;> cases hm
  have hmut := f.mutex
  rw [hs] at hmut
  simp only [Op.owner] at hmut
  refine ⟨f.own, ?_, ?_, ?_, ?_⟩
  · rw [f.log, hem, h.log]
    by_cases hd : delta s .opoll = []
    · rw [hd]; simp
    · have := hquietS (f.writes hd).1
      rw [this]; simp
  · intro i w hw hg
    rw [hs] at hw
    exact h.idle i w hw hg
  · intro i w buf hw hg
    rw [hs] at hw
    obtain ⟨hb, sent, hinv, hcur⟩ := h.busy i w buf hw hg
    refine ⟨hb, sent, hinv, ?_⟩
    intro hm'
    rw [hs] at hm'
    simp only at hm'
    rcases hmut with h1 | ⟨_, h2⟩
    · rw [h1] at hm'; exact hcur hm'
    · rw [hm'] at h2
      rcases h2 with h2 | h2 <;> cases h2
  · intro H
    rcases hmut with h1 | ⟨h1, _⟩
    · apply h.quiet
      intro i buf hmi hgi
      refine H i buf ?_ hgi
      rw [hs]; simp only; rw [h1]; exact hmi
    · exact hquietS h1

theorem logInv_fpoll {g : Ghost} {s : Sys} {done cur : Bytes} (h : LogInv g s done cur) (i : Nat)
    (hok : g i = none) :
    LogInv (gstep g s (.fpoll i)) (step s (.fpoll i))
      (done ++ (emitted s (.fpoll i)).flatMap Entry.bytes) cur := by
  have f := stepFacts s (.fpoll i) h.own
  have hem : (emitted s (.fpoll i)).flatMap Entry.bytes = [] := by simp [emitted]
  rw [hem, List.append_nil]
  show LogInv g _ _ _
  cases hw : s.writers[i]? with
  | none =>
    have hs : step s (.fpoll i) = s := by simp [step, hw]
    rw [hs]; exact h
  | some w =>
    rcases hp : w.pollFlush i s.mutex s.t with ⟨w', m', t', res⟩
    have hs : step s (.fpoll i) = { s with writers := s.writers.set i w', mutex := m', t := t' } := by
      simp [step, hw, hp]
    obtain ⟨hpost, _, _, hlog, hwr⟩ := pollFlush_own w i s.mutex s.t (h.own.writers i w hw) hp
    have hmut := hpost.2.1
    have hquietS : (s.mutex = none ∨ s.mutex = some (i + 1)) → cur = [] := by
      intro hm
      apply h.quiet
      intro i' buf hmi hgi
      rw [hmi] at hm
      rcases hm with hm | hm
      · cases hm
      · simp at hm; subst hm; rw [hok] at hgi; cases hgi
    refine ⟨f.own, ?_, ?_, ?_, ?_⟩
    · rw [hs]; simp only; rw [hlog]; exact h.log
    · intro j wj hj hg
      rw [hs] at hj
      simp only at hj
      by_cases hij : i = j
      · subst hij
        rw [List.getElem?_set_self (by
          rcases Nat.lt_or_ge i s.writers.length with h' | h'
          · exact h'
          · rw [List.getElem?_eq_none h'] at hw; cases hw)] at hj
        cases hj
        rw [hwr]; exact h.idle i w hw hg
      · rw [List.getElem?_set_ne hij] at hj
        exact h.idle j wj hj hg
    · intro j wj buf hj hg
      rw [hs] at hj
      simp only at hj
      by_cases hij : i = j
      · subst hij; rw [hok] at hg; cases hg
      · rw [List.getElem?_set_ne hij] at hj
        obtain ⟨hb, sent, hinv, hcur⟩ := h.busy j wj buf hj hg
        refine ⟨hb, sent, hinv, ?_⟩
        intro hm'
        rw [hs] at hm'
        simp only at hm'
        rcases hmut with h1 | ⟨_, h2⟩
        · rw [h1] at hm'; exact hcur hm'
        · rw [hm'] at h2
          rcases h2 with h2 | h2
          · cases h2
          · simp at h2; omega
    · intro H
      rcases hmut with h1 | ⟨h1, _⟩
      · apply h.quiet
        intro i' buf hmi hgi
        refine H i' buf ?_ hgi
        rw [hs]; simp only; rw [h1]; exact hmi
      · exact hquietS h1

/-- the `Pending` / `Err` case of `logInv_wpoll`: the write continues -/
theorem logInv_wpoll_cont {g : Ghost} {s : Sys} {done cur : Bytes} (h : LogInv g s done cur) (i : Nat) (buf : Bytes)
    (hb : buf ≠ []) {w w' : Writer} {m' : MutexSt} {t' : Transport} {res : WRes} {sent0 d : Bytes}
    (hw : s.writers[i]? = some w)
    (hs : step s (.wpoll i buf) = { s with writers := s.writers.set i w', mutex := m', t := t' })
    (hres : wresult s i buf = some (w, res))
    (hcur : (s.mutex = none ∨ s.mutex = some (i + 1)) → cur = sent0)
    (hmut : m' = s.mutex ∨ Touched (i + 1) s.mutex m')
    (hcont : WInv w' buf (sent0 ++ d) ∧ Consistent (i + 1) w'.lock m')
    (hd : t'.wlog = s.t.wlog ++ d)
    (hother : ∀ (j : Nat) (wj : Writer), i ≠ j →
        (step s (.wpoll i buf)).writers[j]? = some wj → s.writers[j]? = some wj)
    (hself : ∀ (wj : Writer), (step s (.wpoll i buf)).writers[i]? = some wj → wj = w')
    (hem : (emitted s (.wpoll i buf)).flatMap Entry.bytes = [])
    (hg' : gstep g s (.wpoll i buf) = g.set i (some buf))
    (hown : OwnPost (i + 1) s.mutex s.t w'.lock m' t' (∃ k, res = .ready k))
    (hown' : OwnInv (step s (.wpoll i buf))) :
    ∃ cur', LogInv (gstep g s (.wpoll i buf)) (step s (.wpoll i buf))
      (done ++ (emitted s (.wpoll i buf)).flatMap Entry.bytes) cur' := by
  obtain ⟨hinv', hc'⟩ := hcont
  have hm'eq : (step s (.wpoll i buf)).mutex = m' := by rw [hs]
  have hlog' : (step s (.wpoll i buf)).t.wlog = s.t.wlog ++ d := by rw [hs]; exact hd
  rw [hem, List.append_nil, hg']
  refine ⟨cur ++ d, hown', ?_, ?_, ?_, ?_⟩
  · rw [hlog', h.log, List.append_assoc]
  · intro j wj hj hgj
    by_cases hij : i = j
    · subst hij
      rw [Ghost.set_self] at hgj; cases hgj
    · rw [Ghost.set_ne _ _ (Ne.symm hij)] at hgj
      exact h.idle j wj (hother j wj hij hj) hgj
  · intro j wj bj hj hgj
    by_cases hij : i = j
    · subst hij
      rw [Ghost.set_self] at hgj; cases hgj
      rw [hself wj hj]
      refine ⟨hb, sent0 ++ d, hinv', ?_⟩
      intro hmj
      rw [hm'eq] at hmj
      have hm0 : s.mutex = none ∨ s.mutex = some (i + 1) := by
        rcases hmut with h1 | ⟨h1, _⟩
        · rw [h1] at hmj; exact Or.inr hmj
        · exact h1
      rw [hcur hm0]
    · rw [Ghost.set_ne _ _ (Ne.symm hij)] at hgj
      obtain ⟨hbj, sentj, hinvj, hcj⟩ := h.busy j wj bj (hother j wj hij hj) hgj
      refine ⟨hbj, sentj, hinvj, ?_⟩
      intro hmj
      rw [hm'eq] at hmj
      rcases hmut with h1 | ⟨_, h2⟩
      · rw [h1] at hmj
        have hji : j + 1 ≠ i + 1 := by omega
        obtain ⟨hl, _⟩ := ownPost_blocked hown hmj hji
        have hd0 : d = [] := by
          rw [hd] at hl
          have := congrArg List.length hl
          simp at this
          exact this
        rw [hd0, List.append_nil]
        exact hcj hmj
      · rw [hmj] at h2
        rcases h2 with h2 | h2
        · cases h2
        · simp at h2; omega
  · intro H
    rw [hm'eq] at H
    have hnot : m' ≠ some (i + 1) := fun hm => H i buf hm (Ghost.set_self g i _)
    have hnh : w'.lock ≠ .held := fun hl => hnot (hc'.mp hl)
    have hnil : sent0 ++ d = [] := by
      rcases hinv'.lock with hl | ⟨_, hl⟩
      · exact absurd hl hnh
      · exact hl
    have hd0 : d = [] := (List.append_eq_nil_iff.mp hnil).2
    have hs0 : sent0 = [] := (List.append_eq_nil_iff.mp hnil).1
    rw [hd0, List.append_nil]
    rcases mutex_cases s.mutex (i + 1) with hm0 | ⟨j, hmj, hji⟩
    · rw [hcur hm0, hs0]
    · obtain ⟨_, hmm⟩ := ownPost_blocked hown hmj hji
      apply h.quiet
      intro i' b' hmi hgi'
      have hii : i' ≠ i := by
        intro hii; subst hii
        rw [hmi] at hmj; simp at hmj; exact hji hmj.symm
      refine H i' b' (by rw [hmm]; exact hmi) ?_
      rw [Ghost.set_ne _ _ hii]; exact hgi'

/-- Where writer `i`'s write of `buf` stands when a well-behaved caller polls it: not started
(idle writer) or in progress; and if nobody else owns the mutex, the partial record `cur` at the end
of the log is this writer's. -/
theorem logInv_started {g : Ghost} {s : Sys} {done cur : Bytes} (h : LogInv g s done cur) (i : Nat) (buf : Bytes)
    {w : Writer}
    (hgi : match g i with
      | some b => b = buf
      | none => ∀ w, s.writers[i]? = some w → w.lock = .none)
    (hw : s.writers[i]? = some w) :
    ∃ sent0, Started w buf sent0 ∧ ((s.mutex = none ∨ s.mutex = some (i + 1)) → cur = sent0) := by
  have hcons := h.own.writers i w hw
  cases hg : g i with
  | none =>
    rw [hg] at hgi
    have hl := hgi w hw
    refine ⟨[], Or.inl ⟨hl, h.idle i w hw hg, rfl⟩, ?_⟩
    intro hm
    rcases hm with hm | hm
    · apply h.quiet
      intro i' b' hmi _
      rw [hm] at hmi; cases hmi
    · have := hcons.mpr hm
      rw [hl] at this; cases this
  | some b =>
    rw [hg] at hgi
    simp only at hgi
    subst hgi
    obtain ⟨_, sent, hinv, hc⟩ := h.busy i w b hw hg
    refine ⟨sent, Or.inr hinv, ?_⟩
    intro hm
    rcases hm with hm | hm
    · have hnh : w.lock ≠ .held := by
        intro hl
        have := hcons.mp hl
        rw [hm] at this; cases this
      have hse : sent = [] := by
        rcases hinv.lock with hl | ⟨_, hl⟩
        · exact absurd hl hnh
        · exact hl
      rw [hse]
      apply h.quiet
      intro i' b' hmi _
      rw [hm] at hmi; cases hmi
    · exact hc hm

theorem logInv_wpoll {g : Ghost} {s : Sys} {done cur : Bytes} (h : LogInv g s done cur) (i : Nat) (buf : Bytes)
    (hok : OpOK g s (.wpoll i buf)) :
    ∃ cur', LogInv (gstep g s (.wpoll i buf)) (step s (.wpoll i buf))
      (done ++ (emitted s (.wpoll i buf)).flatMap Entry.bytes) cur' := by
  obtain ⟨hb, hgi⟩ := hok
  have hbe : buf.isEmpty = false := by cases buf <;> simp_all
  have f := stepFacts s (.wpoll i buf) h.own
  cases hw : s.writers[i]? with
  | none =>
    have hs : step s (.wpoll i buf) = s := by simp [step, hw]
    have hem : (emitted s (.wpoll i buf)).flatMap Entry.bytes = [] := by
      simp [emitted, wresult, hw]
    have hg : gstep g s (.wpoll i buf) = g := by simp [gstep, wresult, hw]
    rw [hs, hem, hg, List.append_nil]
    exact ⟨cur, h⟩
  | some w =>
    have hlt : i < s.writers.length := by
      rcases Nat.lt_or_ge i s.writers.length with h' | h'
      · exact h'
      · rw [List.getElem?_eq_none h'] at hw; cases hw
    rcases hp : w.pollWrite i buf s.mutex s.t with ⟨w', m', t', res⟩
    have hs : step s (.wpoll i buf) = { s with writers := s.writers.set i w', mutex := m', t := t' } := by
      simp [step, hw, hp]
    have hres : wresult s i buf = some (w, res) := by simp [wresult, hw, hp]
    have hcons := h.own.writers i w hw
    obtain ⟨sent0, hstart, hcur⟩ := logInv_started h i buf hgi hw
    have hpost : WritePost i w buf sent0 s.t w' m' t' res :=
      poll_spec i buf sent0 hb ⟨w, s.mutex, s.t, w', m', t', res⟩ hstart hcons hp
    obtain ⟨hown, _, _⟩ := pollWrite_own w i buf s.mutex s.t hcons hp
    have hmut := hown.2.1
    obtain ⟨_, _, d, hd, hrdy, hpend, _, hpanic⟩ := hpost
    -- the other writers are untouched
    have hother : ∀ (j : Nat) (wj : Writer), i ≠ j →
        (step s (.wpoll i buf)).writers[j]? = some wj → s.writers[j]? = some wj := by
      intro j wj hij hj
      rw [hs] at hj
      simp only at hj
      rwa [List.getElem?_set_ne hij] at hj
    have hself : ∀ (wj : Writer), (step s (.wpoll i buf)).writers[i]? = some wj → wj = w' := by
      intro wj hj
      rw [hs] at hj
      simp only at hj
      rw [List.getElem?_set_self hlt] at hj
      cases hj; rfl
    have hm'eq : (step s (.wpoll i buf)).mutex = m' := by rw [hs]
    have hlog' : (step s (.wpoll i buf)).t.wlog = s.t.wlog ++ d := by rw [hs]; exact hd
    cases res with
    | panic msg => exact absurd rfl (hpanic msg)
    | ready k =>
      obtain ⟨hk, hrec, hm', hl', hw'⟩ := hrdy k rfl
      have hm0 : s.mutex = none ∨ s.mutex = some (i + 1) := by
        rcases hmut with h1 | ⟨h1, _⟩
        · rw [hm'] at h1; exact Or.inl h1.symm
        · exact h1
      have hem : (emitted s (.wpoll i buf)).flatMap Entry.bytes = recordOf w.rtype w.id (buf.take k) := by
        simp [emitted, hbe, hres, Entry.bytes]
      have hg' : gstep g s (.wpoll i buf) = g.set i none := by simp [gstep, hres]
      refine ⟨[], f.own, ?_, ?_, ?_, fun _ => rfl⟩
      · rw [hlog', hem, h.log, hcur hm0, ← hrec]; simp
      · intro j wj hj hgj
        by_cases hij : i = j
        · subst hij
          rw [hself wj hj]; exact hw'
        · rw [hg', Ghost.set_ne _ _ (Ne.symm hij)] at hgj
          exact h.idle j wj (hother j wj hij hj) hgj
      · intro j wj bj hj hgj
        by_cases hij : i = j
        · subst hij
          rw [hg', Ghost.set_self] at hgj; cases hgj
        · rw [hg', Ghost.set_ne _ _ (Ne.symm hij)] at hgj
          obtain ⟨hbj, sentj, hinvj, _⟩ := h.busy j wj bj (hother j wj hij hj) hgj
          refine ⟨hbj, sentj, hinvj, ?_⟩
          intro hmj
          rw [hm'eq, hm'] at hmj; cases hmj
    | pending =>
      exact logInv_wpoll_cont h i buf hb hw hs hres hcur hmut (hpend (Or.inl rfl)) hd hother hself
        (by simp [emitted, hbe, hres]) (by simp [gstep, hres]) hown f.own
    | err e =>
      exact logInv_wpoll_cont h i buf hb hw hs hres hcur hmut (hpend (Or.inr ⟨e, rfl⟩)) hd hother hself
        (by simp [emitted, hbe, hres]) (by simp [gstep, hres]) hown f.own

/-- The log invariant is preserved by every poll a well-behaved caller makes; the `done` part grows
by exactly what the poll completed. -/
theorem logInv_step {g : Ghost} {s : Sys} {done cur : Bytes} (h : LogInv g s done cur) (op : Op)
    (hok : OpOK g s op) :
    ∃ cur', LogInv (gstep g s op) (step s op) (done ++ (emitted s op).flatMap Entry.bytes) cur' := by
  cases op with
  | wpoll i buf => exact logInv_wpoll h i buf hok
  | fpoll i => exact ⟨cur, logInv_fpoll h i hok⟩
  | opoll => exact ⟨cur, logInv_opoll h⟩

theorem logInv_run (ops : List Op) : ∀ (g : Ghost) (s : Sys) (done cur : Bytes),
    LogInv g s done cur → WellBehaved g s ops →
    ∃ cur', LogInv (grun g s ops) (run s ops) (done ++ (completed s ops).flatMap Entry.bytes) cur' := by
  induction ops with
  | nil => intro g s done cur h _; exact ⟨cur, by simpa [completed, grun, run] using h⟩
  | cons op ops ih =>
    intro g s done cur h hwb
    obtain ⟨hok, hrest⟩ := hwb
    obtain ⟨cur1, h1⟩ := logInv_step h op hok
    obtain ⟨cur2, h2⟩ := ih _ _ _ _ h1 hrest
    refine ⟨cur2, ?_⟩
    simpa [completed, grun, run, List.flatMap_append, List.append_assoc] using h2

/-- The partial record at the end of the log is empty, or it is the part written so far (`WInv`) of
the record of the writer that owns the mutex. -/
theorem LogInv.tail {g : Ghost} {s : Sys} {done cur : Bytes} (h : LogInv g s done cur) :
    cur = [] ∨ ∃ (i : Nat) (w : Writer) (buf : Bytes),
      s.mutex = some (i + 1) ∧ s.writers[i]? = some w ∧ g i = some buf ∧ WInv w buf cur := by
  cases hm : s.mutex with
  | none => exact Or.inl (h.quiet (fun i b hmi _ => by rw [hm] at hmi; cases hmi))
  | some o =>
    cases o with
    | zero => exact Or.inl (h.quiet (fun i b hmi _ => by rw [hm] at hmi; cases hmi))
    | succ i =>
      cases hg : g i with
      | none =>
        refine Or.inl (h.quiet (fun i' b hmi hgi => ?_))
        rw [hm] at hmi
        simp at hmi; subst hmi
        rw [hg] at hgi; cases hgi
      | some buf =>
        have hlt := h.own.bound i hm
        have hw : s.writers[i]? = some s.writers[i] := by simp [hlt]
        obtain ⟨_, sent, hinv, hc⟩ := h.busy i _ buf hw hg
        rw [hc hm]
        exact Or.inr ⟨i, _, buf, rfl, hw, hg, hinv⟩

/-- A partial record is a proper prefix of the record being written. -/
theorem WInv_proper_prefix {w : Writer} {buf sent : Bytes} (h : WInv w buf sent) :
    sent <+: recordOf w.rtype w.id (buf.take (min buf.length 65535)) ∧
    sent.length < (recordOf w.rtype w.id (buf.take (min buf.length 65535))).length := by
  have hsplit := h.loop.split
  refine ⟨⟨_, hsplit.symm⟩, ?_⟩
  rw [hsplit, List.length_append, remaining_length _ _ h.loop.clen]
  have hw := h.writing
  simp [Writer.isWriting] at hw
  omega

/-- **`no_interleave`.**  Start in any state that satisfies the ownership invariant and in which no
writer is in the middle of a record; let well-behaved callers poll any number of writers (`poll_write`
/ `poll_flush`) and the request (`poll_output`) in any order, with a transport that splits and delays
writes at will.  Then the byte log is

  `initial log ++ (the units completed so far, in completion order) ++ cur`

where each unit is the complete record `recordOf rtype id (buf.take k)` of a `poll_write(buf)` that
returned `Ready(k)`, or the bytes written by one `poll_output`; and `cur` is empty or the proper prefix
written so far of the record of the writer that currently owns the mutex.  So no two records
interleave, every successful write contributes its bytes exactly once, per-writer order is call
order, and management replies never cut into a stream record. -/
theorem no_interleave (s : Sys) (ops : List Op) (hown : OwnInv s)
    (hidle : ∀ (i : Nat) (w : Writer), s.writers[i]? = some w → w.isWriting = false)
    (hwb : WellBehaved (fun _ => none) s ops) :
    ∃ cur, (run s ops).t.wlog = s.t.wlog ++ (completed s ops).flatMap Entry.bytes ++ cur ∧
      (cur = [] ∨ ∃ (i : Nat) (w : Writer) (buf : Bytes),
        (run s ops).mutex = some (i + 1) ∧ (run s ops).writers[i]? = some w ∧
        grun (fun _ => none) s ops i = some buf ∧ WInv w buf cur ∧
        cur <+: recordOf w.rtype w.id (buf.take (min buf.length 65535)) ∧
        cur.length < (recordOf w.rtype w.id (buf.take (min buf.length 65535))).length) := by
  have h0 : LogInv (fun _ => none) s s.t.wlog [] :=
    ⟨hown, by simp, fun i w hw _ => hidle i w hw, fun i w buf _ hg => (by cases hg), fun _ => rfl⟩
  obtain ⟨cur, h⟩ := logInv_run ops _ s _ _ h0 hwb
  refine ⟨cur, h.log, ?_⟩
  rcases h.tail with hc | ⟨i, w, buf, h1, h2, h3, h4⟩
  · exact Or.inl hc
  · exact Or.inr ⟨i, w, buf, h1, h2, h3, h4, (WInv_proper_prefix h4).1, (WInv_proper_prefix h4).2⟩

/-- When the mutex is free the log consists of complete units only. -/
theorem complete_when_free (s : Sys) (ops : List Op) (hown : OwnInv s)
    (hidle : ∀ (i : Nat) (w : Writer), s.writers[i]? = some w → w.isWriting = false)
    (hwb : WellBehaved (fun _ => none) s ops) (hfree : (run s ops).mutex = none) :
    (run s ops).t.wlog = s.t.wlog ++ (completed s ops).flatMap Entry.bytes := by
  obtain ⟨cur, hlog, hc⟩ := no_interleave s ops hown hidle hwb
  rcases hc with hc | ⟨i, _, _, hm, _⟩
  · rw [hlog, hc, List.append_nil]
  · rw [hfree] at hm; cases hm

theorem run_append (s : Sys) (a b : List Op) : run s (a ++ b) = run (run s a) b := by
  simp [run, List.foldl_append]

/-- Completion order is schedule order (so the records of one writer appear in the order of its
successful writes). -/
theorem completed_append (a b : List Op) : ∀ (s : Sys),
    completed s (a ++ b) = completed s a ++ completed (run s a) b := by
  induction a with
  | nil => intro s; simp [completed, run]
  | cons op a ih => intro s; simp [completed, run, ih, List.append_assoc]

/-- A `poll_output` writes a prefix of the parser's output buffer and consumes exactly that prefix:
management replies reach the log in order, each byte once (and under the mutex, `only_owner_writes`). -/
theorem reply_is_output_prefix (s : Sys) (h : OwnInv s) :
    s.req.sp.output = delta s .opoll ++ (step s .opoll).req.sp.output := by
  rcases hp : s.req.pollOutput s.mutex s.t with ⟨r', m', t', o⟩
  have hs : step s .opoll = { s with req := r', mutex := m', t := t' } := by simp [step, hp]
  obtain ⟨_, d, hd, hout, _⟩ := pollOutput_own s.req s.mutex s.t h.req hp
  have hdel : delta s .opoll = d := delta_of (by rw [hs]; exact hd)
  rw [hdel, hs]; exact hout

/-- No poll ever changes a writer's stream type or request id, or the number of writers. -/
theorem step_static (s : Sys) (op : Op) (h : OwnInv s) (j : Nat) (w' : Writer)
    (hj : (step s op).writers[j]? = some w') :
    ∃ w, s.writers[j]? = some w ∧ w'.rtype = w.rtype ∧ w'.id = w.id := by
  cases op with
  | opoll => exact ⟨w', hj, rfl, rfl⟩
  | wpoll i buf =>
    cases hw : s.writers[i]? with
    | none =>
      have hs : step s (.wpoll i buf) = s := by simp [step, hw]
      rw [hs] at hj; exact ⟨w', hj, rfl, rfl⟩
    | some w =>
      rcases hp : w.pollWrite i buf s.mutex s.t with ⟨w1, m1, t1, res⟩
      have hs : step s (.wpoll i buf) = { s with writers := s.writers.set i w1, mutex := m1, t := t1 } := by
        simp [step, hw, hp]
      obtain ⟨_, hr, hi⟩ := pollWrite_own w i buf s.mutex s.t (h.writers i w hw) hp
      rw [hs] at hj
      simp only at hj
      by_cases hij : i = j
      · subst hij
        rw [List.getElem?_set_self' , hw] at hj
        cases hj
        exact ⟨w, hw, hr, hi⟩
      · rw [List.getElem?_set_ne hij] at hj
        exact ⟨w', hj, rfl, rfl⟩
  | fpoll i =>
    cases hw : s.writers[i]? with
    | none =>
      have hs : step s (.fpoll i) = s := by simp [step, hw]
      rw [hs] at hj; exact ⟨w', hj, rfl, rfl⟩
    | some w =>
      rcases hp : w.pollFlush i s.mutex s.t with ⟨w1, m1, t1, res⟩
      have hs : step s (.fpoll i) = { s with writers := s.writers.set i w1, mutex := m1, t := t1 } := by
        simp [step, hw, hp]
      obtain ⟨_, hr, hi, _⟩ := pollFlush_own w i s.mutex s.t (h.writers i w hw) hp
      rw [hs] at hj
      simp only at hj
      by_cases hij : i = j
      · subst hij
        rw [List.getElem?_set_self' , hw] at hj
        cases hj
        exact ⟨w, hw, hr, hi⟩
      · rw [List.getElem?_set_ne hij] at hj
        exact ⟨w', hj, rfl, rfl⟩

theorem step_static' (s : Sys) (op : Op) (h : OwnInv s) (j : Nat) (w : Writer)
    (hj : s.writers[j]? = some w) :
    ∃ w', (step s op).writers[j]? = some w' ∧ w'.rtype = w.rtype ∧ w'.id = w.id := by
  have hlen := (stepFacts s op h).len
  have hlt : j < (step s op).writers.length := by
    rw [hlen]
    rcases Nat.lt_or_ge j s.writers.length with h' | h'
    · exact h'
    · rw [List.getElem?_eq_none h'] at hj; cases hj
  have hw' : (step s op).writers[j]? = some (step s op).writers[j] := by simp [hlt]
  obtain ⟨w0, h0, hr, hi⟩ := step_static s op h j _ hw'
  rw [hj] at h0; cases h0
  exact ⟨_, hw', hr, hi⟩

/-- **Every completed record is the record of a successful write**: a unit `.record i rtype id
payload` completed along a well-behaved schedule comes from a `poll_write(buf)` of writer `i` in that
schedule with `buf` non-empty, `payload = buf[.. min |buf| 65535]`, and `rtype` / `id` are the stream
type and request id writer `i` was created with. -/
theorem completed_records (ops : List Op) : ∀ (g : Ghost) (s : Sys) (done cur : Bytes),
    LogInv g s done cur → WellBehaved g s ops →
    ∀ (i rtype id : Nat) (payload : Bytes), Entry.record i rtype id payload ∈ completed s ops →
    ∃ (buf : Bytes) (w : Writer), Op.wpoll i buf ∈ ops ∧ buf ≠ [] ∧ s.writers[i]? = some w ∧
      rtype = w.rtype ∧ id = w.id ∧ payload = buf.take (min buf.length 65535) ∧
      payload.length = min buf.length 65535 := by
  induction ops with
  | nil => intro g s done cur _ _ i rtype id payload hmem; simp [completed] at hmem
  | cons op ops ih =>
    intro g s done cur h hwb i rtype id payload hmem
    obtain ⟨hok, hrest⟩ := hwb
    simp only [completed, List.mem_append] at hmem
    rcases hmem with hmem | hmem
    · -- completed by this very poll
      cases op with
      | fpoll j => simp [emitted] at hmem
      | opoll => simp [emitted] at hmem
      | wpoll j buf =>
        obtain ⟨hb, hgi⟩ := hok
        have hbe : buf.isEmpty = false := by cases buf <;> simp_all
        cases hw : s.writers[j]? with
        | none => simp [emitted, wresult, hw, hbe] at hmem
        | some w =>
          rcases hp : w.pollWrite j buf s.mutex s.t with ⟨w', m', t', res⟩
          have hres : wresult s j buf = some (w, res) := by simp [wresult, hw, hp]
          cases res with
          | ready k =>
            simp [emitted, hbe, hres] at hmem
            obtain ⟨rfl, rfl, rfl, rfl⟩ := hmem
            obtain ⟨sent0, hstart, _⟩ := logInv_started h i buf hgi hw
            obtain ⟨_, _, d, _, hrdy, _⟩ :=
              poll_spec i buf sent0 hb ⟨w, s.mutex, s.t, w', m', t', _⟩ hstart (h.own.writers i w hw) hp
            obtain ⟨hk, _⟩ := hrdy k rfl
            refine ⟨buf, w, List.mem_cons_self .., hb, hw, rfl, rfl, by rw [hk], ?_⟩
            rw [List.length_take]; omega
          | pending => simp [emitted, hbe, hres] at hmem
          | err e => simp [emitted, hbe, hres] at hmem
          | panic msg => simp [emitted, hbe, hres] at hmem
    · obtain ⟨cur1, h1⟩ := logInv_step h op hok
      obtain ⟨buf, w1, hin, hb, hw1, hr, hi, hpl, hlen⟩ := ih _ _ _ _ h1 hrest i rtype id payload hmem
      obtain ⟨w, hw, hr', hi'⟩ := step_static s op h.own i w1 hw1
      exact ⟨buf, w, List.mem_cons_of_mem _ hin, hb, hw, by rw [hr, hr'], by rw [hi, hi'], hpl, hlen⟩

/-! ### Why `WellBehaved` asks for the same buffer

`poll_write` only checks that the buffer did not *shrink* (`buf.get(..orig_len)`).  A caller that
re-polls a pending write with different bytes of sufficient length is not caught: the record stays
well formed, `Ready(orig_len)` is reported, but the payload is a mixture — the part accepted before
comes from the first buffer, the rest from the second.  (E.g. a `write` future dropped after
`Pending` — `select!`, timeout — followed by another `write`.)  `write_all` / `AsyncWriteExt::write`
driven to completion always re-poll with the same slice. -/
section ChangedBuffer

private def w1 : Writer := { rtype := RT.stdout, id := 1 }
/-- accepts 9 bytes (header and the first payload byte), then `Pending`, then everything -/
private def t1 : Transport :=
  { input := [], endMode := .eof, rd := [], wr := [.n 9, .pending], fl := [] }

example :
    let r1 := w1.pollWrite 0 [0x41, 0x42, 0x43] none t1        -- "ABC": Pending after "A"
    let r2 := r1.1.pollWrite 0 [0x58, 0x59, 0x5a] r1.2.1 r1.2.2.1   -- "XYZ": Ready(3)
    r1.2.2.2 = .pending ∧ r2.2.2.2 = .ready 3 ∧
    r2.2.2.1.wlog = recordOf 6 1 [0x41, 0x59, 0x5a] := by   -- payload "AYZ"
  decide

end ChangedBuffer

end Fcgi.C10
