import Fcgi.Proofs.E2EEchoReads
import Fcgi.Props.C07Echo2
/-!
# C07 — the ECHO Responder end to end: what the reads returned

`Props/C07Echo.echo_responder_e2e` and `Props/C07Echo2.echo_responder_e2e_noise` conclude the write log only.  The
script `echoScript content st` hard-codes the bytes in its `writeAll` ops (the model's scripts have no data flow), so
those conclusions would hold equally if every `read(1)` returned garbage (review `UNBOUNDED_REVIEW.md`, R3-D2): that
the handler ECHOES was established in the proofs' invariants but not exported.  Here it is:

`echo_responder_e2e_noise_reads` / `echo_responder_e2e_reads`: the same runs, the same outcome, AND
`(echoReadEvents content).Sublist c'.env.tr.events`: the trace of the run contains, IN THIS ORDER, the events
`r=1:<b>` for each content byte `b` (the event `handlerPoll` appends when a `read(1)` returns 1 byte, `b`) followed by
`r=0:-` (the `read(1)` that returned 0: end of stream).  The script has exactly `|content| + 1` read ops and every
read op appends exactly one `r=…` event when it completes, so these are its reads: the `i`-th `read(1)` returned
exactly the byte that the `i`-th `write_all` then writes, and the last one returned 0.

How: `Proofs/E2EEchoReads` — `run_stages3E`, the executor carrying a list of events that is a sublist of the trace once
the request is done (the trace only grows: `pollConn_cle`), and the echo loop of `Proofs/E2ELedger` with the invariant
"the read events of the content bytes delivered so far are, in order, in the trace".

(`Sublist`, not equality of the filtered trace: that no OTHER `r=` event occurs is true by construction — only `.read`
ops emit them — but is not stated.)
-/
namespace Fcgi.C07W
open Fcgi Fcgi.Req Fcgi.Str Fcgi.Async Fcgi.Run Fcgi.Spec Fcgi.E2E Fcgi.C07E Fcgi.C07U Fcgi.C07B

/-- the read events of the echo handler: `r=1:<b>` per content byte, in order, then `r=0:-` -/
def echoReadEvents (content : Bytes) : List String := content.map rd1 ++ [rd0]

/-- `rd1 b` is literally the event `handlerPoll` appends for a `read` that returned `k = 1` byte, `d = [b]` -/
theorem rd1_is_model_event (b : UInt8) : rd1 b = s!"r={([b] : Bytes).length}:{hexOrDash [b]}" := rfl
/-- `rd0` is literally the event `handlerPoll` appends for a `read` that returned `k = 0` bytes -/
theorem rd0_is_model_event : rd0 = s!"r={([] : Bytes).length}:{hexOrDash ([] : Bytes)}" := rfl
theorem rd0_eq : rd0 = "r=0:-" := by decide

/-- each of the events occurs (the membership form in which `responder_e2e` exports `readEvent content`) -/
theorem echoReads_mem {content : Bytes} {evs : List String} (h : (echoReadEvents content).Sublist evs) :
    (∀ b ∈ content, rd1 b ∈ evs) ∧ rd0 ∈ evs :=
  ⟨fun b hb => h.subset (List.mem_append_left _ (List.mem_map.2 ⟨b, hb, rfl⟩)),
    h.subset (List.mem_append_right _ List.mem_cons_self)⟩

/-- **C07 end to end: the echo Responder, any Stdin noise, WITH what the reads returned.** -/
theorem echo_responder_e2e_noise_reads {p : Preamble} {recs : List Rec} {content : Bytes} {srecs : List Rec}
    {b mc : Nat} {st : ExitStatus} {more : List (List HOp × Bool)} {t : Transport} {fuel : Nat}
    (hwf : WellFormedPreamble p recs) (hrole : p.role = 1)
    (hpairs : ∀ q ∈ p.pairs, (NV.enc q).length ≤ alignedBufsize b)
    (hnoise : NoiseFits (alignedBufsize b) recs)
    (hs : StreamRecs p.id 5 content srecs) (hsn : NoiseFits (alignedBufsize b) srecs)
    (hin : t.input = serAll recs ++ serAll srecs) (hben : Ben t) (hev : hsCount t.events = 0)
    (hfuel : t.rd.length + t.wr.length + 1 ≤ fuel) :
    ∃ c' fin pad res,
      runTask fuel (connS b mc t ((echoScript content st, true) :: more)) 0 none = (c', fin) ∧
      EchoNoiseOutcome p recs content srecs pad res b mc st more t c' fin ∧
      (echoReadEvents content).Sublist c'.env.tr.events := by
  obtain ⟨body, pad, res, hpad, hbody, hsrecs⟩ := StreamRecs.split hs
  have hid := (pid_of_wf hwf).2
  have hsb : NoiseFits (alignedBufsize b) body := fun r hr => hsn r (by rw [hsrecs]; simp [hr])
  have hOt : owedStream p.id 5 mc srecs = owedStream p.id 5 mc body := by
    rw [hsrecs, owedStream_append, owedStream_term p.id 5 mc _ rfl, List.append_nil]
  have ok : EOKL (cfgE p recs content body pad res b mc st t.wlog 0 more) :=
    ⟨hwf, hrole, hpairs, hnoise, hbody, hsb, hpad, rfl, rfl, rfl, rfl⟩
  have htwf : (trec 5 p.id pad res).WF := ⟨hid, by simp [trec], hpad⟩
  have hidle : ∀ e ∈ [trec 5 p.id pad res], IdleNoise e := by
    intro e he
    rw [List.mem_singleton.1 he]
    exact ⟨htwf, fun hx => absurd hx (by show (5 : UInt8).toNat ≠ RT.beginRequest; decide)⟩
  have hfit : NoiseFits (alignedBufsize b) [trec 5 p.id pad res] := by
    intro e he hg
    rw [List.mem_singleton.1 he] at hg
    exact absurd hg.1 (by show (5 : UInt8).toNat ≠ RT.getValues; decide)
  obtain ⟨hns, hNF⟩ := idle_front dummy_wf b mc (fun q hq => by cases hq) (dummy_fits _) hidle hfit []
  rw [C02.serAll_single] at hns hNF
  have hst : FStage (cfgE p recs content body pad res b mc st t.wlog 0 more)
      (connS b mc t ((echoScript content st, true) :: more)) :=
    .start (raw := []) rfl (by
      show [] ++ t.input = _
      rw [hin, hsrecs, C02.serAll_append, C02.serAll_single]; rfl) (Nat.zero_le _) rfl hben rfl rfl rfl hev
  obtain ⟨c', fin, hrun, hres⟩ := run_echoR ok (Z := serAll dummyRecs ++ []) hns hNF
    t.endMode [] _ 0 fuel hst rfl (fun s hs => by cases hs) rfl (by show ans t + 1 ≤ fuel; unfold ans; omega)
  have hro := (run_idle_out mc [trec 5 p.id pad res] hidle).1
  rw [C02.serAll_single] at hro
  have hio : idleOwed mc [trec 5 p.id pad res] = [] := by
    simp [idleOwed, owed, trec, RT.valid, RT.getValues, RT.beginRequest]
  rcases hres with ⟨⟨Lf, ⟨hkp, hled⟩, hk', hem, _, _, _, hend⟩, hsub⟩ | ⟨hfin, ⟨Lf, hled, hsub, hfu⟩, _, _⟩
  · obtain ⟨w, hLf, hil⟩ := led_eq hled
    rw [← hOt] at hil
    have hout : ∀ F, F ++ (serAll dummyRecs ++ []) = (trec 5 p.id pad res).ser ++ (serAll dummyRecs ++ []) →
        Lf ++ (run .header F mc).out = t.wlog ++ owedPreamble p mc recs ++ w := by
      intro F hF
      rw [List.append_cancel_right hF, hro, hio, List.append_nil, hLf]
    refine ⟨c', fin, pad, res, hrun, ⟨⟨hk'.hs, hk'.ev _ List.mem_cons_self⟩, ⟨w, ?_, hil⟩, hk'.sc, ?_⟩, hsub⟩
    · rcases hend with ⟨_, hp⟩ | ⟨_, hf⟩
      · obtain ⟨F, hF, _, _, hlg⟩ := hp.pst
        exact hlg.trans (hout F hF)
      · obtain ⟨F, hF, hlg⟩ := hf.log
        exact hlg.trans (hout F hF)
    · rcases hend with ⟨rfl, hp⟩ | ⟨rfl, hf⟩
      · obtain ⟨F, hF, hps, hph, _⟩ := hp.pst
        have hFe : F = (trec 5 p.id pad res).ser := List.append_cancel_right hF
        subst hFe
        exact Or.inr (Or.inr ⟨hkp, hem.symm.trans hp.em, rfl, hph, hp.inp, hk'.mx, hps.stop, hps.ben⟩)
      · exact Or.inr (Or.inl ⟨hkp, hem.symm.trans hf.em, rfl, hf.ph⟩)
  · obtain ⟨w, hLf, hil⟩ := led_eq hled
    rw [← hOt] at hil
    exact ⟨c', fin, pad, res, hrun, ⟨⟨hfu.ev.1, hfu.ev.2⟩, ⟨w, by rw [hfu.log, hLf], hil⟩, hfu.sc,
      Or.inl ⟨hfu.nokeep, hfin, hfu.ph⟩⟩, hsub⟩

/-- **C07 end to end: the echo Responder (quiet Stdin noise), WITH what the reads returned**: the outcome of
`echo_responder_e2e` (the log is `owedPreamble ++` one Stdout record per content byte `++ epilogue`) and the read
events. -/
theorem echo_responder_e2e_reads {p : Preamble} {recs : List Rec} {content : Bytes} {srecs : List Rec}
    {b mc : Nat} {st : ExitStatus} {more : List (List HOp × Bool)} {t : Transport} {fuel : Nat}
    (hwf : WellFormedPreamble p recs) (hrole : p.role = 1)
    (hpairs : ∀ q ∈ p.pairs, (NV.enc q).length ≤ alignedBufsize b)
    (hnoise : NoiseFits (alignedBufsize b) recs)
    (hs : StreamRecs p.id 5 content srecs) (hsn : NoiseFits (alignedBufsize b) srecs)
    (hin : t.input = serAll recs ++ serAll srecs) (hben : Ben t) (hev : hsCount t.events = 0)
    (hfuel : t.rd.length + t.wr.length + 1 ≤ fuel)
    (hquiet : owedStream p.id 5 mc srecs = []) :
    ∃ c' fin pad res,
      runTask fuel (connS b mc t ((echoScript content st, true) :: more)) 0 none = (c', fin) ∧
      EchoOutcome p recs content pad res b mc st more t c' fin ∧
      (echoReadEvents content).Sublist c'.env.tr.events := by
  obtain ⟨c', fin, pad, res, hrun, ho, hsub⟩ := echo_responder_e2e_noise_reads (st := st) (more := more) (fuel := fuel)
    hwf hrole hpairs hnoise hs hsn hin hben hev hfuel
  exact ⟨c', fin, pad, res, hrun, ⟨ho.one_handler, echo_noise_quiet ho hquiet, ho.scripts, ho.final⟩, hsub⟩

/-! ## Non-vacuity -/
namespace ExampleEcho3
open Fcgi.C01.Example Fcgi.C07E.Example ExampleEcho2

theorem reads_ABC : echoReadEvents [65, 66, 67] = ["r=1:41", "r=1:42", "r=1:43", "r=0:-"] := by decide

/-- the run of `ExampleEcho2` (a `GetValues` record between two Stdin records, an unknown-type record): the trace has
`r=1:41`, `r=1:42`, `r=1:43`, `r=0:-` in this order, and the log is the interleaving of `Props/C07Echo2` -/
example : ∃ c' fin w, runTask 20 (connS 64 10 gT [(echoScript [65, 66, 67] (.complete 0), true)]) 0 none = (c', fin) ∧
    c'.env.tr.wlog = owedPreamble pre 10 recs ++ w ∧
    Ilv w (owedStream 1 5 10 gS) (echoRecords 1 [65, 66, 67] ++ epilogue 1 (.complete 0)) ∧
    ["r=1:41", "r=1:42", "r=1:43", "r=0:-"].Sublist c'.env.tr.events := by
  obtain ⟨c', fin, pad, res, hrun, ho, hsub⟩ := echo_responder_e2e_noise_reads (p := pre) (recs := recs)
    (content := [65, 66, 67]) (srecs := gS) (b := 64) (mc := 10) (st := .complete 0) (more := []) (t := gT) (fuel := 20)
    recs_wf rfl (pre_pairs_fit 64) (noise_fits 64) gS_ok gS_fits rfl ⟨by decide, by decide, rfl, by decide⟩ rfl (by decide)
  obtain ⟨w, h1, h2⟩ := ho.log
  rw [reads_ABC] at hsub
  exact ⟨c', fin, w, hrun, by rw [h1]; rfl, h2, hsub⟩

/-- the quiet run of `Props/C07Echo` (`exS`, `exT`) with its reads -/
example : ∃ c' fin, runTask 20 (connS 64 10 exT [(echoScript [65, 66, 67] (.complete 0), true)]) 0 none = (c', fin) ∧
    c'.env.tr.wlog = [] ++ echoLog pre recs 10 [65, 66, 67] (.complete 0) ∧
    ["r=1:41", "r=1:42", "r=1:43", "r=0:-"].Sublist c'.env.tr.events := by
  obtain ⟨c', fin, pad, res, hrun, ho, hsub⟩ := echo_responder_e2e_reads (p := pre) (recs := recs) (content := [65, 66, 67])
    (srecs := exS) (b := 64) (mc := 10) (st := .complete 0) (more := []) (t := exT) (fuel := 20)
    recs_wf rfl (pre_pairs_fit 64) (noise_fits 64) exS_ok (exS_fits _) rfl exT_ben rfl (by decide) (exS_quiet 10)
  rw [reads_ABC] at hsub
  exact ⟨c', fin, hrun, ho.log, hsub⟩
end ExampleEcho3

end Fcgi.C07W
