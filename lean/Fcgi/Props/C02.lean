import Fcgi.Proofs.StrSim
/-!
# C02 — input stream extraction delivers exactly the stream's bytes, once, in order

Over the literal model of `parser/stream.rs` (`Model/StreamParser.lean`), against the record-level
specification `Spec/Streams.lean` (`StreamRecs id s content recs`).  Simulation machinery:
`Proofs/StrSim.lean` (`Sim`, `Inv`, `ops_sim`).

For a parser standing at a record boundary in front of the records of its active stream `s`
(`Start`), and **any** legal history of caller operations without `set_stream` — `parse` with any
new input (any read chunking) into a `dest` of any size or into the internal buffer,
`consume_stream`, `compress`, `consume_output`, in any interleaving — that feeds a prefix of
`serAll recs ++ tail`:

* `delivered_prefix` — the bytes delivered (`deliveredOps`) are a prefix of `content`; no `parse`
  returns `Err` or panics; a `parse` reports `stream_end` only when everything delivered so far
  equals `content` (never early);
* `each_byte_once` — what a later part of the history delivers continues exactly where the earlier
  part stopped;
* `end_reported`, `end_reported_dest` — once the whole of `serAll recs` was fed, the next
  `parse(_, None)` reports `stream_end` with all of `content` delivered; with caller buffers of
  `n > 0` bytes this happens after at most `|content|` further calls;
* `end_by_later_stream` — the same with a record of a later stream (Filter: `Data` while `Stdin`
  is active) in place of the empty terminating record;
* `stream_replies_exact`, `stream_replies_at_end` — the replies generated for the interleaved noise
  are exactly `owedStream` (C04, stream half).

All statements hold as stated; there is no `_full`/`_partial` pair in this file.
-/
namespace Fcgi.C02
open Fcgi Fcgi.Str Fcgi.Spec
open Fcgi.Req (Request PErr)

/-! ## Hypotheses -/

/-- The parser stands at a record boundary with stream `s` of request `id` active.  (`p0.state`,
`p0.parsed`, `p0.output` and the buffer geometry are arbitrary; a fresh parser is `start_fresh`.) -/
structure Start (p0 : Parser) (id s mc : Nat) : Prop where
  inv : SInv p0
  id : p0.request.id = id
  strm : p0.stream = some s
  mc : p0.maxConns = mc
  pay : p0.pay = 0
  pad : p0.pad = 0

theorem Start.mem {p0 : Parser} {id s mc : Nat} (h : Start p0 id s mc) :
    s ∈ inputStreams p0.request.role := by
  obtain ⟨-, -, -, -, hs, -⟩ := h.inv
  rcases hs with hs | ⟨e, hs, hm⟩
  · rw [h.strm] at hs; cases hs
  · rw [h.strm] at hs; cases hs; exact hm

/-- `Parser::from_parser` / `Parser::new` for a Responder or Filter request starts like this, with
`Stdin` active. -/
theorem start_fresh (cap : Nat) (req : Request) (input : Bytes) (mc : Nat)
    (hlen : input.length ≤ cap) (hid : req.id < 65536) (hrole : req.role = 1 ∨ req.role = 3) :
    Start (Parser.fromParser cap req input mc) req.id 5 mc := by
  refine ⟨SInv_fromParser cap req input mc hlen hid, rfl, ?_, rfl, rfl, rfl⟩
  rcases hrole with h | h <;> simp [Parser.fromParser, nextInputStream, h, RT.stdin]

/-- The stream's empty terminating record is an end mark. -/
theorem endMark_term {id role s : Nat} (hid : id < 65536) (hs : s = 5 ∨ s = 8) (pad : Bytes)
    (res : UInt8) (hp : pad.length < 256) (tail : Bytes) :
    EndMark id role s
      (({ rtype := UInt8.ofNat s, id := id, content := [], pad := pad, reserved := res } : Rec).ser ++ tail) :=
  ⟨_, tail, rfl, ⟨hid, by simp, hp⟩, rfl, Or.inl ⟨by rcases hs with rfl | rfl <;> rfl, rfl⟩⟩

theorem serAll_append (a b : List Rec) : serAll (a ++ b) = serAll a ++ serAll b := by
  simp [serAll]

theorem serAll_single (r : Rec) : serAll [r] = r.ser := by simp [serAll]

/-- A `StreamRecs` wire is a `Body` followed by an end mark. -/
theorem wire_split {id s : Nat} {content : Bytes} {recs : List Rec}
    (h : StreamRecs id s content recs) (role : Nat) (hid : id < 65536) (hs : s = 5 ∨ s = 8)
    (tail : Bytes) :
    ∃ body term, recs = body ++ [term] ∧ Body id s content body ∧
      EndMark id role s (term.ser ++ tail) ∧
      serAll recs ++ tail = serAll body ++ (term.ser ++ tail) ∧
      (∀ mc, owedStream id s mc recs = owedStream id s mc body) := by
  obtain ⟨body, pad, res, hp, hb, rfl⟩ := StreamRecs.split h
  refine ⟨body, _, rfl, hb, endMark_term hid hs pad res hp tail, ?_, fun mc => ?_⟩
  · rw [serAll_append, serAll_single, List.append_assoc]
  · have hsn : (UInt8.ofNat s).toNat = s := by rcases hs with rfl | rfl <;> rfl
    rw [owedStream_append, owedStream_cons]
    simp [hsn, owedStream]

/-! ## Safety over `Body` + end mark (common generalisation of 3 and 5) -/

theorem LegalAll_append {p : Parser} {a b : List Op} :
    LegalAll p (a ++ b) ↔ LegalAll p a ∧ LegalAll (applyOps p a) b := by
  induction a generalizing p with
  | nil => simp [LegalAll]
  | cons op t ih => simp only [List.cons_append, LegalAll, applyOps_cons, ih, and_assoc]

theorem fedBytes_append (a b : List Op) : fedBytes (a ++ b) = fedBytes a ++ fedBytes b := by
  induction a with
  | nil => rfl
  | cons op t ih => cases op <;> simp [fedBytes, ih]

theorem NoSet_append {a b : List Op} : NoSet (a ++ b) ↔ NoSet a ∧ NoSet b := by
  simp only [NoSet, List.mem_append, not_or]
  exact ⟨fun h => ⟨fun s => (h s).1, fun s => (h s).2⟩, fun h s => ⟨h.1 s, h.2 s⟩⟩

theorem NoSet_drain (n k : Nat) : NoSet (drainOps n k) := by
  intro s h
  have := List.eq_of_mem_replicate h
  cases this

theorem NoSet_parse (new : Bytes) (dest : Option Nat) : NoSet [.parse new dest] := by
  intro s h
  simp at h

/-- The simulation, instantiated at a `Start` state: everything the later theorems need. -/
theorem sim_gen {id s mc : Nat} {content tail x : Bytes} {body : List Rec} {p0 : Parser}
    (h0 : Start p0 id s mc) (hb : Body id s content body)
    (hend : EndMark id p0.request.role s tail) (ops : List Op) (hl : LegalAll p0 ops)
    (hns : NoSet ops) (hfed : p0.raw ++ fedBytes ops ++ x = serAll body ++ tail) :
    ∃ remC' remO', Sim ⟨id, p0.request.role, s, mc, tail⟩ (applyOps p0 ops) x remC' remO' ∧
      SInv (applyOps p0 ops) ∧ deliveredOps p0 ops ++ remC' = content ∧
      C03S.grownAll p0 ops ++ remO' = owedStream id s mc body ∧
      EveryParse (EndExact content) [] p0 ops := by
  have hs : Sim ⟨id, p0.request.role, s, mc, tail⟩ p0 (fedBytes ops ++ x) content
      (owedStream id s mc body) :=
    Sim.init hb hend h0.mem h0.id rfl h0.strm h0.mc h0.pay h0.pad
      (by rw [← List.append_assoc]; exact hfed)
  simpa using ops_sim ops p0 content (owedStream id s mc body) [] hs h0.inv hl hns

/-- **Safety, general form**: `body` without terminator, followed by any end mark. -/
theorem delivered_prefix_gen {id s mc : Nat} {content tail : Bytes} {body : List Rec} {p0 : Parser}
    (h0 : Start p0 id s mc) (hb : Body id s content body)
    (hend : EndMark id p0.request.role s tail) (ops : List Op) (hl : LegalAll p0 ops)
    (hns : NoSet ops) (hfed : p0.raw ++ fedBytes ops <+: serAll body ++ tail) :
    deliveredOps p0 ops <+: content ∧ EveryParse (EndExact content) [] p0 ops := by
  obtain ⟨x, hx⟩ := hfed
  obtain ⟨remC', remO', -, -, hd, -, hev⟩ := sim_gen h0 hb hend ops hl hns hx
  exact ⟨⟨remC', hd⟩, hev⟩

/-- **Liveness, general form** (`dest = None`): the call after which everything up to and
including the end mark's header has been fed reports `stream_end`, everything delivered. -/
theorem end_reported_gen {id s mc : Nat} {content tail x : Bytes} {body : List Rec} {p0 : Parser}
    (h0 : Start p0 id s mc) (hb : Body id s content body)
    (hend : EndMark id p0.request.role s tail) (ops : List Op) (new : Bytes)
    (hl : LegalAll p0 (ops ++ [.parse new none])) (hns : NoSet ops)
    (hfed : p0.raw ++ fedBytes (ops ++ [.parse new none]) ++ x = serAll body ++ tail)
    (hall : x.length + 8 ≤ tail.length) :
    ∃ q' st, (applyOps p0 ops).parse new none = (q', .ok st) ∧ st.streamEnd = true ∧
      deliveredOps p0 (ops ++ [.parse new none]) = content := by
  obtain ⟨hl1, hl2, -⟩ := LegalAll_append.1 hl
  have hfed' : p0.raw ++ fedBytes ops ++ (new ++ x) = serAll body ++ tail := by
    rw [← hfed, fedBytes_append]; simp [fedBytes]
  obtain ⟨remC', remO', hs, hinv, hd, -, -⟩ := sim_gen h0 hb hend ops hl1 hns hfed'
  obtain ⟨q', st, remC2, remO2, hp, -, hdel, -, hse, hlive⟩ :=
    parse_sim (dest := none) hs hinv.1 hl2.1 hl2.2
  have hend' : st.streamEnd = true := by
    rcases hlive hall with h | ⟨n, h, -⟩
    · exact h
    · cases h
  refine ⟨q', st, hp, hend', ?_⟩
  rw [deliveredOps_append]
  simp only [deliveredOps, List.append_nil]
  rw [← hd, ← hdel, (hse hend').1, List.append_nil]

/-- **Liveness, general form** (`dest = Some`, `n > 0` bytes each): at most `|content|` calls
deliver without reporting `stream_end`; the next one reports it, everything delivered. -/
theorem end_reported_dest_gen {id s mc : Nat} {content tail x : Bytes} {body : List Rec}
    {p0 : Parser} (h0 : Start p0 id s mc) (hb : Body id s content body)
    (hend : EndMark id p0.request.role s tail) (ops : List Op) (hl : LegalAll p0 ops)
    (hns : NoSet ops) (hfed : p0.raw ++ fedBytes ops ++ x = serAll body ++ tail)
    (hall : x.length + 8 ≤ tail.length) (hpar : (applyOps p0 ops).parsed = []) {n : Nat}
    (hn : 0 < n) :
    ∃ k, k ≤ content.length ∧ ∃ q' st,
      (applyOps p0 (ops ++ drainOps n k)).parse [] (some n) = (q', .ok st) ∧
      st.streamEnd = true ∧ deliveredOps p0 (ops ++ drainOps n (k + 1)) = content := by
  obtain ⟨remC', remO', hs, hinv, hd, -, -⟩ := sim_gen h0 hb hend ops hl hns hfed
  obtain ⟨k, hk, q', st, hq, hse, hdel, -⟩ :=
    drain_some (E := ⟨id, p0.request.role, s, mc, tail⟩) hall hn remC'.length _ remC' remO'
      (Nat.le_refl _) hs hinv hpar
  refine ⟨k, ?_, q', st, by rw [applyOps_append]; exact hq, hse, ?_⟩
  · have := congrArg List.length hd
    simp only [List.length_append] at this
    omega
  · rw [deliveredOps_append, hdel, hd]

/-! ## 3. Safety for `StreamRecs` -/

/-- **C02, safety.**  For every request and every well-formed sequence `recs` of records of its
active input stream `s` carrying `content` — any segmentation into records, any padding, any
interleaved management / unknown-type / foreign-id records — and every legal history `ops` of
`parse` (any new input, any `dest`), `consume_stream`, `compress`, `consume_output` that feeds a
prefix of `serAll recs ++ tail`:

* the bytes delivered are a prefix of `content` (exactly the stream's bytes, in order);
* every `parse` returns `Ok` (`EndExact`: no `Err`, no panic);
* a `parse` that reports `stream_end` has — cumulatively — delivered exactly `content`. -/
theorem delivered_prefix {id s mc : Nat} {content : Bytes} {recs : List Rec} {p0 : Parser}
    (h0 : Start p0 id s mc) (hrecs : StreamRecs id s content recs) (tail : Bytes)
    (ops : List Op) (hl : LegalAll p0 ops) (hns : NoSet ops)
    (hfed : p0.raw ++ fedBytes ops <+: serAll recs ++ tail) :
    deliveredOps p0 ops <+: content ∧ EveryParse (EndExact content) [] p0 ops := by
  have hid : id < 65536 := by rw [← h0.id]; exact h0.inv.2.2.2.2.2
  obtain ⟨body, term, -, hb, hend, hw, -⟩ :=
    wire_split hrecs p0.request.role hid (mem_inputStreams_cases h0.mem) tail
  rw [hw] at hfed
  exact delivered_prefix_gen h0 hb hend ops hl hns hfed

/-- The same for a freshly created parser of a Responder / Filter request (`Stdin` active), the
hand-over input `input0` counting as fed. -/
theorem delivered_prefix_fresh (cap : Nat) (req : Request) (input0 : Bytes) (mc : Nat)
    (hlen : input0.length ≤ cap) (hid : req.id < 65536) (hrole : req.role = 1 ∨ req.role = 3)
    {content : Bytes} {recs : List Rec} (hrecs : StreamRecs req.id 5 content recs) (tail : Bytes)
    (ops : List Op) (hl : LegalAll (Parser.fromParser cap req input0 mc) ops) (hns : NoSet ops)
    (hfed : input0 ++ fedBytes ops <+: serAll recs ++ tail) :
    deliveredOps (Parser.fromParser cap req input0 mc) ops <+: content ∧
      EveryParse (EndExact content) [] (Parser.fromParser cap req input0 mc) ops :=
  delivered_prefix (start_fresh cap req input0 mc hlen hid hrole) hrecs tail ops hl hns hfed

/-- **Each byte once, in order**: splitting the history anywhere, the later part delivers exactly
the bytes of `content` that follow what the earlier part delivered. -/
theorem each_byte_once {id s mc : Nat} {content : Bytes} {recs : List Rec} {p0 : Parser}
    (h0 : Start p0 id s mc) (hrecs : StreamRecs id s content recs) (tail : Bytes)
    (a b : List Op) (hl : LegalAll p0 (a ++ b)) (hns : NoSet (a ++ b))
    (hfed : p0.raw ++ fedBytes (a ++ b) <+: serAll recs ++ tail) :
    ∃ rest, content = deliveredOps p0 a ++ (deliveredOps (applyOps p0 a) b ++ rest) := by
  obtain ⟨⟨rest, hr⟩, -⟩ := delivered_prefix h0 hrecs tail (a ++ b) hl hns hfed
  exact ⟨rest, by rw [← hr, deliveredOps_append, List.append_assoc]⟩

/-- Special case: one `parse` call on the complete wire into the internal buffer. -/
theorem C02_oneshot {id s mc : Nat} {content : Bytes} {recs : List Rec} {p0 : Parser}
    (h0 : Start p0 id s mc) (hrecs : StreamRecs id s content recs) (tail : Bytes)
    (hraw : p0.raw = []) (hfree : (serAll recs ++ tail).length ≤ p0.free) :
    ∃ q' st, p0.parse (serAll recs ++ tail) none = (q', .ok st) ∧ st.streamEnd = true ∧
      q'.parsed = p0.parsed ++ content := by
  have hid : id < 65536 := by rw [← h0.id]; exact h0.inv.2.2.2.2.2
  obtain ⟨body, term, -, hb, hend, hw, -⟩ :=
    wire_split hrecs p0.request.role hid (mem_inputStreams_cases h0.mem) tail
  obtain ⟨q', st, hp, hse, hdel⟩ :=
    end_reported_gen (x := []) h0 hb hend [] (serAll recs ++ tail)
      ⟨⟨Or.inl rfl, hfree⟩, trivial⟩ (fun _ h => by cases h)
      (by simp [fedBytes, hraw, hw]) (by simp [Req.ser_length]; omega)
  refine ⟨q', st, hp, hse, ?_⟩
  simp only [List.nil_append, deliveredOps, deliveredOp, applyOps_nil] at hdel hp
  rw [hp] at hdel
  simp only [List.append_nil] at hdel
  obtain ⟨y, hy⟩ := (parse_frame p0 (serAll recs ++ tail) none).2.2.2.2.2.2
  rw [hp] at hy
  simp only at hy
  rw [← hy, List.drop_left] at hdel
  rw [← hy, hdel]

/-! ## 4. End-of-stream is reported (liveness) -/

/-- **C02, liveness (`dest = None`).**  The `parse(_, None)` call after which all of
`serAll recs` has been fed (`x`, the part of the wire not fed, lies within `tail`) reports
`stream_end`, and then all of `content` has been delivered.  In particular
(`new = []`) this is the first call of the draining schedule once the wire is complete, whatever
`consume_stream` / `compress` / `consume_output` calls were interleaved before. -/
theorem end_reported {id s mc : Nat} {content : Bytes} {recs : List Rec} {p0 : Parser}
    (h0 : Start p0 id s mc) (hrecs : StreamRecs id s content recs) (tail x : Bytes)
    (ops : List Op) (new : Bytes) (hl : LegalAll p0 (ops ++ [.parse new none])) (hns : NoSet ops)
    (hfed : p0.raw ++ fedBytes (ops ++ [.parse new none]) ++ x = serAll recs ++ tail)
    (hall : x.length ≤ tail.length) :
    ∃ q' st, (applyOps p0 ops).parse new none = (q', .ok st) ∧ st.streamEnd = true ∧
      deliveredOps p0 (ops ++ [.parse new none]) = content := by
  have hid : id < 65536 := by rw [← h0.id]; exact h0.inv.2.2.2.2.2
  obtain ⟨body, term, -, hb, hend, hw, -⟩ :=
    wire_split hrecs p0.request.role hid (mem_inputStreams_cases h0.mem) tail
  rw [hw] at hfed
  exact end_reported_gen h0 hb hend ops new hl hns hfed
    (by simp only [List.length_append, Req.ser_length]; omega)

/-- **C02, liveness (`dest = Some`).**  Once all of `serAll recs` has been fed and the internal
stream buffer is empty, calling `parse(0, Some(dest))` with `|dest| = n > 0` repeatedly: at most
`|content|` calls return without `stream_end` (each filling `dest` completely), the next one
reports `stream_end`, and then all of `content` has been delivered. -/
theorem end_reported_dest {id s mc : Nat} {content : Bytes} {recs : List Rec} {p0 : Parser}
    (h0 : Start p0 id s mc) (hrecs : StreamRecs id s content recs) (tail x : Bytes)
    (ops : List Op) (hl : LegalAll p0 ops) (hns : NoSet ops)
    (hfed : p0.raw ++ fedBytes ops ++ x = serAll recs ++ tail) (hall : x.length ≤ tail.length)
    (hpar : (applyOps p0 ops).parsed = []) {n : Nat} (hn : 0 < n) :
    ∃ k, k ≤ content.length ∧ ∃ q' st,
      (applyOps p0 (ops ++ drainOps n k)).parse [] (some n) = (q', .ok st) ∧
      st.streamEnd = true ∧ deliveredOps p0 (ops ++ drainOps n (k + 1)) = content := by
  have hid : id < 65536 := by rw [← h0.id]; exact h0.inv.2.2.2.2.2
  obtain ⟨body, term, -, hb, hend, hw, -⟩ :=
    wire_split hrecs p0.request.role hid (mem_inputStreams_cases h0.mem) tail
  rw [hw] at hfed
  exact end_reported_dest_gen h0 hb hend ops hl hns hfed
    (by simp only [List.length_append, Req.ser_length]; omega) hpar hn

/-! ## 5. End of stream by the first record of a later stream -/

/-- A `Data` record of this request is an end mark for `Stdin` of a Filter. -/
theorem endMark_data {id : Nat} (d : Rec) (hd : d.WF) (hid : d.id = id) (ht : d.rtype.toNat = 8)
    (tail : Bytes) : EndMark id 3 5 (d.ser ++ tail) :=
  ⟨d, tail, rfl, hd, hid, Or.inr (by rw [ht]; decide)⟩

/-- **C02, later-stream variant.**  Filter request (`role = 3`), `Stdin` active: if instead of the
empty `Stdin` record the data records (and noise) are followed by a `Data` record `d` of this
request, the same holds — delivered bytes are a prefix of `content`, no `parse` fails,
`stream_end` is never early — and it *is* reported, all of `content` delivered, by the
`parse(_, None)` call after which `d`'s header has been fed; `d` itself is held back. -/
theorem end_by_later_stream {id mc : Nat} {content : Bytes} {body : List Rec} {p0 : Parser}
    (h0 : Start p0 id 5 mc) (hrole : p0.request.role = 3) (hb : Body id 5 content body)
    (d : Rec) (hd : d.WF) (hdid : d.id = id) (hdt : d.rtype.toNat = 8) (tail : Bytes) :
    (∀ ops, LegalAll p0 ops → NoSet ops →
      p0.raw ++ fedBytes ops <+: serAll body ++ (d.ser ++ tail) →
      deliveredOps p0 ops <+: content ∧ EveryParse (EndExact content) [] p0 ops) ∧
    (∀ ops new x, LegalAll p0 (ops ++ [.parse new none]) → NoSet ops →
      p0.raw ++ fedBytes (ops ++ [.parse new none]) ++ x = serAll body ++ (d.ser ++ tail) →
      x.length ≤ d.content.length + d.pad.length + tail.length →
      ∃ q' st, (applyOps p0 ops).parse new none = (q', .ok st) ∧ st.streamEnd = true ∧
        deliveredOps p0 (ops ++ [.parse new none]) = content ∧
        -- the `Data` record is still unconsumed in front of the parser
        q'.pay = 0 ∧ q'.pad = 0 ∧ q'.raw ++ x = d.ser ++ tail) := by
  have hend : EndMark id p0.request.role 5 (d.ser ++ tail) := by
    rw [hrole]; exact endMark_data d hd hdid hdt tail
  refine ⟨fun ops hl hns hfed => delivered_prefix_gen h0 hb hend ops hl hns hfed, ?_⟩
  intro ops new x hl hns hfed hall
  have hall' : x.length + 8 ≤ (d.ser ++ tail).length := by
    simp only [List.length_append, Req.ser_length]; omega
  obtain ⟨q', st, hp, hse, hdel⟩ := end_reported_gen h0 hb hend ops new hl hns hfed hall'
  refine ⟨q', st, hp, hse, hdel, ?_⟩
  -- position of the parser after the call
  obtain ⟨hl1, hl2, -⟩ := LegalAll_append.1 hl
  have hfed' : p0.raw ++ fedBytes ops ++ (new ++ x) = serAll body ++ (d.ser ++ tail) := by
    rw [← hfed, fedBytes_append]; simp [fedBytes]
  obtain ⟨remC', remO', hs, hinv, -, -, -⟩ := sim_gen h0 hb hend ops hl1 hns hfed'
  obtain ⟨q2, st2, remC2, remO2, hp2, hs2, -, -, hse2, -⟩ :=
    parse_sim (dest := none) hs hinv.1 hl2.1 hl2.2
  rw [hp] at hp2
  cases hp2
  exact (hse2 hse).2.2

/-! ## 6. The replies (C04, stream half) -/

/-- **Replies are exact.**  When the parser has consumed everything in front of the terminating
record (it stands at a record boundary, the terminator unconsumed before it), the reply bytes sent
so far followed by those still queued are the initial queue followed by exactly `owedStream`: one
`GetValuesResult` per non-empty management `GetValues`, one `UnknownType` per unknown record type,
one `EndRequest(CantMpxConn)` per foreign `BeginRequest`, in arrival order, nothing else. -/
theorem stream_replies_exact {id s mc : Nat} {content : Bytes} {recs : List Rec} {p0 : Parser}
    (h0 : Start p0 id s mc) (hrecs : StreamRecs id s content recs) (tail x : Bytes)
    (ops : List Op) (hl : LegalAll p0 ops) (hns : NoSet ops)
    (hfed : p0.raw ++ fedBytes ops ++ x = serAll recs ++ tail)
    (hpos : ∀ body term, recs = body ++ [term] →
      (applyOps p0 ops).pay = 0 ∧ (applyOps p0 ops).pad = 0 ∧
      (applyOps p0 ops).raw ++ x = term.ser ++ tail) :
    C03S.sentAll p0 ops ++ (applyOps p0 ops).output = p0.output ++ owedStream id s mc recs ∧
      deliveredOps p0 ops = content := by
  have hid : id < 65536 := by rw [← h0.id]; exact h0.inv.2.2.2.2.2
  obtain ⟨body, term, hsplit, hb, hend, hw, how⟩ :=
    wire_split hrecs p0.request.role hid (mem_inputStreams_cases h0.mem) tail
  rw [hw] at hfed
  obtain ⟨remC', remO', hs, -, hd, hg, -⟩ := sim_gen h0 hb hend ops hl hns hfed
  obtain ⟨h1, h2, h3⟩ := hpos body term hsplit
  obtain ⟨rc0, ro0⟩ := hs.at_end h1 h2 h3
  subst rc0 ro0
  rw [C03S.output_ledger, how, ← hg]
  simp only [List.append_nil] at hd ⊢
  exact ⟨trivial, hd⟩

/-- The same, keyed on the observable event: when the last call of the history is a `parse` that
reports `stream_end`, all owed replies have been generated (and all content delivered). -/
theorem stream_replies_at_end {id s mc : Nat} {content : Bytes} {recs : List Rec} {p0 : Parser}
    (h0 : Start p0 id s mc) (hrecs : StreamRecs id s content recs) (tail : Bytes)
    (ops : List Op) (new : Bytes) (dest : Option Nat)
    (hl : LegalAll p0 (ops ++ [.parse new dest])) (hns : NoSet ops)
    (hfed : p0.raw ++ fedBytes (ops ++ [.parse new dest]) <+: serAll recs ++ tail)
    {q' : Parser} {st : Status} (hp : (applyOps p0 ops).parse new dest = (q', .ok st))
    (hse : st.streamEnd = true) :
    C03S.sentAll p0 (ops ++ [.parse new dest]) ++ q'.output = p0.output ++ owedStream id s mc recs ∧
      deliveredOps p0 (ops ++ [.parse new dest]) = content := by
  have hid : id < 65536 := by rw [← h0.id]; exact h0.inv.2.2.2.2.2
  obtain ⟨body, term, -, hb, hend, hw, how⟩ :=
    wire_split hrecs p0.request.role hid (mem_inputStreams_cases h0.mem) tail
  rw [hw] at hfed
  obtain ⟨x, hx⟩ := hfed
  obtain ⟨hl1, hl2, -⟩ := LegalAll_append.1 hl
  have hfed' : p0.raw ++ fedBytes ops ++ (new ++ x) = serAll body ++ (term.ser ++ tail) := by
    rw [← hx, fedBytes_append]; simp [fedBytes]
  obtain ⟨remC', remO', hs, hinv, hd, hg, -⟩ := sim_gen h0 hb hend ops hl1 hns hfed'
  obtain ⟨q2, st2, remC2, remO2, hp2, -, hdel, hgr, hse2, -⟩ :=
    parse_sim (dest := dest) hs hinv.1 hl2.1 hl2.2
  rw [hp] at hp2
  cases hp2
  obtain ⟨rc0, ro0, -⟩ := hse2 hse
  subst rc0 ro0
  have hq : applyOps p0 (ops ++ [.parse new dest]) = q' := by
    rw [applyOps_append]; simp [applyOp, hp]
  refine ⟨?_, ?_⟩
  · have := C03S.output_ledger p0 (ops ++ [.parse new dest])
    rw [hq] at this
    rw [this, how, ← hg, ← hgr, grownAll_append]
    simp [C03S.grownAll]
  · rw [deliveredOps_append]
    simp only [deliveredOps, List.append_nil]
    rw [← hd, ← hdel, List.append_nil]

/-! ## Concrete instances (non-vacuity) -/

section Examples

instance decLegal (p : Parser) : (op : Op) → Decidable (Legal p op)
  | .parse new dest =>
    inferInstanceAs (Decidable ((dest = none ∨ p.parsed = []) ∧ new.length ≤ p.free))
  | .setStream (some s) => inferInstanceAs (Decidable (RT.isInputStream s = true))
  | .setStream none => isTrue trivial
  | .consumeStream _ => isTrue trivial
  | .compress => isTrue trivial
  | .consumeOutput _ => isTrue trivial

instance decLegalAll : (p : Parser) → (ops : List Op) → Decidable (LegalAll p ops)
  | _, [] => isTrue trivial
  | p, op :: t => @instDecidableAnd _ _ (decLegal p op) (decLegalAll (applyOp p op) t)

/-- A Responder request, id 1. -/
def exReq : Request := { id := 1, role := 1, flags := 0, env := [] }
/-- Management `GetValues(FCGI_MPXS_CONNS = "")`, 7 padding bytes. -/
def exNoise : Rec :=
  { rtype := 9, id := 0,
    content := [15, 0, 70, 67, 71, 73, 95, 77, 80, 88, 83, 95, 67, 79, 78, 78, 83],
    pad := [0, 0, 0, 0, 0, 0, 0] }
def exContent : Bytes := [65, 66, 67, 68, 69]
/-- `Stdin("ABC")` with 5 padding bytes, the GetValues record, `Stdin("DE")`, empty `Stdin`. -/
def exRecs : List Rec :=
  [{ rtype := UInt8.ofNat 5, id := 1, content := [65, 66, 67], pad := [0, 0, 0, 0, 0], reserved := 0 },
   exNoise,
   { rtype := UInt8.ofNat 5, id := 1, content := [68, 69], pad := [], reserved := 7 },
   { rtype := UInt8.ofNat 5, id := 1, content := [], pad := [0, 0], reserved := 0 }]
/-- What follows on the connection (never fed below). -/
def exTail : Bytes := [1, 5, 0]

theorem exRecs_ok : StreamRecs 1 5 exContent exRecs :=
  .chunk [65, 66, 67] [0, 0, 0, 0, 0] 0 (by decide) (by decide)
    (.noise exNoise (by unfold StreamNoise Rec.WF; decide)
      (.chunk [68, 69] [] 7 (by decide) (by decide) (.term [0, 0] 0 (by decide))))

/-- The wire: 68 bytes. -/
def exWire : Bytes := serAll exRecs
example : exWire.length = 68 := by decide +kernel

/-- A fresh parser with a 64-byte buffer (the wire does not fit at once). -/
def exP : Parser := Parser.fromParser 64 exReq [] 10
theorem exStart : Start exP 1 5 10 := start_fresh 64 exReq [] 10 (by decide) (by decide) (Or.inl rfl)

/-- 20 bytes into a 2-byte `dest`; again a 2-byte `dest`; compact; 30 more bytes into the internal
buffer; flush the replies; the remaining 18 bytes; consume one stream byte; compact; ask again. -/
def exOps : List Op :=
  [.parse (exWire.take 20) (some 2), .parse [] (some 2), .compress,
   .parse ((exWire.drop 20).take 30) none, .consumeOutput 100,
   .parse (exWire.drop 50) none, .consumeStream 1, .compress, .parse [] none]

theorem exLegal : LegalAll exP exOps := by decide +kernel
theorem exNoSet : NoSet exOps := by
  intro s h
  simp [exOps] at h
theorem exFed : exP.raw ++ fedBytes exOps ++ exTail = serAll exRecs ++ exTail := by decide +kernel

/-- Theorem 3 on the instance. -/
example : deliveredOps exP exOps <+: exContent ∧ EveryParse (EndExact exContent) [] exP exOps :=
  delivered_prefix exStart exRecs_ok exTail exOps exLegal exNoSet ⟨exTail, exFed⟩

/-- …and what actually happens: "AB", then "C", nothing, "DE" with `stream_end`, `stream_end`. -/
example : deliveredOps exP exOps = exContent ∧
    (exP.parse (exWire.take 20) (some 2)).2 =
      .ok { stream := 2, streamEnd := false, output := 0, delivered := [65, 66] } ∧
    ((applyOps exP (exOps.take 1)).parse [] (some 2)).2 =
      .ok { stream := 1, streamEnd := false, output := 0, delivered := [67] } ∧
    ((applyOps exP (exOps.take 3)).parse ((exWire.drop 20).take 30) none).2 =
      .ok { stream := 0, streamEnd := false, output := 32, delivered := [] } ∧
    ((applyOps exP (exOps.take 5)).parse (exWire.drop 50) none).2 =
      .ok { stream := 2, streamEnd := true, output := 0, delivered := [] } ∧
    ((applyOps exP (exOps.take 8)).parse [] none).2 =
      .ok { stream := 0, streamEnd := true, output := 0, delivered := [] } := by
  decide +kernel

/-- Theorem 4 on the instance: the call that completes the wire reports `stream_end`. -/
example : ∃ q' st, (applyOps exP (exOps.take 5)).parse (exWire.drop 50) none = (q', .ok st) ∧
    st.streamEnd = true ∧
    deliveredOps exP (exOps.take 5 ++ [.parse (exWire.drop 50) none]) = exContent :=
  end_reported exStart exRecs_ok exTail exTail (exOps.take 5) (exWire.drop 50)
    (by decide +kernel) (fun s h => by simp [exOps] at h) (by decide +kernel) (Nat.le_refl _)

/-- Theorem 4 (`dest`) on the instance: the whole wire handed over at creation (80-byte buffer),
drained through 2-byte buffers: `stream_end` after at most 5 non-final calls. -/
example : ∃ k, k ≤ exContent.length ∧ ∃ q' st,
    (applyOps (Parser.fromParser 80 exReq exWire 10) ([] ++ drainOps 2 k)).parse [] (some 2) =
      (q', .ok st) ∧ st.streamEnd = true ∧
    deliveredOps (Parser.fromParser 80 exReq exWire 10) ([] ++ drainOps 2 (k + 1)) = exContent :=
  end_reported_dest (start_fresh 80 exReq exWire 10 (by decide +kernel) (by decide) (Or.inl rfl))
    exRecs_ok exTail exTail [] trivial (fun _ h => by cases h) (by decide +kernel) (Nat.le_refl _)
    rfl (by decide)

/-- `n > 0` is needed in `end_reported_dest`: a zero-length `dest` in front of a data record makes
no progress, however often it is offered (inherent, not a defect). -/
example : (Parser.fromParser 80 exReq exWire 10).parse [] (some 0) =
    ({ Parser.fromParser 80 exReq exWire 10 with
        raw := exWire.drop 8, g1 := 8, pay := 3, pad := 5, state := .stream },
      .ok { stream := 0, streamEnd := false, output := 0, delivered := [] }) ∧
    ({ Parser.fromParser 80 exReq exWire 10 with
        raw := exWire.drop 8, g1 := 8, pay := 3, pad := 5, state := .stream } : Parser).parse [] (some 0) =
    ({ Parser.fromParser 80 exReq exWire 10 with
        raw := exWire.drop 8, g1 := 8, pay := 3, pad := 5, state := .stream },
      .ok { stream := 0, streamEnd := false, output := 0, delivered := [] }) := by
  decide +kernel

/-- Theorem 6 on the instance: after the history the one owed reply (32-byte GetValuesResult) was
generated, nothing else. -/
example : C03S.sentAll exP exOps ++ (applyOps exP exOps).output =
    exP.output ++ owedStream 1 5 10 exRecs ∧ deliveredOps exP exOps = exContent :=
  stream_replies_exact exStart exRecs_ok exTail exTail exOps exLegal exNoSet exFed
    (by
      intro body term h
      have : term = { rtype := UInt8.ofNat 5, id := 1, content := [], pad := [0, 0], reserved := 0 } := by
        have h' := congrArg List.getLast? h
        simp [exRecs] at h'
        exact h'.symm
      subst this
      decide +kernel)
example : (owedStream 1 5 10 exRecs).length = 32 := by decide +kernel

/-- Theorem 5 on an instance: a Filter; `Stdin("AB")`, then a `Data` record of the same request. -/
def exFilter : Parser := Parser.fromParser 64 { exReq with role := 3 } [] 10
def exData : Rec := { rtype := 8, id := 1, content := [9, 9, 9], pad := [] }
example : ∃ q' st,
    exFilter.parse (serAll [{ rtype := UInt8.ofNat 5, id := 1, content := [65, 66], pad := [] }] ++
      (exData.ser ++ [])) none = (q', .ok st) ∧ st.streamEnd = true ∧
    deliveredOps exFilter ([] ++ [.parse (serAll [{ rtype := UInt8.ofNat 5, id := 1, content := [65, 66], pad := [] }] ++
      (exData.ser ++ [])) none]) = [65, 66] ++ [] ∧
    q'.pay = 0 ∧ q'.pad = 0 ∧ q'.raw ++ [] = exData.ser ++ [] :=
  (end_by_later_stream (p0 := exFilter)
    (start_fresh 64 { exReq with role := 3 } [] 10 (by decide) (by decide) (Or.inr rfl)) rfl
    (.chunk [65, 66] [] 0 (by decide) (by decide) .nil) exData (by unfold Rec.WF; decide) rfl rfl []).2
    [] _ [] (by decide +kernel) (fun _ h => by cases h) (by decide +kernel) (by decide)

end Examples

end Fcgi.C02
