import Fcgi.Model.RunLoop
import Fcgi.Props.C14b
/-!
# C13 / C14 — two artefacts that were modelled at the driver level only

(a) `Run.gateTrace` (the permit-lives-as-long-as-the-task probes of the `gt=1` runs): the list it
returns, for ANY event list, is the event list with one `G:P` probe inserted in front of every poll
marker `|n` but the first, followed by `["G:P","G:R"]` (a stalled task) or `["G:R"]` (`gateTrace_shape`);
hence every `G:P` precedes the end of the task, exactly one `G:R` follows it, the events themselves
are untouched, and the number of `G:P` probes is (polls − 1) (+ 1 for a stall).

(b) `WG2`: the wait-group step model of `Model/Runner` with the IDENTITY of the stored waker
(`AtomicWaker::register` replaces it): `pollRegister i` stores task `i`'s waker, the final `wake()`
wakes the stored one.  `proj` forgets the identity and every step of `WG2` is a step of `WG`
(`step_proj`), so all of `Props/C14b` carries over; `woken_is_last_registered`: the completion
wake-up goes to whichever task polled last, for all interleavings; `at_most_one_wake`: nobody else
is ever woken.
-/
namespace Fcgi.C13Conn
open Fcgi

/-! ## (a) `gateTrace` -/

def isMark (e : String) : Bool := e.startsWith "|"

/-- the specification: a `G:P` in front of every poll marker but the first -/
def insertProbes : Bool → List String → List String
  | _, [] => []
  | first, e :: es =>
    if isMark e then (if first then [e] else ["G:P", e]) ++ insertProbes false es
    else e :: insertProbes first es

def tailProbes (fin : String) : List String := if fin.startsWith "STALL" then ["G:P", "G:R"] else ["G:R"]

theorem foldl_probes (es : List String) : ∀ (acc : List String) (first : Bool),
    (es.foldl (fun (acc : List String × Bool) e =>
      if e.startsWith "|" then (if acc.2 then (acc.1 ++ [e], false) else (acc.1 ++ ["G:P", e], false))
      else (acc.1 ++ [e], acc.2)) (acc, first)).1 = acc ++ insertProbes first es := by
  induction es with
  | nil => intro acc first; simp [insertProbes]
  | cons e es ih =>
    intro acc first
    simp only [List.foldl_cons, insertProbes, isMark]
    by_cases hm : e.startsWith "|" = true
    · simp only [hm, if_true]
      cases first
      · simp only [Bool.false_eq_true, if_false]; rw [ih]; simp
      · simp only [if_true]; rw [ih]; simp
    · simp only [hm, if_false, Bool.false_eq_true]
      rw [ih]; simp

/-- **`gateTrace_shape`** -/
theorem gateTrace_shape (events : List String) (fin : String) :
    Run.gateTrace events fin = insertProbes true events ++ tailProbes fin := by
  unfold Run.gateTrace tailProbes
  simp only []
  rw [foldl_probes events [] true, List.nil_append]

def isProbe (e : String) : Bool := e == "G:P" || e == "G:R"

/-- the events themselves are untouched, in order -/
theorem insertProbes_filter (es : List String) (h : ∀ e ∈ es, isProbe e = false) : ∀ first,
    (insertProbes first es).filter (fun e => !isProbe e) = es := by
  induction es with
  | nil => intro _; rfl
  | cons e es ih =>
    intro first
    have he := h e List.mem_cons_self
    have ih' := ih (fun x hx => h x (List.mem_cons_of_mem _ hx))
    simp only [insertProbes]
    by_cases hm : isMark e = true
    · have hf : (fun e => !isProbe e) e = true := by simp [he]
      simp only [hm, if_true]
      cases first
      · simp only [Bool.false_eq_true, if_false, List.cons_append, List.nil_append]
        rw [List.filter_cons_of_neg (by simp [isProbe]), List.filter_cons]
        simp only [he, Bool.not_false, if_true, ih' false]
      · simp only [if_true, List.singleton_append]
        rw [List.filter_cons]
        simp only [he, Bool.not_false, if_true, ih' false]
    · have hf : (fun e => !isProbe e) e = true := by simp [he]
      simp only [hm, if_false, Bool.false_eq_true]
      rw [List.filter_cons]
      simp only [he, Bool.not_false, if_true, ih' first]

theorem gateTrace_events (events : List String) (fin : String) (h : ∀ e ∈ events, isProbe e = false) :
    (Run.gateTrace events fin).filter (fun e => !isProbe e) = events := by
  rw [gateTrace_shape, List.filter_append, insertProbes_filter events h]
  unfold tailProbes
  split <;> simp [isProbe]

/-- **exactly one `G:R`, and it is the last element**: every `G:P` (and every event) precedes it -/
theorem gateTrace_end (events : List String) (fin : String) (h : ∀ e ∈ events, isProbe e = false) :
    ∃ body, Run.gateTrace events fin = body ++ ["G:R"] ∧ "G:R" ∉ body := by
  rw [gateTrace_shape]
  have hb : ∀ first, "G:R" ∉ insertProbes first events := by
    intro first hmem
    have h1 : ∀ es first, (∀ e ∈ es, isProbe e = false) → "G:R" ∈ insertProbes first es → False := by
      intro es
      induction es with
      | nil => intro _ _ hm; cases hm
      | cons e es ih =>
        intro first hh hm
        have he := hh e List.mem_cons_self
        have hne : e ≠ "G:R" := by intro hx; rw [hx] at he; simp [isProbe] at he
        simp only [insertProbes] at hm
        split at hm
        · split at hm
          · simp only [List.singleton_append, List.mem_cons] at hm
            rcases hm with hm | hm
            · exact hne hm.symm
            · exact ih false (fun x hx => hh x (List.mem_cons_of_mem _ hx)) hm
          · simp only [List.cons_append, List.nil_append, List.mem_cons] at hm
            rcases hm with hm | hm | hm
            · exact absurd hm (by decide)
            · exact hne hm.symm
            · exact ih false (fun x hx => hh x (List.mem_cons_of_mem _ hx)) hm
        · simp only [List.mem_cons] at hm
          rcases hm with hm | hm
          · exact hne hm.symm
          · exact ih first (fun x hx => hh x (List.mem_cons_of_mem _ hx)) hm
    exact h1 events first h hmem
  unfold tailProbes
  split
  · refine ⟨insertProbes true events ++ ["G:P"], by simp, ?_⟩
    intro hm
    rcases List.mem_append.1 hm with hm | hm
    · exact hb true hm
    · simp at hm
  · exact ⟨insertProbes true events, rfl, hb true⟩

/-- the number of `Pending` probes: one per poll after the first, one more for a stalled task -/
theorem insertProbes_count (es : List String) (h : ∀ e ∈ es, isProbe e = false) : ∀ first,
    (insertProbes first es).count "G:P" =
      (es.filter isMark).length - (if first && (es.filter isMark).length > 0 then 1 else 0) := by
  induction es with
  | nil => intro _; simp [insertProbes]
  | cons e es ih =>
    intro first
    have he := h e List.mem_cons_self
    have hne : e ≠ "G:P" := by intro hx; rw [hx] at he; simp [isProbe] at he
    have ih' := ih (fun x hx => h x (List.mem_cons_of_mem _ hx))
    simp only [insertProbes]
    by_cases hm : isMark e = true
    · have hbeq : (e == "G:P") = false := by simp [hne]
      have hlen : ((e :: es).filter isMark).length = (es.filter isMark).length + 1 := by
        rw [List.filter_cons_of_pos hm, List.length_cons]
      rw [hlen]
      simp only [hm, if_true]
      cases first
      · simp only [Bool.false_eq_true, if_false, List.cons_append, List.nil_append, Bool.false_and,
          List.count_cons, hbeq, ih' false, beq_self_eq_true, if_true]
        omega
      · simp only [if_true, List.singleton_append, List.count_cons, hbeq, ih' false, Bool.false_eq_true,
          if_false, Bool.false_and, Bool.true_and]
        simp
    · have hbeq : (e == "G:P") = false := by simp [hne]
      have hlen : ((e :: es).filter isMark).length = (es.filter isMark).length := by
        rw [List.filter_cons_of_neg (by simpa using hm)]
      rw [hlen]
      simp only [hm, if_false, Bool.false_eq_true, List.count_cons, hbeq, ih' first]
      simp

theorem gateTrace_pending_count (events : List String) (fin : String) (h : ∀ e ∈ events, isProbe e = false) :
    (Run.gateTrace events fin).count "G:P" =
      ((events.filter isMark).length - 1) + (if fin.startsWith "STALL" then 1 else 0) := by
  rw [gateTrace_shape, List.count_append, insertProbes_count events h true]
  unfold tailProbes
  have hx : ((events.filter isMark).length - if (true && decide ((events.filter isMark).length > 0)) = true then 1 else 0) =
      (events.filter isMark).length - 1 := by
    by_cases h0 : (events.filter isMark).length > 0
    · simp [h0]
    · simp [h0]; omega
  rw [hx]
  split <;> simp

/-- an instance: two polls, a stall -/
example : Run.gateTrace ["|0", "R8192:75", "HS(1,1,-)", "|1", "R8192:W"] "STALL" =
    ["|0", "R8192:75", "HS(1,1,-)", "G:P", "|1", "R8192:W", "G:P", "G:R"] := by decide +kernel

/-! ## (b) The identity of the stored waker -/

open Fcgi.Runner Fcgi.C14b

/-- `Runner.WG` with the waker's identity: `stored` = the task whose waker is in the `AtomicWaker`,
`lastReg` = the task that registered most recently, `wokenId` = the task woken after the most recent
registration, `wakes` = all wake-ups ever delivered, in order. -/
structure WG2 where
  strong : Nat
  tokens : List DropPc
  pc : PollerPc := .idle
  stored : Option Nat := none
  wakeRan : Bool := false
  lastReg : Option Nat := none
  wokenId : Option Nat := none
  wakes : List Nat := []
  lastPoll : Option Bool := none

inductive WStep2
  | pollUpgrade
  | pollRegister (i : Nat)   -- `wg.waker.register(cx.waker())` by task `i`: REPLACES the stored waker
  | pollDropTemp
  | pollWake
  | tokenDec (i : Nat)
  | tokenWake (i : Nat)

/-- `waker.wake()`: takes the stored waker (if any) and wakes THAT task -/
def wakeNow2 (g : WG2) : WG2 :=
  { g with wakeRan := true, wokenId := if g.stored.isSome then g.stored else g.wokenId,
           wakes := g.wakes ++ g.stored.toList, stored := none }

def wgStep2 (g : WG2) : WStep2 → Option WG2
  | .pollUpgrade =>
    if g.pc != .idle then none
    else if g.strong == 0 then some { g with lastPoll := some true }
    else some { g with strong := g.strong + 1, pc := .upgraded }
  | .pollRegister i =>
    if g.pc != .upgraded then none
    else some { g with pc := .registered, stored := some i, lastReg := some i, wokenId := none }
  | .pollDropTemp =>
    if g.pc != .registered then none
    else if g.strong == 1 then some { g with strong := 0, pc := .dropped0, lastPoll := some false }
    else some { g with strong := g.strong - 1, pc := .idle, lastPoll := some false }
  | .pollWake =>
    if g.pc != .dropped0 then none else some { (wakeNow2 g) with pc := .idle }
  | .tokenDec i =>
    match g.tokens[i]? with
    | some .alive =>
      if g.strong == 1 then some { g with strong := 0, tokens := g.tokens.set i .zero }
      else some { g with strong := g.strong - 1, tokens := g.tokens.set i .gone }
    | _ => none
  | .tokenWake i =>
    match g.tokens[i]? with
    | some .zero => some { (wakeNow2 g) with tokens := g.tokens.set i .gone }
    | _ => none

def WG2.init (n : Nat) : WG2 := { strong := n, tokens := List.replicate n .alive }

inductive Reach2 (n : Nat) : WG2 → Prop
  | init : Reach2 n (WG2.init n)
  | step {g g' : WG2} {s : WStep2} : Reach2 n g → wgStep2 g s = some g' → Reach2 n g'

/-- forget who the waker belongs to -/
def proj (g : WG2) : WG :=
  { strong := g.strong, tokens := g.tokens, pc := g.pc, waker := g.stored.isSome, wakeRan := g.wakeRan,
    wokenSinceRegister := g.wokenId.isSome, lastPoll := g.lastPoll }

def forget : WStep2 → WStep
  | .pollUpgrade => .pollUpgrade
  | .pollRegister _ => .pollRegister
  | .pollDropTemp => .pollDropTemp
  | .pollWake => .pollWake
  | .tokenDec i => .tokenDec i
  | .tokenWake i => .tokenWake i

theorem proj_wakeNow (g : WG2) : proj (wakeNow2 g) = wakeNow (proj g) := by
  cases hs : g.stored <;> cases hw : g.wokenId <;> simp [proj, wakeNow2, wakeNow, hs, hw]

/-- **Projection**: every step of the two-waker model is the same step of `Runner.wgStep`. -/
theorem step_proj {g g' : WG2} {s : WStep2} (h : wgStep2 g s = some g') :
    wgStep (proj g) (forget s) = some (proj g') := by
  cases s with
  | pollUpgrade =>
    by_cases h1 : g.pc = .idle
    · by_cases h2 : g.strong = 0
      · simp [wgStep2, h1, h2] at h
        rw [← h]; simp [wgStep, forget, proj, h1, h2]
      · simp [wgStep2, h1, h2] at h
        rw [← h]; simp [wgStep, forget, proj, h1, h2]
    · simp [wgStep2, h1] at h
  | pollRegister i =>
    by_cases h1 : g.pc = .upgraded
    · simp [wgStep2, h1] at h
      rw [← h]; simp [wgStep, forget, proj, h1]
    · simp [wgStep2, h1] at h
  | pollDropTemp =>
    by_cases h1 : g.pc = .registered
    · by_cases h2 : g.strong = 1
      · simp [wgStep2, h1, h2] at h
        rw [← h]; simp [wgStep, forget, proj, h1, h2]
      · simp [wgStep2, h1, h2] at h
        rw [← h]; simp [wgStep, forget, proj, h1, h2]
    · simp [wgStep2, h1] at h
  | pollWake =>
    by_cases h1 : g.pc = .dropped0
    · simp [wgStep2, h1] at h
      rw [← h]
      cases hs : g.stored <;> cases hw : g.wokenId <;>
        simp [wgStep, forget, proj, h1, wakeNow, wakeNow2, hs, hw]
    · simp [wgStep2, h1] at h
  | tokenDec i =>
    cases ht : g.tokens[i]? with
    | none => simp [wgStep2, ht] at h
    | some t =>
      cases t with
      | alive =>
        by_cases h2 : g.strong = 1
        · simp [wgStep2, ht, h2] at h
          rw [← h]; simp [wgStep, forget, proj, ht, h2]
        · simp [wgStep2, ht, h2] at h
          rw [← h]; simp [wgStep, forget, proj, ht, h2]
      | zero => simp [wgStep2, ht] at h
      | gone => simp [wgStep2, ht] at h
  | tokenWake i =>
    cases ht : g.tokens[i]? with
    | none => simp [wgStep2, ht] at h
    | some t =>
      cases t with
      | zero =>
        simp [wgStep2, ht] at h
        rw [← h]
        cases hs : g.stored <;> cases hw : g.wokenId <;>
          simp [wgStep, forget, proj, ht, wakeNow, wakeNow2, hs, hw]
      | alive => simp [wgStep2, ht] at h
      | gone => simp [wgStep2, ht] at h

theorem reach_proj {n : Nat} {g : WG2} (h : Reach2 n g) : Reach n (proj g) := by
  induction h with
  | init => exact Reach.init
  | step _ hs ih => exact Reach.step ih (step_proj hs)

/-- the identity invariant -/
structure Id2 (g : WG2) : Prop where
  stored_last : ∀ i, g.stored = some i → g.lastReg = some i
  woken_last : ∀ i, g.wokenId = some i → g.lastReg = some i
  log_ran : g.wakeRan = false → g.wakes = []
  log_one : g.wakes.length ≤ 1
  log_last : ∀ i ∈ g.wakes, g.lastReg = some i ∧ g.wokenId = some i

theorem id2_wakeNow {g : WG2} (h : Id2 g) (hran : g.wakeRan = false) : Id2 (wakeNow2 g) := by
  have hw := h.log_ran hran
  cases hs : g.stored with
  | none =>
    refine ⟨fun i hi => (by simp [wakeNow2] at hi), fun i hi => ?_, fun hx => (by simp [wakeNow2] at hx), ?_, ?_⟩
    · simp only [wakeNow2, hs, Option.isSome_none, Bool.false_eq_true, if_false] at hi
      exact h.woken_last i hi
    · simp [wakeNow2, hs, hw]
    · intro i hi; simp [wakeNow2, hs, hw] at hi
  | some j =>
    refine ⟨fun i hi => (by simp [wakeNow2] at hi), fun i hi => ?_, fun hx => (by simp [wakeNow2] at hx), ?_, ?_⟩
    · simp only [wakeNow2, hs, Option.isSome_some, if_true, Option.some.injEq] at hi
      subst hi
      exact h.stored_last j hs
    · simp [wakeNow2, hs, hw]
    · intro i hi
      simp only [wakeNow2, hs, hw, Option.toList_some, List.nil_append, List.mem_singleton] at hi
      subst hi
      exact ⟨h.stored_last i hs, by simp [wakeNow2, hs]⟩

theorem reach_id2 {n : Nat} {g : WG2} (h : Reach2 n g) : Id2 g := by
  induction h with
  | init => exact ⟨fun i hi => (by cases hi), fun i hi => (by cases hi), fun _ => rfl, (by simp [WG2.init]),
      fun i hi => (by cases hi)⟩
  | @step g g' s hr hs ih =>
    have hinv := reach_inv (reach_proj hr)
    cases s with
    | pollUpgrade =>
      simp only [wgStep2] at hs
      split at hs
      · cases hs
      · split at hs <;> (cases hs; exact ⟨ih.stored_last, ih.woken_last, ih.log_ran, ih.log_one, ih.log_last⟩)
    | pollRegister i =>
      simp only [wgStep2] at hs
      split at hs
      · cases hs
      · rename_i hpc
        cases hs
        -- no wake-up has happened yet: a registration needs a live reference
        have hnr : g.wakeRan = false := by
          cases hr' : g.wakeRan with
          | false => rfl
          | true =>
            have h1 := (hinv.wakeRan_done (show (proj g).wakeRan = true from hr')).1
            have h2 := hinv.strong_eq
            have hpc' : g.pc = .upgraded := by simpa using hpc
            simp only [proj, hpc', tmp] at h1 h2
            simp at h2
            omega
        have hw := ih.log_ran hnr
        exact ⟨fun j hj => (by simpa using hj), fun j hj => (by cases hj), fun _ => hw, (by simp [hw]),
          fun j hj => (by rw [hw] at hj; cases hj)⟩
    | pollDropTemp =>
      simp only [wgStep2] at hs
      split at hs
      · cases hs
      · split at hs <;> (cases hs; exact ⟨ih.stored_last, ih.woken_last, ih.log_ran, ih.log_one, ih.log_last⟩)
    | pollWake =>
      simp only [wgStep2] at hs
      split at hs
      · cases hs
      · rename_i hpc
        cases hs
        have hpc' : g.pc = .dropped0 := by simpa using hpc
        have hnr : g.wakeRan = false :=
          (hinv.zero_strong (by
            have := hinv.zero_le
            simp only [proj, hpc', pz] at this ⊢
            simp at this ⊢
            omega)).2
        have := id2_wakeNow ih hnr
        exact ⟨this.stored_last, this.woken_last, this.log_ran, this.log_one, this.log_last⟩
    | tokenDec i =>
      simp only [wgStep2] at hs
      split at hs
      · split at hs <;> (cases hs; exact ⟨ih.stored_last, ih.woken_last, ih.log_ran, ih.log_one, ih.log_last⟩)
      · cases hs
    | tokenWake i =>
      simp only [wgStep2] at hs
      split at hs
      · rename_i hz
        cases hs
        have hz1 : 1 ≤ C14b.zeros (proj g) := by
          unfold C14b.zeros
          exact List.count_pos_iff.2 (List.mem_of_getElem? (show (proj g).tokens[i]? = some .zero from hz))
        have hnr : g.wakeRan = false :=
          (hinv.zero_strong (by have := hinv.zero_le; omega)).2
        have := id2_wakeNow ih hnr
        exact ⟨this.stored_last, this.woken_last, this.log_ran, this.log_one, this.log_last⟩
      · cases hs

/-- **The completion wake-up goes to whichever task polled last.**  In any reachable state (any
interleaving of the two pollers' steps and the token drops) in which all tokens are gone, the future
is outside `poll` and its most recent poll returned Pending: a task has been woken since that
registration, and it is the task that registered last. -/
theorem woken_is_last_registered {n : Nat} {g : WG2} (h : Reach2 n g) (hg : AllGone (proj g))
    (hpc : g.pc = .idle) (hp : g.lastPoll = some false) :
    ∃ i, g.wokenId = some i ∧ g.lastReg = some i := by
  have hw := woken_for_completion (reach_proj h) hg hpc hp
  have : g.wokenId.isSome = true := hw
  obtain ⟨i, hi⟩ := Option.isSome_iff_exists.1 this
  exact ⟨i, hi, (reach_id2 h).woken_last i hi⟩

/-- **Nobody else is ever woken**: at most one wake-up is delivered over the whole run, and it goes
to the task that registered last (a task that polled earlier and was replaced is NOT woken). -/
theorem at_most_one_wake {n : Nat} {g : WG2} (h : Reach2 n g) :
    g.wakes = [] ∨ ∃ i, g.wakes = [i] ∧ g.lastReg = some i ∧ g.wokenId = some i := by
  have hi := reach_id2 h
  match hw : g.wakes with
  | [] => exact Or.inl rfl
  | [i] => exact Or.inr ⟨i, rfl, hi.log_last i (by rw [hw]; simp)⟩
  | _ :: _ :: _ => have := hi.log_one; rw [hw] at this; simp at this

def runSteps2 (g : WG2) : List WStep2 → Option WG2
  | [] => some g
  | s :: ss => (wgStep2 g s).bind (fun g' => runSteps2 g' ss)

/-- `g.poll` (task 0), `g.poll2` (task 1), then the last token is dropped: task 1 is woken, task 0 is
not — the driver's `wakes=… wb=…` accounting (`gPollCore`, `wgReg`) -/
example : (runSteps2 (WG2.init 1)
    [.pollUpgrade, .pollRegister 0, .pollDropTemp, .pollUpgrade, .pollRegister 1, .pollDropTemp,
     .tokenDec 0, .tokenWake 0]).map (fun g => (g.wakes, g.wokenId, g.lastReg)) = some ([1], some 1, some 1) := by
  decide

/-- the same with the drop landing inside task 1's poll, between `upgrade` and `register` -/
example : (runSteps2 (WG2.init 1)
    [.pollUpgrade, .pollRegister 0, .pollDropTemp, .pollUpgrade, .tokenDec 0, .pollRegister 1, .pollDropTemp,
     .pollWake]).map (fun g => (g.wakes, g.wokenId, g.lastReg)) = some ([1], some 1, some 1) := by
  decide

end Fcgi.C13Conn
