import Fcgi.Proofs.E2EStuckPair
import Fcgi.Props.C07E2E
import Fcgi.Props.C04Hostile

/-!
# C06 — end to end: `parse_request` on a preamble that cannot be parsed

C06 at the ASYNC level (`Run.pollConn` / `Run.runTask`, the model of `async_io::parse_request` inside
`Runner::run`).  The transport is benign (`Ben t`: reads are split arbitrarily and answer `Pending`
whenever they like, writes are partial / `Pending` whenever they like, never an error).

* `stuck_preamble_e2e` — the wire contains a unit that does not fit the effective buffer (`SCtx`: up to
  `Wk` nothing is final, `Wk` leaves ≥ `cap` unparsed bytes, a read into the free space cannot jump
  over the end of `Wk`): `runTask` ends `RET`, phase `finished`, no handler start, scripts untouched;
  the write log grew by exactly `O`, the output of the records parsed before the parser got stuck.
  Engine: `Proofs/E2EStuck.lean` (`parse_loop_gen`, `stuck_parse`, `WSt`, `stuck_run_start`); on the
  way the request parser of the final `write_all` is in `Fatal(StuckOnInput)` (`SSt`, `WSt`), which
  is what `into_stream_parser` returns as the error.
* `stuck_pair_e2e` — the instance `[BeginRequest][Params: one pair][Params: ∅] extra` with
  `alignedBufsize b < |enc q|` under ANY record-independent chunking by the transport: `O = []`.
  (`Proofs/E2EStuckPair.lean`.)
* `fatal_preamble_e2e` — the loop over the wire ends in a fatal state `e` (unknown version, BeginRequest
  of length ≠ 8, null request id, …) and the wire up to there fits the buffer: `RET`, `finished`, no
  handler; the log grew by exactly the loop's output = the replies `C04H.reqRef` prescribes for the
  records before the fatal one.  Instances: `fatal_badlen_e2e`, `fatal_null_e2e`, `fatal_version_e2e`.
* `RGood` / `rgood_step` / `rgood_pending` / `read_has_space` — `C06.not_done_has_space` lifted to
  `parse_request`: in every state in which the model calls the transport's `read`, the buffer offered
  is non-empty; the invariant holds initially and is kept by every transition inside `parse_request`.
* `fits_never_stuck` / `fits_preamble_e2e` — the converse: when all pairs (and the noise) fit, no
  `parse` call on any prefix of the wire, in any chunking, ends in `StuckOnInput`, and the task
  reaches the handler (`C07E.single_request_e2e`, whose hypothesis `hpairs` this is).
-/
namespace Fcgi.C06E
open Fcgi Fcgi.Req Fcgi.Str Fcgi.Async Fcgi.Run Fcgi.Spec Fcgi.E2E Fcgi.C07E Fcgi.C06 Fcgi.VarInt

/-! ## 1. A unit that does not fit -/

/-- **C06 end to end, the parser gets stuck.** -/
theorem stuck_preamble_e2e {Wk W O : Bytes} (b mc : Nat) (scripts : List (List HOp × Bool)) (t : Transport)
    (fuel : Nat) (K : SCtx (alignedBufsize b) mc Wk W O)
    (hin : t.input = W) (hb : Ben t)
    (hfuel : t.rd.length + t.wr.length + 1 ≤ fuel) (hlen : 2 * t.input.length + 6 ≤ 100000) :
    ∃ c', runTask fuel (connS b mc t scripts) 0 none = (c', "RET") ∧ c'.phase = .finished ∧
      hsCount c'.env.tr.events = hsCount t.events ∧ c'.scripts = scripts ∧
      c'.env.tr.wlog = t.wlog ++ O := by
  obtain ⟨c', hrun, hfin, hsc⟩ := stuck_run_start K (c := connS b mc t scripts) (n := 0) (fuel := fuel)
    rfl rfl hin hb rfl hfuel hlen
  exact ⟨c', hrun, hfin.phase, hfin.hs, hsc, hfin.wlog⟩

/-- **One oversized name-value pair**: BeginRequest, a Params record holding a pair whose encoding is
longer than the effective buffer, the empty Params record, anything behind — delivered by the
transport in any splitting.  Nothing is written (the BeginRequest owes no reply). -/
theorem stuck_pair_e2e (b mc : Nat) (q : Bytes × Bytes) (extra : Bytes) (scripts : List (List HOp × Bool))
    (t : Transport) (fuel : Nat)
    (hq : q.1.length ≤ maxVal ∧ q.2.length ≤ maxVal)
    (h1 : alignedBufsize b < (NV.enc q).length) (h2 : (NV.enc q).length < 65536)
    (hin : t.input = serAll (pairRecs q) ++ extra) (hb : Ben t)
    (hfuel : t.rd.length + t.wr.length + 1 ≤ fuel) (hlen : 2 * t.input.length + 6 ≤ 100000) :
    ∃ c', runTask fuel (connS b mc t scripts) 0 none = (c', "RET") ∧ c'.phase = .finished ∧
      hsCount c'.env.tr.events = hsCount t.events ∧ c'.scripts = scripts ∧
      c'.env.tr.wlog = t.wlog := by
  obtain ⟨c', h⟩ := stuck_preamble_e2e b mc scripts t fuel
    (pair_sctx (alignedBufsize b) mc q hq (alignedBufsize_ge b) h1 h2 extra) hin hb hfuel hlen
  rw [List.append_nil] at h
  exact ⟨c', h⟩

/-- The call in which the buffer fills up reports `done` and leaves `Fatal(StuckOnInput)`;
`into_stream_parser` then fails with exactly that error. -/
theorem stuck_error_value {cap mc : Nat} (h24 : 24 ≤ cap) {F bs : Bytes}
    (hrem : (run .header F mc).rem.length ≤ cap) (hbs : bs ≠ [])
    (hfree : bs.length ≤ (track cap mc F).free) (hst : ¬ NonStuck cap mc (F ++ bs)) :
    ∃ rp y, (track cap mc F).parse bs = (rp, some y) ∧ y.done = true ∧ rp.free = 0 ∧
      rp.intoStreamParser = .error .stuckOnInput := by
  obtain ⟨o, rem', hpar, hl, _⟩ := stuck_parse h24 hrem hbs hfree hst
  exact ⟨_, _, hpar, rfl, by simp only [Req.Parser.free, hl, Nat.sub_self], rfl⟩

/-! ## 2. Fatal preamble errors -/

/-- everything up to the point where the loop is final fits the buffer with room to spare -/
theorem noStuckW_of_final_small {cap mc : Nat} {Wf Z : Bytes}
    (hf : (run .header Wf mc).st.isFinal = true) (hs : Wf.length < cap) :
    NoStuckW cap mc (Wf ++ Z) := by
  intro F hF
  rcases prefix_append_cases hF with ⟨z, rfl, _⟩ | ⟨t, _, hFt⟩
  · exact Or.inl (by rw [(run_final_ext hf z).1]; exact hf)
  · right
    have h1 := (run_ok F mc (st := .header) trivial).2.2.length_le
    have h2 := congrArg List.length hFt
    simp only [List.length_append] at h2
    omega

/-- **C06 / C04 end to end, a fatal preamble.**  `Wf` = the wire up to (and including) the fatal
record, `Z` = whatever follows. -/
theorem fatal_preamble_e2e {Wf Z : Bytes} {e : PErr} (b mc : Nat) (scripts : List (List HOp × Bool))
    (t : Transport) (fuel : Nat)
    (hfat : (run .header Wf mc).st = .fatal e) (hsmall : Wf.length < alignedBufsize b)
    (hin : t.input = Wf ++ Z) (hb : Ben t)
    (hfuel : t.rd.length + t.wr.length + 1 ≤ fuel) (hlen : 2 * t.input.length + 5 ≤ 100000) :
    ∃ c', runTask fuel (connS b mc t scripts) 0 none = (c', "RET") ∧ c'.phase = .finished ∧
      hsCount c'.env.tr.events = hsCount t.events ∧ c'.scripts = scripts ∧
      c'.env.tr.wlog = t.wlog ++ (run .header Wf mc).out ∧
      (run .header Wf mc).out = (C04H.reqRef mc Wf).out := by
  have hf : (run .header Wf mc).st.isFinal = true := by rw [hfat]; rfl
  have hext := run_final_ext hf Z
  have K : FCtx (alignedBufsize b) mc (Wf ++ Z) e :=
    ⟨alignedBufsize_ge b, noStuckW_of_final_small hf hsmall, by rw [hext.1, hfat]⟩
  obtain ⟨c', hrun, hfin, hsc⟩ := fatal_run_start K (c := connS b mc t scripts) (n := 0) (fuel := fuel)
    rfl rfl hin hb rfl hfuel hlen
  exact ⟨c', hrun, hfin.phase, hfin.hs, hsc, by rw [← hext.2]; exact hfin.wlog,
    (C04H.req_replies_hostile mc Wf).1⟩

/-- BeginRequest whose content length is not 8 (first record on the connection): nothing written. -/
theorem fatal_badlen_e2e (r : Rec) (Z : Bytes) (b mc : Nat) (scripts : List (List HOp × Bool))
    (t : Transport) (fuel : Nat)
    (hwf : r.WF) (ht : r.rtype.toNat = RT.beginRequest) (hl : r.content.length ≠ 8)
    (hsmall : r.ser.length < alignedBufsize b)
    (hin : t.input = r.ser ++ Z) (hb : Ben t)
    (hfuel : t.rd.length + t.wr.length + 1 ≤ fuel) (hlen : 2 * t.input.length + 5 ≤ 100000) :
    ∃ c', runTask fuel (connS b mc t scripts) 0 none = (c', "RET") ∧ c'.phase = .finished ∧
      hsCount c'.env.tr.events = hsCount t.events ∧ c'.scripts = scripts ∧ c'.env.tr.wlog = t.wlog := by
  have hr := run_idle_badlen r hwf ht hl [] mc
  rw [List.append_nil] at hr
  obtain ⟨c', h1, h2, h3, h4, h5, _⟩ := fatal_preamble_e2e (Wf := r.ser) (Z := Z)
    (e := .invalidRequestLen r.content.length) b mc scripts t fuel (by rw [hr]) hsmall hin hb hfuel hlen
  rw [hr, List.append_nil] at h5
  exact ⟨c', h1, h2, h3, h4, h5⟩

/-- BeginRequest with a known role and request id 0 (first record on the connection): nothing
written.  Header and body are 16 bytes: they fit every buffer. -/
theorem fatal_null_e2e (r : Rec) (Z : Bytes) (b mc : Nat) (scripts : List (List HOp × Bool))
    (t : Transport) (fuel : Nat)
    (hwf : r.WF) (ht : r.rtype.toNat = RT.beginRequest)
    {c0 c1 c2 c3 c4 c5 c6 c7 : UInt8} (hc : r.content = [c0, c1, c2, c3, c4, c5, c6, c7])
    (hrole : roleValid (be16 c0 c1) = true) (hid : r.id = 0) (hpad : r.pad.length < 8)
    (hin : t.input = r.ser ++ Z) (hb : Ben t)
    (hfuel : t.rd.length + t.wr.length + 1 ≤ fuel) (hlen : 2 * t.input.length + 5 ≤ 100000) :
    ∃ c', runTask fuel (connS b mc t scripts) 0 none = (c', "RET") ∧ c'.phase = .finished ∧
      hsCount c'.env.tr.events = hsCount t.events ∧ c'.scripts = scripts ∧ c'.env.tr.wlog = t.wlog := by
  have hr := run_idle_null r hwf ht hc hrole hid [] mc
  rw [List.append_nil] at hr
  have hsmall : r.ser.length < alignedBufsize b := by
    have := alignedBufsize_ge b
    rw [ser_length, hc]; simp only [List.length_cons, List.length_nil]; omega
  obtain ⟨c', h1, h2, h3, h4, h5, _⟩ := fatal_preamble_e2e (Wf := r.ser) (Z := Z)
    (e := .nullRequest) b mc scripts t fuel (by rw [hr]) hsmall hin hb hfuel hlen
  rw [hr, List.append_nil] at h5
  exact ⟨c', h1, h2, h3, h4, h5⟩

theorem phaseOf_fatal {st : State} {e : PErr} (h : phaseOf st = .fatal e) : st = .fatal e := by
  cases st with
  | fatal e' => simp only [phaseOf] at h; cases h; rfl
  | skip c _ _ => cases c <;> simp [phaseOf, ctxPhase] at h
  | values c _ _ _ => cases c <;> simp [phaseOf, ctxPhase] at h
  | _ => simp [phaseOf] at h

/-- **Unknown version, after five owed replies** (`C04H.qWire`: unknown type, GetValues, BeginRequest
with unknown role, a second BeginRequest while request 1 is open, unknown type with the open id, then
a header with version byte 3): the log is exactly the five replies in record order. -/
theorem fatal_version_e2e (scripts : List (List HOp × Bool)) (t : Transport) (fuel : Nat)
    (hin : t.input = C04H.qWire) (hb : Ben t)
    (hfuel : t.rd.length + t.wr.length + 1 ≤ fuel) :
    ∃ c', runTask fuel (connS 256 10 t scripts) 0 none = (c', "RET") ∧ c'.phase = .finished ∧
      hsCount c'.env.tr.events = hsCount t.events ∧ c'.scripts = scripts ∧
      c'.env.tr.wlog = t.wlog ++ (reqRun 10 .idle C04H.qRecs).out := by
  obtain ⟨h1, h2, _, _⟩ := C04H.req_replies_hostile 10 C04H.qWire
  have href : C04H.reqRef 10 C04H.qWire =
      ⟨(reqRun 10 .idle C04H.qRecs).out, .fatal (.unknownVersion 3), C04H.qTail⟩ := by decide +kernel
  rw [href] at h1 h2
  have hlenW : C04H.qWire.length = 132 := by decide +kernel
  obtain ⟨c', g1, g2, g3, g4, g5, _⟩ := fatal_preamble_e2e (Wf := C04H.qWire) (Z := [])
    (e := .unknownVersion 3) 256 10 scripts t fuel (phaseOf_fatal h2)
    (by rw [hlenW]; decide) (by rw [hin, List.append_nil]) hb hfuel (by rw [hin, hlenW]; decide)
  rw [h1] at g5
  exact ⟨c', g1, g2, g3, g4, g5⟩

/-! ## 3. The converse: when every pair fits, `parse_request` never reports `StuckOnInput` -/

/-- **No call gets stuck.**  A well-formed preamble whose pairs (and noise) fit the effective buffer,
anything behind it; `F` = what `parse_request` has handed to the parser so far, `bs` = the next chunk
the transport returns (any chunking): the call ends exactly where one run of the loop over `F ++ bs`
ends, and that is not `Fatal(StuckOnInput)` (not fatal at all). -/
theorem fits_never_stuck {p : Preamble} {recs : List Rec} (X : Bytes) (b mc : Nat)
    (hwf : WellFormedPreamble p recs)
    (hpairs : ∀ q ∈ p.pairs, (NV.enc q).length ≤ alignedBufsize b) (hnoise : NoiseFits (alignedBufsize b) recs)
    {F bs : Bytes} (hpre : F ++ bs <+: serAll recs ++ X) (hbs : bs ≠ [])
    (hrem : (run .header F mc).rem.length ≤ alignedBufsize b)
    (hfree : bs.length ≤ (track (alignedBufsize b) mc F).free) :
    ∃ o, (track (alignedBufsize b) mc F).parse bs =
        (track (alignedBufsize b) mc (F ++ bs), some { done := (run .header (F ++ bs) mc).st.isFinal, output := o }) ∧
      (∀ e, (track (alignedBufsize b) mc (F ++ bs)).state ≠ .fatal e) ∧
      NonStuck (alignedBufsize b) mc (F ++ bs) := by
  have hns := noStuck_of hwf X b mc hpairs hnoise (F ++ bs) hpre
  obtain ⟨o, hpar, _⟩ := parse_track (alignedBufsize_ge b) hrem hbs hfree hns
  refine ⟨o, hpar, ?_, hns⟩
  intro e he
  simp only [track] at he
  rcases run_wire_state hwf X hpre mc with ⟨e1, _, _, hr⟩ | ⟨t, _, _, hnf⟩
  · rw [hr] at he; cases he
  · rw [he] at hnf; cases hnf

/-- **The two directions side by side.**  `stuck_pair_e2e`: a pair with `alignedBufsize b < |enc q|` ⇒
`RET`, no handler, nothing written.  Here: all pairs with `|enc q| ≤ alignedBufsize b` (hypothesis
`hpairs` of `C07E.single_request_e2e`) ⇒ `parse_request` succeeds under every benign transport: exactly
one handler start, for the request sent, and the complete reply log. -/
theorem fits_preamble_e2e {p : Preamble} {recs : List Rec} {content : Bytes} {srecs : List Rec}
    {b mc : Nat} {data : Bytes} {st : ExitStatus} {t : Transport} {fuel : Nat}
    (hwf : WellFormedPreamble p recs) (hrole : p.role = 1)
    (hpairs : ∀ q ∈ p.pairs, (NV.enc q).length ≤ alignedBufsize b)
    (hnoise : NoiseFits (alignedBufsize b) recs)
    (hs : StreamRecs p.id 5 content srecs) (hsn : NoiseFits (alignedBufsize b) srecs)
    (hin : t.input = serAll recs ++ serAll srecs) (hben : Ben t) (hev : hsCount t.events = 0)
    (hfuel : t.rd.length + t.wr.length + 1 ≤ fuel)
    (hsize : 4 * t.input.length + 17 ≤ 100000)
    (hhf : alignedBufsize b / 32 + wcost data.length + 12 ≤ 1000) :
    ∃ c' fin O₁ O₂, runTask fuel (conn0 b mc t data st) 0 none = (c', fin) ∧
      hsCount c'.env.tr.events = 1 ∧ startEvent p.request ∈ c'.env.tr.events ∧
      c'.env.tr.wlog = t.wlog ++ (owedPreamble p mc recs ++ O₁ ++ streamRecords 6 p.id data ++ O₂ ++
        epilogue p.id st) := by
  obtain ⟨c', fin, O1, O2, h1, _, h3, _, h5, h6, _⟩ :=
    single_request_e2e_full_holds p recs content srecs b mc data st t fuel hwf hrole hpairs hnoise hs hsn hin
      hben hev hfuel hsize hhf
  exact ⟨c', fin, O1, O2, h1, h5, h6, h3⟩

/-- The boundary on the concrete pairs of `Props/C06Suff.lean`, minimal buffer (24 bytes): the pair with
a 25-byte encoding ends `parse_request` with `RET` and an empty log under every benign transport … -/
theorem wPair_e2e (extra : Bytes) (scripts : List (List HOp × Bool)) (t : Transport) (fuel : Nat)
    (hin : t.input = serAll (pairRecs wPair) ++ extra) (hb : Ben t)
    (hfuel : t.rd.length + t.wr.length + 1 ≤ fuel) (hlen : 2 * t.input.length + 6 ≤ 100000) :
    ∃ c', runTask fuel (connS 0 1 t scripts) 0 none = (c', "RET") ∧ c'.phase = .finished ∧
      hsCount c'.env.tr.events = hsCount t.events ∧ c'.scripts = scripts ∧ c'.env.tr.wlog = t.wlog :=
  stuck_pair_e2e 0 1 wPair extra scripts t fuel (by decide) (by decide) (by decide) hin hb hfuel hlen

/-- … and no call on the one with a 24-byte encoding gets stuck. -/
theorem fPair_never_stuck (X : Bytes) {F bs : Bytes} (hpre : F ++ bs <+: serAll (pairRecs fPair) ++ X)
    (hbs : bs ≠ []) (hrem : (run .header F 1).rem.length ≤ alignedBufsize 0)
    (hfree : bs.length ≤ (track (alignedBufsize 0) 1 F).free) :
    NonStuck (alignedBufsize 0) 1 (F ++ bs) := by
  have hwf := pairRecs_wf fPair (by decide) (by decide)
  obtain ⟨_, _, _, h⟩ := fits_never_stuck X 0 1 hwf (fun q hq => by
      simp only [pairPre, List.mem_singleton] at hq; subst hq; decide)
    (fun r hr hg => by
      simp only [pairRecs, List.mem_cons, List.not_mem_nil, or_false] at hr
      rcases hr with rfl | rfl | rfl <;> exact absurd hg.1 (by decide)) hpre hbs hrem hfree
  exact h

/-! ## 4. `parse_request` never offers the transport an empty buffer -/

/-- the request parser held by `parse_request` satisfies its invariant; whenever the next thing the model
does is a `read` (now, or after the `write_all` in progress), the buffer has free space -/
def RGood (c : Conn) : Prop :=
  Ben c.env.tr ∧
    match c.phase with
    | .parseReq rp .start => PInv rp
    | .parseReq rp .reading => PInv rp ∧ 0 < rp.free
    | .parseReq rp (.writing _ d) => PInv rp ∧ (d = false → 0 < rp.free)
    | _ => True

theorem rgood_connS (b mc : Nat) (t : Transport) (scripts : List (List HOp × Bool)) (hb : Ben t) :
    RGood (connS b mc t scripts) := ⟨hb, Req.new_inv b mc⟩

/-- **The buffer offered to `read` is never empty**: in a good state in phase `reading` the model's
next action is `c.env.tr.read rp.free` (`E2E.step_reading`) with `0 < rp.free`. -/
theorem read_has_space {c : Conn} {rp : Req.Parser} (h : RGood c) (hp : c.phase = .parseReq rp .reading) :
    0 < rp.free := by
  obtain ⟨_, h⟩ := h
  rw [hp] at h
  exact h.2

theorem parse_good {rp rp' : Req.Parser} {bs : Bytes} {y : Yield} (hp : PInv rp) (hn : bs.length ≤ rp.free)
    (h : rp.parse bs = (rp', some y)) : PInv rp' ∧ (y.done = false → 0 < rp'.free) := by
  obtain ⟨y', _, hinv⟩ := C03.parse_total hp hn
  rw [h] at hinv
  exact ⟨hinv, fun hd => C06.not_done_has_space hp hn h hd⟩

/-- every transition inside `parse_request` that continues the poll keeps the invariant -/
theorem rgood_step {c c' : Conn} {rp : Req.Parser} {sub : PRSub} (h : RGood c)
    (hp : c.phase = .parseReq rp sub) (hs : stepConn c = .next c') : RGood c' := by
  obtain ⟨hb, h⟩ := h
  rw [hp] at h
  cases hstop : c.stop with
  | true =>
    obtain ⟨phase, env, scripts, stop⟩ := c
    simp only at hp hstop; subst hp; subst hstop
    simp [stepConn] at hs
  | false =>
  cases sub with
  | start =>
    rw [step_start c rp hp hstop] at hs
    rcases hpar : rp.parse [] with ⟨rp', _ | y⟩
    · rw [hpar] at hs; cases hs
    · rw [hpar] at hs
      cases hs
      exact ⟨hb, parse_good h (Nat.zero_le _) hpar⟩
  | reading =>
    rw [step_reading c rp hp hstop] at hs
    rcases hrd : c.env.tr.read rp.free with ⟨t, res⟩
    rw [hrd] at hs
    have hts := read_tstep hrd
    rcases res with (_ | bs) | _
    · simp only at hs; cases hs
    rotate_left
    · simp only at hs; cases hs
    · have hlen := (read_ok_ben hb hrd).2.2.1
      cases bs with
      | nil => cases hs
      | cons x xs =>
        simp only at hs
        rcases hpar : rp.parse (x :: xs) with ⟨rp', _ | y⟩
        · rw [hpar] at hs; cases hs
        · rw [hpar] at hs
          cases hs
          exact ⟨hb.step hts, parse_good h.1 hlen hpar⟩
  | writing rest d =>
    rcases hwa : writeAllLoop (rest.length + 1) rest c.env.tr with ⟨rest', t', res⟩
    obtain ⟨hts, _, _, hres⟩ := writeAllLoop_ben _ _ _ hb (Nat.lt_succ_self _) hwa
    rcases hres with ⟨rfl, rfl⟩ | ⟨rfl, _, _, _⟩
    · cases d with
      | false =>
        rw [step_writing_more c rp rest [] t' hp hstop hwa] at hs
        cases hs
        exact ⟨hb.step hts, h.1, h.2 rfl⟩
      | true =>
        obtain ⟨phase, env, scripts, stop⟩ := c
        simp only at hp hstop hwa; subst hp; subst hstop
        simp only [stepConn, hwa, Bool.false_eq_true, if_false, Bool.not_true] at hs
        split at hs
        · cases hs
        · cases hs
          have hb' := hb.step hts
          exact ⟨⟨hb'.rd, hb'.wr, hb'.hold, hb'.em⟩, trivial⟩
    · rw [step_writing_pending c rp rest d rest' t' hp hstop hwa] at hs
      cases hs

/-- … and so does a poll that ends `Pending` inside `parse_request` -/
theorem rgood_pending {c c' : Conn} {rp : Req.Parser} {sub : PRSub} (h : RGood c)
    (hp : c.phase = .parseReq rp sub) (hs : stepConn c = .halt c' .pending) : RGood c' := by
  obtain ⟨hb, h⟩ := h
  rw [hp] at h
  cases hstop : c.stop with
  | true =>
    obtain ⟨phase, env, scripts, stop⟩ := c
    simp only at hp hstop; subst hp; subst hstop
    simp [stepConn] at hs
  | false =>
  cases sub with
  | start =>
    rw [step_start c rp hp hstop] at hs
    rcases hpar : rp.parse [] with ⟨rp', _ | y⟩ <;> rw [hpar] at hs <;> cases hs
  | reading =>
    rw [step_reading c rp hp hstop] at hs
    rcases hrd : c.env.tr.read rp.free with ⟨t, res⟩
    rw [hrd] at hs
    have hts := read_tstep hrd
    rcases res with (_ | bs) | _
    rotate_right
    · simp only at hs; cases hs
      exact ⟨hb.step hts, by
        show match c.phase with
          | .parseReq rp .start => PInv rp
          | .parseReq rp .reading => PInv rp ∧ 0 < rp.free
          | .parseReq rp (.writing _ d) => PInv rp ∧ (d = false → 0 < rp.free)
          | _ => True
        rw [hp]; exact h⟩
    · simp only at hs; cases hs
    · cases bs with
      | nil => cases hs
      | cons x xs =>
        simp only at hs
        rcases hpar : rp.parse (x :: xs) with ⟨rp', _ | y⟩ <;> rw [hpar] at hs <;> cases hs
  | writing rest d =>
    rcases hwa : writeAllLoop (rest.length + 1) rest c.env.tr with ⟨rest', t', res⟩
    obtain ⟨hts, _, _, hres⟩ := writeAllLoop_ben _ _ _ hb (Nat.lt_succ_self _) hwa
    rcases hres with ⟨rfl, rfl⟩ | ⟨rfl, _, _, _⟩
    · obtain ⟨phase, env, scripts, stop⟩ := c
      simp only at hp hstop hwa; subst hp; subst hstop
      simp only [stepConn, hwa, Bool.false_eq_true, if_false] at hs
      repeat' split at hs
      all_goals cases hs
    · rw [step_writing_pending c rp rest d rest' t' hp hstop hwa] at hs
      cases hs
      exact ⟨hb.step hts, h⟩

/-- between polls (`prePoll`, no new input segment, no stop request) nothing changes -/
theorem rgood_prePoll {c : Conn} (n : Nat) (h : RGood c) (hsegs : c.env.segs = []) :
    RGood (prePoll c n none) := by
  obtain ⟨hsame, hph, _⟩ := prePoll_same c n hsegs
  exact ⟨hsame.ben h.1, by rw [hph]; exact h.2⟩

/-! ## 5. Non-vacuity: the hypotheses are met by concrete transports (the replayed corpus cases) -/

namespace Example

/-- `corpus/C06_e2e.txt`, line 2: the 25-byte pair, reads split `1,P,5,3,P,7,2`, then whatever is there -/
def tS : Transport :=
  { input := serAll (pairRecs wPair), endMode := .pend,
    rd := [.n 1, .pending, .n 5, .n 3, .pending, .n 7, .n 2], wr := [], fl := [] }

theorem tS_ben : Ben tS := ⟨by decide, by decide, rfl, by decide⟩

example : ∃ c', runTask 8 (connS 0 1 tS [([.ret (.complete 0)], true)]) 0 none = (c', "RET") ∧
    c'.phase = .finished ∧ hsCount c'.env.tr.events = 0 ∧ c'.env.tr.wlog = [] := by
  obtain ⟨c', h1, h2, h3, _, h5⟩ := wPair_e2e [] [([.ret (.complete 0)], true)] tS 8
    (by rw [List.append_nil]; rfl) tS_ben (by decide) (by
      have : tS.input.length = 57 := by decide +kernel
      rw [this]; decide)
  exact ⟨c', h1, h2, h3, h5⟩

/-- `corpus/C06_e2e.txt`, line 6: `C04H.qWire`, reads `3,P,9,1,P,40`, writes `5,P,2,P,30` -/
def tV : Transport :=
  { input := C04H.qWire, endMode := .pend,
    rd := [.n 3, .pending, .n 9, .n 1, .pending, .n 40], wr := [.n 5, .pending, .n 2, .pending, .n 30], fl := [] }

theorem tV_ben : Ben tV := ⟨by decide, by decide, rfl, by decide⟩

example : ∃ c', runTask 12 (connS 256 10 tV []) 0 none = (c', "RET") ∧ c'.phase = .finished ∧
    hsCount c'.env.tr.events = 0 ∧ c'.env.tr.wlog = (reqRun 10 .idle C04H.qRecs).out := by
  obtain ⟨c', h1, h2, h3, _, h5⟩ := fatal_version_e2e [] tV 12 rfl tV_ben (by decide)
  exact ⟨c', h1, h2, h3, h5⟩

end Example

end Fcgi.C06E
