import Fcgi.Props.C07E2E
import Fcgi.Props.C07Unread2
import Fcgi.Props.C07BufRead2
/-!
# C07 — the end-to-end theorems without the size side conditions

Every end-to-end theorem of `Props/C07E2E`, `C07Unread`, `C07Unread2` carried two side conditions on the
MODEL's fuel:

* `hsize : 4·|input| + 17 ≤ 100000` (resp. `6·|input| + 26 ≤ 100000`), which capped the wire at about
  25 000 (16 600) bytes — a single maximal record (65 535 content bytes) was outside all of them.  It was only
  ever used to discharge `N ≤ 100000` for `Halts.pollT`, i.e. that the poll's step count fits the CONSTANT
  part of the connection fuel.  But `connFuel c = 100000 + 7·|input| + 5·buffered` dominates `6·|input| + 26`
  for every `c` (`E2E.connFuel_bound`, `E2E.Halts.pollB`), so the executors `run_from_stage'`, `chain_run'`,
  `run_gen'`, `run_unread'`, `run_prefix'`, `run_stages'`, `run_stages3'` need no size hypothesis, and neither
  do the statements below: `hsize` is GONE.
* `hhf : alignedBufsize b / 32 + wcost |data| + 12 ≤ 1000` (Filter: `/ 16 … + 24`), which capped the buffer
  size at `b ≲ 31 000`.  The `b` part paid for the `readAll` loop's iterations over the buffered bytes; the
  handler fuel `handlerFuel e r = 1000 + 4·|input| + 4·Σ|segs| + 4·cap` has `4·cap` for exactly that
  (`E2E.Cfg.Rd.fuel`: a handler suspended in a `readAll` of the request works on a parser with
  `cap = alignedBufsize b`).  `E2E.Cfg.Shape.responderU / filterU` therefore ask only for
  `wcost |data| + 12 ≤ 1000` (`+ 24`): `b` is GONE; what remains is a bound on the handler's OWN output in one
  `writeAll` (`wcost n = ⌈n / 65535⌉ + 1`, so `|data| ≤ 60 000 000` suffices, `wcost_of_len`) — the handler
  fuel does not grow with the script (`C12.handlerPoll_terminates_full_false` and the literal fuel term in
  `C08Inv` / `C12Inv` / `C12Wf` depend on that; changing the model fuel was judged too invasive), so this one stays.

`single_request_bufread_e2e_unbounded`, `bufread_then_readall_e2e_unbounded`, `bufread_part_e2e_unbounded` are the
`AsyncBufRead` theorems of `Props/C07BufRead*` without `hsize` (their `hhf` never mentioned `b`; it bounds the
script: `n` scripted `fill_buf`/`consume` rounds).

The old theorems are instances (`Shape.responder` / `Shape.filter` are now lemmas with the old signature).
-/

namespace Fcgi.C07E
open Fcgi Fcgi.Req Fcgi.Str Fcgi.Async Fcgi.Run Fcgi.Spec Fcgi.E2E

/-- `run_cfg` without the size hypothesis. -/
theorem run_cfg' {g : E2E.Cfg} (ok : g.OK) {t : Transport} {fuel : Nat} (hW : t.input = g.W) (hL : g.L0 = t.wlog)
    (hh : g.hs0 = 0) (hben : Ben t) (hev : hsCount t.events = 0) (hfuel : t.rd.length + t.wr.length + 1 ≤ fuel) :
    ∃ c' fin O₁ O₂, runTask fuel (connS g.b g.mc t ((g.hscript, true) :: g.more)) 0 none = (c', fin) ∧
      O₁ ++ O₂ = g.Ot ∧ c'.scripts = g.more ∧ (∀ s ∈ g.revs, s ∈ c'.env.tr.events) ∧
      OutcomeG g.p [] g.b g.mc t.wlog (expectedLogN g.p g.recs g.mc g.data g.st O₁ O₂) t c' fin := by
  have hstage : Stage g (connS g.b g.mc t ((g.hscript, true) :: g.more)) :=
    .start (raw := []) rfl (by show [] ++ t.input = g.W; rw [hW]; rfl) (Nat.zero_le _) hL.symm hben rfl rfl rfl
      (hev.trans hh.symm)
  obtain ⟨c', ⟨hem, _, _, _⟩, O1, O2, hO, hres⟩ :=
    run_from_stage' ok (ans t) (connS g.b g.mc t ((g.hscript, true) :: g.more)) 0 fuel hstage rfl
      (Nat.le_refl _) (by unfold ans; omega)
  have hlog : g.L3 O1 O2 = t.wlog ++ expectedLogN g.p g.recs g.mc g.data g.st O1 O2 := by rw [L3_eq, hL]
  have hem' : c'.env.tr.endMode = t.endMode := hem
  rcases hres with ⟨hrun, hfin⟩ | ⟨hrun, hpk⟩
  · have hev1 : hsCount c'.env.tr.events = 1 ∧ startEvent g.p.request ∈ c'.env.tr.events := by
      have := hfin.ev; rw [Ev1, hh] at this; exact this
    refine ⟨c', "RET", O1, O2, hrun, hO, hfin.sc, hfin.re,
      ⟨hev1, fun d hd => (by cases hd), hfin.log.trans hlog, ?_⟩⟩
    rcases hfin.why with hk | ⟨hk, he⟩
    · exact Or.inl ⟨hk, rfl, hfin.ph⟩
    · exact Or.inr (Or.inl ⟨hk, hem'.symm.trans he, rfl, hfin.ph⟩)
  · have hev1 : hsCount c'.env.tr.events = 1 ∧ startEvent g.p.request ∈ c'.env.tr.events := by
      have := hpk.ev; rw [Ev1, hh] at this; exact this
    exact ⟨c', "STALL", O1, O2, hrun, hO, hpk.sc, hpk.re,
      ⟨hev1, fun d hd => (by cases hd), hpk.log.trans hlog,
      Or.inr (Or.inr ⟨hpk.keep, hem'.symm.trans hpk.em, rfl, hpk.ph, hpk.inp⟩)⟩⟩

/-- **`single_request_e2e` for inputs of any size**: the statement of `single_request_e2e` without `hsize`. -/
theorem single_request_e2e_unbounded {p : Preamble} {recs : List Rec} {content : Bytes} {srecs : List Rec}
    {b mc : Nat} {data : Bytes} {st : ExitStatus} {t : Transport} {fuel : Nat}
    (hwf : WellFormedPreamble p recs) (hrole : p.role = 1)
    (hpairs : ∀ q ∈ p.pairs, (NV.enc q).length ≤ alignedBufsize b)
    (hnoise : NoiseFits (alignedBufsize b) recs)
    (hs : StreamRecs p.id 5 content srecs) (hsn : NoiseFits (alignedBufsize b) srecs)
    (hin : t.input = serAll recs ++ serAll srecs) (hben : Ben t) (hev : hsCount t.events = 0)
    (hfuel : t.rd.length + t.wr.length + 1 ≤ fuel)
    (hhf : wcost data.length + 12 ≤ 1000) :
    ∃ c' fin O₁ O₂, runTask fuel (conn0 b mc t data st) 0 none = (c', fin) ∧
      O₁ ++ O₂ = owedStream p.id 5 mc srecs ∧
      OutcomeN p content b mc t.wlog (expectedLogN p recs mc data st O₁ O₂) t c' fin := by
  obtain ⟨body, pad, res, hpad, hbody, hsrecs⟩ := StreamRecs.split hs
  have hsb : NoiseFits (alignedBufsize b) body := fun r hr => hsn r (by rw [hsrecs]; simp [hr])
  have ok : (cfgR p recs content body pad res b mc data st t.wlog 0 []).OK :=
    ⟨hwf, hpairs, hnoise, .responderU hrole hbody hsb hpad rfl rfl rfl rfl rfl rfl hhf⟩
  have hW : t.input = (cfgR p recs content body pad res b mc data st t.wlog 0 []).W := by
    rw [hin, hsrecs, C02.serAll_append, C02.serAll_single]
    rfl
  have hOt : owedStream p.id 5 mc srecs = owedStream p.id 5 mc body := by
    rw [hsrecs, owedStream_append, owedStream_term p.id 5 mc _ rfl, List.append_nil]
  obtain ⟨c', fin, O1, O2, hrun, hO, _, hre, ho⟩ := run_cfg' ok hW rfl rfl hben hev hfuel
  exact ⟨c', fin, O1, O2, hrun, hO.trans hOt.symm,
    (ho.with_reads [content] (fun d hd => by rw [List.mem_singleton.1 hd]; exact hre _ (by simp [cfgR]))).responder⟩

/-- `single_request_e2e_authorizer` without `hsize`. -/
theorem single_request_e2e_authorizer_unbounded {p : Preamble} {recs : List Rec}
    {b mc : Nat} {data : Bytes} {st : ExitStatus} {t : Transport} {fuel : Nat}
    (hwf : WellFormedPreamble p recs) (hrole : p.role = 2)
    (hpairs : ∀ q ∈ p.pairs, (NV.enc q).length ≤ alignedBufsize b)
    (hnoise : NoiseFits (alignedBufsize b) recs)
    (hin : t.input = serAll recs) (hben : Ben t) (hev : hsCount t.events = 0)
    (hfuel : t.rd.length + t.wr.length + 1 ≤ fuel)
    (hhf : wcost data.length + 4 ≤ 1000) :
    ∃ c' fin, runTask fuel (connS b mc t [(canonicalA data st, true)]) 0 none = (c', fin) ∧
      OutcomeG p [] b mc t.wlog (expectedLog p recs mc data st) t c' fin := by
  have ok : (cfgA p recs b mc data st t.wlog 0 []).OK :=
    ⟨hwf, hpairs, hnoise, .authorizer hrole rfl rfl rfl rfl rfl hhf⟩
  have hW : t.input = (cfgA p recs b mc data st t.wlog 0 []).W := by
    rw [hin]; exact (List.append_nil _).symm
  obtain ⟨c', fin, O1, O2, hrun, hO, _, hre, ho⟩ := run_cfg' ok hW rfl rfl hben hev hfuel
  obtain ⟨h1, h2⟩ := List.append_eq_nil_iff.1 (show O1 ++ O2 = [] from hO)
  subst h1 h2
  exact ⟨c', fin, hrun, by rw [← expectedLogN_nil]; exact ho⟩

/-- `single_request_e2e_filter` without `hsize`. -/
theorem single_request_e2e_filter_unbounded {p : Preamble} {recs : List Rec} {content : Bytes} {srecs : List Rec}
    {content2 : Bytes} {drecs : List Rec}
    {b mc : Nat} {data : Bytes} {st : ExitStatus} {t : Transport} {fuel : Nat}
    (hwf : WellFormedPreamble p recs) (hrole : p.role = 3)
    (hpairs : ∀ q ∈ p.pairs, (NV.enc q).length ≤ alignedBufsize b)
    (hnoise : NoiseFits (alignedBufsize b) recs)
    (hs : StreamRecs p.id 5 content srecs) (hsn : NoiseFits (alignedBufsize b) srecs)
    (hd : StreamRecs p.id 8 content2 drecs) (hdn : NoiseFits (alignedBufsize b) drecs)
    (hin : t.input = serAll recs ++ (serAll srecs ++ serAll drecs)) (hben : Ben t) (hev : hsCount t.events = 0)
    (hfuel : t.rd.length + t.wr.length + 1 ≤ fuel)
    (hhf : wcost data.length + 24 ≤ 1000) :
    ∃ c' fin O₁ O₂, runTask fuel (connS b mc t [(canonicalF data st, true)]) 0 none = (c', fin) ∧
      O₁ ++ O₂ = owedStream p.id 5 mc srecs ++ owedStream p.id 8 mc drecs ∧
      OutcomeG p [content, content2] b mc t.wlog (expectedLogN p recs mc data st O₁ O₂) t c' fin := by
  obtain ⟨body, pad, res, hpad, hbody, hsrecs⟩ := StreamRecs.split hs
  obtain ⟨body2, pad2, res2, hpad2, hbody2, hdrecs⟩ := StreamRecs.split hd
  have hsb : NoiseFits (alignedBufsize b) body := fun r hr => hsn r (by rw [hsrecs]; simp [hr])
  have hdb : NoiseFits (alignedBufsize b) body2 := fun r hr => hdn r (by rw [hdrecs]; simp [hr])
  have ok : (cfgF p recs content body pad res content2 body2 pad2 res2 b mc data st t.wlog 0 []).OK :=
    ⟨hwf, hpairs, hnoise, .filterU hrole hbody hbody2 hsb hdb hpad hpad2 rfl rfl rfl rfl rfl rfl hhf⟩
  have hW : t.input = (cfgF p recs content body pad res content2 body2 pad2 res2 b mc data st t.wlog 0 []).W := by
    rw [hin, hsrecs, hdrecs, C02.serAll_append, C02.serAll_single, C02.serAll_append, C02.serAll_single,
      List.append_assoc]
    rfl
  have hOt : owedStream p.id 5 mc srecs ++ owedStream p.id 8 mc drecs =
      owedStream p.id 5 mc body ++ owedStream p.id 8 mc body2 := by
    rw [hsrecs, hdrecs, owedStream_append, owedStream_append, owedStream_term p.id 5 mc _ rfl,
      owedStream_term p.id 8 mc _ rfl, List.append_nil, List.append_nil]
  obtain ⟨c', fin, O1, O2, hrun, hO, _, hre, ho⟩ := run_cfg' ok hW rfl rfl hben hev hfuel
  refine ⟨c', fin, O1, O2, hrun, hO.trans hOt.symm, ho.with_reads _ (fun d hd => ?_)⟩
  rcases List.mem_cons.1 hd with rfl | hd
  · exact hre _ (by simp [cfgF])
  · rw [List.mem_singleton.1 hd]; exact hre _ (by simp [cfgF])

/-- `Sent.OK` without the size conjunct `4·|wire| + 17 ≤ 100000`. -/
def Sent.OKu (b : Nat) (q : Sent) : Prop :=
  WellFormedPreamble q.p q.recs ∧ (∀ x ∈ q.p.pairs, (NV.enc x).length ≤ alignedBufsize b) ∧
  NoiseFits (alignedBufsize b) q.recs ∧ NoiseFits (alignedBufsize b) q.srecs ∧
  NoiseFits (alignedBufsize b) q.drecs ∧
  match q with
  | .responder p _ content body pad res data _ =>
    p.role = 1 ∧ StreamRecs p.id 5 content (body ++ [trec 5 p.id pad res]) ∧
      wcost data.length + 12 ≤ 1000
  | .authorizer p _ data _ => p.role = 2 ∧ wcost data.length + 4 ≤ 1000
  | .filter p _ content body pad res content2 body2 pad2 res2 data _ =>
    p.role = 3 ∧ StreamRecs p.id 5 content (body ++ [trec 5 p.id pad res]) ∧
      StreamRecs p.id 8 content2 (body2 ++ [trec 8 p.id pad2 res2]) ∧
      wcost data.length + 24 ≤ 1000

theorem cfg_ok_u {b mc : Nat} {q : Sent} (ok : q.OKu b) (L0 : Bytes) (h : Nat)
    (more : List (List HOp × Bool)) : (q.cfg b mc L0 h more).OK := by
  obtain ⟨hwf, hpairs, hnoise, hsn, hdn, hrole⟩ := ok
  cases q with
  | responder p recs content body pad res data st =>
    obtain ⟨hr, hs, hfu⟩ := hrole
    obtain ⟨hb, hp⟩ := body_of_stream (s := 5) hs
    exact ⟨hwf, hpairs, hnoise, .responderU hr hb (fun r hr => hsn r (List.mem_append_left _ hr)) hp rfl rfl rfl rfl
      rfl rfl hfu⟩
  | authorizer p recs data st =>
    exact ⟨hwf, hpairs, hnoise, .authorizer hrole.1 rfl rfl rfl rfl rfl hrole.2⟩
  | filter p recs content body pad res content2 body2 pad2 res2 data st =>
    obtain ⟨hr, hs, hd, hfu⟩ := hrole
    obtain ⟨hb, hp⟩ := body_of_stream (s := 5) hs
    obtain ⟨hb2, hp2⟩ := body_of_stream (s := 8) hd
    exact ⟨hwf, hpairs, hnoise, .filterU hr hb hb2 (fun r hr => hsn r (List.mem_append_left _ hr))
      (fun r hr => hdn r (List.mem_append_left _ hr)) hp hp2 rfl rfl rfl rfl rfl rfl hfu⟩

theorem cfgs_ok_u {b mc : Nat} : ∀ (qs : List Sent) (h : Nat), (∀ q ∈ qs, q.OKu b) →
    ∀ g ∈ cfgs b mc h qs, g.OK
  | [], _, _ => fun g hg => by simp [cfgs] at hg
  | q :: qs, h, hok => by
    intro g hg
    simp only [cfgs, List.mem_cons] at hg
    rcases hg with rfl | hg
    · exact cfg_ok_u (hok q List.mem_cons_self) _ _ _
    · exact cfgs_ok_u qs _ (fun q' hq' => hok q' (List.mem_cons_of_mem _ hq')) g hg

/-- **`k_requests_e2e` for requests of any size** (`Sent.OKu`: no size conjunct). -/
theorem k_requests_e2e_unbounded {b mc : Nat} (q : Sent) (qs : List Sent) {t : Transport} {fuel : Nat}
    (hok : ∀ q' ∈ q :: qs, q'.OKu b)
    (hkeep : ∀ q' ∈ (q :: qs).dropLast, q'.p.flags.toNat % 2 = 1)
    (hin : t.input = q.wire) (hben : Ben t) (hem : t.endMode = .pend) (hev : hsCount t.events = 0)
    (hfuel : t.rd.length + t.wr.length + 1 ≤ fuel) :
    ∃ c' fin A, closedLoop fuel (qs.map Sent.wire) (connK b mc t (q :: qs)) 0 = (c', fin) ∧
      AnswerAll mc (q :: qs) A ∧ c'.env.tr.wlog = t.wlog ++ A ∧
      hsCount c'.env.tr.events = (q :: qs).length ∧
      (∀ q' ∈ q :: qs, startEvent q'.p.request ∈ c'.env.tr.events ∧
        ∀ d ∈ q'.reads, readEvent d ∈ c'.env.tr.events) ∧
      c'.scripts = [] ∧
      ((((q :: qs).getLast (by simp)).p.flags.toNat % 2 = 1 ∧ fin = "STALL" ∧
          c'.phase = .parseReq ⟨alignedBufsize b, [], .header, mc⟩ .reading ∧ c'.env.tr.input = []) ∨
       (((q :: qs).getLast (by simp)).p.flags.toNat % 2 = 0 ∧ fin = "RET" ∧ c'.phase = .finished)) := by
  have okq := hok q List.mem_cons_self
  have hstage : Stage (q.cfg b mc t.wlog 0 (qs.map Sent.handler)) (connK b mc t (q :: qs)) :=
    .start (raw := [])
      (by show Phase.parseReq (Req.Parser.new b mc) .start =
            .parseReq ⟨alignedBufsize (q.cfg b mc t.wlog 0 (qs.map Sent.handler)).b, [], .header,
              (q.cfg b mc t.wlog 0 (qs.map Sent.handler)).mc⟩ .start
          rw [cfg_b, cfg_mc]; rfl)
      (by show [] ++ t.input = _; rw [cfg_W, hin]; rfl) (Nat.zero_le _) (cfg_L0 ..).symm hben rfl
      (by rw [cfg_more, cfg_hscript]; rfl) rfl (by rw [cfg_hs0]; exact hev)
  obtain ⟨c', fin, hrun, _, hem', hlog, hend, hall⟩ := chain_run'
    (cfgs b mc (0 + 1) qs)
    (q.cfg b mc t.wlog 0 (qs.map Sent.handler)) (connK b mc t (q :: qs)) 0 fuel hstage rfl hem
    (by show ans t + 1 ≤ fuel; unfold ans; omega)
    (cfg_ok_u okq _ _ _)
    (cfgs_ok_u qs _ (fun q' hq' => hok q' (List.mem_cons_of_mem _ hq')))
    (chain_cfgs qs q _ _ hkeep)
  rw [cfgs_W] at hrun
  rw [cfg_L0] at hlog
  obtain ⟨A, hA, hLA⟩ := logChain_answers qs q t.wlog t.wlog c'.env.tr.wlog 0 hlog
  obtain ⟨L', hgl⟩ := lastP_cfgs (b := b) (mc := mc) qs q t.wlog 0
  rw [hgl] at hend
  have hallq : ∀ q' ∈ q :: qs, startEvent q'.p.request ∈ c'.env.tr.events ∧
      ∀ d ∈ q'.reads, readEvent d ∈ c'.env.tr.events := by
    have key : ∀ (qs : List Sent) (h : Nat) (q' : Sent), q' ∈ qs →
        ∃ g ∈ cfgs b mc h qs, g.p = q'.p ∧ g.revs = q'.reads.map rEvent := by
      intro qs
      induction qs with
      | nil => intro _ _ h; cases h
      | cons a as ih =>
        intro h q' hq'
        rcases List.mem_cons.1 hq' with rfl | hq'
        · exact ⟨_, by simp only [cfgs]; exact List.mem_cons_self, cfg_p .., cfg_revs ..⟩
        · obtain ⟨g, hg, h1, h2⟩ := ih (h + 1) q' hq'
          exact ⟨g, by simp only [cfgs]; exact List.mem_cons_of_mem _ hg, h1, h2⟩
    have conv : ∀ (g : E2E.Cfg) (q' : Sent), g.p = q'.p → g.revs = q'.reads.map rEvent →
        (hsEvent g.p.request ∈ c'.env.tr.events ∧ ∀ s ∈ g.revs, s ∈ c'.env.tr.events) →
        startEvent q'.p.request ∈ c'.env.tr.events ∧ ∀ d ∈ q'.reads, readEvent d ∈ c'.env.tr.events := by
      intro g q' h1 h2 ⟨a, b⟩
      rw [h1] at a
      exact ⟨a, fun d hd => b _ (by rw [h2]; exact List.mem_map_of_mem hd)⟩
    intro q' hq'
    rcases List.mem_cons.1 hq' with h | hq'
    · rw [h]
      exact conv _ q (cfg_p ..) (cfg_revs ..) (hall (q.cfg b mc t.wlog 0 (qs.map Sent.handler)) List.mem_cons_self)
    · obtain ⟨g, hg, h1, h2⟩ := key qs (0 + 1) q' hq'
      exact conv g q' h1 h2 (hall g (List.mem_cons_of_mem _ hg))
  refine ⟨c', fin, A, hrun, hA, hLA, ?_, hallq, by rw [← cfg_more b mc L' _ [] _]; exact hend.sc, ?_⟩
  · have := hend.hs
    rw [cfg_hs0] at this
    simp only [List.length_cons] at this ⊢
    omega
  · have hfinal := hend.fin
    simp only [E2E.Cfg.cap, cfg_p, cfg_mc, cfg_b] at hfinal
    rcases hfinal with ⟨rfl, hph, hk | ⟨_, he⟩⟩ | ⟨rfl, hph, hinp, hk⟩
    · exact Or.inr ⟨hk, rfl, hph⟩
    · rw [hem'] at he; cases he
    · exact Or.inl ⟨hk, rfl, hph, hinp⟩

end Fcgi.C07E

namespace Fcgi.C07U
open Fcgi Fcgi.Req Fcgi.Str Fcgi.Async Fcgi.Run Fcgi.Spec Fcgi.E2E Fcgi.C07E

/-- `unread_request_e2e` without `hsize`. -/
theorem unread_request_e2e_unbounded {p : Preamble} {recs : List Rec} {content : Bytes} {srecs : List Rec}
    {b mc : Nat} {data : Bytes} {st : ExitStatus} {hs : List HOp} {more : List (List HOp × Bool)}
    {t : Transport} {fuel : Nat}
    (hnr : NoRead hs data st)
    (hwf : WellFormedPreamble p recs) (hrole : p.role = 1) (hk : p.flags.toNat % 2 = 1)
    (hpairs : ∀ q ∈ p.pairs, (NV.enc q).length ≤ alignedBufsize b)
    (hnoise : NoiseFits (alignedBufsize b) recs)
    (hstr : StreamRecs p.id 5 content srecs) (hsn : NoiseFits (alignedBufsize b) srecs)
    (hnb : ∀ r ∈ srecs, r.rtype.toNat ≠ RT.beginRequest)
    (hin : t.input = serAll recs ++ serAll srecs) (hben : Ben t) (hev : hsCount t.events = 0)
    (hfuel : t.rd.length + t.wr.length + 1 ≤ fuel)
    (hhf : wcost data.length + 4 ≤ 1000) :
    ∃ c' fin, runTask fuel (connS b mc t ((hs, true) :: more)) 0 none = (c', fin) ∧
      UnreadOutcome p srecs b mc
        (t.wlog ++ (owedPreamble p mc recs ++ streamRecords 6 p.id data ++ epilogue p.id st ++
          owedStream p.id 5 mc srecs)) more t c' fin := by
  have hidle := srecs_idle hwf hstr hnb
  have ok : UOK (cfgU p recs srecs b mc data st hs t.wlog 0 more) :=
    ⟨hwf, hrole, hpairs, hnoise, rfl, rfl, rfl, rfl, hnr, hhf⟩
  obtain ⟨hns, hNF⟩ := idle_front dummy_wf b mc (fun q hq => by cases hq) (dummy_fits _) hidle hsn []
  have hst : UStage (cfgU p recs srecs b mc data st hs t.wlog 0 more) (connS b mc t ((hs, true) :: more)) :=
    .start (raw := []) rfl (by show [] ++ t.input = _; rw [hin]; rfl) (Nat.zero_le _) rfl hben rfl rfl rfl hev
  obtain ⟨c', fin, hrun, hkp, hem, _, _, _, hend⟩ := run_unread' ok hk (Z := serAll dummyRecs ++ []) hns hNF t.endMode [] _ 0 fuel
    hst rfl (fun s hs => by cases hs) rfl (by show ans t + 1 ≤ fuel; unfold ans; omega)
  have hLU : (cfgU p recs srecs b mc data st hs t.wlog 0 more).LU =
      t.wlog ++ (owedPreamble p mc recs ++ streamRecords 6 p.id data ++ epilogue p.id st) := by
    show ((t.wlog ++ owedPreamble p mc recs) ++ streamRecords 6 p.id data ++
      makeRequestEpilogue p.id st [RT.stdout, RT.stderr]) = _
    rw [epilogue_eq]; simp only [List.append_assoc]
  have hout : ∀ F, F ++ (serAll dummyRecs ++ []) = serAll srecs ++ (serAll dummyRecs ++ []) →
      (cfgU p recs srecs b mc data st hs t.wlog 0 more).LU ++ (run .header F mc).out =
      t.wlog ++ (owedPreamble p mc recs ++ streamRecords 6 p.id data ++ epilogue p.id st ++
          owedStream p.id 5 mc srecs) := by
    intro F hF
    rw [List.append_cancel_right hF, (run_idle_out mc srecs hidle).1, hLU,
      idleOwed_eq_owedStream hstr (by decide) (by decide) (by decide) (by decide) hnb]
    simp only [List.append_assoc]
  refine ⟨c', fin, hrun, ⟨hkp.hs, hkp.ev _ List.mem_cons_self⟩, ?_, hkp.sc, ?_⟩
  · rcases hend with ⟨_, hp⟩ | ⟨_, hf⟩
    · obtain ⟨F, hF, _, _, hlg⟩ := hp.pst
      rw [hlg]; exact hout F hF
    · obtain ⟨F, hF, hlg⟩ := hf.log
      rw [hlg]; exact hout F hF
  · rcases hend with ⟨rfl, hp⟩ | ⟨rfl, hf⟩
    · obtain ⟨F, hF, hps, hph, _⟩ := hp.pst
      have hFe : F = serAll srecs := List.append_cancel_right hF
      subst hFe
      exact Or.inr ⟨hem.symm.trans hp.em, rfl, hph, hp.inp, hkp.mx, hps.stop, hps.ben⟩
    · exact Or.inl ⟨hem.symm.trans hf.em, rfl, hf.ph⟩

/-- `unread_prefix_e2e` without `hsize`. -/
theorem unread_prefix_e2e_unbounded {p : Preamble} {recs : List Rec} {content : Bytes} {srecs : List Rec}
    {b mc n : Nat} {st : ExitStatus} {more : List (List HOp × Bool)} {t : Transport} {fuel : Nat}
    (hn : 0 < n)
    (hwf : WellFormedPreamble p recs) (hrole : p.role = 1) (hk : p.flags.toNat % 2 = 1)
    (hpairs : ∀ q ∈ p.pairs, (NV.enc q).length ≤ alignedBufsize b)
    (hnoise : NoiseFits (alignedBufsize b) recs)
    (hstr : StreamRecs p.id 5 content srecs) (hsn : NoiseFits (alignedBufsize b) srecs)
    (hnb : ∀ r ∈ srecs, r.rtype.toNat ≠ RT.beginRequest)
    (hin : t.input = serAll recs ++ serAll srecs) (hben : Ben t) (hev : hsCount t.events = 0)
    (hfuel : t.rd.length + t.wr.length + 1 ≤ fuel) :
    ∃ c' fin s₁ s₂ d, runTask fuel (connS b mc t ((readSome n st, true) :: more)) 0 none = (c', fin) ∧
      PrefixOutcome p recs content srecs s₁ s₂ d b mc st more t c' fin := by
  have hidle := srecs_idle hwf hstr hnb
  obtain ⟨body, pad, res, hpad, hbody, hsrecs⟩ := StreamRecs.split hstr
  subst hsrecs
  have ok := pok_of (mc := mc) (st := st) t.wlog 0 more hn hwf hrole hpairs hnoise hpad hbody hstr hsn
  have hmem : ∀ s1 s2 : List Rec, (cfgP p recs content body pad res b mc n st t.wlog 0 more).R = s1 ++ s2 →
      ∀ e ∈ s2, e ∈ body ++ [{ rtype := UInt8.ofNat 5, id := p.id, content := [], pad := pad, reserved := res }] := by
    intro s1 s2 hsp e he
    have : e ∈ (cfgP p recs content body pad res b mc n st t.wlog 0 more).R := by
      rw [hsp]; exact List.mem_append_right _ he
    exact this
  have hgood : ∀ s1 s2 : List Rec, (cfgP p recs content body pad res b mc n st t.wlog 0 more).R = s1 ++ s2 →
      GoodNext (alignedBufsize b) mc s2 (serAll dummyRecs ++ []) := fun s1 s2 hsp =>
    idle_front dummy_wf b mc (fun q hq => by cases hq) (dummy_fits _) (fun e he => hidle e (hmem s1 s2 hsp e he))
      (fun e he hg => hsn e (hmem s1 s2 hsp e he) hg) []
  have hst : PStage (cfgP p recs content body pad res b mc n st t.wlog 0 more) n
      (connS b mc t ((readSome n st, true) :: more)) :=
    .start (raw := []) rfl (by show [] ++ t.input = _; rw [hin, C02.serAll_append, C02.serAll_single]; rfl)
      (Nat.zero_le _) rfl hben rfl rfl rfl hev
  obtain ⟨c', fin, hrun, s1, s2, d, hsp, hd1, hd2, hkp, hem, _, _, _, hend⟩ :=
    run_prefix' ok hk (Z := serAll dummyRecs ++ []) (fun s1 s2 h => (hgood s1 s2 h).1) (fun s1 s2 h => (hgood s1 s2 h).2)
      t.endMode [] _ 0 fuel hst rfl (fun s hs => by cases hs) rfl (by show ans t + 1 ≤ fuel; unfold ans; omega)
  have hs2 : ∀ e ∈ s2, IdleNoise e := fun e he => hidle e (hmem s1 s2 hsp e he)
  have hnb2 : ∀ r ∈ s2, r.rtype.toNat ≠ RT.beginRequest := fun e he => hnb e (hmem s1 s2 hsp e he)
  have hLU := gC_LU_eq (p := p) (recs := recs) (content := content) (body := body) (pad := pad) (res := res)
    (b := b) (mc := mc) (n := n) (st := st) (L0 := t.wlog) (h := 0) (more := more) [] s1 s2 (fun _ h => nomatch h)
  have hLU' : (gC (cfgP p recs content body pad res b mc n st t.wlog 0 more) s1 s2).LU =
      t.wlog ++ (owedPreamble p mc recs ++ owedStream p.id 5 mc s1 ++ epilogue p.id st) := by
    have e : (cfgP p recs content body pad res b mc n st t.wlog 0 more).front [] =
        cfgP p recs content body pad res b mc n st t.wlog 0 more := rfl
    rw [e] at hLU
    rw [hLU]; simp [idleOwed]
  have hout : ∀ F, F ++ (serAll dummyRecs ++ []) = serAll s2 ++ (serAll dummyRecs ++ []) →
      (gC (cfgP p recs content body pad res b mc n st t.wlog 0 more) s1 s2).LU ++ (run .header F mc).out =
      t.wlog ++ (owedPreamble p mc recs ++ owedStream p.id 5 mc s1 ++ epilogue p.id st ++
          owedStream p.id 5 mc s2) := by
    intro F hF
    rw [List.append_cancel_right hF, (run_idle_out mc s2 hs2).1, hLU', idleOwed_eq_owedStream5 p.id mc hnb2]
    simp only [List.append_assoc]
  refine ⟨c', fin, s1, s2, d, hrun, hsp, ⟨hd1, hd2, hkp.ev _ (by simp)⟩,
    ⟨hkp.hs, hkp.ev _ List.mem_cons_self⟩, ?_, hkp.sc, ?_⟩
  · rcases hend with ⟨_, hp⟩ | ⟨_, hf⟩
    · obtain ⟨F, hF, _, _, hlg⟩ := hp.pst
      rw [hlg]; exact hout F hF
    · obtain ⟨F, hF, hlg⟩ := hf.log
      rw [hlg]; exact hout F hF
  · rcases hend with ⟨rfl, hp⟩ | ⟨rfl, hf⟩
    · obtain ⟨F, hF, hps, hph, _⟩ := hp.pst
      have hFe : F = serAll s2 := List.append_cancel_right hF
      subst hFe
      exact Or.inr ⟨hem.symm.trans hp.em, rfl, hph, hp.inp, hkp.mx, hps.stop, hps.ben⟩
    · exact Or.inl ⟨hem.symm.trans hf.em, rfl, hf.ph⟩

/-- `|data| ≤ 60 000 000` is enough for the remaining fuel side condition of every role. -/
theorem wcost_of_len {n : Nat} (h : n ≤ 60000000) : wcost n + 24 ≤ 1000 := by
  unfold wcost; omega

/-! ## Non-vacuity: a maximal record, a 64 KiB buffer -/
namespace ExampleBig
open Fcgi.C01.Example Fcgi.C07E.Example

/-- 65 535 content bytes in ONE Stdin record (the largest the protocol allows), then the end mark -/
def big : Bytes := List.replicate 65535 0
def bigS : List Rec :=
  [ { rtype := 5, id := 1, content := big, pad := [0] },
    { rtype := 5, id := 1, content := [], pad := [] } ]

theorem big_len : big.length = 65535 := List.length_replicate ..

theorem bigS_ok : StreamRecs 1 5 big bigS := by
  have h := StreamRecs.chunk (id := 1) (s := 5) big [0] 0 (by rw [big_len]; omega) (by decide)
    (.term [] 0 (by decide))
  rw [List.append_nil] at h
  exact h

/-- no management `GetValues` record among them -/
theorem bigS_fits (M : Nat) : NoiseFits M bigS := by
  intro r hr hg
  exfalso
  obtain ⟨h1, _⟩ := hg
  simp only [bigS, List.mem_cons, List.not_mem_nil, or_false] at hr
  rcases hr with rfl | rfl <;> simp [RT.getValues] at h1

def bigT : Transport :=
  { input := serAll recs ++ serAll bigS, endMode := .pend,
    rd := [.n 10, .pending, .n 40000, .all, .n 3, .all], wr := [.n 5, .pending, .all, .n 1], fl := [] }

/-- more than 65 543 bytes on the wire: outside every theorem with `hsize` -/
theorem bigT_len : 65543 ≤ bigT.input.length := by
  show 65543 ≤ (serAll recs ++ serAll bigS).length
  have h : (serAll bigS).length = 65552 := by
    simp [bigS, serAll_cons, serAll_nil, ser_length, big_len]
  rw [List.length_append, h]
  omega

/-- `single_request_e2e_unbounded` applied to a 65 535-byte record and a 65 536-byte buffer (`b` and `|input|`
both far outside `single_request_e2e`): the handler is started once and reads exactly the 65 535 bytes; the log
is the owed preamble replies, the Stdout record, the epilogue. -/
example : ∃ c' fin, runTask 20 (conn0 65536 10 bigT [104, 105] (.complete 0)) 0 none = (c', fin) ∧
    (fin = "RET" ∨ fin = "STALL") ∧
    c'.env.tr.wlog = owedPreamble pre 10 recs ++ streamRecords 6 1 [104, 105] ++ epilogue 1 (.complete 0) ∧
    hsCount c'.env.tr.events = 1 ∧ readEvent big ∈ c'.env.tr.events := by
  obtain ⟨c', fin, O1, O2, hrun, hO, ho⟩ := single_request_e2e_unbounded (p := pre) (recs := recs) (content := big)
    (srecs := bigS) (b := 65536) (mc := 10) (data := [104, 105]) (st := .complete 0) (t := bigT) (fuel := 20)
    recs_wf rfl (pre_pairs_fit _) (noise_fits _) bigS_ok (bigS_fits _) rfl ⟨by decide, by decide, rfl, by decide⟩ rfl
    (by decide) (by decide)
  have hq : owedStream pre.id 5 10 bigS = [] := by
    have hid : pre.id = 1 := rfl
    rw [hid]
    simp [owedStream, bigS]
  rw [hq] at hO
  obtain ⟨h1, h2⟩ := List.append_eq_nil_iff.1 hO
  subst h1 h2
  refine ⟨c', fin, hrun, ?_, ?_, ho.one_handler.1, ho.read_content⟩
  · rcases ho.final with ⟨_, h, _⟩ | ⟨_, _, h, _⟩ | ⟨_, _, h, _⟩
    · exact Or.inl h
    · exact Or.inl h
    · exact Or.inr h
  · rw [ho.log, expectedLogN_nil]
    show [] ++ _ = _
    rw [List.nil_append]; rfl
theorem bigS_noBegin : ∀ r ∈ bigS, r.rtype.toNat ≠ RT.beginRequest := by
  intro r hr
  simp only [bigS, List.mem_cons, List.not_mem_nil, or_false] at hr
  rcases hr with rfl | rfl <;> decide

theorem bigS_quiet : owedStream pre.id 5 10 bigS = [] := by
  have hid : pre.id = 1 := rfl
  rw [hid]
  simp [owedStream, bigS]

/-- `unread_request_e2e_unbounded` on the same wire: the handler returns at once; the 65 535-byte record is left
to the next `parse_request`, which swallows it (nothing is owed for it). -/
example : ∃ c' fin, runTask 20 (connS 65536 10 bigT [([.ret (.complete 3)], true)]) 0 none = (c', fin) ∧
    c'.env.tr.wlog = owedPreamble pre 10 recs ++ epilogue 1 (.complete 3) ∧
    hsCount c'.env.tr.events = 1 := by
  obtain ⟨c', fin, hrun, ho⟩ := unread_request_e2e_unbounded (p := pre) (recs := recs) (content := big) (srecs := bigS)
    (b := 65536) (mc := 10) (data := []) (st := .complete 3) (hs := [.ret (.complete 3)]) (more := []) (t := bigT)
    (fuel := 20) (Or.inl ⟨rfl, rfl⟩) recs_wf rfl (by decide) (pre_pairs_fit _) (noise_fits _) bigS_ok (bigS_fits _)
    bigS_noBegin rfl ⟨by decide, by decide, rfl, by decide⟩ rfl (by decide) (by decide)
  refine ⟨c', fin, hrun, ?_, ho.one_handler.1⟩
  rw [ho.log, bigS_quiet, streamRecords_nil, List.append_nil, List.append_nil]
  show [] ++ _ = _
  rw [List.nil_append]; rfl

/-- `unread_prefix_e2e_unbounded` on the same wire: one `read` of up to 100 bytes. -/
example : ∃ c' fin s₁ s₂ d, runTask 20 (connS 65536 10 bigT [(readSome 100 (.complete 3), true)]) 0 none = (c', fin) ∧
    bigS = s₁ ++ s₂ ∧ d <+: big ∧ readSomeEvent d ∈ c'.env.tr.events ∧ hsCount c'.env.tr.events = 1 := by
  obtain ⟨c', fin, s1, s2, d, hrun, ho⟩ := unread_prefix_e2e_unbounded (p := pre) (recs := recs) (content := big)
    (srecs := bigS) (b := 65536) (mc := 10) (n := 100) (st := .complete 3) (more := []) (t := bigT) (fuel := 20)
    (by decide) recs_wf rfl (by decide) (pre_pairs_fit _) (noise_fits _) bigS_ok (bigS_fits _)
    bigS_noBegin rfl ⟨by decide, by decide, rfl, by decide⟩ rfl (by decide)
  exact ⟨c', fin, s1, s2, d, hrun, ho.split, ho.read.1, ho.read.2.2, ho.one_handler.1⟩

/-- the big request as a `Sent`, followed by an Authorizer request -/
def qBig : Sent :=
  .responder pre recs big [ { rtype := 5, id := 1, content := big, pad := [0] } ] [] 0 [104, 105] (.complete 0)

theorem qBig_ok (b : Nat) : qBig.OKu b :=
  ⟨recs_wf, pre_pairs_fit b, noise_fits b, bigS_fits _, (fun _ hr => nomatch hr), rfl, bigS_ok, by decide⟩

theorem q2_oku (b : Nat) : q2.OKu b :=
  ⟨recsA_wf, (fun _ hq => nomatch hq), recsA_fits _, (fun _ hr => nomatch hr), (fun _ hr => nomatch hr), rfl, by decide⟩

def bigT2 : Transport :=
  { input := qBig.wire, endMode := .pend,
    rd := [.n 10, .pending, .n 40000, .all, .n 3, .all], wr := [.n 5, .pending, .all, .n 1], fl := [] }

/-- `k_requests_e2e_unbounded`: the big request, then an Authorizer request, on one connection with a 64 KiB
buffer. -/
example : ∃ c' fin A, closedLoop 20 [q2.wire] (connK 65536 10 bigT2 [qBig, q2]) 0 = (c', fin) ∧
    AnswerAll 10 [qBig, q2] A ∧ c'.env.tr.wlog = A ∧ hsCount c'.env.tr.events = 2 ∧
    readEvent big ∈ c'.env.tr.events := by
  obtain ⟨c', fin, A, hrun, hA, hlog, hhs, hall, _, _⟩ := k_requests_e2e_unbounded (b := 65536) (mc := 10) qBig [q2]
    (t := bigT2) (fuel := 20)
    (fun q' hq' => by
      simp only [List.mem_cons, List.not_mem_nil, or_false] at hq'
      rcases hq' with rfl | rfl
      · exact qBig_ok _
      · exact q2_oku _)
    (fun q' hq' => by
      simp only [List.dropLast, List.mem_cons, List.not_mem_nil, or_false] at hq'
      rcases hq' with rfl; decide)
    rfl ⟨by decide, by decide, rfl, by decide⟩ rfl rfl (by decide)
  exact ⟨c', fin, A, hrun, hA, hlog.trans (List.nil_append _), hhs,
    (hall qBig (by simp)).2 _ (by simp [qBig, Sent.reads])⟩
end ExampleBig

end Fcgi.C07U

namespace Fcgi.C07B
open Fcgi Fcgi.Req Fcgi.Str Fcgi.Async Fcgi.Run Fcgi.Spec Fcgi.E2E Fcgi.C07E Fcgi.C07U

/-- `single_request_bufread_e2e` without `hsize`. -/
theorem single_request_bufread_e2e_unbounded {p : Preamble} {recs : List Rec} {content : Bytes} {srecs : List Rec}
    {b mc n k : Nat} {data : Bytes} {st : ExitStatus} {more : List (List HOp × Bool)} {t : Transport} {fuel : Nat}
    (hwf : WellFormedPreamble p recs) (hrole : p.role = 1)
    (hpairs : ∀ q ∈ p.pairs, (NV.enc q).length ≤ alignedBufsize b)
    (hnoise : NoiseFits (alignedBufsize b) recs)
    (hs : StreamRecs p.id 5 content srecs) (hsn : NoiseFits (alignedBufsize b) srecs)
    (hk : 0 < k) (hn : content.length ≤ n)
    (hin : t.input = serAll recs ++ serAll srecs) (hben : Ben t) (hev : hsCount t.events = 0)
    (hfuel : t.rd.length + t.wr.length + 1 ≤ fuel)
    (hhf : 2 * n + wcost data.length + 10 ≤ 1000) :
    ∃ c' fin O₁ O₂ shown pad res,
      runTask fuel (connS b mc t ((bscript n k data st, true) :: more)) 0 none = (c', fin) ∧
      O₁ ++ O₂ = owedStream p.id 5 mc srecs ∧
      BufReadOutcome p recs content k shown O₁ O₂ pad res b mc data st more t c' fin := by
  obtain ⟨body, pad, res, hpad, hbody, hsrecs⟩ := StreamRecs.split hs
  have hid := (pid_of_wf hwf).2
  have hsb : NoiseFits (alignedBufsize b) body := fun r hr => hsn r (by rw [hsrecs]; simp [hr])
  have ok : BROK (cfgBR p recs content body pad res b mc n k data st t.wlog 0 more) n k :=
    ⟨hwf, hrole, hpairs, hnoise, hbody, hsb, hpad, rfl, rfl, rfl, rfl, hk, hn, hhf⟩
  have hOt : owedStream p.id 5 mc srecs = owedStream p.id 5 mc body := by
    rw [hsrecs, owedStream_append, owedStream_term p.id 5 mc _ rfl, List.append_nil]
  have htwf : (trec 5 p.id pad res).WF := ⟨hid, by simp [trec], hpad⟩
  have hidle : ∀ e ∈ [trec 5 p.id pad res], IdleNoise e := by
    intro e he
    rw [List.mem_singleton.1 he]
    exact ⟨htwf, fun hx => absurd hx (by show (5 : UInt8).toNat ≠ RT.beginRequest; decide)⟩
  have hfit : NoiseFits (alignedBufsize b) [trec 5 p.id pad res] := by
    intro e he hg
    rw [List.mem_singleton.1 he] at hg
    exact absurd hg.1 (by show (5 : UInt8).toNat ≠ RT.getValues; decide)
  obtain ⟨hns, hNF⟩ := idle_front dummy_wf b mc (fun q hq => by cases hq) (dummy_fits _) hidle hfit []
  rw [C02.serAll_single] at hns hNF
  have hst : FStage (cfgBR p recs content body pad res b mc n k data st t.wlog 0 more)
      (connS b mc t ((bscript n k data st, true) :: more)) :=
    .start (raw := []) rfl (by
      show [] ++ t.input = _
      rw [hin, hsrecs, C02.serAll_append, C02.serAll_single]; rfl) (Nat.zero_le _) rfl hben rfl rfl rfl hev
  obtain ⟨c', fin, hrun, hres⟩ := run_bufread' ok (Z := serAll dummyRecs ++ []) hns hNF
    t.endMode [] _ 0 fuel hst rfl (fun s hs => by cases hs) rfl (by show ans t + 1 ≤ fuel; unfold ans; omega)
  have hro := (run_idle_out mc [trec 5 p.id pad res] hidle).1
  rw [C02.serAll_single] at hro
  have hio : idleOwed mc [trec 5 p.id pad res] = [] := by
    simp [idleOwed, owed, trec, RT.valid, RT.getValues, RT.beginRequest]
  rcases hres with ⟨⟨O1, O2, shown⟩, ⟨hkp, hO, hcont⟩, hk', hem, _, _, _, hend⟩ | ⟨hfin, ⟨O1, O2, shown, hO, hseen, hfu⟩, _, _⟩
  · have hout : ∀ F, F ++ (serAll dummyRecs ++ []) = (trec 5 p.id pad res).ser ++ (serAll dummyRecs ++ []) →
        (cfgBR p recs content body pad res b mc n k data st t.wlog 0 more).Lb O1 O2 ++ (run .header F mc).out =
        t.wlog ++ expectedLogN p recs mc data st O1 O2 := by
      intro F hF
      rw [List.append_cancel_right hF, hro, hio, List.append_nil, lb_eq]
    refine ⟨c', fin, O1, O2, shown, pad, res, hrun, hO.trans hOt.symm, ⟨hk'.hs, hk'.ev _ List.mem_cons_self⟩,
      ⟨hcont, fun s hs => hk'.ev _ (by simp [List.mem_map]; exact Or.inr (Or.inr ⟨s, hs, rfl⟩))⟩,
      hk'.ev _ (by simp), ?_, hk'.sc, ?_⟩
    · rcases hend with ⟨_, hp⟩ | ⟨_, hf⟩
      · obtain ⟨F, hF, _, _, hlg⟩ := hp.pst
        exact hlg.trans (hout F hF)
      · obtain ⟨F, hF, hlg⟩ := hf.log
        exact hlg.trans (hout F hF)
    · rcases hend with ⟨rfl, hp⟩ | ⟨rfl, hf⟩
      · obtain ⟨F, hF, hps, hph, _⟩ := hp.pst
        have hFe : F = (trec 5 p.id pad res).ser := List.append_cancel_right hF
        subst hFe
        exact Or.inr (Or.inr ⟨hkp, hem.symm.trans hp.em, rfl, hph, hp.inp, hk'.mx, hps.stop, hps.ben⟩)
      · exact Or.inr (Or.inl ⟨hkp, hem.symm.trans hf.em, rfl, hf.ph⟩)
  · exact ⟨c', fin, O1, O2, shown, pad, res, hrun, hO.trans hOt.symm, ⟨hfu.ev.1, hfu.ev.2⟩, ⟨hseen.1, hseen.2.1⟩,
      hseen.2.2, by rw [hfu.log, lb_eq], hfu.sc, Or.inl ⟨hfu.nokeep, hfin, hfu.ph⟩⟩

/-- `bufread_then_readall_e2e` without `hsize`. -/
theorem bufread_then_readall_e2e_unbounded {p : Preamble} {recs : List Rec} {content : Bytes} {srecs : List Rec}
    {b mc n k : Nat} {data : Bytes} {st : ExitStatus} {more : List (List HOp × Bool)} {t : Transport} {fuel : Nat}
    (hwf : WellFormedPreamble p recs) (hrole : p.role = 1)
    (hpairs : ∀ q ∈ p.pairs, (NV.enc q).length ≤ alignedBufsize b)
    (hnoise : NoiseFits (alignedBufsize b) recs)
    (hs : StreamRecs p.id 5 content srecs) (hsn : NoiseFits (alignedBufsize b) srecs)
    (hin : t.input = serAll recs ++ serAll srecs) (hben : Ben t) (hev : hsCount t.events = 0)
    (hfuel : t.rd.length + t.wr.length + 1 ≤ fuel)
    (hhf : 2 * n + wcost data.length + 20 ≤ 1000) :
    ∃ c' fin O₁ O₂ shown acc pad res,
      runTask fuel (connS b mc t ((bscript2 n k data st, true) :: more)) 0 none = (c', fin) ∧
      O₁ ++ O₂ = owedStream p.id 5 mc srecs ∧
      BufReadAllOutcome p recs content k shown acc O₁ O₂ pad res b mc data st more t c' fin := by
  obtain ⟨body, pad, res, hpad, hbody, hsrecs⟩ := StreamRecs.split hs
  have hid := (pid_of_wf hwf).2
  have hsb : NoiseFits (alignedBufsize b) body := fun r hr => hsn r (by rw [hsrecs]; simp [hr])
  have ok : BR2OK (cfgBR2 p recs content body pad res b mc n k data st t.wlog 0 more) n k :=
    ⟨hwf, hrole, hpairs, hnoise, hbody, hsb, hpad, rfl, rfl, rfl, rfl, hhf⟩
  have hOt : owedStream p.id 5 mc srecs = owedStream p.id 5 mc body := by
    rw [hsrecs, owedStream_append, owedStream_term p.id 5 mc _ rfl, List.append_nil]
  have htwf : (trec 5 p.id pad res).WF := ⟨hid, by simp [trec], hpad⟩
  have hidle : ∀ e ∈ [trec 5 p.id pad res], IdleNoise e := by
    intro e he
    rw [List.mem_singleton.1 he]
    exact ⟨htwf, fun hx => absurd hx (by show (5 : UInt8).toNat ≠ RT.beginRequest; decide)⟩
  have hfit : NoiseFits (alignedBufsize b) [trec 5 p.id pad res] := by
    intro e he hg
    rw [List.mem_singleton.1 he] at hg
    exact absurd hg.1 (by show (5 : UInt8).toNat ≠ RT.getValues; decide)
  obtain ⟨hns, hNF⟩ := idle_front dummy_wf b mc (fun q hq => by cases hq) (dummy_fits _) hidle hfit []
  rw [C02.serAll_single] at hns hNF
  have hst : FStage (cfgBR2 p recs content body pad res b mc n k data st t.wlog 0 more)
      (connS b mc t ((bscript2 n k data st, true) :: more)) :=
    .start (raw := []) rfl (by
      show [] ++ t.input = _
      rw [hin, hsrecs, C02.serAll_append, C02.serAll_single]; rfl) (Nat.zero_le _) rfl hben rfl rfl rfl hev
  obtain ⟨c', fin, hrun, hres⟩ := run_bufread2' ok (Z := serAll dummyRecs ++ []) hns hNF
    t.endMode [] _ 0 fuel hst rfl (fun s hs => by cases hs) rfl (by show ans t + 1 ≤ fuel; unfold ans; omega)
  have hro := (run_idle_out mc [trec 5 p.id pad res] hidle).1
  rw [C02.serAll_single] at hro
  have hio : idleOwed mc [trec 5 p.id pad res] = [] := by
    simp [idleOwed, owed, trec, RT.valid, RT.getValues, RT.beginRequest]
  rcases hres with ⟨⟨O1, O2, shown, acc⟩, ⟨hkp, hO, hcont⟩, hk', hem, _, _, _, hend⟩ |
      ⟨hfin, ⟨O1, O2, hO, ⟨shown, acc, q1, q2, q3⟩, hfu⟩, _, _⟩
  · have hout : ∀ F, F ++ (serAll dummyRecs ++ []) = (trec 5 p.id pad res).ser ++ (serAll dummyRecs ++ []) →
        (cfgBR2 p recs content body pad res b mc n k data st t.wlog 0 more).Lb O1 O2 ++ (run .header F mc).out =
        t.wlog ++ expectedLogN p recs mc data st O1 O2 := by
      intro F hF
      rw [List.append_cancel_right hF, hro, hio, List.append_nil, lb2_eq]
    refine ⟨c', fin, O1, O2, shown, acc, pad, res, hrun, hO.trans hOt.symm, ⟨hk'.hs, hk'.ev _ List.mem_cons_self⟩,
      ⟨hcont, fun s hs => hk'.ev _ (by simp [List.mem_map]; exact Or.inr (Or.inr ⟨s, hs, rfl⟩))⟩,
      hk'.ev _ (by simp), ?_, hk'.sc, ?_⟩
    · rcases hend with ⟨_, hp⟩ | ⟨_, hf⟩
      · obtain ⟨F, hF, _, _, hlg⟩ := hp.pst
        exact hlg.trans (hout F hF)
      · obtain ⟨F, hF, hlg⟩ := hf.log
        exact hlg.trans (hout F hF)
    · rcases hend with ⟨rfl, hp⟩ | ⟨rfl, hf⟩
      · obtain ⟨F, hF, hps, hph, _⟩ := hp.pst
        have hFe : F = (trec 5 p.id pad res).ser := List.append_cancel_right hF
        subst hFe
        exact Or.inr (Or.inr ⟨hkp, hem.symm.trans hp.em, rfl, hph, hp.inp, hk'.mx, hps.stop, hps.ben⟩)
      · exact Or.inr (Or.inl ⟨hkp, hem.symm.trans hf.em, rfl, hf.ph⟩)
  · exact ⟨c', fin, O1, O2, shown, acc, pad, res, hrun, hO.trans hOt.symm, ⟨hfu.ev.1, hfu.ev.2⟩, ⟨q1, q2⟩,
      q3, by rw [hfu.log, lb2_eq], hfu.sc, Or.inl ⟨hfu.nokeep, hfin, hfu.ph⟩⟩


/-- `bufread_part_e2e` without `hsize`. -/
theorem bufread_part_e2e_unbounded {p : Preamble} {recs : List Rec} {content : Bytes} {srecs : List Rec}
    {b mc n k : Nat} {st : ExitStatus} {more : List (List HOp × Bool)} {t : Transport} {fuel : Nat}
    (hwf : WellFormedPreamble p recs) (hrole : p.role = 1)
    (hpairs : ∀ q ∈ p.pairs, (NV.enc q).length ≤ alignedBufsize b)
    (hnoise : NoiseFits (alignedBufsize b) recs)
    (hs : StreamRecs p.id 5 content srecs) (hsn : NoiseFits (alignedBufsize b) srecs)
    (hnb : ∀ r ∈ srecs, r.rtype.toNat ≠ RT.beginRequest)
    (hin : t.input = serAll recs ++ serAll srecs) (hben : Ben t) (hev : hsCount t.events = 0)
    (hfuel : t.rd.length + t.wr.length + 1 ≤ fuel)
    (hhf : 2 * n + 10 ≤ 1000) :
    ∃ c' fin s₁ s₂ shown,
      runTask fuel (connS b mc t ((rounds n k ++ [.ret st], true) :: more)) 0 none = (c', fin) ∧
      BufReadPartOutcome p recs content srecs s₁ s₂ k shown b mc st more t c' fin := by
  obtain ⟨body, pad, res, hpad, hbody, hsrecs⟩ := StreamRecs.split hs
  have hid := (pid_of_wf hwf).2
  have hsb : NoiseFits (alignedBufsize b) body := fun r hr => hsn r (by rw [hsrecs]; simp [hr])
  have hstr := streamRecs_stdin hid hs
  have hR : (cfgBR3 p recs content body pad res b mc n k st t.wlog 0 more).R = srecs := by rw [hsrecs]; rfl
  have ok : BR3OK (cfgBR3 p recs content body pad res b mc n k st t.wlog 0 more) n k :=
    ⟨hwf, hrole, hpairs, hnoise, hbody, hsb, hpad, rfl, rfl, by rw [hR]; exact hstr, rfl, hhf⟩
  have hwfs : ∀ r ∈ srecs, r.WF := fun r hr => (hstr r hr).1
  have hidle : ∀ s1 s2 : List Rec, (cfgBR3 p recs content body pad res b mc n k st t.wlog 0 more).R = s1 ++ s2 →
      ∀ e ∈ s2, IdleNoise e := by
    intro s1 s2 hsp e he
    have hm : e ∈ srecs := by rw [← hR, hsp]; exact List.mem_append_right _ he
    exact ⟨hwfs e hm, fun hx => absurd hx (hnb e hm)⟩
  have hfit : ∀ s1 s2 : List Rec, (cfgBR3 p recs content body pad res b mc n k st t.wlog 0 more).R = s1 ++ s2 →
      NoiseFits (alignedBufsize b) s2 := by
    intro s1 s2 hsp e he hg
    exact hsn e (by rw [← hR, hsp]; exact List.mem_append_right _ he) hg
  have hfront : ∀ s1 s2, (cfgBR3 p recs content body pad res b mc n k st t.wlog 0 more).R = s1 ++ s2 → _ :=
    fun s1 s2 hsp => idle_front dummy_wf b mc (fun q hq => by cases hq) (dummy_fits _) (hidle s1 s2 hsp) (hfit s1 s2 hsp) []
  have hst : FStage (cfgBR3 p recs content body pad res b mc n k st t.wlog 0 more)
      (connS b mc t ((rounds n k ++ [.ret st], true) :: more)) :=
    .start (raw := []) rfl (by
      show [] ++ t.input = _
      rw [hin, hsrecs, C02.serAll_append, C02.serAll_single]; rfl) (Nat.zero_le _) rfl hben rfl rfl rfl hev
  obtain ⟨c', fin, hrun, hres⟩ := run_bufread3' ok (Z := serAll dummyRecs ++ [])
    (fun s1 s2 hsp => (hfront s1 s2 hsp).1) (fun s1 s2 hsp => (hfront s1 s2 hsp).2)
    t.endMode [] _ 0 fuel hst rfl (fun s hs => by cases hs) rfl (by show ans t + 1 ≤ fuel; unfold ans; omega)
  rcases hres with ⟨⟨s1, s2, shown⟩, ⟨hsp, hpre, hkeep⟩, hk', hem, _, _, _, hend⟩ | ⟨hfin, ⟨s1, s2, hsp, ⟨shown, q1, q2⟩, hfu⟩, _, _⟩
  · have hro := (run_idle_out mc s2 (hidle s1 s2 hsp)).1
    have hout : ∀ F, F ++ (serAll dummyRecs ++ []) = serAll s2 ++ (serAll dummyRecs ++ []) →
        (gC (cfgBR3 p recs content body pad res b mc n k st t.wlog 0 more) s1 s2).LU ++ (run .header F mc).out =
        t.wlog ++ (owedPreamble p mc recs ++ owedI p.id mc s1 ++ epilogue p.id st ++ idleOwed mc s2) := by
      intro F hF
      rw [List.append_cancel_right hF, hro, lu3_eq]
      simp only [List.append_assoc]
    refine ⟨c', fin, s1, s2, shown, hrun, by rw [← hR]; exact hsp,
      ⟨hpre, fun s hs => hk'.ev _ (by simp [List.mem_map]; exact Or.inr ⟨s, hs, rfl⟩)⟩,
      ⟨hk'.hs, hk'.ev _ List.mem_cons_self⟩, hk'.sc, Or.inl ⟨hkeep, ?_, ?_⟩⟩
    · rcases hend with ⟨_, hp⟩ | ⟨_, hf⟩
      · obtain ⟨F, hF, _, _, hlg⟩ := hp.pst
        exact hlg.trans (hout F hF)
      · obtain ⟨F, hF, hlg⟩ := hf.log
        exact hlg.trans (hout F hF)
    · rcases hend with ⟨rfl, hp⟩ | ⟨rfl, hf⟩
      · obtain ⟨F, hF, hps, hph, _⟩ := hp.pst
        have hFe : F = serAll s2 := List.append_cancel_right hF
        subst hFe
        exact Or.inr ⟨hem.symm.trans hp.em, rfl, hph, hp.inp, hk'.mx, hps.stop, hps.ben⟩
      · exact Or.inl ⟨hem.symm.trans hf.em, rfl, hf.ph⟩
  · exact ⟨c', fin, s1, s2, shown, hrun, by rw [← hR]; exact hsp, ⟨q1, q2⟩, ⟨hfu.ev.1, hfu.ev.2⟩, hfu.sc,
      Or.inr ⟨hfu.nokeep, hfin, hfu.ph, by rw [hfu.log, lu3_eq]⟩⟩

end Fcgi.C07B
