import Fcgi.Props.C11Filter4
/-!
# C11 — the chain step for the last cell of the Filter-abort table

`filter_abort_data_noread_chain_e2e`: after the Filter request of `filter_abort_data_noread_e2e` (handler
`[ret st]`, aborted behind Data content, KEEP_CONN) a closed-loop client sends the keep-alive requests
`x :: xs` (`UReq.OK`): the Data records `s₂` that `close()` did not consume, the abort record and `post` are
swallowed by the next `parse_request` (answered as idle noise), then each request is served exactly as
alone (`UReq.Seg`).
-/
namespace Fcgi.C11F
open Fcgi Fcgi.Req Fcgi.Str Fcgi.Async Fcgi.Run Fcgi.Spec Fcgi.E2E Fcgi.C07E Fcgi.C07U

theorem filter_abort_data_noread_chain_e2e {p : Preamble} {recs sbody dbody : List Rec} {pad : Bytes} {res : UInt8}
    {a : Rec} {post : List Rec} {b mc : Nat} {content c2 : Bytes} {st : ExitStatus}
    (x : UReq) (xs : List UReq) {t : Transport} {fuel : Nat}
    (hwf : WellFormedPreamble p recs) (hrole : p.role = 3) (hk : p.flags.toNat % 2 = 1)
    (hpairs : ∀ q ∈ p.pairs, (NV.enc q).length ≤ alignedBufsize b)
    (hnoise : NoiseFits (alignedBufsize b) recs)
    (hbody : Body p.id 5 content sbody) (hpf : NoiseFits (alignedBufsize b) sbody) (hpad : pad.length < 256)
    (hdb : Body p.id 8 c2 dbody) (hdf : NoiseFits (alignedBufsize b) dbody)
    (hnbd : ∀ r ∈ dbody, r.rtype.toNat ≠ RT.beginRequest) (ha : IsAbort p.id a)
    (hpost : ∀ r ∈ post, r.WF) (hpostf : NoiseFits (alignedBufsize b) post)
    (hnb : ∀ r ∈ post, r.rtype.toNat ≠ RT.beginRequest)
    (hpost5 : ∀ r ∈ post, ¬ (r.rtype.toNat = 5 ∧ r.id = p.id))
    (hok : ∀ y ∈ x :: xs, y.OK b)
    (hin : t.input = serAll recs ++ gapX p.id sbody pad res dbody a post) (hben : Ben t) (hem : t.endMode = .pend)
    (hev : hsCount t.events = 0) (hfuel : t.rd.length + t.wr.length + 1 ≤ fuel)
    (hsize : 6 * t.input.length + 26 ≤ 100000) :
    ∃ c' A full d1 s2, dbody = d1 ++ s2 ∧ (full = false → s2 = []) ∧
      closedLoop fuel ((x :: xs).map UReq.wire)
        (connS b mc t (([.ret st], true) :: (x :: xs).map UReq.handler)) 0 = (c', "STALL") ∧
      SegsAll mc (x :: xs) A ∧
      c'.env.tr.wlog = t.wlog ++ (owedPreamble p mc recs ++ owedActive p.id mc (gapPre p.id sbody pad res d1) ++
        epilogueFor p.id st full ++ idleOwed mc (s2 ++ a :: post)) ++ A ∧
      hsCount c'.env.tr.events = 1 + (x :: xs).length ∧
      startEvent p.request ∈ c'.env.tr.events ∧
      (∀ y ∈ x :: xs, startEvent y.p.request ∈ c'.env.tr.events) ∧ c'.scripts = [] ∧
      c'.env.tr.input = [] ∧
      c'.phase = .parseReq (track (alignedBufsize b) mc (serAll ((x :: xs).getLast (by simp)).left)) .reading := by
  have hid := (pid_of_wf hwf).2
  have hwa := isAbort_wf ha hid
  have hdwf := body_wf hid hdb
  have hidle : ∀ s2, s2 <:+ dbody → ∀ e ∈ s2 ++ a :: post, IdleNoise e := by
    intro s2 hs2 e he
    rcases List.mem_append.1 he with he | he
    · exact ⟨hdwf e (hs2.subset he), fun hx => absurd hx (hnbd e (hs2.subset he))⟩
    · rcases List.mem_cons.1 he with rfl | he
      · exact ⟨hwa, fun hx => absurd hx (by rw [ha.1]; decide)⟩
      · exact idle_of_noBegin hpost hnb e he
  have hfit : ∀ s2, s2 <:+ dbody → NoiseFits (alignedBufsize b) (s2 ++ a :: post) := by
    intro s2 hs2 e he hg
    rcases List.mem_append.1 he with he | he
    · exact hdf e (hs2.subset he) hg
    · rcases List.mem_cons.1 he with rfl | he
      · exact absurd hg.1 (by rw [ha.1]; decide)
      · exact hpostf e he hg
  have hlo : ∀ s2, s2 <:+ dbody → LeftOK (alignedBufsize b) (s2 ++ a :: post) := fun s2 hs2 => ⟨hidle s2 hs2, hfit s2 hs2⟩
  have ok := fr4ok_of (content := content) (pad := pad) (res := res) (post := post) (mc := mc) (st := st) t.wlog 0
    (((x :: xs).map (UReq.spec mc)).map RSpec.handler) hwf hrole hpairs hnoise hbody hpf hpad hdb hdf hpost hpost5 ha
  have hstart : StartAt (alignedBufsize b) mc [] t.wlog
      (([.ret st], true) :: ((x :: xs).map (UReq.spec mc)).map RSpec.handler) 0 [] (ans t)
      (serAll recs ++ dataX4 p.id sbody pad res dbody a post)
      (connS b mc t (([.ret st], true) :: ((x :: xs).map (UReq.spec mc)).map RSpec.handler)) :=
    Or.inr ⟨rfl, rfl, by show t.input = _; rw [hin, dataX4_eq], rfl, hben, rfl, rfl, rfl, hev, (fun _ hs => nomatch hs), rfl, hem,
      Nat.le_refl _⟩
  have hleft0 : LeftOK (alignedBufsize b) [] := ⟨(fun _ he => nomatch he), (fun _ hr => nomatch hr)⟩
  obtain ⟨c1, full, d1, s2, hrun1, ⟨hsp, hfs⟩, hw1⟩ := serve_filterR4_core ok hk (left := []) hleft0 (Z := x.wire)
    hidle (fun s2 hs2 => goodNext_of_ok (hok x List.mem_cons_self) (hlo s2 hs2)) 0 fuel (by simp [idleOwed]; rfl)
    hstart (by unfold ans; omega)
    (by show 6 * (serAll recs ++ dataX4 p.id sbody pad res dbody a post).length + 26 ≤ _
        rw [← dataX4_eq, ← hin]; exact hsize)
  have hsuf : s2 <:+ dbody := ⟨d1, hsp.symm⟩
  have hLw : ((cfgFR4 p recs content sbody pad res c2 dbody a post b mc st t.wlog 0
        (((x :: xs).map (UReq.spec mc)).map RSpec.handler)).front []).Lf4 full d1 ++ idleOwed mc (s2 ++ a :: post) =
      t.wlog ++ (owedPreamble p mc recs ++ owedActive p.id mc (gapPre p.id sbody pad res d1) ++
        epilogueFor p.id st full ++ idleOwed mc (s2 ++ a :: post)) := by
    have e : (cfgFR4 p recs content sbody pad res c2 dbody a post b mc st t.wlog 0
        (((x :: xs).map (UReq.spec mc)).map RSpec.handler)).front [] =
      cfgFR4 p recs content sbody pad res c2 dbody a post b mc st t.wlog 0
        (((x :: xs).map (UReq.spec mc)).map RSpec.handler) := rfl
    rw [e, lf4_eq]
    simp only [List.append_assoc]
  have hw1' : Waiting (alignedBufsize b) mc (s2 ++ a :: post)
      (t.wlog ++ (owedPreamble p mc recs ++ owedActive p.id mc (gapPre p.id sbody pad res d1) ++
        epilogueFor p.id st full ++ idleOwed mc (s2 ++ a :: post)))
      (((x :: xs).map (UReq.spec mc)).map RSpec.handler) 1 [hsEvent p.request] (ans t) c1 := by
    rw [← hLw]; exact hw1
  obtain ⟨c', A, hrun, hseg, hw⟩ := chain_serves (alignedBufsize b) mc (serAll dummyRecs ++ [])
    (xs.map (UReq.spec mc)) (UReq.spec mc x) (s2 ++ a :: post) _ 1 [hsEvent p.request] (ans t) (feed c1 x.wire) 1000 fuel
    (hall_of_ok x xs hok) (hlo s2 hsuf) (Or.inl ⟨c1, hw1', rfl⟩) (by unfold ans; omega)
  have hrun' : closedLoop fuel ((x :: xs).map UReq.wire)
      (connS b mc t (([.ret st], true) :: (x :: xs).map UReq.handler)) 0 = (c', "STALL") := by
    have e : (x :: xs).map UReq.handler = ((x :: xs).map (UReq.spec mc)).map RSpec.handler := by
      rw [List.map_map]; rfl
    rw [e]
    show closedLoop fuel (x.wire :: xs.map UReq.wire) _ 0 = _
    rw [closedLoop, hrun1]
    simp only [if_true]
    rw [← hrun, List.map_map]; rfl
  have hlast := lastLeft_specs mc x xs
  refine ⟨c', A, full, d1, s2, hsp, hfs, hrun', segAll_specs mc (x :: xs) A hseg, hw.log, ?_, ?_, ?_, hw.sc, hw.inp, ?_⟩
  · have := hw.hs; simpa [Nat.add_comm] using this
  · exact hw.ev _ (mem_evsAfter _ _ _ (Or.inl List.mem_cons_self))
  · intro y hy
    exact hw.ev _ (mem_evsAfter _ _ _ (Or.inr ⟨UReq.spec mc y, List.mem_map_of_mem hy, rfl⟩))
  · rw [← hlast]; exact hw.ph

end Fcgi.C11F
