import Fcgi.Proofs.C12Inv
import Fcgi.Props.C12
import Fcgi.Spec.Wire
/-!
# C12, last clause — fail-stop of the whole poll and of the whole run

"For a handler that propagates I/O errors, nothing is written after a failed write and everything
written before it is a prefix of a well-formed record sequence."

**A transport write failed** (`WriteFailed t t'`): among the scripted answers the transport consumed
between `t` and `t'` there is a write answer `.err`/`.zero` (event `…:E` / `…:Z`; the library turns
`Ok(0)` into `WriteZero`) or a flush answer `.err`.  The scripts only lose a prefix, so this is read
off the two transport states.

**What happened, in call order** (`Proofs/C12Inv`): `Clean t t'` — `t'` is reached from `t` by
non-failing `writeV`/`flush` calls and changes that leave `wr`, `fl`, `wlog` alone; `Failed t t'` —
a clean call sequence to some `t1`, then one failing call, then only write-side-preserving changes.
Because the relation is built from actual transport calls, `Failed` says that the failing call was
the last transport write/flush call, and `t'.wlog = t1.wlog` is the log at the moment of the failure.

Results, for connection states all of whose handler scripts propagate errors (`AllProp`: the running
handler and every script still to come; preserved by polls and by the executor):

* `pollConn_w` — every poll is `Clean`, or `Failed` and then the task is over
  (`res = .finished`, `phase = .finished`);
* `write_failure_is_final` — if a transport write failed during a poll: `res = .finished` (not
  `.pending`, not a panic), `c'.phase = .finished`, and `Failed`: nothing was written after the
  failing call (`write_failure_log`);
* `finished_absorbing` — a finished task never touches the transport again;
* `runTask_w`, `runTask_write_failure` — the same for the whole run of the executor: a run in which a
  write failed ends with "RET" at that poll, and its final write log is the log at the first failed
  write.
* `write_failure_is_final_full` drops the `AllProp` hypothesis and is false
  (`write_failure_is_final_full_false`): a handler that ignores a failed write lets `close` write the
  epilogue afterwards.  (The property does not cover such handlers.)
* `prefix_wellformed_full` — "the write log is at every moment a prefix of `serAll` of a record list"
  — is stated and left open (neither proved nor refuted here): it needs the record-level invariants
  of all four writers (request parser replies, stream parser replies, `StreamWriter` records under the
  mutex — `C10.no_interleave` —, the `close` epilogue) glued along the connection task.  The
  differential oracle checks it on the real code.  What is proved here about the log: it only grows
  (`Clean.answers`, `poll_log_grows`).
-/
namespace Fcgi.C12Inv
open Fcgi Fcgi.Req Fcgi.Str Fcgi.Async Fcgi.Run

/-! ## 1. "A transport write failed" -/

/-- Among the answers consumed between `t` and `t'`: a failing write answer or a failing flush
answer. -/
def WriteFailed (t t' : Transport) : Prop :=
  (∃ cw, t.wr = cw ++ t'.wr ∧ ∃ a ∈ cw, wrBad a = true) ∨
  (∃ cf, t.fl = cf ++ t'.fl ∧ ∃ a ∈ cf, flBad a = true)

theorem AClean.not_writeFailed {t t' : Transport} (h : AClean t t') : ¬ WriteFailed t t' := by
  obtain ⟨cw, cf, d, hw, hf, _, hb, hc⟩ := h
  rintro (⟨cw', hw', a, ha, hbad⟩ | ⟨cf', hf', a, ha, hbad⟩)
  · have : cw = cw' := List.append_cancel_right (hw.symm.trans hw')
    subst this
    rw [hb a ha] at hbad; cases hbad
  · have : cf = cf' := List.append_cancel_right (hf.symm.trans hf')
    subst this
    rw [hc a ha] at hbad; cases hbad

/-- A clean call sequence is not a failed one. -/
theorem Clean.not_writeFailed {t t' : Transport} (h : Clean t t') : ¬ WriteFailed t t' :=
  h.answers.not_writeFailed

/-! ## 2. Handlers that propagate I/O errors -/

/-- The running handler (if any) and every handler script still to come propagate I/O errors. -/
def AllProp (c : Conn) : Prop :=
  (∀ s ∈ c.scripts, s.2 = true) ∧
  (match c.phase with
    | .handler _ h => h.propagate = true
    | _ => True)

/-- outcome of a poll (or of a run) -/
def PollW (c c' : Conn) (fin : Prop) : Prop :=
  (Clean c.env.tr c'.env.tr ∧ AllProp c') ∨ (Failed c.env.tr c'.env.tr ∧ fin ∧ c'.phase = .finished)

theorem PollW.pre {c c1 c' : Conn} {fin : Prop} (h1 : Clean c.env.tr c1.env.tr) (h2 : PollW c1 c' fin) :
    PollW c c' fin := by
  rcases h2 with ⟨h, hp⟩ | ⟨⟨t1, t2, hc, hf, hs⟩, hfin⟩
  · exact Or.inl ⟨h1.trans h, hp⟩
  · exact Or.inr ⟨⟨t1, t2, h1.trans hc, hf, hs⟩, hfin⟩

def StepW (c : Conn) : Step → Prop
  | .next c1 => Clean c.env.tr c1.env.tr ∧ AllProp c1
  | .halt c1 res => PollW c c1 (res = .finished)

/-- a `WOut` whose error result finishes the task -/
theorem PollW.of_wout {c c' : Conn} {s : Bool} (h : WOut c.env.tr c'.env.tr s) (hp : AllProp c')
    (hph : c'.phase = .finished) : PollW c c' (PRes.finished = PRes.finished) := by
  rcases h with h | ⟨h, _⟩
  · exact Or.inl ⟨h, hp⟩
  · exact Or.inr ⟨h, rfl, hph⟩

theorem stepConn_w (c : Conn) (hp : AllProp c) : StepW c (stepConn c) := by
  obtain ⟨phase, env, scripts, stop⟩ := c
  obtain ⟨hsc, hph⟩ := hp
  simp only at hsc hph
  cases phase with
  | finished => exact Or.inl ⟨.refl _, hsc, trivial⟩
  | handler r h =>
    simp only [stepConn]
    cases hhp : handlerPoll (1000 + env.tr.input.length * 4 + (env.segs.map (·.2.length)).sum * 4 + r.sp.cap * 4 + scriptCost h) r h env with
    | mk r' x =>
      obtain ⟨h', e', res⟩ := x
      have hw := handlerPoll_wout _ _ _ _ hhp hph
      have hpr := handlerPoll_propagate _ _ _ _ hhp
      cases res with
      | pending => exact Or.inl ⟨hw.toClean, hsc, hpr.trans hph⟩
      | panic s => exact Or.inl ⟨hw.toClean, hsc, hph⟩
      | done res =>
        cases res with
        | ok st => exact ⟨hw.toClean.trans (.of_eq rfl rfl rfl), hsc, trivial⟩
        | error x =>
          simp only []
          split
          · rename_i hx
            have hc : Clean env.tr e'.tr := by
              have : hStop (HRes.done (Except.error x)) = false := errStop_false hx
              rw [this] at hw; exact hw.toClean
            exact ⟨hc.trans (.of_eq rfl rfl rfl), hsc, trivial⟩
          · exact PollW.of_wout (hw.post ⟨rfl, rfl, rfl⟩) ⟨hsc, trivial⟩ rfl
  | closing r cs status alive =>
    simp only [stepConn]
    cases hcp : closePoll r cs status alive env.mutex env.tr with
    | mk r' x =>
      obtain ⟨cs', m', t', res⟩ := x
      have hw := closePoll_wout hcp
      cases res with
      | pending => exact Or.inl ⟨hw.toClean, hsc, trivial⟩
      | panic s => exact Or.inl ⟨hw.toClean, hsc, trivial⟩
      | err e => exact PollW.of_wout hw ⟨hsc, trivial⟩ rfl
      | reuse rp => exact ⟨hw.toClean, hsc, trivial⟩
  | parseReq rp sub =>
    cases stop with
    | true => exact Or.inl ⟨.refl _, hsc, trivial⟩
    | false =>
      cases sub with
      | start =>
        simp only [stepConn, Bool.false_eq_true, if_false]
        cases hp : rp.parse [] with
        | mk rp' oy =>
          cases oy with
          | none => exact Or.inl ⟨.refl _, hsc, trivial⟩
          | some y => exact ⟨.refl _, hsc, trivial⟩
      | reading =>
        simp only [stepConn, Bool.false_eq_true, if_false]
        cases hrd : env.tr.read rp.free with
        | mk t pr =>
          have hc := read_clean hrd
          cases pr with
          | pending => exact Or.inl ⟨hc, hsc, trivial⟩
          | ready ex =>
            cases ex with
            | error e => exact Or.inl ⟨hc, hsc, trivial⟩
            | ok bs =>
              cases bs with
              | nil => exact Or.inl ⟨hc, hsc, trivial⟩
              | cons b bs =>
                simp only []
                cases hp : rp.parse (b :: bs) with
                | mk rp' oy =>
                  cases oy with
                  | none => exact Or.inl ⟨hc, hsc, trivial⟩
                  | some y => exact ⟨hc, hsc, trivial⟩
      | writing rest done =>
        simp only [stepConn, Bool.false_eq_true, if_false]
        cases hwl : writeAllLoop (rest.length + 1) rest env.tr with
        | mk rest' x =>
          obtain ⟨t, res⟩ := x
          have hw := writeAllLoop_wout _ _ _ hwl
          cases res with
          | pending => exact Or.inl ⟨hw.toClean, hsc, trivial⟩
          | err e => exact PollW.of_wout hw ⟨hsc, trivial⟩ rfl
          | panic s => exact Or.inl ⟨hw.toClean, hsc, trivial⟩
          | ready =>
            have hc : Clean env.tr t := hw.toClean
            simp only []
            cases done with
            | false => exact ⟨hc, hsc, trivial⟩
            | true =>
              simp only [Bool.not_true, Bool.false_eq_true, if_false]
              cases rp.intoStreamParser with
              | error e => exact Or.inl ⟨hc, hsc, trivial⟩
              | ok sp =>
                cases scripts with
                | nil => exact ⟨hc.trans (.of_eq rfl rfl rfl), nofun, rfl⟩
                | cons s ss =>
                  obtain ⟨o, p⟩ := s
                  exact ⟨hc.trans (.of_eq rfl rfl rfl), fun x hx => hsc x (List.mem_cons_of_mem _ hx),
                    hsc (o, p) (List.mem_cons_self ..)⟩

/-- **Every poll** of a connection whose handlers propagate errors is clean, or a transport write
failed, that was the last transport write call, and the task is over. -/
theorem pollConn_w : ∀ (fuel : Nat) (c : Conn), AllProp c →
    PollW c (pollConn fuel c).1 ((pollConn fuel c).2 = .finished)
  | 0, _, hp => Or.inl ⟨.refl _, hp⟩
  | fuel + 1, c, hp => by
    rw [pollConn_succ]
    have hs := stepConn_w c hp
    cases hst : stepConn c with
    | next c' => rw [hst] at hs; exact PollW.pre hs.1 (pollConn_w fuel c' hs.2)
    | halt c' r => rw [hst] at hs; exact hs

/-- `AllProp` is preserved by polls … -/
theorem pollConn_allProp (fuel : Nat) (c : Conn) (hp : AllProp c) : AllProp (pollConn fuel c).1 := by
  rcases pollConn_w fuel c hp with ⟨_, h⟩ | ⟨_, _, h⟩
  · exact h
  · have hsc : (pollConn fuel c).1.scripts = c.scripts.drop
        (hsCount ((pollConn fuel c).1.env.tr.events.drop c.env.tr.events.length)) := by
      obtain ⟨new, he, hs, _⟩ := (pollConn_cle fuel c).ev
      rw [hs, he]; simp
    refine ⟨fun s hs => hp.1 s ?_, by rw [h]; trivial⟩
    rw [hsc] at hs
    exact List.mem_of_mem_drop hs

section Main
variable {fuel : Nat} {c c' : Conn} {res : PRes}

/-- **C12, whole poll.**  If a transport write failed during a poll of a connection whose handlers
propagate I/O errors, the task is over — the poll returns `.finished` (not `.pending`, not a panic)
in phase `finished` — and the failing call was the last transport write/flush call of the poll. -/
theorem write_failure_is_final (hp : AllProp c) (h : pollConn fuel c = (c', res))
    (hf : WriteFailed c.env.tr c'.env.tr) :
    res = .finished ∧ c'.phase = .finished ∧ Failed c.env.tr c'.env.tr := by
  have hw := pollConn_w fuel c hp
  rw [h] at hw
  rcases hw with ⟨hc, _⟩ | ⟨hfl, hr, hph⟩
  · exact absurd hf hc.not_writeFailed
  · exact ⟨hr, hph, hfl⟩

/-- … in particular the write log after the poll is the log at the moment of the failing call: there
is a transport state `t1`, reached from the poll's initial one by non-failing calls only, on which the
failing call was made, and `c'.env.tr.wlog = t1.wlog`. -/
theorem write_failure_log (hp : AllProp c) (h : pollConn fuel c = (c', res))
    (hf : WriteFailed c.env.tr c'.env.tr) :
    ∃ t1 t2, Clean c.env.tr t1 ∧ FailCall t1 t2 ∧ WSame t2 c'.env.tr ∧ c'.env.tr.wlog = t1.wlog := by
  obtain ⟨t1, t2, hc, hfc, hs⟩ := (write_failure_is_final hp h hf).2.2
  exact ⟨t1, t2, hc, hfc, hs, hs.2.2.trans hfc.wlog⟩

/-- The log only grows during a poll (whatever the handlers do). -/
theorem poll_log_grows (h : pollConn fuel c = (c', res)) : ∃ d, c'.env.tr.wlog = c.env.tr.wlog ++ d := by
  have := (pollConn_cle fuel c).wl
  rwa [h] at this

end Main

/-- **`finished` is absorbing**: a poll of a finished task returns the state unchanged (so it
writes nothing, consumes no answer, logs no event). -/
theorem finished_absorbing (fuel : Nat) (c : Conn) (h : c.phase = .finished) :
    (pollConn fuel c).1 = c ∧ (fuel ≠ 0 → (pollConn fuel c).2 = .finished) := by
  cases fuel with
  | zero => exact ⟨rfl, fun h0 => absurd rfl h0⟩
  | succ n =>
    rw [pollConn_succ]
    obtain ⟨phase, env, scripts, stop⟩ := c
    simp only at h; subst h
    exact ⟨rfl, fun _ => rfl⟩

/-! ## 3. The whole run -/

theorem allProp_of_frame {c c' : Conn} (h1 : c'.phase = c.phase) (h2 : c'.scripts = c.scripts)
    (hp : AllProp c) : AllProp c' := by
  unfold AllProp at *; rw [h1, h2]; exact hp

/-- **Every run of the executor** (any fuel, any stop request) over a connection whose handlers
propagate errors is clean, or a transport write failed, that was the last transport write call of the
run, and the run ended there with "RET" in phase `finished`. -/
theorem runTask_w : ∀ (fuel : Nat) (c : Conn) (n : Nat) (sa : Option Nat), AllProp c →
    PollW c (runTask fuel c n sa).1 ((runTask fuel c n sa).2 = "RET")
  | 0, _, _, _, hp => Or.inl ⟨.refl _, hp⟩
  | fuel + 1, c, n, sa, hp => by
    rw [runTask_succ]
    have hc0 := prePoll_clean c n sa
    have hp0 : AllProp (prePoll c n sa) :=
      allProp_of_frame (prePoll_frame c n sa).1 (prePoll_frame c n sa).2 hp
    have hw := pollConn_w (connFuel (prePoll c n sa)) _ hp0
    generalize pollConn (connFuel (prePoll c n sa)) (prePoll c n sa) = x at hw ⊢
    obtain ⟨c1, res⟩ := x
    -- lift the poll's outcome to `c`
    have hw' : (Clean c.env.tr c1.env.tr ∧ AllProp c1) ∨
        (Failed c.env.tr c1.env.tr ∧ res = .finished ∧ c1.phase = .finished) := by
      rcases hw with ⟨h, hq⟩ | ⟨⟨t1, t2, h, hf, hs⟩, hr⟩
      · exact Or.inl ⟨hc0.trans h, hq⟩
      · exact Or.inr ⟨⟨t1, t2, hc0.trans h, hf, hs⟩, hr⟩
    cases res with
    | finished =>
      rcases hw' with h | ⟨hf, _, hph⟩
      · exact Or.inl h
      · exact Or.inr ⟨hf, rfl, hph⟩
    | panic s =>
      rcases hw' with h | ⟨_, hr, _⟩
      · exact Or.inl h
      · cases hr
    | pending =>
      rcases hw' with ⟨hc, hq⟩ | ⟨_, hr, _⟩
      · simp only []
        have key : ∀ (c2 : Conn) (n' : Nat), Clean c1.env.tr c2.env.tr → c2.phase = c1.phase →
            c2.scripts = c1.scripts →
            PollW c (runTask fuel c2 n' sa).1 ((runTask fuel c2 n' sa).2 = "RET") := fun c2 n' h1 h2 h3 =>
          PollW.pre (c1 := c2) (hc.trans h1) (runTask_w fuel c2 n' sa (allProp_of_frame h2 h3 hq))
        have hrel := release_clean c1.env
        split
        · exact key c1 _ (.refl _) rfl rfl
        · generalize c1.env.release = y at hrel ⊢
          obtain ⟨env, any⟩ := y
          simp only [] at hrel ⊢
          have hstall : PollW c { c1 with env := env } (("STALL" : String) = "RET") :=
            Or.inl ⟨hc.trans hrel, allProp_of_frame rfl rfl hq⟩
          split
          · exact key { c1 with env := env } _ hrel rfl rfl
          · split
            · split
              · exact key { c1 with env := env } _ hrel rfl rfl
              · exact hstall
            · exact hstall
      · cases hr

/-- **C12, whole run.**  If a transport write failed anywhere in a run of the executor, the run ended
at that poll with "RET" in phase `finished`, the failing call was the last transport write/flush call
of the whole run, and the final write log is the log at the (first and only) failed write. -/
theorem runTask_write_failure {fuel : Nat} {c c' : Conn} {n : Nat} {sa : Option Nat} {fin : String}
    (hp : AllProp c) (h : runTask fuel c n sa = (c', fin)) (hf : WriteFailed c.env.tr c'.env.tr) :
    fin = "RET" ∧ c'.phase = .finished ∧
    ∃ t1 t2, Clean c.env.tr t1 ∧ FailCall t1 t2 ∧ WSame t2 c'.env.tr ∧ c'.env.tr.wlog = t1.wlog := by
  have hw := runTask_w fuel c n sa hp
  rw [h] at hw
  rcases hw with ⟨hc, _⟩ | ⟨⟨t1, t2, hc, hfc, hs⟩, hr, hph⟩
  · exact absurd hf hc.not_writeFailed
  · exact ⟨hr, hph, t1, t2, hc, hfc, hs, hs.2.2.trans hfc.wlog⟩

/-! ## 4. Well-formedness of what was written (left open) -/

/-- "Everything written is a prefix of a well-formed record sequence", for runs of the executor from
the initial connection state with propagating handlers.  Stated, **not proved and not refuted** here
(see the file header); the differential oracle checks it on the real code. -/
def prefix_wellformed_full : Prop :=
  ∀ (fuel b mc : Nat) (env : Env) (scripts : List (List HOp × Bool)) (n : Nat) (sa : Option Nat),
    env.tr.wlog = [] → env.mutex = none → (∀ s ∈ scripts, s.2 = true) →
    ∃ (rs : List Spec.Rec) (rest : Bytes), (∀ r ∈ rs, r.WF) ∧
      (runTask fuel { phase := .parseReq (Req.Parser.new b mc) .start, env, scripts } n sa).1.env.tr.wlog ++ rest
        = Spec.serAll rs

/-! ## 5. Handlers that ignore errors are not covered -/

/-- `write_failure_is_final` without the hypothesis that the handlers propagate I/O errors. -/
def write_failure_is_final_full : Prop :=
  ∀ (fuel : Nat) (c c' : Conn) (res : PRes), pollConn fuel c = (c', res) →
    WriteFailed c.env.tr c'.env.tr →
    res = .finished ∧ c'.phase = .finished ∧ Failed c.env.tr c'.env.tr

section Examples

def exReq0 : Request := { id := 1, role := 1, flags := 0, env := [] }
/-- the transport fails the first write; `ak`: its errors carry kind `ConnectionAborted` -/
def trE (ak : Bool) : Transport :=
  { input := [], endMode := .eof, rd := [], wr := [.err], fl := [], abortKind := ak }

/-- the handler ignores the failed write of its `StreamWriter`, drops the writer and returns: `close`
then writes the 32-byte epilogue — *after* the failed write -/
def exIgn : Conn :=
  { phase := .handler (AReq.new (Str.Parser.fromParser 64 exReq0 [] 1))
      { ops := [.open_ 6, .writeAll 0 [1], .dropW 0, .ret (.complete 0)], propagate := false },
    env := { tr := trE false }, scripts := [] }

/-- the poll returned `.finished` in phase `finished` -/
def finishedBoth (x : Conn × PRes) : Bool :=
  (match x.2 with | .finished => true | _ => false) && (match x.1.phase with | .finished => true | _ => false)

theorem exIgn_facts : (pollConn 20 exIgn).1.env.tr.wr = [] ∧ (pollConn 20 exIgn).1.env.tr.wlog.length = 32 ∧
    (pollConn 20 exIgn).1.env.tr.events = ["o=w0", "V8+1+7:E", "W!twrite", "HE(ok:complete:0)", "W32:32"] ∧
    finishedBoth (pollConn 20 exIgn) = true := by
  decide +kernel

/-- The witness: the write failed (`V8+1+7:E`), the task even finishes — but 32 bytes were written
after the failure (`W32:32`), so the failing call was not the last one: `Failed` does not hold. -/
theorem write_failure_is_final_full_false : ¬ write_failure_is_final_full := by
  intro hfull
  obtain ⟨hwr, hlen, _, _⟩ := exIgn_facts
  have hf : WriteFailed exIgn.env.tr (pollConn 20 exIgn).1.env.tr :=
    Or.inl ⟨[.err], by rw [hwr]; rfl, .err, List.mem_singleton.2 rfl, rfl⟩
  obtain ⟨_, _, t1, t2, hc, hfc, hs⟩ :=
    hfull 20 exIgn (pollConn 20 exIgn).1 (pollConn 20 exIgn).2 rfl hf
  have h2wr : t2.wr = [] := by rw [← hs.1, hwr]
  have h2log : (pollConn 20 exIgn).1.env.tr.wlog = t1.wlog := hs.2.2.trans hfc.wlog
  have hlen1 := hfc.wr_len
  rw [h2wr] at hlen1
  obtain ⟨hm1, hm2⟩ := hc.meas
  have hcwr : exIgn.env.tr.wr = [.err] := rfl
  rw [hcwr] at hm1 hm2
  rcases Nat.lt_or_ge t1.wr.length 1 with hlt | hge
  · -- the clean prefix would have consumed the `.err`
    have h0 : t1.wr = [] := List.length_eq_zero_iff.1 (by omega)
    obtain ⟨cw, cf, d, hw, _, _, hb, _⟩ := hc.answers
    rw [hcwr, h0, List.append_nil] at hw
    have := hb .err (by rw [← hw]; exact List.mem_singleton.2 rfl)
    cases this
  · -- nothing was consumed before the failing call, so nothing was written before it
    have he : t1.wr.length = ([WrAns.err] : List WrAns).length := Nat.le_antisymm hm1 hge
    have hl := hm2 he (by simp)
    rw [hl] at h2log
    rw [h2log] at hlen
    cases hlen

/-- The other way a handler that ignores errors escapes the statement: it waits for the lock the
failed writer kept — the poll is `Pending` after a failed write. -/
def exLock : Conn :=
  { phase := .handler (AReq.new (Str.Parser.fromParser 64 exReq0 [] 1))
      { ops := [.open_ 6, .open_ 6, .writeAll 0 [1], .writeAll 1 [2]], propagate := false },
    env := { tr := trE false }, scripts := [] }

example : (pollConn 20 exLock).1.env.tr.wr = [] ∧
    (match (pollConn 20 exLock).2 with | .pending => true | _ => false) = true := by decide +kernel

/-! ### Non-vacuity: the first write fails, in each place a write can happen -/

/-- run verdict "RET", phase `finished`, the failing answer consumed, nothing written -/
def finishedEmpty (x : Conn × String) : Bool :=
  x.2 == "RET" && x.1.env.tr.wlog.isEmpty && x.1.env.tr.wr.isEmpty &&
    (match x.1.phase with | .finished => true | _ => false)

theorem finishedEmpty_spec {x : Conn × String} (h : finishedEmpty x = true) :
    x.2 = "RET" ∧ x.1.env.tr.wlog = [] ∧ x.1.env.tr.wr = [] ∧ x.1.phase = .finished := by
  simp only [finishedEmpty, Bool.and_eq_true, beq_iff_eq, List.isEmpty_iff] at h
  obtain ⟨⟨⟨h1, h2⟩, h3⟩, h4⟩ := h
  refine ⟨h1, h2, h3, ?_⟩
  cases hph : x.1.phase <;> rw [hph] at h4 <;> first | rfl | cases h4

/-- the theorem applied to a run that consumed the `.err` of `trE` -/
theorem run_example {c : Conn} (hp : AllProp c) (htr : c.env.tr.wr = [.err])
    (h : finishedEmpty (runTask 3 c 0 none) = true) :
    WriteFailed c.env.tr (runTask 3 c 0 none).1.env.tr ∧ (runTask 3 c 0 none).2 = "RET" ∧
      (runTask 3 c 0 none).1.phase = .finished ∧ (runTask 3 c 0 none).1.env.tr.wlog = [] := by
  obtain ⟨h1, h2, h3, h4⟩ := finishedEmpty_spec h
  have hf : WriteFailed c.env.tr (runTask 3 c 0 none).1.env.tr :=
    Or.inl ⟨[.err], by rw [h3, htr]; rfl, .err, List.mem_singleton.2 rfl, rfl⟩
  obtain ⟨hr, hph, _⟩ := runTask_write_failure (fin := (runTask 3 c 0 none).2) hp rfl hf
  exact ⟨hf, hr, hph, h2⟩

/-- (a) `parse_request`: an unknown-type record arrives, the `write_all` of its reply fails. -/
def unk : Bytes := [1, 99, 0, 0, 0, 0, 0, 0]

theorem run_unk : run .header unk 1 = { rem := [], st := .header, out := UnknownType.toRecord 99 0 } := by
  rw [run]; decide

theorem parse_unk : (Req.Parser.new 0 1).parse unk =
    (Req.Parser.new 0 1, some { done := false, output := UnknownType.toRecord 99 0 }) := by
  unfold Req.Parser.parse
  simp only [Req.Parser.new, List.nil_append, run_unk]
  decide

theorem reading_step (f : Nat) (c : Conn) (rp rp' : Req.Parser) (t : Transport) (b : UInt8) (bs : Bytes)
    (y : Yield) (hph : c.phase = .parseReq rp .reading) (hs : c.stop = false)
    (hr : c.env.tr.read rp.free = (t, .ready (.ok (b :: bs)))) (hp : rp.parse (b :: bs) = (rp', some y)) :
    pollConn (f + 1) c =
      pollConn f { c with phase := .parseReq rp' (.writing y.output y.done), env := { c.env with tr := t } } := by
  rw [pollConn]
  simp [hph, hs, hr, hp]

def exRd : Conn :=
  { phase := .parseReq (Req.Parser.new 0 1) .reading,
    env := { tr := { trE false with input := unk } }, scripts := [([.ret (.complete 0)], true)] }

theorem exRd_run : finishedEmpty (runTask 3 exRd 0 none) = true := by
  have hK : connFuel (prePoll exRd 0 none) = (connFuel (prePoll exRd 0 none) - 1) + 1 := by
    unfold connFuel; omega
  rw [runTask_succ, hK,
    reading_step (connFuel (prePoll exRd 0 none) - 1) (prePoll exRd 0 none) (Req.Parser.new 0 1) _ _ 1 [99, 0, 0, 0, 0, 0, 0] _ rfl rfl rfl
      parse_unk]
  decide +kernel

theorem exRd_prop : AllProp exRd := ⟨by decide, trivial⟩

example : WriteFailed exRd.env.tr (runTask 3 exRd 0 none).1.env.tr ∧ (runTask 3 exRd 0 none).2 = "RET" ∧
    (runTask 3 exRd 0 none).1.phase = .finished ∧ (runTask 3 exRd 0 none).1.env.tr.wlog = [] :=
  run_example exRd_prop rfl exRd_run

/-- (b) a `StreamWriter` write in a propagating handler fails (`ak = false`: the transport's own error
kind; `ak = true`: kind `ConnectionAborted` — the run behind the defect repaired in /repo `ab583ba`:
the library used to take that kind for "the client aborted" and wrote the epilogue after the failed
write). -/
def exHW (ak : Bool) : Conn :=
  { phase := .handler (AReq.new (Str.Parser.fromParser 64 exReq0 [] 1))
      { ops := [.open_ 6, .writeAll 0 [1], .ret (.complete 0)], propagate := true },
    env := { tr := trE ak }, scripts := [] }

theorem exHW_run : finishedEmpty (runTask 3 (exHW false) 0 none) = true ∧
    finishedEmpty (runTask 3 (exHW true) 0 none) = true := by decide +kernel

theorem exHW_prop (ak : Bool) : AllProp (exHW ak) := ⟨nofun, rfl⟩

example : WriteFailed (exHW false).env.tr (runTask 3 (exHW false) 0 none).1.env.tr ∧
    (runTask 3 (exHW false) 0 none).2 = "RET" ∧ (runTask 3 (exHW false) 0 none).1.phase = .finished ∧
    (runTask 3 (exHW false) 0 none).1.env.tr.wlog = [] :=
  run_example (exHW_prop false) rfl exHW_run.1

/-- the transport's error has kind `ConnectionAborted`: same outcome, in particular no epilogue -/
example : WriteFailed (exHW true).env.tr (runTask 3 (exHW true) 0 none).1.env.tr ∧
    (runTask 3 (exHW true) 0 none).2 = "RET" ∧ (runTask 3 (exHW true) 0 none).1.phase = .finished ∧
    (runTask 3 (exHW true) 0 none).1.env.tr.wlog = [] :=
  run_example (exHW_prop true) rfl exHW_run.2

example : (runTask 3 (exHW true) 0 none).1.env.tr.events =
    ["|0", "o=w0", "V8+1+7:E", "W!aborted", "HE(err:aborted)"] := by decide +kernel

/-- (c) the handler returns; the `write_all` of the epilogue in `close` fails. -/
def exCl : Conn :=
  { phase := .handler (AReq.new (Str.Parser.fromParser 64 exReq0 [] 1))
      { ops := [.ret (.complete 0)], propagate := true },
    env := { tr := trE false }, scripts := [] }

theorem exCl_run : finishedEmpty (runTask 3 exCl 0 none) = true := by decide +kernel

example : WriteFailed exCl.env.tr (runTask 3 exCl 0 none).1.env.tr ∧ (runTask 3 exCl 0 none).2 = "RET" ∧
    (runTask 3 exCl 0 none).1.phase = .finished ∧ (runTask 3 exCl 0 none).1.env.tr.wlog = [] :=
  run_example ⟨nofun, rfl⟩ rfl exCl_run

/-- (d) something is written before the failure: the transport takes 5 bytes of the epilogue, then
fails; the final log is those 5 bytes — the log at the failed write. -/
def exCl5 : Conn := { exCl with env := { tr := { trE false with wr := [.n 5, .err] } } }

example : ∃ c', runTask 3 exCl5 0 none = (c', "RET") ∧ c'.phase = .finished ∧ c'.env.tr.wlog.length = 5 ∧
    ∃ t1 t2, Clean exCl5.env.tr t1 ∧ FailCall t1 t2 ∧ WSame t2 c'.env.tr ∧ c'.env.tr.wlog = t1.wlog := by
  have hwr : (runTask 3 exCl5 0 none).1.env.tr.wr = [] ∧ (runTask 3 exCl5 0 none).1.env.tr.wlog.length = 5 := by
    decide +kernel
  have hf : WriteFailed exCl5.env.tr (runTask 3 exCl5 0 none).1.env.tr :=
    Or.inl ⟨[.n 5, .err], by rw [hwr.1]; rfl, .err, by simp, rfl⟩
  obtain ⟨hr, hph, hx⟩ :=
    runTask_write_failure (c := exCl5) (fin := (runTask 3 exCl5 0 none).2) ⟨nofun, rfl⟩ rfl hf
  exact ⟨_, by rw [← hr], hph, hwr.2, hx⟩

/-- a finished task polled again: nothing happens -/
example : (pollConn 5 (runTask 3 exCl 0 none).1).1 = (runTask 3 exCl 0 none).1 :=
  (finished_absorbing 5 _ (finishedEmpty_spec exCl_run).2.2.2).1

end Examples

end Fcgi.C12Inv
