import Fcgi.Proofs.E2ENoFuel
import Fcgi.Props.C07Unbounded

/-!
# C07 end to end without ANY model-fuel hypothesis

The model's handler fuel pays for what is left of the handler script (`Model/RunLoop.lean`, `Props/C07ScriptFuel.lean`).
So the last artefact among the hypotheses of the core end-to-end theorems, `hhf : wcost |data| + c ≤ 1000` (a bound on the
length of the handler's OUTPUT, ≈ 64 MB), can go.  Each theorem `X_nofuel` below is stated exactly like
`X_unbounded` of `Props/C07Unbounded.lean` minus `hhf`; `Sent.OKn` is `Sent.OKu` without its cost field.  Proofs: the
registered ones, over the engine `Proofs/E2ENoFuel.lean` (`Cfg.OKn`, `run_from_stageN'`, `chain_runN'`), in which the bound
`hfu` of `Cfg.Shape` is replaced by `wcost |data| ≤ scriptOf c` at the three places where the handler is polled.

What is left: the property-given preconditions (compliant client, buffer bound, benign transport) and the executor's
poll budget `hfuel`.
-/
namespace Fcgi.C07E
open Fcgi Fcgi.Req Fcgi.Str Fcgi.Async Fcgi.Run Fcgi.Spec Fcgi.E2E

/-- `run_cfg'` without the model-fuel bound. -/
theorem run_cfgN' {g : E2E.Cfg} (ok : g.OKn) {t : Transport} {fuel : Nat} (hW : t.input = g.W) (hL : g.L0 = t.wlog)
    (hh : g.hs0 = 0) (hben : Ben t) (hev : hsCount t.events = 0) (hfuel : t.rd.length + t.wr.length + 1 ≤ fuel) :
    ∃ c' fin O₁ O₂, runTask fuel (connS g.b g.mc t ((g.hscript, true) :: g.more)) 0 none = (c', fin) ∧
      O₁ ++ O₂ = g.Ot ∧ c'.scripts = g.more ∧ (∀ s ∈ g.revs, s ∈ c'.env.tr.events) ∧
      OutcomeG g.p [] g.b g.mc t.wlog (expectedLogN g.p g.recs g.mc g.data g.st O₁ O₂) t c' fin := by
  have hstage : Stage g (connS g.b g.mc t ((g.hscript, true) :: g.more)) :=
    .start (raw := []) rfl (by show [] ++ t.input = g.W; rw [hW]; rfl) (Nat.zero_le _) hL.symm hben rfl rfl rfl
      (hev.trans hh.symm)
  obtain ⟨c', ⟨hem, _, _, _⟩, O1, O2, hO, hres⟩ :=
    run_from_stageN' ok (ans t) (connS g.b g.mc t ((g.hscript, true) :: g.more)) 0 fuel hstage rfl
      (Nat.le_refl _) (by unfold ans; omega)
  have hlog : g.L3 O1 O2 = t.wlog ++ expectedLogN g.p g.recs g.mc g.data g.st O1 O2 := by rw [L3_eq, hL]
  have hem' : c'.env.tr.endMode = t.endMode := hem
  rcases hres with ⟨hrun, hfin⟩ | ⟨hrun, hpk⟩
  · have hev1 : hsCount c'.env.tr.events = 1 ∧ startEvent g.p.request ∈ c'.env.tr.events := by
      have := hfin.ev; rw [Ev1, hh] at this; exact this
    refine ⟨c', "RET", O1, O2, hrun, hO, hfin.sc, hfin.re,
      ⟨hev1, fun d hd => (by cases hd), hfin.log.trans hlog, ?_⟩⟩
    rcases hfin.why with hk | ⟨hk, he⟩
    · exact Or.inl ⟨hk, rfl, hfin.ph⟩
    · exact Or.inr (Or.inl ⟨hk, hem'.symm.trans he, rfl, hfin.ph⟩)
  · have hev1 : hsCount c'.env.tr.events = 1 ∧ startEvent g.p.request ∈ c'.env.tr.events := by
      have := hpk.ev; rw [Ev1, hh] at this; exact this
    exact ⟨c', "STALL", O1, O2, hrun, hO, hpk.sc, hpk.re,
      ⟨hev1, fun d hd => (by cases hd), hpk.log.trans hlog,
      Or.inr (Or.inr ⟨hpk.keep, hem'.symm.trans hpk.em, rfl, hpk.ph, hpk.inp⟩)⟩⟩

/-- **`single_request_e2e_unbounded` without `hhf`**: no bound on the handler's output either. -/
theorem single_request_e2e_nofuel {p : Preamble} {recs : List Rec} {content : Bytes} {srecs : List Rec}
    {b mc : Nat} {data : Bytes} {st : ExitStatus} {t : Transport} {fuel : Nat}
    (hwf : WellFormedPreamble p recs) (hrole : p.role = 1)
    (hpairs : ∀ q ∈ p.pairs, (NV.enc q).length ≤ alignedBufsize b)
    (hnoise : NoiseFits (alignedBufsize b) recs)
    (hs : StreamRecs p.id 5 content srecs) (hsn : NoiseFits (alignedBufsize b) srecs)
    (hin : t.input = serAll recs ++ serAll srecs) (hben : Ben t) (hev : hsCount t.events = 0)
    (hfuel : t.rd.length + t.wr.length + 1 ≤ fuel) :
    ∃ c' fin O₁ O₂, runTask fuel (conn0 b mc t data st) 0 none = (c', fin) ∧
      O₁ ++ O₂ = owedStream p.id 5 mc srecs ∧
      OutcomeN p content b mc t.wlog (expectedLogN p recs mc data st O₁ O₂) t c' fin := by
  obtain ⟨body, pad, res, hpad, hbody, hsrecs⟩ := StreamRecs.split hs
  have hsb : NoiseFits (alignedBufsize b) body := fun r hr => hsn r (by rw [hsrecs]; simp [hr])
  have ok : (cfgR p recs content body pad res b mc data st t.wlog 0 []).OKn :=
    ⟨hwf, hpairs, hnoise, .responderU hrole hbody hsb hpad rfl rfl rfl rfl rfl rfl⟩
  have hW : t.input = (cfgR p recs content body pad res b mc data st t.wlog 0 []).W := by
    rw [hin, hsrecs, C02.serAll_append, C02.serAll_single]
    rfl
  have hOt : owedStream p.id 5 mc srecs = owedStream p.id 5 mc body := by
    rw [hsrecs, owedStream_append, owedStream_term p.id 5 mc _ rfl, List.append_nil]
  obtain ⟨c', fin, O1, O2, hrun, hO, _, hre, ho⟩ := run_cfgN' ok hW rfl rfl hben hev hfuel
  exact ⟨c', fin, O1, O2, hrun, hO.trans hOt.symm,
    (ho.with_reads [content] (fun d hd => by rw [List.mem_singleton.1 hd]; exact hre _ (by simp [cfgR]))).responder⟩

/-- **`single_request_e2e_authorizer_unbounded` without `hhf`**: no bound on the handler's output either. -/
theorem single_request_e2e_authorizer_nofuel {p : Preamble} {recs : List Rec}
    {b mc : Nat} {data : Bytes} {st : ExitStatus} {t : Transport} {fuel : Nat}
    (hwf : WellFormedPreamble p recs) (hrole : p.role = 2)
    (hpairs : ∀ q ∈ p.pairs, (NV.enc q).length ≤ alignedBufsize b)
    (hnoise : NoiseFits (alignedBufsize b) recs)
    (hin : t.input = serAll recs) (hben : Ben t) (hev : hsCount t.events = 0)
    (hfuel : t.rd.length + t.wr.length + 1 ≤ fuel) :
    ∃ c' fin, runTask fuel (connS b mc t [(canonicalA data st, true)]) 0 none = (c', fin) ∧
      OutcomeG p [] b mc t.wlog (expectedLog p recs mc data st) t c' fin := by
  have ok : (cfgA p recs b mc data st t.wlog 0 []).OKn :=
    ⟨hwf, hpairs, hnoise, .authorizer hrole rfl rfl rfl rfl rfl⟩
  have hW : t.input = (cfgA p recs b mc data st t.wlog 0 []).W := by
    rw [hin]; exact (List.append_nil _).symm
  obtain ⟨c', fin, O1, O2, hrun, hO, _, hre, ho⟩ := run_cfgN' ok hW rfl rfl hben hev hfuel
  obtain ⟨h1, h2⟩ := List.append_eq_nil_iff.1 (show O1 ++ O2 = [] from hO)
  subst h1 h2
  exact ⟨c', fin, hrun, by rw [← expectedLogN_nil]; exact ho⟩

/-- **`single_request_e2e_filter_unbounded` without `hhf`**: no bound on the handler's output either. -/
theorem single_request_e2e_filter_nofuel {p : Preamble} {recs : List Rec} {content : Bytes} {srecs : List Rec}
    {content2 : Bytes} {drecs : List Rec}
    {b mc : Nat} {data : Bytes} {st : ExitStatus} {t : Transport} {fuel : Nat}
    (hwf : WellFormedPreamble p recs) (hrole : p.role = 3)
    (hpairs : ∀ q ∈ p.pairs, (NV.enc q).length ≤ alignedBufsize b)
    (hnoise : NoiseFits (alignedBufsize b) recs)
    (hs : StreamRecs p.id 5 content srecs) (hsn : NoiseFits (alignedBufsize b) srecs)
    (hd : StreamRecs p.id 8 content2 drecs) (hdn : NoiseFits (alignedBufsize b) drecs)
    (hin : t.input = serAll recs ++ (serAll srecs ++ serAll drecs)) (hben : Ben t) (hev : hsCount t.events = 0)
    (hfuel : t.rd.length + t.wr.length + 1 ≤ fuel) :
    ∃ c' fin O₁ O₂, runTask fuel (connS b mc t [(canonicalF data st, true)]) 0 none = (c', fin) ∧
      O₁ ++ O₂ = owedStream p.id 5 mc srecs ++ owedStream p.id 8 mc drecs ∧
      OutcomeG p [content, content2] b mc t.wlog (expectedLogN p recs mc data st O₁ O₂) t c' fin := by
  obtain ⟨body, pad, res, hpad, hbody, hsrecs⟩ := StreamRecs.split hs
  obtain ⟨body2, pad2, res2, hpad2, hbody2, hdrecs⟩ := StreamRecs.split hd
  have hsb : NoiseFits (alignedBufsize b) body := fun r hr => hsn r (by rw [hsrecs]; simp [hr])
  have hdb : NoiseFits (alignedBufsize b) body2 := fun r hr => hdn r (by rw [hdrecs]; simp [hr])
  have ok : (cfgF p recs content body pad res content2 body2 pad2 res2 b mc data st t.wlog 0 []).OKn :=
    ⟨hwf, hpairs, hnoise, .filterU hrole hbody hbody2 hsb hdb hpad hpad2 rfl rfl rfl rfl rfl rfl⟩
  have hW : t.input = (cfgF p recs content body pad res content2 body2 pad2 res2 b mc data st t.wlog 0 []).W := by
    rw [hin, hsrecs, hdrecs, C02.serAll_append, C02.serAll_single, C02.serAll_append, C02.serAll_single,
      List.append_assoc]
    rfl
  have hOt : owedStream p.id 5 mc srecs ++ owedStream p.id 8 mc drecs =
      owedStream p.id 5 mc body ++ owedStream p.id 8 mc body2 := by
    rw [hsrecs, hdrecs, owedStream_append, owedStream_append, owedStream_term p.id 5 mc _ rfl,
      owedStream_term p.id 8 mc _ rfl, List.append_nil, List.append_nil]
  obtain ⟨c', fin, O1, O2, hrun, hO, _, hre, ho⟩ := run_cfgN' ok hW rfl rfl hben hev hfuel
  refine ⟨c', fin, O1, O2, hrun, hO.trans hOt.symm, ho.with_reads _ (fun d hd => ?_)⟩
  rcases List.mem_cons.1 hd with rfl | hd
  · exact hre _ (by simp [cfgF])
  · rw [List.mem_singleton.1 hd]; exact hre _ (by simp [cfgF])

/-- `Sent.OKu` without its cost field (`wcost |data| + c ≤ 1000`). -/
def Sent.OKn (b : Nat) (q : Sent) : Prop :=
  WellFormedPreamble q.p q.recs ∧ (∀ x ∈ q.p.pairs, (NV.enc x).length ≤ alignedBufsize b) ∧
  NoiseFits (alignedBufsize b) q.recs ∧ NoiseFits (alignedBufsize b) q.srecs ∧
  NoiseFits (alignedBufsize b) q.drecs ∧
  match q with
  | .responder p _ content body pad res _ _ =>
    p.role = 1 ∧ StreamRecs p.id 5 content (body ++ [trec 5 p.id pad res])
  | .authorizer p _ _ _ => p.role = 2
  | .filter p _ content body pad res content2 body2 pad2 res2 _ _ =>
    p.role = 3 ∧ StreamRecs p.id 5 content (body ++ [trec 5 p.id pad res]) ∧
      StreamRecs p.id 8 content2 (body2 ++ [trec 8 p.id pad2 res2])

/-- what `Sent.OKu` asks in addition: the model-fuel bound on the handler's output -/
theorem Sent.OKu.toN {b : Nat} {q : Sent} (h : q.OKu b) : q.OKn b := by
  obtain ⟨h1, h2, h3, h4, h5, h6⟩ := h
  refine ⟨h1, h2, h3, h4, h5, ?_⟩
  cases q with
  | responder => exact ⟨h6.1, h6.2.1⟩
  | authorizer => exact h6.1
  | filter => exact ⟨h6.1, h6.2.1, h6.2.2.1⟩

/-- `cfg_ok_u` for `Sent.OKn`. -/
theorem cfg_ok_n {b mc : Nat} {q : Sent} (ok : q.OKn b) (L0 : Bytes) (h : Nat)
    (more : List (List HOp × Bool)) : (q.cfg b mc L0 h more).OKn := by
  obtain ⟨hwf, hpairs, hnoise, hsn, hdn, hrole⟩ := ok
  cases q with
  | responder p recs content body pad res data st =>
    obtain ⟨hr, hs⟩ := hrole
    obtain ⟨hb, hp⟩ := body_of_stream (s := 5) hs
    exact ⟨hwf, hpairs, hnoise, .responderU hr hb (fun r hr => hsn r (List.mem_append_left _ hr)) hp rfl rfl rfl rfl
      rfl rfl⟩
  | authorizer p recs data st =>
    exact ⟨hwf, hpairs, hnoise, .authorizer hrole rfl rfl rfl rfl rfl⟩
  | filter p recs content body pad res content2 body2 pad2 res2 data st =>
    obtain ⟨hr, hs, hd⟩ := hrole
    obtain ⟨hb, hp⟩ := body_of_stream (s := 5) hs
    obtain ⟨hb2, hp2⟩ := body_of_stream (s := 8) hd
    exact ⟨hwf, hpairs, hnoise, .filterU hr hb hb2 (fun r hr => hsn r (List.mem_append_left _ hr))
      (fun r hr => hdn r (List.mem_append_left _ hr)) hp hp2 rfl rfl rfl rfl rfl rfl⟩

/-- `cfgs_ok_u` for `Sent.OKn`. -/
theorem cfgs_ok_n {b mc : Nat} : ∀ (qs : List Sent) (h : Nat), (∀ q ∈ qs, q.OKn b) →
    ∀ g ∈ cfgs b mc h qs, g.OKn
  | [], _, _ => fun g hg => by simp [cfgs] at hg
  | q :: qs, h, hok => by
    intro g hg
    simp only [cfgs, List.mem_cons] at hg
    rcases hg with rfl | hg
    · exact cfg_ok_n (hok q List.mem_cons_self) _ _ _
    · exact cfgs_ok_n qs _ (fun q' hq' => hok q' (List.mem_cons_of_mem _ hq')) g hg

/-- **`k_requests_e2e_unbounded` without the cost fields** (`Sent.OKn`): `k` keep-alive requests of mixed roles, outputs of any length. -/
theorem k_requests_e2e_nofuel {b mc : Nat} (q : Sent) (qs : List Sent) {t : Transport} {fuel : Nat}
    (hok : ∀ q' ∈ q :: qs, q'.OKn b)
    (hkeep : ∀ q' ∈ (q :: qs).dropLast, q'.p.flags.toNat % 2 = 1)
    (hin : t.input = q.wire) (hben : Ben t) (hem : t.endMode = .pend) (hev : hsCount t.events = 0)
    (hfuel : t.rd.length + t.wr.length + 1 ≤ fuel) :
    ∃ c' fin A, closedLoop fuel (qs.map Sent.wire) (connK b mc t (q :: qs)) 0 = (c', fin) ∧
      AnswerAll mc (q :: qs) A ∧ c'.env.tr.wlog = t.wlog ++ A ∧
      hsCount c'.env.tr.events = (q :: qs).length ∧
      (∀ q' ∈ q :: qs, startEvent q'.p.request ∈ c'.env.tr.events ∧
        ∀ d ∈ q'.reads, readEvent d ∈ c'.env.tr.events) ∧
      c'.scripts = [] ∧
      ((((q :: qs).getLast (by simp)).p.flags.toNat % 2 = 1 ∧ fin = "STALL" ∧
          c'.phase = .parseReq ⟨alignedBufsize b, [], .header, mc⟩ .reading ∧ c'.env.tr.input = []) ∨
       (((q :: qs).getLast (by simp)).p.flags.toNat % 2 = 0 ∧ fin = "RET" ∧ c'.phase = .finished)) := by
  have okq := hok q List.mem_cons_self
  have hstage : Stage (q.cfg b mc t.wlog 0 (qs.map Sent.handler)) (connK b mc t (q :: qs)) :=
    .start (raw := [])
      (by show Phase.parseReq (Req.Parser.new b mc) .start =
            .parseReq ⟨alignedBufsize (q.cfg b mc t.wlog 0 (qs.map Sent.handler)).b, [], .header,
              (q.cfg b mc t.wlog 0 (qs.map Sent.handler)).mc⟩ .start
          rw [cfg_b, cfg_mc]; rfl)
      (by show [] ++ t.input = _; rw [cfg_W, hin]; rfl) (Nat.zero_le _) (cfg_L0 ..).symm hben rfl
      (by rw [cfg_more, cfg_hscript]; rfl) rfl (by rw [cfg_hs0]; exact hev)
  obtain ⟨c', fin, hrun, _, hem', hlog, hend, hall⟩ := chain_runN'
    (cfgs b mc (0 + 1) qs)
    (q.cfg b mc t.wlog 0 (qs.map Sent.handler)) (connK b mc t (q :: qs)) 0 fuel hstage rfl hem
    (by show ans t + 1 ≤ fuel; unfold ans; omega)
    (cfg_ok_n okq _ _ _)
    (cfgs_ok_n qs _ (fun q' hq' => hok q' (List.mem_cons_of_mem _ hq')))
    (chain_cfgs qs q _ _ hkeep)
  rw [cfgs_W] at hrun
  rw [cfg_L0] at hlog
  obtain ⟨A, hA, hLA⟩ := logChain_answers qs q t.wlog t.wlog c'.env.tr.wlog 0 hlog
  obtain ⟨L', hgl⟩ := lastP_cfgs (b := b) (mc := mc) qs q t.wlog 0
  rw [hgl] at hend
  have hallq : ∀ q' ∈ q :: qs, startEvent q'.p.request ∈ c'.env.tr.events ∧
      ∀ d ∈ q'.reads, readEvent d ∈ c'.env.tr.events := by
    have key : ∀ (qs : List Sent) (h : Nat) (q' : Sent), q' ∈ qs →
        ∃ g ∈ cfgs b mc h qs, g.p = q'.p ∧ g.revs = q'.reads.map rEvent := by
      intro qs
      induction qs with
      | nil => intro _ _ h; cases h
      | cons a as ih =>
        intro h q' hq'
        rcases List.mem_cons.1 hq' with rfl | hq'
        · exact ⟨_, by simp only [cfgs]; exact List.mem_cons_self, cfg_p .., cfg_revs ..⟩
        · obtain ⟨g, hg, h1, h2⟩ := ih (h + 1) q' hq'
          exact ⟨g, by simp only [cfgs]; exact List.mem_cons_of_mem _ hg, h1, h2⟩
    have conv : ∀ (g : E2E.Cfg) (q' : Sent), g.p = q'.p → g.revs = q'.reads.map rEvent →
        (hsEvent g.p.request ∈ c'.env.tr.events ∧ ∀ s ∈ g.revs, s ∈ c'.env.tr.events) →
        startEvent q'.p.request ∈ c'.env.tr.events ∧ ∀ d ∈ q'.reads, readEvent d ∈ c'.env.tr.events := by
      intro g q' h1 h2 ⟨a, b⟩
      rw [h1] at a
      exact ⟨a, fun d hd => b _ (by rw [h2]; exact List.mem_map_of_mem hd)⟩
    intro q' hq'
    rcases List.mem_cons.1 hq' with h | hq'
    · rw [h]
      exact conv _ q (cfg_p ..) (cfg_revs ..) (hall (q.cfg b mc t.wlog 0 (qs.map Sent.handler)) List.mem_cons_self)
    · obtain ⟨g, hg, h1, h2⟩ := key qs (0 + 1) q' hq'
      exact conv g q' h1 h2 (hall g (List.mem_cons_of_mem _ hg))
  refine ⟨c', fin, A, hrun, hA, hLA, ?_, hallq, by rw [← cfg_more b mc L' _ [] _]; exact hend.sc, ?_⟩
  · have := hend.hs
    rw [cfg_hs0] at this
    simp only [List.length_cons] at this ⊢
    omega
  · have hfinal := hend.fin
    simp only [E2E.Cfg.cap, cfg_p, cfg_mc, cfg_b] at hfinal
    rcases hfinal with ⟨rfl, hph, hk | ⟨_, he⟩⟩ | ⟨rfl, hph, hinp, hk⟩
    · exact Or.inr ⟨hk, rfl, hph⟩
    · rw [hem'] at he; cases he
    · exact Or.inl ⟨hk, rfl, hph, hinp⟩

/-! ## Non-vacuity: 70 000 000 bytes of output (≈ 1069 Stdout records — the old `hhf` allowed ≈ 987) -/
namespace ExampleNoFuel
open Fcgi.C01.Example Fcgi.C07E.Example

def bigData : Bytes := List.replicate 70000000 0
theorem bigData_len : bigData.length = 70000000 := List.length_replicate ..

/-- the hypothesis `hhf` of `single_request_e2e_unbounded` FAILS for it … -/
theorem old_hhf_fails : ¬ (wcost bigData.length + 12 ≤ 1000) := by
  rw [bigData_len]; unfold wcost; omega

/-- … and `single_request_e2e_nofuel` applies: one handler start, the whole answer (the 70 MB of Stdout records included) in the log. -/
example : ∃ c' fin O₁ O₂, runTask 20 (conn0 64 10 exT bigData (.complete 0)) 0 none = (c', fin) ∧
    hsCount c'.env.tr.events = 1 ∧
    c'.env.tr.wlog = exT.wlog ++ expectedLogN pre recs 10 bigData (.complete 0) O₁ O₂ := by
  obtain ⟨c', fin, O1, O2, hrun, _, ho⟩ := single_request_e2e_nofuel (p := pre) (recs := recs)
    (content := [65, 66, 67]) (srecs := exS) (b := 64) (mc := 10) (data := bigData) (st := .complete 0) (t := exT)
    (fuel := 20) recs_wf rfl (pre_pairs_fit 64) (noise_fits 64) exS_ok (exS_fits _) rfl exT_ben rfl (by decide)
  exact ⟨c', fin, O1, O2, hrun, ho.one_handler.1, ho.log⟩

/-- the same request as a `Sent`: `Sent.OKn` holds for every buffer size, `Sent.OKu` does not -/
def qHuge : Sent :=
  .responder pre recs [65, 66, 67]
    [ { rtype := 5, id := 2, content := [9], pad := [] }, { rtype := 5, id := 1, content := [65, 66, 67], pad := [0] } ]
    [0, 0] 0 bigData (.complete 0)

theorem qHuge_okn (b : Nat) : qHuge.OKn b :=
  ⟨recs_wf, pre_pairs_fit b, noise_fits b, exS_fits _, (fun _ hr => nomatch hr), rfl, exS_ok⟩

theorem qHuge_not_oku (b : Nat) : ¬ qHuge.OKu b := fun h => old_hhf_fails h.2.2.2.2.2.2.2

theorem q2_okn (b : Nat) : q2.OKn b :=
  ⟨recsA_wf, (fun _ hq => nomatch hq), recsA_fits _, (fun _ hr => nomatch hr), (fun _ hr => nomatch hr), rfl⟩

/-- `k_requests_e2e_nofuel`: the huge request, then an Authorizer request, on one connection -/
example : ∃ c' fin A, closedLoop 20 [q2.wire] (connK 64 10 { exT2 with input := qHuge.wire } [qHuge, q2]) 0 = (c', fin) ∧
    AnswerAll 10 [qHuge, q2] A ∧ c'.env.tr.wlog = A ∧ hsCount c'.env.tr.events = 2 := by
  obtain ⟨c', fin, A, hrun, hA, hlog, hhs, _⟩ := k_requests_e2e_nofuel (b := 64) (mc := 10) qHuge [q2]
    (t := { exT2 with input := qHuge.wire }) (fuel := 20)
    (fun q' hq' => by
      simp only [List.mem_cons, List.not_mem_nil, or_false] at hq'
      rcases hq' with rfl | rfl
      · exact qHuge_okn _
      · exact q2_okn _)
    (fun q' hq' => by
      simp only [List.dropLast, List.mem_cons, List.not_mem_nil, or_false] at hq'
      rcases hq' with rfl; decide)
    rfl ⟨by decide, by decide, rfl, by decide⟩ rfl rfl (by decide)
  exact ⟨c', fin, A, hrun, hA, hlog.trans (List.nil_append _), hhs⟩

end ExampleNoFuel

end Fcgi.C07E
