import Fcgi.Proofs.E2EWriters3
import Fcgi.Props.C07Writers2
/-!
# C07 / C10 — end to end: a FILTER with two writers, any sequence of `write_all` and `flush` calls

`Props/C07Writers2` for role 3: the handler reads Stdin to its end, switches to Data (`set_stream`), reads Data to
its end, and then runs the same output script `W` (any `write_all` / `flush` calls on Stdout / Stderr), over any
benign transport with an arbitrary script of `Pending` / `Ok` flush answers.

`filter_writers_flush_e2e`: one handler start; the two `readAll`s returned exactly the Stdin content and the Data
content; the write log is `owedPreamble ++ O₁ ++ outOf id (writesOf W) ++ O₂ ++ epilogue` with `O₁ ++ O₂` = the
replies owed for the noise inside the Stdin stream followed by those for the noise inside the Data stream; the same
final states (parked behind the Data terminator, which the stream parser never consumed).
`filter_writers_flush_chain_e2e`: the chain step.

Side conditions as in `Props/C07Writers2`: `hfl` (no error among the flush answers), `hfuel`
(`|rd| + |wr| + |fl| + 1 ≤ fuel`), `hhf : fcost W + 40 ≤ 1000` (output ops only), `hmore` (the later handler scripts
propagate I/O errors — needed for `C12Inv.stepConn_w`, from which "the flush script only shrinks" is taken).
No size hypothesis on the input, none on `b`.
-/
namespace Fcgi.C07W
open Fcgi Fcgi.Req Fcgi.Str Fcgi.Async Fcgi.Run Fcgi.Spec Fcgi.E2E Fcgi.C07E Fcgi.C07U Fcgi.C07B

def cfgW3 (p : Preamble) (recs : List Rec) (content : Bytes) (body : List Rec) (pad : Bytes) (res : UInt8)
    (content2 : Bytes) (body2 : List Rec) (pad2 : Bytes) (res2 : UInt8)
    (b mc : Nat) (W : FList) (st : ExitStatus) (L0 : Bytes) (h : Nat) (more : List (List HOp × Bool)) :
    E2E.Cfg :=
  ⟨p, recs, content, body, pad, res, content2, body2, pad2, res2, b, mc, [], st, L0, h, more,
    serAll body ++ ((trec 5 p.id pad res).ser ++ (serAll body2 ++ (trec 8 p.id pad2 res2).ser)),
    serAll body2 ++ (trec 8 p.id pad2 res2).ser, (trec 8 p.id pad2 res2).ser,
    owedStream p.id 5 mc body ++ owedStream p.id 8 mc body2, [], ffscriptW W st⟩

structure FilterWritersOutcome (p : Preamble) (recs : List Rec) (content content2 : Bytes) (W : WList)
    (O₁ O₂ : Bytes) (pad2 : Bytes) (res2 : UInt8) (b mc : Nat) (st : ExitStatus)
    (more : List (List HOp × Bool)) (t : Transport) (c' : Conn) (fin : String) : Prop where
  /-- exactly one handler invocation, for the request sent -/
  one_handler : hsCount c'.env.tr.events = 1 ∧ startEvent p.request ∈ c'.env.tr.events
  /-- the first `readAll` returned exactly the Stdin content … -/
  read : readEvent content ∈ c'.env.tr.events
  /-- … the second exactly the Data content -/
  read2 : readEvent content2 ∈ c'.env.tr.events
  /-- the write log: every write's records, in script order, between the replies owed for the streams' noise -/
  log : c'.env.tr.wlog = t.wlog ++ expectedLogW p recs mc W st O₁ O₂
  scripts : c'.scripts = more
  final : (p.flags.toNat % 2 = 0 ∧ fin = "RET" ∧ c'.phase = .finished) ∨
          (p.flags.toNat % 2 = 1 ∧ t.endMode = .eof ∧ fin = "RET" ∧ c'.phase = .finished) ∨
          (p.flags.toNat % 2 = 1 ∧ t.endMode = .pend ∧ fin = "STALL" ∧
            c'.phase = .parseReq (track (alignedBufsize b) mc (trec 8 p.id pad2 res2).ser) .reading ∧
            c'.env.tr.input = [] ∧ c'.env.mutex = none ∧ c'.stop = false ∧ Ben c'.env.tr)

theorem lw_eq3 {p : Preamble} {recs : List Rec} {content : Bytes} {body : List Rec} {pad : Bytes} {res : UInt8}
    {content2 : Bytes} {body2 : List Rec} {pad2 : Bytes} {res2 : UInt8}
    {b mc : Nat} {W : FList} {W' : WList} {st : ExitStatus} {L0 : Bytes} {h : Nat} {more : List (List HOp × Bool)}
    (O1 O2 : Bytes) :
    (cfgW3 p recs content body pad res content2 body2 pad2 res2 b mc W st L0 h more).Lw W' O1 O2 =
      L0 ++ expectedLogW p recs mc W' st O1 O2 := by
  show (L0 ++ owedPreamble p mc recs) ++ O1 ++ outOf p.id W' ++ O2 ++
    makeRequestEpilogue p.id st [RT.stdout, RT.stderr] = _
  rw [(C17.epilogue_spec p.id st _).1]
  simp [expectedLogW, epilogue, List.append_assoc]

/-- **C07/C10 end to end: one Filter request, two writers, any sequence of `write_all` and `flush` calls.** -/
theorem filter_writers_flush_e2e {p : Preamble} {recs : List Rec} {content : Bytes} {srecs : List Rec}
    {content2 : Bytes} {drecs : List Rec}
    {b mc : Nat} {W : FList} {st : ExitStatus} {more : List (List HOp × Bool)} {t : Transport} {fuel : Nat}
    (hwf : WellFormedPreamble p recs) (hrole : p.role = 3)
    (hpairs : ∀ q ∈ p.pairs, (NV.enc q).length ≤ alignedBufsize b)
    (hnoise : NoiseFits (alignedBufsize b) recs)
    (hs : StreamRecs p.id 5 content srecs) (hsn : NoiseFits (alignedBufsize b) srecs)
    (hd : StreamRecs p.id 8 content2 drecs) (hdn : NoiseFits (alignedBufsize b) drecs)
    (hin : t.input = serAll recs ++ (serAll srecs ++ serAll drecs)) (hben : Ben t) (hev : hsCount t.events = 0)
    (hfl : ∀ a ∈ t.fl, a ≠ FlAns.err) (hmore : ∀ s ∈ more, s.2 = true)
    (hfuel : t.rd.length + t.wr.length + t.fl.length + 1 ≤ fuel)
    (hhf : fcost W + 40 ≤ 1000) :
    ∃ c' fin O₁ O₂ pad2 res2,
      runTask fuel (connS b mc t ((ffscriptW W st, true) :: more)) 0 none = (c', fin) ∧
      O₁ ++ O₂ = owedStream p.id 5 mc srecs ++ owedStream p.id 8 mc drecs ∧
      FilterWritersOutcome p recs content content2 (E2E.writesOf W) O₁ O₂ pad2 res2 b mc st more t c' fin := by
  obtain ⟨body, pad, res, hpad, hbody, hsrecs⟩ := StreamRecs.split hs
  obtain ⟨body2, pad2, res2, hpad2, hbody2, hdrecs⟩ := StreamRecs.split hd
  have hid := (pid_of_wf hwf).2
  have hsb : NoiseFits (alignedBufsize b) body := fun r hr => hsn r (by rw [hsrecs]; simp [hr])
  have hdb : NoiseFits (alignedBufsize b) body2 := fun r hr => hdn r (by rw [hdrecs]; simp [hr])
  have ok : WFOK3 (cfgW3 p recs content body pad res content2 body2 pad2 res2 b mc W st t.wlog 0 more) W :=
    ⟨hwf, hrole, hpairs, hnoise, hbody, hbody2, hsb, hdb, hpad, hpad2, rfl, rfl, rfl, rfl, rfl, hhf⟩
  have hOt : owedStream p.id 5 mc srecs ++ owedStream p.id 8 mc drecs =
      owedStream p.id 5 mc body ++ owedStream p.id 8 mc body2 := by
    rw [hsrecs, hdrecs, owedStream_append, owedStream_append, owedStream_term p.id 5 mc _ rfl,
      owedStream_term p.id 8 mc _ rfl, List.append_nil, List.append_nil]
  have htwf : (trec 8 p.id pad2 res2).WF := ⟨hid, by simp [trec], hpad2⟩
  have hidle : ∀ e ∈ [trec 8 p.id pad2 res2], IdleNoise e := by
    intro e he
    rw [List.mem_singleton.1 he]
    exact ⟨htwf, fun hx => absurd hx (by show (8 : UInt8).toNat ≠ RT.beginRequest; decide)⟩
  have hfit : NoiseFits (alignedBufsize b) [trec 8 p.id pad2 res2] := by
    intro e he hg
    rw [List.mem_singleton.1 he] at hg
    exact absurd hg.1 (by show (8 : UInt8).toNat ≠ RT.getValues; decide)
  obtain ⟨hns, hNF⟩ := idle_front dummy_wf b mc (fun q hq => by cases hq) (dummy_fits _) hidle hfit []
  rw [C02.serAll_single] at hns hNF
  have hst : FStage (cfgW3 p recs content body pad res content2 body2 pad2 res2 b mc W st t.wlog 0 more)
      (connS b mc t ((ffscriptW W st, true) :: more)) :=
    .start (raw := []) rfl (by
      show [] ++ t.input = _
      rw [hin, hsrecs, hdrecs, C02.serAll_append, C02.serAll_single, C02.serAll_append, C02.serAll_single,
        List.append_assoc]; rfl) (Nat.zero_le _) rfl hben rfl rfl rfl hev
  have hap : C12Inv.AllProp (connS b mc t ((ffscriptW W st, true) :: more)) :=
    ⟨fun s hs => by
      rcases List.mem_cons.1 hs with rfl | hs
      · rfl
      · exact hmore s hs, trivial⟩
  obtain ⟨c', fin, hrun, hres⟩ := run_filterWF ok (Z := serAll dummyRecs ++ []) hns hNF
    t.endMode [] _ 0 fuel hst rfl (fun s hs => by cases hs) hap hfl rfl (by show mu t + 1 ≤ fuel; unfold mu ans; omega)
  have hro := (run_idle_out mc [trec 8 p.id pad2 res2] hidle).1
  rw [C02.serAll_single] at hro
  have hio : idleOwed mc [trec 8 p.id pad2 res2] = [] := by
    simp [idleOwed, owed, trec, RT.valid, RT.getValues, RT.beginRequest]
  rcases hres with ⟨⟨O1, O2⟩, ⟨hkp, hO⟩, hk', hem, _, _, _, hend⟩ |
      ⟨hfin, ⟨O1, O2, hO, q3, hfu⟩, _, _⟩
  · have hout : ∀ F, F ++ (serAll dummyRecs ++ []) = (trec 8 p.id pad2 res2).ser ++ (serAll dummyRecs ++ []) →
        (cfgW3 p recs content body pad res content2 body2 pad2 res2 b mc W st t.wlog 0 more).Lw (E2E.writesOf W) O1 O2 ++ (run .header F mc).out =
        t.wlog ++ expectedLogW p recs mc (E2E.writesOf W) st O1 O2 := by
      intro F hF
      rw [List.append_cancel_right hF, hro, hio, List.append_nil, lw_eq3]
    refine ⟨c', fin, O1, O2, pad2, res2, hrun, hO.trans hOt.symm, ⟨hk'.hs, hk'.ev _ List.mem_cons_self⟩,
      hk'.ev _ (List.mem_cons_of_mem _ List.mem_cons_self),
      hk'.ev _ (List.mem_cons_of_mem _ (List.mem_cons_of_mem _ List.mem_cons_self)), ?_, hk'.sc, ?_⟩
    · rcases hend with ⟨_, hp⟩ | ⟨_, hf⟩
      · obtain ⟨F, hF, _, _, hlg⟩ := hp.pst
        exact hlg.trans (hout F hF)
      · obtain ⟨F, hF, hlg⟩ := hf.log
        exact hlg.trans (hout F hF)
    · rcases hend with ⟨rfl, hp⟩ | ⟨rfl, hf⟩
      · obtain ⟨F, hF, hps, hph, _⟩ := hp.pst
        have hFe : F = (trec 8 p.id pad2 res2).ser := List.append_cancel_right hF
        subst hFe
        exact Or.inr (Or.inr ⟨hkp, hem.symm.trans hp.em, rfl, hph, hp.inp, hk'.mx, hps.stop, hps.ben⟩)
      · exact Or.inr (Or.inl ⟨hkp, hem.symm.trans hf.em, rfl, hf.ph⟩)
  · exact ⟨c', fin, O1, O2, pad2, res2, hrun, hO.trans hOt.symm, ⟨hfu.ev.1, hfu.ev.2⟩,
      q3.1, q3.2, by rw [hfu.log, lw_eq3], hfu.sc, Or.inl ⟨hfu.nokeep, hfin, hfu.ph⟩⟩



/-! ## The chain step -/

/-- **After the two-writer request, the next requests are served exactly as alone.**  A closed-loop client sends
the request of `single_request_writers_e2e` (with KEEP_CONN) and then the keep-alive requests `x :: xs`
(`UReq.OKu`: read to the end by a canonical handler, or a Responder request left unread).  Then: `1 + k` handler
starts; the log is the first request's (`expectedLogW`, all its writes' records in script order) followed by the `k`
segments `UReq.Seg`; all scripts are consumed; the task is parked behind what the last request left unread. -/
theorem filter_writers_flush_chain_e2e {p : Preamble} {recs : List Rec} {content : Bytes} {srecs : List Rec}
    {content2 : Bytes} {drecs : List Rec}
    {b mc : Nat} {W : FList} {st : ExitStatus} (x : UReq) (xs : List UReq) {t : Transport} {fuel : Nat}
    (hwf : WellFormedPreamble p recs) (hrole : p.role = 3) (hk : p.flags.toNat % 2 = 1)
    (hpairs : ∀ q ∈ p.pairs, (NV.enc q).length ≤ alignedBufsize b)
    (hnoise : NoiseFits (alignedBufsize b) recs)
    (hs : StreamRecs p.id 5 content srecs) (hsn : NoiseFits (alignedBufsize b) srecs)
    (hd : StreamRecs p.id 8 content2 drecs) (hdn : NoiseFits (alignedBufsize b) drecs)
    (hok : ∀ y ∈ x :: xs, y.OKu b)
    (hin : t.input = serAll recs ++ (serAll srecs ++ serAll drecs)) (hben : Ben t) (hem : t.endMode = .pend)
    (hev : hsCount t.events = 0) (hfl : ∀ a ∈ t.fl, a ≠ FlAns.err)
    (hfuel : t.rd.length + t.wr.length + t.fl.length + 1 ≤ fuel)
    (hhf : fcost W + 40 ≤ 1000) :
    ∃ c' O₁ O₂ A,
      closedLoop fuel ((x :: xs).map UReq.wire)
        (connS b mc t ((ffscriptW W st, true) :: (x :: xs).map UReq.handler)) 0 = (c', "STALL") ∧
      O₁ ++ O₂ = owedStream p.id 5 mc srecs ++ owedStream p.id 8 mc drecs ∧
      SegsAll mc (x :: xs) A ∧
      c'.env.tr.wlog = t.wlog ++ expectedLogW p recs mc (E2E.writesOf W) st O₁ O₂ ++ A ∧
      hsCount c'.env.tr.events = 1 + (x :: xs).length ∧
      startEvent p.request ∈ c'.env.tr.events ∧ readEvent content ∈ c'.env.tr.events ∧
      readEvent content2 ∈ c'.env.tr.events ∧
      (∀ y ∈ x :: xs, startEvent y.p.request ∈ c'.env.tr.events) ∧ c'.scripts = [] ∧
      c'.env.tr.input = [] ∧
      c'.phase = .parseReq (track (alignedBufsize b) mc (serAll ((x :: xs).getLast (by simp)).left)) .reading := by
  have hid := (pid_of_wf hwf).2
  obtain ⟨body, pad, res, hpad, hbody, hsrecs⟩ := StreamRecs.split hs
  obtain ⟨body2, pad2, res2, hpad2, hbody2, hdrecs⟩ := StreamRecs.split hd
  have hsb : NoiseFits (alignedBufsize b) body := fun r hr => hsn r (by rw [hsrecs]; simp [hr])
  have hdb : NoiseFits (alignedBufsize b) body2 := fun r hr => hdn r (by rw [hdrecs]; simp [hr])
  have hOt : owedStream p.id 5 mc srecs ++ owedStream p.id 8 mc drecs =
      owedStream p.id 5 mc body ++ owedStream p.id 8 mc body2 := by
    rw [hsrecs, hdrecs, owedStream_append, owedStream_append, owedStream_term p.id 5 mc _ rfl,
      owedStream_term p.id 8 mc _ rfl, List.append_nil, List.append_nil]
  have ok : WFOK3 (cfgW3 p recs content body pad res content2 body2 pad2 res2 b mc W st t.wlog 0
      (((x :: xs).map (UReq.spec mc)).map RSpec.handler)) W :=
    ⟨hwf, hrole, hpairs, hnoise, hbody, hbody2, hsb, hdb, hpad, hpad2, rfl, rfl, rfl, rfl, rfl, hhf⟩
  have hap : C12Inv.AllProp (connS b mc t ((ffscriptW W st, true) :: ((x :: xs).map (UReq.spec mc)).map RSpec.handler)) := by
    refine ⟨fun s hs => ?_, trivial⟩
    rcases List.mem_cons.1 hs with rfl | hs
    · rfl
    · obtain ⟨z, hz, rfl⟩ := List.mem_map.1 hs
      obtain ⟨y, _, rfl⟩ := List.mem_map.1 hz
      cases y with
      | full q => cases q <;> rfl
      | unread => rfl
  have htw : (trec 8 p.id pad2 res2).WF := ⟨hid, by simp [trec], hpad2⟩
  have hT : IdleNoise (trec 8 p.id pad2 res2) :=
    ⟨htw, fun hx => absurd hx (by show (8 : UInt8).toNat ≠ RT.beginRequest; decide)⟩
  have hlo : LeftOK (alignedBufsize b) [trec 8 p.id pad2 res2] :=
    ⟨fun e he => by rw [List.mem_singleton.1 he]; exact hT, fun e he hg => by
      rw [List.mem_singleton.1 he] at hg
      exact absurd hg.1 (by show (8 : UInt8).toNat ≠ RT.getValues; decide)⟩
  have hW : (cfgW3 p recs content body pad res content2 body2 pad2 res2 b mc W st t.wlog 0
      (((x :: xs).map (UReq.spec mc)).map RSpec.handler)).W = t.input := by
    rw [hin, hsrecs, hdrecs, C02.serAll_append, C02.serAll_single, C02.serAll_append, C02.serAll_single,
      List.append_assoc]
    rfl
  have hstart : StartAt (alignedBufsize b) mc [] t.wlog
      ((ffscriptW W st, true) :: ((x :: xs).map (UReq.spec mc)).map RSpec.handler) 0 [] (ans t)
      (cfgW3 p recs content body pad res content2 body2 pad2 res2 b mc W st t.wlog 0
        (((x :: xs).map (UReq.spec mc)).map RSpec.handler)).W
      (connS b mc t ((ffscriptW W st, true) :: ((x :: xs).map (UReq.spec mc)).map RSpec.handler)) :=
    Or.inr ⟨rfl, rfl, by show t.input = _; rw [hW], rfl, hben, rfl, rfl, rfl, hev,
      (fun _ hs => nomatch hs), rfl, hem, Nat.le_refl _⟩
  have hleft0 : LeftOK (alignedBufsize b) [] := ⟨(fun _ he => nomatch he), (fun _ hr => nomatch hr)⟩
  obtain ⟨c1, O1, O2, hrun1, hO, hrd, hrd2, hw1⟩ := serve_filterWF_core ok hk (left := []) hleft0 (Z := x.wire) hT
    (goodNext_of_oku (hok x List.mem_cons_self) hlo) 0 fuel (by simp [idleOwed]; rfl) hstart hap hfl
    (by show ans t + t.fl.length + 1 ≤ fuel; unfold ans; omega)
  have hz : idleOwed mc [trec 8 p.id pad2 res2] = [] := by
    simp [idleOwed, owed, trec, RT.valid, RT.getValues, RT.beginRequest]
  have hLw : ((cfgW3 p recs content body pad res content2 body2 pad2 res2 b mc W st t.wlog 0
      (((x :: xs).map (UReq.spec mc)).map RSpec.handler)).front []).Lw (E2E.writesOf W) O1 O2 ++ idleOwed mc [trec 8 p.id pad2 res2] =
      t.wlog ++ expectedLogW p recs mc (E2E.writesOf W) st O1 O2 := by
    rw [hz, List.append_nil]
    exact lw_eq3 O1 O2
  have hw1' : Waiting (alignedBufsize b) mc [trec 8 p.id pad2 res2]
      (t.wlog ++ expectedLogW p recs mc (E2E.writesOf W) st O1 O2)
      (((x :: xs).map (UReq.spec mc)).map RSpec.handler) 1 [hsEvent p.request, rEvent content, rEvent content2] (ans t) c1 := by
    rw [← hLw]
    have hev' : ∀ s ∈ [hsEvent p.request, rEvent content, rEvent content2], s ∈ c1.env.tr.events := by
      intro s hs
      rcases List.mem_cons.1 hs with rfl | hs
      · exact hw1.ev _ List.mem_cons_self
      rcases List.mem_cons.1 hs with rfl | hs
      · exact hrd
      · rw [List.mem_singleton.1 hs]; exact hrd2
    exact { hw1 with ev := hev' }
  obtain ⟨c', A, hrun, hseg, hw⟩ := chain_serves (alignedBufsize b) mc (serAll dummyRecs ++ [])
    (xs.map (UReq.spec mc)) (UReq.spec mc x) _ _ 1 [hsEvent p.request, rEvent content, rEvent content2] (ans t) (feed c1 x.wire) 1000 fuel
    (hall_of_oku x xs hok) hlo (Or.inl ⟨c1, hw1', rfl⟩) (by unfold ans; omega)
  have hrun' : closedLoop fuel ((x :: xs).map UReq.wire)
      (connS b mc t ((ffscriptW W st, true) :: (x :: xs).map UReq.handler)) 0 = (c', "STALL") := by
    have e : (x :: xs).map UReq.handler = ((x :: xs).map (UReq.spec mc)).map RSpec.handler := by
      rw [List.map_map]; rfl
    rw [e]
    show closedLoop fuel (x.wire :: xs.map UReq.wire) _ 0 = _
    rw [closedLoop, hrun1]
    simp only [if_true]
    rw [← hrun, List.map_map]; rfl
  have hlast := lastLeft_specs mc x xs
  refine ⟨c', O1, O2, A, hrun', hO.trans hOt.symm, segAll_specs mc (x :: xs) A hseg, hw.log, ?_, ?_, ?_, ?_, ?_, hw.sc, hw.inp, ?_⟩
  · have := hw.hs; simpa [Nat.add_comm] using this
  · exact hw.ev _ (mem_evsAfter _ _ _ (Or.inl List.mem_cons_self))
  · exact hw.ev _ (mem_evsAfter _ _ _ (Or.inl (by simp)))
  · exact hw.ev _ (mem_evsAfter _ _ _ (Or.inl (by simp)))
  · intro y hy
    exact hw.ev _ (mem_evsAfter _ _ _ (Or.inr ⟨UReq.spec mc y, List.mem_map_of_mem hy, rfl⟩))
  · rw [← hlast]; exact hw.ph



/-! ## Non-vacuity -/
namespace Example3
open Fcgi.C01.Example Fcgi.C07E.Example

/-- flush Stdout before any write, "hi" to Stdout, flush Stderr, "er" to Stderr, flush Stdout -/
def exF3 : FList := [.f 0, .w 0 [104, 105], .f 1, .w 1 [101, 114], .f 0]

/-- a Filter request: Stdin `nS` ("ABC", with a management `GetValues` record and an unknown-type record: both owed
replies), Data `fD` ("xyz", with a management `GetValues` record: owed a reply) -/
def f3T : Transport :=
  { input := serAll recsF ++ (serAll nS ++ serAll fD), endMode := .pend,
    rd := [.n 20, .pending, .n 30, .n 1, .pending, .all], wr := [.n 5, .pending, .all, .n 1],
    fl := [.pending, .ok, .pending, .pending, .ok] }

/-- `filter_writers_flush_e2e` applied: both reads return their content, replies are owed in BOTH streams, three
flushes with three `Pending` answers leave no byte in the log. -/
example : ∃ c' fin O₁ O₂, runTask 20 (connS 64 10 f3T [(ffscriptW exF3 (.complete 0), true)]) 0 none = (c', fin) ∧
    O₁ ++ O₂ = owedStream 1 5 10 nS ++ owedStream 1 8 10 fD ∧ owedStream 1 5 10 nS ≠ [] ∧ owedStream 1 8 10 fD ≠ [] ∧
    c'.env.tr.wlog = owedPreamble preF 10 recsF ++ O₁ ++
      ([1, 6, 0, 1, 0, 2, 6, 0, 104, 105, 0, 0, 0, 0, 0, 0] ++ [1, 7, 0, 1, 0, 2, 6, 0, 101, 114, 0, 0, 0, 0, 0, 0]) ++ O₂ ++
      epilogue 1 (.complete 0) ∧
    hsCount c'.env.tr.events = 1 ∧ readEvent [65, 66, 67] ∈ c'.env.tr.events ∧
    readEvent [120, 121, 122] ∈ c'.env.tr.events := by
  obtain ⟨c', fin, O1, O2, pad2, res2, hrun, hO, ho⟩ := filter_writers_flush_e2e (p := preF) (recs := recsF)
    (content := [65, 66, 67]) (srecs := nS) (content2 := [120, 121, 122]) (drecs := fD) (b := 64) (mc := 10) (W := exF3)
    (st := .complete 0) (more := []) (t := f3T) (fuel := 20) recsF_wf rfl (fun q hq => by cases hq) (recsF_fits _)
    nS_ok nS_fits fD_ok fD_fits rfl ⟨by decide, by decide, rfl, by decide⟩ rfl (by decide) (fun _ h => nomatch h)
    (by decide) (by decide)
  refine ⟨c', fin, O1, O2, hrun, hO, by decide +kernel, by decide +kernel, ?_, ho.one_handler.1, ho.read, ho.read2⟩
  rw [ho.log]
  show [] ++ (owedPreamble preF 10 recsF ++ O1 ++ outOf preF.id (E2E.writesOf exF3) ++ O2 ++ epilogue preF.id (.complete 0)) = _
  have h : outOf preF.id (E2E.writesOf exF3) =
      [1, 6, 0, 1, 0, 2, 6, 0, 104, 105, 0, 0, 0, 0, 0, 0] ++ [1, 7, 0, 1, 0, 2, 6, 0, 101, 114, 0, 0, 0, 0, 0, 0] := by
    decide +kernel
  rw [h, List.nil_append]; rfl
end Example3

end Fcgi.C07W
