import Fcgi.Model.NV
import Fcgi.Props.C15
import Fcgi.Proofs.NV
/-!
# C16 — The name-value codec (`NVIter`, `nv::write`)

All statements quantify over every byte string / every list of pairs; no bound.
-/
namespace Fcgi.C16
open Fcgi Fcgi.VarInt

/-! ## 6. Pairs are consecutive sub-slices of the input -/

/-- A yielded pair and the remainder are consecutive sub-slices of the input, after a header of
two length prefixes (1+1, 1+4 / 4+1, or 4+4 bytes); the exact undecoded suffix is handed back. -/
theorem subslices {bs n v r : Bytes} (h : NV.next bs = some ((n, v), r)) :
    ∃ hd, bs = hd ++ n ++ v ++ r ∧ (hd.length = 2 ∨ hd.length = 5 ∨ hd.length = 8) := by
  obtain ⟨nl, r1, vl, r2, h1, h2, _, rfl, rfl, rfl⟩ := NV.next_some h
  obtain ⟨_, hd1, rfl, l1⟩ := NV.decode_split h1
  obtain ⟨_, hd2, rfl, l2⟩ := NV.decode_split h2
  refine ⟨hd1 ++ hd2, ?_, ?_⟩
  · have := NV.split3 r2 nl vl
    simp only [List.append_assoc] at this ⊢
    rw [← this]
  · simp only [List.length_append]; omega

/-! ## 1. Progress -/

/-- Every yielded pair consumes at least two bytes; in particular the remainder is strictly
shorter, so the guard in `NV.all` is always true. -/
theorem next_length {bs r : Bytes} {p : Bytes × Bytes} (h : NV.next bs = some (p, r)) :
    r.length + 2 ≤ bs.length := by
  obtain ⟨n, v⟩ := p
  obtain ⟨hd, rfl, hl⟩ := subslices h
  simp only [List.length_append]; omega

/-! ## 2. Unfolding `NV.all` -/

theorem all_none {bs : Bytes} (h : NV.next bs = none) : NV.all bs = ([], bs) := by
  rw [NV.all]; simp [h]

theorem all_some {bs r : Bytes} {p : Bytes × Bytes} (h : NV.next bs = some (p, r)) :
    NV.all bs = (p :: (NV.all r).1, (NV.all r).2) := by
  have hl := next_length h
  rw [NV.all]
  simp [h, show r.length < bs.length by omega]

/-- Induction along the run of the iterator. -/
theorem all_ind {P : Bytes → Prop} (hnone : ∀ bs, NV.next bs = none → P bs)
    (hsome : ∀ bs p r, NV.next bs = some (p, r) → P r → P bs) : ∀ bs, P bs := by
  intro bs
  induction hn : bs.length using Nat.strongRecOn generalizing bs with
  | _ k ih =>
    subst hn
    cases h : NV.next bs with
    | none => exact hnone bs h
    | some x =>
      obtain ⟨p, r⟩ := x
      have hl := next_length h
      exact hsome bs p r h (ih r.length (by omega) r rfl)

/-! ## 3. Round trip -/

/-- One encoded pair followed by anything decodes to that pair and hands back what follows. -/
theorem next_enc (n v t : Bytes) (hn : n.length ≤ maxVal) (hv : v.length ≤ maxVal) :
    NV.next (NV.enc (n, v) ++ t) = some ((n, v), t) := by
  have h1 : decode (NV.enc (n, v) ++ t) = some (n.length, encode v.length ++ (n ++ (v ++ t))) := by
    simp only [NV.enc, List.append_assoc]; exact C15.roundtrip _ hn _
  have h2 := C15.roundtrip v.length hv (n ++ (v ++ t))
  have h3 : n.length + v.length ≤ (n ++ (v ++ t)).length := by
    simp only [List.length_append]; omega
  rw [NV.next_of h1 h2 h3]
  simp

/-- Decoding the concatenated encodings of any list of pairs (with representable lengths), followed
by any tail on which the iterator stops, returns exactly the pairs and the tail. -/
theorem roundtrip (ps : List (Bytes × Bytes))
    (hps : ∀ p ∈ ps, p.1.length ≤ maxVal ∧ p.2.length ≤ maxVal)
    (t : Bytes) (ht : NV.next t = none) :
    NV.all (ps.flatMap NV.enc ++ t) = (ps, t) := by
  induction ps with
  | nil => simpa using all_none ht
  | cons p ps ih =>
    obtain ⟨n, v⟩ := p
    have hp := hps (n, v) (by simp)
    have ih' := ih (fun q hq => hps q (by simp [hq]))
    have hnext := next_enc n v (ps.flatMap NV.enc ++ t) hp.1 hp.2
    simp only [List.flatMap_cons, List.append_assoc] at hnext ⊢
    rw [all_some hnext, ih']

theorem roundtrip_nil (ps : List (Bytes × Bytes))
    (hps : ∀ p ∈ ps, p.1.length ≤ maxVal ∧ p.2.length ≤ maxVal) :
    NV.all (ps.flatMap NV.enc) = (ps, []) := by
  have := roundtrip ps hps [] (by decide)
  simpa using this

/-! ## 4. `nv::write` -/

theorem enc_length (n v : Bytes) :
    (NV.enc (n, v)).length =
      (encode n.length).length + (encode v.length).length + n.length + v.length := by
  simp [NV.enc]; omega

/-- Writing into a growable buffer appends exactly the encoding and reports its length. -/
theorem write_vec (n v pre : Bytes) (hn : n.length ≤ maxVal) (hv : v.length ≤ maxVal) :
    NV.write n v (Sink.vec pre) =
      ({ cap := none, out := pre ++ NV.enc (n, v) }, .ok (NV.enc (n, v)).length) := by
  simp [NV.write, NV.tryFromUsize_le hn, NV.tryFromUsize_le hv, Sink.vec, NV.writeAll_vec,
    NV.enc]
  omega

/-- For any sink: on success the reported count is exactly the number of bytes appended, and
those bytes are the encoding of the pair. -/
theorem write_count {n v : Bytes} {w w' : Sink} {k : Nat} (h : NV.write n v w = (w', .ok k)) :
    w'.out = w.out ++ NV.enc (n, v) ∧ k = (NV.enc (n, v)).length := by
  unfold NV.write at h
  split at h
  · cases h
  · rename_i nl hnl
    obtain ⟨rfl, _⟩ := NV.tryFromUsize_some hnl
    split at h
    · cases h
    · rename_i w1 e1
      split at h
      · cases h
      · rename_i vl hvl
        obtain ⟨rfl, _⟩ := NV.tryFromUsize_some hvl
        split at h
        · cases h
        · rename_i w2 e2
          split at h
          · cases h
          · rename_i w3 e3
            split at h
            · cases h
            · rename_i w4 e4
              cases h
              have o1 := NV.writeAll_true e1
              have o2 := NV.writeAll_true e2
              have o3 := NV.writeAll_true e3
              have o4 := NV.writeAll_true e4
              refine ⟨?_, (enc_length n v).symm⟩
              rw [o4, o3, o2, o1]
              simp [NV.enc]

/-- Into a growable buffer the only possible failure is `InvalidInput`, and it happens exactly
when a length is not representable. -/
theorem write_invalid_iff (n v pre : Bytes) :
    (NV.write n v (Sink.vec pre)).2 = .error .invalidInput ↔
      n.length > maxVal ∨ v.length > maxVal := by
  by_cases hn : n.length ≤ maxVal
  · by_cases hv : v.length ≤ maxVal
    · rw [write_vec n v pre hn hv]
      simp; omega
    · simp [NV.write, NV.tryFromUsize_le hn, NV.tryFromUsize_gt hv, Sink.vec, NV.writeAll_vec]
      omega
  · simp [NV.write, NV.tryFromUsize_gt hn]
    omega

/-- Exact result of a successful write into a fixed slice of capacity `c`. -/
theorem write_slice_ok (n v : Bytes) (c : Nat) (hn : n.length ≤ maxVal) (hv : v.length ≤ maxVal)
    (hc : (NV.enc (n, v)).length ≤ c) :
    NV.write n v (Sink.slice c) =
      ({ cap := some (c - (NV.enc (n, v)).length), out := NV.enc (n, v) },
        .ok (NV.enc (n, v)).length) := by
  rw [enc_length] at hc
  simp only [NV.write, NV.tryFromUsize_le hn, NV.tryFromUsize_le hv, Sink.slice]
  rw [NV.writeAll_cap_le _ _ _ (by omega)]; simp only
  rw [NV.writeAll_cap_le _ _ _ (by omega)]; simp only
  rw [NV.writeAll_cap_le _ _ _ (by omega)]; simp only
  rw [NV.writeAll_cap_le _ _ _ (by omega)]; simp only
  simp [NV.enc]
  omega

/-- A write into a slice that is too small fails with `WriteZero`. -/
theorem write_slice_err (n v : Bytes) (c : Nat) (hn : n.length ≤ maxVal) (hv : v.length ≤ maxVal)
    (hc : ¬ (NV.enc (n, v)).length ≤ c) :
    (NV.write n v (Sink.slice c)).2 = .error .writeZero := by
  rw [enc_length] at hc
  simp only [NV.write, NV.tryFromUsize_le hn, NV.tryFromUsize_le hv, Sink.slice]
  by_cases c1 : (encode n.length).length ≤ c
  · rw [NV.writeAll_cap_le _ _ _ c1]; simp only
    by_cases c2 : (encode v.length).length ≤ c - (encode n.length).length
    · rw [NV.writeAll_cap_le _ _ _ c2]; simp only
      by_cases c3 : n.length ≤ c - (encode n.length).length - (encode v.length).length
      · rw [NV.writeAll_cap_le _ _ _ c3]; simp only
        rw [NV.writeAll_cap_gt _ _ _ (by omega)]
      · rw [NV.writeAll_cap_gt _ _ _ c3]
    · rw [NV.writeAll_cap_gt _ _ _ c2]
  · rw [NV.writeAll_cap_gt _ _ _ c1]

/-- With representable lengths, writing into a slice of capacity `c` succeeds iff the encoding
fits, and otherwise fails with `WriteZero`. -/
theorem write_slice_ok_iff (n v : Bytes) (c : Nat) (hn : n.length ≤ maxVal)
    (hv : v.length ≤ maxVal) :
    ((∃ k, (NV.write n v (Sink.slice c)).2 = .ok k) ↔ (NV.enc (n, v)).length ≤ c) ∧
    (¬ (NV.enc (n, v)).length ≤ c → (NV.write n v (Sink.slice c)).2 = .error .writeZero) := by
  refine ⟨⟨?_, ?_⟩, write_slice_err n v c hn hv⟩
  · intro ⟨k, hk⟩
    by_cases hc : (NV.enc (n, v)).length ≤ c
    · exact hc
    · rw [write_slice_err n v c hn hv hc] at hk; cases hk
  · intro hc
    exact ⟨_, by rw [write_slice_ok n v c hn hv hc]⟩

/-! ## 5. The slice-index preconditions and overflow guards never fire -/

theorem nextGuards_true (bs : Bytes) : NV.nextGuards bs = true := by
  unfold NV.nextGuards
  split
  · rfl
  · rename_i nl r1 h1
    split
    · rfl
    · rename_i vl r2 h2
      obtain ⟨hnl, hd1, rfl, l1⟩ := NV.decode_split h1
      obtain ⟨hvl, hd2, rfl, l2⟩ := NV.decode_split h2
      simp only [maxVal] at hnl hvl
      have hlen : (hd1 ++ (hd2 ++ r2)).length = hd1.length + hd2.length + r2.length := by
        simp only [List.length_append]; omega
      simp only [hlen]
      split <;> simp <;> omega

/-! ## 7. Resumption -/

/-- A complete pair stays decoded identically when more data follows. -/
theorem next_append {a r : Bytes} {p : Bytes × Bytes} (b : Bytes) (h : NV.next a = some (p, r)) :
    NV.next (a ++ b) = some (p, r ++ b) := by
  obtain ⟨n, v⟩ := p
  obtain ⟨nl, r1, vl, r2, h1, h2, hle, rfl, rfl, rfl⟩ := NV.next_some h
  have h1' := NV.decode_append b h1
  have h2' := NV.decode_append b h2
  have hle' : nl + vl ≤ (r2 ++ b).length := by simp only [List.length_append]; omega
  rw [NV.next_of h1' h2' hle']
  have e1 : (r2 ++ b).take nl = r2.take nl := List.take_append_of_le_length (by omega)
  have e2 : (r2 ++ b).drop nl = r2.drop nl ++ b := List.drop_append_of_le_length (by omega)
  have e3 : (r2.drop nl ++ b).take vl = (r2.drop nl).take vl :=
    List.take_append_of_le_length (by simp only [List.length_drop]; omega)
  have e4 : (r2 ++ b).drop (nl + vl) = r2.drop (nl + vl) ++ b :=
    List.drop_append_of_le_length hle
  rw [e1, e2, e3, e4]

/-- Feeding `a ++ b` at once equals feeding `a`, then resuming on the undecoded rest of `a`
followed by `b`. -/
theorem all_append (a b : Bytes) :
    NV.all (a ++ b) =
      ((NV.all a).1 ++ (NV.all ((NV.all a).2 ++ b)).1, (NV.all ((NV.all a).2 ++ b)).2) := by
  induction a using all_ind with
  | hnone a h => rw [all_none h]; simp
  | hsome a p r h ih => rw [all_some (next_append b h), ih, all_some h]; simp

/-- Pairs decoded from a prefix of the input are a prefix of the pairs decoded from all of it. -/
theorem prefix_mono (a b : Bytes) : (NV.all a).1 <+: (NV.all (a ++ b)).1 := by
  rw [all_append]; exact List.prefix_append _ _

/-! ## 8. The rest is a suffix on which the iterator has stopped -/

theorem rest_suffix (bs : Bytes) : ∃ c, bs = c ++ (NV.all bs).2 := by
  induction bs using all_ind with
  | hnone bs h => exact ⟨[], by rw [all_none h]; rfl⟩
  | hsome bs p r h ih =>
    obtain ⟨n, v⟩ := p
    obtain ⟨c, hc⟩ := ih
    obtain ⟨hd, hbs, _⟩ := subslices h
    refine ⟨hd ++ n ++ v ++ c, ?_⟩
    rw [all_some h]
    simp only [List.append_assoc] at hbs ⊢
    rw [← hc]; exact hbs

theorem stops_for_good (bs : Bytes) : NV.next (NV.all bs).2 = none := by
  induction bs using all_ind with
  | hnone bs h => rw [all_none h]; exact h
  | hsome bs p r h ih => rw [all_some h]; exact ih

/-! ## 9. `size_hint` -/

/-- The iterator's lower `size_hint` is in fact an upper bound on the number of pairs
(each pair consumes at least 2 bytes). -/
theorem size_hint (bs : Bytes) : (NV.all bs).1.length ≤ NV.sizeHint bs := by
  unfold NV.sizeHint
  induction bs using all_ind with
  | hnone bs h => rw [all_none h]; simp
  | hsome bs p r h ih =>
    have := next_length h
    rw [all_some h]
    simp only [List.length_cons]
    omega

/-! ## Non-vacuity: concrete instances meeting the hypotheses -/

/-- Two pairs, the first with a 130-byte name (four-byte length prefix), followed by a truncated
length prefix on which the iterator stops. -/
example :
    NV.all ([(List.replicate 130 65, [1, 2, 3]), ([], [])].flatMap NV.enc ++ [0x85]) =
      ([(List.replicate 130 65, [1, 2, 3]), ([], [])], [0x85]) :=
  roundtrip _ (by simp [maxVal]) _ (by decide)

example : NV.enc (List.replicate 130 65, [1, 2, 3]) =
    [0x80, 0, 0, 130, 3] ++ List.replicate 130 65 ++ [1, 2, 3] := by
  simp [NV.enc, encode]

example : NV.next [1, 1, 0x41, 0x42, 9] = some (([0x41], [0x42]), [9]) := by decide
example : NV.next [1, 2, 0x41, 0x42] = none := by decide
example : NV.all [1, 1, 0x41, 0x42, 0, 0, 7] = ([([0x41], [0x42]), ([], [])], [7]) := by
  rw [all_some (show NV.next [1, 1, 0x41, 0x42, 0, 0, 7] = some (([0x41], [0x42]), [0, 0, 7]) by decide),
    all_some (show NV.next [0, 0, 7] = some (([], []), [7]) by decide),
    all_none (show NV.next [7] = none by decide)]

example : NV.write (List.replicate 130 65) [1, 2, 3] (Sink.slice 140) =
    ({ cap := some (140 - (NV.enc (List.replicate 130 65, [1, 2, 3])).length),
       out := NV.enc (List.replicate 130 65, [1, 2, 3]) },
      .ok (NV.enc (List.replicate 130 65, [1, 2, 3])).length) :=
  write_slice_ok _ _ _ (by simp [maxVal]) (by simp [maxVal]) (by simp [enc_length, encode])

example : (NV.write (List.replicate 130 65) [1, 2, 3] (Sink.slice 137)).2 = .error .writeZero :=
  write_slice_err _ _ _ (by simp [maxVal]) (by simp [maxVal]) (by simp [enc_length, encode])

end Fcgi.C16
