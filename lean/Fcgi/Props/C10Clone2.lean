import Fcgi.Proofs.C10CloneSys
/-!
# C10 at system level with clones (and drops) at any moment

`Props/C10.lean` proves exclusion and `no_interleave` for a FIXED list of writers; `C10Clone.lean`
has the writer-level facts about the repaired `Clone for StreamWriter`.  Here the writer list
grows: `Op2` = the three polls plus `clone i` (append `writers[i].clone()`) and `drop i`
(`Proofs/C10CloneSys.lean`).

* `exclusion2` — the ownership invariant (a party's lock future is `Done` iff the mutex names it;
  owner ids name existing writers) along ANY schedule with clones taken at any moment (source idle,
  waiting for the mutex, inside a record, flushing) and drops;
* `log_static2` — clones and drops write nothing;
* `no_interleave2`, `complete_when_free2` — the statement of `C10.no_interleave` for such schedules:
  the log is the initial log, the units completed so far (one complete record per successful write,
  attributed to its writer, with exactly the payload accepted; the bytes of each `poll_output`), and
  a partial record that is empty or the part written so far of the mutex owner's record;
* `completed_records2`, `clone_same_stream` — attribution: every completed record is
  `recordOf rtype id buf[..min |buf| 65535]` of a `poll_write(buf)` of that writer, with the stream
  type / request id the writer (a clone: its source) was created with;
* `old_clone_breaks_loginv` — with the OLD `Clone` the invariant cannot be re-established after a
  clone of a writer inside a record, whatever ghost state one picks;
* `drop_mid_record_hazard`, `no_interleave2_full_false` — the one forced hypothesis: a writer must
  not be dropped while it holds the mutex inside a write of its own (`OpOK2`); otherwise the mutex
  is released with a partial record on the wire and the next record is appended to it.
-/
namespace Fcgi.C10
open Fcgi Fcgi.Async

/-! ## Exclusion -/

/-- **`exclusion2`.**  Any schedule of polls, clones and drops preserves the ownership invariant. -/
theorem exclusion2 (ops : List Op2) : ∀ (s : Sys2), OwnInv s.sys → OwnInv (run2 s ops).sys := by
  induction ops with
  | nil => intro s h; exact h
  | cons op ops ih => intro s h; exact ih (step2 s op) (exclusion_step2 s op h)

/-- Clones and drops append nothing to the byte log (nor do operations on dropped writers). -/
theorem log_static2 (s : Sys2) (op : Op2) (h : (∃ i, op = .clone i) ∨ (∃ i, op = .drop i) ∨ op.blocked s = true) :
    (step2 s op).sys.t = s.sys.t := by
  unfold step2
  split
  · rfl
  · rcases h with ⟨i, rfl⟩ | ⟨i, rfl⟩ | hb
    · simp only; split <;> rfl
    · simp only; split <;> rfl
    · rename_i hnb; exact absurd hb hnb

/-- Only the mutex owner writes — also with clones and drops around (lifts `only_owner_writes`). -/
theorem only_owner_writes2 (s : Sys2) (op : Op2) (h : OwnInv s.sys)
    (hchg : (step2 s op).sys.t.wlog ≠ s.sys.t.wlog) :
    ∃ o, op = .old o ∧ (s.sys.mutex = none ∨ s.sys.mutex = some o.owner) ∧
      ((step2 s op).sys.mutex = some o.owner ∨ (step2 s op).sys.mutex = none) := by
  by_cases hb : op.blocked s = true
  · exact absurd (by rw [log_static2 s op (Or.inr (Or.inr hb))]) hchg
  · cases op with
    | old o =>
      have hs : step2 s (.old o) = { s with sys := step s.sys o } := by simp [step2, hb]
      rw [hs] at hchg ⊢
      exact ⟨o, rfl, only_owner_writes s.sys o h hchg⟩
    | clone i => exact absurd (by rw [log_static2 s _ (Or.inl ⟨i, rfl⟩)]) hchg
    | drop i => exact absurd (by rw [log_static2 s _ (Or.inr (Or.inl ⟨i, rfl⟩))]) hchg

/-! ## No interleaving -/

/-- **`no_interleave2`.**  Start in any state that satisfies the ownership invariant and in which no
writer is in the middle of a record; let well-behaved callers poll any number of writers and the
request in any order, CLONE any writer at any moment and drop writers (not while they hold the
mutex inside a write of their own), with a transport that splits and delays writes at will.  Then
the byte log is

  `initial log ++ (the units completed so far, in completion order) ++ cur`

with `cur` empty or the proper prefix written so far of the record of the writer that currently
owns the mutex.  No two records interleave, whoever — original or clone — wrote them. -/
theorem no_interleave2 (s : Sys2) (ops : List Op2) (hown : OwnInv s.sys)
    (hidle : ∀ (i : Nat) (w : Writer), s.sys.writers[i]? = some w → w.isWriting = false)
    (hwb : WellBehaved2 (fun _ => none) s ops) :
    ∃ cur, (run2 s ops).sys.t.wlog = s.sys.t.wlog ++ (completed2 s ops).flatMap Entry.bytes ++ cur ∧
      (cur = [] ∨ ∃ (i : Nat) (w : Writer) (buf : Bytes),
        (run2 s ops).sys.mutex = some (i + 1) ∧ (run2 s ops).sys.writers[i]? = some w ∧
        grun2 (fun _ => none) s ops i = some buf ∧ WInv w buf cur ∧
        cur <+: recordOf w.rtype w.id (buf.take (min buf.length 65535)) ∧
        cur.length < (recordOf w.rtype w.id (buf.take (min buf.length 65535))).length) := by
  have h0 : LogInv (fun _ => none) s.sys s.sys.t.wlog [] :=
    ⟨hown, by simp, fun i w hw _ => hidle i w hw, fun i w buf _ hg => (by cases hg), fun _ => rfl⟩
  obtain ⟨cur, h⟩ := logInv_run2 ops _ s _ _ h0 hwb
  refine ⟨cur, h.log, ?_⟩
  rcases h.tail with hc | ⟨i, w, buf, h1, h2, h3, h4⟩
  · exact Or.inl hc
  · exact Or.inr ⟨i, w, buf, h1, h2, h3, h4, (WInv_proper_prefix h4).1, (WInv_proper_prefix h4).2⟩

/-- When the mutex is free the log consists of complete units only. -/
theorem complete_when_free2 (s : Sys2) (ops : List Op2) (hown : OwnInv s.sys)
    (hidle : ∀ (i : Nat) (w : Writer), s.sys.writers[i]? = some w → w.isWriting = false)
    (hwb : WellBehaved2 (fun _ => none) s ops) (hfree : (run2 s ops).sys.mutex = none) :
    (run2 s ops).sys.t.wlog = s.sys.t.wlog ++ (completed2 s ops).flatMap Entry.bytes := by
  obtain ⟨cur, hlog, hc⟩ := no_interleave2 s ops hown hidle hwb
  rcases hc with hc | ⟨i, _, _, hm, _⟩
  · rw [hlog, hc, List.append_nil]
  · rw [hfree] at hm; cases hm

/-! ## Attribution -/

/-- No operation changes the stream type or request id of an existing writer (a dropped slot keeps
them too). -/
theorem step_static2 (s : Sys2) (op : Op2) (h : OwnInv s.sys) (j : Nat) (w : Writer)
    (hj : s.sys.writers[j]? = some w) :
    ∃ w', (step2 s op).sys.writers[j]? = some w' ∧ w'.rtype = w.rtype ∧ w'.id = w.id := by
  have hlt : j < s.sys.writers.length := by
    rcases Nat.lt_or_ge j s.sys.writers.length with h1 | h1
    · exact h1
    · rw [List.getElem?_eq_none h1] at hj; cases hj
  unfold step2
  split
  · exact ⟨w, hj, rfl, rfl⟩
  · cases op with
    | old o => exact step_static' s.sys o h j w hj
    | clone i =>
      simp only
      split
      · exact ⟨w, by simp only; rw [List.getElem?_append_left hlt]; exact hj, rfl, rfl⟩
      · exact ⟨w, hj, rfl, rfl⟩
    | drop i =>
      simp only
      split
      · rename_i wi hwi
        by_cases hji : j = i
        · subst hji
          rw [hj] at hwi; cases hwi
          exact ⟨w.clone, by simp only; rw [List.getElem?_set_self hlt], rfl, rfl⟩
        · exact ⟨w, by simp only; rw [List.getElem?_set_ne (fun hh => hji hh.symm)]; exact hj, rfl, rfl⟩
      · exact ⟨w, hj, rfl, rfl⟩

theorem run_static2 (ops : List Op2) : ∀ (s : Sys2), OwnInv s.sys → ∀ (j : Nat) (w : Writer),
    s.sys.writers[j]? = some w →
    ∃ w', (run2 s ops).sys.writers[j]? = some w' ∧ w'.rtype = w.rtype ∧ w'.id = w.id := by
  induction ops with
  | nil => intro s _ j w hj; exact ⟨w, hj, rfl, rfl⟩
  | cons op ops ih =>
    intro s h j w hj
    obtain ⟨w1, h1, r1, i1⟩ := step_static2 s op h j w hj
    obtain ⟨w2, h2, r2, i2⟩ := ih (step2 s op) (exclusion_step2 s op h) j w1 h1
    exact ⟨w2, h2, r2.trans r1, i2.trans i1⟩

/-- A clone writes the same stream of the same request as its source. -/
theorem clone_same_stream (s : Sys2) (i : Nat) (w : Writer) (hw : s.sys.writers[i]? = some w)
    (hb : (Op2.clone i).blocked s = false) :
    (step2 s (.clone i)).sys.writers[s.sys.writers.length]? = some w.clone ∧
      w.clone.rtype = w.rtype ∧ w.clone.id = w.id ∧ w.clone.lock = .none ∧ w.clone.isWriting = false := by
  refine ⟨?_, rfl, rfl, (C10Clone.clone_idle w).1, (C10Clone.clone_idle w).2⟩
  simp [step2, hb, hw]

/-- **Every completed record is the record of a successful write** — also for clones: a unit
`.record i rtype id payload` completed along a well-behaved schedule comes from a `poll_write(buf)`
of writer `i` in that schedule, `payload = buf[.. min |buf| 65535]`, and `rtype` / `id` are those
of writer `i` (for a clone: of its source, `clone_same_stream`). -/
theorem completed_records2 (ops : List Op2) : ∀ (g : Ghost) (s : Sys2) (done cur : Bytes),
    LogInv g s.sys done cur → WellBehaved2 g s ops →
    ∀ (i rtype id : Nat) (payload : Bytes), Entry.record i rtype id payload ∈ completed2 s ops →
    ∃ (buf : Bytes) (w : Writer), Op2.old (.wpoll i buf) ∈ ops ∧ buf ≠ [] ∧
      (run2 s ops).sys.writers[i]? = some w ∧ rtype = w.rtype ∧ id = w.id ∧
      payload = buf.take (min buf.length 65535) ∧ payload.length = min buf.length 65535 := by
  induction ops with
  | nil => intro g s done cur _ _ i rtype id payload hmem; simp [completed2] at hmem
  | cons op ops ih =>
    intro g s done cur h hwb i rtype id payload hmem
    obtain ⟨hok, hrest⟩ := hwb
    simp only [completed2, List.mem_append] at hmem
    obtain ⟨cur1, h1⟩ := logInv_step2 h op hok
    rcases hmem with hmem | hmem
    · unfold emitted2 at hmem
      unfold OpOK2 at hok
      by_cases hb : op.blocked s = true
      · simp [hb] at hmem
      · simp only [hb, if_false, Bool.false_eq_true] at hmem hok
        cases op with
        | clone j => simp at hmem
        | drop j => simp at hmem
        | old o =>
          simp only at hmem hok
          obtain ⟨buf, w, hin, hbuf, hw, hr, hi, hp, hl⟩ :=
            completed_records [o] g s.sys done cur h ⟨hok, trivial⟩ i rtype id payload
              (by simpa [completed] using hmem)
          simp only [List.mem_singleton] at hin
          obtain ⟨w', hw', hr', hi'⟩ := run_static2 (.old o :: ops) s h.own i w hw
          exact ⟨buf, w', by rw [hin]; exact List.mem_cons_self .., hbuf, hw', by rw [hr, hr'],
            by rw [hi, hi'], hp, hl⟩
    · obtain ⟨buf, w, hin, hb, hw, hr, hi, hp, hl⟩ := ih _ _ _ _ h1 hrest i rtype id payload hmem
      exact ⟨buf, w, List.mem_cons_of_mem _ hin, hb, hw, hr, hi, hp, hl⟩

/-! ## The OLD clone breaks the invariant -/

/-- `Clone for StreamWriter` before the fix: the record header — with the remaining lengths — was
copied; only the lock future and the bookkeeping of the current call were reset. -/
def oldClone (w : Writer) : Writer := { w with lock := .none, headIdx := 0, origLen := 0 }

/-- **Where the old clone fails.**  After appending an OLD clone of a writer that is inside a
record, the log invariant does not hold for ANY ghost state: the clone is `isWriting` — so it cannot
count as idle — but holds no lock future — so it cannot count as writing (`WInv` needs the lock
held or being acquired).  (At the writer level: every `poll_write` on it panics,
`C10Clone.old_clone_panics`.) -/
theorem old_clone_breaks_loginv (g' : Ghost) (s : Sys) (done cur : Bytes) (w : Writer)
    (hw : w.isWriting = true) :
    ¬ LogInv g' { s with writers := s.writers ++ [oldClone w] } done cur := by
  intro h
  have hget : ({ s with writers := s.writers ++ [oldClone w] } : Sys).writers[s.writers.length]? =
      some (oldClone w) := by
    simp
  cases hg : g' s.writers.length with
  | none =>
    have := h.idle _ _ hget hg
    have hw' : (oldClone w).isWriting = true := by simpa [oldClone, Writer.isWriting] using hw
    rw [hw'] at this; cases this
  | some buf =>
    obtain ⟨_, sent, hinv, _⟩ := h.busy _ _ buf hget hg
    rcases hinv.lock with hl | ⟨hl, _⟩ <;> simp [oldClone] at hl

/-! ## Dropping a writer inside its record: the documented hazard -/

/-- **The hazard, stated.**  If writer `i` is dropped while it holds the mutex inside a write of
`buf`, the mutex is free afterwards and the part `cur` of its record written so far stays at the
end of the log for good: a proper prefix of `recordOf …` that nobody will complete. -/
theorem drop_mid_record_hazard {g : Ghost} {s : Sys2} {done cur : Bytes} (h : LogInv g s.sys done cur)
    {i : Nat} {w : Writer} {buf : Bytes} (hw : s.sys.writers[i]? = some w) (hg : g i = some buf)
    (hl : w.lock = .held) (hb : (Op2.drop i).blocked s = false) :
    (step2 s (.drop i)).sys.mutex = none ∧ (step2 s (.drop i)).sys.t.wlog = done ++ cur ∧
      WInv w buf cur ∧ cur.length < (recordOf w.rtype w.id (buf.take (min buf.length 65535))).length ∧
      (cur ≠ [] → ∀ g' cur', ¬ LogInv g' (step2 s (.drop i)).sys done cur') := by
  have hm : s.sys.mutex = some (i + 1) := (h.own.writers i w hw).mp hl
  obtain ⟨_, sent, hinv, hc⟩ := h.busy i w buf hw hg
  have hcs := hc hm
  subst hcs
  have hs : step2 s (.drop i) =
      ⟨{ s.sys with writers := s.sys.writers.set i w.clone, mutex := none }, i :: s.dead⟩ := by
    simp [step2, hb, hw, hl, lockDrop]
  rw [hs]
  refine ⟨rfl, h.log, hinv, (WInv_proper_prefix hinv).2, fun hne g' cur' h' => ?_⟩
  have hq : cur' = [] := h'.quiet (fun j b hmj _ => by cases hmj)
  have hlog := h'.log
  simp only at hlog
  rw [h.log, hq, List.append_nil] at hlog
  exact hne (List.append_cancel_left (hlog.trans (List.append_nil _).symm))

/-- `OpOK2` without the restriction on `drop`. -/
def OpOK2U (g : Ghost) (s : Sys2) (op : Op2) : Prop :=
  if op.blocked s then True else
  match op with
  | .old o => OpOK g s.sys o
  | _ => True

def WellBehaved2U : Ghost → Sys2 → List Op2 → Prop
  | _, _, [] => True
  | g, s, op :: ops => OpOK2U g s op ∧ WellBehaved2U (gstep2 g s op) (step2 s op) ops

/-- The strong statement: `no_interleave2` with writers dropped at any moment whatsoever. -/
def no_interleave2_full : Prop :=
  ∀ (s : Sys2) (ops : List Op2), OwnInv s.sys →
    (∀ (i : Nat) (w : Writer), s.sys.writers[i]? = some w → w.isWriting = false) →
    WellBehaved2U (fun _ => none) s ops →
    ∃ cur, (run2 s ops).sys.t.wlog = s.sys.t.wlog ++ (completed2 s ops).flatMap Entry.bytes ++ cur

/-! ### Witness -/

/-- stdout and stderr of request 1; the transport accepts 3 bytes, is `Pending` once, then accepts
everything. -/
def hzSys : Sys :=
  { writers := [{ rtype := RT.stdout, id := 1 }, { rtype := RT.stderr, id := 1 }],
    req := AReq.new (Str.Parser.fromParser 16 { id := 1, role := 1, flags := 0, env := [] } [] 1),
    mutex := none,
    t := { input := [], endMode := .pend, rd := [], wr := [.n 3, .pending], fl := [] } }
def hz0 : Sys2 := ⟨hzSys, []⟩

/-- stdout writes "A": 3 header bytes go out, `Pending`, mutex held; stdout is DROPPED; stderr
writes "B". -/
def hzOps : List Op2 := [.old (.wpoll 0 [0x41]), .drop 0, .old (.wpoll 1 [0x42])]

/-- What happens: the three header bytes of the abandoned stdout record, then stderr's complete
record right behind them. -/
example : (run2 hz0 hzOps).sys.t.wlog = [1, 6, 0] ++ recordOf RT.stderr 1 [0x42] ∧
    (completed2 hz0 hzOps).flatMap Entry.bytes = recordOf RT.stderr 1 [0x42] ∧
    (run2 hz0 hzOps).sys.mutex = none := by
  decide

/-- **The strong statement is false**: with a writer dropped while it holds the mutex inside its
record, the log is NOT the concatenation of the completed units (plus a partial record at the end). -/
theorem no_interleave2_full_false : ¬ no_interleave2_full := by
  intro h
  have hown : OwnInv hz0.sys := by
    refine ⟨fun i w hi => ?_, by unfold Consistent; decide, fun j hj => by cases hj⟩
    match i, hi with
    | 0, hi => cases hi; unfold Consistent; decide
    | 1, hi => cases hi; unfold Consistent; decide
    | n + 2, hi => simp [hz0, hzSys] at hi
  have hidle : ∀ (i : Nat) (w : Writer), hz0.sys.writers[i]? = some w → w.isWriting = false := by
    intro i w hi
    match i, hi with
    | 0, hi => cases hi; rfl
    | 1, hi => cases hi; rfl
    | n + 2, hi => simp [hz0, hzSys] at hi
  have hwb : WellBehaved2U (fun _ => none) hz0 hzOps := by
    refine ⟨⟨by decide, ?_⟩, trivial, ⟨by decide, ?_⟩, trivial⟩
    · intro w hw; cases hw; rfl
    · show match gstep2 (gstep2 (fun _ => none) hz0 (.old (.wpoll 0 [0x41])))
          (step2 hz0 (.old (.wpoll 0 [0x41]))) (.drop 0) 1 with
        | some b => b = [0x42]
        | none => ∀ w, (step2 (step2 hz0 (.old (.wpoll 0 [0x41]))) (.drop 0)).sys.writers[1]? = some w →
            w.lock = .none
      have hg : gstep2 (gstep2 (fun _ => none) hz0 (.old (.wpoll 0 [0x41])))
          (step2 hz0 (.old (.wpoll 0 [0x41]))) (.drop 0) 1 = none := by decide
      rw [hg]
      intro w hw
      have : (step2 (step2 hz0 (.old (.wpoll 0 [0x41]))) (.drop 0)).sys.writers[1]? =
          some { rtype := RT.stderr, id := 1 } := by decide
      rw [this] at hw; cases hw; rfl
  obtain ⟨cur, hc⟩ := h hz0 hzOps hown hidle hwb
  have hp : (hz0.sys.t.wlog ++ (completed2 hz0 hzOps).flatMap Entry.bytes) <+:
      (run2 hz0 hzOps).sys.t.wlog := ⟨cur, hc.symm⟩
  revert hp
  decide

/-! ## Non-vacuity: a clone taken while its source is inside a record -/

/-- A decidable version of `OpOK` / `OpOK2` / `WellBehaved2` (for concrete schedules). -/
def opOKb (g : Ghost) (s : Sys) : Op → Bool
  | .wpoll i buf =>
    !buf.isEmpty &&
      (match g i with
       | some b => b == buf
       | none => match s.writers[i]? with
         | some w => w.lock == .none
         | none => true)
  | .fpoll i => (g i).isNone
  | .opoll => true

theorem opOKb_sound {g : Ghost} {s : Sys} {op : Op} (h : opOKb g s op = true) : OpOK g s op := by
  cases op with
  | wpoll i buf =>
    simp only [opOKb, Bool.and_eq_true, Bool.not_eq_true'] at h
    refine ⟨fun hb => by rw [hb] at h; simp at h, ?_⟩
    cases hg : g i with
    | some b => rw [hg] at h; simpa using h.2
    | none =>
      rw [hg] at h
      intro w hw
      rw [hw] at h
      simpa using h.2
  | fpoll i =>
    simp only [opOKb, Option.isNone_iff_eq_none] at h
    exact h
  | opoll => trivial

def opOK2b (g : Ghost) (s : Sys2) (op : Op2) : Bool :=
  if op.blocked s then true else
  match op with
  | .old o => opOKb g s.sys o
  | .clone _ => true
  | .drop i =>
    match s.sys.writers[i]?, g i with
    | some w, some _ => w.lock != .held
    | _, _ => true

theorem opOK2b_sound {g : Ghost} {s : Sys2} {op : Op2} (h : opOK2b g s op = true) : OpOK2 g s op := by
  unfold opOK2b at h
  unfold OpOK2
  by_cases hb : op.blocked s = true
  · simp [hb]
  · simp only [hb, if_false, Bool.false_eq_true] at h ⊢
    cases op with
    | old o => exact opOKb_sound h
    | clone i => trivial
    | drop i =>
      intro w buf hw hg
      simp only [hw, hg] at h
      simpa using h

def wellBehaved2b : Ghost → Sys2 → List Op2 → Bool
  | _, _, [] => true
  | g, s, op :: ops => opOK2b g s op && wellBehaved2b (gstep2 g s op) (step2 s op) ops

theorem wellBehaved2b_sound : ∀ (ops : List Op2) (g : Ghost) (s : Sys2),
    wellBehaved2b g s ops = true → WellBehaved2 g s ops := by
  intro ops
  induction ops with
  | nil => intro _ _ _; trivial
  | cons op ops ih =>
    intro g s h
    simp only [wellBehaved2b, Bool.and_eq_true] at h
    exact ⟨opOK2b_sound h.1, ih _ _ h.2⟩

/-- One writer (stdout of request 7); the transport accepts 3 bytes, is `Pending` once, then accepts
everything. -/
def cSys : Sys :=
  { writers := [{ rtype := RT.stdout, id := 7 }],
    req := AReq.new (Str.Parser.fromParser 16 { id := 7, role := 1, flags := 0, env := [] } [] 1),
    mutex := none,
    t := { input := [], endMode := .pend, rd := [], wr := [.n 3, .pending], fl := [] } }
def c0 : Sys2 := ⟨cSys, []⟩

/-- The source writes "ABCD": 3 header bytes out, `Pending` (mutex held, mid-header); it is CLONED
right there; the clone's write of "XYZ" waits for the mutex; the source finishes its record; the
clone writes its own. -/
def cOps : List Op2 :=
  [.old (.wpoll 0 [0x41, 0x42, 0x43, 0x44]), .clone 0, .old (.wpoll 1 [0x58, 0x59, 0x5a]),
   .old (.wpoll 0 [0x41, 0x42, 0x43, 0x44]), .old (.wpoll 1 [0x58, 0x59, 0x5a])]

theorem cOwn : OwnInv c0.sys := by
  refine ⟨fun i w hi => ?_, by unfold Consistent; decide, fun j hj => by cases hj⟩
  match i, hi with
  | 0, hi => cases hi; unfold Consistent; decide
  | n + 1, hi => simp [c0, cSys] at hi

theorem cIdle : ∀ (i : Nat) (w : Writer), c0.sys.writers[i]? = some w → w.isWriting = false := by
  intro i w hi
  match i, hi with
  | 0, hi => cases hi; rfl
  | n + 1, hi => simp [c0, cSys] at hi

theorem cWB : WellBehaved2 (fun _ => none) c0 cOps := wellBehaved2b_sound _ _ _ (by decide)

/-- The moment of the clone: the source is inside its record (3 header bytes on the wire), holding
the mutex; the clone is idle and holds nothing; its first poll waits (no panic). -/
example :
    let s1 := run2 c0 (cOps.take 1)
    let s2 := run2 c0 (cOps.take 2)
    let s3 := run2 c0 (cOps.take 3)
    s1.sys.t.wlog = [1, 6, 0] ∧ s1.sys.mutex = some 1 ∧
    (s1.sys.writers[0]?.map Writer.isWriting) = some true ∧
    s2.sys.writers.length = 2 ∧ (s2.sys.writers[1]?.map Writer.isWriting) = some false ∧
    (s2.sys.writers[1]?.map (·.lock)) = some .none ∧
    s3.sys.t.wlog = [1, 6, 0] ∧ s3.sys.mutex = some 1 ∧ (s3.sys.writers[1]?.map (·.lock)) = some .polling := by
  decide

/-- The theorems on the instance: the mutex is free at the end, so the log consists of complete
units only … -/
example : (run2 c0 cOps).sys.t.wlog = c0.sys.t.wlog ++ (completed2 c0 cOps).flatMap Entry.bytes :=
  complete_when_free2 c0 cOps cOwn cIdle cWB (by decide)

/-- … which are: the source's record, then the clone's record — two complete records of the same
stream, not interleaved. -/
example : (completed2 c0 cOps).flatMap Entry.bytes =
      recordOf 6 7 [0x41, 0x42, 0x43, 0x44] ++ recordOf 6 7 [0x58, 0x59, 0x5a] ∧
    (run2 c0 cOps).sys.t.wlog =
      recordOf 6 7 [0x41, 0x42, 0x43, 0x44] ++ recordOf 6 7 [0x58, 0x59, 0x5a] ∧
    (run2 c0 cOps).sys.mutex = none ∧ (run2 c0 cOps).sys.writers.length = 2 := by
  decide

/-- With the OLD clone the same schedule ends in a panic of the clone (writer level:
`C10Clone.old_clone_panics`), and already the state right after the clone violates the invariant. -/
example : ∀ g' done cur (w : Writer), (run2 c0 (cOps.take 1)).sys.writers[0]? = some w →
    ¬ LogInv g' { (run2 c0 (cOps.take 1)).sys with
        writers := (run2 c0 (cOps.take 1)).sys.writers ++ [oldClone w] } done cur := by
  intro g' done cur w hw
  have h0 : (run2 c0 (cOps.take 1)).sys.writers[0]? =
      some { rtype := 6, id := 7, contentLen := 4, padLen := 4, headIdx := 3, origLen := 4, lock := .held } := by
    decide
  rw [h0] at hw; cases hw
  exact old_clone_breaks_loginv g' _ done cur _ (by decide)

/-- A clone dropped while it WAITS for the mutex (inside a write of its own, nothing written yet) is
harmless and allowed by `WellBehaved2`; the source's record completes undisturbed. -/
example :
    let ops : List Op2 := [.old (.wpoll 0 [0x41, 0x42, 0x43, 0x44]), .clone 0,
      .old (.wpoll 1 [0x58, 0x59, 0x5a]), .drop 1, .old (.wpoll 0 [0x41, 0x42, 0x43, 0x44]),
      .old (.wpoll 1 [0x58, 0x59, 0x5a])]
    wellBehaved2b (fun _ => none) c0 ops = true ∧
    (run2 c0 ops).sys.t.wlog = recordOf 6 7 [0x41, 0x42, 0x43, 0x44] ∧ (run2 c0 ops).sys.mutex = none := by
  decide

end Fcgi.C10
