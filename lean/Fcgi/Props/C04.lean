import Fcgi.Props.C01
/-!
# C04 (request-parser half) — each management or rejectable record gets exactly one correct reply, in order

* `replies_exact_oneshot`: over a whole well-formed preamble the parser's output is exactly the
  concatenation, in arrival order, of the replies `Spec.owed` prescribes (`Spec.owedPreamble`).
* `replies_idle` / `replies_params`: the per-record statements (one record ↦ exactly its reply,
  parser otherwise unchanged) — from `Proofs/ReqRecords.lean`.
* `owed_*`: what `Spec.owed` *is*, case by case, so the specification can be read off.
* `abort_during_params`.
-/
namespace Fcgi.C04
open Fcgi Fcgi.Req Fcgi.Spec

/-- **C04, one-shot form**: the output clause of `C01.C01_oneshot` on its own. -/
theorem replies_exact_oneshot {p : Preamble} {recs : List Rec} (h : WellFormedPreamble p recs)
    (extra : Bytes) (mc : Nat) :
    (run .header (serAll recs ++ extra) mc).out = owedPreamble p mc recs := by
  rw [C01.C01_oneshot h extra mc]

/-- `Spec.owedPreamble` is the in-order concatenation of the per-record `owed` replies: relative
to "no request" up to and including the BeginRequest (which itself is owed nothing), relative to
the request's id afterwards (its own Params records are owed nothing). -/
theorem owedPreamble_begin (p : Preamble) (mc : Nat) (pad : Bytes) (res : UInt8) (body5 : Bytes)
    (rs : List Rec) (hb : body5.length = 5) (hrole : roleValid p.role = true) :
    owedPreamble p mc ({ rtype := 1, id := p.id, content := toBe16 p.role ++ [p.flags] ++ body5,
                         pad := pad, reserved := res } :: rs) = C01.paramsOwed p.id mc rs := by
  have hrole' : 1 ≤ p.role ∧ p.role ≤ 3 := by simpa [roleValid] using hrole
  have hbe : be16 (UInt8.ofNat (p.role / 256)) (UInt8.ofNat p.role) = p.role :=
    be16_toBe16 (by omega)
  simp [owedPreamble, RT.beginRequest, toBe16, hb, hbe, hrole, C01.paramsOwed]

theorem owedPreamble_noise (p : Preamble) (mc : Nat) {r : Rec} (hn : IdleNoise r) (rs : List Rec) :
    owedPreamble p mc (r :: rs) = owed none mc r ++ owedPreamble p mc rs :=
  C01.owedPreamble_noise p mc hn rs

/-- Per-record form while idle (`rest ≠ []`: something follows, as always inside a preamble). -/
theorem replies_idle (r : Rec) (h : IdleNoise r) (rest : Bytes) (mc : Nat) (hne : rest ≠ []) :
    run .header (r.ser ++ rest) mc = pre (owed none mc r) (run .header rest mc) :=
  header_noise r h rest mc (Or.inl hne)

/-- Per-record form during the Params stream. -/
theorem replies_params (i : Inner) (hi : InnerOK i) (r : Rec) (h : ParamsNoise i.req.id r)
    (rest : Bytes) (mc : Nat) (hne : rest ≠ []) :
    run (.params i 0 0) (r.ser ++ rest) mc =
      pre (owed (some i.req.id) mc r) (run (.params i 0 0) rest mc) :=
  params_noise i hi r h rest mc (Or.inl hne)

/-! ## The shape of `Spec.owed` -/

/-- Unknown type byte `t`: one `UnknownType` record — 16 bytes, type 11, the *sender's* request id,
body `[t, 0, 0, 0, 0, 0, 0, 0]` — whether or not a request is in progress. -/
theorem owed_unknown_type (cur : Option Nat) (mc : Nat) (r : Rec)
    (ht : RT.valid r.rtype.toNat = false) :
    owed cur mc r = UnknownType.toRecord r.rtype r.id ∧
    UnknownType.toRecord r.rtype r.id =
      [1, 11] ++ toBe16 r.id ++ [0, 8, 0, 0] ++ [r.rtype, 0, 0, 0, 0, 0, 0, 0] ∧
    (UnknownType.toRecord r.rtype r.id).length = 16 := by
  refine ⟨by simp [owed, ht], ?_, (C17.unknown_toRecord _ _).2.1⟩
  simp [UnknownType.toRecord, RecordHeader.toBytes, UnknownType.toBytes, toBe16, RT.unknown]

/-- Management GetValues with an empty body: nothing. -/
theorem owed_getValues_empty (cur : Option Nat) (mc : Nat) (r : Rec)
    (ht : r.rtype.toNat = RT.getValues) (hid : r.id = 0) (hc : r.content = []) :
    owed cur mc r = [] := by
  simp [owed, ht, hid, hc, RT.getValues, RT.valid]

/-- Management GetValues with a non-empty body: exactly one `GetValuesResult` record (type 10,
id 0, padded to a multiple of 8) whose body lists — in declaration order, each once — exactly the
known variable names among the *complete* pairs of the query body, with their values. -/
theorem owed_getValues (cur : Option Nat) (mc : Nat) (r : Rec)
    (ht : r.rtype.toNat = RT.getValues) (hid : r.id = 0) (hc : r.content ≠ []) (hmc : mc < 2 ^ 64) :
    let set := Vars.extend 0 (NV.all r.content).1
    let body := Vars.body set mc
    owed cur mc r = Vars.responseRecord set mc ∧
    RecordHeader.fromBytes (owed cur mc r) =
      some (.ok ⟨10, 0, body.length, RecordHeader.autoPadding body.length⟩) ∧
    owed cur mc r = (RecordHeader.toBytes ⟨10, 0, body.length, RecordHeader.autoPadding body.length⟩) ++
      body ++ zeros (RecordHeader.autoPadding body.length) ∧
    (owed cur mc r).length % 8 = 0 ∧ (owed cur mc r).length ≤ 104 ∧
    NV.all body = ((Vars.table.filter (fun e => Vars.has set e.2)).map
      (fun e => (e.1, Vars.value e.2 mc)), []) := by
  intro set body
  have ho : owed cur mc r = Vars.responseRecord set mc := by
    have : r.content.isEmpty = false := by cases hcc : r.content <;> simp_all
    simp [owed, ht, hid, this, RT.getValues, RT.valid, set]
  obtain ⟨_, h104, heq, hdec, _, h8, hall⟩ := C17.writeResponse_spec' set mc hmc []
  rw [ho]
  exact ⟨rfl, hdec, heq, h8, h104, hall⟩

theorem parseName_eq_iff (x : Bytes) :
    (Vars.parseName x = some 1 ↔ x = Vars.nameMaxConns) ∧
    (Vars.parseName x = some 2 ↔ x = Vars.nameMaxReqs) ∧
    (Vars.parseName x = some 4 ↔ x = Vars.nameMpxsConns) := by
  have d12 : Vars.nameMaxConns ≠ Vars.nameMaxReqs := by decide +kernel
  have d13 : Vars.nameMaxConns ≠ Vars.nameMpxsConns := by decide +kernel
  have d23 : Vars.nameMaxReqs ≠ Vars.nameMpxsConns := by decide +kernel
  simp only [Vars.parseName, Vars.table, List.find?]
  by_cases h1 : Vars.nameMaxConns = x
  · subst h1; simp [d12, d13]
  · have h1' : (Vars.nameMaxConns == x) = false := by simpa using h1
    by_cases h2 : Vars.nameMaxReqs = x
    · subst h2; simp [h1', d12.symm, d23]
    · have h2' : (Vars.nameMaxReqs == x) = false := by simpa using h2
      by_cases h3 : Vars.nameMpxsConns = x
      · subst h3; simp [h1', h2', d13.symm, d23.symm]
      · have h3' : (Vars.nameMpxsConns == x) = false := by simpa using h3
        simp [h1', h2', h3', Ne.symm h1, Ne.symm h2, Ne.symm h3]

theorem has_insert : ∀ s, s < 8 → ∀ b ∈ [1, 2, 4], ∀ b' ∈ [1, 2, 4],
    Vars.has (Vars.insert s b') b = (Vars.has s b || b' == b) := by decide

/-- Which names are listed: name `n` (bit `b` of the table) is requested iff some complete pair of
the query body has exactly the name `n` (case-sensitive, no normalisation). -/
theorem owed_getValues_lists (body : Bytes) (n : Bytes) (b : Nat) (hn : (n, b) ∈ Vars.table) :
    Vars.has (Vars.extend 0 (NV.all body).1) b = true ↔ ∃ q ∈ (NV.all body).1, q.1 = n := by
  have hb : b ∈ [1, 2, 4] := by
    simp [Vars.table] at hn; simp; omega
  have hpn : ∀ x : Bytes, Vars.parseName x = some b ↔ x = n := by
    intro x
    obtain ⟨p1, p2, p4⟩ := parseName_eq_iff x
    simp [Vars.table] at hn
    rcases hn with ⟨rfl, rfl⟩ | ⟨rfl, rfl⟩ | ⟨rfl, rfl⟩ <;> assumption
  have key : ∀ (ps : List (Bytes × Bytes)) (s : Nat), s < 8 →
      (Vars.has (Vars.extend s ps) b = true ↔ Vars.has s b = true ∨ ∃ q ∈ ps, q.1 = n) := by
    intro ps
    induction ps with
    | nil => intro s _; simp [Vars.extend]
    | cons q ps ih =>
      intro s hs
      have hstep : Vars.extend s (q :: ps) =
          Vars.extend (match Vars.parseName q.1 with | some b' => Vars.insert s b' | none => s) ps := rfl
      rw [hstep]
      simp only [List.mem_cons, exists_eq_or_imp]
      cases hp : Vars.parseName q.1 with
      | none =>
        simp only []
        rw [ih s hs]
        have hne : ¬ q.1 = n := fun he => by rw [← hpn, hp] at he; cases he
        simp [hne]
      | some b' =>
        simp only []
        have hb' := parseName_mem hp
        have hb'm : b' ∈ [1, 2, 4] := by simp; omega
        rw [ih _ (insert_lt hs hb'), has_insert s hs b hb b' hb'm, ← hpn, hp]
        simp [or_assoc]
  rw [key _ 0 (by omega)]
  have : Vars.has 0 b = false := by
    simp at hb
    rcases hb with rfl | rfl | rfl <;> rfl
  simp [this]

/-- BeginRequest for a *second* id while request `c` is in progress: `EndRequest` with
`CantMpxConn` (protocol status 1, app status 0) for the *new* id. -/
theorem owed_begin_other (c mc : Nat) (r : Rec) (ht : r.rtype.toNat = RT.beginRequest)
    (hid : r.id ≠ c) :
    owed (some c) mc r = EndRequest.toRecord { appStatus := 0, protocolStatus := 1 } r.id := by
  simp [owed, ht, hid, RT.beginRequest, RT.getValues, RT.valid]

/-- A repeated BeginRequest for the id in progress is ignored. -/
theorem owed_begin_same (c mc : Nat) (r : Rec) (ht : r.rtype.toNat = RT.beginRequest)
    (hid : r.id = c) : owed (some c) mc r = [] := by
  simp [owed, ht, hid, RT.beginRequest, RT.getValues, RT.valid]

/-- BeginRequest with an unknown role while idle: `EndRequest` with `UnknownRole` (protocol
status 3) for its id. -/
theorem owed_unknown_role (mc : Nat) (r : Rec) (ht : r.rtype.toNat = RT.beginRequest)
    (r0 r1 f a b c d e : UInt8) (hc : r.content = [r0, r1, f, a, b, c, d, e])
    (hrole : roleValid (be16 r0 r1) = false) :
    owed none mc r = EndRequest.toRecord { appStatus := 0, protocolStatus := 3 } r.id := by
  simp [owed, ht, hc, hrole, RT.beginRequest, RT.getValues, RT.valid]

/-- Every other record of a known type is owed nothing. -/
theorem owed_other (cur : Option Nat) (mc : Nat) (r : Rec) (hv : RT.valid r.rtype.toNat = true)
    (hb : r.rtype.toNat ≠ RT.beginRequest) (hg : ¬ (r.rtype.toNat = RT.getValues ∧ r.id = 0)) :
    owed cur mc r = [] := by
  by_cases h9 : r.rtype.toNat = RT.getValues
  · have : r.id ≠ 0 := fun h0 => hg ⟨h9, h0⟩
    simp [owed, RT.valid, h9, this, RT.getValues, RT.beginRequest]
  · simp [owed, hv, h9, hb]

/-- The fixed 16-byte shape of the two `EndRequest` replies. -/
theorem endRequest_shape (ps id : Nat) (hid : id < 65536) :
    EndRequest.toRecord { appStatus := 0, protocolStatus := ps } id =
      [1, 3] ++ toBe16 id ++ [0, 8, 0, 0] ++ [0, 0, 0, 0, UInt8.ofNat ps, 0, 0, 0] ∧
    RecordHeader.fromBytes (EndRequest.toRecord { appStatus := 0, protocolStatus := ps } id) =
      some (.ok ⟨3, id, 8, 0⟩) := by
  refine ⟨?_, (C17.end_toRecord _ _).2.2 hid⟩
  simp [EndRequest.toRecord, RecordHeader.toBytes, EndRequest.toBytes, toBe16, toBe32,
    RT.endRequest]

/-! ## AbortRequest during Params -/

/-- For `st = params i 0 0` and an AbortRequest record with the request's id (any content, any
padding, any reserved byte): the output is exactly `EndRequest(app 0, RequestComplete)` for the
request's id; the parser is back in `header` on `rest` (request dropped — no `done`); body and
padding of the abort record are skipped. -/
theorem abort_during_params (i : Inner) (hi : InnerOK i) (c padb : Bytes) (res : UInt8)
    (rest : Bytes) (mc : Nat) (hc : c.length < 65536) (hp : padb.length < 256)
    (hid : i.req.id < 65536) :
    run (.params i 0 0) (Rec.ser { rtype := 2, id := i.req.id, content := c, pad := padb,
                                   reserved := res } ++ rest) mc =
      pre (EndRequest.toRecord { appStatus := 0, protocolStatus := 0 } i.req.id)
        (run .header rest mc) :=
  params_abort i hi c padb res rest mc hc hp hid

/-- In particular, when the abort record ends the input: exactly the reply, idle, nothing left. -/
theorem abort_during_params_last (i : Inner) (hi : InnerOK i) (c padb : Bytes) (res : UInt8)
    (mc : Nat) (hc : c.length < 65536) (hp : padb.length < 256) (hid : i.req.id < 65536) :
    run (.params i 0 0) (Rec.ser { rtype := 2, id := i.req.id, content := c, pad := padb,
                                   reserved := res }) mc =
      ⟨[], .header, EndRequest.toRecord { appStatus := 0, protocolStatus := 0 } i.req.id, none⟩ := by
  have := abort_during_params i hi c padb res [] mc hc hp hid
  rw [List.append_nil, resting_header mc] at this
  simpa using this

/-! ## Non-vacuity -/

/-- The replies of the example preamble of `Props/C01`: a `GetValuesResult` for `FCGI_MAX_CONNS`
(value `"10"`) while idle, then one for `FCGI_MPXS_CONNS` (value `"0"`) during Params — in that
order, nothing else. -/
example : owedPreamble C01.Example.pre 10 C01.Example.recs =
    Vars.responseRecord 1 10 ++ Vars.responseRecord 4 10 := by decide +kernel

end Fcgi.C04
