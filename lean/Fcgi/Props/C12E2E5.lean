import Fcgi.Proofs.E2ETruncFRef
import Fcgi.Props.C12E2E2

/-!
# C12 — end to end, FILTER: end-of-file at (almost) every byte offset of the wire

`W = serAll recs ++ serAll srecs ++ serAll drecs`: a well-formed preamble of a Filter request, its
`Stdin` stream and its `Data` stream (both with any noise, each closed by its empty record); the
canonical Filter handler `canonicalF` (`readAll`, `set_stream(Data)`, `readAll`, open Stdout, write,
return; propagating); the transport delivers `W.take k` and then end-of-file.

* `eof_in_stdin_filter_e2e` — the cut is inside `Stdin`, in front of the 8th byte of its terminating
  record: one handler start; the FIRST `readAll` collects a prefix `C` of the Stdin content and fails
  with `UnexpectedEof`; the handler returns it; the task finishes without `close`; the log holds the
  preamble replies and the Stdin-noise replies that were due, nothing else.
* `eof_in_data_filter_e2e` — the cut is behind the header of the `Stdin` terminator and in front of
  the 8th byte of the `Data` terminator (`Z` = what arrived behind the `Stdin` body): the first
  `readAll` returned the WHOLE Stdin content (`R=` event), `set_stream(Data)` succeeded, the second
  `readAll` collects a prefix `C2` of the Data content and then fails with `UnexpectedEof` (never
  `Ok(0)`); the handler returns it; the task finishes without `close`: the log holds the preamble
  replies, all Stdin-noise replies, and the Data-noise replies that were due — no Stdout, no
  EndRequest.  (That is all the model's error path does: the `R!eof` and `HE(err:eof)` trace events.)
* `eof_any_offset_filter_e2e` — the case split over `k`, with `eof_in_preamble_e2e_partial` for the
  preamble and `C07E.single_request_e2e_filter` for `k ≥ |W|`: RET / finished; at most one handler
  start, none inside the preamble; the log a byte prefix of a log `single_request_e2e_filter` permits.
  NOT covered (hypothesis `hk`): cuts behind the 8th byte of the `Data` terminator that are not the
  whole wire (only part of that record's padding missing) — the Filter analogue of
  `eof_in_terminator_e2e`, whose stage machinery (`E2ETrunc2`) is Responder-only.
-/
namespace Fcgi.C12E
open Fcgi Fcgi.Req Fcgi.Str Fcgi.Async Fcgi.Run Fcgi.Spec Fcgi.E2E Fcgi.C07E

/-- **The input ends inside `Stdin` (Filter).** -/
theorem eof_in_stdin_filter_e2e {p : Preamble} {recs srecs drecs : List Rec} {content : Bytes} (Y : Bytes)
    (b mc : Nat) (data : Bytes) (st : ExitStatus) (t : Transport) (fuel : Nat)
    (hwf : WellFormedPreamble p recs) (hrole : p.role = 3)
    (hpairs : ∀ q ∈ p.pairs, (NV.enc q).length ≤ alignedBufsize b) (hnoise : NoiseFits (alignedBufsize b) recs)
    (hs : StreamRecs p.id 5 content srecs) (hsn : NoiseFits (alignedBufsize b) srecs)
    (hY : Y <+: serAll srecs ++ serAll drecs) (hYl : Y.length < (serAll srecs.dropLast).length + 8)
    (hin : t.input = serAll recs ++ Y) (hb : Ben t) (hem : t.endMode = .eof)
    (hfuel : t.rd.length + t.wr.length + 1 ≤ fuel) (hlen : 2 * t.input.length + 7 ≤ 100000)
    (hcap : alignedBufsize b / 32 + 8 ≤ 1000) :
    ∃ c' C O, runTask fuel (connS b mc t [(canonicalF data st, true)]) 0 none = (c', "RET") ∧
      c'.phase = .finished ∧ c'.env.tr.input = [] ∧ C <+: content ∧ O <+: owedStream p.id 5 mc srecs ∧
      c'.env.tr.wlog = t.wlog ++ owedPreamble p mc recs ++ O ∧
      hsCount c'.env.tr.events = hsCount t.events + 1 ∧ startEvent p.request ∈ c'.env.tr.events ∧
      readEofEvent C ∈ c'.env.tr.events ∧ handlerEofEvent ∈ c'.env.tr.events := by
  obtain ⟨body, pad, res, _, hbody, hsr⟩ := Str.StreamRecs.split hs
  have hdl : srecs.dropLast = body := by rw [hsr]; exact List.dropLast_concat
  rw [hdl] at hYl
  rw [hsr, C02.serAll_append, List.append_assoc] at hY
  have hid : p.id < 65536 := wf_id_lt hwf
  have hfitb : NoiseFits (alignedBufsize b) body := fun r hr => hsn r (by rw [hsr]; exact List.mem_append_left _ hr)
  have h8 : 8 ≤ alignedBufsize b := by have := alignedBufsize_ge b; omega
  have hcutY : ∃ C O U, refWire ⟨p.id, p.role, 5, mc⟩ Y = ⟨C, O, .more, U⟩ ∧ C <+: content ∧
      O <+: owedStream p.id 5 mc body ∧ (∀ G, G <+: Y → (refWire ⟨p.id, p.role, 5, mc⟩ G).verdict = .more →
        (refWire ⟨p.id, p.role, 5, mc⟩ G).unread.length < alignedBufsize b) := by
    rcases prefix_append_cases hY with ⟨w, rfl, _⟩ | ⟨z, _, hz⟩
    · refine cut_of_body' p.id p.role mc hid hbody h8 hfitb (h := w) ?_ (List.prefix_refl _)
      simp only [List.length_append] at hYl
      omega
    · exact cut_of_body p.id p.role mc hid hbody h8 hfitb ⟨z, hz⟩
  obtain ⟨C, O, U, hcut, hC, hO, hfits⟩ := hcutY
  have hO' : O <+: owedStream p.id 5 mc srecs := by
    rw [hsr, Str.owedStream_append]
    exact hO.trans (List.prefix_append _ _)
  obtain ⟨c', h1, h2, h3, h4, h5, h6, h7, h8, _⟩ := eof_mid_stream_e2e Y C O U b mc
    [.setStream 8, .readAll, .open_ 6, .writeAll 0 data, .dropW 0, .ret st] [] t fuel hwf (Or.inr hrole)
    hpairs hnoise hcut hfits hin hb hem hfuel hlen hcap
  exact ⟨c', C, O, h1, h2, h3, hC, hO', h4, h5, h6, h7, h8⟩

theorem prefix_cut {A B C Z : Bytes} (hZ : Z <+: A ++ (B ++ C)) (hl : Z.length < A.length + B.length + 8) :
    ∃ h : Bytes, h.length < 8 ∧ Z <+: A ++ (B ++ h) := by
  rw [← List.append_assoc] at hZ
  rcases prefix_append_cases hZ with ⟨w, rfl, _⟩ | ⟨t, _, hz⟩
  · refine ⟨w, ?_, by rw [List.append_assoc]; exact List.prefix_refl _⟩
    simp only [List.length_append] at hl
    omega
  · exact ⟨[], by simp, by rw [List.append_nil]; exact ⟨t, hz⟩⟩

/-- **The input ends inside `Data` (Filter)**: `Z` = what arrived behind the `Stdin` body — at least
the header of the `Stdin` terminator, at most 7 bytes of the `Data` terminator. -/
theorem eof_in_data_filter_e2e {p : Preamble} {recs srecs drecs : List Rec} {content content2 : Bytes} (Z : Bytes)
    (b mc : Nat) (data : Bytes) (st : ExitStatus) (t : Transport) (fuel : Nat)
    (hwf : WellFormedPreamble p recs) (hrole : p.role = 3)
    (hpairs : ∀ q ∈ p.pairs, (NV.enc q).length ≤ alignedBufsize b) (hnoise : NoiseFits (alignedBufsize b) recs)
    (hs : StreamRecs p.id 5 content srecs) (hsn : NoiseFits (alignedBufsize b) srecs)
    (hd : StreamRecs p.id 8 content2 drecs) (hdn : NoiseFits (alignedBufsize b) drecs)
    (hZ : serAll srecs.dropLast ++ Z <+: serAll srecs ++ serAll drecs) (hZ8 : 8 ≤ Z.length)
    (hZl : (serAll srecs.dropLast).length + Z.length < (serAll srecs).length + (serAll drecs.dropLast).length + 8)
    (hin : t.input = serAll recs ++ (serAll srecs.dropLast ++ Z)) (hb : Ben t) (hem : t.endMode = .eof)
    (hev : hsCount t.events = 0)
    (hfuel : t.rd.length + t.wr.length + 1 ≤ fuel) (hlen : 2 * t.input.length + 7 ≤ 100000)
    (hhf : alignedBufsize b / 16 + wcost data.length + 24 ≤ 1000) :
    ∃ c' C2 O2, runTask fuel (connS b mc t [(canonicalF data st, true)]) 0 none = (c', "RET") ∧
      c'.phase = .finished ∧ c'.env.tr.input = [] ∧ C2 <+: content2 ∧ O2 <+: owedStream p.id 8 mc drecs ∧
      c'.env.tr.wlog = t.wlog ++ owedPreamble p mc recs ++ (owedStream p.id 5 mc srecs ++ O2) ∧
      hsCount c'.env.tr.events = 1 ∧ startEvent p.request ∈ c'.env.tr.events ∧
      readEvent content ∈ c'.env.tr.events ∧ readEofEvent C2 ∈ c'.env.tr.events ∧
      handlerEofEvent ∈ c'.env.tr.events := by
  obtain ⟨body, pad, res, hpad, hbody, hsr⟩ := Str.StreamRecs.split hs
  obtain ⟨body2, pad2, res2, hpad2, hbody2, hdr⟩ := Str.StreamRecs.split hd
  have hdl : srecs.dropLast = body := by rw [hsr]; exact List.dropLast_concat
  have hdl2 : drecs.dropLast = body2 := by rw [hdr]; exact List.dropLast_concat
  rw [hdl] at hZ hZl hin
  rw [hdl2] at hZl
  have hsb : NoiseFits (alignedBufsize b) body := fun r hr => hsn r (by rw [hsr]; simp [hr])
  have hdb : NoiseFits (alignedBufsize b) body2 := fun r hr => hdn r (by rw [hdr]; simp [hr])
  have ok : (cfgF p recs content body pad res content2 body2 pad2 res2 b mc data st t.wlog 0 []).OK :=
    ⟨hwf, hpairs, hnoise, .filter hrole hbody hbody2 hsb hdb hpad hpad2 rfl rfl rfl rfl rfl rfl hhf⟩
  obtain ⟨hK1, hK2, _⟩ := kokF ok hrole hbody hbody2 hsb hdb hpad hpad2 rfl rfl
  have hid : p.id < 65536 := wf_id_lt hwf
  have h8 : 8 ≤ alignedBufsize b := by have := alignedBufsize_ge b; omega
  have htw : (trec 5 p.id pad res).WF := ⟨hid, by simp [trec], hpad⟩
  -- `Z` is a prefix of the Stdin terminator and the Data stream
  have hser : serAll srecs ++ serAll drecs =
      serAll body ++ ((trec 5 p.id pad res).ser ++ (serAll body2 ++ (trec 8 p.id pad2 res2).ser)) := by
    rw [hsr, hdr, C02.serAll_append, C02.serAll_single, C02.serAll_append, C02.serAll_single, List.append_assoc]
    rfl
  rw [hser] at hZ
  have hZ' : Z <+: (trec 5 p.id pad res).ser ++ (serAll body2 ++ (trec 8 p.id pad2 res2).ser) :=
    (List.prefix_append_right_inj _).1 hZ
  have hserl : (serAll srecs).length = (serAll body).length + (trec 5 p.id pad res).ser.length := by
    rw [hsr, C02.serAll_append, C02.serAll_single, List.length_append]; rfl
  -- cut the Data terminator down to the (fewer than 8) bytes of it that arrived
  obtain ⟨h, hh, hZh⟩ := prefix_cut hZ' (by omega)
  have htrole : rclass ⟨p.id, 3, 5, mc⟩ (trec 5 p.id pad res) = .endStream := by
    simp [rclass, trec, RT.isInputStream]
  have hpc : rclass ⟨p.id, 3, 8, mc⟩ (trec 5 p.id pad res) = .noise := by
    have hl : ¬ Later 3 (some 8) 5 := by decide
    simp [rclass, trec, RT.isInputStream, hl]
  have hpo : owed (some p.id) mc (trec 5 p.id pad res) = [] := by
    simp [owed, trec, RT.valid, RT.getValues, RT.beginRequest]
  obtain ⟨C2, O2, U2, hcut2, hC2, hO2⟩ := k2_cut p.id mc hid (trec 5 p.id pad res) htw hpc hpo hbody2 h8 hdb hh hZh
  have href1 := k1_ref p.id mc hid hbody (trec 5 p.id pad res) htw htrole hZ' hZ8
  -- the configuration
  let g : FCfg := ⟨p, recs, b, mc,
    ⟨⟨p.id, p.role, 5, mc⟩, p.request, alignedBufsize b, serAll body ++ Z, content, owedStream p.id 5 mc body, Z⟩,
    ⟨⟨p.id, 3, 8, mc⟩, p.request, alignedBufsize b, Z, C2, O2, U2⟩,
    oscript data st, [], t.wlog, 0⟩
  have hXpre : serAll body ++ Z <+: (cfgF p recs content body pad res content2 body2 pad2 res2 b mc data st t.wlog 0 []).X :=
    hZ
  have ok2 : g.OK := by
    refine ⟨hwf, hrole, hpairs, hnoise, ⟨?_, fun G hG hv => hK1.fits G (hG.trans hXpre) hv, h8⟩,
      ⟨hcut2, fun G hG hv => hK2.fits G (hG.trans hZ') hv, h8⟩,
      ⟨by show (⟨p.id, p.role, 5, mc⟩ : Str.Cfg) = ⟨p.id, 3, 5, mc⟩; rw [hrole], rfl, rfl, rfl, rfl⟩, rfl, rfl, rfl,
      by show alignedBufsize b / 16 + 16 ≤ 1000; omega⟩
    show refWire ⟨p.id, p.role, 5, mc⟩ (serAll body ++ Z) = _
    rw [hrole]; exact href1
  obtain ⟨c', hrun, hfin⟩ := fmid_run_start ok2 (c := connS b mc t [(canonicalF data st, true)]) (n := 0) (fuel := fuel)
    rfl rfl hin rfl hb hem rfl rfl rfl hev hfuel hlen
  have hO5 : owedStream p.id 5 mc srecs = owedStream p.id 5 mc body := by
    rw [hsr, owedStream_append, owedStream_term p.id 5 mc _ rfl, List.append_nil]
  have hO2' : O2 <+: owedStream p.id 8 mc drecs := by
    rw [hdr, Str.owedStream_append]
    exact hO2.trans (List.prefix_append _ _)
  refine ⟨c', C2, O2, hrun, hfin.phase, hfin.input, hC2, hO2', ?_, hfin.hs, hfin.start, hfin.read1, hfin.rerr, hfin.herr⟩
  rw [hO5]
  have hw : c'.env.tr.wlog = (t.wlog ++ owedPreamble p mc recs) ++ (owedStream p.id 5 mc body ++ O2) := hfin.wlog
  rw [hw]

/-- **End-of-file at byte offset `k` of a Filter wire.** -/
theorem eof_any_offset_filter_e2e {p : Preamble} {recs srecs drecs : List Rec} {content content2 : Bytes}
    {b mc : Nat} {data : Bytes} {st : ExitStatus} {t : Transport} {fuel : Nat} (k : Nat)
    (hwf : WellFormedPreamble p recs) (hrole : p.role = 3)
    (hpairs : ∀ q ∈ p.pairs, (NV.enc q).length ≤ alignedBufsize b) (hnoise : NoiseFits (alignedBufsize b) recs)
    (hs : StreamRecs p.id 5 content srecs) (hsn : NoiseFits (alignedBufsize b) srecs)
    (hd : StreamRecs p.id 8 content2 drecs) (hdn : NoiseFits (alignedBufsize b) drecs)
    (hin : t.input = (serAll recs ++ (serAll srecs ++ serAll drecs)).take k)
    (hk : k < (serAll recs).length + (serAll srecs).length + (serAll drecs.dropLast).length + 8 ∨
      (serAll recs ++ (serAll srecs ++ serAll drecs)).length ≤ k)
    (hb : Ben t) (hem : t.endMode = .eof) (hev : hsCount t.events = 0)
    (hfuel : t.rd.length + t.wr.length + 1 ≤ fuel) (hsize : 4 * t.input.length + 17 ≤ 100000)
    (hhf : alignedBufsize b / 16 + wcost data.length + 24 ≤ 1000) :
    ∃ c' O₁ O₂, runTask fuel (connS b mc t [(canonicalF data st, true)]) 0 none = (c', "RET") ∧
      c'.phase = .finished ∧ O₁ ++ O₂ = owedStream p.id 5 mc srecs ++ owedStream p.id 8 mc drecs ∧
      (∃ w, c'.env.tr.wlog = t.wlog ++ w ∧ w <+: expectedLogN p recs mc data st O₁ O₂) ∧
      hsCount c'.env.tr.events ≤ 1 ∧
      (k < (serAll recs).length → hsCount c'.env.tr.events = 0) ∧
      ((serAll recs).length ≤ k → hsCount c'.env.tr.events = 1 ∧ startEvent p.request ∈ c'.env.tr.events) ∧
      -- inside Stdin: the first read fails with UnexpectedEof after a prefix of the content
      ((serAll recs).length ≤ k → k < (serAll recs).length + (serAll srecs.dropLast).length + 8 →
        ∃ C, C <+: content ∧ readEofEvent C ∈ c'.env.tr.events ∧ handlerEofEvent ∈ c'.env.tr.events) ∧
      -- inside Data: Stdin was read completely, the second read fails with UnexpectedEof
      ((serAll recs).length + (serAll srecs.dropLast).length + 8 ≤ k →
        k < (serAll recs).length + (serAll srecs).length + (serAll drecs.dropLast).length + 8 →
        readEvent content ∈ c'.env.tr.events ∧
        ∃ C2, C2 <+: content2 ∧ readEofEvent C2 ∈ c'.env.tr.events ∧ handlerEofEvent ∈ c'.env.tr.events) ∧
      -- the whole wire: everything read, everything answered
      ((serAll recs ++ (serAll srecs ++ serAll drecs)).length ≤ k →
        readEvent content ∈ c'.env.tr.events ∧ readEvent content2 ∈ c'.env.tr.events ∧
        c'.env.tr.wlog = t.wlog ++ expectedLogN p recs mc data st O₁ O₂) := by
  obtain ⟨body, pad, res, hpad, hbody, hsr⟩ := Str.StreamRecs.split hs
  obtain ⟨body2, pad2, res2, hpad2, hbody2, hdr⟩ := Str.StreamRecs.split hd
  have hdl : srecs.dropLast = body := by rw [hsr]; exact List.dropLast_concat
  have hdl2 : drecs.dropLast = body2 := by rw [hdr]; exact List.dropLast_concat
  have hdll : (serAll srecs.dropLast).length = (serAll body).length := by rw [hdl]
  have hdll2 : (serAll drecs.dropLast).length = (serAll body2).length := by rw [hdl2]
  have hsl : (serAll srecs).length = (serAll body).length + (8 + pad.length) := by
    rw [hsr, C02.serAll_append, C02.serAll_single, List.length_append, ser_length]; rfl
  have hdlen : (serAll drecs).length = (serAll body2).length + (8 + pad2.length) := by
    rw [hdr, C02.serAll_append, C02.serAll_single, List.length_append, ser_length]; rfl
  have hlen7 : 2 * t.input.length + 7 ≤ 100000 := by omega
  have hO5 : owedStream p.id 5 mc srecs = owedStream p.id 5 mc body := by
    rw [hsr, owedStream_append, owedStream_term p.id 5 mc _ rfl, List.append_nil]
  by_cases h1 : k < (serAll recs).length
  · obtain ⟨c', hrun, hph, _, hhs, _, hlog, hpre⟩ := eof_in_preamble_e2e_partial (p := p) (recs := recs)
      (serAll srecs ++ serAll drecs) b mc k [(canonicalF data st, true)] t fuel hwf hpairs hnoise h1 hin hb hem hfuel
      (by omega)
    refine ⟨c', owedStream p.id 5 mc srecs ++ owedStream p.id 8 mc drecs, [], hrun, hph, List.append_nil _,
      ⟨_, hlog, ?_⟩, by omega, fun _ => hhs.trans hev, fun h => by omega, fun h => by omega, fun h => by omega,
      fun h => by simp only [List.length_append] at h; omega⟩
    refine hpre.trans ?_
    simp only [expectedLogN, List.append_assoc]
    exact List.prefix_append _ _
  · by_cases h2 : k < (serAll recs).length + (serAll srecs.dropLast).length + 8
    · obtain ⟨j, rfl⟩ : ∃ j, k = (serAll recs).length + j := ⟨k - (serAll recs).length, by omega⟩
      rw [take_add_append] at hin
      obtain ⟨c', C, O, hrun, hph, _, hC, hO, hlog, hhs, hst, hre, hhe⟩ := eof_in_stdin_filter_e2e
        (p := p) (recs := recs) (srecs := srecs) (drecs := drecs) (content := content)
        ((serAll srecs ++ serAll drecs).take j) b mc data st t fuel hwf hrole hpairs hnoise hs hsn
        (List.take_prefix _ _) (by have := List.length_take_le j (serAll srecs ++ serAll drecs); omega)
        hin hb hem hfuel hlen7 (by omega)
      have hhs1 : hsCount c'.env.tr.events = 1 := by rw [hhs, hev]
      refine ⟨c', owedStream p.id 5 mc srecs ++ owedStream p.id 8 mc drecs, [], hrun, hph, List.append_nil _,
        ⟨owedPreamble p mc recs ++ O, by rw [hlog, List.append_assoc], ?_⟩, by omega,
        fun h => by omega, fun _ => ⟨hhs1, hst⟩, fun _ _ => ⟨C, hC, hre, hhe⟩, fun h => by omega,
        fun h => by simp only [List.length_append] at h; omega⟩
      obtain ⟨z, hz⟩ := hO
      simp only [expectedLogN, List.append_assoc, ← hz]
      exact ⟨z ++ (owedStream p.id 8 mc drecs ++ (streamRecords 6 p.id data ++ ([] ++ epilogue p.id st))), by
        simp only [List.append_assoc]⟩
    · by_cases h3 : k < (serAll recs).length + (serAll srecs).length + (serAll drecs.dropLast).length + 8
      · -- inside Data
        obtain ⟨z, rfl⟩ : ∃ z, k = (serAll recs).length + ((serAll body).length + z) :=
          ⟨k - (serAll recs).length - (serAll body).length, by omega⟩
        have hXs : serAll srecs ++ serAll drecs = serAll body ++ ((trec 5 p.id pad res).ser ++ serAll drecs) := by
          rw [hsr, C02.serAll_append, C02.serAll_single, List.append_assoc]; rfl
        rw [take_add_append, hXs, take_add_append] at hin
        have hZlen : (((trec 5 p.id pad res).ser ++ serAll drecs).take z).length = z := by
          rw [List.length_take, List.length_append, ser_length]
          have : (trec 5 p.id pad res).content.length = 0 := rfl
          have : (trec 5 p.id pad res).pad.length = pad.length := rfl
          omega
        obtain ⟨c', C2, O2, hrun, hph, _, hC2, hO2, hlog, hhs, hst, hr1, hre, hhe⟩ := eof_in_data_filter_e2e
          (p := p) (recs := recs) (srecs := srecs) (drecs := drecs) (content := content) (content2 := content2)
          (((trec 5 p.id pad res).ser ++ serAll drecs).take z) b mc data st t fuel hwf hrole hpairs hnoise hs hsn hd hdn
          (by rw [hdl, hXs]; exact (List.prefix_append_right_inj _).2 (List.take_prefix _ _))
          (by rw [hZlen]; omega) (by rw [hdl, hdl2, hZlen]; omega) (by rw [hdl]; exact hin) hb hem hev hfuel hlen7 hhf
        refine ⟨c', owedStream p.id 5 mc srecs ++ owedStream p.id 8 mc drecs, [], hrun, hph, List.append_nil _,
          ⟨owedPreamble p mc recs ++ (owedStream p.id 5 mc srecs ++ O2), by rw [hlog, List.append_assoc], ?_⟩, by omega,
          fun h => by omega, fun _ => ⟨hhs, hst⟩, fun _ h => by omega,
          fun _ _ => ⟨hr1, C2, hC2, hre, hhe⟩, fun h => by simp only [List.length_append] at h; omega⟩
        obtain ⟨z', hz'⟩ := hO2
        simp only [expectedLogN, List.append_assoc, ← hz']
        exact ⟨z' ++ (streamRecords 6 p.id data ++ ([] ++ epilogue p.id st)), by simp only [List.append_assoc]⟩
      · -- the whole wire
        have hge : (serAll recs ++ (serAll srecs ++ serAll drecs)).length ≤ k := by
          rcases hk with hk | hk
          · exact absurd hk h3
          · exact hk
        have hin' : t.input = serAll recs ++ (serAll srecs ++ serAll drecs) := by
          rw [hin, List.take_of_length_le hge]
        obtain ⟨c', fin, O1, O2, hrun, hO, ho⟩ := single_request_e2e_filter (data := data) (st := st) (fuel := fuel)
          hwf hrole hpairs hnoise hs hsn hd hdn hin' hb hev hfuel hsize hhf
        have hfinal : fin = "RET" ∧ c'.phase = .finished := by
          rcases ho.final with ⟨_, h, hph⟩ | ⟨_, _, h, hph⟩ | ⟨_, hp, _⟩
          · exact ⟨h, hph⟩
          · exact ⟨h, hph⟩
          · rw [hem] at hp; cases hp
        obtain ⟨rfl, hph⟩ := hfinal
        have hk' : ¬ k < (serAll recs).length := h1
        refine ⟨c', O1, O2, hrun, hph, hO, ⟨_, ho.log, List.prefix_refl _⟩, by rw [ho.one_handler.1]; omega,
          fun h => absurd h h1, fun _ => ho.one_handler, fun _ h => absurd h h2, fun _ h => absurd h h3,
          fun _ => ⟨ho.read_content _ (by simp), ho.read_content _ (by simp), ho.log⟩⟩

/-! ## Non-vacuity -/

/-- one byte short of the end of the Data body of `C07E.Example`'s Filter wire (inside the `"xyz"` record) -/
def exKF : Nat := (serAll C07E.Example.recsF).length + (serAll C07E.Example.fS).length +
  (serAll C07E.Example.fD.dropLast).length - 1

def exTF : Transport :=
  { input := (serAll C07E.Example.recsF ++ (serAll C07E.Example.fS ++ serAll C07E.Example.fD)).take exKF,
    endMode := .eof, rd := [.n 20, .pending, .n 30, .n 1, .pending, .all], wr := [.n 5, .pending, .all], fl := [] }

/-- The Filter run of `C07E.Example` with the input cut inside the Data record: Stdin `"AB"` is read
completely, the Data read fails with `UnexpectedEof` after a prefix of `"xyz"`. -/
example : ∃ c' C2, runTask 20 (connS 64 10 exTF [(canonicalF [33] (.complete 3), true)]) 0 none = (c', "RET") ∧
    c'.phase = .finished ∧ hsCount c'.env.tr.events = 1 ∧ readEvent [65, 66] ∈ c'.env.tr.events ∧
    C2 <+: [120, 121, 122] ∧ readEofEvent C2 ∈ c'.env.tr.events := by
  obtain ⟨c', O1, O2, h1, h2, _, _, _, _, h6, _, h8, _⟩ := eof_any_offset_filter_e2e (p := C07E.Example.preF)
    (recs := C07E.Example.recsF) (srecs := C07E.Example.fS) (drecs := C07E.Example.fD) (content := [65, 66])
    (content2 := [120, 121, 122]) (b := 64) (mc := 10) (data := [33]) (st := .complete 3) (t := exTF) (fuel := 20) exKF
    C07E.Example.recsF_wf rfl (fun q hq => by cases hq) (C07E.Example.recsF_fits _) C07E.Example.fS_ok
    (C07E.Example.no_getValues_fits (by decide)) C07E.Example.fD_ok C07E.Example.fD_fits rfl
    (Or.inl (by decide +kernel)) ⟨by decide, by decide, rfl, by decide⟩ rfl rfl (by decide) (by decide +kernel) (by decide)
  obtain ⟨hr1, C2, hC2, hre, _⟩ := h8 (by decide +kernel) (by decide +kernel)
  exact ⟨c', C2, h1, h2, (h6 (by decide +kernel)).1, hr1, hC2, hre⟩

end Fcgi.C12E
