import Fcgi.Proofs.E2ETrunc2NF
import Fcgi.Props.C12Unbounded
import Fcgi.Props.C07NoFuel

/-!
# C12 end to end without the model-fuel hypothesis (Responder)

The `_unbounded` fault theorems of `Props/C12Unbounded.lean` for a Responder, minus `hhf : wcost |data| + 12 ≤ 1000`
(the model's handler fuel pays for the script, `Props/C07ScriptFuel.lean`; recipe of `Proofs/E2ENoFuel.lean`, here
`Proofs/E2ETrunc2NF.lean` for the cut terminating record): EOF at ANY offset, the transport failing at any offset, a
failing write / an erroring read at any answer index.  Each `X_nofuel` is stated exactly like `X_unbounded` minus `hhf`.
The Filter / Authorizer any-offset theorems still carry it (engines `E2ETrunc3`, `E2EAuthEofEnd` not yet transformed).
-/
namespace Fcgi.C12E
open Fcgi Fcgi.Req Fcgi.Str Fcgi.Async Fcgi.Run Fcgi.Spec Fcgi.E2E Fcgi.C07E Fcgi.C07U Fcgi.C12Inv Fcgi.Indep3 Fcgi.EofErr

/-- **`eof_in_terminator_e2e_unbounded` without `hhf`**: no bound on the handler's output. -/
theorem eof_in_terminator_e2e_nofuel {p : Preamble} {recs : List Rec} {content : Bytes} {srecs : List Rec}
    {b mc : Nat} {data : Bytes} {st : ExitStatus} {t : Transport} {fuel : Nat} (k : Nat)
    (hwf : WellFormedPreamble p recs) (hrole : p.role = 1)
    (hpairs : ∀ q ∈ p.pairs, (NV.enc q).length ≤ alignedBufsize b)
    (hnoise : NoiseFits (alignedBufsize b) recs)
    (hs : StreamRecs p.id 5 content srecs) (hsn : NoiseFits (alignedBufsize b) srecs)
    (hk : (serAll recs).length + (serAll srecs.dropLast).length + 8 ≤ k)
    (hin : t.input = (serAll recs ++ serAll srecs).take k) (hben : Ben t) (hem : t.endMode = .eof)
    (hev : hsCount t.events = 0) (hfuel : t.rd.length + t.wr.length + 1 ≤ fuel) :
    ∃ c' O₁ O₂, runTask fuel (conn0 b mc t data st) 0 none = (c', "RET") ∧
      O₁ ++ O₂ = owedStream p.id 5 mc srecs ∧ c'.phase = .finished ∧
      c'.env.tr.wlog = t.wlog ++ expectedLogN p recs mc data st O₁ O₂ ∧
      hsCount c'.env.tr.events = 1 ∧ startEvent p.request ∈ c'.env.tr.events ∧
      readEvent content ∈ c'.env.tr.events := by
  by_cases hlt : k < (serAll recs ++ serAll srecs).length
  · obtain ⟨body, pad, res, hpad, hbody, hsrecs⟩ := Str.StreamRecs.split hs
    have hdl : srecs.dropLast = body := by rw [hsrecs]; exact List.dropLast_concat
    rw [hdl] at hk
    have hsb : NoiseFits (alignedBufsize b) body := fun r hr => hsn r (by rw [hsrecs]; simp [hr])
    have ok : (cfgR p recs content body pad res b mc data st t.wlog 0 []).OKn :=
      ⟨hwf, hpairs, hnoise, .responderU hrole hbody hsb hpad rfl rfl rfl rfl rfl rfl⟩
    have hser : serAll srecs = serAll body ++ (trec 5 p.id pad res).ser := by
      rw [hsrecs, C02.serAll_append, C02.serAll_single]; rfl
    rw [hser] at hin hlt
    obtain ⟨n, rfl⟩ : ∃ n, k = (serAll recs).length + ((serAll body).length + n) :=
      ⟨k - (serAll recs).length - (serAll body).length, by omega⟩
    have h8 : 8 ≤ n := by omega
    have hn : n < (trec 5 p.id pad res).ser.length := by
      simp only [List.length_append] at hlt; omega
    rw [take_add_append, take_add_append] at hin
    have ok2 := cfg2_cutN ok hrole h8 hn
    have hstage : Stage (cutCfg (cfgR p recs content body pad res b mc data st t.wlog 0 []) n)
        (conn0 b mc t data st) :=
      .start (raw := []) rfl (by show [] ++ t.input = _; rw [hin]; rfl) (Nat.zero_le _) rfl hben rfl rfl rfl hev
    obtain ⟨c', O1, O2, hO, hrun, hfin⟩ := run_from_stage2N' ok2 (ans t) (conn0 b mc t data st) 0 fuel hstage hem rfl
      (Nat.le_refl _) (by unfold ans; omega)
    have hOt : owedStream p.id 5 mc srecs = owedStream p.id 5 mc body := by
      rw [hsrecs, owedStream_append, owedStream_term p.id 5 mc _ rfl, List.append_nil]
    have hlog : c'.env.tr.wlog = (cfgR p recs content body pad res b mc data st t.wlog 0 []).L3 O1 O2 := hfin.log
    rw [L3_eq] at hlog
    have hev1 : hsCount c'.env.tr.events = 0 + 1 ∧ hsEvent p.request ∈ c'.env.tr.events := hfin.ev
    exact ⟨c', O1, O2, hrun, hO.trans hOt.symm, hfin.ph, hlog, hev1.1, hev1.2,
      hfin.re _ (by show rEvent content ∈ [rEvent content]; simp)⟩
  · have hin' : t.input = serAll recs ++ serAll srecs := by
      rw [hin, List.take_of_length_le (by omega)]
    obtain ⟨c', fin, O1, O2, hrun, hO, ho⟩ :=
      single_request_e2e_nofuel (data := data) (st := st) (fuel := fuel) hwf hrole hpairs hnoise hs hsn hin' hben hev hfuel
    rcases ho.final with ⟨_, rfl, hph⟩ | ⟨_, _, rfl, hph⟩ | ⟨_, hp, _⟩
    · exact ⟨c', O1, O2, hrun, hO, hph, ho.log, ho.one_handler.1, ho.one_handler.2, ho.read_content⟩
    · exact ⟨c', O1, O2, hrun, hO, hph, ho.log, ho.one_handler.1, ho.one_handler.2, ho.read_content⟩
    · rw [hem] at hp; cases hp

/-- **`eof_any_offset_e2e_unbounded` without `hhf`**: no bound on the handler's output. -/
theorem eof_any_offset_e2e_nofuel {p : Preamble} {recs : List Rec} {content : Bytes} {srecs : List Rec}
    {b mc : Nat} {data : Bytes} {st : ExitStatus} {t : Transport} {fuel : Nat} (k : Nat)
    (hwf : WellFormedPreamble p recs) (hrole : p.role = 1)
    (hpairs : ∀ q ∈ p.pairs, (NV.enc q).length ≤ alignedBufsize b)
    (hnoise : NoiseFits (alignedBufsize b) recs)
    (hs : StreamRecs p.id 5 content srecs) (hsn : NoiseFits (alignedBufsize b) srecs)
    (hin : t.input = (serAll recs ++ serAll srecs).take k) (hben : Ben t) (hem : t.endMode = .eof)
    (hev : hsCount t.events = 0) (hfuel : t.rd.length + t.wr.length + 1 ≤ fuel) :
    ∃ c' O₁ O₂, runTask fuel (conn0 b mc t data st) 0 none = (c', "RET") ∧ c'.phase = .finished ∧
      O₁ ++ O₂ = owedStream p.id 5 mc srecs ∧
      -- the log is a byte prefix of a complete log
      (∃ w, c'.env.tr.wlog = t.wlog ++ w ∧ w <+: expectedLogN p recs mc data st O₁ O₂) ∧
      -- at most one handler start; none for an incomplete preamble
      hsCount c'.env.tr.events ≤ 1 ∧
      (k < (serAll recs).length → hsCount c'.env.tr.events = 0) ∧
      ((serAll recs).length ≤ k → hsCount c'.env.tr.events = 1 ∧ startEvent p.request ∈ c'.env.tr.events) ∧
      -- a `readAll` that cannot be completed fails with `UnexpectedEof`, after a prefix of the content
      ((serAll recs).length ≤ k → k < (serAll recs).length + (serAll srecs.dropLast).length + 8 →
        ∃ C, C <+: content ∧ readEofEvent C ∈ c'.env.tr.events ∧ handlerEofEvent ∈ c'.env.tr.events) ∧
      -- behind the header of the terminating record: everything is read, everything is answered
      ((serAll recs).length + (serAll srecs.dropLast).length + 8 ≤ k →
        readEvent content ∈ c'.env.tr.events ∧
        c'.env.tr.wlog = t.wlog ++ expectedLogN p recs mc data st O₁ O₂) := by
  by_cases h1 : k < (serAll recs).length
  · -- inside the preamble
    obtain ⟨c', hrun, hph, _, hhs, _, hlog, hpre⟩ := eof_in_preamble_e2e_partial_unbounded (p := p) (recs := recs) (serAll srecs)
      b mc k [(canonical data st, true)] t fuel hwf hpairs hnoise h1 hin hben hem hfuel
    refine ⟨c', owedStream p.id 5 mc srecs, [], hrun, hph, List.append_nil _, ⟨_, hlog, ?_⟩, by omega,
      fun _ => hhs.trans hev, fun h => by omega, fun h => by omega, fun h => by omega⟩
    refine hpre.trans ?_
    simp only [expectedLogN, List.append_assoc]
    exact List.prefix_append _ _
  · by_cases h2 : k < (serAll recs).length + (serAll srecs.dropLast).length + 8
    · -- inside the stream, in front of the 8th byte of the terminating record
      obtain ⟨j, rfl⟩ : ∃ j, k = (serAll recs).length + j := ⟨k - (serAll recs).length, by omega⟩
      rw [take_add_append] at hin
      obtain ⟨c', C, O, hrun, hph, _, hC, hO, hlog, hhs, hst, hre, hhe⟩ := eof_mid_stream_e2e_body_unbounded
        (p := p) (recs := recs) (srecs := srecs) (content := content) ((serAll srecs).take j) b mc data st t fuel
        hwf hrole hpairs hnoise hs hsn (List.take_prefix _ _)
        (by have := List.length_take_le j (serAll srecs); omega) hin hben hem hfuel
      have hhs1 : hsCount c'.env.tr.events = 1 := by rw [hhs, hev]
      refine ⟨c', owedStream p.id 5 mc srecs, [], hrun, hph, List.append_nil _,
        ⟨owedPreamble p mc recs ++ O, by rw [hlog, List.append_assoc], ?_⟩, by omega,
        fun h => by omega, fun _ => ⟨hhs1, hst⟩, fun _ _ => ⟨C, hC, hre, hhe⟩, fun h => by omega⟩
      obtain ⟨z, hz⟩ := hO
      simp only [expectedLogN, List.append_assoc, ← hz]
      exact ⟨z ++ (streamRecords 6 p.id data ++ ([] ++ epilogue p.id st)), by simp only [List.append_assoc]⟩
    · -- behind the header of the terminating record
      obtain ⟨c', O1, O2, hrun, hO, hph, hlog, hhs, hst, hre⟩ := eof_in_terminator_e2e_nofuel (data := data) (st := st)
        (fuel := fuel) k hwf hrole hpairs hnoise hs hsn (by omega) hin hben hem hev hfuel
      exact ⟨c', O1, O2, hrun, hph, hO, ⟨_, hlog, List.prefix_refl _⟩, by omega, fun h => by omega,
        fun _ => ⟨hhs, hst⟩, fun _ h => by omega, fun _ => ⟨hre, hlog⟩⟩

/-- **`read_err_any_offset_e2e_unbounded` without `hhf`**: no bound on the handler's output. -/
theorem read_err_any_offset_e2e_nofuel {p : Preamble} {recs : List Rec} {content : Bytes} {srecs : List Rec}
    {b mc : Nat} {data : Bytes} {st : ExitStatus} {t : Transport} {fuel : Nat} (k : Nat)
    (hwf : WellFormedPreamble p recs) (hrole : p.role = 1)
    (hpairs : ∀ q ∈ p.pairs, (NV.enc q).length ≤ alignedBufsize b)
    (hnoise : NoiseFits (alignedBufsize b) recs)
    (hs : StreamRecs p.id 5 content srecs) (hsn : NoiseFits (alignedBufsize b) srecs)
    (hin : t.input = (serAll recs ++ serAll srecs).take k) (hben : Ben t) (hem : t.endMode = .eof)
    (hev : hsCount t.events = 0) (hfuel : t.rd.length + t.wr.length + 1 ≤ fuel) :
    ∃ c' O₁ O₂, runTask fuel (conn0 b mc (em .err t) data st) 0 none = (c', "RET") ∧ c'.phase = .finished ∧
      O₁ ++ O₂ = owedStream p.id 5 mc srecs ∧
      (∃ w, c'.env.tr.wlog = t.wlog ++ w ∧ w <+: expectedLogN p recs mc data st O₁ O₂) ∧
      hsCount c'.env.tr.events ≤ 1 ∧
      (k < (serAll recs).length → hsCount c'.env.tr.events = 0) ∧
      ((serAll recs).length ≤ k → hsCount c'.env.tr.events = 1 ∧ startEvent p.request ∈ c'.env.tr.events) ∧
      ((serAll recs).length + (serAll srecs.dropLast).length + 8 ≤ k →
        c'.env.tr.wlog = t.wlog ++ expectedLogN p recs mc data st O₁ O₂) ∧
      -- the relation to the EOF run
      ∃ ce, runTask fuel (conn0 b mc t data st) 0 none = (ce, "RET") ∧ (c' = emC .err ce ∨ HitC ce c') := by
  obtain ⟨ce, O1, O2, hrun, hph, hO, ⟨w, hw1, hw2⟩, h5, h6, h7, _, h9⟩ := eof_any_offset_e2e_nofuel (data := data) (st := st)
    (fuel := fuel) k hwf hrole hpairs hnoise hs hsn hin hben hem hev hfuel
  obtain ⟨c', hr, a1, a2, a3, _, _, a6, a7⟩ := eof_err_lift (c := conn0 b mc t data st) (connS_allProp b mc t (canonical data st) [] (fun _ h => nomatch h)) hem hrun
  refine ⟨c', O1, O2, hr, a1.trans hph, hO, ⟨w, a2.trans hw1, hw2⟩, by rw [a3]; exact h5,
    fun h => a3.trans (h6 h), fun h => ⟨a3.trans (h7 h).1, a6 _ (isHS_start _) (h7 h).2⟩,
    fun h => a2.trans (h9 h).2, ce, hrun, a7⟩

/-- **`write_error_e2e_unbounded` without `hhf`**: no bound on the handler's output. -/
theorem write_error_e2e_nofuel {p : Preamble} {recs : List Rec} {content : Bytes} {srecs : List Rec}
    {b mc : Nat} {data : Bytes} {st : ExitStatus} {t : Transport} {fuel : Nat}
    (pre post : List WrAns) (bad : WrAns) (hbad : bad = .err ∨ bad = .zero) (hwr : t.wr = pre ++ bad :: post)
    (hwf : WellFormedPreamble p recs) (hrole : p.role = 1)
    (hpairs : ∀ q ∈ p.pairs, (NV.enc q).length ≤ alignedBufsize b)
    (hnoise : NoiseFits (alignedBufsize b) recs)
    (hs : StreamRecs p.id 5 content srecs) (hsn : NoiseFits (alignedBufsize b) srecs)
    (hin : t.input = serAll recs ++ serAll srecs) (hben : Ben { t with wr := pre }) (hev : hsCount t.events = 0)
    (hfuel : t.rd.length + pre.length + 1 ≤ fuel) :
    ∃ c' fin O₁ O₂, runTask fuel (conn0 b mc t data st) 0 none = (c', fin) ∧
      O₁ ++ O₂ = owedStream p.id 5 mc srecs ∧
      (-- the failing answer is never reached: the benign outcome, `bad :: post` still in the script
       (∃ c1, c' = extC ⟨[], bad :: post, []⟩ c1 ∧
          OutcomeN p content b mc t.wlog (expectedLogN p recs mc data st O₁ O₂) { t with wr := pre } c1 fin) ∨
       -- it is consumed
       (fin = "RET" ∧ c'.phase = .finished ∧
        -- what was written is a prefix of the complete log
        (∃ w, c'.env.tr.wlog = t.wlog ++ w ∧ w <+: expectedLogN p recs mc data st O₁ O₂) ∧
        -- (a) at most one handler start
        hsCount c'.env.tr.events ≤ 1 ∧
        -- (b) the error; if the handler got it, the trace ends with the handler returning it
        (∃ e inH, WrErrOf bad e ∧ (inH = true → ∃ evs, c'.env.tr.events = evs ++ [handlerErrEv e])) ∧
        -- (c) the failing call was the last transport write: nothing was written after it
        (∃ t1 t2, Clean t t1 ∧ FailCall t1 t2 ∧ WSame t2 c'.env.tr ∧ c'.env.tr.wlog = t1.wlog))) := by
  have hX : Bad ⟨[], bad :: post, []⟩ :=
    ⟨Or.inl rfl, Or.inr ⟨bad, post, rfl, by rcases hbad with rfl | rfl <;> rfl⟩, Or.inl rfl⟩
  obtain ⟨c1, fin1, O1, O2, hrun1, hO, ho⟩ :=
    single_request_e2e_nofuel (data := data) (st := st) (fuel := fuel) (t := { t with wr := pre }) hwf hrole hpairs hnoise hs hsn
      hin hben hev hfuel
  have ht : t = ext ⟨[], bad :: post, []⟩ { t with wr := pre } := by
    obtain ⟨input, endMode, rd, wr, fl, wlog, events, hold, woken, readWaker, abortKind⟩ := t
    simp only at hwr
    subst hwr
    simp [ext]
  have hc : conn0 b mc t data st = extC ⟨[], bad :: post, []⟩ (conn0 b mc { t with wr := pre } data st) := by
    conv => lhs; rw [ht]
    rfl
  rcases Indep3.runTask_dich hX fuel (conn0 b mc { t with wr := pre } data st) 0 none (conn0_allProp _ _ _ _ _) with
    hsame | ⟨c2, h2, hhit⟩
  · rw [hrun1] at hsame
    exact ⟨extC ⟨[], bad :: post, []⟩ c1, fin1, O1, O2, by rw [hc]; exact hsame, hO, Or.inl ⟨c1, rfl, ho⟩⟩
  · rw [hrun1] at hhit
    simp only at hhit
    have hp2 := conn0_allProp b mc t data st
    have hrun2 : runTask fuel (conn0 b mc t data st) 0 none = (c2, "RET") := by rw [hc]; exact h2
    obtain ⟨⟨w, hw⟩, _⟩ := Indep3.runTask_grow fuel (conn0 b mc t data st) 0 none
    rw [hrun2] at hw
    have hw' : c2.env.tr.wlog = t.wlog ++ w := hw
    have hpre := hhit.rel.log
    rw [hw', ho.log] at hpre
    -- the failing answer was consumed
    have hwf' : WriteFailed t c2.env.tr := by
      rcases hhit.rel.used with ⟨_, _, h, _⟩ | ⟨b', post', h, hsuf⟩ | ⟨_, _, h, _⟩
      · cases h
      · simp only [List.cons.injEq] at h
        obtain ⟨rfl, rfl⟩ := h
        obtain ⟨z, hz⟩ := hsuf
        left
        refine ⟨pre ++ bad :: z, by rw [hwr, ← hz]; simp, bad, by simp, by rcases hbad with rfl | rfl <;> rfl⟩
      · cases h
    obtain ⟨_, _, t1, t2, hcl, hfc, hws, hlog⟩ := runTask_write_failure hp2 hrun2 hwf'
    obtain ⟨e, inH, he, hlast⟩ := hhit.err
    have he' : WrErrOf bad e := by
      rcases he with ⟨⟨_, h⟩, _⟩ | ⟨⟨_, h⟩, h2⟩ | ⟨⟨_, h⟩, h2⟩ | ⟨⟨_, h⟩, _⟩
      · cases h
      · simp only [List.cons.injEq] at h; exact Or.inl ⟨h.1, h2⟩
      · simp only [List.cons.injEq] at h; exact Or.inr ⟨h.1, h2⟩
      · cases h
    refine ⟨c2, "RET", O1, O2, hrun2, hO, Or.inr ⟨rfl, hhit.ph, ⟨w, hw', (List.prefix_append_right_inj _).1 hpre⟩, ?_,
      ⟨e, inH, he', hlast⟩, t1, t2, hcl, hfc, hws, hlog⟩⟩
    have := hhit.rel.hs
    rw [ho.one_handler.1] at this
    exact this

/-- **`read_error_at_index_e2e_unbounded` without `hhf`**: no bound on the handler's output. -/
theorem read_error_at_index_e2e_nofuel {p : Preamble} {recs : List Rec} {content : Bytes} {srecs : List Rec}
    {b mc : Nat} {data : Bytes} {st : ExitStatus} {t : Transport} {fuel : Nat}
    (pre post : List RdAns) (hrd : t.rd = pre ++ .err :: post)
    (hwf : WellFormedPreamble p recs) (hrole : p.role = 1)
    (hpairs : ∀ q ∈ p.pairs, (NV.enc q).length ≤ alignedBufsize b)
    (hnoise : NoiseFits (alignedBufsize b) recs)
    (hs : StreamRecs p.id 5 content srecs) (hsn : NoiseFits (alignedBufsize b) srecs)
    (hin : t.input = serAll recs ++ serAll srecs) (hben : Ben { t with rd := pre }) (hev : hsCount t.events = 0)
    (hfuel : pre.length + t.wr.length + 1 ≤ fuel) :
    ∃ c' fin O₁ O₂, runTask fuel (conn0 b mc t data st) 0 none = (c', fin) ∧
      O₁ ++ O₂ = owedStream p.id 5 mc srecs ∧
      ((∃ c1, c' = extC ⟨.err :: post, [], []⟩ c1 ∧
          OutcomeN p content b mc t.wlog (expectedLogN p recs mc data st O₁ O₂) { t with rd := pre } c1 fin) ∨
       (fin = "RET" ∧ c'.phase = .finished ∧
        (∃ w, c'.env.tr.wlog = t.wlog ++ w ∧ w <+: expectedLogN p recs mc data st O₁ O₂) ∧
        hsCount c'.env.tr.events ≤ 1 ∧
        (∃ e inH, (e = .connectionAborted ∨ e = .transportRead) ∧
          (inH = true → ∃ evs, c'.env.tr.events = evs ++ [handlerErrEv e])))) := by
  have hX : Bad ⟨.err :: post, [], []⟩ := ⟨Or.inr ⟨post, rfl⟩, Or.inl rfl, Or.inl rfl⟩
  obtain ⟨c1, fin1, O1, O2, hrun1, hO, ho⟩ :=
    single_request_e2e_nofuel (data := data) (st := st) (fuel := fuel) (t := { t with rd := pre }) hwf hrole hpairs hnoise hs hsn
      hin hben hev hfuel
  have ht : t = ext ⟨.err :: post, [], []⟩ { t with rd := pre } := by
    obtain ⟨input, endMode, rd, wr, fl, wlog, events, hold, woken, readWaker, abortKind⟩ := t
    simp only at hrd
    subst hrd
    simp [ext]
  have hc : conn0 b mc t data st = extC ⟨.err :: post, [], []⟩ (conn0 b mc { t with rd := pre } data st) := by
    conv => lhs; rw [ht]
    rfl
  rcases Indep3.runTask_dich hX fuel (conn0 b mc { t with rd := pre } data st) 0 none (conn0_allProp _ _ _ _ _) with
    hsame | ⟨c2, h2, hhit⟩
  · rw [hrun1] at hsame
    exact ⟨extC ⟨.err :: post, [], []⟩ c1, fin1, O1, O2, by rw [hc]; exact hsame, hO, Or.inl ⟨c1, rfl, ho⟩⟩
  · rw [hrun1] at hhit
    simp only at hhit
    have hrun2 : runTask fuel (conn0 b mc t data st) 0 none = (c2, "RET") := by rw [hc]; exact h2
    obtain ⟨⟨w, hw⟩, _⟩ := Indep3.runTask_grow fuel (conn0 b mc t data st) 0 none
    rw [hrun2] at hw
    have hw' : c2.env.tr.wlog = t.wlog ++ w := hw
    have hpre := hhit.rel.log
    rw [hw', ho.log] at hpre
    obtain ⟨e, inH, he, hlast⟩ := hhit.err
    have he' : e = .connectionAborted ∨ e = .transportRead := by
      rcases he with ⟨_, h2⟩ | ⟨⟨_, h⟩, _⟩ | ⟨⟨_, h⟩, _⟩ | ⟨⟨_, h⟩, _⟩
      · exact h2
      · cases h
      · cases h
      · cases h
    refine ⟨c2, "RET", O1, O2, hrun2, hO, Or.inr ⟨rfl, hhit.ph, ⟨w, hw', (List.prefix_append_right_inj _).1 hpre⟩, ?_,
      e, inH, he', hlast⟩⟩
    have := hhit.rel.hs
    rw [ho.one_handler.1] at this
    exact this

/-! ## Non-vacuity: 70 000 000 bytes of output, the wire cut inside the Stdin record -/
namespace ExampleNoFuel12
open Fcgi.C01.Example Fcgi.C07E.Example Fcgi.C07E.ExampleNoFuel

/-- `hhf` of `eof_any_offset_e2e_unbounded` fails for `bigData` (`C07E.ExampleNoFuel.old_hhf_fails`); the `_nofuel` theorem
applies: cut nine bytes behind the preamble, the task returns, one handler start -/
example : ¬ (wcost bigData.length + 12 ≤ 1000) ∧
    ∃ c', runTask 20 (conn0 64 10
      { input := (serAll recs ++ serAll exS).take ((serAll recs).length + 9), endMode := .eof,
        rd := [.n 20, .pending], wr := [], fl := [] } bigData (.complete 0)) 0 none = (c', "RET") ∧
      c'.phase = .finished ∧ hsCount c'.env.tr.events = 1 := by
  refine ⟨old_hhf_fails, ?_⟩
  obtain ⟨c', O1, O2, h1, h2, _, _, _, _, h7, _⟩ := eof_any_offset_e2e_nofuel (p := pre) (recs := recs)
    (content := [65, 66, 67]) (srecs := exS) (b := 64) (mc := 10) (data := bigData) (st := .complete 0) (fuel := 20)
    (t := { input := (serAll recs ++ serAll exS).take ((serAll recs).length + 9), endMode := .eof,
            rd := [.n 20, .pending], wr := [], fl := [] })
    ((serAll recs).length + 9) recs_wf rfl (pre_pairs_fit 64) (noise_fits 64) exS_ok (exS_fits _) rfl
    ⟨by decide, by decide, rfl, by decide⟩ rfl rfl (by decide)
  exact ⟨c', h1, h2, (h7 (by omega)).1⟩

end ExampleNoFuel12

end Fcgi.C12E
