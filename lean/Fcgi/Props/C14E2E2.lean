import Fcgi.Proofs.E2EStop2
import Fcgi.Props.C14E2E

/-!
# C14(a) — end to end: shutdown requested at an arbitrary poll of a connection serving TWO requests

Two requests `q₁` (KEEP_CONN), `q₂` of any roles (`C07E.Sent`, the hypotheses of `k_requests_e2e`), one
connection, the closed-loop client of `k_requests_e2e`: it sends `q₂` when the task has parked behind
the answer to `q₁` (`Parked`: `EndRequest(1)` is in the write log, the input is used up).  The executor
is `C14E.runFeed` = the model's `runTask` (`runFeed_nil`: equal when nothing is left to send) whose
"parked" branch hands the next wire to the transport (`feedA`) and polls again; the stop flag is
raised at the start of poll `j` (absolute poll number, as in `runTask … (some j)`).

`stop_any_poll_e2e` — for EVERY `j` the task returns (`RET`, `finished`) and, `SentStop` saying how far
a request got when the flag was seen,

* the flag is seen before the client has sent `q₂` (`SentStop q₁`): by `q₁`'s own `parse_request` — no
  handler start, the log a prefix of the preamble's replies —, or after `q₁` was answered (while it
  was in flight — handler, `close` — or by the `parse_request` of the reused connection in the poll
  that completed `close`): one handler start, the log is (a prefix of, see `exact` below) the
  complete answer to `q₁`, `q₂`'s handler script is still unused;
* or `q₂` was sent: then the COMPLETE answer to `q₁` (`L₁`, with its `EndRequest`) is a prefix of the
  write log, and (`SentStop q₂` started at `L₁`)
  - BETWEEN the requests — the flag is up when `q₂`'s `parse_request` is polled, at the latest in the
    poll in which its handler would have been started: `hsCount = 1`, `q₂`'s handler NEVER starts,
    its script is unused, the log is `L₁ ++` a prefix of the replies owed for `q₂`'s preamble; the
    `parse_request` that sees the flag makes no transport call (`stop_in_parse_request`: `RET` in
    that very poll, input and log untouched — "without reading further");
  - WHILE `q₂` IS IN FLIGHT or later: both handlers ran (`hsCount = 2`), `q₂`'s reads returned its
    contents, and the log is `L₁ ++` the answer to `q₂` (again up to `exact`), then `RET`.

`exact` (unchanged from `C14E2E`, NOT strengthened): `log ++ rest = complete answer`; `rest = []` is
proved in `Proofs/E2EStop` whenever the flag is seen out of `close` (request in flight) or by an idle
`parse_request` suspended in its READ; the one corner left is an idle `parse_request` suspended in a
`write_all` — unreachable (it owes no reply for the unread terminator record), but `E2E.PSt` carries
no bound `rest ≤ parser output`, and `Stage.idle` is built from `PSt` inside `E2EConn.close_core` /
`idle_poll`, so the bound would have to be added to `PSt` itself (one conjunct `∃ pre, out F = pre ++
rest` in its second disjunct, maintained by `parse_loop`) — an edit of a registered file of another
owner, not a new file.  What IS proved unconditionally: `L₁ <+: log` (the first `EndRequest`), by
`runTask_grow`.
-/
namespace Fcgi.C14E
open Fcgi Fcgi.Req Fcgi.Str Fcgi.Async Fcgi.Run Fcgi.Spec Fcgi.E2E Fcgi.C07E

/-- **`parse_request` polled with the flag up returns at once**: `RET` in that poll, the only new
trace event is the poll marker (no `R…`/`W…`: no transport call), input and write log untouched —
whatever is buffered or waiting in the transport. -/
theorem stop_in_parse_request (c : Conn) (rp : Req.Parser) (sub : PRSub) (n fuel : Nat)
    (hph : c.phase = .parseReq rp sub) (hsegs : c.env.segs = []) :
    ∃ c', runTask (fuel + 1) c n (some n) = (c', "RET") ∧ c'.phase = .finished ∧
      c'.env.tr.events = c.env.tr.events ++ [s!"|{n}"] ∧ c'.env.tr.input = c.env.tr.input ∧
      c'.env.tr.wlog = c.env.tr.wlog ∧ c'.scripts = c.scripts := by
  have hp : prePoll c n (some n) =
      { ({ c with stop := true } : Conn) with
        env := ({ c.env with tr := { c.env.tr with hold := false, woken := false } } : Run.Env).ev s!"|{n}" } := by
    rw [prePoll_eq]
    exact prePoll_nil { c with stop := true } n hsegs
  have hstep := step_stop (prePoll c n (some n)) rp sub (by rw [hp]; exact hph) (by rw [hp])
  have hpoll := (Halts.now hstep).pollT (by omega)
  rw [runTask_succ, hpoll]
  refine ⟨_, rfl, rfl, ?_, ?_, ?_, ?_⟩ <;> rw [hp] <;> rfl

/-- How far request `q` — started at write log `L` after `h` handler starts, `more` = the scripts of the
requests after it — got when the task returned:
(0) the flag was seen by its own `parse_request`: its handler was never started;
(1) it was answered (`rest = []` except in the `exact` corner, see the file header). -/
def SentStop (mc : Nat) (q : Sent) (L : Bytes) (h : Nat) (more : List (List HOp × Bool)) (c' : Conn) : Prop :=
  (hsCount c'.env.tr.events = h ∧ c'.env.tr.wlog <+: L ++ owedPreamble q.p mc q.recs ∧
      c'.scripts = q.handler :: more) ∨
  (∃ O₁ O₂ rest, O₁ ++ O₂ = q.owed mc ∧
      c'.env.tr.wlog ++ rest = L ++ expectedLogN q.p q.recs mc q.data q.st O₁ O₂ ∧
      hsCount c'.env.tr.events = h + 1 ∧ startEvent q.p.request ∈ c'.env.tr.events ∧
      (∀ d ∈ q.reads, readEvent d ∈ c'.env.tr.events) ∧ c'.scripts = more)

theorem sentStop_of {b mc : Nat} {q : Sent} {L : Bytes} {h : Nat} {more : List (List HOp × Bool)} {c' : Conn}
    (hs : StopOut (q.cfg b mc L h more) c') : c'.phase = .finished ∧ SentStop mc q L h more c' := by
  have hreads : ∀ (re : ∀ s ∈ (q.cfg b mc L h more).revs, s ∈ c'.env.tr.events),
      ∀ d ∈ q.reads, readEvent d ∈ c'.env.tr.events := by
    intro re d hd
    exact re _ (by rw [cfg_revs]; exact List.mem_map_of_mem hd)
  rcases hs with (he | ⟨O1, O2, ex, hO, hd⟩) | ⟨O1, O2, hO, hf⟩
  · refine ⟨he.ph, Or.inl ⟨?_, ?_, ?_⟩⟩
    · have := he.hs; rwa [cfg_hs0] at this
    · have := he.log; rwa [cfg_L0, cfg_p, cfg_mc, cfg_recs] at this
    · have := he.sc; rwa [cfg_more, cfg_hscript] at this
  · obtain ⟨rest, hl, _⟩ := hd.log
    rw [cfg_L3] at hl
    have hev := hd.ev
    refine ⟨hd.ph, Or.inr ⟨O1, O2, rest, by rw [← cfg_Ot b mc L h more q]; exact hO, hl, ?_, ?_, hreads hd.re, ?_⟩⟩
    · have := hev.1; rwa [cfg_hs0] at this
    · have := hev.2; rwa [cfg_p] at this
    · have := hd.sc; rwa [cfg_more] at this
  · have hl := hf.log
    rw [cfg_L3] at hl
    have hev := hf.ev
    refine ⟨hf.ph, Or.inr ⟨O1, O2, [], by rw [← cfg_Ot b mc L h more q]; exact hO, by rw [List.append_nil]; exact hl,
      ?_, ?_, hreads hf.re, ?_⟩⟩
    · have := hev.1; rwa [cfg_hs0] at this
    · have := hev.2; rwa [cfg_p] at this
    · have := hf.sc; rwa [cfg_more] at this

/-- **Shutdown requested at poll `j`, two requests on one connection.** -/
theorem stop_any_poll_e2e {b mc : Nat} (q₁ q₂ : Sent) {t : Transport} {fuel : Nat} (j : Nat)
    (hok₁ : q₁.OK b) (hok₂ : q₂.OK b) (hkeep : q₁.p.flags.toNat % 2 = 1)
    (hin : t.input = q₁.wire) (hben : Ben t) (hev : hsCount t.events = 0)
    (hfuel : t.rd.length + t.wr.length + 3 ≤ fuel) :
    ∃ c', runFeed fuel (connK b mc t [q₁, q₂]) 0 (some j) [q₂.wire] = (c', "RET") ∧ c'.phase = .finished ∧
      (-- the flag is seen before the client has sent `q₂`
       SentStop mc q₁ t.wlog 0 [q₂.handler] c' ∨
       -- `q₂` was sent: the complete answer to `q₁` is in the log
       ∃ O₁ O₂, O₁ ++ O₂ = q₁.owed mc ∧
         (t.wlog ++ expectedLogN q₁.p q₁.recs mc q₁.data q₁.st O₁ O₂) <+: c'.env.tr.wlog ∧
         SentStop mc q₂ (t.wlog ++ expectedLogN q₁.p q₁.recs mc q₁.data q₁.st O₁ O₂) 1 [] c') := by
  have hstage : Stage (q₁.cfg b mc t.wlog 0 [q₂.handler]) (connK b mc t [q₁, q₂]) :=
    .start (raw := [])
      (by show Phase.parseReq (Req.Parser.new b mc) .start =
            .parseReq ⟨alignedBufsize (q₁.cfg b mc t.wlog 0 [q₂.handler]).b, [], .header,
              (q₁.cfg b mc t.wlog 0 [q₂.handler]).mc⟩ .start
          rw [cfg_b, cfg_mc]; rfl)
      (by show [] ++ t.input = _; rw [cfg_W, hin]; rfl) (Nat.zero_le _) (cfg_L0 ..).symm hben rfl
      (by rw [cfg_more, cfg_hscript]; rfl) rfl (by rw [cfg_hs0]; exact hev)
  have hl : Linked (q₁.cfg b mc t.wlog 0 [q₂.handler]) (q₂.cfg b mc [] 1 []) :=
    ⟨by rw [cfg_b, cfg_b], by rw [cfg_mc, cfg_mc], by rw [cfg_hs0, cfg_hs0],
      by rw [cfg_more, cfg_more, cfg_hscript], by rw [cfg_p]; exact hkeep⟩
  obtain ⟨c', hrun, hout⟩ := run_stop2 (cfg_ok hok₁ t.wlog 0 [q₂.handler]) (cfg_ok hok₂ [] 1 []) hl j
    (c := connK b mc t [q₁, q₂]) (n := 0) (fuel := fuel) hstage rfl (Nat.zero_le _)
    (by show ans t + 3 ≤ fuel; unfold ans; omega)
    (by show 4 * t.input.length + 17 ≤ 100000; rw [hin]; exact hok₁.hsize)
    (by rw [cfg_W]; exact hok₂.hsize)
  rw [cfg_W] at hrun
  rcases hout with h1 | ⟨O1, O2, hO, hpre, h2⟩
  · obtain ⟨hph, hs⟩ := sentStop_of h1
    exact ⟨c', hrun, hph, Or.inl hs⟩
  · rw [cfg_at] at h2
    rw [cfg_L3] at hpre h2
    obtain ⟨hph, hs⟩ := sentStop_of h2
    exact ⟨c', hrun, hph, Or.inr ⟨O1, O2, by rw [← cfg_Ot b mc t.wlog 0 [q₂.handler] q₁]; exact hO, hpre, hs⟩⟩

/-- The same statement on the model's own executor for the polls after the client has sent its last
wire: `runFeed … [] = runTask …`. -/
theorem runFeed_is_runTask (fuel : Nat) (c : Conn) (n : Nat) (sa : Option Nat) :
    runFeed fuel c n sa [] = runTask fuel c n sa := runFeed_nil fuel c n sa

/-- In every outcome at most the two requests' handlers were started, and never `q₂`'s before the
complete answer to `q₁` was written. -/
theorem stop_any_poll_e2e_handlers {b mc : Nat} (q₁ q₂ : Sent) {t : Transport} {fuel : Nat} (j : Nat)
    (hok₁ : q₁.OK b) (hok₂ : q₂.OK b) (hkeep : q₁.p.flags.toNat % 2 = 1)
    (hin : t.input = q₁.wire) (hben : Ben t) (hev : hsCount t.events = 0)
    (hfuel : t.rd.length + t.wr.length + 3 ≤ fuel) :
    ∃ c', runFeed fuel (connK b mc t [q₁, q₂]) 0 (some j) [q₂.wire] = (c', "RET") ∧
      hsCount c'.env.tr.events ≤ 2 ∧
      (hsCount c'.env.tr.events = 2 → ∃ O₁ O₂, O₁ ++ O₂ = q₁.owed mc ∧
        (t.wlog ++ expectedLogN q₁.p q₁.recs mc q₁.data q₁.st O₁ O₂) <+: c'.env.tr.wlog) := by
  obtain ⟨c', hrun, _, hout⟩ := stop_any_poll_e2e (mc := mc) q₁ q₂ j hok₁ hok₂ hkeep hin hben hev hfuel
  refine ⟨c', hrun, ?_, ?_⟩
  · rcases hout with (⟨h, _⟩ | ⟨_, _, _, _, _, h, _⟩) | ⟨_, _, _, _, (⟨h, _⟩ | ⟨_, _, _, _, _, h, _⟩)⟩ <;> omega
  · intro h2
    rcases hout with (⟨h, _⟩ | ⟨_, _, _, _, _, h, _⟩) | ⟨O1, O2, hO, hpre, _⟩
    · omega
    · omega
    · exact ⟨O1, O2, hO, hpre⟩

/-! ## Non-vacuity -/
namespace Example2
open Fcgi.C07E.Example

/-- the Responder request `q1` (KEEP_CONN) and the Authorizer request `q2` of `C07E.Example`, the
transport of `k_requests_e2e`'s example; the flag at every poll `j` -/
example (j : Nat) : ∃ c', runFeed 20 (connK 64 10 exT2 [q1, q2]) 0 (some j) [q2.wire] = (c', "RET") ∧
    c'.phase = .finished ∧ hsCount c'.env.tr.events ≤ 2 := by
  obtain ⟨c', h1, h2, h3⟩ := stop_any_poll_e2e (b := 64) (mc := 10) q1 q2 (t := exT2) (fuel := 20) j q1_ok q2_ok
    (by decide) rfl ⟨by decide, by decide, rfl, by decide⟩ rfl (by decide)
  refine ⟨c', h1, h2, ?_⟩
  rcases h3 with (⟨h, _⟩ | ⟨_, _, _, _, _, h, _⟩) | ⟨_, _, _, _, (⟨h, _⟩ | ⟨_, _, _, _, _, h, _⟩)⟩ <;> omega

/-- `stop_in_parse_request`: a connection parked in `parse_request` with a whole request waiting in the
transport, the flag raised at its next poll -/
example : ∃ c', runTask 1 ⟨.parseReq ⟨64, [], .header, 10⟩ .reading,
      { tr := { input := q2.wire, endMode := .pend, rd := [], wr := [], fl := [] }, segs := [] },
      [q2.handler], false⟩ 7 (some 7) = (c', "RET") ∧ c'.env.tr.input = q2.wire ∧ c'.env.tr.wlog = [] ∧
      c'.env.tr.events = ["|7"] ∧ c'.scripts = [q2.handler] := by
  obtain ⟨c', h1, _, h3, h4, h5, h6⟩ := stop_in_parse_request
    ⟨.parseReq ⟨64, [], .header, 10⟩ .reading,
      { tr := { input := q2.wire, endMode := .pend, rd := [], wr := [], fl := [] }, segs := [] },
      [q2.handler], false⟩ _ _ 7 0 rfl rfl
  exact ⟨c', h1, h4, h5, h3, h6⟩

end Example2

end Fcgi.C14E
