import Fcgi.Proofs.ReqRemainder
import Fcgi.Props.C03Chunk
import Fcgi.Props.C06
/-!
# C06 — buffer sufficiency: when `StuckOnInput` cannot happen, and when it must

* `feedAll_track`: a legal feeding during which no call fills the buffer with an unfinished unit
  (`NoStuck`) is the `State::drive` loop run over the bytes fed.
* `sufficiency_tight`: for a well-formed preamble whose pairs each *encode* to at most
  `aligned_bufsize` bytes (`NV.enc q`: 2..8 bytes of lengths + name + value) and whose management
  `GetValues` bodies leave undecodable tails shorter than that (`NoiseFits`), no legal feeding of
  any prefix of the wire bytes (followed by anything) ever ends in `StuckOnInput`.
* `sufficiency`: the documented bound ("longest name + value, plus 13 bytes, ≤ `buffer_size`")
  implies the tight one — for every `buffer_size`, even in the `usize::MAX` arm.
* `long_pair_stuck`: the tight bound is necessary in the worst case: a pair whose encoding is
  longer than `aligned_bufsize` (by one byte already), sent in one Params record, ends in
  `StuckOnInput` under *every* legal feeding.  `stuck_witness`: the instance for the minimal
  24-byte buffer (`name.len + value.len = 23 = cap − 1`); `fits_witness`: `cap − 2` is fine.
-/
namespace Fcgi.C06
open Fcgi Fcgi.Req Fcgi.Spec Fcgi.C03 Fcgi.VarInt

/-! ## 1. A feeding that never gets stuck is the loop over the bytes fed -/

/-- No non-empty prefix of `W`, appended to the parser's unread input, makes the loop stop in a
non-final state with a remainder that fills the whole buffer. -/
def NoStuck (p : Parser) (W : Bytes) : Prop :=
  ∀ w, w <+: W → w ≠ [] →
    (run p.state (p.input ++ w) p.maxConns).st.isFinal = true ∨
      (run p.state (p.input ++ w) p.maxConns).rem.length < p.cap

/-- **Tracking.**  A legal feeding of chunks `cs` into an unfinished parser during which no call
can get stuck feeds a non-empty initial part `fed` of the chunks — all of them unless the loop
reached a final state before — and leaves the parser exactly where one run of the loop over
`input ++ fed.flatten` stops, with that run's output. -/
theorem feedAll_track : ∀ (cs : List Bytes) (p : Parser), PInv p → LegalFeed p cs →
    p.state.isFinal = false → cs ≠ [] → NoStuck p cs.flatten →
    ∃ fed rest, cs = fed ++ rest ∧ fed.flatten ≠ [] ∧
      feedAll p cs =
        ({ p with input := (run p.state (p.input ++ fed.flatten) p.maxConns).rem,
                  state := (run p.state (p.input ++ fed.flatten) p.maxConns).st },
          (run p.state (p.input ++ fed.flatten) p.maxConns).out, rest) ∧
      (rest ≠ [] → (run p.state (p.input ++ fed.flatten) p.maxConns).st.isFinal = true) := by
  intro cs
  induction cs with
  | nil => intro p _ _ _ h; exact absurd rfl h
  | cons c cs ih =>
    intro p hp hl hf _ hns
    rcases hl with hl | ⟨hc, hcn, hl⟩
    · rw [hf] at hl; cases hl
    have hcpre : c <+: (c :: cs).flatten := by
      rw [List.flatten_cons]; exact List.prefix_append _ _
    have hpar := parse_unstuck hp hcn (hns c hcpre hc)
    obtain ⟨_, hw1, hsuf1⟩ := run_ok (p.input ++ c) p.maxConns hp.2.1
    have hsplit : ∀ w, w ≠ [] → run p.state (p.input ++ (c ++ w)) p.maxConns =
        { run (run p.state (p.input ++ c) p.maxConns).st
            ((run p.state (p.input ++ c) p.maxConns).rem ++ w) p.maxConns with
          out := (run p.state (p.input ++ c) p.maxConns).out ++
            (run (run p.state (p.input ++ c) p.maxConns).st
              ((run p.state (p.input ++ c) p.maxConns).rem ++ w) p.maxConns).out } := by
      intro w hw
      rw [← List.append_assoc]
      exact Req.run_split hp.2.1 (p.input ++ c) w p.maxConns hw
    have hle1 := hsuf1.length_le
    have hcap : (p.input ++ c).length ≤ p.cap := by
      have := hp.1; simp only [Parser.free] at hcn; simp only [List.length_append]; omega
    generalize hR : run p.state (p.input ++ c) p.maxConns = R at *
    have hp1 : PInv { p with input := R.rem, state := R.st } := ⟨by simp only []; omega, hw1, hp.2.2⟩
    have e1 : (p.parse c).1 = { p with input := R.rem, state := R.st } := by rw [hpar]
    rw [e1] at hl
    rw [feedAll_cons cs hf hpar]
    cases hfin : R.st.isFinal with
    | true =>
      refine ⟨[c], cs, rfl, by simpa using hc, ?_, fun _ => ?_⟩
      · rw [feedAll_final (p := { p with input := R.rem, state := R.st }) hfin]
        simp only [List.flatten_cons, List.flatten_nil, List.append_nil, hR]
      · simp only [List.flatten_cons, List.flatten_nil, List.append_nil, hR]; exact hfin
    | false =>
      by_cases hcs : cs = []
      · subst hcs
        refine ⟨[c], [], rfl, by simpa using hc, ?_, fun h => absurd rfl h⟩
        simp only [feedAll, List.flatten_cons, List.flatten_nil, List.append_nil, hR]
      · have hns1 : NoStuck { p with input := R.rem, state := R.st } cs.flatten := by
          intro w hw hwne
          have hpre : c ++ w <+: (c :: cs).flatten := by
            rw [List.flatten_cons]; exact (List.prefix_append_right_inj c).mpr hw
          have := hns (c ++ w) hpre (by simp [hwne])
          rw [hsplit w hwne] at this
          exact this
        obtain ⟨fed, rest, hfr, hfne, hfeed, hrest⟩ := ih _ hp1 hl hfin hcs hns1
        have hrun := hsplit fed.flatten hfne
        refine ⟨c :: fed, rest, by rw [hfr]; rfl, by simp [hfne], ?_, ?_⟩
        · rw [hfeed]
          simp only [List.flatten_cons, hrun]
        · intro hr
          simp only [List.flatten_cons, hrun]
          exact hrest hr

/-! ## 2. A well-formed preamble never fills a large enough buffer -/

/-- State of the loop after any prefix of a well-formed preamble's wire followed by anything:
finished with the request, or not final at all (in particular never a fatal error). -/
theorem run_wire_state {p : Preamble} {recs : List Rec} (h : WellFormedPreamble p recs)
    (extra : Bytes) {F : Bytes} (hF : F <+: serAll recs ++ extra) (mc : Nat) :
    (∃ e1, F = serAll recs ++ e1 ∧ e1 <+: extra ∧
        run .header F mc = ⟨e1, .done p.request, owedPreamble p mc recs, none⟩) ∨
      (∃ t, t ≠ [] ∧ F ++ t = serAll recs ∧ (run .header F mc).st.isFinal = false) := by
  rcases prefix_append_cases hF with ⟨e1, rfl, he⟩ | ⟨t, ht, hFt⟩
  · exact Or.inl ⟨e1, rfl, he, C01.C01_oneshot h e1 mc⟩
  · exact Or.inr ⟨t, ht, hFt, prefix_not_final h hFt ht mc⟩

theorem noStuck_new {p : Preamble} {recs : List Rec} (h : WellFormedPreamble p recs)
    (extra : Bytes) (b mc : Nat)
    (hpairs : ∀ q ∈ p.pairs, (NV.enc q).length ≤ alignedBufsize b)
    (hnoise : NoiseFits (alignedBufsize b) recs) {W : Bytes} (hW : W <+: serAll recs ++ extra) :
    NoStuck (Parser.new b mc) W := by
  intro w hw _
  show (run .header ([] ++ w) mc).st.isFinal = true ∨ (run .header ([] ++ w) mc).rem.length < alignedBufsize b
  rw [List.nil_append]
  rcases run_wire_state h extra (hw.trans hW) mc with ⟨e1, _, _, hrun⟩ | ⟨t, _, hFt, hnf⟩
  · left; rw [hrun]; rfl
  · right
    have h24 := alignedBufsize_ge b
    exact remainder_lt h (by omega) hpairs hnoise ⟨t, hFt⟩ mc hnf

/-- **Chunked run.**  Under the tight buffer condition, any legal feeding of a prefix of the wire
(followed by anything) into a fresh parser leaves it where one run of the loop over the chunks
actually fed stops; chunks are left unfed only after the loop reached a final state. -/
theorem feed_new_track {p : Preamble} {recs : List Rec} (h : WellFormedPreamble p recs)
    (extra : Bytes) (b mc : Nat)
    (hpairs : ∀ q ∈ p.pairs, (NV.enc q).length ≤ alignedBufsize b)
    (hnoise : NoiseFits (alignedBufsize b) recs) {cs : List Bytes}
    (hl : LegalFeed (Parser.new b mc) cs) (hW : cs.flatten <+: serAll recs ++ extra)
    (hne : cs ≠ []) :
    ∃ fed rest, cs = fed ++ rest ∧ fed.flatten ≠ [] ∧
      feedAll (Parser.new b mc) cs =
        ({ cap := alignedBufsize b, input := (run .header fed.flatten mc).rem,
           state := (run .header fed.flatten mc).st, maxConns := mc },
          (run .header fed.flatten mc).out, rest) ∧
      (rest ≠ [] → (run .header fed.flatten mc).st.isFinal = true) := by
  obtain ⟨fed, rest, h1, h2, h3, h4⟩ := feedAll_track cs (Parser.new b mc) (Req.new_inv b mc) hl rfl hne
    (noStuck_new h extra b mc hpairs hnoise hW)
  refine ⟨fed, rest, h1, h2, ?_, ?_⟩
  · rw [h3]; simp only [Parser.new, List.nil_append]
  · simpa only [Parser.new, List.nil_append] using h4

/-- **C06 sufficiency, tight form.**  If every pair of the request encodes (`NV.enc`: the two
length prefixes, name, value) to at most `aligned_bufsize(buffer_size)` bytes and the management
`GetValues` bodies fit, then no legal feeding of any prefix of the preamble's wire bytes — or of
all of them followed by anything — ever produces `StuckOnInput`. -/
theorem sufficiency_tight {p : Preamble} {recs : List Rec} (h : WellFormedPreamble p recs)
    (extra : Bytes) (b mc : Nat)
    (hpairs : ∀ q ∈ p.pairs, (NV.enc q).length ≤ alignedBufsize b)
    (hnoise : NoiseFits (alignedBufsize b) recs) {cs : List Bytes}
    (hl : LegalFeed (Parser.new b mc) cs) (hW : cs.flatten <+: serAll recs ++ extra) :
    (feedAll (Parser.new b mc) cs).1.state ≠ .fatal .stuckOnInput := by
  by_cases hne : cs = []
  · subst hne; intro hx; cases hx
  · obtain ⟨fed, rest, hfr, _, hfeed, _⟩ := feed_new_track h extra b mc hpairs hnoise hl hW hne
    rw [hfeed]
    have hF : fed.flatten <+: serAll recs ++ extra := by
      refine List.IsPrefix.trans ?_ hW
      rw [hfr, List.flatten_append]; exact List.prefix_append _ _
    simp only
    rcases run_wire_state h extra hF mc with ⟨e1, _, _, hrun⟩ | ⟨t, _, _, hnf⟩
    · rw [hrun]; intro hx; cases hx
    · intro hx; rw [hx] at hnf; cases hnf

/-! ## 3. The documented bound -/

theorem paramsRecs_WF {id : Nat} {payload : Bytes} {rs : List Rec} (h : ParamsRecs id payload rs)
    (hid : id < 65536) : ∀ r ∈ rs, r.WF := by
  induction h with
  | done pad res hp =>
    intro r hr
    simp only [List.mem_singleton] at hr
    subst hr
    exact ⟨hid, by simp, hp⟩
  | noise r hn t ih =>
    intro x hx
    rcases List.mem_cons.mp hx with rfl | hx
    · exact hn.1
    · exact ih x hx
  | chunk c pad res hc hp t ih =>
    intro x hx
    rcases List.mem_cons.mp hx with rfl | hx
    · exact ⟨hid, hc.2, hp⟩
    · exact ih x hx

theorem preamble_WF {p : Preamble} {recs : List Rec} (h : WellFormedPreamble p recs) :
    ∀ r ∈ recs, r.WF := by
  induction h with
  | noise r hn t ih =>
    intro x hx
    rcases List.mem_cons.mp hx with rfl | hx
    · exact hn.1
    · exact ih x hx
  | «begin» pad res body5 hb hp hid hrole hl t =>
    intro x hx
    rcases List.mem_cons.mp hx with rfl | hx
    · exact ⟨hid.2, by simp [toBe16, hb], hp⟩
    · exact paramsRecs_WF t hid.2 x hx

/-- `aligned_bufsize` is at least the configured size, except in the `usize::MAX` arm, where it is
huge anyway. -/
theorem aligned_cases (b : Nat) : b ≤ alignedBufsize b ∨ alignedBufsize b = 2 ^ 64 - 1 := by
  by_cases hb : b + 7 < 2 ^ 64
  · exact Or.inl (aligned_spec b hb).2.2.1
  · exact Or.inr (aligned_overflow b (by omega))

/-- The documented bound ("the longest header — name and value — plus 13 extra bytes fits
`buffer_size`") implies the tight one, whatever `buffer_size` is. -/
theorem doc_bound_tight {p : Preamble} {recs : List Rec} (h : WellFormedPreamble p recs) (b : Nat)
    (hpairs : ∀ q ∈ p.pairs, q.1.length + q.2.length + 13 ≤ b)
    (hnoise : NoiseSmall (b - 13) recs) :
    (∀ q ∈ p.pairs, (NV.enc q).length ≤ alignedBufsize b) ∧ NoiseFits (alignedBufsize b) recs := by
  have h24 := alignedBufsize_ge b
  rcases aligned_cases b with hb | hb
  · refine ⟨fun q hq => ?_, noiseFits_mono (noiseSmall_fits hnoise) (by omega)⟩
    have := enc_length_le q
    have := hpairs q hq
    omega
  · refine ⟨fun q hq => ?_, ?_⟩
    · have := enc_length_le q
      have := wf_pairs_valid h q hq
      simp only [maxVal] at this
      omega
    · intro r hr hg d hd hlt
      have := all_rest_length_le d
      have := (preamble_WF h r hr).2.1
      omega

/-- **C06 sufficiency** (documented bound).  With `name.len + value.len + 13 ≤ buffer_size` for
every pair of the request (and the same for the management `GetValues` noise: `NoiseSmall`), no
legal feeding of the preamble followed by anything ever produces `StuckOnInput`. -/
theorem sufficiency {p : Preamble} {recs : List Rec} (h : WellFormedPreamble p recs)
    (extra : Bytes) (b mc : Nat)
    (hpairs : ∀ q ∈ p.pairs, q.1.length + q.2.length + 13 ≤ b)
    (hnoise : NoiseSmall (b - 13) recs) {cs : List Bytes}
    (hl : LegalFeed (Parser.new b mc) cs) (hW : cs.flatten = serAll recs ++ extra) :
    (feedAll (Parser.new b mc) cs).1.state ≠ .fatal .stuckOnInput :=
  sufficiency_tight h extra b mc (doc_bound_tight h b hpairs hnoise).1
    (doc_bound_tight h b hpairs hnoise).2 hl (hW ▸ List.prefix_refl _)

/-- The same for a feeding that stops anywhere inside the preamble. -/
theorem sufficiency_prefix {p : Preamble} {recs : List Rec} (h : WellFormedPreamble p recs)
    (extra : Bytes) (b mc : Nat)
    (hpairs : ∀ q ∈ p.pairs, q.1.length + q.2.length + 13 ≤ b)
    (hnoise : NoiseSmall (b - 13) recs) {cs : List Bytes}
    (hl : LegalFeed (Parser.new b mc) cs) (hW : cs.flatten <+: serAll recs ++ extra) :
    (feedAll (Parser.new b mc) cs).1.state ≠ .fatal .stuckOnInput :=
  sufficiency_tight h extra b mc (doc_bound_tight h b hpairs hnoise).1
    (doc_bound_tight h b hpairs hnoise).2 hl hW

/-- Intermediate form: `name.len + value.len + 8 ≤ aligned_bufsize(buffer_size)`. -/
theorem sufficiency_plus8 {p : Preamble} {recs : List Rec} (h : WellFormedPreamble p recs)
    (extra : Bytes) (b mc : Nat)
    (hpairs : ∀ q ∈ p.pairs, q.1.length + q.2.length + 8 ≤ alignedBufsize b)
    (hnoise : NoiseSmall (alignedBufsize b - 8) recs) {cs : List Bytes}
    (hl : LegalFeed (Parser.new b mc) cs) (hW : cs.flatten <+: serAll recs ++ extra) :
    (feedAll (Parser.new b mc) cs).1.state ≠ .fatal .stuckOnInput := by
  have h24 := alignedBufsize_ge b
  refine sufficiency_tight h extra b mc (fun q hq => ?_)
    (noiseFits_mono (noiseSmall_fits hnoise) (by omega)) hl hW
  have := enc_length_le q
  have := hpairs q hq
  omega

/-! ## 4. Tightness: a pair one byte too long, in one Params record -/

/-- The preamble for one pair `q`: request 1, Responder, no flags. -/
def pairPre (q : Bytes × Bytes) : Preamble := { id := 1, role := 1, flags := 0, pairs := [q] }

def recBegin : Rec := { rtype := 1, id := 1, content := toBe16 1 ++ [0] ++ [0, 0, 0, 0, 0], pad := [] }
def recPair (q : Bytes × Bytes) : Rec := { rtype := 4, id := 1, content := NV.enc q, pad := [] }
def recEnd : Rec := { rtype := 4, id := 1, content := [], pad := [] }

/-- BeginRequest, one Params record holding the whole pair, the empty Params record. -/
def pairRecs (q : Bytes × Bytes) : List Rec := [recBegin, recPair q, recEnd]

def inner0 : Inner := { req := Request.new 1 { role := 1, flags := 0 }, buffer := [] }

theorem pairRecs_wf (q : Bytes × Bytes) (hq : q.1.length ≤ maxVal ∧ q.2.length ≤ maxVal)
    (hlen : (NV.enc q).length < 65536) : WellFormedPreamble (pairPre q) (pairRecs q) := by
  refine .begin [] 0 [0, 0, 0, 0, 0] rfl (by decide) ⟨Nat.one_pos, (by decide : 1 < 65536)⟩ rfl ?_ ?_
  · intro x hx
    simp only [pairPre, List.mem_singleton] at hx
    subst hx; exact hq
  · show ParamsRecs 1 (NV.enc q ++ []) _
    have := enc_length_ge q
    exact .chunk (NV.enc q) [] 0 ⟨by omega, hlen⟩ (by decide) (.done [] 0 (by decide))

/-- The eight header bytes of the Params record holding the pair. -/
def pairHdr (q : Bytes × Bytes) : Bytes := (recPair q).ser.take 8

theorem recPair_ser (q : Bytes × Bytes) : (recPair q).ser = pairHdr q ++ NV.enc q := by
  have h := ser_drop8 (recPair q) []
  rw [List.append_nil] at h
  conv => lhs; rw [← List.take_append_drop 8 (recPair q).ser, h]
  simp only [pairHdr, recPair, List.append_nil]

theorem pairHdr_length (q : Bytes × Bytes) : (pairHdr q).length = 8 := by
  have h := ser_append (recPair q) []
  rw [List.append_nil] at h
  simp only [pairHdr, h, List.take_succ_cons, List.take_zero, List.length_cons, List.length_nil]

/-- The loop over BeginRequest and the Params record header: waiting inside the record. -/
theorem run_begin_hdr (q : Bytes × Bytes) (mc : Nat) (hlen : (NV.enc q).length < 65536) :
    run .header (recBegin.ser ++ pairHdr q) mc =
      ⟨[], .params inner0 (NV.enc q).length 0, [], none⟩ := by
  have hge := enc_length_ge q
  have h1 := header_begin 1 1 0 [0, 0, 0, 0, 0] [] 0 (pairHdr q) mc ⟨by decide, by decide⟩ rfl rfl
    (by decide)
  have hfull := step_params_chunk inner0 (NV.enc q) [] 0 [] mc ⟨by omega, hlen⟩ (by decide)
    (by decide)
  have hser : Rec.ser { rtype := 4, id := inner0.req.id, content := NV.enc q, pad := [], reserved := 0 } =
      pairHdr q ++ NV.enc q := recPair_ser q
  rw [List.append_nil, hser] at hfull
  have hw : WFState (.params inner0 0 0) := wf_params_zero (innerOK_nil _)
  have hs : step (.params inner0 0 0) (pairHdr q) mc =
      (.cont [] (.params inner0 (NV.enc q).length 0), []) := by
    rcases step_prefix hw hfull with ⟨r', s', o', hb⟩ | ⟨r', hc, hY⟩
    · exfalso
      have hx := step_brk_append (NV.enc q) hw hb
      rw [hfull] at hx
      have hb' := hb
      rw [step_params_zero] at hb'
      obtain ⟨_, _, _, hst⟩ := recPhase_brk (innerOK_nil _) hb'
      rcases hst with ⟨_, h8⟩ | ⟨e, rfl⟩
      · rw [pairHdr_length] at h8; omega
      · rw [step_final _ _ rfl] at hx; cases hx
    · have hr' : r' = [] := by
        have := congrArg List.length hY
        simp only [List.length_append, List.length_nil] at this
        exact List.eq_nil_of_length_eq_zero (by omega)
      rw [hr'] at hc
      exact hc
  show run .header (Rec.ser { rtype := 1, id := 1, content := toBe16 1 ++ [0] ++ [0, 0, 0, 0, 0],
                              pad := [], reserved := 0 } ++ pairHdr q) mc = _
  rw [h1]
  exact run_cont_empty hs

/-- Inside the record, a strict prefix of the pair is left entirely unconsumed. -/
theorem run_pair_prefix (q : Bytes × Bytes) (mc : Nat)
    (hq : q.1.length ≤ maxVal ∧ q.2.length ≤ maxVal) {d t : Bytes} (h : d ++ t = NV.enc q)
    (ht : t ≠ []) :
    run (.params inner0 (NV.enc q).length 0) d mc =
      ⟨d, .params inner0 (NV.enc q).length 0, [], none⟩ := by
  have hlt := length_lt_of_append_ne h ht
  have hnone : NV.next d = none := next_strict_prefix_enc hq h ht
  have hps : parseStream inner0 d false = .ok inner0 0 := by
    rw [parseStream_eq inner0 d false (by decide)]
    simp only [psSpec, Bool.false_eq_true, if_false, inner0, List.nil_append, hnone, if_true, stall,
      List.length_nil, List.take_zero, Nat.sub_self]
  refine run_brk (st := .params inner0 (NV.enc q).length 0) rfl ?_
  rw [step_params, paramsDrive_eq, payloadPhase_lt (by omega) hlt hps]
  rfl

/-- **Necessity of the tight bound.**  A pair whose encoding is longer than the input buffer, sent
in a single Params record: *every* legal feeding of the preamble (followed by anything) into a
fresh parser ends in `Fatal(StuckOnInput)`. -/
theorem long_pair_stuck (b mc : Nat) (q : Bytes × Bytes)
    (hq : q.1.length ≤ maxVal ∧ q.2.length ≤ maxVal)
    (h1 : alignedBufsize b < (NV.enc q).length) (h2 : (NV.enc q).length < 65536)
    (extra : Bytes) {cs : List Bytes} (hl : LegalFeed (Parser.new b mc) cs)
    (hW : cs.flatten = serAll (pairRecs q) ++ extra) :
    (feedAll (Parser.new b mc) cs).1.state = .fatal .stuckOnInput := by
  have h24 := alignedBufsize_ge b
  have hp0 := Req.new_inv b mc
  -- the reference feeding: BeginRequest + record header; as much of the pair as fits; the rest
  let c1 := recBegin.ser ++ pairHdr q
  let c2 := (NV.enc q).take (alignedBufsize b)
  let c3 := (NV.enc q).drop (alignedBufsize b) ++ recEnd.ser ++ extra
  have hc1len : c1.length = 24 := by
    simp only [c1, List.length_append, pairHdr_length, ser_length]; rfl
  have hc2len : c2.length = alignedBufsize b := by
    simp only [c2, List.length_take]; omega
  -- first call
  have hn1 : c1.length ≤ (Parser.new b mc).free := by rw [hc1len]; exact h24
  have hrun1 : run (Parser.new b mc).state ((Parser.new b mc).input ++ c1) (Parser.new b mc).maxConns =
      ⟨[], .params inner0 (NV.enc q).length 0, [], none⟩ := run_begin_hdr q mc h2
  have hpar1 := parse_unstuck hp0 hn1 (Or.inr (by rw [hrun1]; show 0 < alignedBufsize b; omega))
  rw [hrun1] at hpar1
  -- second call
  let p1 : Parser := { cap := alignedBufsize b, input := [], state := .params inner0 (NV.enc q).length 0,
                       maxConns := mc }
  have hp1 : PInv p1 := ⟨Nat.zero_le _, ⟨h2, by decide, innerOK_nil _⟩, h24⟩
  have hn2 : c2.length ≤ p1.free := by rw [hc2len]; exact Nat.le_refl _
  have hdrop : (NV.enc q).drop (alignedBufsize b) ≠ [] := by
    intro hx
    have := congrArg List.length hx
    simp only [List.length_drop, List.length_nil] at this
    omega
  have hrun2 : run p1.state (p1.input ++ c2) p1.maxConns =
      ⟨c2, .params inner0 (NV.enc q).length 0, [], none⟩ :=
    run_pair_prefix q mc hq (List.take_append_drop _ _) hdrop
  have hpar2 : p1.parse c2 =
      ({ p1 with input := c2, state := .fatal .stuckOnInput }, some { done := true, output := [] }) := by
    rw [parse_eq hp1 hn2, hrun2, if_pos]
    simp only [State.isFinal, Bool.not_false, Bool.true_and, beq_iff_eq]
    exact hc2len
  have hpar1' : (Parser.new b mc).parse c1 = (p1, some { done := false, output := [] }) := hpar1
  have hfeed : feedAll (Parser.new b mc) [c1, c2, c3] =
      ({ p1 with input := c2, state := .fatal .stuckOnInput }, [], [c3]) := by
    rw [feedAll_cons _ rfl hpar1', feedAll_cons _ rfl hpar2, feedAll_final rfl]
    rfl
  have hl0 : LegalFeed (Parser.new b mc) [c1, c2, c3] := by
    refine Or.inr ⟨?_, hn1, ?_⟩
    · intro hx; rw [hx] at hc1len; cases hc1len
    · rw [hpar1']
      refine Or.inr ⟨?_, hn2, ?_⟩
      · intro hx; rw [hx] at hc2len; simp at hc2len; omega
      · rw [hpar2]; exact Or.inl rfl
  have hflat : cs.flatten = [c1, c2, c3].flatten := by
    rw [hW]
    simp only [pairRecs, serAll_cons, serAll_nil, recPair_ser, List.flatten_cons, List.flatten_nil,
      List.append_nil, List.append_assoc, c1, c2, c3]
    rw [← List.append_assoc (List.take _ _), List.take_append_drop]
  have hinv := chunk_invariance hp0 hl hl0 hflat
  have : (settled (Parser.new b mc) cs).1.state = (settled (Parser.new b mc) [c1, c2, c3]).1.state := by
    rw [hinv]
  simp only [settled] at this
  rw [this, hfeed]

/-! ### Concrete instances for the minimal buffer (`Parser.new 0 1`, 24 bytes) -/

/-- 11-byte name, 12-byte value: `name.len + value.len = 23 = cap − 1`, encoding 25 = `cap + 1`. -/
def wPair : Bytes × Bytes := (List.replicate 11 97, List.replicate 12 98)
/-- 11-byte name, 11-byte value: `name.len + value.len = 22 = cap − 2`, encoding 24 = `cap`. -/
def fPair : Bytes × Bytes := (List.replicate 11 97, List.replicate 11 98)

theorem wPair_facts : wPair.1.length + wPair.2.length = 23 ∧ (NV.enc wPair).length = 25 ∧
    alignedBufsize 0 = 24 := by decide

/-- **Witness.**  A well-formed preamble with a single pair of `name.len + value.len = cap − 1`
(so it satisfies `name.len + value.len ≤ cap`, but its encoding is one byte longer than the
buffer): byte-by-byte feeding is legal and ends in `StuckOnInput`. -/
theorem stuck_witness :
    WellFormedPreamble (pairPre wPair) (pairRecs wPair) ∧
    LegalFeed (Parser.new 0 1) (singles (serAll (pairRecs wPair))) ∧
    (feedAll (Parser.new 0 1) (singles (serAll (pairRecs wPair)))).1.state = .fatal .stuckOnInput := by
  have hl := legalFeed_singles (serAll (pairRecs wPair)) _ (Req.new_inv 0 1) (fun _ => by decide)
  refine ⟨pairRecs_wf wPair (by decide) (by decide), hl, ?_⟩
  exact long_pair_stuck 0 1 wPair (by decide) (by decide) (by decide) [] hl
    (by rw [flatten_singles, List.append_nil])

/-- One byte less and the same layout goes through under every legal feeding
(`sufficiency_tight` applies: the encoding is exactly as long as the buffer). -/
theorem fits_witness {cs : List Bytes} (hl : LegalFeed (Parser.new 0 1) cs)
    (hW : cs.flatten = serAll (pairRecs fPair)) :
    (feedAll (Parser.new 0 1) cs).1.state ≠ .fatal .stuckOnInput := by
  refine sufficiency_tight (pairRecs_wf fPair (by decide) (by decide)) [] 0 1 ?_ ?_ hl
    (by rw [hW, List.append_nil]; exact List.prefix_refl _)
  · intro q hq
    simp only [pairPre, List.mem_singleton] at hq
    subst hq; decide
  · intro r hr hg
    simp only [pairRecs, List.mem_cons, List.not_mem_nil, or_false] at hr
    rcases hr with rfl | rfl | rfl <;> exact absurd hg.1 (by decide)

/-! ### The concrete preamble of `Props/C01.lean` -/

/-- `sufficiency_tight` applied: the example preamble never gets any parser stuck — whatever the
configured buffer size, the chunking, and the bytes that follow. -/
example (extra : Bytes) (b mc : Nat) (cs : List Bytes) (hl : LegalFeed (Parser.new b mc) cs)
    (hW : cs.flatten <+: serAll C01.Example.recs ++ extra) :
    (feedAll (Parser.new b mc) cs).1.state ≠ .fatal .stuckOnInput := by
  have h24 := alignedBufsize_ge b
  exact sufficiency_tight C01.Example.recs_wf extra b mc
    (fun q hq => by rw [Req.Examples.pre_pairs_enc q hq]; omega)
    (Req.Examples.recs_noise_fits (by omega)) hl hW

/-- `sufficiency` (documented bound) applied with the default `buffer_size = 8192`. -/
example (extra : Bytes) (mc : Nat) (cs : List Bytes) (hl : LegalFeed (Parser.new 8192 mc) cs)
    (hW : cs.flatten = serAll C01.Example.recs ++ extra) :
    (feedAll (Parser.new 8192 mc) cs).1.state ≠ .fatal .stuckOnInput := by
  refine sufficiency C01.Example.recs_wf extra 8192 mc ?_ (Req.Examples.recs_noise_small (by omega)) hl hW
  intro q hq
  simp only [C01.Example.pre, List.mem_singleton] at hq
  subst hq; decide

end Fcgi.C06
