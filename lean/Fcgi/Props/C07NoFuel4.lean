import Fcgi.Proofs.E2EWriters2NF
import Fcgi.Proofs.E2EWriters3NF
import Fcgi.Props.C07Writers4
import Fcgi.Props.C07NoFuel3

/-!
# C07 / C10 — two writers, any sequence of `write_all` AND `flush` calls, WITHOUT the model-fuel hypothesis

The theorems of `Props/C07Writers2.lean` … `C07Writers4.lean` minus `hhf : fcost W + c ≤ 1000` (a bound on the number of
writes, flushes and output records of the script): the model's handler fuel pays for what is left of the script
(`Props/C07ScriptFuel.lean`); engines `Proofs/E2EWriters2NF.lean`, `Proofs/E2EWriters3NF.lean` (Filter).  Each `X_nofuel` is stated exactly like `X` minus
`hhf`; `hfl` (no error among the flush answers) and the poll budget `hfuel` remain.
-/
namespace Fcgi.C07W
open Fcgi Fcgi.Req Fcgi.Str Fcgi.Async Fcgi.Run Fcgi.Spec Fcgi.E2E Fcgi.C07E Fcgi.C07U Fcgi.C07B

/-- **`single_request_writers_flush_e2e_nomore` without `hhf`.** -/
theorem single_request_writers_flush_e2e_nomore_nofuel {p : Preamble} {recs : List Rec} {content : Bytes} {srecs : List Rec}
    {b mc : Nat} {W : FList} {st : ExitStatus} {more : List (List HOp × Bool)} {t : Transport} {fuel : Nat}
    (hwf : WellFormedPreamble p recs) (hrole : p.role = 1)
    (hpairs : ∀ q ∈ p.pairs, (NV.enc q).length ≤ alignedBufsize b)
    (hnoise : NoiseFits (alignedBufsize b) recs)
    (hs : StreamRecs p.id 5 content srecs) (hsn : NoiseFits (alignedBufsize b) srecs)
    (hin : t.input = serAll recs ++ serAll srecs) (hben : Ben t) (hev : hsCount t.events = 0)
    (hfl : ∀ a ∈ t.fl, a ≠ FlAns.err)
    (hfuel : t.rd.length + t.wr.length + t.fl.length + 1 ≤ fuel) :
    ∃ c' fin O₁ O₂ pad res,
      runTask fuel (connS b mc t ((fscriptW W st, true) :: more)) 0 none = (c', fin) ∧
      O₁ ++ O₂ = owedStream p.id 5 mc srecs ∧
      WritersOutcome p recs content (E2E.writesOf W) O₁ O₂ pad res b mc st more t c' fin := by
  obtain ⟨body, pad, res, hpad, hbody, hsrecs⟩ := StreamRecs.split hs
  have hid := (pid_of_wf hwf).2
  have hsb : NoiseFits (alignedBufsize b) body := fun r hr => hsn r (by rw [hsrecs]; simp [hr])
  have ok : WFOKN (cfgW2 p recs content body pad res b mc W st t.wlog 0 more) W :=
    ⟨hwf, hrole, hpairs, hnoise, hbody, hsb, hpad, rfl, rfl, rfl, rfl⟩
  have hOt : owedStream p.id 5 mc srecs = owedStream p.id 5 mc body := by
    rw [hsrecs, owedStream_append, owedStream_term p.id 5 mc _ rfl, List.append_nil]
  have htwf : (trec 5 p.id pad res).WF := ⟨hid, by simp [trec], hpad⟩
  have hidle : ∀ e ∈ [trec 5 p.id pad res], IdleNoise e := by
    intro e he
    rw [List.mem_singleton.1 he]
    exact ⟨htwf, fun hx => absurd hx (by show (5 : UInt8).toNat ≠ RT.beginRequest; decide)⟩
  have hfit : NoiseFits (alignedBufsize b) [trec 5 p.id pad res] := by
    intro e he hg
    rw [List.mem_singleton.1 he] at hg
    exact absurd hg.1 (by show (5 : UInt8).toNat ≠ RT.getValues; decide)
  obtain ⟨hns, hNF⟩ := idle_front dummy_wf b mc (fun q hq => by cases hq) (dummy_fits _) hidle hfit []
  rw [C02.serAll_single] at hns hNF
  have hst : FStage (cfgW2 p recs content body pad res b mc W st t.wlog 0 more)
      (connS b mc t ((fscriptW W st, true) :: more)) :=
    .start (raw := []) rfl (by
      show [] ++ t.input = _
      rw [hin, hsrecs, C02.serAll_append, C02.serAll_single]; rfl) (Nat.zero_le _) rfl hben rfl rfl rfl hev
  obtain ⟨c', fin, hrun, hres⟩ := run_writersNNF ok (Z := serAll dummyRecs ++ []) hns hNF
    t.endMode [] _ 0 fuel hst rfl (fun s hs => by cases hs) hfl rfl (by show mu t + 1 ≤ fuel; unfold mu ans; omega)
  have hro := (run_idle_out mc [trec 5 p.id pad res] hidle).1
  rw [C02.serAll_single] at hro
  have hio : idleOwed mc [trec 5 p.id pad res] = [] := by
    simp [idleOwed, owed, trec, RT.valid, RT.getValues, RT.beginRequest]
  rcases hres with ⟨⟨O1, O2⟩, ⟨hkp, hO⟩, hk', hem, _, _, _, hend⟩ |
      ⟨hfin, ⟨O1, O2, hO, q3, hfu⟩, _, _⟩
  · have hout : ∀ F, F ++ (serAll dummyRecs ++ []) = (trec 5 p.id pad res).ser ++ (serAll dummyRecs ++ []) →
        (cfgW2 p recs content body pad res b mc W st t.wlog 0 more).Lw (E2E.writesOf W) O1 O2 ++ (run .header F mc).out =
        t.wlog ++ expectedLogW p recs mc (E2E.writesOf W) st O1 O2 := by
      intro F hF
      rw [List.append_cancel_right hF, hro, hio, List.append_nil, lw_eq2]
    refine ⟨c', fin, O1, O2, pad, res, hrun, hO.trans hOt.symm, ⟨hk'.hs, hk'.ev _ List.mem_cons_self⟩,
      hk'.ev _ (List.mem_cons_of_mem _ List.mem_cons_self), ?_, hk'.sc, ?_⟩
    · rcases hend with ⟨_, hp⟩ | ⟨_, hf⟩
      · obtain ⟨F, hF, _, _, hlg⟩ := hp.pst
        exact hlg.trans (hout F hF)
      · obtain ⟨F, hF, hlg⟩ := hf.log
        exact hlg.trans (hout F hF)
    · rcases hend with ⟨rfl, hp⟩ | ⟨rfl, hf⟩
      · obtain ⟨F, hF, hps, hph, _⟩ := hp.pst
        have hFe : F = (trec 5 p.id pad res).ser := List.append_cancel_right hF
        subst hFe
        exact Or.inr (Or.inr ⟨hkp, hem.symm.trans hp.em, rfl, hph, hp.inp, hk'.mx, hps.stop, hps.ben⟩)
      · exact Or.inr (Or.inl ⟨hkp, hem.symm.trans hf.em, rfl, hf.ph⟩)
  · exact ⟨c', fin, O1, O2, pad, res, hrun, hO.trans hOt.symm, ⟨hfu.ev.1, hfu.ev.2⟩,
      q3, by rw [hfu.log, lw_eq2], hfu.sc, Or.inl ⟨hfu.nokeep, hfin, hfu.ph⟩⟩

/-- **`writers_flush_chain_e2e` without `hhf`.** -/
theorem writers_flush_chain_e2e_nofuel {p : Preamble} {recs : List Rec} {content : Bytes} {srecs : List Rec}
    {b mc : Nat} {W : FList} {st : ExitStatus} (x : UReq) (xs : List UReq) {t : Transport} {fuel : Nat}
    (hwf : WellFormedPreamble p recs) (hrole : p.role = 1) (hk : p.flags.toNat % 2 = 1)
    (hpairs : ∀ q ∈ p.pairs, (NV.enc q).length ≤ alignedBufsize b)
    (hnoise : NoiseFits (alignedBufsize b) recs)
    (hs : StreamRecs p.id 5 content srecs) (hsn : NoiseFits (alignedBufsize b) srecs)
    (hok : ∀ y ∈ x :: xs, y.OKu b)
    (hin : t.input = serAll recs ++ serAll srecs) (hben : Ben t) (hem : t.endMode = .pend)
    (hev : hsCount t.events = 0) (hfl : ∀ a ∈ t.fl, a ≠ FlAns.err)
    (hfuel : t.rd.length + t.wr.length + t.fl.length + 1 ≤ fuel) :
    ∃ c' O₁ O₂ A,
      closedLoop fuel ((x :: xs).map UReq.wire)
        (connS b mc t ((fscriptW W st, true) :: (x :: xs).map UReq.handler)) 0 = (c', "STALL") ∧
      O₁ ++ O₂ = owedStream p.id 5 mc srecs ∧
      SegsAll mc (x :: xs) A ∧
      c'.env.tr.wlog = t.wlog ++ expectedLogW p recs mc (E2E.writesOf W) st O₁ O₂ ++ A ∧
      hsCount c'.env.tr.events = 1 + (x :: xs).length ∧
      startEvent p.request ∈ c'.env.tr.events ∧ readEvent content ∈ c'.env.tr.events ∧
      (∀ y ∈ x :: xs, startEvent y.p.request ∈ c'.env.tr.events) ∧ c'.scripts = [] ∧
      c'.env.tr.input = [] ∧
      c'.phase = .parseReq (track (alignedBufsize b) mc (serAll ((x :: xs).getLast (by simp)).left)) .reading := by
  have hid := (pid_of_wf hwf).2
  obtain ⟨body, pad, res, hpad, hbody, hsrecs⟩ := StreamRecs.split hs
  have hsb : NoiseFits (alignedBufsize b) body := fun r hr => hsn r (by rw [hsrecs]; simp [hr])
  have hOt : owedStream p.id 5 mc srecs = owedStream p.id 5 mc body := by
    rw [hsrecs, owedStream_append, owedStream_term p.id 5 mc _ rfl, List.append_nil]
  have ok : WFOKN (cfgW2 p recs content body pad res b mc W st t.wlog 0
      (((x :: xs).map (UReq.spec mc)).map RSpec.handler)) W :=
    ⟨hwf, hrole, hpairs, hnoise, hbody, hsb, hpad, rfl, rfl, rfl, rfl⟩
  have hap : C12Inv.AllProp (connS b mc t ((fscriptW W st, true) :: ((x :: xs).map (UReq.spec mc)).map RSpec.handler)) := by
    refine ⟨fun s hs => ?_, trivial⟩
    rcases List.mem_cons.1 hs with rfl | hs
    · rfl
    · obtain ⟨z, hz, rfl⟩ := List.mem_map.1 hs
      obtain ⟨y, _, rfl⟩ := List.mem_map.1 hz
      cases y with
      | full q => cases q <;> rfl
      | unread => rfl
  have htw : (trec 5 p.id pad res).WF := ⟨hid, by simp [trec], hpad⟩
  have hT : IdleNoise (trec 5 p.id pad res) :=
    ⟨htw, fun hx => absurd hx (by show (5 : UInt8).toNat ≠ RT.beginRequest; decide)⟩
  have hlo : LeftOK (alignedBufsize b) [trec 5 p.id pad res] :=
    ⟨fun e he => by rw [List.mem_singleton.1 he]; exact hT, fun e he hg => by
      rw [List.mem_singleton.1 he] at hg
      exact absurd hg.1 (by show (5 : UInt8).toNat ≠ RT.getValues; decide)⟩
  have hW : (cfgW2 p recs content body pad res b mc W st t.wlog 0
      (((x :: xs).map (UReq.spec mc)).map RSpec.handler)).W = t.input := by
    rw [hin, hsrecs, C02.serAll_append, C02.serAll_single]
    rfl
  have hstart : StartAt (alignedBufsize b) mc [] t.wlog
      ((fscriptW W st, true) :: ((x :: xs).map (UReq.spec mc)).map RSpec.handler) 0 [] (ans t)
      (cfgW2 p recs content body pad res b mc W st t.wlog 0
        (((x :: xs).map (UReq.spec mc)).map RSpec.handler)).W
      (connS b mc t ((fscriptW W st, true) :: ((x :: xs).map (UReq.spec mc)).map RSpec.handler)) :=
    Or.inr ⟨rfl, rfl, by show t.input = _; rw [hW], rfl, hben, rfl, rfl, rfl, hev,
      (fun _ hs => nomatch hs), rfl, hem, Nat.le_refl _⟩
  have hleft0 : LeftOK (alignedBufsize b) [] := ⟨(fun _ he => nomatch he), (fun _ hr => nomatch hr)⟩
  obtain ⟨c1, O1, O2, hrun1, hO, hrd, hw1⟩ := serve_writersF_coreNF ok hk (left := []) hleft0 (Z := x.wire) hT
    (goodNext_of_oku (hok x List.mem_cons_self) hlo) 0 fuel (by simp [idleOwed]; rfl) hstart hap hfl
    (by show ans t + t.fl.length + 1 ≤ fuel; unfold ans; omega)
  have hz : idleOwed mc [trec 5 p.id pad res] = [] := by
    simp [idleOwed, owed, trec, RT.valid, RT.getValues, RT.beginRequest]
  have hLw : ((cfgW2 p recs content body pad res b mc W st t.wlog 0
      (((x :: xs).map (UReq.spec mc)).map RSpec.handler)).front []).Lw (E2E.writesOf W) O1 O2 ++ idleOwed mc [trec 5 p.id pad res] =
      t.wlog ++ expectedLogW p recs mc (E2E.writesOf W) st O1 O2 := by
    rw [hz, List.append_nil]
    exact lw_eq2 O1 O2
  have hw1' : Waiting (alignedBufsize b) mc [trec 5 p.id pad res]
      (t.wlog ++ expectedLogW p recs mc (E2E.writesOf W) st O1 O2)
      (((x :: xs).map (UReq.spec mc)).map RSpec.handler) 1 [hsEvent p.request, rEvent content] (ans t) c1 := by
    rw [← hLw]
    have hev' : ∀ s ∈ [hsEvent p.request, rEvent content], s ∈ c1.env.tr.events := by
      intro s hs
      rcases List.mem_cons.1 hs with rfl | hs
      · exact hw1.ev _ List.mem_cons_self
      · rw [List.mem_singleton.1 hs]; exact hrd
    exact { hw1 with ev := hev' }
  obtain ⟨c', A, hrun, hseg, hw⟩ := chain_serves (alignedBufsize b) mc (serAll dummyRecs ++ [])
    (xs.map (UReq.spec mc)) (UReq.spec mc x) _ _ 1 [hsEvent p.request, rEvent content] (ans t) (feed c1 x.wire) 1000 fuel
    (hall_of_oku x xs hok) hlo (Or.inl ⟨c1, hw1', rfl⟩) (by unfold ans; omega)
  have hrun' : closedLoop fuel ((x :: xs).map UReq.wire)
      (connS b mc t ((fscriptW W st, true) :: (x :: xs).map UReq.handler)) 0 = (c', "STALL") := by
    have e : (x :: xs).map UReq.handler = ((x :: xs).map (UReq.spec mc)).map RSpec.handler := by
      rw [List.map_map]; rfl
    rw [e]
    show closedLoop fuel (x.wire :: xs.map UReq.wire) _ 0 = _
    rw [closedLoop, hrun1]
    simp only [if_true]
    rw [← hrun, List.map_map]; rfl
  have hlast := lastLeft_specs mc x xs
  refine ⟨c', O1, O2, A, hrun', hO.trans hOt.symm, segAll_specs mc (x :: xs) A hseg, hw.log, ?_, ?_, ?_, ?_, hw.sc, hw.inp, ?_⟩
  · have := hw.hs; simpa [Nat.add_comm] using this
  · exact hw.ev _ (mem_evsAfter _ _ _ (Or.inl List.mem_cons_self))
  · exact hw.ev _ (mem_evsAfter _ _ _ (Or.inl (by simp)))
  · intro y hy
    exact hw.ev _ (mem_evsAfter _ _ _ (Or.inr ⟨UReq.spec mc y, List.mem_map_of_mem hy, rfl⟩))
  · rw [← hlast]; exact hw.ph

/-- **`filter_writers_flush_e2e_nomore` without `hhf`.** -/
theorem filter_writers_flush_e2e_nomore_nofuel {p : Preamble} {recs : List Rec} {content : Bytes} {srecs : List Rec}
    {content2 : Bytes} {drecs : List Rec}
    {b mc : Nat} {W : FList} {st : ExitStatus} {more : List (List HOp × Bool)} {t : Transport} {fuel : Nat}
    (hwf : WellFormedPreamble p recs) (hrole : p.role = 3)
    (hpairs : ∀ q ∈ p.pairs, (NV.enc q).length ≤ alignedBufsize b)
    (hnoise : NoiseFits (alignedBufsize b) recs)
    (hs : StreamRecs p.id 5 content srecs) (hsn : NoiseFits (alignedBufsize b) srecs)
    (hd : StreamRecs p.id 8 content2 drecs) (hdn : NoiseFits (alignedBufsize b) drecs)
    (hin : t.input = serAll recs ++ (serAll srecs ++ serAll drecs)) (hben : Ben t) (hev : hsCount t.events = 0)
    (hfl : ∀ a ∈ t.fl, a ≠ FlAns.err)
    (hfuel : t.rd.length + t.wr.length + t.fl.length + 1 ≤ fuel) :
    ∃ c' fin O₁ O₂ pad2 res2,
      runTask fuel (connS b mc t ((ffscriptW W st, true) :: more)) 0 none = (c', fin) ∧
      O₁ ++ O₂ = owedStream p.id 5 mc srecs ++ owedStream p.id 8 mc drecs ∧
      FilterWritersOutcome p recs content content2 (E2E.writesOf W) O₁ O₂ pad2 res2 b mc st more t c' fin := by
  obtain ⟨body, pad, res, hpad, hbody, hsrecs⟩ := StreamRecs.split hs
  obtain ⟨body2, pad2, res2, hpad2, hbody2, hdrecs⟩ := StreamRecs.split hd
  have hid := (pid_of_wf hwf).2
  have hsb : NoiseFits (alignedBufsize b) body := fun r hr => hsn r (by rw [hsrecs]; simp [hr])
  have hdb : NoiseFits (alignedBufsize b) body2 := fun r hr => hdn r (by rw [hdrecs]; simp [hr])
  have ok : WFOK3N (cfgW3 p recs content body pad res content2 body2 pad2 res2 b mc W st t.wlog 0 more) W :=
    ⟨hwf, hrole, hpairs, hnoise, hbody, hbody2, hsb, hdb, hpad, hpad2, rfl, rfl, rfl, rfl, rfl⟩
  have hOt : owedStream p.id 5 mc srecs ++ owedStream p.id 8 mc drecs =
      owedStream p.id 5 mc body ++ owedStream p.id 8 mc body2 := by
    rw [hsrecs, hdrecs, owedStream_append, owedStream_append, owedStream_term p.id 5 mc _ rfl,
      owedStream_term p.id 8 mc _ rfl, List.append_nil, List.append_nil]
  have htwf : (trec 8 p.id pad2 res2).WF := ⟨hid, by simp [trec], hpad2⟩
  have hidle : ∀ e ∈ [trec 8 p.id pad2 res2], IdleNoise e := by
    intro e he
    rw [List.mem_singleton.1 he]
    exact ⟨htwf, fun hx => absurd hx (by show (8 : UInt8).toNat ≠ RT.beginRequest; decide)⟩
  have hfit : NoiseFits (alignedBufsize b) [trec 8 p.id pad2 res2] := by
    intro e he hg
    rw [List.mem_singleton.1 he] at hg
    exact absurd hg.1 (by show (8 : UInt8).toNat ≠ RT.getValues; decide)
  obtain ⟨hns, hNF⟩ := idle_front dummy_wf b mc (fun q hq => by cases hq) (dummy_fits _) hidle hfit []
  rw [C02.serAll_single] at hns hNF
  have hst : FStage (cfgW3 p recs content body pad res content2 body2 pad2 res2 b mc W st t.wlog 0 more)
      (connS b mc t ((ffscriptW W st, true) :: more)) :=
    .start (raw := []) rfl (by
      show [] ++ t.input = _
      rw [hin, hsrecs, hdrecs, C02.serAll_append, C02.serAll_single, C02.serAll_append, C02.serAll_single,
        List.append_assoc]; rfl) (Nat.zero_le _) rfl hben rfl rfl rfl hev
  obtain ⟨c', fin, hrun, hres⟩ := run_filterWNNF ok (Z := serAll dummyRecs ++ []) hns hNF
    t.endMode [] _ 0 fuel hst rfl (fun s hs => by cases hs) hfl rfl (by show mu t + 1 ≤ fuel; unfold mu ans; omega)
  have hro := (run_idle_out mc [trec 8 p.id pad2 res2] hidle).1
  rw [C02.serAll_single] at hro
  have hio : idleOwed mc [trec 8 p.id pad2 res2] = [] := by
    simp [idleOwed, owed, trec, RT.valid, RT.getValues, RT.beginRequest]
  rcases hres with ⟨⟨O1, O2⟩, ⟨hkp, hO⟩, hk', hem, _, _, _, hend⟩ |
      ⟨hfin, ⟨O1, O2, hO, q3, hfu⟩, _, _⟩
  · have hout : ∀ F, F ++ (serAll dummyRecs ++ []) = (trec 8 p.id pad2 res2).ser ++ (serAll dummyRecs ++ []) →
        (cfgW3 p recs content body pad res content2 body2 pad2 res2 b mc W st t.wlog 0 more).Lw (E2E.writesOf W) O1 O2 ++ (run .header F mc).out =
        t.wlog ++ expectedLogW p recs mc (E2E.writesOf W) st O1 O2 := by
      intro F hF
      rw [List.append_cancel_right hF, hro, hio, List.append_nil, lw_eq3]
    refine ⟨c', fin, O1, O2, pad2, res2, hrun, hO.trans hOt.symm, ⟨hk'.hs, hk'.ev _ List.mem_cons_self⟩,
      hk'.ev _ (List.mem_cons_of_mem _ List.mem_cons_self),
      hk'.ev _ (List.mem_cons_of_mem _ (List.mem_cons_of_mem _ List.mem_cons_self)), ?_, hk'.sc, ?_⟩
    · rcases hend with ⟨_, hp⟩ | ⟨_, hf⟩
      · obtain ⟨F, hF, _, _, hlg⟩ := hp.pst
        exact hlg.trans (hout F hF)
      · obtain ⟨F, hF, hlg⟩ := hf.log
        exact hlg.trans (hout F hF)
    · rcases hend with ⟨rfl, hp⟩ | ⟨rfl, hf⟩
      · obtain ⟨F, hF, hps, hph, _⟩ := hp.pst
        have hFe : F = (trec 8 p.id pad2 res2).ser := List.append_cancel_right hF
        subst hFe
        exact Or.inr (Or.inr ⟨hkp, hem.symm.trans hp.em, rfl, hph, hp.inp, hk'.mx, hps.stop, hps.ben⟩)
      · exact Or.inr (Or.inl ⟨hkp, hem.symm.trans hf.em, rfl, hf.ph⟩)
  · exact ⟨c', fin, O1, O2, pad2, res2, hrun, hO.trans hOt.symm, ⟨hfu.ev.1, hfu.ev.2⟩,
      q3.1, q3.2, by rw [hfu.log, lw_eq3], hfu.sc, Or.inl ⟨hfu.nokeep, hfin, hfu.ph⟩⟩

/-- **`filter_writers_flush_chain_e2e` without `hhf`.** -/
theorem filter_writers_flush_chain_e2e_nofuel {p : Preamble} {recs : List Rec} {content : Bytes} {srecs : List Rec}
    {content2 : Bytes} {drecs : List Rec}
    {b mc : Nat} {W : FList} {st : ExitStatus} (x : UReq) (xs : List UReq) {t : Transport} {fuel : Nat}
    (hwf : WellFormedPreamble p recs) (hrole : p.role = 3) (hk : p.flags.toNat % 2 = 1)
    (hpairs : ∀ q ∈ p.pairs, (NV.enc q).length ≤ alignedBufsize b)
    (hnoise : NoiseFits (alignedBufsize b) recs)
    (hs : StreamRecs p.id 5 content srecs) (hsn : NoiseFits (alignedBufsize b) srecs)
    (hd : StreamRecs p.id 8 content2 drecs) (hdn : NoiseFits (alignedBufsize b) drecs)
    (hok : ∀ y ∈ x :: xs, y.OKu b)
    (hin : t.input = serAll recs ++ (serAll srecs ++ serAll drecs)) (hben : Ben t) (hem : t.endMode = .pend)
    (hev : hsCount t.events = 0) (hfl : ∀ a ∈ t.fl, a ≠ FlAns.err)
    (hfuel : t.rd.length + t.wr.length + t.fl.length + 1 ≤ fuel) :
    ∃ c' O₁ O₂ A,
      closedLoop fuel ((x :: xs).map UReq.wire)
        (connS b mc t ((ffscriptW W st, true) :: (x :: xs).map UReq.handler)) 0 = (c', "STALL") ∧
      O₁ ++ O₂ = owedStream p.id 5 mc srecs ++ owedStream p.id 8 mc drecs ∧
      SegsAll mc (x :: xs) A ∧
      c'.env.tr.wlog = t.wlog ++ expectedLogW p recs mc (E2E.writesOf W) st O₁ O₂ ++ A ∧
      hsCount c'.env.tr.events = 1 + (x :: xs).length ∧
      startEvent p.request ∈ c'.env.tr.events ∧ readEvent content ∈ c'.env.tr.events ∧
      readEvent content2 ∈ c'.env.tr.events ∧
      (∀ y ∈ x :: xs, startEvent y.p.request ∈ c'.env.tr.events) ∧ c'.scripts = [] ∧
      c'.env.tr.input = [] ∧
      c'.phase = .parseReq (track (alignedBufsize b) mc (serAll ((x :: xs).getLast (by simp)).left)) .reading := by
  have hid := (pid_of_wf hwf).2
  obtain ⟨body, pad, res, hpad, hbody, hsrecs⟩ := StreamRecs.split hs
  obtain ⟨body2, pad2, res2, hpad2, hbody2, hdrecs⟩ := StreamRecs.split hd
  have hsb : NoiseFits (alignedBufsize b) body := fun r hr => hsn r (by rw [hsrecs]; simp [hr])
  have hdb : NoiseFits (alignedBufsize b) body2 := fun r hr => hdn r (by rw [hdrecs]; simp [hr])
  have hOt : owedStream p.id 5 mc srecs ++ owedStream p.id 8 mc drecs =
      owedStream p.id 5 mc body ++ owedStream p.id 8 mc body2 := by
    rw [hsrecs, hdrecs, owedStream_append, owedStream_append, owedStream_term p.id 5 mc _ rfl,
      owedStream_term p.id 8 mc _ rfl, List.append_nil, List.append_nil]
  have ok : WFOK3N (cfgW3 p recs content body pad res content2 body2 pad2 res2 b mc W st t.wlog 0
      (((x :: xs).map (UReq.spec mc)).map RSpec.handler)) W :=
    ⟨hwf, hrole, hpairs, hnoise, hbody, hbody2, hsb, hdb, hpad, hpad2, rfl, rfl, rfl, rfl, rfl⟩
  have hap : C12Inv.AllProp (connS b mc t ((ffscriptW W st, true) :: ((x :: xs).map (UReq.spec mc)).map RSpec.handler)) := by
    refine ⟨fun s hs => ?_, trivial⟩
    rcases List.mem_cons.1 hs with rfl | hs
    · rfl
    · obtain ⟨z, hz, rfl⟩ := List.mem_map.1 hs
      obtain ⟨y, _, rfl⟩ := List.mem_map.1 hz
      cases y with
      | full q => cases q <;> rfl
      | unread => rfl
  have htw : (trec 8 p.id pad2 res2).WF := ⟨hid, by simp [trec], hpad2⟩
  have hT : IdleNoise (trec 8 p.id pad2 res2) :=
    ⟨htw, fun hx => absurd hx (by show (8 : UInt8).toNat ≠ RT.beginRequest; decide)⟩
  have hlo : LeftOK (alignedBufsize b) [trec 8 p.id pad2 res2] :=
    ⟨fun e he => by rw [List.mem_singleton.1 he]; exact hT, fun e he hg => by
      rw [List.mem_singleton.1 he] at hg
      exact absurd hg.1 (by show (8 : UInt8).toNat ≠ RT.getValues; decide)⟩
  have hW : (cfgW3 p recs content body pad res content2 body2 pad2 res2 b mc W st t.wlog 0
      (((x :: xs).map (UReq.spec mc)).map RSpec.handler)).W = t.input := by
    rw [hin, hsrecs, hdrecs, C02.serAll_append, C02.serAll_single, C02.serAll_append, C02.serAll_single,
      List.append_assoc]
    rfl
  have hstart : StartAt (alignedBufsize b) mc [] t.wlog
      ((ffscriptW W st, true) :: ((x :: xs).map (UReq.spec mc)).map RSpec.handler) 0 [] (ans t)
      (cfgW3 p recs content body pad res content2 body2 pad2 res2 b mc W st t.wlog 0
        (((x :: xs).map (UReq.spec mc)).map RSpec.handler)).W
      (connS b mc t ((ffscriptW W st, true) :: ((x :: xs).map (UReq.spec mc)).map RSpec.handler)) :=
    Or.inr ⟨rfl, rfl, by show t.input = _; rw [hW], rfl, hben, rfl, rfl, rfl, hev,
      (fun _ hs => nomatch hs), rfl, hem, Nat.le_refl _⟩
  have hleft0 : LeftOK (alignedBufsize b) [] := ⟨(fun _ he => nomatch he), (fun _ hr => nomatch hr)⟩
  obtain ⟨c1, O1, O2, hrun1, hO, hrd, hrd2, hw1⟩ := serve_filterWF_coreNF ok hk (left := []) hleft0 (Z := x.wire) hT
    (goodNext_of_oku (hok x List.mem_cons_self) hlo) 0 fuel (by simp [idleOwed]; rfl) hstart hap hfl
    (by show ans t + t.fl.length + 1 ≤ fuel; unfold ans; omega)
  have hz : idleOwed mc [trec 8 p.id pad2 res2] = [] := by
    simp [idleOwed, owed, trec, RT.valid, RT.getValues, RT.beginRequest]
  have hLw : ((cfgW3 p recs content body pad res content2 body2 pad2 res2 b mc W st t.wlog 0
      (((x :: xs).map (UReq.spec mc)).map RSpec.handler)).front []).Lw (E2E.writesOf W) O1 O2 ++ idleOwed mc [trec 8 p.id pad2 res2] =
      t.wlog ++ expectedLogW p recs mc (E2E.writesOf W) st O1 O2 := by
    rw [hz, List.append_nil]
    exact lw_eq3 O1 O2
  have hw1' : Waiting (alignedBufsize b) mc [trec 8 p.id pad2 res2]
      (t.wlog ++ expectedLogW p recs mc (E2E.writesOf W) st O1 O2)
      (((x :: xs).map (UReq.spec mc)).map RSpec.handler) 1 [hsEvent p.request, rEvent content, rEvent content2] (ans t) c1 := by
    rw [← hLw]
    have hev' : ∀ s ∈ [hsEvent p.request, rEvent content, rEvent content2], s ∈ c1.env.tr.events := by
      intro s hs
      rcases List.mem_cons.1 hs with rfl | hs
      · exact hw1.ev _ List.mem_cons_self
      rcases List.mem_cons.1 hs with rfl | hs
      · exact hrd
      · rw [List.mem_singleton.1 hs]; exact hrd2
    exact { hw1 with ev := hev' }
  obtain ⟨c', A, hrun, hseg, hw⟩ := chain_serves (alignedBufsize b) mc (serAll dummyRecs ++ [])
    (xs.map (UReq.spec mc)) (UReq.spec mc x) _ _ 1 [hsEvent p.request, rEvent content, rEvent content2] (ans t) (feed c1 x.wire) 1000 fuel
    (hall_of_oku x xs hok) hlo (Or.inl ⟨c1, hw1', rfl⟩) (by unfold ans; omega)
  have hrun' : closedLoop fuel ((x :: xs).map UReq.wire)
      (connS b mc t ((ffscriptW W st, true) :: (x :: xs).map UReq.handler)) 0 = (c', "STALL") := by
    have e : (x :: xs).map UReq.handler = ((x :: xs).map (UReq.spec mc)).map RSpec.handler := by
      rw [List.map_map]; rfl
    rw [e]
    show closedLoop fuel (x.wire :: xs.map UReq.wire) _ 0 = _
    rw [closedLoop, hrun1]
    simp only [if_true]
    rw [← hrun, List.map_map]; rfl
  have hlast := lastLeft_specs mc x xs
  refine ⟨c', O1, O2, A, hrun', hO.trans hOt.symm, segAll_specs mc (x :: xs) A hseg, hw.log, ?_, ?_, ?_, ?_, ?_, hw.sc, hw.inp, ?_⟩
  · have := hw.hs; simpa [Nat.add_comm] using this
  · exact hw.ev _ (mem_evsAfter _ _ _ (Or.inl List.mem_cons_self))
  · exact hw.ev _ (mem_evsAfter _ _ _ (Or.inl (by simp)))
  · exact hw.ev _ (mem_evsAfter _ _ _ (Or.inl (by simp)))
  · intro y hy
    exact hw.ev _ (mem_evsAfter _ _ _ (Or.inr ⟨UReq.spec mc y, List.mem_map_of_mem hy, rfl⟩))
  · rw [← hlast]; exact hw.ph

/-! ## Non-vacuity: 2000 ops (a flush before every one-byte write), and one write of 70 000 000 bytes -/
namespace ExampleNoFuel4
open Fcgi.C01.Example Fcgi.C07E.Example Fcgi.C07W.Example Fcgi.C07W.Example2 Fcgi.C07E.ExampleNoFuel

/-- 1000 times: flush Stdout, write one byte to Stdout -/
def manyF : FList := (List.replicate 1000 [E2E.WOp.f 0, E2E.WOp.w 0 [65]]).flatten

theorem flatten_replicate_len {α : Type} (n : Nat) (l : List α) : (List.replicate n l).flatten.length = n * l.length := by
  induction n with
  | zero => simp
  | succ n ih => rw [List.replicate_succ, List.flatten_cons, List.length_append, ih]; rw [Nat.succ_mul]; omega

theorem fcost_ge : ∀ W : FList, W.length ≤ E2E.fcost W
  | [] => Nat.le_refl _
  | .w _ d :: W => by have := fcost_ge W; simp only [E2E.fcost, List.length_cons]; unfold wcost; omega
  | .f _ :: W => by have := fcost_ge W; simp only [E2E.fcost, List.length_cons]; omega

/-- the old `hhf` fails for it … -/
theorem old_hhf_fails_manyF : ¬ (E2E.fcost manyF + 20 ≤ 1000) := by
  have := fcost_ge manyF
  have hl : manyF.length = 1000 * 2 := flatten_replicate_len 1000 _
  omega

theorem fcost_single (i : _root_.Fin 2) (d : Bytes) : E2E.fcost [.w i d] = wcost d.length + 0 := rfl

/-- … and for a single write of 70 000 000 bytes -/
theorem old_hhf_fails_bigF : ¬ (E2E.fcost [.w 0 bigData] + 20 ≤ 1000) := by
  rw [fcost_single, bigData_len]; unfold wcost; omega

/-- the `_nofuel` theorem applies to EVERY op list `W` (in particular to those two), over the transport `fT` with
`Pending` flush answers: one handler start, `readAll` returned the content -/
example (W : FList) :
    ∃ c' fin, runTask 20 (connS 64 10 Example2.fT [(fscriptW W (.complete 0), true)]) 0 none = (c', fin) ∧
      hsCount c'.env.tr.events = 1 ∧ readEvent [65, 66, 67] ∈ c'.env.tr.events := by
  obtain ⟨c', fin, O1, O2, pad, res, hrun, _, ho⟩ := single_request_writers_flush_e2e_nomore_nofuel (p := pre) (recs := recs)
    (content := [65, 66, 67]) (srecs := nS) (b := 64) (mc := 10) (W := W) (st := .complete 0) (more := []) (t := Example2.fT)
    (fuel := 20) recs_wf rfl (pre_pairs_fit 64) (noise_fits 64) nS_ok nS_fits rfl ⟨by decide, by decide, rfl, by decide⟩ rfl
    (by decide) (by decide)
  exact ⟨c', fin, hrun, ho.one_handler.1, ho.read⟩

end ExampleNoFuel4

end Fcgi.C07W
