import Fcgi.Proofs.E2EBufRead
import Fcgi.Props.C07Unread4
/-!
# C07 — the handler drains its input through the `AsyncBufRead` interface (`fill_buf` / `consume`)

Every other whole-run theorem uses `read` / `readAll` (`AsyncRead`).  Here the Responder's handler is

  `bscript n k data st` = `n` × (`fill_buf().await; consume(k)`), `fill_buf().await`,
                          `output_stream(Stdout)`, `write_all(data)`, drop, `return st`.

The model has NO looping buffered read (`.readAll` is the only loop of the script language), so the
number of rounds is fixed in the script: the bounded form.  `k ≥ 1` and `n ≥ |content|` rounds suffice
whatever the chunking, the noise and the transport: a round whose `fill_buf` shows a non-empty slice takes
at least one byte; at the end of Stdin `fill_buf` shows the empty slice and the round takes nothing.
`k ≥` buffer size is the variant "consume all that is shown", `k = 1` "one byte at a time" (then a slice is
shown again and again until it is used up — `fill_buf` with buffered data does not touch the transport).

`single_request_bufread_e2e`: any segmentation / noise / benign transport as in `single_request_e2e`:

* exactly one handler start;
* `shown` = the slices the `fill_buf`s showed (each one's event `f=len:hex` is in the trace): the
  concatenation of what was consumed — the first `k` bytes of each — is exactly the Stdin content;
* the final `fill_buf` shows the EMPTY slice (`f=0:-`): end of file is seen exactly at the end;
* the write log is that of `single_request_e2e`: preamble replies, `O₁`, the Stdout records, `O₂`, the
  epilogue, with `O₁ ++ O₂` the replies owed for the noise inside Stdin;
* the task returns (no KEEP_CONN, or end of input) or is parked, the Stdin terminator swallowed.

Not covered here: the variant that consumes less than shown and then `readAll`s the rest, and the
"consumes part, returns" variant (they need `readAll` / `record_boundary()` from a request with buffered
stream data; see the report).
-/
namespace Fcgi.C07B
open Fcgi Fcgi.Req Fcgi.Str Fcgi.Async Fcgi.Run Fcgi.Spec Fcgi.E2E Fcgi.C07E Fcgi.C07U

/-- the event of a `fill_buf` that showed `s` -/
abbrev fillEvent (s : Bytes) : String := fEvent s

/-- a Responder request whose handler is `bscript n k data st` -/
def cfgBR (p : Preamble) (recs : List Rec) (content : Bytes) (body : List Rec) (pad : Bytes) (res : UInt8)
    (b mc n k : Nat) (data : Bytes) (st : ExitStatus) (L0 : Bytes) (h : Nat) (more : List (List HOp × Bool)) :
    E2E.Cfg :=
  ⟨p, recs, content, body, pad, res, [], [], [], 0, b, mc, data, st, L0, h, more,
    serAll body ++ (trec 5 p.id pad res).ser, [], (trec 5 p.id pad res).ser, [], [], bscript n k data st⟩

structure BufReadOutcome (p : Preamble) (recs : List Rec) (content : Bytes) (k : Nat) (shown : List Bytes)
    (O₁ O₂ : Bytes) (pad : Bytes) (res : UInt8) (b mc : Nat) (data : Bytes) (st : ExitStatus)
    (more : List (List HOp × Bool)) (t : Transport) (c' : Conn) (fin : String) : Prop where
  /-- exactly one handler invocation, for the request sent -/
  one_handler : hsCount c'.env.tr.events = 1 ∧ startEvent p.request ∈ c'.env.tr.events
  /-- the slices shown; what was consumed of them, concatenated, is the Stdin content -/
  consumed : content = taken k shown ∧ ∀ s ∈ shown, fillEvent s ∈ c'.env.tr.events
  /-- the final `fill_buf` showed the empty slice -/
  eof : fillEvent [] ∈ c'.env.tr.events
  log : c'.env.tr.wlog = t.wlog ++ expectedLogN p recs mc data st O₁ O₂
  scripts : c'.scripts = more
  final : (p.flags.toNat % 2 = 0 ∧ fin = "RET" ∧ c'.phase = .finished) ∨
          (p.flags.toNat % 2 = 1 ∧ t.endMode = .eof ∧ fin = "RET" ∧ c'.phase = .finished) ∨
          (p.flags.toNat % 2 = 1 ∧ t.endMode = .pend ∧ fin = "STALL" ∧
            c'.phase = .parseReq (track (alignedBufsize b) mc (trec 5 p.id pad res).ser) .reading ∧
            c'.env.tr.input = [] ∧ c'.env.mutex = none ∧ c'.stop = false ∧ Ben c'.env.tr)

theorem lb_eq {p : Preamble} {recs : List Rec} {content : Bytes} {body : List Rec} {pad : Bytes} {res : UInt8}
    {b mc n k : Nat} {data : Bytes} {st : ExitStatus} {L0 : Bytes} {h : Nat} {more : List (List HOp × Bool)}
    (O1 O2 : Bytes) :
    (cfgBR p recs content body pad res b mc n k data st L0 h more).Lb O1 O2 =
      L0 ++ expectedLogN p recs mc data st O1 O2 := by
  show (L0 ++ owedPreamble p mc recs) ++ O1 ++ streamRecords 6 p.id data ++ O2 ++
    makeRequestEpilogue p.id st [RT.stdout, RT.stderr] = _
  rw [(C17.epilogue_spec p.id st _).1]
  simp [expectedLogN, epilogue, List.append_assoc]

/-- **C07 end to end: one Responder request whose handler drains Stdin through `AsyncBufRead`.** -/
theorem single_request_bufread_e2e {p : Preamble} {recs : List Rec} {content : Bytes} {srecs : List Rec}
    {b mc n k : Nat} {data : Bytes} {st : ExitStatus} {more : List (List HOp × Bool)} {t : Transport} {fuel : Nat}
    (hwf : WellFormedPreamble p recs) (hrole : p.role = 1)
    (hpairs : ∀ q ∈ p.pairs, (NV.enc q).length ≤ alignedBufsize b)
    (hnoise : NoiseFits (alignedBufsize b) recs)
    (hs : StreamRecs p.id 5 content srecs) (hsn : NoiseFits (alignedBufsize b) srecs)
    (hk : 0 < k) (hn : content.length ≤ n)
    (hin : t.input = serAll recs ++ serAll srecs) (hben : Ben t) (hev : hsCount t.events = 0)
    (hfuel : t.rd.length + t.wr.length + 1 ≤ fuel)
    (hsize : 6 * t.input.length + 26 ≤ 100000)
    (hhf : 2 * n + wcost data.length + 10 ≤ 1000) :
    ∃ c' fin O₁ O₂ shown pad res,
      runTask fuel (connS b mc t ((bscript n k data st, true) :: more)) 0 none = (c', fin) ∧
      O₁ ++ O₂ = owedStream p.id 5 mc srecs ∧
      BufReadOutcome p recs content k shown O₁ O₂ pad res b mc data st more t c' fin := by
  obtain ⟨body, pad, res, hpad, hbody, hsrecs⟩ := StreamRecs.split hs
  have hid := (pid_of_wf hwf).2
  have hsb : NoiseFits (alignedBufsize b) body := fun r hr => hsn r (by rw [hsrecs]; simp [hr])
  have ok : BROK (cfgBR p recs content body pad res b mc n k data st t.wlog 0 more) n k :=
    ⟨hwf, hrole, hpairs, hnoise, hbody, hsb, hpad, rfl, rfl, rfl, rfl, hk, hn, hhf⟩
  have hOt : owedStream p.id 5 mc srecs = owedStream p.id 5 mc body := by
    rw [hsrecs, owedStream_append, owedStream_term p.id 5 mc _ rfl, List.append_nil]
  have htwf : (trec 5 p.id pad res).WF := ⟨hid, by simp [trec], hpad⟩
  have hidle : ∀ e ∈ [trec 5 p.id pad res], IdleNoise e := by
    intro e he
    rw [List.mem_singleton.1 he]
    exact ⟨htwf, fun hx => absurd hx (by show (5 : UInt8).toNat ≠ RT.beginRequest; decide)⟩
  have hfit : NoiseFits (alignedBufsize b) [trec 5 p.id pad res] := by
    intro e he hg
    rw [List.mem_singleton.1 he] at hg
    exact absurd hg.1 (by show (5 : UInt8).toNat ≠ RT.getValues; decide)
  obtain ⟨hns, hNF⟩ := idle_front dummy_wf b mc (fun q hq => by cases hq) (dummy_fits _) hidle hfit []
  rw [C02.serAll_single] at hns hNF
  have hst : FStage (cfgBR p recs content body pad res b mc n k data st t.wlog 0 more)
      (connS b mc t ((bscript n k data st, true) :: more)) :=
    .start (raw := []) rfl (by
      show [] ++ t.input = _
      rw [hin, hsrecs, C02.serAll_append, C02.serAll_single]; rfl) (Nat.zero_le _) rfl hben rfl rfl rfl hev
  obtain ⟨c', fin, hrun, hres⟩ := run_bufread ok (Z := serAll dummyRecs ++ []) hns hNF
    t.endMode [] _ 0 fuel hst rfl (fun s hs => by cases hs) rfl (by show ans t + 1 ≤ fuel; unfold ans; omega) hsize
  have hro := (run_idle_out mc [trec 5 p.id pad res] hidle).1
  rw [C02.serAll_single] at hro
  have hio : idleOwed mc [trec 5 p.id pad res] = [] := by
    simp [idleOwed, owed, trec, RT.valid, RT.getValues, RT.beginRequest]
  rcases hres with ⟨⟨O1, O2, shown⟩, ⟨hkp, hO, hcont⟩, hk', hem, _, _, _, hend⟩ | ⟨hfin, ⟨O1, O2, shown, hO, hseen, hfu⟩, _, _⟩
  · have hout : ∀ F, F ++ (serAll dummyRecs ++ []) = (trec 5 p.id pad res).ser ++ (serAll dummyRecs ++ []) →
        (cfgBR p recs content body pad res b mc n k data st t.wlog 0 more).Lb O1 O2 ++ (run .header F mc).out =
        t.wlog ++ expectedLogN p recs mc data st O1 O2 := by
      intro F hF
      rw [List.append_cancel_right hF, hro, hio, List.append_nil, lb_eq]
    refine ⟨c', fin, O1, O2, shown, pad, res, hrun, hO.trans hOt.symm, ⟨hk'.hs, hk'.ev _ List.mem_cons_self⟩,
      ⟨hcont, fun s hs => hk'.ev _ (by simp [List.mem_map]; exact Or.inr (Or.inr ⟨s, hs, rfl⟩))⟩,
      hk'.ev _ (by simp), ?_, hk'.sc, ?_⟩
    · rcases hend with ⟨_, hp⟩ | ⟨_, hf⟩
      · obtain ⟨F, hF, _, _, hlg⟩ := hp.pst
        exact hlg.trans (hout F hF)
      · obtain ⟨F, hF, hlg⟩ := hf.log
        exact hlg.trans (hout F hF)
    · rcases hend with ⟨rfl, hp⟩ | ⟨rfl, hf⟩
      · obtain ⟨F, hF, hps, hph, _⟩ := hp.pst
        have hFe : F = (trec 5 p.id pad res).ser := List.append_cancel_right hF
        subst hFe
        exact Or.inr (Or.inr ⟨hkp, hem.symm.trans hp.em, rfl, hph, hp.inp, hk'.mx, hps.stop, hps.ben⟩)
      · exact Or.inr (Or.inl ⟨hkp, hem.symm.trans hf.em, rfl, hf.ph⟩)
  · exact ⟨c', fin, O1, O2, shown, pad, res, hrun, hO.trans hOt.symm, ⟨hfu.ev.1, hfu.ev.2⟩, ⟨hseen.1, hseen.2.1⟩,
      hseen.2.2, by rw [hfu.log, lb_eq], hfu.sc, Or.inl ⟨hfu.nokeep, hfin, hfu.ph⟩⟩

/-! ## The per-poll ledger of `Props/C09E2E.lean` -/

theorem rounds_reading (n k : Nat) : ∀ op ∈ rounds n k ++ [.fill], C09E.isReadingOp op = true := by
  induction n with
  | zero => intro op hop; simp [rounds] at hop; subst hop; rfl
  | succ n ih =>
    intro op hop
    simp only [rounds, List.cons_append, List.mem_cons] at hop
    rcases hop with rfl | rfl | hop
    · rfl
    · rfl
    · exact ih op hop

/-- The reading part of `bscript` is a script of reading operations in the sense of `Props/C09E2E.lean`:
in every poll of the handler, what its `consume`s take (`C09E.ledgerPoll`) continues the bytes handed over
so far to a prefix of the stream content — in order, each byte once (`C09E.reads_are_prefix`).  The
whole-run theorem above adds that over all polls the sum is the whole content. -/
theorem bufread_ledger_prefix {K : RCtx} (hK : K.OK) {L P handed : Bytes} {r : AReq} {e : Run.Env} (n k fuel : Nat)
    (hs : C09E.RdSt K L P handed r { ops := rounds n k ++ [.fill] } e) :
    handed ++ C09E.ledgerPoll fuel r { ops := rounds n k ++ [.fill] } e <+: K.C :=
  C09E.reads_are_prefix hK fuel hs

/-! ## Non-vacuity -/
namespace Example
open Fcgi.C07E.Example

/-- Responder request 1, KEEP_CONN, no parameters -/
def preB : Preamble := { id := 1, role := 1, flags := 1, pairs := [] }
def recsB : List Rec :=
  [ { rtype := 1, id := 1, content := [0, 1, 1, 0, 0, 0, 0, 0], pad := [] },
    { rtype := 4, id := 1, content := [], pad := [] } ]
theorem recsB_wf : WellFormedPreamble preB recsB :=
  .begin [] 0 [0, 0, 0, 0, 0] rfl (by decide) (by decide) (by decide) (fun q hq => by cases hq) (.done [] 0 (by decide))

/-- Stdin: `"ABC"`, `"DE"` (3 bytes of padding), the terminator -/
def sB : List Rec :=
  [ { rtype := 5, id := 1, content := [65, 66, 67], pad := [] },
    { rtype := 5, id := 1, content := [68, 69], pad := [0, 0, 0] },
    { rtype := 5, id := 1, content := [], pad := [] } ]
theorem sB_ok : StreamRecs 1 5 [65, 66, 67, 68, 69] sB :=
  .chunk [65, 66, 67] [] 0 (by decide) (by decide)
    (.chunk [68, 69] [0, 0, 0] 0 (by decide) (by decide) (.term [] 0 (by decide)))

def bT : Transport :=
  { input := serAll recsB ++ serAll sB, endMode := .pend,
    rd := [.n 24, .n 7, .pending, .n 9, .all], wr := [.n 5, .pending, .all], fl := [] }

/-- `single_request_bufread_e2e`, one byte at a time (`k = 1`), exactly `|content| = 5` rounds.  The same
wire with two `GetValues` records interleaved was replayed on the crate for `k = 64, 1, 2`
(`/verif/.run/replay-c07-bufread.ops`, model driver = crate), e.g. `# case c07buf-keep-k1-split`:
`… f=3:414243 f=2:4243 f=1:43 R63:3 R60:P |4 R60:41 f=2:4445 f=1:45 W32:32 f=0:- o=w0 V8+2+6:16 W=ok
HE(ok:complete:3) W32:32 R64:W STALL`: a slice is shown again, one byte shorter, until it is used up; the
sixth `fill_buf` shows the empty slice. -/
example : ∃ c' shown, runTask 20 (connS 64 10 bT [(bscript 5 1 [111, 107] (.complete 3), true)]) 0 none = (c', "STALL") ∧
    [65, 66, 67, 68, 69] = taken 1 shown ∧ (∀ s ∈ shown, fillEvent s ∈ c'.env.tr.events) ∧
    fillEvent [] ∈ c'.env.tr.events ∧
    c'.env.tr.wlog = streamRecords 6 1 [111, 107] ++ epilogue 1 (.complete 3) ∧
    hsCount c'.env.tr.events = 1 ∧ c'.env.tr.input = [] := by
  obtain ⟨c', fin, O1, O2, shown, pad, res, hrun, hO, ho⟩ := single_request_bufread_e2e (p := preB) (recs := recsB)
    (content := [65, 66, 67, 68, 69]) (srecs := sB) (b := 64) (mc := 10) (n := 5) (k := 1) (data := [111, 107])
    (st := .complete 3) (more := []) (t := bT) (fuel := 20)
    recsB_wf rfl (fun q hq => by cases hq) (no_getValues_fits (by decide)) sB_ok (no_getValues_fits (by decide))
    (by decide) (by decide) rfl ⟨by decide, by decide, rfl, by decide⟩ rfl (by decide) (by decide +kernel)
    (by decide +kernel)
  have hO0 : owedStream 1 5 10 sB = [] := by decide +kernel
  rw [show preB.id = 1 from rfl, hO0] at hO
  obtain ⟨h1, h2⟩ := List.append_eq_nil_iff.1 hO
  subst h1 h2
  rcases ho.final with ⟨h, _⟩ | ⟨_, h, _⟩ | ⟨_, _, hfin, _, hin, _⟩
  · exact absurd h (by decide)
  · exact absurd h (by decide)
  · subst hfin
    refine ⟨c', shown, hrun, ho.consumed.1, ho.consumed.2, ho.eof, ?_, ho.one_handler.1, hin⟩
    rw [ho.log]
    have h1 : owedPreamble preB 10 recsB = [] := by decide +kernel
    simp [expectedLogN, h1, bT]
    rfl

end Example

end Fcgi.C07B
