import Fcgi.Proofs.E2EScriptSwapR
import Fcgi.Props.C12Chain4
/-!
# C12 — an erroring READ in the last request of a chain, the error in the script from the start: ANY own index

The read-side analogue of `Props/C12Chain4`, with `Proofs/E2EScriptSwapR` (**a run that ends with at least `kq ≥ 1` READ
answers left is the same run when those last `kq` answers are replaced by anything**: `E2E.runTask_swR`,
`E2E.closedLoop_swR`).

`read_error_in_last_request_at_index_e2e_whole0`: `tB` benign, the chain prefix on `tB` consumes `n` read answers and
leaves at least one (`hrem`: the benign read script has spare answers).  Then for EVERY own index `i ≥ 0`: the WHOLE
closed-loop run on `{ tB with rd := tB.rd.take (n + i) ++ .err :: post }` — the error at absolute position `n + i` of the
read script from the start, `i = 0` included — ends as in `Props/C12Chain2/3`: never reached (`STALL`, all answered) or
consumed (`RET`, `finished`, the log = the `k` segments ++ a byte prefix of the answer to `y`, `k` or `k + 1` handler
starts, the error `ConnectionAborted` or the transport's read error).
(Note: the read on which the task PARKS between two requests consumes a read answer; it belongs to the prefix.)
-/
namespace Fcgi.C12E
open Fcgi Fcgi.Req Fcgi.Str Fcgi.Async Fcgi.Run Fcgi.Spec Fcgi.E2E Fcgi.C07E Fcgi.C07U Fcgi.C12Inv Fcgi.Indep3 Fcgi.EofErr

theorem feed_swpR (c : Conn) (w : Bytes) (s : List RdAns) :
    E2E.feed (swpCR c.env.tr.rd.length s c) w = feedR c w s := by
  obtain ⟨phase, env, scripts, stop⟩ := c
  obtain ⟨tr, mutex, segs⟩ := env
  obtain ⟨input, endMode, rd, wr, fl, wlog, events, hold, woken, readWaker, abortKind⟩ := tr
  simp [E2E.feed, swpCR, swpER, swpR, feedR]

/-- **C12 end to end: the `i`-th own read answer of the last request of a chain is an error, `i ≥ 0`, the error in the
script from the start.** -/
theorem read_error_in_last_request_at_index_e2e_whole0 {b mc : Nat} (x : UReq) (xs : List UReq) (y : UReq)
    {tB : Transport} {fuel : Nat}
    (hok : ∀ z ∈ x :: xs, z.OKu b) (hoky : y.OKu b) (hleft : ((x :: xs).getLast (by simp)).left = [])
    (hin : tB.input = x.wire) (hben : Ben tB) (hem : tB.endMode = .pend) (hev : hsCount tB.events = 0)
    (hfuel : tB.rd.length + tB.wr.length + 1 ≤ fuel) :
    ∃ c₁ A n,
      closedLoop fuel (xs.map UReq.wire) (connS b mc tB ((x :: xs).map UReq.handler ++ [y.handler])) 0 = (c₁, "STALL") ∧
      SegsAll mc (x :: xs) A ∧ c₁.env.tr.rd = tB.rd.drop n ∧ n + c₁.env.tr.rd.length = tB.rd.length ∧
      (c₁.env.tr.rd ≠ [] → ∀ (i : Nat) (post : List RdAns),
        ∃ c' fin Ay,
          closedLoop fuel (xs.map UReq.wire ++ [y.wire])
            (connS b mc { tB with rd := tB.rd.take (n + i) ++ .err :: post } ((x :: xs).map UReq.handler ++ [y.handler])) 0 =
            (c', fin) ∧
          y.Seg mc Ay ∧
          ((fin = "STALL" ∧ c'.env.tr.wlog = tB.wlog ++ A ++ Ay ∧ hsCount c'.env.tr.events = (x :: xs).length + 1 ∧
              ∃ rest, c'.env.tr.rd = rest ++ .err :: post) ∨
           (fin = "RET" ∧ c'.phase = .finished ∧
            (∃ w, c'.env.tr.wlog = tB.wlog ++ A ++ w ∧ w <+: Ay) ∧
            (x :: xs).length ≤ hsCount c'.env.tr.events ∧ hsCount c'.env.tr.events ≤ (x :: xs).length + 1 ∧
            (∃ e inH, (e = .connectionAborted ∨ e = .transportRead) ∧
              (inH = true → ∃ evs, c'.env.tr.events = evs ++ [handlerErrEv e]))))) := by
  obtain ⟨c₁, A, hrun, hseg, hw, _, _, ⟨n, hn1, hn2⟩⟩ :=
    chain_prefix_s (mc := mc) x xs [y.handler] hok hleft hin hben hem hev hfuel
  refine ⟨c₁, A, n, hrun, hseg, hn1, hn2, fun hrem i post => ?_⟩
  have hk1 : 1 ≤ c₁.env.tr.rd.length := List.length_pos_iff.2 hrem
  have hsw := closedLoop_swR c₁.env.tr.rd.length hk1 ((tB.rd.drop n).take i ++ .err :: post) fuel (xs.map UReq.wire)
    (connS b mc tB ((x :: xs).map UReq.handler ++ [y.handler])) 0 (by rw [hrun]; exact Nat.le_refl _)
  rw [hrun] at hsw
  simp only at hsw
  have hc : connS b mc { tB with rd := tB.rd.take (n + i) ++ .err :: post } ((x :: xs).map UReq.handler ++ [y.handler]) =
      swpCR c₁.env.tr.rd.length ((tB.rd.drop n).take i ++ .err :: post)
        (connS b mc tB ((x :: xs).map UReq.handler ++ [y.handler])) := by
    have e1 : tB.rd.length - c₁.env.tr.rd.length = n := by omega
    have e2 : tB.rd.take (n + i) ++ .err :: post =
        tB.rd.take (tB.rd.length - c₁.env.tr.rd.length) ++ ((tB.rd.drop n).take i ++ .err :: post) := by
      rw [e1, ← List.append_assoc, ← List.take_add]
    simp only [connS, swpCR, swpER, swpR]
    rw [e2]
  have hsub : ∀ a ∈ (tB.rd.drop n).take i, a ≠ RdAns.err := fun a ha =>
    hw.ben.rd a (by rw [hn1]; exact List.mem_of_mem_take ha)
  have hans := hw.ans
  obtain ⟨c', fin, Ay, hleg, hsy, hcase⟩ := read_error_leg (mc := mc) y (fuel := fuel)
    (0 + 1000 * ((xs.map UReq.wire).length + 1)) ((tB.rd.drop n).take i) post hoky hw hsub (by
      have h1 : ((tB.rd.drop n).take i).length ≤ c₁.env.tr.rd.length := by rw [hn1]; exact List.length_take_le' _ _
      unfold ans at hans
      omega)
  refine ⟨c', fin, Ay, ?_, hsy, ?_⟩
  · rw [closedLoop_snoc, hc, hsw]
    simp only [if_true]
    rw [feed_swpR]
    exact hleg
  · have hlog : c₁.env.tr.wlog = tB.wlog ++ A := hw.log
    rcases hcase with ⟨h1, h2, h3, h4⟩ | ⟨h1, h2, h3, h4, h5, h6⟩
    · exact Or.inl ⟨h1, h2, h3, h4⟩
    · exact Or.inr ⟨h1, h2, h3, h4, h5, h6⟩

/-! ## Non-vacuity: the error is the first read answer the second request gets -/
namespace ExampleChain5
open Fcgi.C01.Example Fcgi.C07E.Example ExampleChain

/-- the transport of `Props/C07E2E` with a long benign read script -/
def exT5 : Transport :=
  { exT2 with rd := [.n 10, .pending, .n 7, .all, .n 3, .all, .all, .all, .all, .all, .all, .all, .all, .all] }

example : ∃ c₁ n, closedLoop 20 [] (connS 64 10 exT5
      ([UReq.full q1].map UReq.handler ++ [(UReq.full q1).handler])) 0 = (c₁, "STALL") ∧
    c₁.env.tr.rd = exT5.rd.drop n ∧
    (c₁.env.tr.rd ≠ [] →
      ∃ c' fin, closedLoop 20 [q1.wire] (connS 64 10 { exT5 with rd := exT5.rd.take (n + 0) ++ [.err] }
          ([UReq.full q1].map UReq.handler ++ [(UReq.full q1).handler])) 0 = (c', fin) ∧
        hsCount c'.env.tr.events ≤ 2 ∧ (fin = "STALL" ∨ (fin = "RET" ∧ c'.phase = .finished))) := by
  obtain ⟨c₁, A, n, h1, _, h3, _, hw⟩ :=
    read_error_in_last_request_at_index_e2e_whole0 (b := 64) (mc := 10) (.full q1) [] (.full q1) (tB := exT5) (fuel := 20)
      (fun y hy => by rw [List.mem_singleton.1 hy]; exact ⟨q1_oku _, by decide⟩) ⟨q1_oku _, by decide⟩
      (by rfl) (by rfl) ⟨by decide, by decide, rfl, by decide⟩ (by rfl) (by rfl) (by decide)
  refine ⟨c₁, n, h1, h3, fun hrem => ?_⟩
  obtain ⟨c', fin, Ay, hrun, _, hcase⟩ := hw hrem 0 []
  refine ⟨c', fin, hrun, ?_, ?_⟩
  · rcases hcase with ⟨_, _, h, _⟩ | ⟨_, _, _, _, h, _⟩
    · rw [h]; decide
    · exact h
  · rcases hcase with ⟨h, _⟩ | ⟨h, hph, _⟩
    · exact Or.inl h
    · exact Or.inr ⟨h, hph⟩
end ExampleChain5

end Fcgi.C12E
